import Abasic.Proofs.Hoare
/-
  Relation C: flags transparency (C17).

  `erase σ` forgets the two flags and the Warning / Trace records of the output
  queue.  `Sim m` is the two-run statement: from erase-equal states `m` yields
  the same value / the same error and erase-equal states.

  The working notion is the (stronger) one-sided `Comm m`: running `m` on the
  erased state gives exactly the erased result of running it on the state.
  `Comm` has the same structural rules as `Respects` and implies `Sim`; the only
  operations of the model that are `Sim` but not `Comm` are the TRACE / NOTRACE
  commands (they set a flag in an erased state).
-/
namespace Abasic.Hoare
open Abasic M

variable {F : Type}

/-- the records that survive erasure -/
def keepOut : Out → Bool
  | .warning _ _ => false
  | .trace _ => false
  | _ => true

def erase (σ : St F) : St F :=
  { σ with warnings := false, tracing := false, out := σ.out.filter keepOut }

/-- the literal form of the task statement -/
theorem erase_eq (σ : St F) : erase σ =
    { σ with warnings := false, tracing := false,
             out := σ.out.filter (fun o => match o with | .warning _ _ => false | .trace _ => false | _ => true) } := by
  unfold erase
  congr 2

theorem erase_idem (σ : St F) : erase (erase σ) = erase σ := by
  simp [erase, List.filter_filter]

/-- same outcome, erase-equal final states -/
def ResSim {α : Type} : Res F α → Res F α → Prop
  | .ok a s, .ok b t => a = b ∧ erase s = erase t
  | .err e s, .err e' t => e = e' ∧ erase s = erase t
  | _, _ => False

def Sim {α : Type} (m : M F α) : Prop :=
  ∀ σ₁ σ₂, erase σ₁ = erase σ₂ → ResSim (m σ₁) (m σ₂)

def _root_.Abasic.Res.mapSt {α : Type} (g : St F → St F) : Res F α → Res F α
  | .ok a s => .ok a (g s)
  | .err e s => .err e (g s)

theorem resSim_iff {α : Type} (r₁ r₂ : Res F α) : ResSim r₁ r₂ ↔ r₁.mapSt erase = r₂.mapSt erase := by
  cases r₁ <;> cases r₂ <;> simp [ResSim, Res.mapSt]

theorem ResSim.refl {α : Type} (r : Res F α) : ResSim r r := (resSim_iff r r).2 rfl
theorem ResSim.symm {α : Type} {r₁ r₂ : Res F α} (h : ResSim r₁ r₂) : ResSim r₂ r₁ :=
  (resSim_iff _ _).2 ((resSim_iff _ _).1 h).symm
theorem ResSim.trans {α : Type} {r₁ r₂ r₃ : Res F α} (h : ResSim r₁ r₂) (h' : ResSim r₂ r₃) : ResSim r₁ r₃ :=
  (resSim_iff _ _).2 (((resSim_iff _ _).1 h).trans ((resSim_iff _ _).1 h'))

/-- `m₁` on the erased state computes the erased result of `m₂` -/
def Comm2 {α : Type} (m₁ m₂ : M F α) (σ : St F) : Prop := m₁ (erase σ) = (m₂ σ).mapSt erase

def Comm {α : Type} (m : M F α) : Prop := ∀ σ, Comm2 m m σ

section rules
variable {α β : Type}

theorem Comm.at {m : M F α} (h : Comm m) (σ : St F) : Comm2 m m σ := h σ
theorem comm_of_at {m : M F α} (h : ∀ σ, Comm2 m m σ) : Comm m := h
theorem comm2_of_comm {m : M F α} {σ : St F} (h : Comm m) : Comm2 m m σ := h σ

/-- `Comm` implies `Sim` -/
theorem Comm.sim {m : M F α} (h : Comm m) : Sim m := by
  intro σ₁ σ₂ he
  rw [resSim_iff, ← h σ₁, ← h σ₂, he]

/-- `Sim`, one-sided: the characterisation by the erased state -/
theorem sim_iff {m : M F α} : Sim m ↔ ∀ σ, (m (erase σ)).mapSt erase = (m σ).mapSt erase := by
  constructor
  · intro h σ
    exact (resSim_iff _ _).1 (h (erase σ) σ (erase_idem σ))
  · intro h σ₁ σ₂ he
    rw [resSim_iff, ← h σ₁, ← h σ₂, he]

theorem sim_pure (a : α) : Sim (pure a : M F α) := fun _ _ h => ⟨rfl, h⟩
theorem sim_fail (e : Err) : Sim (M.fail e : M F α) := fun _ _ h => ⟨rfl, h⟩
theorem sim_rpanic (s : String) : Sim (M.rpanic s : M F α) := fun _ _ h => ⟨rfl, h⟩

/-- the bind rule for `Sim` -/
theorem sim_bind {m : M F α} {f : α → M F β} (hm : Sim m) (hf : ∀ a, Sim (f a)) : Sim (m >>= f) := by
  intro σ₁ σ₂ he
  have h := hm σ₁ σ₂ he
  show ResSim (M.bindM m f σ₁) (M.bindM m f σ₂)
  unfold M.bindM
  cases h₁ : m σ₁ with
  | ok a s =>
    cases h₂ : m σ₂ with
    | ok b t =>
      rw [h₁, h₂] at h
      obtain ⟨rfl, hs⟩ := h
      exact hf a s t hs
    | err e t => rw [h₁, h₂] at h; exact h.elim
  | err e s =>
    cases h₂ : m σ₂ with
    | ok b t => rw [h₁, h₂] at h; exact h.elim
    | err e' t => rw [h₁, h₂] at h; exact h

theorem sim_modify {f : St F → St F} (h : ∀ σ₁ σ₂ : St F, erase σ₁ = erase σ₂ → erase (f σ₁) = erase (f σ₂)) :
    Sim (M.modify f) := fun σ₁ σ₂ he => ⟨rfl, h σ₁ σ₂ he⟩

theorem sim_ite {c : Prop} [Decidable c] {t e : M F α} (ht : Sim t) (he : Sim e) : Sim (if c then t else e) := by
  by_cases h : c
  · rw [if_pos h]; exact ht
  · rw [if_neg h]; exact he

theorem sim_postprocess {m : M F α} (hm : Sim m) : Sim (postprocess m) := by
  intro σ₁ σ₂ he
  have h := hm σ₁ σ₂ he
  unfold postprocess
  cases h₁ : m σ₁ with
  | ok a s =>
    cases h₂ : m σ₂ with
    | ok b t => rw [h₁, h₂] at h; exact h
    | err e t => rw [h₁, h₂] at h; exact h.elim
  | err e s =>
    cases h₂ : m σ₂ with
    | ok b t => rw [h₁, h₂] at h; exact h.elim
    | err e' t =>
      rw [h₁, h₂] at h
      obtain ⟨rfl, hs⟩ := h
      have hp : s.populate e = t.populate e := by
        have h1 : (erase s).populate e = s.populate e := rfl
        have h2 : (erase t).populate e = t.populate e := rfl
        rw [← h1, ← h2, hs]
      refine ⟨hp, ?_⟩
      show erase { s with state := .idle } = erase { t with state := .idle }
      have h1 : erase { s with state := .idle } = { erase s with state := .idle } := rfl
      have h2 : erase { t with state := .idle } = { erase t with state := .idle } := rfl
      rw [h1, h2, hs]

/-! ### `Comm`: global rules -/

theorem comm_pure (a : α) : Comm (pure a : M F α) := fun _ => rfl
theorem comm_pureM (a : α) : Comm (M.pureM a : M F α) := fun _ => rfl
theorem comm_fail (e : Err) : Comm (M.fail e : M F α) := fun _ => rfl
theorem comm_throw (e : TErr) : Comm (M.throw e : M F α) := fun _ => rfl
theorem comm_rpanic (s : String) : Comm (M.rpanic s : M F α) := fun _ => rfl

theorem comm2_bind {m₁ m₂ : M F α} {f : α → M F β} {σ : St F}
    (hm : Comm2 m₁ m₂ σ) (hf : ∀ a, Comm (f a)) : Comm2 (m₁ >>= f) (m₂ >>= f) σ := by
  show M.bindM m₁ f (erase σ) = (M.bindM m₂ f σ).mapSt erase
  unfold M.bindM
  have hm' : m₁ (erase σ) = (m₂ σ).mapSt erase := hm
  rw [hm']
  cases m₂ σ with
  | ok a s => exact hf a s
  | err e s => rfl

theorem comm2_bind_het {m₁ m₂ : M F α} {f₁ f₂ : α → M F β} {σ : St F}
    (hm : Comm2 m₁ m₂ σ) (hf : ∀ a σ', Comm2 (f₁ a) (f₂ a) σ') : Comm2 (m₁ >>= f₁) (m₂ >>= f₂) σ := by
  show M.bindM m₁ f₁ (erase σ) = (M.bindM m₂ f₂ σ).mapSt erase
  unfold M.bindM
  have hm' : m₁ (erase σ) = (m₂ σ).mapSt erase := hm
  rw [hm']
  cases m₂ σ with
  | ok a s => exact hf a s
  | err e s => rfl

theorem comm_bind {m : M F α} {f : α → M F β} (hm : Comm m) (hf : ∀ a, Comm (f a)) : Comm (m >>= f) :=
  fun σ => comm2_bind (hm σ) hf

theorem comm_attempt {m : M F α} (hm : Comm m) : Comm (M.attempt m) := by
  intro σ
  show M.attempt m (erase σ) = (M.attempt m σ).mapSt erase
  unfold M.attempt
  have hm' : m (erase σ) = (m σ).mapSt erase := hm σ
  rw [hm']
  cases m σ <;> rfl

theorem comm_ofExcept (r : Except TErr α) : Comm (M.ofExcept r : M F α) := by
  cases r <;> exact fun _ => rfl

theorem comm_liftE (r : Except Err α) : Comm (liftE r : M F α) := by
  cases r <;> exact fun _ => rfl

theorem comm_modify {f : St F → St F} (h : ∀ σ, f (erase σ) = erase (f σ)) : Comm (M.modify f) := by
  intro σ
  show Res.ok () (f (erase σ)) = Res.ok () (erase (f σ))
  rw [h]

theorem comm_get_bind {f : St F → M F β} (h : ∀ σ, Comm2 (f (erase σ)) (f σ) σ) : Comm (M.get >>= f) := h

/-! ### rules at one state -/

theorem comm2_get_bind {f₁ f₂ : St F → M F β} {σ : St F} (h : Comm2 (f₁ (erase σ)) (f₂ σ) σ) :
    Comm2 (M.get >>= f₁) (M.get >>= f₂) σ := h

theorem comm2_set {s₁ s₂ σ : St F} (h : s₁ = erase s₂) : Comm2 (M.set s₁) (M.set s₂) σ := by
  show Res.ok () s₁ = Res.ok () (erase s₂)
  rw [h]

theorem comm2_modify {f₁ f₂ : St F → St F} {σ : St F} (h : f₁ (erase σ) = erase (f₂ σ)) :
    Comm2 (M.modify f₁) (M.modify f₂) σ := by
  show Res.ok () (f₁ (erase σ)) = Res.ok () (erase (f₂ σ))
  rw [h]

theorem comm2_ite {c : Prop} [Decidable c] {t₁ t₂ e₁ e₂ : M F α} {σ : St F}
    (ht : c → Comm2 t₁ t₂ σ) (he : ¬ c → Comm2 e₁ e₂ σ) :
    Comm2 (if c then t₁ else e₁) (if c then t₂ else e₂) σ := by
  by_cases h : c
  · rw [if_pos h, if_pos h]; exact ht h
  · rw [if_neg h, if_neg h]; exact he h

theorem comm2_pure (a : α) {σ : St F} : Comm2 (pure a : M F α) (pure a) σ := rfl
theorem comm2_fail (e : Err) {σ : St F} : Comm2 (M.fail e : M F α) (M.fail e) σ := rfl
theorem comm2_throw (e : TErr) {σ : St F} : Comm2 (M.throw e : M F α) (M.throw e) σ := rfl
theorem comm2_rpanic (s : String) {σ : St F} : Comm2 (M.rpanic s : M F α) (M.rpanic s) σ := rfl

end rules

/-! ### `erase` and the projections (all by `rfl`, usable by `dsimp`) -/

@[simp] theorem erase_lines (σ : St F) : (erase σ).lines = σ.lines := rfl
@[simp] theorem erase_imm (σ : St F) : (erase σ).imm = σ.imm := rfl
@[simp] theorem erase_loc (σ : St F) : (erase σ).loc = σ.loc := rfl
@[simp] theorem erase_bp (σ : St F) : (erase σ).bp = σ.bp := rfl
@[simp] theorem erase_stack (σ : St F) : (erase σ).stack = σ.stack := rfl
@[simp] theorem erase_loops (σ : St F) : (erase σ).loops = σ.loops := rfl
@[simp] theorem erase_data (σ : St F) : (erase σ).data = σ.data := rfl
@[simp] theorem erase_fns (σ : St F) : (erase σ).fns = σ.fns := rfl
@[simp] theorem erase_nesting (σ : St F) : (erase σ).nesting = σ.nesting := rfl
@[simp] theorem erase_input (σ : St F) : (erase σ).input = σ.input := rfl
@[simp] theorem erase_state (σ : St F) : (erase σ).state = σ.state := rfl
@[simp] theorem erase_rng (σ : St F) : (erase σ).rng = σ.rng := rfl
@[simp] theorem erase_vars (σ : St F) : (erase σ).vars = σ.vars := rfl
@[simp] theorem erase_arrays (σ : St F) : (erase σ).arrays = σ.arrays := rfl
@[simp] theorem erase_accesses (σ : St F) : (erase σ).accesses = σ.accesses := rfl
@[simp] theorem erase_reads (σ : St F) : (erase σ).reads = σ.reads := rfl
@[simp] theorem erase_warnings (σ : St F) : (erase σ).warnings = false := rfl
@[simp] theorem erase_tracing (σ : St F) : (erase σ).tracing = false := rfl
theorem erase_out (σ : St F) : (erase σ).out = σ.out.filter keepOut := rfl
@[simp] theorem erase_getVar [NumOps F] (σ : St F) (n : Str) : getVar (erase σ) n = getVar σ n := rfl
@[simp] theorem erase_populate (σ : St F) (e : TErr) : (erase σ).populate e = σ.populate e := rfl
@[simp] theorem erase_prevLoc (σ : St F) : (erase σ).prevLoc = σ.prevLoc := rfl

/-! ### the tactic -/

open Lean Elab Tactic Meta in
/-- apply a local hypothesis whose conclusion is `Comm …` -/
elab "comm_hyp" : tactic => withMainContext do
  let g ← getMainGoal
  for d in (← getLCtx) do
    if d.isImplementationDetail then continue
    let ty ← instantiateMVars d.type
    if ty.getForallBody.getAppFn.isConstOf ``Abasic.Hoare.Comm then
      let saved ← saveState
      try
        let gs ← withReducible (g.apply d.toExpr)
        replaceMainGoal gs
        return
      catch _ => saved.restore
  throwError "comm_hyp: no applicable hypothesis"

syntax "comm_prim" : tactic
syntax "comm_leaf" : tactic

macro_rules | `(tactic| comm_leaf) => `(tactic| rfl)

macro "comm_norm" : tactic => `(tactic| dsimp only [erase_lines, erase_imm, erase_loc, erase_bp, erase_stack,
  erase_loops, erase_data, erase_fns, erase_nesting, erase_input, erase_state, erase_rng, erase_vars, erase_arrays,
  erase_accesses, erase_reads, erase_warnings, erase_tracing, erase_getVar, erase_populate, erase_prevLoc])

macro "comm_step" : tactic => `(tactic| first
  | assumption
  | comm_hyp
  | respects_intro
  | with_reducible exact comm_pure _
  | with_reducible exact comm_pureM _
  | with_reducible exact comm_fail _
  | with_reducible exact comm_throw _
  | with_reducible exact comm_rpanic _
  | with_reducible exact comm_ofExcept _
  | with_reducible exact comm_liftE _
  | with_reducible exact comm2_pure _
  | with_reducible exact comm2_fail _
  | with_reducible exact comm2_throw _
  | with_reducible exact comm2_rpanic _
  | comm_prim
  | (with_reducible apply comm_get_bind)
  | (with_reducible apply comm2_get_bind)
  | with_reducible apply comm_bind
  | with_reducible apply comm_attempt
  | with_reducible apply comm_modify
  | with_reducible apply comm2_set
  | with_reducible apply comm2_modify
  | with_reducible apply comm2_bind
  | comm_norm
  | apply comm2_ite
  | split
  | with_reducible apply comm2_of_comm
  | comm_leaf)

macro "comm_tac" : tactic => `(tactic| repeat' comm_step)

end Abasic.Hoare
