import Abasic.Proofs.Prog2Lemmas
import Abasic.Proofs.ErrKeepG
import Abasic.Proofs.Data2Lemmas
/-
  C03, control stack and DATA — the statement evaluator on the statements of
  Ref/Stmt2.lean: one lemma per statement, each concluding `Outcome`
  (Proofs/Prog2Rel.lean) for the reference step `RStmt2.exec`.

  Part 1: the hypotheses (`SReady2`), expressions, the old statements (`base`,
  from `StmtG.stmt_run` / `StmtG.stmt_errkeep`), GOSUB, RETURN, DATA, RESTORE.
-/
set_option linter.unusedSectionVars false

namespace Abasic.Stmt2L
open Abasic Abasic.Ref Abasic.StmtL Abasic.ProgL Abasic.Prog2L Abasic.Hoare M
open Abasic.ExprL hiding Quiet expr_eq main
open Abasic.ExprG (Quiet expr_eq main)

variable {F : Type} [NumOps F]

/-! ### what the statement lemmas assume -/

/-- nesting levels / fuel the subscripts of an array need -/
def argsDepth : List (Expr F) → Nat
  | [] => 0
  | e :: rest => max (depth e + 1) (argsDepth rest)

/-- nesting levels / recursion fuel a statement needs -/
def sdepth2 : RStmt2 F → Nat
  | .base s => sdepth s
  | .forS _ a b none => max (depth a + 1) (depth b + 1)
  | .forS _ a b (some c) => max (depth a + 1) (max (depth b + 1) (depth c + 1))
  | .dimS _ dims => argsDepth dims
  | .letCellS _ idx e => max (argsDepth idx) (depth e + 1)
  | _ => 0

/-- The hypotheses of the statement lemmas: the model state `σ` corresponds to
    the reference state `r`, the cursor stands on statement `j` (= `s`) of line
    `n` of the program, and the statement fits the fuel and the nesting cap. -/
structure SReady2 (p : RProgram2 F) (r : RState2 F) (σ : St F) (n j : Nat) (ss : List (RStmt2 F))
    (s : RStmt2 F) (fuel : Nat) : Prop where
  wf : p.WF
  env : Env p σ
  mem : Mem p r σ
  inv : RInv r
  line : p.line n = some ss
  stmt : ss[j]? = some s
  locline : σ.loc.line = some n
  idx : σ.loc.idx = (preToks2 ss j).length
  fuel : sdepth2 s ≤ fuel
  nest : sdepth2 s ≤ Extracted.nestingLimit
  covered : s.Covered

section ready
variable {p : RProgram2 F} {r : RState2 F} {σ : St F} {n j : Nat} {ss : List (RStmt2 F)} {s : RStmt2 F} {fuel : Nat}

theorem SReady2.at (h : SReady2 p r σ n j ss s fuel) :
    At σ (preToks2 ss j) (renderS2 s ++ renderTail2 (ss.drop (j + 1))) :=
  ⟨by rw [lineToks_of h.env.lines h.line h.locline, line_split ss j s h.stmt], h.idx⟩

theorem SReady2.quiet (h : SReady2 p r σ n j ss s fuel) : Quiet σ :=
  ⟨findInStack_rets h.mem.stack, h.env.warnings⟩

theorem SReady2.lineEnd (_h : SReady2 p r σ n j ss s fuel) : LineEnd (renderTail2 (ss.drop (j + 1))) := by
  by_cases hj : j + 1 < ss.length
  · obtain ⟨s', post, _, htl⟩ := drop_tail_cons hj
    rw [htl]
    intro t ht
    simp only [List.head?_cons, Option.some.injEq] at ht
    exact ht.symm
  · rw [drop_tail_nil hj]
    intro t ht
    cases ht

theorem SReady2.eol (h : SReady2 p r σ n j ss s fuel) :
    (preToks2 ss j ++ (renderS2 s ++ renderTail2 (ss.drop (j + 1)))).length = (renderLine2 ss).length := by
  rw [← line_split ss j s h.stmt]

theorem SReady2.addr (h : SReady2 p r σ n j ss s fuel) :
    AddrRel p n (j + 1) { line := some n, idx := (preToks2 ss j).length + (renderS2 s).length } :=
  ⟨ss, j, s, h.line, rfl, h.stmt, rfl⟩

end ready

/-! ### cursor primitives at the end of a statement -/

theorem accept_end {σ : St F} {pre post : List (Token F)} {k : Kw}
    (h : At σ pre post) (hk : ∀ t, post.head? = some t → t.isKw k = false) :
    accept k σ = .ok false (mv σ 0 (σ.reads + 1)) := by
  unfold accept
  rw [bind_ok (peek_eq h)]
  cases hp : post.head? with
  | none => rfl
  | some t => simp only [hk t hp]; rfl

theorem lineEnd_not {rest : List (Token F)} (h : LineEnd rest) {k : Kw} (hk : k ≠ .Colon) :
    ∀ t, rest.head? = some t → t.isKw k = false := by
  intro t ht
  rw [h t ht]
  show (k == Kw.Colon) = false
  simp only [beq_eq_false_iff_ne, ne_eq]
  exact hk

/-! ### expressions -/

/-- an expression evaluated where the program stands: its `foldE` value; a failing
    expression fails on the line it stands on, without output -/
theorem expr_run (e : Expr F) (f : Nat) (σ : St F) (pre rest : List (Token F))
    (hd : depth e + 1 ≤ f) (hn : σ.nesting + (depth e + 1) ≤ Extracted.nestingLimit)
    (hE : Ends 6 rest) (hAt : At σ pre (render e ++ rest)) (hq : Quiet σ) (hf : σ.fns = []) :
    match foldE (getVar σ) e with
    | .ok v => ∃ r, σ.reads < r ∧ (evalN f).expr σ = .ok v (mv σ (render e).length r)
    | .error x => x ≠ .dataTypeMismatch ∧
        ∃ σ', (evalN f).expr σ = .err { err := x } σ' ∧ σ'.loc.line = σ.loc.line ∧ σ'.out = σ.out := by
  have hX := expr_eq e (main e).1 f σ pre rest hd hn hE hAt hq
  cases hev : foldE (getVar σ) e with
  | ok v => rw [hev] at hX; exact hX
  | error x =>
    rw [hev] at hX
    obtain ⟨σ', hσ', _⟩ := hX
    have hk := ((kq_evalN_expr f).at _).2 _ _ hσ'
    exact ⟨foldE_nd _ e hev, σ', hσ', (hk hf hq.2).2.2⟩

/-! ### the old statements -/

theorem ofCtl_error {c : Ctl} {x : Err} (h : Ctl2.ofCtl c = .error x) : c = .error x := by
  cases c <;> simp [Ctl2.ofCtl] at h
  subst h; rfl

/-- LET, PRINT, GOTO, END, IF: from `StmtG.stmt_run` and `StmtG.stmt_errkeep` -/
theorem base_run {p : RProgram2 F} {r : RState2 F} {σ : St F} {n j : Nat} {ss : List (RStmt2 F)} {s : RStmt F}
    {fuel : Nat} (h : SReady2 p r σ n j ss (.base s) fuel) :
    Outcome p σ n ((preToks2 ss j).length + (renderS2 (.base s)).length) (renderLine2 ss).length
      (stmtBody (evalN fuel) σ) ((RStmt2.base s).exec (allData p) n j r).1
      ((RStmt2.base s).exec (allData p) n j r).2 := by
  have hAt : At σ (preToks2 ss j) (renderS s ++ renderTail2 (ss.drop (j + 1))) := h.at
  have hNE := noElse_compile2 h.wf h.env.lines
  have hnest : σ.nesting + sdepth s ≤ Extracted.nestingLimit := by
    rw [h.env.nesting]; have := h.nest; simp only [sdepth2] at this; omega
  have hR := StmtG.stmt_run s fuel σ _ _ hAt h.quiet h.env.tracing hNE h.fuel hnest h.covered (Or.inl h.lineEnd)
  have hK := StmtG.stmt_errkeep s fuel σ _ _ hAt h.quiet h.env.tracing h.env.fns hNE h.fuel hnest h.covered
    (Or.inl h.lineEnd)
  have hE : (preToks2 ss j ++ (renderS s ++ renderTail2 (ss.drop (j + 1)))).length = (renderLine2 ss).length := h.eol
  rw [hE, h.mem.vars] at hR
  show Outcome p σ n _ _ _ { r with vars := (RStmt.exec r.vars s).vars, out := r.out ++ (RStmt.exec r.vars s).out }
    (Ctl2.ofCtl (RStmt.exec r.vars s).ctl)
  have hmem : ∀ (loc : Loc) (bp : Option (Nat × Nat)) (k : Nat),
      Mem p { r with vars := (RStmt.exec r.vars s).vars, out := r.out ++ (RStmt.exec r.vars s).out }
        ({ σ with vars := (RStmt.exec r.vars s).vars, out := outRecs (RStmt.exec r.vars s).out ++ σ.out,
                  bp := bp, loc := loc, reads := k } : St F) := by
    intro loc bp k
    exact ⟨rfl, h.mem.arrays, h.mem.loops, h.mem.stack, h.mem.data,
      by show outRecs _ ++ σ.out = _; rw [h.mem.out, outRecs_append]⟩
  unfold StmtG.Refines at hR
  cases hctl : (RStmt.exec r.vars s).ctl with
  | next =>
    rw [hctl] at hR
    obtain ⟨k, _, hres⟩ := hR
    refine ⟨_, hres, ⟨rfl, rfl, rfl, rfl, rfl, rfl⟩, hmem _ σ.bp k, ?_⟩
    show ({ line := σ.loc.line, idx := _ } : Loc) = _
    rw [h.locline]; rfl
  | skipLine =>
    rw [hctl] at hR
    obtain ⟨k, _, hres⟩ := hR
    refine ⟨_, hres, ⟨rfl, rfl, rfl, rfl, rfl, rfl⟩, hmem _ σ.bp k, ?_⟩
    show ({ line := σ.loc.line, idx := _ } : Loc) = _
    rw [h.locline]
  | jump m =>
    rw [hctl] at hR
    refine ⟨fun hh => ?_, fun hh => ?_⟩
    · obtain ⟨k, _, hres⟩ := hR.1 hh
      exact ⟨_, hres, ⟨rfl, rfl, rfl, rfl, rfl, rfl⟩, hmem _ none k, rfl⟩
    · obtain ⟨σ', hres, _⟩ := hR.2 hh
      have := hK _ _ hres
      exact ⟨σ', hres, by rw [this.1, h.locline], this.2⟩
  | stop =>
    rw [hctl] at hR
    obtain ⟨k, _, hres⟩ := hR
    exact ⟨_, hres, ⟨rfl, rfl, rfl, rfl, rfl, rfl⟩, rfl, h.mem.arrays,
      by show outRecs _ ++ σ.out = _; rw [h.mem.out, outRecs_append], rfl, rfl⟩
  | error x =>
    rw [hctl] at hR
    obtain ⟨σ', hres, _⟩ := hR
    have := hK _ _ hres
    exact ⟨exec_nd r.vars s hctl, σ', hres, by rw [this.1, h.locline], this.2⟩

/-! ### GOSUB / RETURN -/

theorem gosub_run {p : RProgram2 F} {r : RState2 F} {σ : St F} {n j : Nat} {ss : List (RStmt2 F)} {m : Nat}
    {fuel : Nat} (h : SReady2 p r σ n j ss (.gosubS m) fuel) :
    Outcome p σ n ((preToks2 ss j).length + (renderS2 (.gosubS m : RStmt2 F)).length) (renderLine2 ss).length
      (stmtBody (evalN fuel) σ) ((RStmt2.gosubS m : RStmt2 F).exec (allData p) n j r).1
      ((RStmt2.gosubS m : RStmt2 F).exec (allData p) n j r).2 := by
  have hAt0 : At σ (preToks2 ss j) (.kw .Gosub :: .num (NumOps.ofNat m) :: renderTail2 (ss.drop (j + 1))) := h.at
  have hAt1 := at_mv1 hAt0 (σ.reads + 1)
  have hround : NumOps.toU64 (NumOps.ofNat m : F) = m := h.covered
  have hrun : stmtBody (evalN fuel) σ = gosubLine m (mv σ (1 + 1) (σ.reads + 1 + 1)) := by
    unfold stmtBody
    rw [bind_ok (traceHere_off h.env.tracing)]
    unfold dispatch
    rw [bind_ok (next_eq hAt0)]
    show gosubStatement _ = _
    unfold gosubStatement
    rw [bind_ok (next_eq hAt1), mv_mv]
    simp only [mv_reads, hround]
  rw [hrun]
  have hlen : r.rets.length = σ.stack.length := h.mem.stack.length
  by_cases hcap : σ.stack.length = Extracted.stackLimit
  · have hex : (RStmt2.gosubS m : RStmt2 F).exec (allData p) n j r = (r, .error .oomStack) := by
      simp only [RStmt2.exec, hlen, hcap, beq_self_eq_true, ↓reduceIte]
    rw [hex]
    refine ⟨by simp, mv σ (1 + 1) (σ.reads + 1 + 1), ?_, h.locline, rfl⟩
    simp only [gosubLine, bind, M.bindM, M.get, mv_stack, hcap, beq_self_eq_true, ↓reduceIte, M.fail]
  · have hb : (σ.stack.length == Extracted.stackLimit) = false := by simpa using hcap
    have hex : (RStmt2.gosubS m : RStmt2 F).exec (allData p) n j r =
        ({ r with rets := (n, j + 1) :: r.rets }, .jump m) := by
      simp only [RStmt2.exec, hlen, hb, Bool.false_eq_true, ↓reduceIte]
    rw [hex]
    have hg : gosubLine m (mv σ (1 + 1) (σ.reads + 1 + 1)) =
        (gotoLine m >>= fun _ => M.modify fun s : St F =>
          { s with stack := { ret := (mv σ (1 + 1) (σ.reads + 1 + 1)).loc, vars := [] } :: s.stack })
          (mv σ (1 + 1) (σ.reads + 1 + 1)) := by
      simp only [gosubLine, bind, M.bindM, M.get, mv_stack, hb, Bool.false_eq_true, ↓reduceIte]
    rw [hg]
    refine ⟨fun hh => ?_, fun hh => ?_⟩
    · have hh' : (mv σ (1 + 1) (σ.reads + 1 + 1)).lines.has m = true := hh
      have hgo : gotoLine m (mv σ (1 + 1) (σ.reads + 1 + 1)) =
          .ok () { mv σ (1 + 1) (σ.reads + 1 + 1) with bp := none, loc := { line := some m, idx := 0 } } := by
        rw [gotoLine_eq, hh']; rfl
      rw [bind_ok hgo]
      refine ⟨_, rfl, ⟨rfl, rfl, rfl, rfl, rfl, rfl⟩, ?_, rfl⟩
      refine ⟨h.mem.vars, h.mem.arrays, h.mem.loops, ?_, h.mem.data, h.mem.out⟩
      refine Rel2.cons ⟨rfl, ?_⟩ h.mem.stack
      have := h.addr
      show AddrRel p n (j + 1) { line := σ.loc.line, idx := σ.loc.idx + (1 + 1) }
      rw [h.locline, h.idx]
      exact this
    · have hh' : (mv σ (1 + 1) (σ.reads + 1 + 1)).lines.has m = false := hh
      have hgo : gotoLine m (mv σ (1 + 1) (σ.reads + 1 + 1)) =
          .err { err := .undefinedStatement } { mv σ (1 + 1) (σ.reads + 1 + 1) with bp := none } := by
        rw [gotoLine_eq, hh']; rfl
      rw [bind_err hgo]
      exact ⟨_, rfl, h.locline, rfl⟩

theorem return_run {p : RProgram2 F} {r : RState2 F} {σ : St F} {n j : Nat} {ss : List (RStmt2 F)}
    {fuel : Nat} (h : SReady2 p r σ n j ss .returnS fuel) :
    Outcome p σ n ((preToks2 ss j).length + (renderS2 (.returnS : RStmt2 F)).length) (renderLine2 ss).length
      (stmtBody (evalN fuel) σ) ((RStmt2.returnS : RStmt2 F).exec (allData p) n j r).1
      ((RStmt2.returnS : RStmt2 F).exec (allData p) n j r).2 := by
  have hAt0 : At σ (preToks2 ss j) (.kw .Return :: renderTail2 (ss.drop (j + 1))) := h.at
  have hrun : stmtBody (evalN fuel) σ = returnFromGosub (mv σ 1 (σ.reads + 1)) := by
    unfold stmtBody
    rw [bind_ok (traceHere_off h.env.tracing)]
    unfold dispatch
    rw [bind_ok (next_eq hAt0)]
  rw [hrun]
  have hst := h.mem.stack
  cases hr : r.rets with
  | nil =>
    rw [hr] at hst
    cases hst' : σ.stack with
    | cons f fs => rw [hst'] at hst; cases hst
    | nil =>
      have hex : (RStmt2.returnS : RStmt2 F).exec (allData p) n j r = (r, .error .returnWithoutGosub) := by
        simp only [RStmt2.exec, hr]
      rw [hex]
      refine ⟨by simp, { mv σ 1 (σ.reads + 1) with bp := none }, ?_, h.locline, rfl⟩
      simp only [returnFromGosub, bind, M.bindM, M.modify, M.get, mv_stack, hst', M.fail]
  | cons a as =>
    obtain ⟨ln, k⟩ := a
    rw [hr] at hst
    cases hst' : σ.stack with
    | nil => rw [hst'] at hst; cases hst
    | cons f fs =>
      rw [hst'] at hst
      cases hst with
      | cons hd tl =>
        have hex : (RStmt2.returnS : RStmt2 F).exec (allData p) n j r = ({ r with rets := as }, .resume ln k) := by
          simp only [RStmt2.exec, hr]
        rw [hex]
        refine ⟨{ mv σ 1 (σ.reads + 1) with bp := none, stack := fs, loc := f.ret }, ?_,
          ⟨rfl, rfl, rfl, rfl, rfl, rfl⟩, ⟨h.mem.vars, h.mem.arrays, h.mem.loops, tl, h.mem.data, h.mem.out⟩, hd.2⟩
        simp only [returnFromGosub, bind, M.bindM, M.modify, M.get, mv_stack, hst', M.set]

/-! ### DATA, RESTORE -/

theorem data_run {p : RProgram2 F} {r : RState2 F} {σ : St F} {n j : Nat} {ss : List (RStmt2 F)}
    {items : List (DataElement F)} {fuel : Nat} (h : SReady2 p r σ n j ss (.dataS items) fuel) :
    Outcome p σ n ((preToks2 ss j).length + (renderS2 (.dataS items)).length) (renderLine2 ss).length
      (stmtBody (evalN fuel) σ) ((RStmt2.dataS items).exec (allData p) n j r).1
      ((RStmt2.dataS items).exec (allData p) n j r).2 := by
  have hAt0 : At σ (preToks2 ss j) (.data items :: renderTail2 (ss.drop (j + 1))) := h.at
  have hrun : stmtBody (evalN fuel) σ = .ok () (mv σ 1 (σ.reads + 1)) := by
    unfold stmtBody
    rw [bind_ok (traceHere_off h.env.tracing)]
    unfold dispatch
    rw [bind_ok (next_eq hAt0)]
    rfl
  rw [hrun]
  show Outcome p σ n _ _ _ r .next
  refine ⟨_, rfl, ⟨rfl, rfl, rfl, rfl, rfl, rfl⟩,
    ⟨h.mem.vars, h.mem.arrays, h.mem.loops, h.mem.stack, h.mem.data, h.mem.out⟩, ?_⟩
  show ({ line := σ.loc.line, idx := σ.loc.idx + 1 } : Loc) = _
  rw [h.locline, h.idx]
  rfl

theorem restore_run {p : RProgram2 F} {r : RState2 F} {σ : St F} {n j : Nat} {ss : List (RStmt2 F)}
    {fuel : Nat} (h : SReady2 p r σ n j ss .restoreS fuel) :
    Outcome p σ n ((preToks2 ss j).length + (renderS2 (.restoreS : RStmt2 F)).length) (renderLine2 ss).length
      (stmtBody (evalN fuel) σ) ((RStmt2.restoreS : RStmt2 F).exec (allData p) n j r).1
      ((RStmt2.restoreS : RStmt2 F).exec (allData p) n j r).2 := by
  have hAt0 : At σ (preToks2 ss j) (.kw .Restore :: renderTail2 (ss.drop (j + 1))) := h.at
  have hrun : stmtBody (evalN fuel) σ = .ok () { mv σ 1 (σ.reads + 1) with data := none } := by
    unfold stmtBody
    rw [bind_ok (traceHere_off h.env.tracing)]
    unfold dispatch
    rw [bind_ok (next_eq hAt0)]
    rfl
  rw [hrun]
  show Outcome p σ n _ _ _ { r with data := 0 } .next
  refine ⟨_, rfl, ⟨rfl, rfl, rfl, rfl, rfl, rfl⟩,
    ⟨h.mem.vars, h.mem.arrays, h.mem.loops, h.mem.stack, rfl, h.mem.out⟩, ?_⟩
  show ({ line := σ.loc.line, idx := σ.loc.idx + 1 } : Loc) = _
  rw [h.locline, h.idx]
  rfl

/-! ### NEXT -/

theorem envOf_num_name {r : RState2 F} (hi : RInv r) {v : Str} {cur : F} (h : envOf r.vars v = .num cur) :
    endsWithDollar v = false := by
  unfold envOf at h
  cases hg : alGet v r.vars with
  | some w =>
    rw [hg] at h
    simp only at h
    subst h
    have := hi.typed v _ hg
    simpa [Value.matchesName] using this
  | none =>
    rw [hg] at h
    simp only [Value.defaultFor] at h
    cases hd : endsWithDollar v with
    | false => rfl
    | true => rw [hd] at h; simp at h

theorem next_run {p : RProgram2 F} {r : RState2 F} {σ : St F} {n j : Nat} {ss : List (RStmt2 F)} {v : Str}
    {fuel : Nat} (h : SReady2 p r σ n j ss (.nextS v) fuel) :
    Outcome p σ n ((preToks2 ss j).length + (renderS2 (.nextS v : RStmt2 F)).length) (renderLine2 ss).length
      (stmtBody (evalN fuel) σ) ((RStmt2.nextS v : RStmt2 F).exec (allData p) n j r).1
      ((RStmt2.nextS v : RStmt2 F).exec (allData p) n j r).2 := by
  have hAt0 : At σ (preToks2 ss j) (.kw .Next :: .symbol v :: renderTail2 (ss.drop (j + 1))) := h.at
  have hAt1 := at_mv1 hAt0 (σ.reads + 1)
  have hrun : stmtBody (evalN fuel) σ = endLoop v (mv σ (1 + 1) (σ.reads + 1 + 1)) := by
    unfold stmtBody
    rw [bind_ok (traceHere_off h.env.tracing)]
    unfold dispatch
    rw [bind_ok (next_eq hAt0)]
    show nextStatement _ = _
    unfold nextStatement
    rw [bind_ok (next_eq hAt1), mv_mv]
    rfl
  rw [hrun]
  have hgv : getVar (mv σ (1 + 1) (σ.reads + 1 + 1)) v = envOf r.vars v := by
    rw [getVar_mv, getVar_eq_envOf, h.mem.vars]
  cases hv : envOf r.vars v with
  | str x =>
    have hex : (RStmt2.nextS v : RStmt2 F).exec (allData p) n j r = (r, .error .typeMismatch) := by
      simp only [RStmt2.exec, hv]
    rw [hex]
    rw [hv] at hgv
    refine ⟨by simp, mv σ (1 + 1) (σ.reads + 1 + 1), ?_, h.locline, rfl⟩
    simp only [endLoop, bind, M.bindM, M.get, hgv, M.fail]
  | num cur =>
    rw [hv] at hgv
    have hrel := removeLoop_rel (v := v) h.mem.loops
    cases hf : findLoop v r.loops with
    | none =>
      have hex : (RStmt2.nextS v : RStmt2 F).exec (allData p) n j r = (r, .error .nextWithoutFor) := by
        simp only [RStmt2.exec, hv, hf]
      rw [hex]
      cases hr : removeLoop v σ.loops with
      | some x => rw [hf, hr] at hrel; exact hrel.elim
      | none =>
        have hr' : removeLoop v (mv σ (1 + 1) (σ.reads + 1 + 1)).loops = none := hr
        refine ⟨by simp, mv σ (1 + 1) (σ.reads + 1 + 1), ?_, h.locline, rfl⟩
        simp only [endLoop, bind, M.bindM, M.get, hgv, hr', M.fail]
    | some lr =>
      obtain ⟨l, rest⟩ := lr
      cases hr : removeLoop v σ.loops with
      | none => rw [hf, hr] at hrel; exact hrel.elim
      | some ir =>
        obtain ⟨info, mrest⟩ := ir
        rw [hf, hr] at hrel
        obtain ⟨hli, hrest⟩ := hrel
        obtain ⟨_, hto, hstep, haddr⟩ := hli
        have hr' : removeLoop v (mv σ (1 + 1) (σ.reads + 1 + 1)).loops = some (info, mrest) := hr
        have hm : (Value.num (NumOps.add cur info.stepV) : Value F).matchesName v = true := by
          simp only [Value.matchesName, envOf_num_name h.inv hv, Bool.not_false]
        cases hc : Props.C03.nextAgain cur info with
        | true =>
          have hex : (RStmt2.nextS v : RStmt2 F).exec (allData p) n j r =
              ({ r with vars := alSet v (.num (NumOps.add cur l.step)) r.vars, loops := l :: rest },
                .resume l.line l.idx) := by
            have hc' := hc
            unfold Props.C03.nextAgain at hc'
            rw [hstep, hto] at hc'
            simp only [RStmt2.exec, hv, hf, hc', ↓reduceIte]
          rw [hex, Props.C03.next_uses_stored_again v _ cur info mrest hgv hr' hm hc]
          refine ⟨_, rfl, ⟨rfl, rfl, rfl, rfl, rfl, rfl⟩, ?_, haddr⟩
          refine ⟨?_, h.mem.arrays, Rel2.cons ⟨‹_›, hto, hstep, haddr⟩ hrest, h.mem.stack, h.mem.data, h.mem.out⟩
          show alSet v _ σ.vars = _
          rw [h.mem.vars, hstep]
        | false =>
          have hex : (RStmt2.nextS v : RStmt2 F).exec (allData p) n j r =
              ({ r with vars := alSet v (.num (NumOps.add cur l.step)) r.vars, loops := rest }, .next) := by
            have hc' := hc
            unfold Props.C03.nextAgain at hc'
            rw [hstep, hto] at hc'
            simp only [RStmt2.exec, hv, hf, hc', Bool.false_eq_true, ↓reduceIte]
          rw [hex, Props.C03.next_uses_stored_done v _ cur info mrest hgv hr' hm hc]
          refine ⟨_, rfl, ⟨rfl, rfl, rfl, rfl, rfl, rfl⟩, ?_, ?_⟩
          · refine ⟨?_, h.mem.arrays, hrest, h.mem.stack, h.mem.data, h.mem.out⟩
            show alSet v _ σ.vars = _
            rw [h.mem.vars, hstep]
          · show ({ line := σ.loc.line, idx := σ.loc.idx + (1 + 1) } : Loc) = _
            rw [h.locline, h.idx]
            rfl

/-! ### FOR -/

theorem ends_to (j : Nat) (rest : List (Token F)) : Ends j (.kw .To :: rest) := by
  intro t ht
  simp only [List.head?_cons, Option.some.injEq] at ht
  subst ht
  exact ⟨rfl, fun i _ => by rcases i with _ | _ | _ | _ | _ | _ | j <;> rfl⟩

theorem ends_step (j : Nat) (rest : List (Token F)) : Ends j (.kw .Step :: rest) := by
  intro t ht
  simp only [List.head?_cons, Option.some.injEq] at ht
  subst ht
  exact ⟨rfl, fun i _ => by rcases i with _ | _ | _ | _ | _ | _ | j <;> rfl⟩

/-- what `forStatement` does after start and limit -/
def forTail (ev : Evals F) (v : Str) (x y : F) : M F Unit := do
  if ← accept .Step then
    match ← ev.expr with
    | .str _ => fail .typeMismatch
    | .num stepV => startLoop v x y stepV
  else startLoop v x y NumOps.one

def numOf : Value F → Except Err F
  | .num x => .ok x
  | .str _ => .error .typeMismatch

theorem numE_of {env : Str → Value F} {e : Expr F} {v : Value F} (h : foldE env e = .ok v) :
    numE env e = numOf v := by
  unfold numE; rw [h]; cases v <;> rfl

/-- FOR up to and including the limit -/
theorem for_head (v : Str) (a b : Expr F) (f : Nat) (σ : St F) (pre post : List (Token F))
    (hAt : At σ pre (.kw .For :: .symbol v :: .kw .Equals :: (render a ++ .kw .To :: (render b ++ post))))
    (hpost : Ends 6 post) (hq : Quiet σ) (hfn : σ.fns = []) (htr : σ.tracing = false)
    (hda : depth a + 1 ≤ f) (hdb : depth b + 1 ≤ f)
    (hna : σ.nesting + (depth a + 1) ≤ Extracted.nestingLimit)
    (hnb : σ.nesting + (depth b + 1) ≤ Extracted.nestingLimit) :
    match numE (getVar σ) a with
    | .error err => err ≠ .dataTypeMismatch ∧
        ∃ σ', stmtBody (evalN f) σ = .err { err := err } σ' ∧ σ'.loc.line = σ.loc.line ∧ σ'.out = σ.out
    | .ok x =>
      match numE (getVar σ) b with
      | .error err => err ≠ .dataTypeMismatch ∧
          ∃ σ', stmtBody (evalN f) σ = .err { err := err } σ' ∧ σ'.loc.line = σ.loc.line ∧ σ'.out = σ.out
      | .ok y => ∃ r2, σ.reads < r2 ∧
          stmtBody (evalN f) σ =
            forTail (evalN f) v x y (mv σ (1 + 1 + 1 + (render a).length + 1 + (render b).length) r2) := by
  have hAt1 := at_mv1 hAt (σ.reads + 1)
  have hAt2 := at_mv1 hAt1 (σ.reads + 1 + 1)
  rw [mv_mv] at hAt2
  have hAt3 := at_mv1 hAt2 (σ.reads + 1 + 1 + 1)
  rw [mv_mv] at hAt3
  have hrun : stmtBody (evalN f) σ =
      ((evalN f).expr >>= fun va =>
        match va with
        | .str _ => fail .typeMismatch
        | .num x => do
          expect .To
          match ← (evalN f).expr with
          | .str _ => fail .typeMismatch
          | .num y => forTail (evalN f) v x y) (mv σ (1 + 1 + 1) (σ.reads + 1 + 1 + 1)) := by
    unfold stmtBody
    rw [bind_ok (traceHere_off htr)]
    unfold dispatch
    rw [bind_ok (next_eq hAt)]
    show forStatement (evalN f) _ = _
    unfold forStatement
    rw [bind_ok (next_eq hAt1), mv_mv]
    simp only [mv_reads]
    rw [bind_ok (expect_eq hAt2 rfl), mv_mv]
    rfl
  rw [hrun]
  have hXa := expr_run a f (mv σ (1 + 1 + 1) (σ.reads + 1 + 1 + 1)) _ _ hda hna (ends_to 6 _) hAt3 (hq.mv _ _) hfn
  rw [getVar_mv] at hXa
  cases hea : foldE (getVar σ) a with
  | error err =>
    rw [hea] at hXa
    obtain ⟨hnd, σ', hσ', hl, ho⟩ := hXa
    have : numE (getVar σ) a = .error err := by unfold numE; rw [hea]
    rw [this]
    exact ⟨hnd, σ', bind_err hσ', hl, ho⟩
  | ok va =>
    rw [hea] at hXa
    obtain ⟨r1, hr1, hσ1⟩ := hXa
    simp only [mv_reads, mv_mv] at hr1 hσ1
    rw [numE_of hea, bind_ok hσ1]
    cases va with
    | str sa => exact ⟨by simp, _, rfl, rfl, rfl⟩
    | num x =>
      simp only
      have hAt4 := at_mv hAt3 r1
      rw [mv_mv] at hAt4
      have hAt5 := at_mv1 hAt4 (r1 + 1)
      rw [mv_mv] at hAt5
      rw [bind_ok (expect_eq hAt4 rfl), mv_mv]
      simp only [mv_reads]
      have hXb := expr_run b f (mv σ (1 + 1 + 1 + (render a).length + 1) (r1 + 1)) _ _ hdb hnb hpost hAt5
        (hq.mv _ _) hfn
      rw [getVar_mv] at hXb
      cases heb : foldE (getVar σ) b with
      | error err =>
        rw [heb] at hXb
        obtain ⟨hnd, σ', hσ', hl, ho⟩ := hXb
        have : numE (getVar σ) b = .error err := by unfold numE; rw [heb]
        rw [this]
        exact ⟨hnd, σ', bind_err hσ', hl, ho⟩
      | ok vb =>
        rw [heb] at hXb
        obtain ⟨r2, hr2, hσ2⟩ := hXb
        simp only [mv_reads, mv_mv] at hr2 hσ2
        rw [numE_of heb, bind_ok hσ2]
        cases vb with
        | str sb => exact ⟨by simp, _, rfl, rfl, rfl⟩
        | num y => exact ⟨r2, by omega, rfl⟩

/-- the last part of the reference step of FOR -/
def forPush (n j : Nat) (r : RState2 F) (v : Str) (x y z : F) : RState2 F × Ctl2 :=
  if (keptLoops v r.loops).length == Extracted.stackLimit then (r, .error .oomStack)
  else if endsWithDollar v then (r, .error .typeMismatch)
  else
    ({ r with vars := alSet v (.num x) r.vars,
              loops := { var := v, line := n, idx := j + 1, limit := y, step := z } :: keptLoops v r.loops },
     .next)

theorem exec_for {items : List (Nat × DataElement F)} {n j : Nat} {r : RState2 F} {v : Str} {a b : Expr F}
    {c : Option (Expr F)} {x y z : F} (ha : numE (envOf r.vars) a = .ok x) (hb : numE (envOf r.vars) b = .ok y)
    (hc : stepE (envOf r.vars) c = .ok z) :
    (RStmt2.forS v a b c).exec items n j r = forPush n j r v x y z := by
  simp only [RStmt2.exec, ha, hb, hc]
  rfl

theorem exec_for_err_a {items : List (Nat × DataElement F)} {n j : Nat} {r : RState2 F} {v : Str} {a b : Expr F}
    {c : Option (Expr F)} {err : Err} (ha : numE (envOf r.vars) a = .error err) :
    (RStmt2.forS v a b c).exec items n j r = (r, .error err) := by
  simp only [RStmt2.exec, ha]

theorem exec_for_err_b {items : List (Nat × DataElement F)} {n j : Nat} {r : RState2 F} {v : Str} {a b : Expr F}
    {c : Option (Expr F)} {x : F} {err : Err} (ha : numE (envOf r.vars) a = .ok x)
    (hb : numE (envOf r.vars) b = .error err) :
    (RStmt2.forS v a b c).exec items n j r = (r, .error err) := by
  simp only [RStmt2.exec, ha, hb]

theorem exec_for_err_c {items : List (Nat × DataElement F)} {n j : Nat} {r : RState2 F} {v : Str} {a b : Expr F}
    {c : Option (Expr F)} {x y : F} {err : Err} (ha : numE (envOf r.vars) a = .ok x)
    (hb : numE (envOf r.vars) b = .ok y) (hc : stepE (envOf r.vars) c = .error err) :
    (RStmt2.forS v a b c).exec items n j r = (r, .error err) := by
  simp only [RStmt2.exec, ha, hb, hc]

/-- `startLoop` with the cursor behind the FOR statement -/
theorem startLoop_run {p : RProgram2 F} {r : RState2 F} {σ : St F} {n j : Nat} {ss : List (RStmt2 F)}
    {s : RStmt2 F} {fuel : Nat} (h : SReady2 p r σ n j ss s fuel) (v : Str) (x y z : F) (rr : Nat) :
    Outcome p σ n ((preToks2 ss j).length + (renderS2 s).length) (renderLine2 ss).length
      (startLoop v x y z (mv σ (renderS2 s).length rr)) (forPush n j r v x y z).1 (forPush n j r v x y z).2 := by
  have hrel := afterRemove_rel v h.mem.loops
  have hlen : (keptLoops v r.loops).length = (Props.C16.afterRemove v σ.loops).length := hrel.length
  rw [Props.C16.startLoop_eq]
  show Outcome p σ n _ _ (if (Props.C16.afterRemove v σ.loops).length = Extracted.stackLimit then _ else _) _ _
  by_cases hcap : (Props.C16.afterRemove v σ.loops).length = Extracted.stackLimit
  · have hex : forPush n j r v x y z = (r, .error .oomStack) := by
      simp only [forPush, hlen, hcap, beq_self_eq_true, ↓reduceIte]
    rw [hex, if_pos hcap]
    exact ⟨by simp, _, rfl, h.locline, rfl⟩
  · have hb : ((Props.C16.afterRemove v σ.loops).length == Extracted.stackLimit) = false := by simpa using hcap
    rw [if_neg hcap]
    cases hd : endsWithDollar v with
    | true =>
      have hex : forPush n j r v x y z = (r, .error .typeMismatch) := by
        simp only [forPush, hlen, hb, hd, Bool.false_eq_true, ↓reduceIte]
      have hm : ((Value.num x : Value F).matchesName v = true) = False := by
        simp only [Value.matchesName, hd, Bool.not_true, Bool.false_eq_true]
      rw [hex]
      simp only [hm, ↓reduceIte]
      exact ⟨by simp, _, rfl, h.locline, rfl⟩
    | false =>
      have hex : forPush n j r v x y z =
          ({ r with vars := alSet v (.num x) r.vars,
                    loops := { var := v, line := n, idx := j + 1, limit := y, step := z } :: keptLoops v r.loops },
           .next) := by
        simp only [forPush, hlen, hb, hd, Bool.false_eq_true, ↓reduceIte]
      have hm : ((Value.num x : Value F).matchesName v = true) = True := by
        simp only [Value.matchesName, hd, Bool.not_false]
      rw [hex]
      simp only [hm, ↓reduceIte]
      have hloc : (mv σ (renderS2 s).length rr).loc =
          { line := some n, idx := (preToks2 ss j).length + (renderS2 s).length } := by
        show ({ line := σ.loc.line, idx := σ.loc.idx + _ } : Loc) = _
        rw [h.locline, h.idx]
      refine ⟨_, rfl, ⟨rfl, rfl, rfl, rfl, rfl, rfl⟩, ?_, hloc⟩
      refine ⟨?_, h.mem.arrays, Rel2.cons ⟨rfl, rfl, rfl, ?_⟩ hrel, h.mem.stack, h.mem.data, h.mem.out⟩
      · show alSet v _ σ.vars = _
        rw [h.mem.vars]
      · show AddrRel p n (j + 1) (mv σ (renderS2 s).length rr).loc
        rw [hloc]
        exact h.addr

theorem outcome_err_of {p : RProgram2 F} {σ : St F} {n a e : Nat} {res : Res F Unit} {r' : RState2 F} {err : Err}
    (hn : σ.loc.line = some n)
    (h : err ≠ .dataTypeMismatch ∧ ∃ σ', res = .err { err := err } σ' ∧ σ'.loc.line = σ.loc.line ∧ σ'.out = σ.out) :
    Outcome p σ n a e res r' (.error err) := by
  obtain ⟨hnd, σ', hres, hl, ho⟩ := h
  exact ⟨hnd, σ', hres, by rw [hl, hn], ho⟩

theorem for_run {p : RProgram2 F} {r : RState2 F} {σ : St F} {n j : Nat} {ss : List (RStmt2 F)} {v : Str}
    {a b : Expr F} {c : Option (Expr F)} {fuel : Nat} (h : SReady2 p r σ n j ss (.forS v a b c) fuel) :
    Outcome p σ n ((preToks2 ss j).length + (renderS2 (.forS v a b c)).length) (renderLine2 ss).length
      (stmtBody (evalN fuel) σ) ((RStmt2.forS v a b c).exec (allData p) n j r).1
      ((RStmt2.forS v a b c).exec (allData p) n j r).2 := by
  have henv : getVar σ = envOf r.vars := by rw [getVar_eq_envOf, h.mem.vars]
  have hLE := h.lineEnd
  cases c with
  | none =>
    have hAt0 : At σ (preToks2 ss j) (.kw .For :: .symbol v :: .kw .Equals ::
        (render a ++ .kw .To :: (render b ++ renderTail2 (ss.drop (j + 1))))) := by
      have := h.at
      simpa only [renderS2, List.cons_append, List.append_assoc] using this
    have hd := h.fuel
    have hn := h.nest
    simp only [sdepth2] at hd hn
    have hH := for_head v a b fuel σ _ _ hAt0 (ends_of_stmtEnd hLE.stmtEnd 6) h.quiet h.env.fns h.env.tracing
      (by omega) (by omega) (by rw [h.env.nesting]; omega) (by rw [h.env.nesting]; omega)
    rw [henv] at hH
    cases hna : numE (envOf r.vars) a with
    | error err => rw [hna] at hH; rw [exec_for_err_a hna]; exact outcome_err_of h.locline hH
    | ok x =>
      rw [hna] at hH
      cases hnb : numE (envOf r.vars) b with
      | error err => rw [hnb] at hH; rw [exec_for_err_b hna hnb]; exact outcome_err_of h.locline hH
      | ok y =>
        rw [hnb] at hH
        obtain ⟨r2, hr2, hrun⟩ := hH
        rw [exec_for hna hnb (c := none) (z := NumOps.one) rfl, hrun]
        have hAt6 : At (mv σ (1 + 1 + 1 + (render a).length + 1 + (render b).length) r2)
            (preToks2 ss j ++ (.kw .For :: .symbol v :: .kw .Equals :: (render a ++ .kw .To :: render b)))
            (renderTail2 (ss.drop (j + 1))) := by
          have := at_mv (a := .kw .For :: .symbol v :: .kw .Equals :: (render a ++ .kw .To :: render b))
            (b := renderTail2 (ss.drop (j + 1)))
            (by simpa only [List.cons_append, List.append_assoc] using hAt0) r2
          refine ⟨this.1, ?_⟩
          rw [this.2.symm]
          show σ.loc.idx + _ = σ.loc.idx + _
          simp only [List.length_cons, List.length_append]
          omega
        have hft : forTail (evalN fuel) v x y (mv σ (1 + 1 + 1 + (render a).length + 1 + (render b).length) r2) =
            startLoop v x y NumOps.one (mv σ (renderS2 (.forS v a b none)).length (r2 + 1)) := by
          unfold forTail
          rw [bind_ok (accept_end hAt6 (lineEnd_not hLE (by decide))), mv_mv]
          simp only [Bool.false_eq_true, ↓reduceIte, mv_reads]
          congr 1
          apply mv_congr
          simp only [renderS2, List.length_cons, List.length_append]
          omega
        rw [hft]
        exact startLoop_run h v x y NumOps.one (r2 + 1)
  | some c =>
    have hAt0 : At σ (preToks2 ss j) (.kw .For :: .symbol v :: .kw .Equals ::
        (render a ++ .kw .To :: (render b ++ (.kw .Step :: (render c ++ renderTail2 (ss.drop (j + 1))))))) := by
      have := h.at
      simpa only [renderS2, List.cons_append, List.append_assoc] using this
    have hd := h.fuel
    have hn := h.nest
    simp only [sdepth2] at hd hn
    have hH := for_head v a b fuel σ _ _ hAt0 (ends_step 6 _) h.quiet h.env.fns h.env.tracing
      (by omega) (by omega) (by rw [h.env.nesting]; omega) (by rw [h.env.nesting]; omega)
    rw [henv] at hH
    cases hna : numE (envOf r.vars) a with
    | error err => rw [hna] at hH; rw [exec_for_err_a hna]; exact outcome_err_of h.locline hH
    | ok x =>
      rw [hna] at hH
      cases hnb : numE (envOf r.vars) b with
      | error err => rw [hnb] at hH; rw [exec_for_err_b hna hnb]; exact outcome_err_of h.locline hH
      | ok y =>
        rw [hnb] at hH
        obtain ⟨r2, hr2, hrun⟩ := hH
        rw [hrun]
        have hAt6 : At (mv σ (1 + 1 + 1 + (render a).length + 1 + (render b).length) r2)
            (preToks2 ss j ++ (.kw .For :: .symbol v :: .kw .Equals :: (render a ++ .kw .To :: render b)))
            (.kw .Step :: (render c ++ renderTail2 (ss.drop (j + 1)))) := by
          have := at_mv (a := .kw .For :: .symbol v :: .kw .Equals :: (render a ++ .kw .To :: render b))
            (b := .kw .Step :: (render c ++ renderTail2 (ss.drop (j + 1))))
            (by simpa only [List.cons_append, List.append_assoc] using hAt0) r2
          refine ⟨this.1, ?_⟩
          rw [this.2.symm]
          show σ.loc.idx + _ = σ.loc.idx + _
          simp only [List.length_cons, List.length_append]
          omega
        have hAt7 := at_mv1 hAt6 (r2 + 1)
        rw [mv_mv] at hAt7
        have hXc := expr_run c fuel _ _ _ (by omega) (by rw [mv_nesting, h.env.nesting]; omega)
          (ends_of_stmtEnd hLE.stmtEnd 6) hAt7 (h.quiet.mv _ _) h.env.fns
        rw [getVar_mv, henv] at hXc
        have hft : forTail (evalN fuel) v x y (mv σ (1 + 1 + 1 + (render a).length + 1 + (render b).length) r2) =
            ((evalN fuel).expr >>= fun vc =>
              match vc with
              | .str _ => fail .typeMismatch
              | .num z => startLoop v x y z)
              (mv σ (1 + 1 + 1 + (render a).length + 1 + (render b).length + 1) (r2 + 1)) := by
          unfold forTail
          rw [bind_ok (accept_true hAt6 rfl), mv_mv]
          rfl
        rw [hft]
        cases hec : foldE (envOf r.vars) c with
        | error err =>
          rw [hec] at hXc
          obtain ⟨hnd, σ', hσ', hl, ho⟩ := hXc
          have hsc : stepE (envOf r.vars) (some c) = .error err := by
            show numE _ c = _; unfold numE; rw [hec]
          rw [exec_for_err_c hna hnb hsc]
          exact ⟨hnd, σ', bind_err hσ', by rw [hl]; exact h.locline, ho⟩
        | ok vc =>
          rw [hec] at hXc
          obtain ⟨r3, hr3, hσ3⟩ := hXc
          simp only [mv_reads, mv_mv] at hr3 hσ3
          rw [bind_ok hσ3]
          have hsc : stepE (envOf r.vars) (some c) = numOf vc := numE_of hec
          cases vc with
          | str sc =>
            rw [exec_for_err_c hna hnb (err := .typeMismatch) hsc]
            exact ⟨by simp, _, rfl, h.locline, rfl⟩
          | num z =>
            rw [exec_for hna hnb hsc]
            have hk : 1 + 1 + 1 + (render a).length + 1 + (render b).length + 1 + (render c).length =
                (renderS2 (.forS v a b (some c))).length := by
              simp only [renderS2, List.length_cons, List.length_append]
              omega
            simp only
            rw [mv_congr σ r3 hk]
            exact startLoop_run h v x y z r3

/-! ### READ -/

theorem optionalArrayIndex_none' {ev : Evals F} {σ : St F} {pre post : List (Token F)}
    (h : At σ pre post) (ht : ∀ t, post.head? = some t → t.isKw .LeftParen = false) :
    optionalArrayIndex ev σ = .ok none (mv σ 0 (σ.reads + 1)) := by
  unfold optionalArrayIndex
  rw [bind_ok (peekIsKw_false .LeftParen h ht)]
  rfl

theorem coerce_matches {t : Str} {d : DataElement F} {v : Value F} (h : Value.coerceFromData t d = .ok v) :
    v.matchesName t = true := by
  unfold Value.coerceFromData at h
  cases hd : endsWithDollar t with
  | true =>
    rw [hd] at h
    cases d <;> simp only [↓reduceIte, Except.ok.injEq] at h <;> subst h <;> simp [Value.matchesName, hd]
  | false =>
    rw [hd] at h
    cases d with
    | str x => simp at h
    | num x => simp only [Bool.false_eq_true, ↓reduceIte, Except.ok.injEq] at h; subst h; simp [Value.matchesName, hd]

theorem coerce_err {t : Str} {d : DataElement F} {e : Err} (h : Value.coerceFromData (F := F) t d = .error e) :
    e = .dataTypeMismatch := by
  unfold Value.coerceFromData at h
  cases hd : endsWithDollar t with
  | true => rw [hd] at h; cases d <;> simp at h
  | false =>
    rw [hd] at h
    cases d with
    | str x => simp only [Bool.false_eq_true, ↓reduceIte, Except.error.injEq] at h; exact h.symm
    | num x => simp at h

/-- one target of a READ: its name, the next item, the coercion, the assignment -/
theorem read_one {p : RProgram2 F} (hwf : p.WF) (ev : Evals F) (t : Str) (σ : St F) (pre post : List (Token F))
    (c : Nat) (hAt : At σ pre (.symbol t :: post)) (hpost : ∀ t', post.head? = some t' → t'.isKw .LeftParen = false)
    (hh : Holds σ.lines p) (hd : DataRel p c σ.data) (K : M F Unit) :
    match (allData p)[c]? with
    | none => ∃ σ', (do
          let lv ← parseLValue ev
          match ← nextDataElement with
          | none => fail .outOfData
          | some e =>
            let v ← liftE (Value.coerceFromData lv.name e)
            assignValue lv v
            K) σ = .err { err := .outOfData } σ' ∧ σ'.loc.line = σ.loc.line ∧ σ'.out = σ.out
    | some (ln, d) =>
      match Value.coerceFromData t d with
      | .error e => ∃ σ' i, (do
          let lv ← parseLValue ev
          match ← nextDataElement with
          | none => fail .outOfData
          | some e =>
            let v ← liftE (Value.coerceFromData lv.name e)
            assignValue lv v
            K) σ = .err { err := e } σ' ∧ σ'.dataLoc = some { line := some ln, idx := i } ∧ σ'.out = σ.out
      | .ok v => ∃ it' σ1, DataRel p (c + 1) (some it') ∧ (do
          let lv ← parseLValue ev
          match ← nextDataElement with
          | none => fail .outOfData
          | some e =>
            let v ← liftE (Value.coerceFromData lv.name e)
            assignValue lv v
            K) σ = K σ1 ∧
          σ1 = mv ({ σ with data := some it', vars := alSet t v σ.vars } : St F) 1 (σ.reads + 1 + 1) := by
  have hAt1 := at_mv1 hAt (σ.reads + 1)
  have hpl : parseLValue ev σ = .ok { name := t, index := none } (mv σ 1 (σ.reads + 1 + 1)) := by
    unfold parseLValue
    rw [bind_ok (next_eq hAt)]
    simp only
    rw [bind_ok (optionalArrayIndex_none' hAt1 hpost), mv_mv]
    rfl
  have hh' : Holds (mv σ 1 (σ.reads + 1 + 1)).lines p := hh
  have hd' : DataRel p c (mv σ 1 (σ.reads + 1 + 1)).data := hd
  cases hc : (allData p)[c]? with
  | none =>
    obtain ⟨it', hnd⟩ := nextData_none hh' hwf hd' hc
    refine ⟨_, ?_, (rfl : (({ mv σ 1 (σ.reads + 1 + 1) with data := some it' } : St F)).loc.line = _), rfl⟩
    rw [bind_ok hpl, bind_ok hnd]
    rfl
  | some lnd =>
    obtain ⟨ln, d⟩ := lnd
    obtain ⟨it', i, hnd, hrel, hdl⟩ := nextData_some hh' hwf hd' hc
    dsimp only
    cases hco : Value.coerceFromData t d with
    | error e =>
      refine ⟨_, i, ?_, hdl, rfl⟩
      rw [bind_ok hpl, bind_ok hnd]
      simp only [hco, liftE]
      rfl
    | ok v =>
      refine ⟨it', _, hrel, ?_, rfl⟩
      rw [bind_ok hpl, bind_ok hnd]
      simp only [hco, liftE]
      have hm := coerce_matches hco
      have hset : assignValue (F := F) { name := t, index := none } v
          ({ mv σ 1 (σ.reads + 1 + 1) with data := some it' } : St F) =
          .ok () { mv σ 1 (σ.reads + 1 + 1) with data := some it', vars := alSet t v σ.vars } := by
        simp only [assignValue, setVar, hm, ↓reduceIte, M.modify]
        rfl
      show (pure v >>= fun v => assignValue { name := t, index := none } v >>= fun _ => K) _ = _
      rw [bind_ok (pure_eq v _), bind_ok hset]
      rfl

/-- the result of a READ against the run of `readLoop` -/
def ReadOK (p : RProgram2 F) (σ : St F) (len : Nat) (res : Res F Unit) :
    List (Str × Value F) × Nat × Ctl2 → Prop
  | (vars, c, .next) => ∃ it' rr, res = .ok ()
        { σ with vars := vars, data := some it', loc := { σ.loc with idx := σ.loc.idx + len }, reads := rr } ∧
      DataRel p c (some it')
  | (_, _, .error e) => e = .outOfData ∧ ∃ σ', res = .err { err := e } σ' ∧ σ'.loc.line = σ.loc.line ∧ σ'.out = σ.out
  | (_, _, .errorAt e ln) => e = .dataTypeMismatch ∧
      ∃ σ' i, res = .err { err := e } σ' ∧ σ'.dataLoc = some { line := some ln, idx := i } ∧ σ'.out = σ.out
  | _ => True

theorem readLoop_unfold (ev : Evals F) (k : Nat) :
    readLoop ev (k + 1) = (do
      let lv ← parseLValue ev
      match ← nextDataElement with
      | none => fail .outOfData
      | some e =>
        let v ← liftE (Value.coerceFromData lv.name e)
        assignValue lv v
        (accept .Comma >>= fun b => if b then readLoop ev k else pure ())) := rfl

theorem readLoop_run {p : RProgram2 F} (hwf : p.WF) (ev : Evals F) (rest : List (Token F)) (hLE : LineEnd rest) :
    ∀ (ts : List Str), ts ≠ [] → ∀ (k : Nat) (σ : St F) (pre : List (Token F)) (vars : List (Str × Value F)) (c : Nat),
      At σ pre (renderTargets ts ++ rest) → Holds σ.lines p → σ.vars = vars → DataRel p c σ.data →
      (renderTargets (F := F) ts).length < k →
      ReadOK p σ (renderTargets (F := F) ts).length (readLoop ev k σ) (readAll (allData p) ts vars c) := by
  intro ts
  induction ts with
  | nil => intro h; exact absurd rfl h
  | cons t ts' ih =>
    intro _ k σ pre vars c hAt hh hv hd hk
    obtain ⟨k', rfl⟩ : ∃ k', k = k' + 1 := ⟨k - 1, by omega⟩
    rw [readLoop_unfold]
    cases ts' with
    | nil =>
      have hAt0 : At σ pre (.symbol t :: rest) := hAt
      have hO := read_one hwf ev t σ pre rest c hAt0 (lineEnd_not hLE (by decide)) hh hd
        (accept .Comma >>= fun b => if b then readLoop ev k' else pure ())
      cases hc : (allData p)[c]? with
      | none =>
        rw [hc] at hO
        have hr : readAll (allData p) [t] vars c = (vars, c, .error .outOfData) := by
          simp only [readAll, hc]
        rw [hr]
        exact ⟨rfl, hO⟩
      | some lnd =>
        obtain ⟨ln, d⟩ := lnd
        rw [hc] at hO
        dsimp only at hO
        cases hco : Value.coerceFromData t d with
        | error e =>
          rw [hco] at hO
          have hr : readAll (allData p) [t] vars c = (vars, c + 1, .errorAt e ln) := by
            simp only [readAll, hc, hco]
          rw [hr]
          exact ⟨coerce_err hco, hO⟩
        | ok v =>
          rw [hco] at hO
          obtain ⟨it', σ1, hrel, hrun, hσ1⟩ := hO
          have hr : readAll (allData p) [t] vars c = (alSet t v vars, c + 1, .next) := by
            simp only [readAll, hc, hco]
          rw [hr, hrun]
          have hAtb : At ({ σ with data := some it', vars := alSet t v σ.vars } : St F) pre (.symbol t :: rest) :=
            ⟨hAt0.1, hAt0.2⟩
          have hAt1 : At σ1 (pre ++ [.symbol t]) rest := by rw [hσ1]; exact at_mv1 hAtb (σ.reads + 1 + 1)
          rw [bind_ok (accept_end hAt1 (lineEnd_not hLE (by decide)))]
          refine ⟨it', σ1.reads + 1, ?_, hrel⟩
          simp only [Bool.false_eq_true, ↓reduceIte, pure_eq, hσ1, mv, hv, renderTargets, List.length_cons,
            List.length_nil]
    | cons t' ts'' =>
      have hAt0 : At σ pre (.symbol t :: .kw .Comma :: (renderTargets (t' :: ts'') ++ rest)) := by
        simpa only [renderTargets, List.cons_append] using hAt
      have hlen : (renderTargets (F := F) (t :: t' :: ts'')).length = (renderTargets (F := F) (t' :: ts'')).length + 2 := by
        simp only [renderTargets, List.length_cons]
      have hO := read_one hwf ev t σ pre _ c hAt0 (by intro t0 ht0; simp only [List.head?_cons, Option.some.injEq] at ht0; subst ht0; rfl) hh hd
        (accept .Comma >>= fun b => if b then readLoop ev k' else pure ())
      cases hc : (allData p)[c]? with
      | none =>
        rw [hc] at hO
        have hr : readAll (allData p) (t :: t' :: ts'') vars c = (vars, c, .error .outOfData) := by
          simp only [readAll, hc]
        rw [hr]
        exact ⟨rfl, hO⟩
      | some lnd =>
        obtain ⟨ln, d⟩ := lnd
        rw [hc] at hO
        dsimp only at hO
        cases hco : Value.coerceFromData t d with
        | error e =>
          rw [hco] at hO
          have hr : readAll (allData p) (t :: t' :: ts'') vars c = (vars, c + 1, .errorAt e ln) := by
            simp only [readAll, hc, hco]
          rw [hr]
          exact ⟨coerce_err hco, hO⟩
        | ok v =>
          rw [hco] at hO
          obtain ⟨it', σ1, hrel, hrun, hσ1⟩ := hO
          have hr : readAll (allData p) (t :: t' :: ts'') vars c =
              readAll (allData p) (t' :: ts'') (alSet t v vars) (c + 1) := by
            simp only [readAll, hc, hco]
          rw [hr, hrun]
          have hAtb : At ({ σ with data := some it', vars := alSet t v σ.vars } : St F) pre
              (.symbol t :: .kw .Comma :: (renderTargets (t' :: ts'') ++ rest)) := ⟨hAt0.1, hAt0.2⟩
          have hAt1 : At σ1 (pre ++ [.symbol t]) (.kw .Comma :: (renderTargets (t' :: ts'') ++ rest)) := by
            rw [hσ1]; exact at_mv1 hAtb (σ.reads + 1 + 1)
          rw [bind_ok (accept_true hAt1 rfl)]
          simp only [↓reduceIte]
          have hAt2 := at_mv1 hAt1 (σ1.reads + 1)
          have hI := ih (by simp) k' _ _ (alSet t v vars) (c + 1) hAt2 (by rw [hσ1]; exact hh)
            (by rw [hσ1]; show alSet t v σ.vars = _; rw [hv])
            (by rw [hσ1]; exact hrel) (by rw [hlen] at hk; omega)
          generalize readAll (allData p) (t' :: ts'') (alSet t v vars) (c + 1) = res at hI ⊢
          obtain ⟨vars', c', ctl⟩ := res
          cases ctl with
          | next =>
            obtain ⟨it'', rr, hres, hrel'⟩ := hI
            refine ⟨it'', rr, ?_, hrel'⟩
            rw [hres, hlen, hσ1]
            simp only [mv]
            congr 3
            omega
          | error e =>
            obtain ⟨he, σ', hres, hl, ho⟩ := hI
            exact ⟨he, σ', hres, by rw [hl, hσ1]; rfl, by rw [ho, hσ1]; rfl⟩
          | errorAt e ln' =>
            obtain ⟨he, σ', i, hres, hdl, ho⟩ := hI
            exact ⟨he, σ', i, hres, hdl, by rw [ho, hσ1]; rfl⟩
          | skipLine => trivial
          | jump m => trivial
          | stop => trivial
          | resume a b => trivial

theorem readAll_ctl (items : List (Nat × DataElement F)) :
    ∀ (ts : List Str) (vars : List (Str × Value F)) (c : Nat),
      (readAll items ts vars c).2.2 = .next ∨ (∃ e, (readAll items ts vars c).2.2 = .error e) ∨
        ∃ e ln, (readAll items ts vars c).2.2 = .errorAt e ln
  | [], vars, c => Or.inl rfl
  | t :: rest, vars, c => by
    cases hc : items[c]? with
    | none => exact Or.inr (Or.inl ⟨.outOfData, by simp only [readAll, hc]⟩)
    | some lnd =>
      obtain ⟨ln, d⟩ := lnd
      cases hco : Value.coerceFromData t d with
      | error e => exact Or.inr (Or.inr ⟨e, ln, by simp only [readAll, hc, hco]⟩)
      | ok v =>
        have : readAll items (t :: rest) vars c = readAll items rest (alSet t v vars) (c + 1) := by
          simp only [readAll, hc, hco]
        rw [this]
        exact readAll_ctl items rest _ _

theorem read_run {p : RProgram2 F} {r : RState2 F} {σ : St F} {n j : Nat} {ss : List (RStmt2 F)} {ts : List Str}
    {fuel : Nat} (h : SReady2 p r σ n j ss (.readS ts) fuel) :
    Outcome p σ n ((preToks2 ss j).length + (renderS2 (.readS ts : RStmt2 F)).length) (renderLine2 ss).length
      (stmtBody (evalN fuel) σ) ((RStmt2.readS ts : RStmt2 F).exec (allData p) n j r).1
      ((RStmt2.readS ts : RStmt2 F).exec (allData p) n j r).2 := by
  have hAt0 : At σ (preToks2 ss j) (.kw .Read :: (renderTargets ts ++ renderTail2 (ss.drop (j + 1)))) := by
    have := h.at
    simpa only [renderS2, List.cons_append] using this
  have hAt1 := at_mv1 hAt0 (σ.reads + 1)
  have hrun : stmtBody (evalN fuel) σ =
      readLoop (evalN fuel) ((preToks2 ss j ++ [Token.kw Kw.Read] ++
        (renderTargets ts ++ renderTail2 (ss.drop (j + 1)))).length + 1) (mv σ 1 (σ.reads + 1)) := by
    unfold stmtBody
    rw [bind_ok (traceHere_off h.env.tracing)]
    unfold dispatch
    rw [bind_ok (next_eq hAt0)]
    show readStatement (evalN fuel) _ = _
    unfold readStatement
    rw [bind_ok (lineBudget_eq hAt1.1)]
  rw [hrun]
  have hL := readLoop_run h.wf (evalN fuel) _ h.lineEnd ts h.covered
    ((preToks2 ss j ++ [Token.kw Kw.Read] ++ (renderTargets ts ++ renderTail2 (ss.drop (j + 1)))).length + 1)
    (mv σ 1 (σ.reads + 1)) _ r.vars r.data hAt1
    h.env.lines h.mem.vars h.mem.data (by simp only [List.length_append]; omega)
  show Outcome p σ n _ _ _
    { r with vars := (readAll (allData p) ts r.vars r.data).1, data := (readAll (allData p) ts r.vars r.data).2.1 }
    (readAll (allData p) ts r.vars r.data).2.2
  have hctl := readAll_ctl (allData p) ts r.vars r.data
  generalize readAll (allData p) ts r.vars r.data = res at hL hctl
  obtain ⟨vars', c', ctl⟩ := res
  cases ctl with
  | next =>
    obtain ⟨it', rr, hres, hrel⟩ := hL
    refine ⟨_, hres, ⟨rfl, rfl, rfl, rfl, rfl, rfl⟩,
      ⟨rfl, h.mem.arrays, h.mem.loops, h.mem.stack, hrel, h.mem.out⟩, ?_⟩
    show ({ line := σ.loc.line, idx := σ.loc.idx + 1 + _ } : Loc) = _
    rw [h.locline, h.idx]
    simp only [renderS2, List.length_cons]
    congr 1
    omega
  | error e =>
    obtain ⟨he, σ', hres, hl, ho⟩ := hL
    exact ⟨by rw [he]; simp, σ', hres, by rw [hl]; exact h.locline, ho⟩
  | errorAt e ln =>
    obtain ⟨he, σ', i, hres, hdl, ho⟩ := hL
    exact ⟨he, σ', i, hres, hdl, ho⟩
  | skipLine => rcases hctl with h | ⟨_, h⟩ | ⟨_, _, h⟩ <;> cases h
  | jump m => rcases hctl with h | ⟨_, h⟩ | ⟨_, _, h⟩ <;> cases h
  | stop => rcases hctl with h | ⟨_, h⟩ | ⟨_, _, h⟩ <;> cases h
  | resume a b => rcases hctl with h | ⟨_, h⟩ | ⟨_, _, h⟩ <;> cases h

end Abasic.Stmt2L
