import Abasic.Proofs.Lift
import Abasic.Props.C01
/-
  Relation A: the nesting counter is the same before and after.
-/
namespace Abasic.Hoare
open Abasic M

variable {F : Type}

/-- the nesting counter is restored -/
def RA (σ σ' : St F) : Prop := σ'.nesting = σ.nesting

instance : IsFrame (RA (F := F)) where
  refl _ := rfl
  trans h1 h2 := Eq.trans h2 h1

theorem rns_sub_RA {σ σ' : St F} (h : RNS σ σ') : RA σ σ' := h.1

namespace RelA
scoped macro_rules | `(tactic| respects_leaf) => `(tactic| exact (rfl : _ = _))
scoped macro_rules | `(tactic| respects_prim) => `(tactic| (refine Respects.mono (R := RNS) (fun _ _ => rns_sub_RA) ?_; respects_prim))

theorem ra_nested [NumOps F] {α : Type} {m : M F α} (hm : Respects RA m) : Respects RA (nested m) := by
  apply respects_of_at
  intro σ
  exact Abasic.Props.C01.nested_balanced m σ (fun s => hm.at s)

theorem ra_setImmediate (ts : List (Token F)) : Respects RA (setImmediate ts) := by
  unfold setImmediate
  respects_tac

theorem ra_gosubLine (n : Nat) : Respects RA (gosubLine (F := F) n) := by
  unfold gosubLine
  respects_tac

theorem ra_returnFromGosub : Respects RA (returnFromGosub (F := F)) := by
  unfold returnFromGosub
  respects_tac

theorem ra_pushFunctionCall (name : Str) (b : List (Str × Value F)) : Respects RA (pushFunctionCall name b) := by
  unfold pushFunctionCall
  respects_tac

theorem ra_popFunctionCall : Respects RA (popFunctionCall (F := F)) := by
  unfold popFunctionCall
  respects_tac

theorem ra_runFromFirst (σ : St F) : RA σ σ.runFromFirst := by
  unfold St.runFromFirst RA
  dsimp only
  split <;> rfl

end RelA

open RelA in
instance [NumOps F] : HostPrims (RA (F := F)) where
  sub := rns_sub_RA
  nested := ra_nested
  setImmediate := ra_setImmediate
  gosubLine := ra_gosubLine
  returnFromGosub := ra_returnFromGosub
  pushFunctionCall := ra_pushFunctionCall
  popFunctionCall := ra_popFunctionCall
  progBreak _ := rfl
  runFromFirst := ra_runFromFirst
  setNumberedLine _ _ _ := rfl

end Abasic.Hoare
