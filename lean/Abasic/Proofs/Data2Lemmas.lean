import Abasic.Proofs.Prog2Rel
/-
  C03, DATA — the DATA chunks of a stored `RProgram2` are the DATA statements of
  the program in program order (`holds_dataChunks`, `flat_progChunks`), and what
  `DataIterator::next` / `next_data_element` do in terms of the items not yet
  yielded (`next_spec`, `nextData_run`).
-/
set_option linter.unusedSectionVars false

namespace Abasic.Prog2L
open Abasic Abasic.Ref Abasic.ExprL Abasic.StmtL Abasic.ProgL M

variable {F : Type} [NumOps F]

/-! ### the chunks of a stored program -/

theorem line_of_mem {p : RProgram2 F} (hasc : (p.map (·.1)).Pairwise (· < ·)) :
    ∀ l ∈ p, p.line l.1 = some l.2 := by
  induction p with
  | nil => intro l hl; cases hl
  | cons a rest ih =>
    obtain ⟨k, ss⟩ := a
    simp only [List.map_cons, List.pairwise_cons] at hasc
    intro l hl
    rcases List.mem_cons.mp hl with rfl | hl
    · simp only [RProgram2.line, beq_self_eq_true, ↓reduceIte]
    · have hlt : k < l.1 := hasc.1 l.1 (List.mem_map.mpr ⟨l, hl, rfl⟩)
      have hne : (k == l.1) = false := by simp only [beq_eq_false_iff_ne, ne_eq]; omega
      simp only [RProgram2.line, hne, Bool.false_eq_true, ↓reduceIte]
      exact ih hasc.2 l hl

theorem listTokens_sub {l : Lines F} {p : RProgram2 F} (h : Holds l p) :
    ∀ q : RProgram2 F, (∀ e ∈ q, p.line e.1 = some e.2) →
      (q.map (·.1)).mapM (fun n => (l.get n).map (fun ts => (n, ts))) =
        some (q.map fun e => (e.1, renderLine2 e.2)) := by
  intro q
  induction q with
  | nil => intro _; rfl
  | cons a rest ih =>
    intro hq
    have ha := hq a List.mem_cons_self
    have hr := ih (fun e he => hq e (List.mem_cons_of_mem _ he))
    rw [List.map_cons, List.mapM_cons, hr, h.get, ha]
    rfl

theorem holds_listTokens {l : Lines F} {p : RProgram2 F} (h : Holds l p) (hwf : p.WF) :
    l.listTokens = some (p.map fun e => (e.1, renderLine2 e.2)) := by
  unfold Lines.listTokens
  rw [h.sorted]
  exact listTokens_sub h p (line_of_mem hwf.ascending)

theorem holds_dataChunks {l : Lines F} {p : RProgram2 F} (h : Holds l p) (hwf : p.WF) :
    l.dataChunks = some (progChunks p) := by
  unfold Lines.dataChunks progChunks
  rw [holds_listTokens h hwf]
  simp only [Option.map_some, List.flatMap_map]
  rfl

/-! ### the items of the chunks are the DATA statements -/

/-- the DATA items among a list of tokens -/
def dataToks (ts : List (Token F)) : List (DataElement F) :=
  ts.flatMap fun t => match t with
    | .data items => items
    | _ => []

def isData : Token F → Bool
  | .data _ => true
  | _ => false

theorem dataToks_append (a b : List (Token F)) : dataToks (a ++ b) = dataToks a ++ dataToks b := by
  simp only [dataToks, List.flatMap_append]

theorem dataToks_cons_nodata {t : Token F} (ts : List (Token F)) (h : isData t = false) :
    dataToks (t :: ts) = dataToks ts := by
  cases t <;> first | rfl | cases h

theorem dataToks_nodata {ts : List (Token F)} (h : ∀ t ∈ ts, isData t = false) : dataToks ts = [] := by
  induction ts with
  | nil => rfl
  | cons t ts ih =>
    rw [dataToks_cons_nodata ts (h t List.mem_cons_self)]
    exact ih fun t' ht' => h t' (List.mem_cons_of_mem _ ht')

theorem nodata_paren (e : Expr F) (ih : ∀ t ∈ render e, isData t = false) :
    ∀ t ∈ (Token.kw .LeftParen :: (render e ++ [Token.kw .RightParen])), isData t = false := by
  intro t ht
  simp only [List.mem_cons, List.mem_append, List.not_mem_nil, or_false] at ht
  rcases ht with rfl | ht | rfl
  · rfl
  · exact ih t ht
  · rfl

theorem nodata_fixP (q : Nat) (e : Expr F) (ih : ∀ t ∈ render e, isData t = false) :
    ∀ t ∈ render (fixP q e), isData t = false := by
  unfold fixP; split
  · rw [render_paren]; exact nodata_paren e ih
  · exact ih

theorem nodata_render (e : Expr F) : ∀ t ∈ render e, isData t = false := by
  induction e with
  | num x => intro t ht; rw [render_num] at ht; simp only [List.mem_singleton] at ht; subst ht; rfl
  | str s => intro t ht; rw [render_str] at ht; simp only [List.mem_singleton] at ht; subst ht; rfl
  | var n => intro t ht; rw [render_var] at ht; simp only [List.mem_singleton] at ht; subst ht; rfl
  | paren x ih => rw [render_paren]; exact nodata_paren x ih
  | abs x ih =>
    rw [render_abs]; intro t ht
    rcases List.mem_cons.mp ht with rfl | ht
    · rfl
    · exact nodata_paren x ih t ht
  | int x ih =>
    rw [render_int]; intro t ht
    rcases List.mem_cons.mp ht with rfl | ht
    · rfl
    · exact nodata_paren x ih t ht
  | un op x ih =>
    rw [render_un]; intro t ht
    rcases List.mem_cons.mp ht with rfl | ht
    · rfl
    · exact nodata_fixP 8 x ih t ht
  | bin op l r ihl ihr =>
    rw [render_bin]; intro t ht
    rcases List.mem_append.mp ht with ht | ht
    · exact nodata_fixP _ l ihl t ht
    · rcases List.mem_cons.mp ht with rfl | ht
      · rfl
      · exact nodata_fixP _ r ihr t ht

theorem nodata_items (items : List (PItem F)) : ∀ t ∈ renderItems items, isData t = false := by
  induction items with
  | nil => intro t ht; simp [renderItems] at ht
  | cons i r ih =>
    intro t ht
    rw [renderItems] at ht
    rcases List.mem_append.mp ht with ht | ht
    · cases i with
      | expr e => exact nodata_render e t ht
      | semi => simp only [PItem.render, List.mem_singleton] at ht; subst ht; rfl
      | comma => simp only [PItem.render, List.mem_singleton] at ht; subst ht; rfl
    · exact ih t ht

theorem nodata_renderS : ∀ (s : RStmt F), ∀ t ∈ renderS s, isData t = false
  | .letS x e => by
    intro t ht
    simp only [renderS, List.mem_cons] at ht
    rcases ht with rfl | rfl | rfl | ht
    · rfl
    · rfl
    · rfl
    · exact nodata_render e t ht
  | .printS items => by
    intro t ht
    simp only [renderS, List.mem_cons] at ht
    rcases ht with rfl | ht
    · rfl
    · exact nodata_items items t ht
  | .gotoS n => by
    intro t ht
    simp only [renderS, List.mem_cons, List.not_mem_nil, or_false] at ht
    rcases ht with rfl | rfl <;> rfl
  | .endS => by
    intro t ht
    simp only [renderS, List.mem_cons, List.not_mem_nil, or_false] at ht
    subst ht; rfl
  | .ifS c s' none => by
    intro t ht
    simp only [renderS, List.mem_cons, List.mem_append] at ht
    rcases ht with rfl | ht | rfl | ht
    · rfl
    · exact nodata_render c t ht
    · rfl
    · exact nodata_renderS s' t ht
  | .ifS c s' (some e') => by
    intro t ht
    simp only [renderS, List.mem_cons, List.mem_append] at ht
    rcases ht with rfl | ht | rfl | ht | rfl | ht
    · rfl
    · exact nodata_render c t ht
    · rfl
    · exact nodata_renderS s' t ht
    · rfl
    · exact nodata_renderS e' t ht

theorem nodata_args (es : List (Expr F)) : ∀ t ∈ renderSubs2 es, isData t = false := by
  induction es with
  | nil => intro t ht; simp [renderSubs2] at ht
  | cons e rest ih =>
    cases rest with
    | nil => simpa only [renderSubs2] using nodata_render e
    | cons e' rest' =>
      intro t ht
      simp only [renderSubs2, List.mem_append, List.mem_cons] at ht
      rcases ht with ht | rfl | ht
      · exact nodata_render e t ht
      · rfl
      · exact ih t (by simpa only [renderSubs2] using ht)

theorem nodata_targets (xs : List Str) : ∀ t ∈ renderTargets (F := F) xs, isData t = false := by
  induction xs with
  | nil => intro t ht; simp [renderTargets] at ht
  | cons x rest ih =>
    cases rest with
    | nil => intro t ht; simp only [renderTargets, List.mem_singleton] at ht; subst ht; rfl
    | cons x' rest' =>
      intro t ht
      simp only [renderTargets, List.mem_cons] at ht
      rcases ht with rfl | rfl | ht
      · rfl
      · rfl
      · exact ih t (by simpa only [renderTargets, List.mem_cons] using ht)

/-- the DATA items among the tokens of a statement are those of the statement -/
theorem dataToks_renderS2 (s : RStmt2 F) : dataToks (renderS2 s) = s.dataOf := by
  cases s with
  | dataS items => simp [renderS2, dataToks, RStmt2.dataOf]
  | base s => exact dataToks_nodata (nodata_renderS s)
  | forS v a b c =>
    apply dataToks_nodata
    cases c with
    | none =>
      intro t ht
      simp only [renderS2, List.mem_cons, List.mem_append] at ht
      rcases ht with rfl | rfl | rfl | ht | rfl | ht
      · rfl
      · rfl
      · rfl
      · exact nodata_render a t ht
      · rfl
      · exact nodata_render b t ht
    | some c =>
      intro t ht
      simp only [renderS2, List.mem_cons, List.mem_append] at ht
      rcases ht with rfl | rfl | rfl | ht | rfl | ht | rfl | ht
      · rfl
      · rfl
      · rfl
      · exact nodata_render a t ht
      · rfl
      · exact nodata_render b t ht
      · rfl
      · exact nodata_render c t ht
  | nextS v => rfl
  | gosubS n => rfl
  | returnS => rfl
  | readS ts =>
    apply dataToks_nodata
    intro t ht
    simp only [renderS2, List.mem_cons] at ht
    rcases ht with rfl | ht
    · rfl
    · exact nodata_targets ts t ht
  | restoreS => rfl
  | dimS name dims =>
    apply dataToks_nodata
    intro t ht
    simp only [renderS2, List.mem_cons, List.mem_append, List.not_mem_nil, or_false] at ht
    rcases ht with rfl | rfl | rfl | ht | rfl
    · rfl
    · rfl
    · rfl
    · exact nodata_args dims t ht
    · rfl
  | letCellS name idx e =>
    apply dataToks_nodata
    intro t ht
    simp only [renderS2, List.mem_cons, List.mem_append] at ht
    rcases ht with rfl | rfl | rfl | ht | rfl | rfl | ht
    · rfl
    · rfl
    · rfl
    · exact nodata_args idx t ht
    · rfl
    · rfl
    · exact nodata_render e t ht

theorem dataToks_tail (ss : List (RStmt2 F)) : dataToks (renderTail2 ss) = ss.flatMap RStmt2.dataOf := by
  induction ss with
  | nil => rfl
  | cons s rest ih =>
    rw [renderTail2, dataToks_cons_nodata _ rfl, dataToks_append, dataToks_renderS2, ih]
    rfl

theorem dataToks_line (ss : List (RStmt2 F)) : dataToks (renderLine2 ss) = ss.flatMap RStmt2.dataOf := by
  cases ss with
  | nil => rfl
  | cons s rest =>
    rw [renderLine2, dataToks_append, dataToks_renderS2, dataToks_tail]
    rfl

theorem flat_lineChunks_aux (n : Nat) (ts : List (Token F)) (k : Nat) :
    flatItems ((ts.zipIdx k).filterMap (fun (t, i) =>
      match t with
      | .data items => some (({ line := some n, idx := i } : Loc), items)
      | _ => none)) = (dataToks ts).map fun d => (some n, d) := by
  induction ts generalizing k with
  | nil => rfl
  | cons t ts ih =>
    rw [List.zipIdx_cons]
    cases t with
    | data items =>
      simp only [List.filterMap_cons, flatItems, List.flatMap_cons]
      have := ih (k + 1)
      simp only [flatItems] at this
      rw [this]
      simp [dataToks]
    | _ =>
      simp only [List.filterMap_cons]
      rw [ih (k + 1), dataToks_cons_nodata _ rfl]

theorem flat_lineChunks (n : Nat) (ts : List (Token F)) :
    flatItems (Props.C03.lineChunks (n, ts)) = (dataToks ts).map fun d => (some n, d) := by
  exact flat_lineChunks_aux n ts 0

theorem flatItems_flatMap {α : Type} (f : α → List (Loc × List (DataElement F))) (l : List α) :
    flatItems (l.flatMap f) = l.flatMap fun a => flatItems (f a) := by
  simp only [flatItems, List.flatMap_assoc]

/-- the items of the DATA chunks of a program are its DATA statements in program order -/
theorem flat_progChunks (p : RProgram2 F) :
    flatItems (progChunks p) = (allData p).map fun x => (some x.1, x.2) := by
  unfold progChunks allData
  rw [flatItems_flatMap, List.map_flatMap]
  congr 1
  funext l
  rw [flat_lineChunks, dataToks_line, List.map_map]
  rfl

/-! ### the iterator -/

theorem remItems_of_drop {it : DataIter F} {ch : Loc × List (DataElement F)}
    {more : List (Loc × List (DataElement F))} (h : it.chunks.drop it.ci = ch :: more) :
    remItems it = (ch.2.drop it.ii).map (fun d => (ch.1.line, d)) ++ flatItems more := by
  unfold remItems; rw [h]

theorem remItems_of_nil {it : DataIter F} (h : it.chunks.drop it.ci = []) : remItems it = [] := by
  unfold remItems; rw [h]

theorem remItems_fresh (chunks : List (Loc × List (DataElement F))) (k : Nat) :
    remItems ({ chunks := chunks, ci := k, ii := 0 } : DataIter F) = flatItems (chunks.drop k) := by
  unfold remItems
  show (match chunks.drop k with | [] => [] | ch :: more => _) = _
  cases chunks.drop k with
  | nil => rfl
  | cons ch more => simp only [List.drop_zero, flatItems, List.flatMap_cons]

/-- `DataIterator::next` yields the first of the remaining items and keeps the
    rest; afterwards the current chunk is the one the item came from -/
theorem next_spec : ∀ (fuel : Nat) (it : DataIter F), it.chunks.length - it.ci < fuel →
    (it.next fuel).2.chunks = it.chunks ∧
    (remItems it = [] → (it.next fuel).1 = none ∧ remItems (it.next fuel).2 = []) ∧
    (∀ ln d tl, remItems it = (ln, d) :: tl →
      (it.next fuel).1 = some d ∧ remItems (it.next fuel).2 = tl ∧
      ((it.next fuel).2.chunks[(it.next fuel).2.ci]?).map (·.1.line) = some ln)
  | 0, it, h => absurd h (Nat.not_lt_zero _)
  | fuel + 1, it, h => by
    cases hc : it.chunks[it.ci]? with
    | none =>
      have hres : it.next (fuel + 1) = (none, it) := by simp only [DataIter.next, hc]
      have hle : it.chunks.length ≤ it.ci := List.getElem?_eq_none_iff.mp hc
      have hrem : remItems it = [] := remItems_of_nil (List.drop_eq_nil_of_le hle)
      rw [hres]
      exact ⟨rfl, fun _ => ⟨rfl, hrem⟩, fun ln d tl h' => by rw [hrem] at h'; cases h'⟩
    | some ch =>
      obtain ⟨loc, items⟩ := ch
      obtain ⟨hlt, hget⟩ := List.getElem?_eq_some_iff.mp hc
      have hdrop : it.chunks.drop it.ci = (loc, items) :: it.chunks.drop (it.ci + 1) := by
        rw [List.drop_eq_getElem_cons hlt, hget]
      have hrem := remItems_of_drop hdrop
      simp only at hrem
      cases hi : items[it.ii]? with
      | some e =>
        have hres : it.next (fuel + 1) = (some e, { it with ii := it.ii + 1 }) := by
          simp only [DataIter.next, hc, hi]
        obtain ⟨hilt, higet⟩ := List.getElem?_eq_some_iff.mp hi
        have hd : items.drop it.ii = e :: items.drop (it.ii + 1) := by
          rw [List.drop_eq_getElem_cons hilt, higet]
        rw [hd] at hrem
        have hrem' : remItems ({ it with ii := it.ii + 1 } : DataIter F) =
            (items.drop (it.ii + 1)).map (fun d => (loc.line, d)) ++ flatItems (it.chunks.drop (it.ci + 1)) :=
          remItems_of_drop (it := { it with ii := it.ii + 1 }) hdrop
        rw [hres]
        refine ⟨rfl, fun h' => (by rw [hrem] at h'; cases h'), fun ln d tl h' => ?_⟩
        rw [hrem] at h'
        simp only [List.map_cons, List.cons_append, List.cons.injEq, Prod.mk.injEq] at h'
        obtain ⟨⟨h1, h2⟩, h3⟩ := h'
        refine ⟨by rw [h2], by rw [hrem', h3], ?_⟩
        show (it.chunks[it.ci]?).map _ = _
        rw [hc, ← h1]
        rfl
      | none =>
        have hres : it.next (fuel + 1) = DataIter.next { it with ii := 0, ci := it.ci + 1 } fuel := by
          simp only [DataIter.next, hc, hi]
        have hile : items.length ≤ it.ii := List.getElem?_eq_none_iff.mp hi
        rw [List.drop_eq_nil_of_le hile] at hrem
        simp only [List.map_nil, List.nil_append] at hrem
        have hrem' : remItems ({ it with ii := 0, ci := it.ci + 1 } : DataIter F) = remItems it := by
          rw [hrem]
          exact remItems_fresh it.chunks (it.ci + 1)
        have ih := next_spec fuel { it with ii := 0, ci := it.ci + 1 } (by show it.chunks.length - (it.ci + 1) < fuel; omega)
        rw [hres]
        rw [hrem'] at ih
        exact ih

/-- `next_data_element`: with items left it yields the next one, moves the
    cursor by one and makes the chunk of that item the current one -/
theorem nextData_some {p : RProgram2 F} {σ : St F} {c : Nat} (hh : Holds σ.lines p) (hwf : p.WF)
    (hd : DataRel p c σ.data) {ln : Nat} {d : DataElement F} (hc : (allData p)[c]? = some (ln, d)) :
    ∃ it' i, nextDataElement σ = .ok (some d) { σ with data := some it' } ∧ DataRel p (c + 1) (some it') ∧
      ({ σ with data := some it' } : St F).dataLoc = some { line := some ln, idx := i } := by
  -- the iterator the call works with
  obtain ⟨it, hit, hchunks, hrem⟩ : ∃ it : DataIter F,
      nextDataElement σ = (fun s : St F =>
        (Res.ok (it.next (it.chunks.length + 1)).1 { s with data := some (it.next (it.chunks.length + 1)).2 })) σ ∧
      it.chunks = progChunks p ∧ remItems it = ((allData p).drop c).map fun x => (some x.1, x.2) := by
    cases hdat : σ.data with
    | some it =>
      rw [hdat] at hd
      refine ⟨it, ?_, hd.1, hd.2⟩
      simp only [nextDataElement, bind, M.bindM, M.get, hdat, pure, M.pureM, M.modify]
    | none =>
      rw [hdat] at hd
      have hc0 : c = 0 := hd
      refine ⟨{ chunks := progChunks p }, ?_, rfl, ?_⟩
      · simp only [nextDataElement, bind, M.bindM, M.get, hdat, holds_dataChunks hh hwf, pure, M.pureM, M.modify]
      · rw [remItems_fresh, List.drop_zero, flat_progChunks, hc0, List.drop_zero]
  have hlt : c < (allData p).length := (List.getElem?_eq_some_iff.mp hc).1
  have hdropc : (allData p).drop c = (ln, d) :: (allData p).drop (c + 1) := by
    rw [List.drop_eq_getElem_cons hlt, (List.getElem?_eq_some_iff.mp hc).2]
  rw [hdropc] at hrem
  obtain ⟨hch, _, hsome⟩ := next_spec (it.chunks.length + 1) it (by omega)
  obtain ⟨h1, h2, h3⟩ := hsome (some ln) d _ hrem
  cases hcur : (it.next (it.chunks.length + 1)).2.chunks[(it.next (it.chunks.length + 1)).2.ci]? with
  | none => rw [hcur] at h3; cases h3
  | some ch =>
    rw [hcur] at h3
    simp only [Option.map_some, Option.some.injEq] at h3
    refine ⟨(it.next (it.chunks.length + 1)).2, ch.1.idx, ?_, ⟨by rw [hch, hchunks], h2⟩, ?_⟩
    · rw [hit, h1]
    · show ((it.next (it.chunks.length + 1)).2.chunks[(it.next (it.chunks.length + 1)).2.ci]?).map (·.1) = _
      rw [hcur]
      simp only [Option.map_some, Option.some.injEq]
      rw [← h3]

/-- `next_data_element` with nothing left -/
theorem nextData_none {p : RProgram2 F} {σ : St F} {c : Nat} (hh : Holds σ.lines p) (hwf : p.WF)
    (hd : DataRel p c σ.data) (hc : (allData p)[c]? = none) :
    ∃ it', nextDataElement σ = .ok none { σ with data := some it' } := by
  obtain ⟨it, hit, hrem⟩ : ∃ it : DataIter F,
      nextDataElement σ = (fun s : St F =>
        (Res.ok (it.next (it.chunks.length + 1)).1 { s with data := some (it.next (it.chunks.length + 1)).2 })) σ ∧
      remItems it = ((allData p).drop c).map fun x => (some x.1, x.2) := by
    cases hdat : σ.data with
    | some it =>
      rw [hdat] at hd
      refine ⟨it, ?_, hd.2⟩
      simp only [nextDataElement, bind, M.bindM, M.get, hdat, pure, M.pureM, M.modify]
    | none =>
      rw [hdat] at hd
      have hc0 : c = 0 := hd
      refine ⟨{ chunks := progChunks p }, ?_, ?_⟩
      · simp only [nextDataElement, bind, M.bindM, M.get, hdat, holds_dataChunks hh hwf, pure, M.pureM, M.modify]
      · rw [remItems_fresh, List.drop_zero, flat_progChunks, hc0, List.drop_zero]
  have hle : (allData p).length ≤ c := List.getElem?_eq_none_iff.mp hc
  rw [List.drop_eq_nil_of_le hle] at hrem
  obtain ⟨_, hnone, _⟩ := next_spec (it.chunks.length + 1) it (by omega)
  exact ⟨_, by rw [hit, (hnone hrem).1]⟩

end Abasic.Prog2L
