import Abasic.Proofs.LoopsTyping
import Abasic.Proofs.Expr2Lemmas
/-
  C06 for the FULL expression language (`Ref.Expr2`: array cells, RND, calls of
  user-defined functions), spec side.

  * `typeOf2 sig e` — the static type of a tree, relative to the signatures
      `sig : name → Option (parameter kinds × result kind)` of the functions the
      analyzer has seen a DEF of.  A cell `A(i₁,…,iₙ)`: at least one subscript,
      all numbers; the kind is that of the name.  ABS / INT / RND: a numeric
      argument, a number.  `F(a₁,…,aₙ)` with `sig F = none` is read as an array
      cell (analyzer and interpreter both do that); with `sig F = some (ps, _)`
      the arguments are checked one at a time against `ps` (too few / too many
      arguments are the syntax errors of the missing `,` resp. `)`), the kind
      is that of the name `F`.
  * `sigOf fns` — the signatures recorded in a function table of the
      interpreter / analyzer state (`St.fns`); `sigOfSpec` the same for the table
      of a reference environment.
  * `FnsTyped sig fns` — the run-time function table agrees with the signatures:
      exactly the functions of `sig` are defined, each with parameter names of
      the recorded kinds and a body that is itself typed (w.r.t. `sig`) with the
      kind of the function's name.  `EnvTyped sig env` — moreover variables,
      frames and arrays hold what their names announce.
  * `fold2_typed` — in such an environment a typed tree evaluates to a value of
      its static kind or fails with a `RunErr2` error (never `.syntax _`,
      `.typeMismatch`, `.undefinedStatement`), and leaves such an environment.
-/
set_option linter.unusedSectionVars false

namespace Abasic.Props.C06
open Abasic Abasic.Ref Abasic.ExprL Abasic.ExprL2

variable {F : Type} [NumOps F]

/-- signatures: parameter kinds and result kind of the functions defined so far -/
abbrev Sig := Str → Option (List VT × VT)

/-- the argument of ABS / INT / RND must be a number; so is the result -/
def numArgT : Except Err VT → Except Err VT
  | .ok .num => .ok .num
  | .ok .str => .error .typeMismatch
  | .error x => .error x

mutual
/-- The static type of an expression of the full language, as the analyzer
    computes it when `sig` are the definitions it has seen. -/
def typeOf2 (sig : Sig) : Expr2 F → Except Err VT
  | .num _ => .ok .num
  | .str _ => .ok .str
  | .var n => .ok (VT.ofName n)
  | .un op e =>
    match typeOf2 sig e with
    | .error x => .error x
    | .ok t =>
      match unaryRule op t with
      | some t' => .ok t'
      | none => .error .typeMismatch
  | .bin op l r =>
    match typeOf2 sig l with
    | .error x => .error x
    | .ok a =>
      match typeOf2 sig r with
      | .error x => .error x
      | .ok b =>
        match tierRule (tierOf op) a b with
        | some t => .ok t
        | none => .error .typeMismatch
  | .paren e => typeOf2 sig e
  | .abs e => numArgT (typeOf2 sig e)
  | .int e => numArgT (typeOf2 sig e)
  | .rnd e => numArgT (typeOf2 sig e)
  | .cell name idx =>
    match typeIdx sig idx with
    | .error x => .error x
    | .ok _ => .ok (VT.ofName name)
  | .call f args =>
    match sig f with
    | none =>
      match typeIdx sig args with
      | .error x => .error x
      | .ok _ => .ok (VT.ofName f)
    | some s =>
      match typeArgs sig true s.1 args with
      | .error x => .error x
      | .ok _ => .ok (VT.ofName f)
termination_by e => sizeOf e
/-- subscripts: at least one, each a number -/
def typeIdx (sig : Sig) : List (Expr2 F) → Except Err Unit
  | [] => .error (.syntax .unexpectedToken)
  | e :: es =>
    match typeOf2 sig e with
    | .error x => .error x
    | .ok .str => .error .typeMismatch
    | .ok .num =>
      match es with
      | [] => .ok ()
      | e' :: es' => typeIdx sig (e' :: es')
termination_by es => sizeOf es
/-- arguments against parameter kinds, one at a time (`first`: no argument has been read yet) -/
def typeArgs (sig : Sig) (first : Bool) : List VT → List (Expr2 F) → Except Err Unit
  | [], [] => .ok ()
  | [], _ :: _ => .error (.syntax (.expectedToken .RightParen))
  | _ :: _, [] => if first then .error (.syntax .unexpectedToken) else .error (.syntax (.expectedToken .Comma))
  | p :: ps, a :: as =>
    match typeOf2 sig a with
    | .error x => .error x
    | .ok t => if t == p then typeArgs sig false ps as else .error .typeMismatch
termination_by _ as => sizeOf as
end

/-- the signatures recorded in a function table of a state -/
def sigOf (fns : List (Str × FnDef)) : Sig := fun f =>
  match alGet f fns with
  | none => none
  | some d => some (d.args.map VT.ofName, VT.ofName f)

/-- the signatures of the function table of a reference environment -/
def sigOfSpec (fns : List (Str × FnDefSpec F)) : Sig := fun f =>
  match alGet f fns with
  | none => none
  | some d => some (d.params.map VT.ofName, VT.ofName f)

/-- The run-time function table agrees with the signatures the static check used:
    the same functions are defined, with parameters of the recorded kinds, and
    every body is itself typed, with the kind of the function's name. -/
def FnsTyped (sig : Sig) (fns : List (Str × FnDefSpec F)) : Prop :=
  ∀ f, match sig f, alGet f fns with
    | none, none => True
    | some s, some d => s.1 = d.params.map VT.ofName ∧ typeOf2 sig d.body = .ok (VT.ofName f)
    | _, _ => False

/-- every binding of the list holds a value of the kind its name announces -/
def BindTyped (l : List (Str × Value F)) : Prop := ∀ k v, alGet k l = some v → v.matchesName k = true

/-- variables, frames, arrays and functions are what the static check assumes -/
structure EnvTyped (sig : Sig) (env : RefEnv F) : Prop where
  vars : BindTyped env.vars
  frames : ∀ fr ∈ env.frames, BindTyped fr
  arrays : ArrKind env.arrays
  fns : FnsTyped sig env.fns

/-- the errors a typed expression may still evaluate to -/
def RunErr2 (e : Err) : Prop := RunErr e ∨ e = .unimplemented ∨ e = .outOfFuel

theorem RunErr2.not_static {e : Err} (h : RunErr2 e) :
    e ≠ .typeMismatch ∧ (∀ se, e ≠ .syntax se) ∧ e ≠ .undefinedStatement := by
  rcases h with h | h | h
  · exact h.not_static
  · subst h; simp
  · subst h; simp

end Abasic.Props.C06
