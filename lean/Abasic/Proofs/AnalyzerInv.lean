import Abasic.Analyzer
/-
  An invariant of the analyzer's evaluator (helper for C05, Abasic/Props/C05Eval.lean).

  For a fixed line store `L`:
  * `LocOk L loc`  — `loc` is on a stored numbered line, at most one past its last token;
  * `SInv L s`     — the state's store is `L`, its cursor and every recorded symbol
                     access are `LocOk`;
  * `EOk L e`      — the error is neither a panic, nor a tokenization error, nor a
                     DATA type mismatch, and its location (if set) is `LocOk`;
  * `Good L Q m`   — from a state with `SInv`, `m` ends in a state with `SInv` and the
                     same nesting counter; a value satisfies `Q`, an error `EOk`.
  Every cursor primitive and every function of the analyzer's evaluator is `Good`.
-/
namespace Abasic.AInv
open Abasic M

variable {F : Type}

def LocOk (L : Lines F) (loc : Loc) : Prop :=
  ∃ n ts, loc.line = some n ∧ L.get n = some ts ∧ loc.idx ≤ ts.length

structure SInv (L : Lines F) (s : St F) : Prop where
  lines : s.lines = L
  loc : LocOk L s.loc
  acc : ∀ x ∈ s.accesses, LocOk L { line := some x.2.1, idx := x.2.2.1 }

/-- errors the evaluator may raise by `fail` -/
def plain : Err → Bool
  | .panic _ => false
  | .syntax (.tokenization _) => false
  | .dataTypeMismatch => false
  | _ => true

structure EOk (L : Lines F) (e : TErr) : Prop where
  plain : plain e.err = true
  loc : ∀ loc, e.loc = some loc → LocOk L loc

def Post (L : Lines F) {α : Type} (Q : α → Prop) (s : St F) : Res F α → Prop
  | .ok a s' => SInv L s' ∧ s'.nesting = s.nesting ∧ Q a
  | .err e s' => SInv L s' ∧ s'.nesting = s.nesting ∧ EOk L e

def Good (L : Lines F) {α : Type} (Q : α → Prop) (m : M F α) : Prop :=
  ∀ s, SInv L s → Post L Q s (m s)

abbrev T {α : Type} : α → Prop := fun _ => True

section
variable {L : Lines F} {α β : Type}

theorem Good.pure {Q : α → Prop} {a : α} (h : Q a) : Good L Q (pure a : M F α) :=
  fun _ hs => ⟨hs, rfl, h⟩

theorem Good.bind {Q : α → Prop} {R : β → Prop} {m : M F α} {f : α → M F β}
    (hm : Good L Q m) (hf : ∀ a, Q a → Good L R (f a)) : Good L R (m >>= f) := by
  intro s hs
  have h1 := hm s hs
  simp only [Bind.bind, M.bindM]
  cases hms : m s with
  | ok a s' =>
    rw [hms] at h1
    obtain ⟨hs', hn, hq⟩ := h1
    have h2 := hf a hq s' hs'
    simp only
    cases hfs : f a s' with
    | ok b s'' => rw [hfs] at h2; exact ⟨h2.1, h2.2.1.trans hn, h2.2.2⟩
    | err e s'' => rw [hfs] at h2; exact ⟨h2.1, h2.2.1.trans hn, h2.2.2⟩
  | err e s' =>
    rw [hms] at h1
    exact h1

theorem Good.weaken {Q R : α → Prop} {m : M F α} (hm : Good L Q m) (h : ∀ a, Q a → R a) : Good L R m := by
  intro s hs
  have h1 := hm s hs
  cases hms : m s with
  | ok a s' => rw [hms] at h1; exact ⟨h1.1, h1.2.1, h a h1.2.2⟩
  | err e s' => rw [hms] at h1; exact h1

theorem Good.triv {Q : α → Prop} {m : M F α} (hm : Good L Q m) : Good L T m := hm.weaken fun _ _ => trivial

theorem Good.fail {Q : α → Prop} {e : Err} (h : plain e = true) : Good L Q (M.fail e : M F α) :=
  fun _ hs => ⟨hs, rfl, ⟨h, by intro loc hl; cases hl⟩⟩

/-- reading the state -/
theorem Good.get_bind {R : β → Prop} {f : St F → M F β} (hf : ∀ s0, Good L R (f s0)) :
    Good L R (M.get >>= f) := by
  intro s hs
  exact hf s s hs

end


/-! ### the cursor primitives -/

section
variable {L : Lines F}

theorem SInv.reads {s : St F} (hs : SInv L s) (r : Nat) : SInv L { s with reads := r } :=
  ⟨hs.lines, hs.loc, hs.acc⟩

theorem SInv.adv {s : St F} (hs : SInv L s) (r : Nat) {n : Nat} {ts : List (Token F)}
    (hl : s.loc.line = some n) (hg : L.get n = some ts) (hi : s.loc.idx < ts.length) :
    SInv L { s with loc := { s.loc with idx := s.loc.idx + 1 }, reads := r } :=
  ⟨hs.lines, ⟨n, ts, hl, hg, hi⟩, hs.acc⟩

theorem peek_eq (s : St F) (n : Nat) (ts : List (Token F)) (hl : s.loc.line = some n)
    (hg : s.lines.get n = some ts) :
    peek s = .ok ts[s.loc.idx]? { s with reads := s.reads + 1 } := by
  simp only [peek, Bind.bind, M.bindM, M.modify, tokens, tokensForLine, hl, hg, M.get, Pure.pure, M.pureM]

/-- the view of a state with the invariant that the cursor lemmas use -/
theorem SInv.view {s : St F} (hs : SInv L s) :
    ∃ n ts, s.loc.line = some n ∧ L.get n = some ts ∧ s.loc.idx ≤ ts.length ∧
      peek s = .ok ts[s.loc.idx]? { s with reads := s.reads + 1 } := by
  obtain ⟨n, ts, hl, hg, hi⟩ := hs.loc
  exact ⟨n, ts, hl, hg, hi, peek_eq s n ts hl (by rw [hs.lines]; exact hg)⟩

theorem good_peek : Good L T (peek : M F (Option (Token F))) := by
  intro s hs
  obtain ⟨n, ts, hl, hg, hi, hp⟩ := hs.view
  rw [hp]
  exact ⟨hs.reads _, rfl, trivial⟩

theorem good_next : Good L T (next : M F (Option (Token F))) := by
  intro s hs
  obtain ⟨n, ts, hl, hg, hi, hp⟩ := hs.view
  simp only [next, Bind.bind, M.bindM, hp]
  cases h : ts[s.loc.idx]? with
  | none => exact ⟨hs.reads _, rfl, trivial⟩
  | some t =>
    have hlt : s.loc.idx < ts.length := (List.getElem?_eq_some_iff.mp h).1
    exact ⟨hs.adv _ hl hg hlt, rfl, trivial⟩

theorem good_hasNext : Good L T (hasNext : M F Bool) :=
  Good.bind good_peek fun _ _ => Good.pure trivial

theorem good_nextUnwrapped : Good L T (nextUnwrapped : M F (Token F)) := by
  intro s hs
  obtain ⟨n, ts, hl, hg, hi, hp⟩ := hs.view
  simp only [nextUnwrapped, next, Bind.bind, M.bindM, hp]
  cases h : ts[s.loc.idx]? with
  | none =>
    refine ⟨hs.reads _, rfl, ⟨rfl, ?_⟩⟩
    intro loc hloc
    simp only [Option.some.injEq] at hloc
    subst hloc
    exact ⟨n, ts, hl, hg, hi⟩
  | some t =>
    have hlt : s.loc.idx < ts.length := (List.getElem?_eq_some_iff.mp h).1
    exact ⟨hs.adv _ hl hg hlt, rfl, trivial⟩

theorem good_expect (k : Kw) : Good L T (expect k : M F Unit) := by
  unfold expect
  refine Good.bind good_nextUnwrapped fun t _ => ?_
  split
  · exact Good.pure trivial
  · exact Good.fail rfl

theorem good_accept (k : Kw) : Good L T (accept k : M F Bool) := by
  intro s hs
  obtain ⟨n, ts, hl, hg, hi, hp⟩ := hs.view
  simp only [accept, Bind.bind, M.bindM, hp]
  cases h : ts[s.loc.idx]? with
  | none => exact ⟨hs.reads _, rfl, trivial⟩
  | some t =>
    have hlt : s.loc.idx < ts.length := (List.getElem?_eq_some_iff.mp h).1
    simp only
    split
    · exact ⟨hs.adv _ hl hg hlt, rfl, trivial⟩
    · exact ⟨hs.reads _, rfl, trivial⟩

theorem good_peekIsKw (k : Kw) : Good L T (peekIsKw k : M F Bool) := by
  unfold peekIsKw
  refine Good.bind good_peek fun t _ => ?_
  split <;> exact Good.pure trivial

theorem good_tryNext {γ : Type} (f : Token F → Option γ) : Good L T (tryNext f : M F (Option γ)) := by
  intro s hs
  obtain ⟨n, ts, hl, hg, hi, hp⟩ := hs.view
  simp only [tryNext, Bind.bind, M.bindM, hp]
  cases h : ts[s.loc.idx]? with
  | none => exact ⟨hs.reads _, rfl, trivial⟩
  | some t =>
    have hlt : s.loc.idx < ts.length := (List.getElem?_eq_some_iff.mp h).1
    simp only
    cases f t with
    | none => exact ⟨hs.reads _, rfl, trivial⟩
    | some a => exact ⟨hs.adv _ hl hg hlt, rfl, trivial⟩

theorem good_lineBudget : Good L T (lineBudget : M F Nat) := by
  intro s hs
  obtain ⟨n, ts, hl, hg, hi⟩ := hs.loc
  have hg' : s.lines.get n = some ts := by rw [hs.lines]; exact hg
  simp only [lineBudget, Bind.bind, M.bindM, tokens, tokensForLine, hl, hg', Pure.pure, M.pureM]
  exact ⟨hs, rfl, trivial⟩

theorem good_prevLoc : Good L (LocOk L) (prevLoc : M F Loc) := by
  intro s hs
  obtain ⟨n, ts, hl, hg, hi⟩ := hs.loc
  refine ⟨hs, rfl, ⟨n, ts, hl, hg, ?_⟩⟩
  show s.loc.idx - 1 ≤ ts.length
  omega

theorem good_logAccess (sym : Str) (loc : Loc) (k : Access) (hloc : LocOk L loc) :
    Good L T (logAccess sym loc k : M F Unit) := by
  intro s hs
  obtain ⟨n, ts, hl, hg, hi⟩ := hloc
  simp only [logAccess, hl, M.modify]
  refine ⟨⟨hs.lines, hs.loc, ?_⟩, rfl, trivial⟩
  intro x hx
  rcases List.mem_append.mp hx with hx | hx
  · exact hs.acc x hx
  · simp only [List.mem_singleton] at hx
    subst hx
    exact ⟨n, ts, rfl, hg, hi⟩

theorem good_defineFunction (name : Str) (args : List Str) : Good L T (defineFunction name args : M F Unit) := by
  intro s hs
  obtain ⟨n, ts, hl, hg, hi⟩ := hs.loc
  simp only [defineFunction, Bind.bind, M.bindM, M.get, hl, M.set]
  exact ⟨⟨hs.lines, hs.loc, hs.acc⟩, rfl, trivial⟩

theorem good_restore : Good L T (M.modify fun s => { s with data := none } : M F Unit) :=
  fun _ hs => ⟨⟨hs.lines, hs.loc, hs.acc⟩, rfl, trivial⟩

theorem good_check (a b : VT) : Good L T (VT.check a b : M F VT) := by
  unfold VT.check
  split
  · exact Good.pure trivial
  · exact Good.fail rfl

theorem good_checkNumber (a : VT) : Good L T (VT.checkNumber a : M F VT) := good_check a .num

/-- `nested` restores the nesting counter, so it cannot underflow -/
theorem good_nested {α : Type} {Q : α → Prop} {m : M F α} (hm : Good L Q m) : Good L Q (nested m) := by
  intro s hs
  have hen : enterNested s = .err { err := .oomStack } s ∨
      enterNested s = .ok () { s with nesting := s.nesting + 1 } := by
    simp only [enterNested, Bind.bind, M.bindM, M.get]
    by_cases h : (s.nesting == Extracted.nestingLimit) = true
    · left; rw [if_pos h]; rfl
    · right; rw [if_neg h]; rfl
  simp only [nested, Bind.bind, M.bindM]
  rcases hen with hen | hen <;> rw [hen]
  · exact ⟨hs, rfl, ⟨rfl, by intro loc hl; cases hl⟩⟩
  · have hs1 : SInv L { s with nesting := s.nesting + 1 } := ⟨hs.lines, hs.loc, hs.acc⟩
    have h1 := hm _ hs1
    simp only [M.attempt]
    cases hms : m { s with nesting := s.nesting + 1 } with
    | ok a s' =>
      rw [hms] at h1
      obtain ⟨hs', hn, hq⟩ := h1
      have hn' : s'.nesting = s.nesting + 1 := hn
      have hex : exitNested s' = .ok () { s' with nesting := s.nesting } := by
        simp only [exitNested, Bind.bind, M.bindM, M.get, hn', M.set]
      simp only [hex, M.ofExcept, M.pureM]
      exact ⟨⟨hs'.lines, hs'.loc, hs'.acc⟩, rfl, hq⟩
    | err e s' =>
      rw [hms] at h1
      obtain ⟨hs', hn, hq⟩ := h1
      have hn' : s'.nesting = s.nesting + 1 := hn
      have hex : exitNested s' = .ok () { s' with nesting := s.nesting } := by
        simp only [exitNested, Bind.bind, M.bindM, M.get, hn', M.set]
      simp only [hex, M.ofExcept, M.throw]
      exact ⟨⟨hs'.lines, hs'.loc, hs'.acc⟩, rfl, hq⟩

end


/-! ### the analyzer's evaluator -/

macro "good_prim" : tactic => `(tactic| first
  | assumption
  | exact Good.pure trivial
  | exact Good.fail rfl
  | exact good_peek
  | exact good_next
  | exact good_hasNext
  | exact good_nextUnwrapped
  | exact good_expect _
  | exact good_accept _
  | exact good_peekIsKw _
  | exact good_tryNext _
  | exact good_lineBudget
  | exact good_check _ _
  | exact good_checkNumber _
  | exact good_restore
  | exact good_defineFunction _ _
  | exact Good.triv (by assumption))

macro "good_step" : tactic => `(tactic| first
  | good_prim
  | (refine Good.bind (Q := T) ?_ (fun _ _ => ?_); good_prim)
  | split)

macro "good_auto" : tactic => `(tactic| repeat' good_step)

section
set_option linter.unusedSectionVars false
variable [NumOps F] {L : Lines F} {ev : AEvals F}

theorem good_aArrayIndexLoop (hev : Good L T ev.expr) (n arity : Nat) :
    Good L T (aArrayIndexLoop ev n arity) := by
  induction n generalizing arity with
  | zero => exact Good.fail rfl
  | succ n ih =>
    unfold aArrayIndexLoop
    good_auto
    exact ih _

macro_rules | `(tactic| good_prim) => `(tactic| exact good_aArrayIndexLoop (by assumption) _ _)

theorem good_aArrayIndex (hev : Good L T ev.expr) : Good L T (aArrayIndex ev) := by
  unfold aArrayIndex
  good_auto

macro_rules | `(tactic| good_prim) => `(tactic| exact good_aArrayIndex (by assumption))

theorem good_aNumberFunctionArg (hev : Good L T ev.expr) : Good L T (aNumberFunctionArg ev) := by
  unfold aNumberFunctionArg
  good_auto

macro_rules | `(tactic| good_prim) => `(tactic| exact good_aNumberFunctionArg (by assumption))

theorem good_aBindArgs (hev : Good L T ev.expr) (arity : Nat) (args : List Str) (i : Nat) :
    Good L T (aBindArgs ev arity args i) := by
  induction args generalizing i with
  | nil => exact Good.pure trivial
  | cons a rest ih =>
    unfold aBindArgs
    good_auto
    all_goals exact ih _

macro_rules | `(tactic| good_prim) => `(tactic| exact good_aBindArgs (by assumption) _ _ _)

theorem good_aUserFunctionCall (hev : Good L T ev.expr) (name : Str) (loc : Loc) (hloc : LocOk L loc) :
    Good L T (aUserFunctionCall ev name loc) := by
  unfold aUserFunctionCall
  refine Good.get_bind fun s0 => ?_
  have := good_logAccess (F := F) name loc .read hloc
  good_auto

theorem good_aFunctionCall (hev : Good L T ev.expr) (name : Str) (loc : Loc) (hloc : LocOk L loc) :
    Good L T (aFunctionCall ev name loc) := by
  unfold aFunctionCall
  have := good_aUserFunctionCall hev name loc hloc
  good_auto

theorem good_aTerm (hev : Good L T ev.expr) : Good L T (aTerm ev) := by
  unfold aTerm
  refine Good.bind good_nextUnwrapped fun t _ => ?_
  split
  · exact Good.pure trivial
  · exact Good.pure trivial
  · rename_i sym _
    refine Good.bind good_prevLoc fun loc hloc => ?_
    have h1 := good_aFunctionCall hev sym loc hloc
    have h2 := good_logAccess (F := F) sym loc .read hloc
    good_auto
  · exact Good.fail rfl

macro_rules | `(tactic| good_prim) => `(tactic| exact good_aTerm (by assumption))

theorem good_aParen (hev : Good L T ev.expr) : Good L T (aParen ev) := by
  unfold aParen
  good_auto

macro_rules | `(tactic| good_prim) => `(tactic| exact good_aParen (by assumption))

theorem good_aUnary (hev : Good L T ev.expr) : Good L T (aUnary ev) := by
  unfold aUnary
  good_auto

theorem good_aLevelLoop {sub : M F VT} (hsub : Good L T sub) (ops : Token F → Option BinOp) (tier : ATier)
    (n : Nat) (v : VT) : Good L T (aLevelLoop sub ops tier n v) := by
  induction n generalizing v with
  | zero => exact Good.fail rfl
  | succ n ih =>
    unfold aLevelLoop
    good_auto
    all_goals exact ih _

theorem good_aLevel {sub : M F VT} (hsub : Good L T sub) (ops : Token F → Option BinOp) (tier : ATier) :
    Good L T (aLevel sub ops tier) := by
  unfold aLevel
  refine Good.bind hsub fun v _ => ?_
  refine Good.bind good_lineBudget fun b _ => ?_
  exact good_aLevelLoop hsub ops tier b v

theorem good_aExprBody (hev : Good L T ev.expr) : Good L T (aExprBody ev) := by
  unfold aExprBody aOrExpr
  exact good_nested (good_aLevel (good_aLevel (good_aLevel (good_aLevel (good_aLevel (good_aLevel
    (good_aUnary hev) _ _) _ _) _ _) _ _) _ _) _ _)

/-! statements -/

theorem good_aOptionalArrayIndex (hev : Good L T ev.expr) : Good L T (aOptionalArrayIndex ev) := by
  unfold aOptionalArrayIndex
  good_auto

macro_rules | `(tactic| good_prim) => `(tactic| exact good_aOptionalArrayIndex (by assumption))

theorem good_aAssignValue (lv : ALValue) (r : VT) (hlv : LocOk L lv.loc) :
    Good L T (aAssignValue lv r : M F Unit) := by
  unfold aAssignValue
  have := good_logAccess (F := F) lv.name lv.loc .write hlv
  good_auto

theorem good_aAssignment (hev : Good L T ev.expr) (name : Str) : Good L T (aAssignment ev name) := by
  unfold aAssignment
  refine Good.bind good_prevLoc fun loc hloc => ?_
  refine Good.bind (good_aOptionalArrayIndex hev) fun arity _ => ?_
  refine Good.bind (good_expect _) fun _ _ => ?_
  refine Good.bind hev fun t _ => ?_
  exact good_aAssignValue _ _ hloc

macro_rules | `(tactic| good_prim) => `(tactic| exact good_aAssignment (by assumption) _)

theorem good_aLet (hev : Good L T ev.expr) : Good L T (aLet ev) := by
  unfold aLet
  good_auto

theorem good_aParseLValue (hev : Good L T ev.expr) :
    Good L (fun lv : ALValue => LocOk L lv.loc) (aParseLValue ev) := by
  unfold aParseLValue
  refine Good.bind good_next fun t _ => ?_
  split
  · refine Good.bind good_prevLoc fun loc hloc => ?_
    refine Good.bind (good_aOptionalArrayIndex hev) fun arity _ => ?_
    exact Good.pure hloc
  · exact Good.fail rfl

theorem good_aReadLoop (hev : Good L T ev.expr) (n : Nat) : Good L T (aReadLoop ev n) := by
  induction n with
  | zero => exact Good.fail rfl
  | succ n ih =>
    unfold aReadLoop
    refine Good.bind (good_aParseLValue hev) fun lv hlv => ?_
    have := good_aAssignValue (F := F) lv (VT.ofName lv.name) hlv
    good_auto

theorem good_aGotoOrGosub : Good L T (aGotoOrGosub : M F Unit) := by
  unfold aGotoOrGosub
  refine Good.bind good_next fun t _ => ?_
  split
  · refine Good.get_bind fun s0 => ?_
    good_auto
  · exact Good.fail rfl

theorem good_aStatementOrGoto (hst : Good L T ev.stmt) : Good L T (aStatementOrGoto ev) := by
  unfold aStatementOrGoto
  have h1 := good_aGotoOrGosub (F := F) (L := L)
  have h2 := good_nested hst
  good_auto

theorem good_aIf (hev : Good L T ev.expr) (hst : Good L T ev.stmt) : Good L T (aIf ev) := by
  unfold aIf
  have := good_aStatementOrGoto hst
  good_auto

theorem good_aPrintLoop (hev : Good L T ev.expr) (n : Nat) : Good L T (aPrintLoop ev n) := by
  induction n with
  | zero => exact Good.fail rfl
  | succ n ih =>
    unfold aPrintLoop
    good_auto

theorem good_aFor (hev : Good L T ev.expr) : Good L T (aFor ev) := by
  unfold aFor
  refine Good.bind good_next fun t _ => ?_
  split
  · rename_i sym _
    refine Good.bind good_prevLoc fun loc hloc => ?_
    have := good_logAccess (F := F) sym loc .write hloc
    good_auto
  · exact Good.fail rfl

theorem good_aNext : Good L T (aNext : M F Unit) := by
  unfold aNext
  refine Good.bind good_next fun t _ => ?_
  split
  · rename_i sym _
    refine Good.bind good_prevLoc fun loc hloc => ?_
    have := good_logAccess (F := F) sym loc .read hloc
    good_auto
  · exact Good.fail rfl

theorem good_defArgsLoop (n : Nat) (acc : List Str) : Good L T (defArgsLoop n acc : M F (List Str)) := by
  induction n generalizing acc with
  | zero => exact Good.fail rfl
  | succ n ih =>
    unfold defArgsLoop
    good_auto
    all_goals exact ih _

theorem good_aDef (hev : Good L T ev.expr) : Good L T (aDef ev) := by
  unfold aDef
  refine Good.bind good_next fun t _ => ?_
  split
  · rename_i fname _
    refine Good.bind good_prevLoc fun loc hloc => ?_
    have h1 := good_logAccess (F := F) fname loc .write hloc
    have h2 := good_defArgsLoop (F := F) (L := L)
    refine Good.bind h1 fun _ _ => ?_
    refine Good.bind (good_expect _) fun _ _ => ?_
    refine Good.bind good_lineBudget fun b _ => ?_
    refine Good.bind (h2 b []) fun args _ => ?_
    good_auto
  · exact Good.fail rfl

theorem good_aStmtBody (hev : Good L T ev.expr) (hst : Good L T ev.stmt) : Good L T (aStmtBody ev) := by
  unfold aStmtBody
  refine Good.bind good_next fun t _ => ?_
  have hIf := good_aIf hev hst
  have hGo := good_aGotoOrGosub (F := F) (L := L)
  have hFor := good_aFor (L := L) hev
  have hNext := good_aNext (F := F) (L := L)
  have hDef := good_aDef (L := L) hev
  have hLet := good_aLet (L := L) hev
  have hDim : Good L T (do let lv ← aParseLValue ev; logAccess lv.name lv.loc .write : M F Unit) :=
    Good.bind (good_aParseLValue hev) fun lv hlv => good_logAccess lv.name lv.loc .write hlv
  have hPrint : Good L T (do let b ← lineBudget; aPrintLoop ev b : M F Unit) :=
    Good.bind good_lineBudget fun b _ => good_aPrintLoop hev b
  have hRead : Good L T (do let b ← lineBudget; aReadLoop ev b : M F Unit) :=
    Good.bind good_lineBudget fun b _ => good_aReadLoop hev b
  split
  · exact Good.pure trivial
  · exact Good.pure trivial
  · exact Good.pure trivial
  · exact good_aAssignment hev _
  · split <;> first | assumption | exact Good.pure trivial | exact Good.fail rfl | exact good_restore
  · exact Good.fail rfl

theorem good_aEvalN (n : Nat) : Good L T (aEvalN (F := F) n).expr ∧ Good L T (aEvalN (F := F) n).stmt := by
  induction n with
  | zero => exact ⟨Good.fail rfl, Good.fail rfl⟩
  | succ n ih => exact ⟨good_aExprBody ih.1, good_aStmtBody ih.1 ih.2⟩

end

end Abasic.AInv
