import Abasic.Props.C12Case
import Abasic.Props.C12Fuel
/-
  Helper lemmas for C12Prot.lean: what a matcher leaves is a suffix of what it was
  given; the spec function `tokList` (tokens only, no byte ranges) of the main loop.
-/
namespace Abasic.Props.C12
open Abasic

/-! ### suffixes -/

theorem skipWs_suffix (cs : Str) : skipWs cs <:+ cs := by
  induction cs with
  | nil => exact List.suffix_refl _
  | cons c cs ih =>
    simp only [skipWs]
    split
    · exact ih.trans (List.suffix_cons _ _)
    · exact List.suffix_refl _

theorem chompKeyword_suffix (kw : Str) : ∀ (cs r : Str), chompKeyword kw cs = some r → r <:+ cs := by
  induction kw with
  | nil => intro cs r h; simp only [chompKeyword] at h; injection h with h; subst h; exact List.suffix_refl _
  | cons k ks ih =>
    intro cs r h
    simp only [chompKeyword] at h
    have hl := skipWs_suffix cs
    cases hs : skipWs cs with
    | nil => rw [hs] at h; cases h
    | cons c r0 =>
      rw [hs] at h hl
      simp only at h
      by_cases hk : (asciiUpper c == k) = true
      · rw [if_pos hk] at h
        exact ((ih r0 r h).trans (List.suffix_cons _ _)).trans hl
      · rw [if_neg hk] at h; cases h

theorem chompKeywordTable_suffix (tbl : List (String × Kw))
    (cs : Str) (k : Kw) (r : Str) (h : chompKeywordTable tbl cs = some (k, r)) : r <:+ cs := by
  induction tbl with
  | nil => simp only [chompKeywordTable] at h; cases h
  | cons e rest ih =>
    obtain ⟨word, k0⟩ := e
    simp only [chompKeywordTable] at h
    cases h1 : chompKeyword word.toList cs with
    | none => rw [h1] at h; exact ih h
    | some r0 =>
      rw [h1] at h
      simp only at h
      injection h with h; injection h with _ h; subst h
      exact chompKeyword_suffix word.toList cs r0 h1

theorem chompAnyKeyword_suffix (cs : Str) (k : Kw) (r : Str) (h : chompAnyKeyword cs = some (k, r)) :
    r <:+ cs :=
  chompKeywordTable_suffix _ cs k r h

theorem chompOneOrTwo_suffix (cs : Str) (k : Kw) (r : Str) (h : chompOneOrTwo cs = some (k, r)) :
    r <:+ cs := by
  unfold chompOneOrTwo at h
  have hl := skipWs_suffix cs
  cases hs : skipWs cs with
  | nil => rw [hs] at h; cases h
  | cons c r0 =>
    rw [hs] at h hl
    simp only at h
    have hr0 : r0 <:+ cs := (List.suffix_cons _ _).trans hl
    cases hlk : Extracted.oneChar.lookup c with
    | none => rw [hlk] at h; cases h
    | some k1 =>
      rw [hlk] at h
      simp only at h
      have hl2 := skipWs_suffix r0
      cases hs2 : skipWs r0 with
      | nil =>
        rw [hs2] at h
        injection h with h; injection h with _ h; subst h; exact hr0
      | cons c2 r2 =>
        rw [hs2] at h hl2
        simp only at h
        cases hq : lookupTwo Extracted.twoChar k1 c2 with
        | none => rw [hq] at h; injection h with h; injection h with _ h; subst h; exact hr0
        | some k2 =>
          rw [hq] at h; injection h with h; injection h with _ h; subst h
          exact ((List.suffix_cons _ _).trans hl2).trans hr0

/-- `splitAtQuote` cuts at the first quote. -/
theorem splitAtQuote_spec (q : Str) : ∀ (s r : Str), splitAtQuote q = some (s, r) →
    q = s ++ '"' :: r ∧ ∀ x ∈ s, (x == '"') = false := by
  induction q with
  | nil => intro s r h; simp only [splitAtQuote] at h; cases h
  | cons c cs ih =>
    intro s r h
    simp only [splitAtQuote] at h
    by_cases hc : (c == '"') = true
    · rw [if_pos hc] at h
      injection h with h; injection h with h1 h2; subst h1; subst h2
      have : c = '"' := by simpa using hc
      subst this
      exact ⟨rfl, by intro x hx; cases hx⟩
    · rw [if_neg hc] at h
      cases hs : splitAtQuote cs with
      | none => rw [hs] at h; cases h
      | some p =>
        obtain ⟨a, r0⟩ := p
        rw [hs] at h
        simp only at h
        injection h with h; injection h with h1 h2; subst h1; subst h2
        obtain ⟨e, hq⟩ := ih a r0 hs
        refine ⟨by rw [e]; rfl, ?_⟩
        intro x hx
        rcases List.mem_cons.mp hx with rfl | hx
        · simpa using hc
        · exact hq x hx

/-- Conversely: text without a quote, a quote, anything. -/
theorem splitAtQuote_append (s r : Str) (hs : ∀ x ∈ s, (x == '"') = false) :
    splitAtQuote (s ++ '"' :: r) = some (s, r) := by
  induction s with
  | nil => simp [splitAtQuote]
  | cons c s ih =>
    have hc : (c == '"') = false := hs c (List.mem_cons_self ..)
    simp only [List.cons_append, splitAtQuote, hc, Bool.false_eq_true, ↓reduceIte]
    rw [ih (fun x hx => hs x (List.mem_cons_of_mem _ hx))]

theorem splitAtQuote_suffix (q s r : Str) (h : splitAtQuote q = some (s, r)) : r <:+ q := by
  obtain ⟨e, _⟩ := splitAtQuote_spec q s r h
  rw [e]
  exact (List.suffix_cons _ _).trans (List.suffix_append _ _)

theorem numLoop_suffix (cs : Str) : (numLoop cs).2 <:+ cs := by
  induction cs with
  | nil => exact List.suffix_refl _
  | cons c cs ih =>
    by_cases hb : isBasicWs c = true
    · rw [numLoop_blank c hb]
      by_cases hd : (numLoop cs).1.isEmpty = true
      · rw [if_pos hd]; exact List.suffix_refl _
      · rw [if_neg hd]; exact ih.trans (List.suffix_cons _ _)
    · by_cases hg : (isAsciiDigit c || c == '.') = true
      · rw [numLoop_digit c hb hg]; exact ih.trans (List.suffix_cons _ _)
      · rw [numLoop_other c hb hg]; exact List.suffix_refl _

theorem symLoop_suffix (first : Bool) (cs : Str) : (symLoop first cs).2 <:+ cs := by
  induction cs generalizing first with
  | nil => exact List.suffix_refl _
  | cons c cs ih =>
    by_cases hb : isBasicWs c = true
    · rw [symLoop_blank first c hb]
      by_cases hd : (symLoop first cs).1.isEmpty = true
      · rw [if_pos hd]; exact List.suffix_refl _
      · rw [if_neg hd]; exact (ih first).trans (List.suffix_cons _ _)
    · cases hv : symValid first c with
      | false => rw [symLoop_invalid first c hb hv]; exact List.suffix_refl _
      | true =>
        by_cases hd : (c == '$') = true
        · rw [symLoop_dollar first c hb hv hd]; exact List.suffix_cons _ _
        · by_cases hk : (chompAnyKeyword cs).isSome = true
          · rw [symLoop_kw first c hb hv hd cs hk]; exact List.suffix_cons _ _
          · rw [symLoop_more first c hb hv hd cs hk]; exact (ih false).trans (List.suffix_cons _ _)

theorem dropBytes_suffix (n : Nat) (cs : Str) : dropBytes n cs <:+ cs := by
  induction cs generalizing n with
  | nil => cases n <;> simp [dropBytes]
  | cons c cs ih =>
    cases n with
    | zero => simp [dropBytes]
    | succ n =>
      simp only [dropBytes]
      exact (ih _).trans (List.suffix_cons _ _)

/-! ### the main loop without byte ranges -/

variable {F : Type} [NumOps F]

/-- The tokens of `tokLoop` (or `none` for any error), without the byte ranges. -/
def tokList : Nat → Str → Option (List (Token F))
  | 0, _ => none
  | fuel + 1, cs =>
    match skipWs cs with
    | [] => some []
    | c :: t =>
      match nextToken (F := F) (c :: t) with
      | .tok tk rest => (tokList fuel rest).map (tk :: ·)
      | _ => none

theorem tokList_zero (cs : Str) : tokList (F := F) 0 cs = none := rfl

theorem tokList_succ_nil (fuel : Nat) (cs : Str) (hs : skipWs cs = []) :
    tokList (F := F) (fuel + 1) cs = some [] := by
  unfold tokList; simp only [hs]

theorem tokList_succ_tok (fuel : Nat) (cs : Str) (c : Char) (t : Str) (hs : skipWs cs = c :: t)
    (tk : Token F) (rest : Str) (hn : nextToken (F := F) (c :: t) = .tok tk rest) :
    tokList (F := F) (fuel + 1) cs = (tokList fuel rest).map (tk :: ·) := by
  conv => lhs; unfold tokList; simp only [hs, hn]

theorem tokList_succ_err (fuel : Nat) (cs : Str) (c : Char) (t : Str) (hs : skipWs cs = c :: t)
    (hn : ∀ tk rest, nextToken (F := F) (c :: t) ≠ .tok tk rest) :
    tokList (F := F) (fuel + 1) cs = none := by
  cases h : nextToken (F := F) (c :: t) with
  | tok tk rest => exact absurd h (hn tk rest)
  | illegalChar => conv => lhs; unfold tokList; simp only [hs, h]
  | unterminated => conv => lhs; unfold tokList; simp only [hs, h]
  | invalidNumber r => conv => lhs; unfold tokList; simp only [hs, h]

/-- `tokList` is what `tokLoop` computes, forgetting positions. -/
theorem tokLoop_spec (fuel : Nat) : ∀ (cs : Str) (idx : Nat) (acc : List (RangedToken F)),
    match tokList (F := F) fuel cs with
    | some l => (tokLoop fuel cs idx acc).2 = none ∧
        (tokLoop fuel cs idx acc).1.map (·.1) = acc.reverse.map (·.1) ++ l
    | none => (tokLoop fuel cs idx acc).2 ≠ none := by
  induction fuel with
  | zero => intro cs idx acc; rw [tokList_zero, tokLoop_zero]; simp
  | succ fuel ih =>
    intro cs idx acc
    cases hs : skipWs cs with
    | nil =>
      rw [tokList_succ_nil fuel cs hs, tokLoop_succ_nil fuel cs idx acc hs]
      simp
    | cons c t =>
      cases hn : nextToken (F := F) (c :: t) with
      | tok tk rest =>
        obtain ⟨a, b, e⟩ := tokLoop_succ_tok fuel cs idx acc c t hs tk rest hn
        rw [tokList_succ_tok fuel cs c t hs tk rest hn, e]
        have := ih rest b ((tk, a, b) :: acc)
        cases hl : tokList (F := F) fuel rest with
        | none => rw [hl] at this; simpa using this
        | some l =>
          rw [hl] at this
          simp only [Option.map_some]
          refine ⟨this.1, ?_⟩
          rw [this.2]
          simp
      | illegalChar =>
        have hne : ∀ tk rest, nextToken (F := F) (c :: t) ≠ .tok tk rest := by
          intro tk rest h; rw [hn] at h; cases h
        rw [tokList_succ_err fuel cs c t hs hne]
        exact tokLoop_succ_err fuel cs idx acc c t hs hne
      | unterminated =>
        have hne : ∀ tk rest, nextToken (F := F) (c :: t) ≠ .tok tk rest := by
          intro tk rest h; rw [hn] at h; cases h
        rw [tokList_succ_err fuel cs c t hs hne]
        exact tokLoop_succ_err fuel cs idx acc c t hs hne
      | invalidNumber r =>
        have hne : ∀ tk rest, nextToken (F := F) (c :: t) ≠ .tok tk rest := by
          intro tk rest h; rw [hn] at h; cases h
        rw [tokList_succ_err fuel cs c t hs hne]
        exact tokLoop_succ_err fuel cs idx acc c t hs hne

/-- `remaining_tokens` succeeds with `ts` exactly when `tokList` yields `ts`. -/
theorem tokenize_iff_tokList (line : Str) (ts : List (Token F)) :
    tokenize (F := F) line 0 = .ok ts ↔ tokList (F := F) (line.length + 1) line = some ts := by
  rw [tokenize_ok_iff]
  have := tokLoop_spec (F := F) (line.length + 1) line 0 []
  cases hl : tokList (F := F) (line.length + 1) line with
  | none =>
    rw [hl] at this
    constructor
    · intro h; exact absurd h.1 this
    · intro h; cases h
  | some l =>
    rw [hl] at this
    simp only [List.reverse_nil, List.map_nil, List.nil_append] at this
    constructor
    · intro h; rw [← h.2, this.2]
    · intro h; injection h with h; subst h; exact this

/-- Any two budgets larger than the text length give the same tokens. -/
theorem tokList_fuel_irrelevant (fuel : Nat) : ∀ (fuel' : Nat) (cs : Str),
    cs.length < fuel → cs.length < fuel' → tokList (F := F) fuel cs = tokList (F := F) fuel' cs := by
  induction fuel with
  | zero => intro _ cs h; omega
  | succ fuel ih =>
    intro fuel' cs h1 h2
    obtain ⟨f', rfl⟩ : ∃ f', fuel' = f' + 1 := ⟨fuel' - 1, by omega⟩
    have hl := skipWs_length cs
    cases hs : skipWs cs with
    | nil => rw [tokList_succ_nil fuel cs hs, tokList_succ_nil f' cs hs]
    | cons c t =>
      rw [hs] at hl
      cases hn : nextToken (F := F) (c :: t) with
      | tok tk rest =>
        rw [tokList_succ_tok fuel cs c t hs tk rest hn, tokList_succ_tok f' cs c t hs tk rest hn]
        have := nextToken_length c t tk rest hn
        rw [ih f' rest (by omega) (by omega)]
      | illegalChar =>
        have hne : ∀ tk rest, nextToken (F := F) (c :: t) ≠ .tok tk rest := by
          intro tk rest h; rw [hn] at h; cases h
        rw [tokList_succ_err fuel cs c t hs hne, tokList_succ_err f' cs c t hs hne]
      | unterminated =>
        have hne : ∀ tk rest, nextToken (F := F) (c :: t) ≠ .tok tk rest := by
          intro tk rest h; rw [hn] at h; cases h
        rw [tokList_succ_err fuel cs c t hs hne, tokList_succ_err f' cs c t hs hne]
      | invalidNumber r =>
        have hne : ∀ tk rest, nextToken (F := F) (c :: t) ≠ .tok tk rest := by
          intro tk rest h; rw [hn] at h; cases h
        rw [tokList_succ_err fuel cs c t hs hne, tokList_succ_err f' cs c t hs hne]

/-- the loop only sees what follows the leading blanks -/
theorem tokList_blank (fuel : Nat) (w : Char) (hw : isBasicWs w = true) (cs : Str) :
    tokList (F := F) fuel (w :: cs) = tokList (F := F) fuel cs := by
  cases fuel with
  | zero => rfl
  | succ fuel =>
    conv => lhs; unfold tokList; rw [skipWs_blank w cs hw]
    conv => rhs; unfold tokList

/-! ### one step, in detail -/

/-- The outcomes of `afterQuote` on two texts on which the scans agree (up to a relation
    `R` between what is left): the same unprotected token, or two errors, or two remarks,
    or two DATA statements. -/
theorem afterQuote_rel (R : Str → Str → Prop) {cs cs' : Str}
    (hn1 : (numLoop cs).1 = (numLoop cs').1) (hn2 : R (numLoop cs).2 (numLoop cs').2)
    (hrem : (chompKeyword Extracted.remKeyword.toList cs).isSome =
      (chompKeyword Extracted.remKeyword.toList cs').isSome)
    (hdat : (chompKeyword Extracted.dataKeyword.toList cs).isSome =
      (chompKeyword Extracted.dataKeyword.toList cs').isSome)
    (hs1 : (symLoop true cs).1 = (symLoop true cs').1) (hs2 : R (symLoop true cs).2 (symLoop true cs').2) :
    (∃ tk r r', afterQuote (F := F) cs = .tok tk r ∧ afterQuote (F := F) cs' = .tok tk r' ∧
        Unprotected tk = true ∧ R r r')
    ∨ ((∀ tk r, afterQuote (F := F) cs ≠ .tok tk r) ∧ (∀ tk r, afterQuote (F := F) cs' ≠ .tok tk r))
    ∨ (∃ r r', chompKeyword Extracted.remKeyword.toList cs = some r ∧
        chompKeyword Extracted.remKeyword.toList cs' = some r' ∧
        afterQuote (F := F) cs = .tok (.remark r) [] ∧ afterQuote (F := F) cs' = .tok (.remark r') [])
    ∨ (∃ pl pl', chompKeyword Extracted.dataKeyword.toList cs = some pl ∧
        chompKeyword Extracted.dataKeyword.toList cs' = some pl' ∧
        afterQuote (F := F) cs = .tok (.data (parseData (F := F) pl).1) (dropBytes (parseData (F := F) pl).2 pl) ∧
        afterQuote (F := F) cs' = .tok (.data (parseData (F := F) pl').1) (dropBytes (parseData (F := F) pl').2 pl')) := by
  unfold afterQuote
  generalize numLoop cs = a at hn1 hn2
  generalize numLoop cs' = a' at hn1 hn2
  obtain ⟨ds, r⟩ := a
  obtain ⟨ds', r'⟩ := a'
  simp only at hn1 hn2
  subst hn1
  cases ds with
  | cons x d =>
    simp only
    cases NumOps.parse (F := F) (x :: d) with
    | none => exact Or.inr (Or.inl ⟨(by intro tk r h; cases h), (by intro tk r h; cases h)⟩)
    | some v =>
      simp only
      by_cases hf : NumOps.isFinite v = true
      · rw [if_pos hf, if_pos hf]; exact Or.inl ⟨_, _, _, rfl, rfl, rfl, hn2⟩
      · rw [if_neg hf, if_neg hf]
        exact Or.inr (Or.inl ⟨(by intro tk r h; cases h), (by intro tk r h; cases h)⟩)
  | nil =>
    simp only
    cases h1 : chompKeyword Extracted.remKeyword.toList cs <;>
      cases h2 : chompKeyword Extracted.remKeyword.toList cs' <;> rw [h1, h2] at hrem
    case none.some => cases hrem
    case some.none => cases hrem
    case some.some => exact Or.inr (Or.inr (Or.inl ⟨_, _, rfl, rfl, rfl, rfl⟩))
    simp only
    cases h3 : chompKeyword Extracted.dataKeyword.toList cs <;>
      cases h4 : chompKeyword Extracted.dataKeyword.toList cs' <;> rw [h3, h4] at hdat
    case none.some => cases hdat
    case some.none => cases hdat
    case some.some => exact Or.inr (Or.inr (Or.inr ⟨_, _, rfl, rfl, rfl, rfl⟩))
    simp only
    generalize symLoop true cs = b at hs1 hs2
    generalize symLoop true cs' = b' at hs1 hs2
    obtain ⟨ss, u⟩ := b
    obtain ⟨ss', u'⟩ := b'
    simp only at hs1 hs2
    subst hs1
    cases ss with
    | cons y e => exact Or.inl ⟨_, _, _, rfl, rfl, rfl, hs2⟩
    | nil => exact Or.inr (Or.inl ⟨(by intro tk r h; cases h), (by intro tk r h; cases h)⟩)

theorem insOpt_isSome {w : Char} {a b : Option Str} (h : InsOpt w a b) : a.isSome = b.isSome := by
  cases a <;> cases b <;> first | rfl | exact h.elim

theorem caseEqOpt_isSome {a b : Option Str} (h : CaseEqOpt a b) : a.isSome = b.isSome := by
  cases a <;> cases b <;> first | rfl | exact h.elim

/-- The possible outcomes of one step on two related texts (relation `R` on what is left). -/
def StepRel (F : Type) [NumOps F] (R : Str → Str → Prop) (cs cs' : Str) : Prop :=
    (∃ tk r r', nextToken (F := F) cs = .tok tk r ∧ nextToken (F := F) cs' = .tok tk r' ∧
        Unprotected tk = true ∧ R r r')
    ∨ ((∀ tk r, nextToken (F := F) cs ≠ .tok tk r) ∧ (∀ tk r, nextToken (F := F) cs' ≠ .tok tk r))
    ∨ (∃ t t', cs = '"' :: t ∧ cs' = '"' :: t' ∧
        nextToken (F := F) cs = (match splitAtQuote t with
          | some (s, r) => .tok (.str s) r
          | none => .unterminated) ∧
        nextToken (F := F) cs' = (match splitAtQuote t' with
          | some (s, r) => .tok (.str s) r
          | none => .unterminated))
    ∨ (∃ r r', chompKeyword Extracted.remKeyword.toList cs = some r ∧
        chompKeyword Extracted.remKeyword.toList cs' = some r' ∧
        nextToken (F := F) cs = .tok (.remark r) [] ∧ nextToken (F := F) cs' = .tok (.remark r') [])
    ∨ (∃ pl pl', chompKeyword Extracted.dataKeyword.toList cs = some pl ∧
        chompKeyword Extracted.dataKeyword.toList cs' = some pl' ∧
        nextToken (F := F) cs = .tok (.data (parseData (F := F) pl).1) (dropBytes (parseData (F := F) pl).2 pl) ∧
        nextToken (F := F) cs' = .tok (.data (parseData (F := F) pl').1) (dropBytes (parseData (F := F) pl').2 pl'))

theorem nextToken_ins_detail (w : Char) (hw : isBasicWs w = true) (c : Char) {t t' : Str}
    (h : Ins w (c :: t) (c :: t')) : StepRel F (Ins w) (c :: t) (c :: t') := by
  unfold StepRel
  rcases insRes_cases (chompAnyKeyword_ins w hw h) with ⟨k1, k2⟩ | ⟨k, r, r', k1, k2, hr⟩
  · rcases insRes_cases (chompOneOrTwo_ins w hw h) with ⟨o1, o2⟩ | ⟨k, r, r', o1, o2, hr⟩
    · by_cases hc : c = '"'
      · subst hc
        exact Or.inr (Or.inr (Or.inl ⟨t, t', rfl, rfl, nextToken_quote t k1 o1, nextToken_quote t' k2 o2⟩))
      · rw [nextToken_noquote c t hc k1 o1, nextToken_noquote c t' hc k2 o2]
        rcases afterQuote_rel (F := F) (Ins w) (numLoop_ins w hw h).1 (numLoop_ins w hw h).2
          (insOpt_isSome (chompKeyword_ins w hw _ h)) (insOpt_isSome (chompKeyword_ins w hw _ h))
          (symLoop_ins true w hw h).1 (symLoop_ins true w hw h).2 with h1 | h1 | h1 | h1
        · exact Or.inl h1
        · exact Or.inr (Or.inl h1)
        · exact Or.inr (Or.inr (Or.inr (Or.inl h1)))
        · exact Or.inr (Or.inr (Or.inr (Or.inr h1)))
    · rw [nextToken_op _ k r k1 o1, nextToken_op _ k r' k2 o2]
      exact Or.inl ⟨_, _, _, rfl, rfl, rfl, hr⟩
  · rw [nextToken_kw _ k r k1, nextToken_kw _ k r' k2]
    exact Or.inl ⟨_, _, _, rfl, rfl, rfl, hr⟩

theorem nextToken_caseEq_detail {c d : Char} {t t' : Str} (h : CaseEq (c :: t) (d :: t')) :
    StepRel F CaseEq (c :: t) (d :: t') := by
  unfold StepRel
  rcases caseEqRes_cases (chompAnyKeyword_caseEq h) with ⟨k1, k2⟩ | ⟨k, r, r', k1, k2, hr⟩
  · rcases caseEqRes_cases (chompOneOrTwo_caseEq h) with ⟨o1, o2⟩ | ⟨k, r, r', o1, o2, hr⟩
    · have hu : asciiUpper c = asciiUpper d := by cases h with | cons h1 _ _ => exact h1
      have hq : (c == '"') = (d == '"') := upperEq_beq hu '"' (by decide)
      by_cases hc : c = '"'
      · have hd : d = '"' := by
          have : (d == '"') = true := by rw [← hq, hc]; rfl
          simpa using this
        subst hc; subst hd
        exact Or.inr (Or.inr (Or.inl ⟨t, t', rfl, rfl, nextToken_quote t k1 o1, nextToken_quote t' k2 o2⟩))
      · have hd : d ≠ '"' := by
          intro e
          have : (c == '"') = true := by rw [hq, e]; rfl
          exact hc (by simpa using this)
        rw [nextToken_noquote c t hc k1 o1, nextToken_noquote d t' hd k2 o2]
        rcases afterQuote_rel (F := F) CaseEq (numLoop_caseEq h).1 (numLoop_caseEq h).2
          (caseEqOpt_isSome (chompKeyword_caseEq _ h)) (caseEqOpt_isSome (chompKeyword_caseEq _ h))
          (symLoop_caseEq true h).1 (symLoop_caseEq true h).2 with h1 | h1 | h1 | h1
        · exact Or.inl h1
        · exact Or.inr (Or.inl h1)
        · exact Or.inr (Or.inr (Or.inr (Or.inl h1)))
        · exact Or.inr (Or.inr (Or.inr (Or.inr h1)))
    · rw [nextToken_op _ k r k1 o1, nextToken_op _ k r' k2 o2]
      exact Or.inl ⟨_, _, _, rfl, rfl, rfl, hr⟩
  · rw [nextToken_kw _ k r k1, nextToken_kw _ k r' k2]
    exact Or.inl ⟨_, _, _, rfl, rfl, rfl, hr⟩

/-- What a token leaves is a suffix of the text. -/
theorem nextToken_suffix (c : Char) (t : Str) (tk : Token F) (rest : Str)
    (h : nextToken (F := F) (c :: t) = .tok tk rest) : rest <:+ c :: t := by
  rcases nextToken_ins_detail (F := F) ' ' (by decide) c (Ins.same (c :: t)) with
    ⟨tk0, r, _, h1, _, _, _⟩ | ⟨h1, _⟩ | ⟨q, _, e, _, h1, _⟩ | ⟨r, _, h0, _, h1, _⟩ | ⟨pl, _, h0, _, h1, _⟩
  · -- unprotected: go through the matchers again
    clear h1
    cases k1 : chompAnyKeyword (c :: t) with
    | some p =>
      obtain ⟨k, r⟩ := p
      rw [nextToken_kw _ k r k1] at h
      injection h with _ h; subst h
      exact chompAnyKeyword_suffix _ k r k1
    | none =>
      cases o1 : chompOneOrTwo (c :: t) with
      | some p =>
        obtain ⟨k, r⟩ := p
        rw [nextToken_op _ k r k1 o1] at h
        injection h with _ h; subst h
        exact chompOneOrTwo_suffix _ k r o1
      | none =>
        by_cases hc : c = '"'
        · subst hc
          rw [nextToken_quote t k1 o1] at h
          cases hs : splitAtQuote t with
          | none => rw [hs] at h; cases h
          | some p =>
            obtain ⟨s, r⟩ := p
            rw [hs] at h
            simp only at h
            injection h with _ h; subst h
            exact (splitAtQuote_suffix t s r hs).trans (List.suffix_cons _ _)
        · rw [nextToken_noquote c t hc k1 o1] at h
          unfold afterQuote at h
          have hn := numLoop_suffix (c :: t)
          generalize numLoop (c :: t) = a at h hn
          obtain ⟨ds, r⟩ := a
          cases ds with
          | cons x d =>
            simp only at h
            cases hq : NumOps.parse (F := F) (x :: d) with
            | none => rw [hq] at h; cases h
            | some v =>
              rw [hq] at h
              simp only at h
              by_cases hf : NumOps.isFinite v = true
              · rw [if_pos hf] at h; injection h with _ h; subst h; exact hn
              · rw [if_neg hf] at h; cases h
          | nil =>
            simp only at h
            cases h1 : chompKeyword Extracted.remKeyword.toList (c :: t) with
            | some r1 =>
              rw [h1] at h; simp only at h; injection h with _ h; subst h
              exact List.nil_suffix
            | none =>
              rw [h1] at h
              simp only at h
              cases h2 : chompKeyword Extracted.dataKeyword.toList (c :: t) with
              | some r2 =>
                rw [h2] at h
                simp only at h
                injection h with _ h; subst h
                exact (dropBytes_suffix _ _).trans (chompKeyword_suffix _ _ _ h2)
              | none =>
                rw [h2] at h
                simp only at h
                have hs := symLoop_suffix true (c :: t)
                generalize symLoop true (c :: t) = b at h hs
                obtain ⟨ss, u⟩ := b
                cases ss with
                | cons y e => simp only at h; injection h with _ h; subst h; exact hs
                | nil => simp only at h; cases h
  · exact absurd h (h1 tk rest)
  · injection e with _ e; subst e
    rw [h1] at h
    cases hs : splitAtQuote t with
    | none => rw [hs] at h; cases h
    | some p =>
      obtain ⟨s, r⟩ := p
      rw [hs] at h
      simp only at h
      injection h with _ h; subst h
      exact (splitAtQuote_suffix t s r hs).trans (List.suffix_cons _ _)
  · rw [h1] at h; injection h with _ h; subst h; exact List.nil_suffix
  · rw [h1] at h; injection h with _ h; subst h
    exact (dropBytes_suffix _ _).trans (chompKeyword_suffix _ _ _ h0)

end Abasic.Props.C12
