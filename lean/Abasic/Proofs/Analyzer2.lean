import Abasic.Proofs.Typing2
import Abasic.Props.C06More
/-
  C06 for the full expression language, analyzer side: the analyzer's
  expression pass (`aOrExpr (aEvalN n)`) on the rendering of an `Expr2` tree.

  The proof mirrors `analyze_render` (Abasic/Props/C06More.lean) — `AAStmt2`
  (atoms through `aParen`), `APStmt2` (tiers), `ASStmt2` (left spine of a tier) —
  by induction on the size of the tree, with two more loops:
  `aArrayIndexLoop` on `e₁ , … , eₖ )` (`aidx_loop`) and `aBindArgs` on the
  arguments of a call (`abind_loop`).

  * `Resolved2 sig e` — names are used consistently with the signatures: a cell
      is not named like a built-in or like a function with a signature, a
      called function is not named like a built-in;
  * `adepth e` — the nesting levels of `evaluate_expression` the ANALYZER goes
      through on `render2 e` (`depth2` with an empty function table: the analyzer
      does not enter function bodies);
  * `accs2 sig ln off e` — the accesses it logs: a variable at its token, an
      array after its subscripts, a called function before its arguments.
-/
set_option linter.unusedSectionVars false

namespace Abasic.Props.C06
open Abasic Abasic.Ref Abasic.ExprL Abasic.ExprL2 Abasic.AnaL M

variable {F : Type} [NumOps F]

/-! ### side conditions and the access log -/

mutual
/-- names are used consistently with the signatures -/
def Resolved2 (sig : Sig) : Expr2 F → Prop
  | .num _ => True
  | .str _ => True
  | .var _ => True
  | .un _ e => Resolved2 sig e
  | .bin _ l r => Resolved2 sig l ∧ Resolved2 sig r
  | .paren e => Resolved2 sig e
  | .abs e => Resolved2 sig e
  | .int e => Resolved2 sig e
  | .rnd e => Resolved2 sig e
  | .cell name idx => reserved name = false ∧ sig name = none ∧ Resolved2L sig idx
  | .call f args => reserved f = false ∧ Resolved2L sig args
def Resolved2L (sig : Sig) : List (Expr2 F) → Prop
  | [] => True
  | e :: es => Resolved2 sig e ∧ Resolved2L sig es
end

/-- nesting levels of the analyzer on `render2 e` -/
def adepth (e : Expr2 F) : Nat := depth2 ([] : List (Str × FnDefSpec F)) 0 e
def adepthArgs (es : List (Expr2 F)) : Nat := depthArgs ([] : List (Str × FnDefSpec F)) 0 es

mutual
/-- the symbol accesses the analyzer logs for `render2 e` standing at token
    index `off` of line `ln` -/
def accs2 (sig : Sig) (ln : Nat) : Nat → Expr2 F → List Acc
  | _, .num _ => []
  | _, .str _ => []
  | off, .var n => [(n, ln, off, .read)]
  | off, .un _ e => accs2 sig ln (if e.prec < 8 then off + 1 + 1 else off + 1) e
  | off, .bin op l r =>
    accs2 sig ln (if l.prec < BinOp.prec op then off + 1 else off) l ++
    accs2 sig ln (if r.prec < BinOp.prec op + 1
              then off + (render2 (fixP2 (BinOp.prec op) l)).length + 1 + 1
              else off + (render2 (fixP2 (BinOp.prec op) l)).length + 1) r
  | off, .paren e => accs2 sig ln (off + 1) e
  | off, .abs e => accs2 sig ln (off + 2) e
  | off, .int e => accs2 sig ln (off + 2) e
  | off, .rnd e => accs2 sig ln (off + 2) e
  | off, .cell name idx => accsArgs sig ln (off + 2) idx ++ [(name, ln, off, .read)]
  | off, .call f args =>
    match sig f with
    | none => accsArgs sig ln (off + 2) args ++ [(f, ln, off, .read)]
    | some _ => (f, ln, off, .read) :: accsArgs sig ln (off + 2) args
def accsArgs (sig : Sig) (ln : Nat) : Nat → List (Expr2 F) → List Acc
  | _, [] => []
  | off, e :: es => accs2 sig ln off e ++ accsArgs sig ln (off + (render2 e).length + 1) es
end

theorem resolved2_fixP2 (sig : Sig) (p : Nat) (e : Expr2 F) :
    Resolved2 sig (fixP2 p e) ↔ Resolved2 sig e := by
  unfold fixP2; split
  · simp only [Resolved2]
  · exact Iff.rfl

theorem typeOf2_paren (sig : Sig) (e : Expr2 F) : typeOf2 sig (.paren e) = typeOf2 sig e := by
  rw [typeOf2]

theorem typeOf2_fixP2 (sig : Sig) (p : Nat) (e : Expr2 F) : typeOf2 sig (fixP2 p e) = typeOf2 sig e := by
  unfold fixP2; split
  · exact typeOf2_paren sig e
  · rfl

theorem accs2_paren (sig : Sig) (ln off : Nat) (e : Expr2 F) :
    accs2 sig ln off (.paren e) = accs2 sig ln (off + 1) e := by rw [accs2]

theorem accs2_fixP2 (sig : Sig) (ln off p : Nat) (e : Expr2 F) :
    accs2 sig ln off (fixP2 p e) = accs2 sig ln (if e.prec < p then off + 1 else off) e := by
  unfold fixP2; split
  · exact accs2_paren sig ln off e
  · rfl

theorem accs2_un (sig : Sig) (ln off : Nat) (op : UnOp) (e : Expr2 F) :
    accs2 sig ln off (.un op e) = accs2 sig ln (off + 1) (fixP2 8 e) := by
  rw [accs2_fixP2, accs2]

theorem accs2_bin (sig : Sig) (ln off : Nat) (op : BinOp) (l r : Expr2 F) :
    accs2 sig ln off (.bin op l r) =
      accs2 sig ln off (fixP2 (BinOp.prec op) l) ++
      accs2 sig ln (off + (render2 (fixP2 (BinOp.prec op) l)).length + 1) (fixP2 (BinOp.prec op + 1) r) := by
  rw [accs2_fixP2, accs2_fixP2, accs2]

theorem accs2_congr (sig : Sig) (ln : Nat) {a b : Nat} (e : Expr2 F) (h : a = b) :
    accs2 sig ln a e = accs2 sig ln b e := by
  subst h; rfl

theorem accsArgs_congr (sig : Sig) (ln : Nat) {a b : Nat} (es : List (Expr2 F)) (h : a = b) :
    accsArgs sig ln a es = accsArgs sig ln b es := by
  subst h; rfl

theorem adepth_fixP2 (p : Nat) (e : Expr2 F) :
    adepth (fixP2 p e) = if e.prec < p then adepth e + 1 else adepth e := depth2_fixP2 _ _ _ _

theorem adepth_bin (op : BinOp) (l r : Expr2 F) :
    adepth (.bin op l r) = max (adepth (fixP2 (BinOp.prec op) l)) (adepth (fixP2 (BinOp.prec op + 1) r)) :=
  depth2_bin _ _ _ _ _

theorem adepth_un (op : UnOp) (e : Expr2 F) : adepth (.un op e) = adepth (fixP2 8 e) := depth2_un _ _ _ _
theorem adepth_paren (e : Expr2 F) : adepth (.paren e) = adepth e + 1 := depth2_paren _ _ _
theorem adepth_abs (e : Expr2 F) : adepth (.abs e) = adepth e + 1 := depth2_abs _ _ _
theorem adepth_int (e : Expr2 F) : adepth (.int e) = adepth e + 1 := depth2_int _ _ _
theorem adepth_rnd (e : Expr2 F) : adepth (.rnd e) = adepth e + 1 := depth2_rnd _ _ _
theorem adepth_cell (name : Str) (idx : List (Expr2 F)) : adepth (.cell name idx) = adepthArgs idx :=
  depth2_cell _ _ _ _
theorem adepth_call (f : Str) (args : List (Expr2 F)) : adepth (.call f args) = adepthArgs args := by
  unfold adepth adepthArgs
  rw [depth2]
  · exact Nat.max_eq_left (Nat.zero_le _)
  · intro d n' h; cases h
theorem adepthArgs_cons (e : Expr2 F) (es : List (Expr2 F)) :
    adepthArgs (e :: es) = max (adepth e + 1) (adepthArgs es) := depthArgs_cons _ _ _ _
theorem adepthArgs_pos (es : List (Expr2 F)) : 1 ≤ adepthArgs es := depthArgs_pos _ _ _

/-- agreement of an analyzer run with a static result of any type -/
def AAgreesG {α β : Type} (res : Res F α) (ty : Except Err β) (σ : St F)
    (k : β → Nat → Res F α) : Prop :=
  match ty with
  | .ok t => ∃ r, σ.reads < r ∧ res = k t r
  | .error x => ∃ σ', res = .err { err := x } σ' ∧ σ'.nesting = σ.nesting

/-! ### the statements proved by induction -/

/-- atoms, parsed by `aParen` -/
def AAStmt2 (sig : Sig) (e : Expr2 F) : Prop :=
  ∀ (f ln : Nat) (σ : St F) (pre rest : List (Token F)),
    adepth e ≤ f → σ.nesting + adepth e ≤ Extracted.nestingLimit → e.prec = 8 →
    Ends 0 rest → At σ pre (render2 e ++ rest) → σ.loc.line = some ln →
    sigOf σ.fns = sig → Resolved2 sig e →
    AAgrees (aParen (aEvalN f) σ) (typeOf2 sig e) σ
      (fun t r => .ok t (lg (mv σ (render2 e).length r) (accs2 sig ln pre.length e)))

/-- any tier at or below the strength of `e` analyzes `render2 e` -/
def APStmt2 (sig : Sig) (e : Expr2 F) : Prop :=
  ∀ (f j ln : Nat) (σ : St F) (pre rest : List (Token F)),
    adepth e ≤ f → σ.nesting + adepth e ≤ Extracted.nestingLimit → lv2 e ≤ j → j ≤ 6 →
    Ends j rest → At σ pre (render2 e ++ rest) → σ.loc.line = some ln →
    sigOf σ.fns = sig → Resolved2 sig e →
    AAgrees (atier (aEvalN f) j σ) (typeOf2 sig e) σ
      (fun t r => .ok t (lg (mv σ (render2 e).length r) (accs2 sig ln pre.length e)))

/-- spine statement (as `ASStmt`) -/
def ASStmt2 (sig : Sig) (e : Expr2 F) : Prop :=
  ∀ (f k n ln : Nat) (g : Nat → Nat) (σ : St F) (pre rest : List (Token F)),
    adepth e ≤ f → σ.nesting + adepth e ≤ Extracted.nestingLimit → lv2 e ≤ k + 1 → k < 6 →
    Ends k rest → At σ pre (render2 e ++ rest) → σ.loc.line = some ln →
    sigOf σ.fns = sig → Resolved2 sig e →
    g ((pre ++ (render2 e ++ rest)).length + 1) = n + spine2 k e →
    AAgrees ((atier (aEvalN f) k >>= fun v => lineBudget >>= fun b =>
              aLevelLoop (atier (aEvalN f) k) (opsAt k) (kindAt k) (g b) v) σ)
      (typeOf2 sig e) σ
      (fun t r => aLevelLoop (atier (aEvalN f) k) (opsAt k) (kindAt k) n t
        (lg (mv σ (render2 e).length r) (accs2 sig ln pre.length e)))

/-- the recursive entry `ev.expr`, one nesting level and one unit of fuel deeper -/
theorem aexpr_eq2 (sig : Sig) (x : Expr2 F) (hx : APStmt2 sig x) (f ln : Nat) (σ : St F)
    (pre rest : List (Token F))
    (hd : adepth x + 1 ≤ f) (hn : σ.nesting + (adepth x + 1) ≤ Extracted.nestingLimit)
    (hE : Ends 6 rest) (hAt : At σ pre (render2 x ++ rest)) (hl : σ.loc.line = some ln)
    (hS : sigOf σ.fns = sig) (hres : Resolved2 sig x) :
    AAgrees ((aEvalN f).expr σ) (typeOf2 sig x) σ
      (fun t r => .ok t (lg (mv σ (render2 x).length r) (accs2 sig ln pre.length x))) := by
  obtain ⟨f', rfl⟩ : ∃ f', f = f' + 1 := ⟨f - 1, by omega⟩
  refine aexpr_of_tier _ f' σ _ _ (by omega) ?_
  exact hx f' 6 ln (nest σ (σ.nesting + 1)) pre rest (by omega) (by simp only [nest_nesting]; omega)
    (by have := prec2_bounds x; unfold lv2; omega) (Nat.le_refl _) hE (at_nest hAt _) hl hS hres

/-! #### atoms -/

theorem AA2_num (sig : Sig) (x : F) : AAStmt2 sig (.num x : Expr2 F) := by
  intro f ln σ pre rest _ _ _ _ hAt _ _ _
  rw [render2_num] at hAt ⊢
  have hAt : At σ pre (.num x :: rest) := hAt
  rw [typeOf2, accs2]
  refine ⟨σ.reads + 1 + 1, by omega, ?_⟩
  unfold aParen
  rw [bind_ok (accept_false hAt rfl)]
  simp only [Bool.false_eq_true, ↓reduceIte]
  unfold aTerm
  rw [bind_ok (nextUnwrapped_eq (at_mv0 hAt _)), mv_mv]
  show Res.ok VT.num _ = Res.ok VT.num (lg _ [])
  rw [lg_nil]
  rfl

theorem AA2_str (sig : Sig) (s : Str) : AAStmt2 sig (.str s : Expr2 F) := by
  intro f ln σ pre rest _ _ _ _ hAt _ _ _
  rw [render2_str] at hAt ⊢
  have hAt : At σ pre (.str s :: rest) := hAt
  rw [typeOf2, accs2]
  refine ⟨σ.reads + 1 + 1, by omega, ?_⟩
  unfold aParen
  rw [bind_ok (accept_false hAt rfl)]
  simp only [Bool.false_eq_true, ↓reduceIte]
  unfold aTerm
  rw [bind_ok (nextUnwrapped_eq (at_mv0 hAt _)), mv_mv]
  show Res.ok VT.str _ = Res.ok VT.str (lg _ [])
  rw [lg_nil]
  rfl

theorem AA2_var (sig : Sig) (n : Str) : AAStmt2 sig (.var n : Expr2 F) := by
  intro f ln σ pre rest _ _ _ hE hAt hl _ _
  rw [render2_var] at hAt ⊢
  have hAt : At σ pre (.symbol n :: rest) := hAt
  rw [typeOf2, accs2]
  refine ⟨σ.reads + 1 + 1 + 1, by omega, ?_⟩
  unfold aParen
  rw [bind_ok (accept_false hAt rfl)]
  simp only [Bool.false_eq_true, ↓reduceIte]
  unfold aTerm
  rw [bind_ok (nextUnwrapped_eq (at_mv0 hAt _)), mv_mv]
  simp only [mv_reads, Nat.zero_add]
  rw [bind_ok (prevLoc_eq (ln := ln) (i := pre.length) (by rw [mv_line]; exact hl)
    (by rw [mv_idx, hAt.2]))]
  have hAt2 := at_mv1 hAt (σ.reads + 1 + 1)
  rw [bind_ok (peekIsKw_false .LeftParen hAt2 (fun t ht => (hE t ht).1)), mv_mv]
  simp only [Bool.false_eq_true, ↓reduceIte, mv_reads]
  rw [bind_ok (logAccess_eq _ _ _ _ _)]
  rfl

theorem AA2_paren (sig : Sig) (x : Expr2 F) (hx : APStmt2 sig x) : AAStmt2 sig (.paren x) := by
  intro f ln σ pre rest hd hn _ _ hAt hl hS hres
  rw [render2_paren] at hAt ⊢
  rw [typeOf2_paren, accs2_paren]
  have hAt : At σ pre (.kw .LeftParen :: (render2 x ++ (.kw .RightParen :: rest))) := by
    simpa only [List.cons_append, List.append_assoc, List.nil_append] using hAt
  rw [adepth_paren] at hd hn
  have hres' : Resolved2 sig x := by simpa only [Resolved2] using hres
  have hAt1 := at_mv1 hAt (σ.reads + 1)
  have hX := aexpr_eq2 sig x hx f ln (mv σ 1 (σ.reads + 1)) _ _ hd hn (ends_rparen 6 rest) hAt1 hl hS hres'
  unfold aParen
  rw [bind_ok (accept_true hAt rfl)]
  simp only [↓reduceIte]
  show AAgrees _ (typeOf2 sig x) _ _
  cases hev : typeOf2 sig x with
  | error e =>
    rw [hev] at hX
    obtain ⟨σ', hσ', hn''⟩ := hX
    exact ⟨σ', bind_err hσ', hn''⟩
  | ok v =>
    rw [hev] at hX
    obtain ⟨r, hr, hσ'⟩ := hX
    simp only [mv_reads, mv_mv] at hr hσ'
    refine ⟨r + 1, by omega, ?_⟩
    rw [bind_ok hσ']
    have hAt2 : At (lg (mv σ (1 + (render2 x).length) r) (accs2 sig ln (pre ++ [Token.kw Kw.LeftParen]).length x))
        ((pre ++ [.kw .LeftParen]) ++ render2 x) (.kw .RightParen :: rest) := by
      have := at_mv hAt1 r
      rw [mv_mv] at this
      exact at_lg this _
    rw [bind_ok (expect_eq hAt2 rfl), mv_lg, mv_mv]
    simp only [lg_reads, mv_reads, pure_eq]
    congr 1
    apply fin_congr
    · simp only [List.length_cons, List.length_append, List.length_nil]
      omega
    · apply accs2_congr
      simp only [List.length_cons, List.length_append, List.length_nil]

/-- an atom at any tier -/
theorem AP2_atom (sig : Sig) (e : Expr2 F) (ha : AAStmt2 sig e) (he : e.prec = 8) : APStmt2 sig e := by
  intro f j ln σ pre rest hd hn _ _ hE hAt hl hS hres
  obtain ⟨t, ts, hts, hun⟩ := atom_head2 e he
  have hAt0 : At σ pre (t :: (ts ++ rest)) := by rw [hts] at hAt; exact hAt
  have hA := ha f ln (mv σ 0 (σ.reads + 1)) pre rest hd hn he (hE.mono (Nat.zero_le _)) (at_mv0 hAt _) hl hS hres
  have h0 : AAgrees (atier (aEvalN f) 0 σ) (typeOf2 sig e) σ
      (fun t r => .ok t (lg (mv σ (render2 e).length r) (accs2 sig ln pre.length e))) := by
    show AAgrees (aUnary (aEvalN f) σ) _ _ _
    unfold aUnary
    rw [bind_ok (tryNext_none hAt0 (fun t' ht' => by
      simp only [List.head?_cons, Option.some.injEq] at ht'; subst ht'; exact hun))]
    cases hev : typeOf2 sig e with
    | error x =>
      rw [hev] at hA
      obtain ⟨σ', hσ', hn'⟩ := hA
      exact ⟨σ', bind_err hσ', hn'⟩
    | ok v =>
      rw [hev] at hA
      obtain ⟨r, hr, hσ'⟩ := hA
      simp only [mv_reads, mv_mv, Nat.zero_add] at hr hσ'
      exact ⟨r, by omega, by rw [bind_ok hσ']; rfl⟩
  exact alift_level _ _ _ _ _ (pre ++ render2 e) rest 0 j (Nat.zero_le _) hE (fun r => at_mv hAt r) h0

/-- the spine statement from the tier statement when `e` has no operator of tier `k+1` on top -/
theorem AS2_of_P (sig : Sig) (e : Expr2 F) (hP : APStmt2 sig e) (f k n ln : Nat) (g : Nat → Nat) (σ : St F)
    (pre rest : List (Token F))
    (hd : adepth e ≤ f) (hn : σ.nesting + adepth e ≤ Extracted.nestingLimit) (hlv : lv2 e ≤ k) (hk : k < 6)
    (hE : Ends k rest) (hAt : At σ pre (render2 e ++ rest)) (hl : σ.loc.line = some ln)
    (hS : sigOf σ.fns = sig) (hres : Resolved2 sig e)
    (hg : g ((pre ++ (render2 e ++ rest)).length + 1) = n + spine2 k e) :
    AAgrees ((atier (aEvalN f) k >>= fun v => lineBudget >>= fun b =>
              aLevelLoop (atier (aEvalN f) k) (opsAt k) (kindAt k) (g b) v) σ)
      (typeOf2 sig e) σ
      (fun t r => aLevelLoop (atier (aEvalN f) k) (opsAt k) (kindAt k) n t
        (lg (mv σ (render2 e).length r) (accs2 sig ln pre.length e))) := by
  have h := hP f k ln σ pre rest hd hn hlv (Nat.le_of_lt hk) hE hAt hl hS hres
  rw [spine2_zero hlv, Nat.add_zero] at hg
  cases hev : typeOf2 sig e with
  | error x =>
    rw [hev] at h
    obtain ⟨σ', hσ', hn'⟩ := h
    exact ⟨σ', bind_err hσ', hn'⟩
  | ok v =>
    rw [hev] at h
    obtain ⟨r, hr, hσ'⟩ := h
    refine ⟨r, hr, ?_⟩
    rw [bind_ok hσ', bind_ok (lineBudget_eq (σ := lg (mv σ (render2 e).length r) _) hAt.1), hg]
    rfl

/-! #### binary operators -/

theorem AP2_paren (sig : Sig) (x : Expr2 F) (hx : APStmt2 sig x) : APStmt2 sig (.paren x) :=
  AP2_atom sig _ (AA2_paren sig x hx) rfl

theorem AP2_fixP (sig : Sig) (p : Nat) (x : Expr2 F) (hx : APStmt2 sig x) : APStmt2 sig (fixP2 p x) := by
  unfold fixP2; split
  · exact AP2_paren sig x hx
  · exact hx

theorem AS2_paren (sig : Sig) (x : Expr2 F) (hx : APStmt2 sig x) : ASStmt2 sig (.paren x) := by
  intro f k n ln g σ pre rest hd hn _ hk hE hAt hl hS hres hg
  exact AS2_of_P sig _ (AP2_paren sig x hx) f k n ln g σ pre rest hd hn (Nat.zero_le _) hk hE hAt hl hS hres hg

theorem AS2_fixP (sig : Sig) (p : Nat) (x : Expr2 F) (hP : APStmt2 sig x) (hS : ASStmt2 sig x) :
    ASStmt2 sig (fixP2 p x) := by
  unfold fixP2; split
  · exact AS2_paren sig x hP
  · exact hS

theorem typeOf2_bin (sig : Sig) (op : BinOp) (l r : Expr2 F) :
    typeOf2 sig (.bin op l r) =
      (match typeOf2 sig l with
       | .error x => .error x
       | .ok a =>
         match typeOf2 sig r with
         | .error x => .error x
         | .ok b =>
           match tierRule (tierOf op) a b with
           | some t => .ok t
           | none => .error .typeMismatch) := by
  rw [typeOf2]
  cases typeOf2 sig l with
  | error x => rfl
  | ok a =>
    cases typeOf2 sig r with
    | error x => rfl
    | ok b => cases tierRule (tierOf op) a b <;> rfl

theorem typeOf2_un (sig : Sig) (op : UnOp) (e : Expr2 F) :
    typeOf2 sig (.un op e) =
      (match typeOf2 sig e with
       | .error x => .error x
       | .ok t =>
         match unaryRule op t with
         | some t' => .ok t'
         | none => .error .typeMismatch) := by
  rw [typeOf2]
  cases typeOf2 sig e with
  | error x => rfl
  | ok t => cases unaryRule op t <;> rfl

/-- the spine case: `bin op l r` read by the loop of the tier of `op` -/
theorem AS2_bin_same (sig : Sig) (op : BinOp) (l r : Expr2 F) (hPl : APStmt2 sig l) (hSl : ASStmt2 sig l)
    (hPr : APStmt2 sig r)
    (f n ln : Nat) (g : Nat → Nat) (σ : St F) (pre rest : List (Token F))
    (hd : adepth (.bin op l r) ≤ f) (hn : σ.nesting + adepth (.bin op l r) ≤ Extracted.nestingLimit)
    (hE : Ends (6 - BinOp.prec op) rest) (hAt : At σ pre (render2 (.bin op l r) ++ rest))
    (hl : σ.loc.line = some ln) (hS : sigOf σ.fns = sig) (hres : Resolved2 sig (.bin op l r))
    (hg : g ((pre ++ (render2 (.bin op l r) ++ rest)).length + 1) = n + spine2 (6 - BinOp.prec op) (.bin op l r)) :
    AAgrees ((atier (aEvalN f) (6 - BinOp.prec op) >>= fun v => lineBudget >>= fun b =>
              aLevelLoop (atier (aEvalN f) (6 - BinOp.prec op)) (opsAt (6 - BinOp.prec op))
                (kindAt (6 - BinOp.prec op)) (g b) v) σ)
      (typeOf2 sig (.bin op l r)) σ
      (fun t r' => aLevelLoop (atier (aEvalN f) (6 - BinOp.prec op)) (opsAt (6 - BinOp.prec op))
        (kindAt (6 - BinOp.prec op)) n t
        (lg (mv σ (render2 (.bin op l r)).length r') (accs2 sig ln pre.length (.bin op l r)))) := by
  have hb := prec_op_bounds op
  have hkind := kindAt_op op
  generalize hk : 6 - BinOp.prec op = k at *
  have hk6 : k < 6 := by omega
  rw [adepth_bin] at hd hn
  have hdl : adepth (fixP2 (BinOp.prec op) l) ≤ f := Nat.le_trans (Nat.le_max_left _ _) hd
  have hdr : adepth (fixP2 (BinOp.prec op + 1) r) ≤ f := Nat.le_trans (Nat.le_max_right _ _) hd
  have hnl : σ.nesting + adepth (fixP2 (BinOp.prec op) l) ≤ Extracted.nestingLimit :=
    Nat.le_trans (Nat.add_le_add_left (Nat.le_max_left _ _) _) hn
  have hnr : σ.nesting + adepth (fixP2 (BinOp.prec op + 1) r) ≤ Extracted.nestingLimit :=
    Nat.le_trans (Nat.add_le_add_left (Nat.le_max_right _ _) _) hn
  have hres2 : Resolved2 sig l ∧ Resolved2 sig r := by simpa only [Resolved2] using hres
  have hresL : Resolved2 sig (fixP2 (BinOp.prec op) l) := (resolved2_fixP2 sig _ l).2 hres2.1
  have hresR : Resolved2 sig (fixP2 (BinOp.prec op + 1) r) := (resolved2_fixP2 sig _ r).2 hres2.2
  rw [accs2_bin, typeOf2_bin]
  rw [render2_bin] at hAt hg ⊢
  have hspL : spine2 k (fixP2 (BinOp.prec op) l) = spine2 k l := by rw [← hk]; exact spine2_fixP2 op l
  have hlvL : lv2 (fixP2 (BinOp.prec op) l) ≤ k + 1 := by rw [← hk]; exact lv_fixP2_left op l
  have hlvR : lv2 (fixP2 (BinOp.prec op + 1) r) ≤ k := by rw [← hk]; exact lv_fixP2_right op r
  have hSL : ASStmt2 sig (fixP2 (BinOp.prec op) l) := AS2_fixP sig _ l hPl hSl
  have hPR : APStmt2 sig (fixP2 (BinOp.prec op + 1) r) := AP2_fixP sig _ r hPr
  have hfL : typeOf2 sig (fixP2 (BinOp.prec op) l) = typeOf2 sig l := typeOf2_fixP2 _ _ _
  have hfR : typeOf2 sig (fixP2 (BinOp.prec op + 1) r) = typeOf2 sig r := typeOf2_fixP2 _ _ _
  have hsp : spine2 k (.bin op l r) = spine2 k l + 1 := by simp only [spine2, hk, if_true]
  generalize fixP2 (BinOp.prec op) l = L at *
  generalize fixP2 (BinOp.prec op + 1) r = R at *
  have hAtL : At σ pre (render2 L ++ (.kw (BinOp.token op) :: (render2 R ++ rest))) := by
    simpa only [List.append_assoc, List.cons_append] using hAt
  have hEL : Ends k (.kw (BinOp.token op) :: (render2 R ++ rest)) := hk ▸ ends_op op _
  -- the left operand, with one more iteration in hand
  have hLres := hSL f k (n + 1) ln g σ pre _ hdl hnl hlvL hk6 hEL hAtL hl hS hresL
    (by rw [hspL]
        have : pre ++ (render2 L ++ Token.kw (BinOp.token op) :: (render2 R ++ rest))
            = pre ++ (render2 L ++ Token.kw (BinOp.token op) :: render2 R ++ rest) := by
          simp only [List.append_assoc, List.cons_append]
        rw [this, hg, hsp]; omega)
  rw [hfL] at hLres
  cases hel : typeOf2 sig l with
  | error x =>
    rw [hel] at hLres
    obtain ⟨σ', hσ', hn'⟩ := hLres
    exact ⟨σ', hσ', hn'⟩
  | ok a =>
    rw [hel] at hLres
    obtain ⟨r1, hr1, hσ1⟩ := hLres
    simp only at hσ1
    dsimp only
    -- one iteration of the loop
    have hAt1 : At (lg (mv σ (render2 L).length r1) (accs2 sig ln pre.length L)) (pre ++ render2 L)
        (.kw (BinOp.token op) :: (render2 R ++ rest)) := at_lg (at_mv hAtL r1) _
    have hop : opsAt (F := F) k (.kw (BinOp.token op)) = some op := by
      rw [opsAt_token, if_pos hk.symm]
    have hAt2 := at_mv1 hAt1 (r1 + 1)
    have hRres := hPR f k ln (mv (lg (mv σ (render2 L).length r1) (accs2 sig ln pre.length L)) 1 (r1 + 1)) _ rest
      hdr hnr hlvR (Nat.le_of_lt hk6) hE hAt2 hl hS hresR
    rw [hfR] at hRres
    cases her : typeOf2 sig r with
    | error x =>
      rw [her] at hRres
      obtain ⟨σ', hσ', hn'⟩ := hRres
      exact ⟨σ', by rw [hσ1]; exact aLevelLoop_err hAt1 hop hσ', hn'⟩
    | ok b =>
      rw [her] at hRres
      obtain ⟨r2, hr2, hσ2⟩ := hRres
      simp only [mv_reads] at hr2
      simp only [mv_mv, fin_fin] at hσ2
      dsimp only
      cases hev : tierRule (tierOf op) a b with
      | none =>
        exact ⟨_, hσ1.trans (aLevelLoop_rej hAt1 hop hσ2 (by rw [hkind]; exact hev)), rfl⟩
      | some c =>
        refine ⟨r2, by omega, ?_⟩
        rw [hσ1, aLevelLoop_ok hAt1 hop hσ2 (by rw [hkind]; exact hev)]
        congr 1
        apply fin_congr
        · simp only [List.length_append, List.length_cons]
          omega
        · congr 1
          apply accs2_congr
          simp only [List.length_append, List.length_cons, List.length_nil]

/-- the tier statement of a binary node from its spine statement -/
theorem AP2_bin (sig : Sig) (op : BinOp) (l r : Expr2 F) (hPl : APStmt2 sig l) (hSl : ASStmt2 sig l)
    (hPr : APStmt2 sig r) : APStmt2 sig (.bin op l r) := by
  intro f j ln σ pre rest hd hn hlv hj hE hAt hl hS hres
  have hb := prec_op_bounds op
  have hkj : 6 - BinOp.prec op + 1 ≤ j := by simp only [lv2, Expr2.prec] at hlv; omega
  have hsp := spine2_le (6 - BinOp.prec op) (.bin op l r)
  have hlen : (render2 (.bin op l r)).length ≤ (pre ++ (render2 (.bin op l r) ++ rest)).length := by
    simp only [List.length_append]; omega
  obtain ⟨n, hn'⟩ : ∃ n, (pre ++ (render2 (.bin op l r) ++ rest)).length + 1
      = (n + 1) + spine2 (6 - BinOp.prec op) (.bin op l r) :=
    ⟨(pre ++ (render2 (.bin op l r) ++ rest)).length - spine2 (6 - BinOp.prec op) (.bin op l r), by omega⟩
  have h := AS2_bin_same sig op l r hPl hSl hPr f (n + 1) ln id σ pre rest hd hn (hE.mono (by omega)) hAt hl hS hres hn'
  have hAt' : ∀ r', At (mv σ (render2 (.bin op l r)).length r') (pre ++ render2 (.bin op l r)) rest :=
    fun r' => at_mv hAt r'
  have h1 : AAgrees (atier (aEvalN f) (6 - BinOp.prec op + 1) σ) (typeOf2 sig (.bin op l r)) σ
      (fun t r' => .ok t (lg (mv σ (render2 (.bin op l r)).length r') (accs2 sig ln pre.length (.bin op l r)))) := by
    show AAgrees ((atier (aEvalN f) (6 - BinOp.prec op) >>= fun v => lineBudget >>= fun b =>
              aLevelLoop (atier (aEvalN f) (6 - BinOp.prec op)) (opsAt (6 - BinOp.prec op))
                (kindAt (6 - BinOp.prec op)) (id b) v) σ) _ _ _
    cases hev : typeOf2 sig (.bin op l r) with
    | error x => rw [hev] at h; exact h
    | ok v =>
      rw [hev] at h
      obtain ⟨r1, hr1, hσ1⟩ := h
      refine ⟨r1 + 1, by omega, ?_⟩
      rw [hσ1]
      simp only
      rw [aLevelLoop_stop (at_lg (hAt' r1) _) (hE.mono hkj)]
      rfl
  exact alift_level _ _ _ _ _ _ rest _ j hkj hE hAt' h1

theorem AS2_bin (sig : Sig) (op : BinOp) (l r : Expr2 F) (hPl : APStmt2 sig l) (hSl : ASStmt2 sig l)
    (hPr : APStmt2 sig r) : ASStmt2 sig (.bin op l r) := by
  intro f k n ln g σ pre rest hd hn hlv hk hE hAt hl hS hres hg
  by_cases hkk : 6 - BinOp.prec op = k
  · subst hkk
    exact AS2_bin_same sig op l r hPl hSl hPr f n ln g σ pre rest hd hn hE hAt hl hS hres hg
  · have hlv' : lv2 (.bin op l r) ≤ k := by
      simp only [lv2, Expr2.prec] at hlv ⊢; omega
    exact AS2_of_P sig _ (AP2_bin sig op l r hPl hSl hPr) f k n ln g σ pre rest hd hn hlv' hk hE hAt hl hS hres hg

theorem AS2_atom (sig : Sig) (e : Expr2 F) (hP : APStmt2 sig e) (he : lv2 e = 0) : ASStmt2 sig e := by
  intro f k n ln g σ pre rest hd hn _ hk hE hAt hl hS hres hg
  exact AS2_of_P sig _ hP f k n ln g σ pre rest hd hn (by omega) hk hE hAt hl hS hres hg

theorem AA2_bin (sig : Sig) (op : BinOp) (l r : Expr2 F) : AAStmt2 sig (.bin op l r) := by
  intro f ln σ pre rest _ _ he
  have := prec_op_bounds op
  simp only [Expr2.prec] at he
  omega

/-! #### unary operators -/

theorem AA2_fixP8 (sig : Sig) (x : Expr2 F) (hP : APStmt2 sig x) (hA : AAStmt2 sig x) :
    AAStmt2 sig (fixP2 8 x) := by
  unfold fixP2; split
  · exact AA2_paren sig x hP
  · exact hA

theorem AA2_un (sig : Sig) (op : UnOp) (x : Expr2 F) : AAStmt2 sig (.un op x) := by
  intro f ln σ pre rest _ _ he
  simp [Expr2.prec] at he

theorem AP2_un (sig : Sig) (op : UnOp) (x : Expr2 F) (hP : APStmt2 sig x) (hA : AAStmt2 sig x) :
    APStmt2 sig (.un op x) := by
  intro f j ln σ pre rest hd hn _ _ hE hAt hl hS hres
  rw [adepth_un] at hd hn
  have hres' : Resolved2 sig (fixP2 8 x) :=
    (resolved2_fixP2 sig 8 x).2 (by simpa only [Resolved2] using hres)
  have hAt0 : At σ pre (.kw (UnOp.token op) :: (render2 (fixP2 8 x) ++ rest)) := by
    rw [render2_un] at hAt; exact hAt
  have hAt1 := at_mv1 hAt0 (σ.reads + 1)
  have hX := AA2_fixP8 sig x hP hA f ln (mv σ 1 (σ.reads + 1)) _ rest hd hn (prec_fixP2_8 x)
    (hE.mono (Nat.zero_le _)) hAt1 hl hS hres'
  rw [typeOf2_fixP2] at hX
  have h0 : AAgrees (atier (aEvalN f) 0 σ) (typeOf2 sig (.un op x)) σ
      (fun t r => .ok t (lg (mv σ (render2 (.un op x)).length r) (accs2 sig ln pre.length (.un op x)))) := by
    show AAgrees (aUnary (aEvalN f) σ) _ _ _
    unfold aUnary
    rw [bind_ok (tryNext_some hAt0 (unop_ofToken op)), typeOf2_un]
    cases hev : typeOf2 sig x with
    | error e =>
      rw [hev] at hX
      obtain ⟨σ', hσ', hn'⟩ := hX
      exact ⟨σ', bind_err hσ', hn'⟩
    | ok v =>
      rw [hev] at hX
      obtain ⟨r, hr, hσ'⟩ := hX
      simp only [mv_reads, mv_mv] at hr hσ'
      rw [bind_ok hσ']
      have hfin : lg (mv σ (1 + (render2 (fixP2 8 x)).length) r)
            (accs2 sig ln (pre ++ [Token.kw (UnOp.token op)]).length (fixP2 8 x))
          = lg (mv σ (render2 (.un op x)).length r) (accs2 sig ln pre.length (.un op x)) := by
        apply fin_congr
        · rw [render2_un, List.length_cons]; omega
        · rw [accs2_un]
          apply accs2_congr
          simp only [List.length_append, List.length_cons, List.length_nil]
      rw [hfin]
      cases op with
      | pos => exact ⟨r, by omega, rfl⟩
      | not => exact ⟨r, by omega, rfl⟩
      | neg =>
        cases v with
        | num => exact ⟨r, by omega, rfl⟩
        | str => exact ⟨_, rfl, rfl⟩
  exact alift_level _ _ _ _ _ (pre ++ render2 (.un op x)) rest 0 j (Nat.zero_le _) hE (fun r => at_mv hAt r) h0

/-! #### ABS / INT / RND -/

theorem typeOf2_abs (sig : Sig) (e : Expr2 F) : typeOf2 sig (.abs e) = numArgT (typeOf2 sig e) := by rw [typeOf2]
theorem typeOf2_int (sig : Sig) (e : Expr2 F) : typeOf2 sig (.int e) = numArgT (typeOf2 sig e) := by rw [typeOf2]
theorem typeOf2_rnd (sig : Sig) (e : Expr2 F) : typeOf2 sig (.rnd e) = numArgT (typeOf2 sig e) := by rw [typeOf2]
theorem accs2_abs (sig : Sig) (ln off : Nat) (e : Expr2 F) :
    accs2 sig ln off (.abs e) = accs2 sig ln (off + 2) e := by rw [accs2]
theorem accs2_int (sig : Sig) (ln off : Nat) (e : Expr2 F) :
    accs2 sig ln off (.int e) = accs2 sig ln (off + 2) e := by rw [accs2]
theorem accs2_rnd (sig : Sig) (ln off : Nat) (e : Expr2 F) :
    accs2 sig ln off (.rnd e) = accs2 sig ln (off + 2) e := by rw [accs2]

/-- `aNumberFunctionArg` on `( render2 x )` -/
theorem aNumberFunctionArg_eq2 (sig : Sig) (x : Expr2 F) (hx : APStmt2 sig x) (f ln : Nat) (σ : St F)
    (pre rest : List (Token F))
    (hd : adepth x + 1 ≤ f) (hn : σ.nesting + (adepth x + 1) ≤ Extracted.nestingLimit)
    (hAt : At σ pre (.kw .LeftParen :: (render2 x ++ (.kw .RightParen :: rest))))
    (hl : σ.loc.line = some ln) (hS : sigOf σ.fns = sig) (hres : Resolved2 sig x) :
    AAgrees (aNumberFunctionArg (aEvalN f) σ) (numArgT (typeOf2 sig x)) σ
      (fun t r => .ok t (lg (mv σ ((render2 x).length + 2) r) (accs2 sig ln (pre.length + 1) x))) := by
  have hAt1 := at_mv1 hAt (σ.reads + 1)
  have hX := aexpr_eq2 sig x hx f ln (mv σ 1 (σ.reads + 1)) _ _ hd hn (ends_rparen 6 rest) hAt1 hl hS hres
  unfold aNumberFunctionArg
  rw [bind_ok (expect_eq hAt rfl)]
  cases hev : typeOf2 sig x with
  | error e =>
    rw [hev] at hX
    obtain ⟨σ', hσ', hn''⟩ := hX
    exact ⟨σ', bind_err hσ', hn''⟩
  | ok v =>
    rw [hev] at hX
    obtain ⟨r, hr, hσ'⟩ := hX
    simp only [mv_reads, mv_mv] at hr hσ'
    cases v with
    | str =>
      exact ⟨_, (bind_ok hσ').trans (bind_err (checkNumber_str _)), rfl⟩
    | num =>
      refine ⟨r + 1, by omega, ?_⟩
      rw [bind_ok hσ']
      show (VT.checkNumber (F := F) .num >>= _) _ = _
      rw [bind_ok (checkNumber_num _)]
      have hAt2 : At (lg (mv σ (1 + (render2 x).length) r) (accs2 sig ln (pre ++ [Token.kw Kw.LeftParen]).length x))
          ((pre ++ [.kw .LeftParen]) ++ render2 x) (.kw .RightParen :: rest) := by
        have := at_mv hAt1 r
        rw [mv_mv] at this
        exact at_lg this _
      rw [bind_ok (expect_eq hAt2 rfl), mv_lg, mv_mv]
      simp only [lg_reads, mv_reads, pure_eq]
      congr 1
      apply fin_congr
      · omega
      · apply accs2_congr
        simp only [List.length_append, List.length_cons, List.length_nil]

/-- `aParen` on `name ( …`: the dispatch of `aTerm` on a symbol followed by `(` -/
theorem aParen_sym (ev : AEvals F) (name : Str) (ln : Nat) (σ : St F) (pre post : List (Token F))
    (hAt : At σ pre (.symbol name :: .kw .LeftParen :: post)) (hl : σ.loc.line = some ln) :
    aParen ev σ =
      (do
        match ← aFunctionCall ev name { line := some ln, idx := pre.length } with
        | some t => pure t
        | none =>
          let _ ← aArrayIndex ev
          logAccess name { line := some ln, idx := pre.length } .read
          pure (VT.ofName name)) (mv σ 1 (σ.reads + 1 + 1 + 1)) := by
  have hAt1 := at_mv1 hAt (σ.reads + 1 + 1)
  unfold aParen
  rw [bind_ok (accept_false hAt rfl)]
  simp only [Bool.false_eq_true, ↓reduceIte]
  unfold aTerm
  rw [bind_ok (nextUnwrapped_eq (at_mv0 hAt _)), mv_mv]
  simp only [mv_reads, Nat.zero_add]
  rw [bind_ok (prevLoc_eq (ln := ln) (i := pre.length) (by rw [mv_line]; exact hl)
    (by rw [mv_idx, hAt.2]))]
  rw [bind_ok (peekIsKw_cons .LeftParen hAt1), mv_mv]
  simp only [mv_reads, Nat.add_zero]
  have hk : (Token.kw (F := F) Kw.LeftParen).isKw Kw.LeftParen = true := rfl
  simp only [hk, ↓reduceIte]
  refine congrFun (congrArg _ ?_) _
  funext o
  cases o <;> rfl

/-- a call of a built-in number function `name ( x )` through `aParen` -/
theorem AA2_builtin (sig : Sig) (name : Str) (x : Expr2 F) (hx : APStmt2 sig x)
    (hname : (name == Extracted.builtinAbs.toList || name == Extracted.builtinInt.toList
      || name == Extracted.builtinRnd.toList) = true)
    (f ln : Nat) (σ : St F) (pre rest : List (Token F))
    (hd : adepth x + 1 ≤ f) (hn : σ.nesting + (adepth x + 1) ≤ Extracted.nestingLimit)
    (hAt : At σ pre (.symbol name :: .kw .LeftParen :: (render2 x ++ (.kw .RightParen :: rest))))
    (hl : σ.loc.line = some ln) (hS : sigOf σ.fns = sig) (hres : Resolved2 sig x) :
    AAgrees (aParen (aEvalN f) σ) (numArgT (typeOf2 sig x)) σ
      (fun t r => .ok t (lg (mv σ ((render2 x).length + 3) r) (accs2 sig ln (pre.length + 2) x))) := by
  have hAt1 := at_mv1 hAt (σ.reads + 1 + 1 + 1)
  have hN := aNumberFunctionArg_eq2 sig x hx f ln (mv σ 1 (σ.reads + 1 + 1 + 1)) _ _ hd hn hAt1 hl hS hres
  rw [aParen_sym _ name ln σ pre _ hAt hl]
  unfold aFunctionCall
  simp only [hname, ↓reduceIte]
  cases hev : numArgT (typeOf2 sig x) with
  | error e =>
    rw [hev] at hN
    obtain ⟨σ', hσ', hn''⟩ := hN
    exact ⟨σ', bind_err (bind_err hσ'), hn''⟩
  | ok v =>
    rw [hev] at hN
    obtain ⟨r, hr, hσ'⟩ := hN
    simp only [mv_reads, mv_mv] at hr hσ'
    refine ⟨r, by omega, ?_⟩
    have h1 : (aNumberFunctionArg (aEvalN f) >>= fun t => pure (some t))
        (mv σ 1 (σ.reads + 1 + 1 + 1)) =
        .ok (some v) (lg (mv σ (1 + ((render2 x).length + 2)) r)
          (accs2 sig ln ((pre ++ [Token.symbol name]).length + 1) x)) := by
      rw [bind_ok hσ']; rfl
    rw [bind_ok h1]
    show Res.ok _ _ = Res.ok _ _
    congr 1
    apply fin_congr
    · omega
    · apply accs2_congr
      simp only [List.length_append, List.length_cons, List.length_nil]

theorem AA2_abs (sig : Sig) (x : Expr2 F) (hx : APStmt2 sig x) : AAStmt2 sig (.abs x) := by
  intro f ln σ pre rest hd hn _ _ hAt hl hS hres
  rw [render2_abs] at hAt ⊢
  rw [typeOf2_abs, accs2_abs]
  rw [adepth_abs] at hd hn
  have hAt : At σ pre (.symbol Extracted.builtinAbs.toList :: .kw .LeftParen ::
      (render2 x ++ (.kw .RightParen :: rest))) := by
    simpa only [List.cons_append, List.append_assoc, List.nil_append] using hAt
  have h := AA2_builtin sig _ x hx (by decide) f ln σ pre rest hd hn hAt hl hS (by simpa only [Resolved2] using hres)
  rw [length_call_tokens]
  exact h

theorem AA2_int (sig : Sig) (x : Expr2 F) (hx : APStmt2 sig x) : AAStmt2 sig (.int x) := by
  intro f ln σ pre rest hd hn _ _ hAt hl hS hres
  rw [render2_int] at hAt ⊢
  rw [typeOf2_int, accs2_int]
  rw [adepth_int] at hd hn
  have hAt : At σ pre (.symbol Extracted.builtinInt.toList :: .kw .LeftParen ::
      (render2 x ++ (.kw .RightParen :: rest))) := by
    simpa only [List.cons_append, List.append_assoc, List.nil_append] using hAt
  have h := AA2_builtin sig _ x hx (by decide) f ln σ pre rest hd hn hAt hl hS (by simpa only [Resolved2] using hres)
  rw [length_call_tokens]
  exact h

theorem AA2_rnd (sig : Sig) (x : Expr2 F) (hx : APStmt2 sig x) : AAStmt2 sig (.rnd x) := by
  intro f ln σ pre rest hd hn _ _ hAt hl hS hres
  rw [render2_rnd] at hAt ⊢
  rw [typeOf2_rnd, accs2_rnd]
  rw [adepth_rnd] at hd hn
  have hAt : At σ pre (.symbol Extracted.builtinRnd.toList :: .kw .LeftParen ::
      (render2 x ++ (.kw .RightParen :: rest))) := by
    simpa only [List.cons_append, List.append_assoc, List.nil_append] using hAt
  have h := AA2_builtin sig _ x hx (by decide) f ln σ pre rest hd hn hAt hl hS (by simpa only [Resolved2] using hres)
  rw [length_call_tokens]
  exact h

/-! #### subscripts -/

theorem typeIdx_nil (sig : Sig) : typeIdx sig ([] : List (Expr2 F)) = .error (.syntax .unexpectedToken) := by
  rw [typeIdx]
theorem typeIdx_err (sig : Sig) (x : Expr2 F) (es : List (Expr2 F)) {e : Err} (h : typeOf2 sig x = .error e) :
    typeIdx sig (x :: es) = .error e := by rw [typeIdx.eq_def]; simp only [h]
theorem typeIdx_str (sig : Sig) (x : Expr2 F) (es : List (Expr2 F)) (h : typeOf2 sig x = .ok .str) :
    typeIdx sig (x :: es) = .error .typeMismatch := by rw [typeIdx.eq_def]; simp only [h]
theorem typeIdx_num_one (sig : Sig) (x : Expr2 F) (h : typeOf2 sig x = .ok .num) :
    typeIdx sig [x] = .ok () := by rw [typeIdx, h]
theorem typeIdx_num_cons (sig : Sig) (x y : Expr2 F) (ys : List (Expr2 F)) (h : typeOf2 sig x = .ok .num) :
    typeIdx sig (x :: y :: ys) = typeIdx sig (y :: ys) := by rw [typeIdx, h]

theorem accsArgs_nil (sig : Sig) (ln off : Nat) : accsArgs sig ln off ([] : List (Expr2 F)) = [] := by
  rw [accsArgs]
theorem accsArgs_cons (sig : Sig) (ln off : Nat) (e : Expr2 F) (es : List (Expr2 F)) :
    accsArgs sig ln off (e :: es) = accs2 sig ln off e ++ accsArgs sig ln (off + (render2 e).length + 1) es := by
  rw [accsArgs]

/-- `ev.expr` on `)`: UNEXPECTED TOKEN -/
theorem aexpr_rparen (f : Nat) (σ : St F) (pre rest : List (Token F)) (hf : 1 ≤ f)
    (hn : σ.nesting < Extracted.nestingLimit) (hAt : At σ pre (.kw .RightParen :: rest)) :
    ∃ σ', (aEvalN f).expr σ = .err { err := .syntax .unexpectedToken } σ' ∧ σ'.nesting = σ.nesting := by
  obtain ⟨f', rfl⟩ : ∃ f', f = f' + 1 := ⟨f - 1, by omega⟩
  have htier : ∀ j (τ : St F), At τ pre (.kw .RightParen :: rest) →
      ∃ τ', atier (aEvalN f') j τ = .err { err := .syntax .unexpectedToken } τ' ∧ τ'.nesting = τ.nesting := by
    intro j
    induction j with
    | zero =>
      intro τ hτ
      refine ⟨mv τ 1 (τ.reads + 1 + 1 + 1), ?_, rfl⟩
      show aUnary (aEvalN f') τ = _
      unfold aUnary
      rw [bind_ok (tryNext_none hτ (fun t' ht' => by
        simp only [List.head?_cons, Option.some.injEq] at ht'; subst ht'; rfl))]
      have hτ1 := at_mv0 hτ (τ.reads + 1)
      have h2 : aParen (aEvalN f') (mv τ 0 (τ.reads + 1))
          = .err { err := .syntax .unexpectedToken } (mv τ 1 (τ.reads + 1 + 1 + 1)) := by
        unfold aParen
        rw [bind_ok (accept_false hτ1 rfl)]
        simp only [Bool.false_eq_true, ↓reduceIte]
        unfold aTerm
        rw [bind_ok (nextUnwrapped_eq (at_mv0 hτ1 _)), mv_mv, mv_mv]
        rfl
      rw [bind_err h2]
    | succ j ih =>
      intro τ hτ
      obtain ⟨τ', h1, hk⟩ := ih τ hτ
      exact ⟨τ', by simp only [atier, aLevel]; rw [bind_err h1], hk⟩
  obtain ⟨τ', h1, hk⟩ := htier 6 (nest σ (σ.nesting + 1)) (at_nest hAt _)
  exact ⟨nest τ' σ.nesting, nested_err (m := atier (aEvalN f') 6) hn h1 hk, rfl⟩

/-- `aArrayIndexLoop` on `e₁ , … , eₖ )` -/
theorem aidx_loop (sig : Sig) (ln : Nat) (rest : List (Token F)) :
    ∀ (es : List (Expr2 F)), es ≠ [] → (∀ x ∈ es, APStmt2 sig x) →
    ∀ (f b arity : Nat) (σ : St F) (pre : List (Token F)),
    adepthArgs es ≤ f → σ.nesting + adepthArgs es ≤ Extracted.nestingLimit →
    es.length ≤ b → At σ pre (renderArgs es ++ (.kw .RightParen :: rest)) → σ.loc.line = some ln →
    sigOf σ.fns = sig → Resolved2L sig es →
    AAgreesG (aArrayIndexLoop (aEvalN f) b arity σ) (typeIdx sig es) σ
      (fun _ r => .ok (arity + es.length)
        (lg (mv σ (renderArgs es).length r) (accsArgs sig ln pre.length es))) := by
  intro es
  induction es with
  | nil => intro h; exact absurd rfl h
  | cons x es ih =>
    intro _ hP f b arity σ pre hd hn hb hAt hl hS hres
    obtain ⟨b', rfl⟩ : ∃ b', b = b' + 1 := ⟨b - 1, by simp only [List.length_cons] at hb; omega⟩
    rw [adepthArgs_cons] at hd hn
    simp only [Resolved2L] at hres
    have hPx := hP x (List.mem_cons_self ..)
    rw [aArrayIndexLoop, accsArgs_cons]
    cases es with
    | nil =>
      rw [renderArgs_one] at hAt ⊢
      have hX := aexpr_eq2 sig x hPx f ln σ pre _ (by omega) (by omega) (ends_rparen 6 rest) hAt hl hS hres.1
      cases hev : typeOf2 sig x with
      | error e =>
        rw [hev] at hX; rw [typeIdx_err _ _ _ hev]
        obtain ⟨σ', hσ', hn'⟩ := hX
        exact ⟨σ', bind_err hσ', hn'⟩
      | ok v =>
        rw [hev] at hX
        obtain ⟨r, hr, hσ'⟩ := hX
        simp only at hσ'
        cases v with
        | str =>
          rw [typeIdx_str _ _ _ hev]
          exact ⟨_, (bind_ok hσ').trans (bind_err (checkNumber_str _)), rfl⟩
        | num =>
          rw [typeIdx_num_one _ _ hev]
          refine ⟨r + 1, by omega, ?_⟩
          rw [bind_ok hσ']
          show (VT.checkNumber (F := F) .num >>= _) _ = _
          rw [bind_ok (checkNumber_num _)]
          have hAt1 : At (lg (mv σ (render2 x).length r) (accs2 sig ln pre.length x)) (pre ++ render2 x)
              (.kw .RightParen :: rest) := at_lg (at_mv hAt r) _
          rw [bind_ok (accept_false hAt1 rfl)]
          simp only [Bool.false_eq_true, ↓reduceIte, pure_eq, lg_reads, mv_reads]
          rw [mv_lg, mv_mv, accsArgs_nil, List.append_nil]
          rfl
    | cons y ys =>
      rw [renderArgs_cons] at hAt ⊢
      have hAt : At σ pre (render2 x ++ (.kw .Comma :: (renderArgs (y :: ys) ++ (.kw .RightParen :: rest)))) := by
        simpa only [List.append_assoc, List.cons_append] using hAt
      have hX := aexpr_eq2 sig x hPx f ln σ pre _ (by omega) (by omega) (ends_comma 6 _) hAt hl hS hres.1
      cases hev : typeOf2 sig x with
      | error e =>
        rw [hev] at hX; rw [typeIdx_err _ _ _ hev]
        obtain ⟨σ', hσ', hn'⟩ := hX
        exact ⟨σ', bind_err hσ', hn'⟩
      | ok v =>
        rw [hev] at hX
        obtain ⟨r, hr, hσ'⟩ := hX
        simp only at hσ'
        cases v with
        | str =>
          rw [typeIdx_str _ _ _ hev]
          exact ⟨_, (bind_ok hσ').trans (bind_err (checkNumber_str _)), rfl⟩
        | num =>
          rw [typeIdx_num_cons _ _ _ _ hev]
          rw [bind_ok hσ']
          show AAgreesG ((VT.checkNumber (F := F) .num >>= _) _) _ _ _
          rw [bind_ok (checkNumber_num _)]
          have hAt1 : At (lg (mv σ (render2 x).length r) (accs2 sig ln pre.length x)) (pre ++ render2 x)
              (.kw .Comma :: (renderArgs (y :: ys) ++ (.kw .RightParen :: rest))) := at_lg (at_mv hAt r) _
          have hAt2 := at_mv1 hAt1 (r + 1)
          rw [bind_ok (accept_true hAt1 rfl)]
          simp only [↓reduceIte, lg_reads, mv_reads]
          have hI := ih (by simp) (fun z hz => hP z (List.mem_cons_of_mem _ hz)) f b' (arity + 1)
            (mv (lg (mv σ (render2 x).length r) (accs2 sig ln pre.length x)) 1 (r + 1)) _
            (by omega) (by simp only [mv_nesting, lg_nesting]; omega)
            (by simp only [List.length_cons] at hb ⊢; omega) hAt2 hl hS hres.2
          cases h2 : typeIdx sig (y :: ys) with
          | error e =>
            rw [h2] at hI
            obtain ⟨σ', hσ2, hn'⟩ := hI
            exact ⟨σ', hσ2, by simpa only [mv_nesting, lg_nesting] using hn'⟩
          | ok u =>
            rw [h2] at hI
            obtain ⟨r2, hr2, hσ2⟩ := hI
            simp only [mv_reads] at hr2
            refine ⟨r2, by omega, ?_⟩
            rw [hσ2]
            simp only [mv_lg, mv_mv, lg_lg]
            have hval : arity + 1 + (y :: ys).length = arity + (x :: y :: ys).length := by
              simp only [List.length_cons]; omega
            rw [hval]
            congr 1
            apply fin_congr
            · simp only [List.length_append, List.length_cons]
              omega
            · congr 1
              apply accsArgs_congr
              simp only [List.length_append, List.length_cons, List.length_nil]

/-- `aArrayIndex` on `( e₁ , … , eₖ )` -/
theorem aidx2_run (sig : Sig) (es : List (Expr2 F)) (hP : ∀ x ∈ es, APStmt2 sig x) (f ln : Nat) (σ : St F)
    (pre rest : List (Token F))
    (hd : adepthArgs es ≤ f) (hn : σ.nesting + adepthArgs es ≤ Extracted.nestingLimit)
    (hAt : At σ pre (.kw .LeftParen :: (renderArgs es ++ (.kw .RightParen :: rest))))
    (hl : σ.loc.line = some ln) (hS : sigOf σ.fns = sig) (hres : Resolved2L sig es) :
    AAgreesG (aArrayIndex (aEvalN f) σ) (typeIdx sig es) σ
      (fun _ r => .ok es.length
        (lg (mv σ ((renderArgs es).length + 2) r) (accsArgs sig ln (pre.length + 1) es))) := by
  have hAt1 := at_mv1 hAt (σ.reads + 1)
  have hpos := adepthArgs_pos es
  unfold aArrayIndex
  rw [bind_ok (expect_eq hAt rfl), bind_ok (lineBudget_eq hAt1.1)]
  cases es with
  | nil =>
    rw [typeIdx_nil]
    rw [renderArgs_nil] at hAt1
    obtain ⟨σ', hσ', hn'⟩ := aexpr_rparen f (mv σ 1 (σ.reads + 1)) _ rest (by omega)
      (by simp only [mv_nesting]; omega) hAt1
    refine ⟨σ', ?_, by simpa only [mv_nesting] using hn'⟩
    rw [aArrayIndexLoop]
    exact bind_err (bind_err hσ')
  | cons x xs =>
    have hlen := renderArgs_length (x :: xs)
    have hL := aidx_loop sig ln rest (x :: xs) (by simp) hP f
      ((pre ++ [Token.kw Kw.LeftParen] ++ (renderArgs (x :: xs) ++ Token.kw Kw.RightParen :: rest)).length + 1) 0
      (mv σ 1 (σ.reads + 1)) _ hd (by simp only [mv_nesting]; exact hn)
      (by simp only [List.length_append, List.length_cons, List.length_nil] at hlen ⊢; omega) hAt1 hl hS hres
    cases h2 : typeIdx sig (x :: xs) with
    | error e =>
      rw [h2] at hL
      obtain ⟨σ', hσ', hn'⟩ := hL
      exact ⟨σ', bind_err hσ', by simpa only [mv_nesting] using hn'⟩
    | ok u =>
      rw [h2] at hL
      obtain ⟨r, hr, hσ'⟩ := hL
      simp only [mv_reads] at hr
      refine ⟨r + 1, by omega, ?_⟩
      rw [bind_ok hσ']
      have hAt2 : At (lg (mv (mv σ 1 (σ.reads + 1)) (renderArgs (x :: xs)).length r)
            (accsArgs sig ln (pre ++ [Token.kw Kw.LeftParen]).length (x :: xs)))
          ((pre ++ [.kw .LeftParen]) ++ renderArgs (x :: xs)) (.kw .RightParen :: rest) :=
        at_lg (at_mv hAt1 r) _
      rw [bind_ok (expect_eq hAt2 rfl)]
      simp only [mv_lg, mv_mv, lg_reads, mv_reads, pure_eq, Nat.zero_add]
      congr 1
      apply fin_congr
      · omega
      · apply accsArgs_congr
        simp only [List.length_append, List.length_cons, List.length_nil]

/-! #### cells -/

theorem typeOf2_cell_err (sig : Sig) (name : Str) (idx : List (Expr2 F)) {e : Err}
    (h : typeIdx sig idx = .error e) : typeOf2 sig (.cell name idx) = .error e := by rw [typeOf2, h]
theorem typeOf2_cell_ok (sig : Sig) (name : Str) (idx : List (Expr2 F)) {u : Unit}
    (h : typeIdx sig idx = .ok u) : typeOf2 sig (.cell name idx) = .ok (VT.ofName name) := by rw [typeOf2, h]
theorem typeOf2_call_none_err (sig : Sig) (g : Str) (args : List (Expr2 F)) {e : Err} (hs : sig g = none)
    (h : typeIdx sig args = .error e) : typeOf2 sig (.call g args) = .error e := by rw [typeOf2, hs]; simp only [h]
theorem typeOf2_call_none_ok (sig : Sig) (g : Str) (args : List (Expr2 F)) {u : Unit} (hs : sig g = none)
    (h : typeIdx sig args = .ok u) : typeOf2 sig (.call g args) = .ok (VT.ofName g) := by
  rw [typeOf2, hs]; simp only [h]
theorem accs2_cell (sig : Sig) (ln off : Nat) (name : Str) (idx : List (Expr2 F)) :
    accs2 sig ln off (.cell name idx) = accsArgs sig ln (off + 2) idx ++ [(name, ln, off, .read)] := by
  rw [accs2]
theorem accs2_call_none (sig : Sig) (ln off : Nat) (g : Str) (args : List (Expr2 F)) (hs : sig g = none) :
    accs2 sig ln off (.call g args) = accsArgs sig ln (off + 2) args ++ [(g, ln, off, .read)] := by
  rw [accs2, hs]
theorem accs2_call_some (sig : Sig) (ln off : Nat) (g : Str) (args : List (Expr2 F)) {s : List VT × VT}
    (hs : sig g = some s) :
    accs2 sig ln off (.call g args) = (g, ln, off, .read) :: accsArgs sig ln (off + 2) args := by
  rw [accs2, hs]

theorem sigOf_none {fns : List (Str × FnDef)} {name : Str} (h : sigOf fns name = none) : alGet name fns = none := by
  unfold sigOf at h
  cases hg : alGet name fns with
  | none => rfl
  | some d => rw [hg] at h; cases h

theorem sigOf_some {fns : List (Str × FnDef)} {name : Str} {s : List VT × VT} (h : sigOf fns name = some s) :
    ∃ d, alGet name fns = some d ∧ s.1 = d.args.map VT.ofName := by
  unfold sigOf at h
  cases hg : alGet name fns with
  | none => rw [hg] at h; cases h
  | some d =>
    rw [hg] at h
    simp only [Option.some.injEq] at h
    exact ⟨d, rfl, by rw [← h]⟩

theorem aFunctionCall_none (ev : AEvals F) (name : Str) (loc : Loc) (σ : St F)
    (hr : reserved name = false) (hg : alGet name σ.fns = none) :
    aFunctionCall ev name loc σ = .ok none σ := by
  unfold aFunctionCall
  unfold reserved at hr
  simp only [hr, Bool.false_eq_true, ↓reduceIte]
  unfold aUserFunctionCall
  simp only [bind, M.bindM, M.get, hg]
  rfl

/-- an array element `name ( e₁ , … , eₖ )` (or a call of an undefined function) through `aParen` -/
theorem acell_run (sig : Sig) (name : Str) (idx : List (Expr2 F)) (hP : ∀ x ∈ idx, APStmt2 sig x)
    (f ln : Nat) (σ : St F) (pre rest : List (Token F))
    (hd : adepthArgs idx ≤ f) (hn : σ.nesting + adepthArgs idx ≤ Extracted.nestingLimit)
    (hAt : At σ pre (.symbol name :: .kw .LeftParen :: (renderArgs idx ++ (.kw .RightParen :: rest))))
    (hl : σ.loc.line = some ln) (hS : sigOf σ.fns = sig)
    (hr : reserved name = false) (hs : sig name = none) (hres : Resolved2L sig idx) :
    AAgreesG (aParen (aEvalN f) σ) (typeIdx sig idx) σ
      (fun _ r => .ok (VT.ofName name) (lg (mv σ ((renderArgs idx).length + 3) r)
        (accsArgs sig ln (pre.length + 2) idx ++ [(name, ln, pre.length, .read)]))) := by
  have hAt1 := at_mv1 hAt (σ.reads + 1 + 1 + 1)
  have hg : alGet name σ.fns = none := sigOf_none (by rw [hS]; exact hs)
  have hI := aidx2_run sig idx hP f ln (mv σ 1 (σ.reads + 1 + 1 + 1)) _ rest hd
    (by simp only [mv_nesting]; exact hn) hAt1 hl hS hres
  rw [aParen_sym _ name ln σ pre _ hAt hl]
  rw [bind_ok (aFunctionCall_none _ name _ (mv σ 1 (σ.reads + 1 + 1 + 1)) hr hg)]
  cases h2 : typeIdx sig idx with
  | error e =>
    rw [h2] at hI
    obtain ⟨σ', hσ', hn'⟩ := hI
    exact ⟨σ', bind_err hσ', by simpa only [mv_nesting] using hn'⟩
  | ok u =>
    rw [h2] at hI
    obtain ⟨r, hr', hσ'⟩ := hI
    simp only [mv_reads] at hr'
    refine ⟨r, by omega, ?_⟩
    show (aArrayIndex (aEvalN f) >>= _) _ = _
    rw [bind_ok hσ', bind_ok (logAccess_eq _ _ _ _ _)]
    simp only [mv_lg, mv_mv, lg_lg, pure_eq]
    congr 1
    apply fin_congr
    · omega
    · congr 1
      apply accsArgs_congr
      simp only [List.length_append, List.length_cons, List.length_nil]

theorem AA2_cell (sig : Sig) (name : Str) (idx : List (Expr2 F)) (hP : ∀ x ∈ idx, APStmt2 sig x) :
    AAStmt2 sig (.cell name idx) := by
  intro f ln σ pre rest hd hn _ _ hAt hl hS hres
  rw [render2_cell] at hAt ⊢
  rw [adepth_cell] at hd hn
  simp only [Resolved2] at hres
  have hAt : At σ pre (.symbol name :: .kw .LeftParen :: (renderArgs idx ++ (.kw .RightParen :: rest))) := by
    simpa only [List.cons_append, List.append_assoc, List.nil_append] using hAt
  have h := acell_run sig name idx hP f ln σ pre rest hd hn hAt hl hS hres.1 hres.2.1 hres.2.2
  rw [length_call_tokens, accs2_cell]
  cases h2 : typeIdx sig idx with
  | error e => rw [h2] at h; rw [typeOf2_cell_err _ _ _ h2]; exact h
  | ok u => rw [h2] at h; rw [typeOf2_cell_ok _ _ _ h2]; exact h

/-! #### arguments of a call -/

theorem typeArgs_nil_nil (sig : Sig) (fst : Bool) : typeArgs sig fst [] ([] : List (Expr2 F)) = .ok () := by
  rw [typeArgs]
theorem typeArgs_nil_cons (sig : Sig) (fst : Bool) (a : Expr2 F) (as : List (Expr2 F)) :
    typeArgs sig fst [] (a :: as) = .error (.syntax (.expectedToken .RightParen)) := by rw [typeArgs]
theorem typeArgs_cons_nil_first (sig : Sig) (p : VT) (ps : List VT) :
    typeArgs sig true (p :: ps) ([] : List (Expr2 F)) = .error (.syntax .unexpectedToken) := by
  rw [typeArgs]; rfl
theorem typeArgs_cons_nil (sig : Sig) (p : VT) (ps : List VT) :
    typeArgs sig false (p :: ps) ([] : List (Expr2 F)) = .error (.syntax (.expectedToken .Comma)) := by
  rw [typeArgs]; rfl
theorem typeArgs_err (sig : Sig) (fst : Bool) (p : VT) (ps : List VT) (a : Expr2 F) (as : List (Expr2 F)) {e : Err}
    (h : typeOf2 sig a = .error e) : typeArgs sig fst (p :: ps) (a :: as) = .error e := by rw [typeArgs, h]
theorem typeArgs_bad (sig : Sig) (fst : Bool) (p : VT) (ps : List VT) (a : Expr2 F) (as : List (Expr2 F)) {t : VT}
    (h : typeOf2 sig a = .ok t) (hne : t ≠ p) : typeArgs sig fst (p :: ps) (a :: as) = .error .typeMismatch := by
  rw [typeArgs, h]
  have : (t == p) = false := by simpa using hne
  simp only [this, Bool.false_eq_true, ↓reduceIte]
theorem typeArgs_ok (sig : Sig) (fst : Bool) (p : VT) (ps : List VT) (a : Expr2 F) (as : List (Expr2 F))
    (h : typeOf2 sig a = .ok p) : typeArgs sig fst (p :: ps) (a :: as) = typeArgs sig false ps as := by
  rw [typeArgs, h]
  simp only [beq_self_eq_true, ↓reduceIte]

/-- what follows the first of the arguments `a :: as` up to and including the closing parenthesis -/
def argTail (rest : List (Token F)) : List (Expr2 F) → List (Token F)
  | [] => .kw .RightParen :: rest
  | y :: ys => .kw .Comma :: (renderArgs (y :: ys) ++ (.kw .RightParen :: rest))

theorem ends_argTail (rest : List (Token F)) (as : List (Expr2 F)) : Ends 6 (argTail rest as) := by
  cases as with
  | nil => exact ends_rparen 6 rest
  | cons y ys => exact ends_comma 6 _

theorem renderArgs_argTail (rest : List (Token F)) (a : Expr2 F) (as : List (Expr2 F)) :
    renderArgs (a :: as) ++ (.kw .RightParen :: rest) = render2 a ++ argTail rest as := by
  cases as with
  | nil => rw [renderArgs_one]; rfl
  | cons y ys =>
    rw [renderArgs_cons]
    simp only [argTail, List.append_assoc, List.cons_append]

/-- `aBindArgs` followed by the closing parenthesis on `a₁ , … , aₖ )`, with at least one
    parameter left and at least one argument -/
theorem abind_iter (sig : Sig) (ln : Nat) (rest : List (Token F)) :
    ∀ (as : List (Expr2 F)), as ≠ [] → (∀ x ∈ as, APStmt2 sig x) →
    ∀ (ps : List Str), ps ≠ [] →
    ∀ (fst : Bool) (f arity i : Nat) (σ : St F) (pre : List (Token F)),
    arity = i + ps.length →
    adepthArgs as ≤ f → σ.nesting + adepthArgs as ≤ Extracted.nestingLimit →
    At σ pre (renderArgs as ++ (.kw .RightParen :: rest)) → σ.loc.line = some ln →
    sigOf σ.fns = sig → Resolved2L sig as →
    AAgreesG ((aBindArgs (aEvalN f) arity ps i >>= fun _ => expect .RightParen) σ)
      (typeArgs sig fst (ps.map VT.ofName) as) σ
      (fun _ r => .ok () (lg (mv σ ((renderArgs as).length + 1) r) (accsArgs sig ln pre.length as))) := by
  intro as
  induction as with
  | nil => intro h; exact absurd rfl h
  | cons a as ih =>
    intro _ hP ps hps fst f arity i σ pre har hd hn hAt hl hS hres
    obtain ⟨p, ps', rfl⟩ : ∃ p ps', ps = p :: ps' := by
      cases ps with
      | nil => exact absurd rfl hps
      | cons p ps' => exact ⟨p, ps', rfl⟩
    rw [adepthArgs_cons] at hd hn
    simp only [Resolved2L] at hres
    have hPa := hP a (List.mem_cons_self ..)
    rw [aBindArgs, bind_assoc', accsArgs_cons, List.map_cons]
    rw [renderArgs_argTail] at hAt
    have hX := aexpr_eq2 sig a hPa f ln σ pre _ (by omega) (by omega) (ends_argTail rest as) hAt hl hS hres.1
    cases hev : typeOf2 sig a with
    | error e =>
      rw [hev] at hX; rw [typeArgs_err _ _ _ _ _ _ hev]
      obtain ⟨σ', hσ', hn'⟩ := hX
      exact ⟨σ', bind_err hσ', hn'⟩
    | ok t =>
      rw [hev] at hX
      obtain ⟨r, hr, hσ'⟩ := hX
      simp only at hσ'
      rw [bind_ok hσ', bind_assoc']
      by_cases htp : t = VT.ofName p
      · subst htp
        rw [typeArgs_ok _ _ _ _ _ _ hev, bind_ok (check_same _ _)]
        have hAt1 := at_lg (at_mv hAt r) (accs2 sig ln pre.length a)
        cases ps' with
        | nil =>
          have hlt : ¬ (i + 1 < arity) := by simp only [List.length_cons, List.length_nil] at har; omega
          simp only [hlt, ↓reduceIte]
          have hp : (pure () : M F Unit) (lg (mv σ (render2 a).length r) (accs2 sig ln pre.length a))
              = .ok () (lg (mv σ (render2 a).length r) (accs2 sig ln pre.length a)) := rfl
          rw [aBindArgs, bind_ok hp]
          cases as with
          | nil =>
            rw [List.map_nil, typeArgs_nil_nil]
            refine ⟨r + 1, by omega, ?_⟩
            rw [expect_eq hAt1 rfl, mv_lg, mv_mv, accsArgs_nil, List.append_nil, renderArgs_one]
            rfl
          | cons y ys =>
            rw [List.map_nil, typeArgs_nil_cons]
            exact ⟨_, expect_fail hAt1 rfl, rfl⟩
        | cons p' ps'' =>
          have hlt : i + 1 < arity := by simp only [List.length_cons] at har; omega
          simp only [hlt, ↓reduceIte]
          rw [bind_assoc']
          cases as with
          | nil =>
            rw [List.map_cons, typeArgs_cons_nil]
            exact ⟨_, bind_err (expect_fail hAt1 rfl), rfl⟩
          | cons y ys =>
            have hAt2 := at_mv1 hAt1 (r + 1)
            rw [bind_ok (expect_eq hAt1 rfl)]
            simp only [lg_reads, mv_reads]
            have hI := ih (by simp) (fun z hz => hP z (List.mem_cons_of_mem _ hz)) (p' :: ps'') (by simp) false f arity
              (i + 1) (mv (lg (mv σ (render2 a).length r) (accs2 sig ln pre.length a)) 1 (r + 1)) _
              (by simp only [List.length_cons] at har ⊢; omega)
              (by omega) (by simp only [mv_nesting, lg_nesting]; omega) hAt2 hl hS hres.2
            cases h2 : typeArgs sig false (List.map VT.ofName (p' :: ps'')) (y :: ys) with
            | error e =>
              rw [h2] at hI
              obtain ⟨σ', hσ2, hn'⟩ := hI
              exact ⟨σ', hσ2, by simpa only [mv_nesting, lg_nesting] using hn'⟩
            | ok u =>
              rw [h2] at hI
              obtain ⟨r2, hr2, hσ2⟩ := hI
              simp only [mv_reads] at hr2
              refine ⟨r2, by omega, ?_⟩
              rw [hσ2]
              simp only [mv_lg, mv_mv, lg_lg]
              congr 1
              apply fin_congr
              · rw [renderArgs_cons]
                simp only [List.length_append, List.length_cons]
                omega
              · congr 1
                apply accsArgs_congr
                simp only [List.length_append, List.length_cons, List.length_nil]
      · rw [typeArgs_bad _ _ _ _ _ _ hev htp]
        exact ⟨_, bind_err (check_diff htp _), rfl⟩

/-! #### the call proper -/

theorem typeOf2_call_some_err (sig : Sig) (g : Str) (args : List (Expr2 F)) {s : List VT × VT} {e : Err}
    (hs : sig g = some s) (h : typeArgs sig true s.1 args = .error e) :
    typeOf2 sig (.call g args) = .error e := by rw [typeOf2, hs]; simp only [h]
theorem typeOf2_call_some_ok (sig : Sig) (g : Str) (args : List (Expr2 F)) {s : List VT × VT} {u : Unit}
    (hs : sig g = some s) (h : typeArgs sig true s.1 args = .ok u) :
    typeOf2 sig (.call g args) = .ok (VT.ofName g) := by rw [typeOf2, hs]; simp only [h]

theorem aFunctionCall_some (ev : AEvals F) (name : Str) (loc : Loc) (σ : St F) (d : FnDef)
    (hr : reserved name = false) (hg : alGet name σ.fns = some d) :
    aFunctionCall ev name loc σ =
      (do
        logAccess name loc .read
        expect .LeftParen
        aBindArgs ev d.args.length d.args 0
        expect .RightParen
        pure (some (VT.ofName name))) σ := by
  unfold aFunctionCall
  unfold reserved at hr
  simp only [hr, Bool.false_eq_true, ↓reduceIte]
  unfold aUserFunctionCall
  simp only [bind, M.bindM, M.get, hg]

/-- a call `g ( a₁ , … , aₖ )` of a function with a signature, through `aParen` -/
theorem acall_run (sig : Sig) (g : Str) (args : List (Expr2 F)) (hP : ∀ x ∈ args, APStmt2 sig x)
    (s : List VT × VT) (f ln : Nat) (σ : St F) (pre rest : List (Token F))
    (hd : adepthArgs args ≤ f) (hn : σ.nesting + adepthArgs args ≤ Extracted.nestingLimit)
    (hAt : At σ pre (.symbol g :: .kw .LeftParen :: (renderArgs args ++ (.kw .RightParen :: rest))))
    (hl : σ.loc.line = some ln) (hS : sigOf σ.fns = sig)
    (hr : reserved g = false) (hs : sig g = some s) (hres : Resolved2L sig args) :
    AAgreesG (aParen (aEvalN f) σ) (typeArgs sig true s.1 args) σ
      (fun _ r => .ok (VT.ofName g) (lg (mv σ ((renderArgs args).length + 3) r)
        ((g, ln, pre.length, .read) :: accsArgs sig ln (pre.length + 2) args))) := by
  obtain ⟨d, hg, hsd⟩ := sigOf_some (fns := σ.fns) (name := g) (s := s) (by rw [hS]; exact hs)
  rw [hsd]
  have hpos := adepthArgs_pos args
  have hAt0 := at_mv1 hAt (σ.reads + 1 + 1 + 1)
  have hAt1 := at_lg hAt0 [(g, ln, pre.length, Access.read)]
  have hAt2 := at_mv1 hAt1 (σ.reads + 1 + 1 + 1 + 1)
  rw [aParen_sym _ g ln σ pre _ hAt hl]
  have hfc := aFunctionCall_some (aEvalN f) g { line := some ln, idx := pre.length }
    (mv σ 1 (σ.reads + 1 + 1 + 1)) d hr hg
  have hassoc : (aBindArgs (aEvalN f) d.args.length d.args 0 >>= fun _ =>
        expect .RightParen >>= fun _ => (pure (some (VT.ofName g)) : M F (Option VT)))
      = ((aBindArgs (aEvalN f) d.args.length d.args 0 >>= fun _ => expect .RightParen) >>= fun _ =>
        (pure (some (VT.ofName g)) : M F (Option VT))) := (bind_assoc' _ _ _).symm
  -- the run of `aFunctionCall`
  have hcall : AAgreesG (aFunctionCall (aEvalN f) g { line := some ln, idx := pre.length }
        (mv σ 1 (σ.reads + 1 + 1 + 1))) (typeArgs sig true (d.args.map VT.ofName) args) σ
      (fun _ r => .ok (some (VT.ofName g)) (lg (mv σ ((renderArgs args).length + 3) r)
        ((g, ln, pre.length, .read) :: accsArgs sig ln (pre.length + 2) args))) := by
    rw [hfc, bind_ok (logAccess_eq _ _ _ _ _), bind_ok (expect_eq hAt1 rfl)]
    simp only [lg_reads, mv_reads]
    rw [hassoc]
    cases hargs : args with
    | nil =>
      subst hargs
      rw [renderArgs_nil] at hAt2
      cases hda : d.args with
      | nil =>
        rw [List.map_nil, typeArgs_nil_nil]
        refine ⟨σ.reads + 1 + 1 + 1 + 1 + 1, by omega, ?_⟩
        rw [aBindArgs]
        have hp : (pure () : M F Unit)
              (mv (lg (mv σ 1 (σ.reads + 1 + 1 + 1)) [(g, ln, pre.length, Access.read)]) 1 (σ.reads + 1 + 1 + 1 + 1))
            = .ok () (mv (lg (mv σ 1 (σ.reads + 1 + 1 + 1)) [(g, ln, pre.length, Access.read)]) 1
                (σ.reads + 1 + 1 + 1 + 1)) := rfl
        rw [bind_ok (bind_ok hp |>.trans (expect_eq hAt2 rfl))]
        simp only [mv_lg, mv_mv, pure_eq, mv_reads, lg_reads, renderArgs_nil, accsArgs_nil, List.length_nil]
      | cons p ps =>
        rw [List.map_cons, typeArgs_cons_nil_first]
        obtain ⟨σ', hσ', hn'⟩ := aexpr_rparen f _ _ rest (by omega)
          (by simp only [mv_nesting, lg_nesting]; omega) hAt2
        refine ⟨σ', ?_, by simpa only [mv_nesting, lg_nesting] using hn'⟩
        rw [aBindArgs]
        exact bind_err (bind_err (bind_err hσ'))
    | cons a as =>
      rw [← hargs]
      cases hda : d.args with
      | nil =>
        rw [hargs, List.map_nil, typeArgs_nil_cons]
        obtain ⟨t, ts, hts, ht⟩ := render2_head a
        have hAt3 : At (mv (lg (mv σ 1 (σ.reads + 1 + 1 + 1)) [(g, ln, pre.length, Access.read)]) 1
              (σ.reads + 1 + 1 + 1 + 1)) (pre ++ [Token.symbol g] ++ [Token.kw Kw.LeftParen])
            (t :: (ts ++ argTail rest as)) := by
          rw [hargs, renderArgs_argTail, hts] at hAt2
          exact hAt2
        rw [aBindArgs]
        have hp : (pure () : M F Unit)
              (mv (lg (mv σ 1 (σ.reads + 1 + 1 + 1)) [(g, ln, pre.length, Access.read)]) 1 (σ.reads + 1 + 1 + 1 + 1))
            = .ok () (mv (lg (mv σ 1 (σ.reads + 1 + 1 + 1)) [(g, ln, pre.length, Access.read)]) 1
                (σ.reads + 1 + 1 + 1 + 1)) := rfl
        exact ⟨_, bind_err ((bind_ok hp).trans (expect_fail hAt3 ht)), rfl⟩
      | cons p ps =>
        have hI := abind_iter sig ln rest args (by rw [hargs]; simp) hP (p :: ps) (by simp) true f (p :: ps).length 0
          (mv (lg (mv σ 1 (σ.reads + 1 + 1 + 1)) [(g, ln, pre.length, Access.read)]) 1 (σ.reads + 1 + 1 + 1 + 1))
          _ (by omega) hd (by simp only [mv_nesting, lg_nesting]; exact hn) hAt2 hl hS hres
        cases h2 : typeArgs sig true (List.map VT.ofName (p :: ps)) args with
        | error e =>
          rw [h2] at hI
          obtain ⟨σ', hσ', hn'⟩ := hI
          exact ⟨σ', bind_err hσ', by simpa only [mv_nesting, lg_nesting] using hn'⟩
        | ok u =>
          rw [h2] at hI
          obtain ⟨r, hr', hσ'⟩ := hI
          simp only [mv_reads] at hr'
          refine ⟨r, by omega, ?_⟩
          rw [bind_ok hσ']
          simp only [mv_lg, mv_mv, lg_lg, pure_eq]
          congr 1
          apply fin_congr
          · omega
          · simp only [List.cons_append, List.nil_append]
            congr 1
            apply accsArgs_congr
            simp only [List.length_append, List.length_cons, List.length_nil]
  cases h2 : typeArgs sig true (d.args.map VT.ofName) args with
  | error e =>
    rw [h2] at hcall
    obtain ⟨σ', hσ', hn'⟩ := hcall
    exact ⟨σ', bind_err hσ', hn'⟩
  | ok u =>
    rw [h2] at hcall
    obtain ⟨r, hr', hσ'⟩ := hcall
    exact ⟨r, hr', by rw [bind_ok hσ']; rfl⟩

theorem AA2_call (sig : Sig) (g : Str) (args : List (Expr2 F)) (hP : ∀ x ∈ args, APStmt2 sig x) :
    AAStmt2 sig (.call g args) := by
  intro f ln σ pre rest hd hn _ _ hAt hl hS hres
  rw [render2_call] at hAt ⊢
  rw [adepth_call] at hd hn
  simp only [Resolved2] at hres
  have hAt : At σ pre (.symbol g :: .kw .LeftParen :: (renderArgs args ++ (.kw .RightParen :: rest))) := by
    simpa only [List.cons_append, List.append_assoc, List.nil_append] using hAt
  rw [length_call_tokens]
  cases hs : sig g with
  | none =>
    have h := acell_run sig g args hP f ln σ pre rest hd hn hAt hl hS hres.1 hs hres.2
    rw [accs2_call_none _ _ _ _ _ hs]
    cases h2 : typeIdx sig args with
    | error e => rw [h2] at h; rw [typeOf2_call_none_err _ _ _ hs h2]; exact h
    | ok u => rw [h2] at h; rw [typeOf2_call_none_ok _ _ _ hs h2]; exact h
  | some s =>
    have h := acall_run sig g args hP s f ln σ pre rest hd hn hAt hl hS hres.1 hs hres.2
    rw [accs2_call_some _ _ _ _ _ hs]
    cases h2 : typeArgs sig true s.1 args with
    | error e => rw [h2] at h; rw [typeOf2_call_some_err _ _ _ hs h2]; exact h
    | ok u => rw [h2] at h; rw [typeOf2_call_some_ok _ _ _ hs h2]; exact h

/-! #### all trees -/

theorem amain2 (sig : Sig) (e : Expr2 F) : APStmt2 sig e ∧ ASStmt2 sig e ∧ AAStmt2 sig e := by
  suffices h : ∀ m (e : Expr2 F), sizeOf e ≤ m →
      APStmt2 sig e ∧ ASStmt2 sig e ∧ AAStmt2 sig e from h _ e (Nat.le_refl _)
  intro m
  induction m with
  | zero => intro e he; cases e <;> simp at he
  | succ m ih =>
    intro e he
    have atom : ∀ {e : Expr2 F}, AAStmt2 sig e → e.prec = 8 →
        APStmt2 sig e ∧ ASStmt2 sig e ∧ AAStmt2 sig e := fun hA hp =>
      ⟨AP2_atom sig _ hA hp, AS2_atom sig _ (AP2_atom sig _ hA hp) (by unfold lv2; omega), hA⟩
    cases e with
    | num x => exact atom (AA2_num sig x) rfl
    | str s => exact atom (AA2_str sig s) rfl
    | var v => exact atom (AA2_var sig v) rfl
    | paren x =>
      have hx := ih x (by simp only [Expr2.paren.sizeOf_spec] at he; omega)
      exact ⟨AP2_paren sig x hx.1, AS2_paren sig x hx.1, AA2_paren sig x hx.1⟩
    | bin op l r =>
      have hl := ih l (by simp only [Expr2.bin.sizeOf_spec] at he; omega)
      have hr := ih r (by simp only [Expr2.bin.sizeOf_spec] at he; omega)
      exact ⟨AP2_bin sig op l r hl.1 hl.2.1 hr.1, AS2_bin sig op l r hl.1 hl.2.1 hr.1, AA2_bin sig op l r⟩
    | un op x =>
      have hx := ih x (by simp only [Expr2.un.sizeOf_spec] at he; omega)
      have hP := AP2_un sig op x hx.1 hx.2.2
      exact ⟨hP, AS2_atom sig _ hP rfl, AA2_un sig op x⟩
    | abs x =>
      have hx := ih x (by simp only [Expr2.abs.sizeOf_spec] at he; omega)
      exact atom (AA2_abs sig x hx.1) rfl
    | int x =>
      have hx := ih x (by simp only [Expr2.int.sizeOf_spec] at he; omega)
      exact atom (AA2_int sig x hx.1) rfl
    | rnd x =>
      have hx := ih x (by simp only [Expr2.rnd.sizeOf_spec] at he; omega)
      exact atom (AA2_rnd sig x hx.1) rfl
    | cell name idx =>
      have hP : ∀ x ∈ idx, APStmt2 sig x := fun x hx =>
        (ih x (by have := List.sizeOf_lt_of_mem hx
                  simp only [Expr2.cell.sizeOf_spec] at he; omega)).1
      exact atom (AA2_cell sig name idx hP) rfl
    | call g args =>
      have hP : ∀ x ∈ args, APStmt2 sig x := fun x hx =>
        (ih x (by have := List.sizeOf_lt_of_mem hx
                  simp only [Expr2.call.sizeOf_spec] at he; omega)).1
      exact atom (AA2_call sig g args hP) rfl

end Abasic.Props.C06
