import Abasic.Proofs.NumberedInv
/-
  Helper lemmas for C07 `inspect_pure`: immediate lines made of PRINT
  statements, executed at a breakpoint.

  * `printLoop_ends` — PRINT stops only at the end of the line, in front of a
    `:` or in front of an ELSE;
  * `inspect_turn` — one `run_next_statement` on such an immediate line, with a
    breakpoint pending, respects `IFrame` (what the interrupted program can
    see) and leaves the interpreter idle, or running on the same line at a
    position where again only PRINT / `:` / ELSE can start a statement.
-/
set_option linter.unusedSectionVars false

namespace Abasic.Proofs.Inspect
open Abasic Abasic.Hoare Abasic.Proofs.XF Abasic.Proofs.NumInv M

variable {F : Type} [NumOps F]

/-- what the interrupted program can observe of an inspection: breakpoint,
    stack, loops, data cursor, functions, variables, program lines unchanged;
    arrays unchanged except for automatically created default arrays -/
structure IFrame (σ σ' : St F) : Prop where
  lines : σ'.lines = σ.lines
  bp : σ'.bp = σ.bp
  stack : σ'.stack = σ.stack
  loops : σ'.loops = σ.loops
  data : σ'.data = σ.data
  fns : σ'.fns = σ.fns
  vars : σ'.vars = σ.vars
  arrays : ArrExt σ.arrays σ'.arrays

theorem IFrame.refl (σ : St F) : IFrame σ σ := ⟨rfl, rfl, rfl, rfl, rfl, rfl, rfl, ArrExt.refl _⟩

theorem IFrame.trans {a b c : St F} (h1 : IFrame a b) (h2 : IFrame b c) : IFrame a c :=
  ⟨h2.lines.trans h1.lines, h2.bp.trans h1.bp, h2.stack.trans h1.stack, h2.loops.trans h1.loops,
   h2.data.trans h1.data, h2.fns.trans h1.fns, h2.vars.trans h1.vars, h1.arrays.trans h2.arrays⟩

theorem iframe_of_rx {σ σ' : St F} (h : RX σ σ') : IFrame σ σ' :=
  ⟨h.lines, h.bp, h.stack, h.loops, h.data, h.fns, h.vars, h.arrays⟩

/-! ### inversion of `bind` and `peek` -/

theorem bind_ok_inv {α β : Type} {m : M F α} {f : α → M F β} {σ σ' : St F} {b : β}
    (h : (m >>= f) σ = .ok b σ') : ∃ a s, m σ = .ok a s ∧ f a s = .ok b σ' := by
  simp only [bind, M.bindM] at h
  cases hm : m σ with
  | ok a s => rw [hm] at h; exact ⟨a, s, rfl, h⟩
  | err e s => rw [hm] at h; cases h

theorem peek_ok_inv {σ s : St F} {t : Option (Token F)} (h : peek σ = .ok t s) :
    ∃ ts, ExprL.lineToks σ = some ts ∧ t = ts[σ.loc.idx]? ∧ s = { σ with reads := σ.reads + 1 } := by
  cases hl : ExprL.lineToks σ with
  | some ts =>
    rw [Cursor.peek_eq σ ts (ExprL.tokens_eq hl)] at h
    simp only [Res.ok.injEq] at h
    exact ⟨ts, rfl, h.1.symm, h.2.symm⟩
  | none =>
    exfalso
    unfold ExprL.lineToks at hl
    cases hline : σ.loc.line with
    | none => rw [hline] at hl; cases hl
    | some n =>
      rw [hline] at hl
      simp only at hl
      simp [peek, tokens, tokensForLine, bind, M.bindM, M.modify, hline, hl] at h

theorem isKw_eq {t : Token F} {k : Kw} (h : t.isKw k = true) : t = .kw k := by
  cases t with
  | kw k' =>
    simp only [Token.isKw, beq_iff_eq] at h
    rw [h]
  | _ => simp [Token.isKw] at h

/-! ### where PRINT stops -/

/-- the token under the cursor, if any, is `:` or ELSE -/
def EndsAt (σ : St F) : Prop :=
  ∀ ts t, ExprL.lineToks σ = some ts → ts[σ.loc.idx]? = some t → t.isKw .Colon = true ∨ t.isKw .Else = true

theorem printLoop_ends (ev : Evals F) :
    ∀ (n : Nat) (semi : Bool) (acc : Str) (σ : St F) (r : Bool × Str) (σ' : St F),
      printLoop ev n semi acc σ = .ok r σ' → EndsAt σ' := by
  intro n
  induction n with
  | zero =>
    intro semi acc σ r σ' h
    unfold printLoop at h
    cases h
  | succ n ih =>
    intro semi acc σ r σ' h
    unfold printLoop at h
    obtain ⟨t, s1, hp, h⟩ := bind_ok_inv h
    obtain ⟨ts, hts, rfl, rfl⟩ := peek_ok_inv hp
    cases hq : ts[σ.loc.idx]? with
    | none =>
      rw [hq] at h
      simp only [pure, M.pureM, Res.ok.injEq] at h
      rw [← h.2]
      intro ts' t' hl hidx
      have : ts' = ts := by
        have : ExprL.lineToks σ = some ts' := hl
        rw [hts] at this; exact (Option.some.inj this).symm
      subst this
      have : ts'[σ.loc.idx]? = some t' := hidx
      rw [hq] at this; cases this
    | some t =>
      rw [hq] at h
      dsimp only at h
      by_cases hc : (t.isKw .Colon || t.isKw .Else) = true
      · rw [if_pos hc] at h
        simp only [pure, M.pureM, Res.ok.injEq] at h
        rw [← h.2]
        intro ts' t' hl hidx
        have : ts' = ts := by
          have : ExprL.lineToks σ = some ts' := hl
          rw [hts] at this; exact (Option.some.inj this).symm
        subst this
        have : ts'[σ.loc.idx]? = some t' := hidx
        rw [hq] at this
        cases this
        simpa only [Bool.or_eq_true] using hc
      · rw [if_neg hc] at h
        by_cases hs : t.isKw .Semicolon = true
        · rw [if_pos hs] at h
          obtain ⟨_, s2, _, h⟩ := bind_ok_inv h
          exact ih _ _ _ _ _ h
        · rw [if_neg hs] at h
          by_cases hcm : t.isKw .Comma = true
          · rw [if_pos hcm] at h
            obtain ⟨_, s2, _, h⟩ := bind_ok_inv h
            exact ih _ _ _ _ _ h
          · rw [if_neg hcm] at h
            obtain ⟨_, s2, _, h⟩ := bind_ok_inv h
            exact ih _ _ _ _ _ h

theorem printStatement_ends (ev : Evals F) (σ σ' : St F) (h : printStatement ev σ = .ok () σ') :
    EndsAt σ' := by
  unfold printStatement at h
  obtain ⟨b, s1, _, h⟩ := bind_ok_inv h
  obtain ⟨r, s2, hpl, h⟩ := bind_ok_inv h
  have hE := printLoop_ends ev _ _ _ _ _ _ hpl
  obtain ⟨semi, text⟩ := r
  simp only [emit, M.modify, Res.ok.injEq, true_and] at h
  rw [← h]
  exact hE

/-! ### immediate lines of PRINT statements -/

/-- tokens that start a statement which only prints (or fails): PRINT, `?`,
    the empty statement `:`, and ELSE (a syntax error at statement level) -/
def Safe (t : Token F) : Prop :=
  t = .kw .Print ∨ t = .kw .QuestionMark ∨ t = .kw .Colon ∨ t = .kw .Else

def SafeAt (ts : List (Token F)) (i : Nat) : Prop := ∀ t, ts[i]? = some t → Safe t

/-- a line of PRINT statements separated by colons: the first token and every
    token that follows a `:` is PRINT, `?`, `:` or ELSE -/
def PrintLine (ts : List (Token F)) : Prop :=
  SafeAt ts 0 ∧ ∀ p, ts[p]? = some (.kw .Colon) → SafeAt ts (p + 1)

/-- the cursor is on the immediate line `ts` and a breakpoint is pending -/
def OnImm (ts : List (Token F)) (σ : St F) : Prop :=
  σ.loc.line = none ∧ σ.imm = ts ∧ σ.bp.isSome = true

theorem onImm_of_rx {ts : List (Token F)} {σ σ' : St F} (h : RX σ σ') (ho : OnImm ts σ) : OnImm ts σ' :=
  ⟨h.line.trans ho.1, h.imm.trans ho.2.1, by rw [h.bp]; exact ho.2.2⟩

theorem lineToks_onImm {ts : List (Token F)} {σ : St F} (ho : OnImm ts σ) : ExprL.lineToks σ = some ts := by
  unfold ExprL.lineToks
  rw [ho.1, ho.2.1]

theorem traceHere_imm (σ : St F) (h : σ.loc.line = none) : traceHere σ = .ok () σ := by
  simp only [traceHere, bind, M.bindM, M.get, h]
  cases σ.tracing <;> rfl

theorem post_mono {α : Type} {r : Res F α} {Q Q' : α → St F → Prop} {E E' : St F → Prop}
    (h : Post r Q E) (hq : ∀ a s, Q a s → Q' a s) (he : ∀ s, E s → E' s) : Post r Q' E' := by
  cases r with
  | ok a s => exact hq a s h
  | err e s => exact he s h

/-- one statement on such a line -/
theorem stmt_safe (fuel : Nat) (ts : List (Token F)) (σ : St F) (t : Token F)
    (ho : OnImm ts σ) (ht : ts[σ.loc.idx]? = some t) (hs : Safe t) (hpl : PrintLine ts) :
    Post (stmtBody (evalN fuel) σ) (fun _ s => RX σ s ∧ SafeAt ts s.loc.idx) (fun s => RX σ s) := by
  have hl := lineToks_onImm ho
  have hnext := Cursor.next_some σ ts t (ExprL.tokens_eq hl) ht
  have hrx1 : RX σ ({ σ with reads := σ.reads + 1, loc := { σ.loc with idx := σ.loc.idx + 1 } } : St F) :=
    rx_same rfl rfl rfl rfl rfl rfl rfl rfl rfl rfl rfl rfl rfl rfl
  unfold stmtBody
  rw [ExprL.bind_ok (traceHere_imm σ ho.1)]
  unfold dispatch
  rw [ExprL.bind_ok hnext]
  have hprint : Post (printStatement (evalN fuel)
        ({ σ with reads := σ.reads + 1, loc := { σ.loc with idx := σ.loc.idx + 1 } } : St F))
      (fun _ s => RX σ s ∧ SafeAt ts s.loc.idx) (fun s => RX σ s) := by
    have hr := (rx_printStatement _ (rx_evalN_expr fuel)).final
      ({ σ with reads := σ.reads + 1, loc := { σ.loc with idx := σ.loc.idx + 1 } } : St F)
    cases hres : printStatement (evalN fuel)
        ({ σ with reads := σ.reads + 1, loc := { σ.loc with idx := σ.loc.idx + 1 } } : St F) with
    | err e s =>
      rw [hres] at hr
      exact IsFrame.trans hrx1 hr
    | ok u s =>
      rw [hres] at hr
      have hrx : RX σ s := IsFrame.trans hrx1 hr
      refine ⟨hrx, ?_⟩
      have hE := printStatement_ends _ _ _ hres
      intro t' ht'
      rcases hE ts t' (lineToks_onImm (onImm_of_rx hrx ho)) ht' with h | h
      · exact Or.inr (Or.inr (Or.inl (isKw_eq h)))
      · exact Or.inr (Or.inr (Or.inr (isKw_eq h)))
  rcases hs with rfl | rfl | rfl | rfl
  · exact hprint
  · exact hprint
  · exact ⟨hrx1, hpl.2 _ ht⟩
  · exact hrx1

theorem hasNext_onImm {ts : List (Token F)} {σ : St F} (ho : OnImm ts σ) :
    hasNext σ = .ok (ts[σ.loc.idx]?).isSome { σ with reads := σ.reads + 1 } := by
  unfold hasNext
  rw [ExprL.bind_ok (Cursor.peek_eq σ ts (ExprL.tokens_eq (lineToks_onImm ho)))]
  rfl

/-- the first half of `run_next_statement` on such a line -/
theorem head_safe (fuel : Nat) (ts : List (Token F)) (σ : St F)
    (ho : OnImm ts σ) (hs : SafeAt ts σ.loc.idx) (hpl : PrintLine ts) :
    Post (headPart fuel σ) (fun _ s => RX σ s ∧ SafeAt ts s.loc.idx) (fun s => RX σ s) := by
  have hrx1 : RX σ ({ σ with reads := σ.reads + 1 } : St F) :=
    rx_same rfl rfl rfl rfl rfl rfl rfl rfl rfl rfl rfl rfl rfl rfl
  unfold headPart
  rw [ExprL.bind_ok (hasNext_onImm ho)]
  cases ht : ts[σ.loc.idx]? with
  | none => exact ⟨hrx1, hs⟩
  | some t =>
    simp only [Option.isSome_some, if_true]
    have ho1 : OnImm ts ({ σ with reads := σ.reads + 1 } : St F) := ho
    have := stmt_safe fuel ts ({ σ with reads := σ.reads + 1 } : St F) t ho1 ht (hs t ht) hpl
    cases hres : stmtBody (evalN fuel) ({ σ with reads := σ.reads + 1 } : St F) with
    | ok u s => rw [hres] at this; exact ⟨IsFrame.trans hrx1 this.1, this.2⟩
    | err e s => rw [hres] at this; exact IsFrame.trans hrx1 this

/-- the second half: at the end of the line the interpreter returns to idle
    keeping the stack (a breakpoint is pending); otherwise it stays where it is -/
theorem tail_safe (ts : List (Token F)) (σ : St F) (ho : OnImm ts σ) (hs : SafeAt ts σ.loc.idx) :
    ∃ s, tailPart σ = .ok () s ∧ IFrame σ s ∧
      (s.state = .idle ∨ (s.state = σ.state ∧ OnImm ts s ∧ SafeAt ts s.loc.idx)) := by
  have ho1 : OnImm ts ({ σ with reads := σ.reads + 1 } : St F) := ho
  unfold tailPart
  rw [ExprL.bind_ok (hasNext_onImm ho)]
  cases ht : ts[σ.loc.idx]? with
  | some t =>
    exact ⟨{ σ with reads := σ.reads + 1 }, rfl, ⟨rfl, rfl, rfl, rfl, rfl, rfl, rfl, ArrExt.refl _⟩,
      Or.inr ⟨rfl, ho1, hs⟩⟩
  | none =>
    simp only [Option.isSome_none, Bool.not_false, if_true]
    have hnl : nextLine ({ σ with reads := σ.reads + 1 } : St F) = .ok false { σ with reads := σ.reads + 1 } := by
      simp only [nextLine, bind, M.bindM, M.get]
      rw [show ({ σ with reads := σ.reads + 1 } : St F).loc.line = none from ho.1]
      rfl
    rw [ExprL.bind_ok hnl]
    simp only [Bool.not_false, if_true]
    rw [idle_tail]
    refine ⟨_, rfl, ?_, Or.inl rfl⟩
    have hbp := ho.2.2
    refine ⟨rfl, rfl, ?_, rfl, rfl, rfl, rfl, ArrExt.refl _⟩
    show (if σ.bp.isNone = true then [] else σ.stack) = σ.stack
    cases hb : σ.bp with
    | none => rw [hb] at hbp; cases hbp
    | some b => rfl

/-- what a turn on such a line leaves: idle, or running on the same line at a safe position -/
def After (ts : List (Token F)) (s : St F) : Prop :=
  s.state = .idle ∨ (s.state = .running ∧ OnImm ts s ∧ SafeAt ts s.loc.idx)

/-- **one `run_next_statement`** on an immediate line of PRINT statements with a
    breakpoint pending -/
theorem inspect_turn (fuel : Nat) (ts : List (Token F)) (σ : St F)
    (ho : OnImm ts σ) (hs : SafeAt ts σ.loc.idx) (hpl : PrintLine ts) :
    Post (runNextStatement fuel σ) (fun _ s => IFrame σ s ∧ After ts s) (fun s => IFrame σ s) := by
  rw [runNextStatement_eq]
  have hor : OnImm ts ({ σ with state := .running } : St F) := ho
  have hif : IFrame σ ({ σ with state := .running } : St F) :=
    ⟨rfl, rfl, rfl, rfl, rfl, rfl, rfl, ArrExt.refl _⟩
  refine post_bind (σ := σ) (m := modify fun s => { s with state := .running })
    (Q := fun _ s => s = ({ σ with state := .running } : St F)) rfl fun _ s hs0 => ?_
  subst hs0
  refine post_bind (post_mono (head_safe fuel ts _ hor hs hpl) (fun _ _ h => h)
    (fun s h => hif.trans (iframe_of_rx h))) fun _ s2 hs2 => ?_
  · obtain ⟨hrx, hsafe⟩ := hs2
    obtain ⟨s3, h3, hf3, hst⟩ := tail_safe ts s2 (onImm_of_rx hrx hor) hsafe
    rw [h3]
    refine ⟨hif.trans ((iframe_of_rx hrx).trans hf3), ?_⟩
    rcases hst with hi | ⟨hst, ho3, hs3⟩
    · exact Or.inl hi
    · exact Or.inr ⟨by rw [hst, hrx.state], ho3, hs3⟩

/-- … wrapped in `postprocess` (as `continue_evaluating` and `start_evaluating` do) -/
theorem inspect_turn_post (fuel : Nat) (ts : List (Token F)) (σ : St F)
    (ho : OnImm ts σ) (hs : SafeAt ts σ.loc.idx) (hpl : PrintLine ts) :
    IFrame σ (postprocess (runNextStatement fuel) σ).final ∧
      After ts (postprocess (runNextStatement fuel) σ).final := by
  have h := inspect_turn fuel ts σ ho hs hpl
  unfold postprocess
  cases hr : runNextStatement fuel σ with
  | ok a s => rw [hr] at h; exact h
  | err e s =>
    rw [hr] at h
    exact ⟨⟨h.lines, h.bp, h.stack, h.loops, h.data, h.fns, h.vars, h.arrays⟩, Or.inl rfl⟩

/-- an immediate line that is not a command and has no line number: the
    starting turn is `run_next_statement` on the state with the tokens installed -/
theorem evaluateImpl_immediate (fuel : Nat) (line : Str) (ts : List (Token F)) (σ : St F)
    (hidle : σ.state = .idle)
    (hcmd : (commandWord line).bind Command.ofWord = none)
    (hnum : parseLineNumber line = none)
    (htok : tokenize (F := F) line 0 = .ok ts) :
    evaluateImpl fuel line σ = runNextStatement fuel ((σ.setImmediate []).setImmediate ts) := by
  have hne : (σ.state != .idle) = false := by simp [hidle]
  simp only [evaluateImpl, bind, M.bindM, M.get, hne, Bool.false_eq_true, if_false, setImmediate, M.modify,
    maybeProcessCommand, hcmd, pure, M.pureM, hnum, htok]

end Abasic.Proofs.Inspect
