import Abasic.Proofs.Stmt3TLemmas
/-
  C03 / C08, route (B) of discharging `BaseTurns` — Proofs/Stmt3Base.lean RE-RUN for programs
  with INPUT statements: the text of that file over the relations of
  Proofs/Stmt3TRel.lean (`ProgT`, `Holds`, `Mem3`, `Outcome3`, … in namespace
  `Abasic.Stmt3T`, which shadow the originals of `Abasic.Prog3L` / `Abasic.Stmt3L`).
  Lemmas of the original that do not mention the program are not repeated; they
  are used from `Abasic.Stmt3L`.  Differences to the original: `Mem3` has the
  field `input` and its `out` ends in `p.base`.  The original header follows.

  C03, third layer — the statement evaluator on the statements of Ref/Stmt3.lean.

  Part 2: `StmtOK` / `BranchOK` (what the statement theorem says about one
  statement, as a statement of a line and as the branch of an IF), and LET,
  PRINT, GOTO, END, `THEN n`, IF.
-/
set_option linter.unusedSectionVars false

namespace Abasic.Stmt3T
open Abasic Abasic.Ref Abasic.ExprL Abasic.ExprL2 Abasic.StmtL Abasic.ProgL Abasic.Prog3L Abasic.Stmt3L Abasic.Hoare M
open Abasic.Prog3I (HoldsI AddrRelI RetRelI LoopRelI DataRelI progChunksI preToksI line_splitI preToks_succI drop_tail_nilI drop_tail_consI line_memI mem_lineI after_lineI first_lineI holds_afterI holds_firstI renderSI_head lineToks_ofI line_nonemptyI preToksI_zero resume_ltI resume_geI)
open Abasic.Prog2L (Rel2)

variable {F : Type} [NumOps F]

/-! ### the statement theorem, for one statement -/

/-- **What the statement theorem says about the statement `s`** standing on line
    `n` as (part of) statement `j`: with the model state in `Sync` with the
    reference state and the cursor in front of the rendering of `s`, one
    activation of the statement evaluator realises the reference step. -/
def StmtOK (p : ProgT F) (n j : Nat) (s : RStmt3 F) : Prop :=
  ∀ (fuel : Nat) (σ : St F) (r : RState3 F) (pre rest : List (Token F)) (after eol : Nat),
    Sync p r σ → Pos p σ n j s pre rest after eol → EndFor3 s rest → s.isLine = false → s.CoveredB →
    ResolvedS r.fns s → sdepth3 r.fns s ≤ fuel → σ.nesting + sdepth3 r.fns s ≤ Extracted.nestingLimit →
    Outcome3 p σ n after eol (stmtBody (evalN fuel) σ) (s.exec (allDataI p.q) n j r).1 (s.exec (allDataI p.q) n j r).2

/-- the same for `s` as the branch of an IF (`statementOrGoto`: one nesting level deeper) -/
def BranchOK (p : ProgT F) (n j : Nat) (s : RStmt3 F) : Prop :=
  ∀ (fuel : Nat) (σ : St F) (r : RState3 F) (pre rest : List (Token F)) (after eol : Nat),
    Sync p r σ → Pos p σ n j s pre rest after eol → EndFor3 s rest → s.CoveredB →
    ResolvedS r.fns s → sdepth3 r.fns s + 1 ≤ fuel → σ.nesting + (sdepth3 r.fns s + 1) ≤ Extracted.nestingLimit →
    Outcome3 p σ n after eol (statementOrGoto (evalN fuel) σ) (s.exec (allDataI p.q) n j r).1
      (s.exec (allDataI p.q) n j r).2

section stmts
variable {p : ProgT F} {n j : Nat}

/-! ### GOTO, `THEN n`, END -/

/-- `gotoLine` in a state reached from the start of the statement -/
theorem gotoLine_outcome {σ τ : St F} {r : RState3 F} (hS : Sync p r τ) (hst : Start σ τ) (after eol m : Nat) :
    Outcome3 p σ n after eol (gotoLine m τ) r (.jump m) := by
  refine outcome_start ?_ hst
  rw [gotoLine_eq]
  refine ⟨fun hh => ?_, fun hh => ?_⟩
  · rw [if_pos hh]
    exact ⟨_, rfl, ⟨rfl, rfl, rfl, rfl, rfl⟩, hS.mem.congr rfl rfl rfl rfl rfl rfl rfl rfl rfl, rfl⟩
  · rw [if_neg (by rw [hh]; simp)]
    exact errFrom_fail rfl rfl rfl rfl

theorem goto_ok (m : Nat) : StmtOK p n j (.gotoS m) := by
  intro fuel σ r pre rest after eol hS hP _ _ hcov _ _ _
  have hAt0 : At σ pre (.kw .Goto :: .num (NumOps.ofNat m) :: rest) := by
    simpa only [renderS3, List.cons_append, List.nil_append] using hP.cur
  obtain ⟨k1, h1⟩ := next_ex hAt0
  have hAt1 := at_mv1 hAt0 k1
  obtain ⟨k2, h2⟩ := next_ex hAt1
  have hround : NumOps.toU64 (NumOps.ofNat m : F) = m := hcov
  have hrun : stmtBody (evalN fuel) σ = gotoLine m (mv (mv σ 1 k1) 1 k2) := by
    unfold stmtBody
    rw [bind_ok (traceHere_off hS.env.tracing)]
    unfold dispatch
    rw [bind_ok h1]
    show gotoStatement _ = _
    unfold gotoStatement
    rw [bind_ok h2]
    simp only [hround]
  rw [hrun]
  exact gotoLine_outcome ((hS.mv _ _).mv _ _) ((start_mv _ _ _).trans (start_mv _ _ _)) _ _ _

theorem end_ok : StmtOK p n j (.endS) := by
  intro fuel σ r pre rest after eol hS hP _ _ _ _ _ _
  have hAt0 : At σ pre (.kw .End :: rest) := by
    simpa only [renderS3, List.cons_append, List.nil_append] using hP.cur
  obtain ⟨k1, h1⟩ := next_ex hAt0
  have hrun : stmtBody (evalN fuel) σ = setImmediate [] (mv σ 1 k1) := by
    unfold stmtBody
    rw [bind_ok (traceHere_off hS.env.tracing)]
    unfold dispatch
    rw [bind_ok h1]
  rw [hrun]
  exact ⟨_, rfl, ⟨rfl, rfl, rfl, rfl, rfl⟩, hS.mem.vars, hS.mem.arrays, hS.mem.out, rfl, rfl⟩

/-! ### LET -/

theorem let_ok (x : Str) (e : Expr2 F) : StmtOK p n j (.letS x e) := by
  intro fuel σ r pre rest after eol hS hP hE _ _ hres hd hn
  have hAt0 : At σ pre (.kw .Let :: .symbol x :: .kw .Equals :: (render2 e ++ rest)) := by
    simpa only [renderS3, List.cons_append] using hP.cur
  obtain ⟨k1, h1⟩ := next_ex hAt0
  have hAt1 := at_mv1 hAt0 k1
  obtain ⟨k2, h2⟩ := next_ex hAt1
  have hAt2 := at_mv1 hAt1 k2
  obtain ⟨k3, h3⟩ := optIdx_none_ex (ev := evalN fuel) hAt2 (head_cons_ne rfl)
  have hAt3 := at_mv0 hAt2 k3
  obtain ⟨k4, h4⟩ := expect_ex (k := .Equals) hAt3 rfl
  have hAt4 := at_mv1 hAt3 k4
  have hrun : stmtBody (evalN fuel) σ =
      ((evalN fuel).expr >>= fun v => assignValue { name := x, index := none } v)
        (mv (mv (mv (mv σ 1 k1) 1 k2) 0 k3) 1 k4) := by
    unfold stmtBody
    rw [bind_ok (traceHere_off hS.env.tracing)]
    unfold dispatch
    rw [bind_ok h1]
    show letStatement (evalN fuel) _ = _
    unfold letStatement
    rw [bind_ok h2]
    show assignmentStatement (evalN fuel) x _ = _
    unfold assignmentStatement
    rw [bind_ok h3, bind_ok h4]
  rw [hrun]
  have hst : Start σ (mv (mv (mv (mv σ 1 k1) 1 k2) 0 k3) 1 k4) := ⟨⟨rfl, rfl, rfl, rfl, rfl⟩, rfl, rfl, rfl⟩
  have hS4 : Sync p r (mv (mv (mv (mv σ 1 k1) 1 k2) 0 k3) 1 k4) := (((hS.mv _ _).mv _ _).mv _ _).mv _ _
  have hX := expr3_run hS4 e fuel _ rest hres hd hn (hE.ends 6) hAt4
  cases hev : fold2 callFuel r.env e with
  | error err =>
    rw [hev] at hX
    have hex : (RStmt3.letS x e).exec (allDataI p.q) n j r = (r, .error err) := by
      simp only [RStmt3.exec, evalE, hev]
    rw [hex]
    exact ⟨hX.1, (hX.2.bind).start hst⟩
  | ok q =>
    obtain ⟨v, env'⟩ := q
    rw [hev] at hX
    obtain ⟨rd, hσ1, hS1⟩ := hX
    rw [bind_ok hσ1]
    have hAt5 := at_upd hAt4 rd env'
    cases hm : v.matchesName x with
    | false =>
      have hex : (RStmt3.letS x e).exec (allDataI p.q) n j r = (r.put env', .error .typeMismatch) := by
        simp only [RStmt3.exec, evalE, hev, hm, Bool.false_eq_true, ↓reduceIte]
      rw [hex]
      have hfail : assignValue (F := F) { name := x, index := none } v
          (upd (mv (mv (mv (mv σ 1 k1) 1 k2) 0 k3) 1 k4) (render2 e).length rd env') =
          .err { err := .typeMismatch } (upd (mv (mv (mv (mv σ 1 k1) 1 k2) 0 k3) 1 k4) (render2 e).length rd env') := by
        simp only [assignValue, setVar, hm, Bool.false_eq_true, ↓reduceIte, M.fail]
      exact ⟨by simp, errFrom_at (hst.trans (start_upd _ _ _ _)) hfail⟩
    | true =>
      have hex : (RStmt3.letS x e).exec (allDataI p.q) n j r =
          ({ r.put env' with vars := alSet x v (r.put env').vars }, .next) := by
        simp only [RStmt3.exec, evalE, hev, hm, ↓reduceIte]
      rw [hex]
      refine ⟨{ upd (mv (mv (mv (mv σ 1 k1) 1 k2) 0 k3) 1 k4) (render2 e).length rd env' with
                vars := alSet x v σ.vars }, ?_, ⟨rfl, rfl, rfl, rfl, rfl⟩, ?_, hP.locline, Or.inl ?_⟩
      · simp only [assignValue, setVar, hm, ↓reduceIte, M.modify]
        rfl
      · have hM := hS1.mem
        exact { vars := by show alSet x v σ.vars = alSet x v r.vars; rw [hS.mem.vars]
                arrays := hM.arrays, rng := hM.rng, loops := hM.loops, stack := hM.stack, data := hM.data
                out := hM.out, fns := ⟨hM.fns.undef, hM.fns.defd⟩, fnLines := hM.fnLines, input := hM.input }
      · rw [hP.hafter]
        exact idx_after hP.cur (σ' := { upd (mv (mv (mv (mv σ 1 k1) 1 k2) 0 k3) 1 k4) (render2 e).length rd env' with
                vars := alSet x v σ.vars }) (pf := _) ⟨hAt5.1, hAt5.2⟩ rfl |>.trans (by
          simp only [renderS3, List.length_cons])

/-! ### PRINT -/

theorem printLoop3_run (fuel : Nat) (rest : List (Token F)) (hE : StmtEnd rest) (items : List (PItem3 F)) :
    ∀ (k : Nat) (σ : St F) (r : RState3 F) (pre : List (Token F)) (semi : Bool) (acc : Str),
      Sync p r σ → At σ pre (renderItems3 items ++ rest) → ResolvedItems r.fns items →
      itemsDepth3 r.fns items ≤ fuel → σ.nesting + itemsDepth3 r.fns items ≤ Extracted.nestingLimit →
      separated3 items = true → (renderItems3 items).length < k →
      match printText3 r items semi acc with
      | .ok (text, r') => ∃ σ' semi' text', printLoop (evalN fuel) k semi acc σ = .ok (semi', text') σ' ∧
          (if semi' then text' else text' ++ ['\n']) = text ∧ Sync p r' σ' ∧
          At σ' (pre ++ renderItems3 items) rest ∧ Start σ σ' ∧ lineToks σ' = lineToks σ
      | .error x => x ≠ .dataTypeMismatch ∧ ErrFrom σ x (printLoop (evalN fuel) k semi acc σ) := by
  induction items with
  | nil =>
    intro k σ r pre semi acc hS hAt _ _ _ _ hk
    obtain ⟨k', rfl⟩ : ∃ k', k = k' + 1 := ⟨k - 1, by omega⟩
    have hAt' : At σ pre rest := hAt
    refine ⟨_, semi, acc, printLoop_stop hAt' hE, rfl, hS.mv _ _, ?_, start_mv _ _ _, rfl⟩
    show At (mv σ 0 _) (pre ++ []) rest
    rw [List.append_nil]
    exact at_mv0 hAt' _
  | cons i items' ih =>
    intro k σ r pre semi acc hS hAt hres hd hn hsep hk
    obtain ⟨k', rfl⟩ : ∃ k', k = k' + 1 := ⟨k - 1, by omega⟩
    have hsep' := sep3_tail i items' hsep
    cases i with
    | semi =>
      have hAt0 : At σ pre (.kw .Semicolon :: (renderItems3 items' ++ rest)) := hAt
      have hlen : (renderItems3 (PItem3.semi :: items')).length = 1 + (renderItems3 items').length := by
        simp only [renderItems3, PItem3.render, List.length_append, List.length_cons, List.length_nil]
      have hI := ih k' (mv σ 1 (σ.reads + 1 + 1)) r _ true acc (hS.mv _ _) (at_mv1 hAt0 _) hres hd hn hsep'
        (by rw [hlen] at hk; omega)
      rw [printLoop_semi hAt0]
      show match printText3 r items' true acc with | .ok (text, r') => _ | .error x => _
      cases hp : printText3 r items' true acc with
      | error x =>
        rw [hp] at hI
        exact ⟨hI.1, hI.2.start (start_mv _ _ _)⟩
      | ok q =>
        obtain ⟨text, r'⟩ := q
        rw [hp] at hI
        obtain ⟨σ', semi', text', hrun, htext, hS', hAt', hst', hl'⟩ := hI
        exact ⟨σ', semi', text', hrun, htext, hS', at_assoc hAt', (start_mv _ _ _).trans hst', hl'⟩
    | comma =>
      have hAt0 : At σ pre (.kw .Comma :: (renderItems3 items' ++ rest)) := hAt
      have hlen : (renderItems3 (PItem3.comma :: items')).length = 1 + (renderItems3 items').length := by
        simp only [renderItems3, PItem3.render, List.length_append, List.length_cons, List.length_nil]
      have hI := ih k' (mv σ 1 (σ.reads + 1 + 1)) r _ false (acc ++ ['\t']) (hS.mv _ _) (at_mv1 hAt0 _) hres hd hn hsep'
        (by rw [hlen] at hk; omega)
      rw [printLoop_comma hAt0]
      show match printText3 r items' false (acc ++ ['\t']) with | .ok (text, r') => _ | .error x => _
      cases hp : printText3 r items' false (acc ++ ['\t']) with
      | error x =>
        rw [hp] at hI
        exact ⟨hI.1, hI.2.start (start_mv _ _ _)⟩
      | ok q =>
        obtain ⟨text, r'⟩ := q
        rw [hp] at hI
        obtain ⟨σ', semi', text', hrun, htext, hS', hAt', hst', hl'⟩ := hI
        exact ⟨σ', semi', text', hrun, htext, hS', at_assoc hAt', (start_mv _ _ _).trans hst', hl'⟩
    | expr e =>
      have hAt0 : At σ pre (render2 e ++ (renderItems3 items' ++ rest)) := by
        simpa only [renderItems3, PItem3.render, List.append_assoc] using hAt
      have hlen : (renderItems3 (PItem3.expr e :: items')).length = (render2 e).length + (renderItems3 items').length := by
        simp only [renderItems3, PItem3.render, List.length_append]
      simp only [ResolvedItems] at hres
      have hde : edepth r.fns e ≤ fuel := by simp only [itemsDepth3] at hd; omega
      have hdr : itemsDepth3 r.fns items' ≤ fuel := by simp only [itemsDepth3] at hd; omega
      have hne : σ.nesting + edepth r.fns e ≤ Extracted.nestingLimit := by simp only [itemsDepth3] at hn; omega
      have hnr : σ.nesting + itemsDepth3 r.fns items' ≤ Extracted.nestingLimit := by simp only [itemsDepth3] at hn; omega
      obtain ⟨t, ts, hts, hpl⟩ := render2_head_plain e
      have hAt1 : At σ pre (t :: (ts ++ (renderItems3 items' ++ rest))) := by rw [hts] at hAt0; exact hAt0
      have hX := expr3_run (hS.mv 0 (σ.reads + 1)) e fuel pre _ hres.1 hde hne
        (sep3_follow e items' rest hsep hE) (at_mv0 hAt0 _)
      rw [printLoop_expr hAt1 hpl]
      show match (match evalE r e with
          | .ok (v, r1) => printText3 r1 items' false (acc ++ valueText v)
          | .error err => .error err) with | .ok (text, r') => _ | .error x => _
      cases hev : fold2 callFuel r.env e with
      | error x =>
        rw [hev] at hX
        have : evalE r e = .error x := by simp only [evalE, hev]
        rw [this]
        exact ⟨hX.1, (hX.2.bind).start (start_mv _ _ _)⟩
      | ok q =>
        obtain ⟨v, env'⟩ := q
        rw [hev] at hX
        obtain ⟨rd, hσ1, hS1⟩ := hX
        have : evalE r e = .ok (v, r.put env') := by simp only [evalE, hev]
        rw [this, bind_ok hσ1]
        have hI := ih k' _ (r.put env') _ false (acc ++ valueText v) hS1 (at_upd (at_mv0 hAt0 _) rd env') hres.2 hdr hnr
          hsep' (by have := render2_pos e; rw [hlen] at hk; omega)
        show match printText3 (r.put env') items' false (acc ++ valueText v) with | .ok (text, r') => _ | .error x => _
        cases hp : printText3 (r.put env') items' false (acc ++ valueText v) with
        | error x =>
          rw [hp] at hI
          exact ⟨hI.1, hI.2.start ((start_mv _ _ _).trans (start_upd _ _ _ _))⟩
        | ok q' =>
          obtain ⟨text, r'⟩ := q'
          rw [hp] at hI
          obtain ⟨σ', semi', text', hrun, htext, hS', hAt', hst', hl'⟩ := hI
          refine ⟨σ', semi', text', hrun, htext, hS', ?_, ((start_mv _ _ _).trans (start_upd _ _ _ _)).trans hst', hl'⟩
          rw [renderItems3]
          exact at_assoc hAt'

theorem print_ok (items : List (PItem3 F)) : StmtOK p n j (.printS items) := by
  intro fuel σ r pre rest after eol hS hP hE _ hcov hres hd hn
  have hAt0 : At σ pre (.kw .Print :: (renderItems3 items ++ rest)) := by
    simpa only [renderS3, List.cons_append] using hP.cur
  obtain ⟨k1, h1⟩ := next_ex hAt0
  have hAt1 := at_mv1 hAt0 k1
  have hst : Start σ (mv σ 1 k1) := start_mv _ _ _
  have hrun : stmtBody (evalN fuel) σ =
      (printLoop (evalN fuel) ((pre ++ [Token.kw Kw.Print] ++ (renderItems3 items ++ rest)).length + 1) false [] >>=
        fun q => emit (.print (if q.1 then q.2 else q.2 ++ ['\n']))) (mv σ 1 k1) := by
    unfold stmtBody
    rw [bind_ok (traceHere_off hS.env.tracing)]
    unfold dispatch
    rw [bind_ok h1]
    show printStatement (evalN fuel) _ = _
    unfold printStatement
    rw [bind_ok (lineBudget_eq hAt1.1)]
  rw [hrun]
  have hL := printLoop3_run (p := p) fuel rest hE.stmtEnd items
    ((pre ++ [Token.kw Kw.Print] ++ (renderItems3 items ++ rest)).length + 1) (mv σ 1 k1) r _ false []
    (hS.mv _ _) hAt1 hres hd hn hcov (by simp only [List.length_append]; omega)
  cases hp : printText3 r items false [] with
  | error x =>
    rw [hp] at hL
    have hex : (RStmt3.printS items).exec (allDataI p.q) n j r = (r, .error x) := by
      simp only [RStmt3.exec, hp]
    rw [hex]
    exact ⟨hL.1, (hL.2.bind).start hst⟩
  | ok q =>
    obtain ⟨text, r1⟩ := q
    rw [hp] at hL
    obtain ⟨σ', semi', text', hσ', htext, hS', hAt', hst', hl'⟩ := hL
    have hex : (RStmt3.printS items).exec (allDataI p.q) n j r = ({ r1 with out := r1.out ++ [text] }, .next) := by
      simp only [RStmt3.exec, hp]
    rw [hex, bind_ok hσ']
    refine ⟨{ σ' with out := .print text :: σ'.out }, ?_, ?_, ?_, ?_, Or.inl ?_⟩
    · show emit _ σ' = _
      simp only [htext]
      rfl
    · have := (hst.trans hst').kept
      exact ⟨this.lines, this.warnings, this.tracing, this.nesting, this.state⟩
    · have hM := hS'.mem
      exact { vars := hM.vars, arrays := hM.arrays, rng := hM.rng, loops := hM.loops, stack := hM.stack
              data := hM.data, fns := ⟨hM.fns.undef, hM.fns.defd⟩, fnLines := hM.fnLines, input := hM.input
              out := by
                show Out.print text :: σ'.out = outRecs (r1.out ++ [text]) ++ p.base
                rw [outRecs_append, hM.out]; rfl }
    · show σ'.loc.line = some n
      rw [(hst.trans hst').line]; exact hP.locline
    · rw [hP.hafter]
      have hAt'' : At ({ σ' with out := .print text :: σ'.out } : St F)
          (pre ++ [Token.kw Kw.Print] ++ renderItems3 items) rest := ⟨hAt'.1, hAt'.2⟩
      exact (idx_after hP.cur hAt'' (by show lineToks σ' = lineToks σ; rw [hl']; rfl)).trans (by
        simp only [renderS3, List.length_cons])

end stmts

end Abasic.Stmt3T
