import Abasic.Props.C05Eval
import Abasic.Props.C06Stmt
import Abasic.Proofs.ProgLemmas
/-
  Lemmas for C06 at the program level (Abasic/Props/C06Prog.lean).

  1. `Abasic.ALine` — a second frame lemma for the static analyzer, next to
     Proofs/AnalyzerFrame.lean (which keeps `lines` and `nesting`): no analyzer
     action of a statement moves the cursor to another LINE (`loc.line`), on the
     success path and on the error path alike (`ALine.keeps_stmt`).  The file
     pass needs it after a statement has failed: `nextLine` continues behind the
     line the failing statement stood on.
  2. `Abasic.ProgT` — one equation per iteration of `analyzeStatements` and of
     `analyzeProgram`; the colon as a statement of its own (`aStmtBody_colon`);
     `RProgram.line` / `RProgram.after` on an ascending program split at a line.
-/
set_option linter.unusedSectionVars false

namespace Abasic.ALine
open Abasic M

variable {F : Type}

/-- the state a result carries, on either path -/
def rst {α : Type} : Res F α → St F
  | .ok _ s => s
  | .err _ s => s

/-- what a statement of the analyzer never changes: the line the cursor is on -/
def key (s : St F) : Option Nat := s.loc.line

structure Keeps {α : Type} (m : M F α) : Prop where
  h : ∀ s, key (rst (m s)) = key s

theorem Keeps.pure {α : Type} (a : α) : Keeps (pure a : M F α) := ⟨fun _ => rfl⟩

theorem Keeps.bind {α β : Type} {m : M F α} {f : α → M F β} (hm : Keeps m) (hf : ∀ a, Keeps (f a)) :
    Keeps (m >>= f) := by
  refine ⟨fun s => ?_⟩
  have h1 := hm.h s
  show key (rst (M.bindM m f s)) = key s
  unfold M.bindM
  cases h : m s with
  | ok a s' =>
    rw [h] at h1
    simp only []
    rw [(hf a).h s']; exact h1
  | err e s' =>
    rw [h] at h1
    exact h1

theorem Keeps.get : Keeps (M.get : M F (St F)) := ⟨fun _ => rfl⟩
theorem Keeps.fail {α : Type} (e : Err) : Keeps (M.fail e : M F α) := ⟨fun _ => rfl⟩
theorem Keeps.rpanic {α : Type} (x : String) : Keeps (M.rpanic x : M F α) := ⟨fun _ => rfl⟩
theorem Keeps.throw {α : Type} (e : TErr) : Keeps (M.throw e : M F α) := ⟨fun _ => rfl⟩
theorem Keeps.modify {f : St F → St F} (h : ∀ s, key (f s) = key s) : Keeps (M.modify f) := ⟨fun s => h s⟩

/-- `get` followed by something that may mention the state it got -/
theorem Keeps.get_bind {α : Type} {f : St F → M F α} (h : ∀ s, key (rst (f s s)) = key s) :
    Keeps (M.get >>= f) := ⟨fun s => h s⟩

theorem Keeps.ite {α : Type} {c : Prop} [Decidable c] {a b : M F α} (ha : Keeps a) (hb : Keeps b) :
    Keeps (if c then a else b) := by
  split <;> assumption


/-- one structural step of a `Keeps` proof -/
macro "lkeeps_step" : tactic => `(tactic| first
  | assumption
  | exact Keeps.pure _
  | exact Keeps.get
  | exact Keeps.fail _
  | exact Keeps.rpanic _
  | exact Keeps.throw _
  | (apply Keeps.modify; intro _; rfl)
  | apply Keeps.bind
  | intro _
  | split
  | dsimp only)

macro "lkeeps" : tactic => `(tactic| repeat' lkeeps_step)

variable [NumOps F]
set_option linter.unusedSectionVars false

theorem keeps_tokens : Keeps (tokens : M F _) := by
  refine ⟨fun s => ?_⟩
  simp only [tokens, tokensForLine]
  split
  · rfl
  · split <;> rfl
macro_rules | `(tactic| lkeeps_step) => `(tactic| with_reducible exact keeps_tokens)

theorem keeps_peek : Keeps (peek : M F _) := by unfold peek; lkeeps
macro_rules | `(tactic| lkeeps_step) => `(tactic| with_reducible exact keeps_peek)

theorem keeps_advance : Keeps (advance : M F _) := by unfold advance; lkeeps
macro_rules | `(tactic| lkeeps_step) => `(tactic| with_reducible exact keeps_advance)

theorem keeps_next : Keeps (next : M F _) := by unfold next; lkeeps
macro_rules | `(tactic| lkeeps_step) => `(tactic| with_reducible exact keeps_next)

theorem keeps_hasNext : Keeps (hasNext : M F _) := by unfold hasNext; lkeeps
macro_rules | `(tactic| lkeeps_step) => `(tactic| with_reducible exact keeps_hasNext)

theorem keeps_nextUnwrapped : Keeps (nextUnwrapped : M F _) := by unfold nextUnwrapped; lkeeps
macro_rules | `(tactic| lkeeps_step) => `(tactic| with_reducible exact keeps_nextUnwrapped)

theorem keeps_expect (k : Kw) : Keeps (expect k : M F _) := by unfold expect; lkeeps
macro_rules | `(tactic| lkeeps_step) => `(tactic| with_reducible exact keeps_expect _)

theorem keeps_accept (k : Kw) : Keeps (accept k : M F _) := by unfold accept; lkeeps
macro_rules | `(tactic| lkeeps_step) => `(tactic| with_reducible exact keeps_accept _)

theorem keeps_peekIsKw (k : Kw) : Keeps (peekIsKw k : M F _) := by unfold peekIsKw; lkeeps
macro_rules | `(tactic| lkeeps_step) => `(tactic| with_reducible exact keeps_peekIsKw _)

theorem keeps_tryNext {α : Type} (f : Token F → Option α) : Keeps (tryNext f : M F _) := by
  unfold tryNext; lkeeps
macro_rules | `(tactic| lkeeps_step) => `(tactic| with_reducible exact keeps_tryNext _)

theorem keeps_lineBudget : Keeps (lineBudget : M F _) := by unfold lineBudget; lkeeps
macro_rules | `(tactic| lkeeps_step) => `(tactic| with_reducible exact keeps_lineBudget)

theorem keeps_defineFunction (n : Str) (a : List Str) : Keeps (defineFunction n a : M F _) := by
  unfold defineFunction
  apply Keeps.get_bind
  intro s
  cases s.loc.line <;> rfl
macro_rules | `(tactic| lkeeps_step) => `(tactic| with_reducible exact keeps_defineFunction _ _)

theorem keeps_prevLoc : Keeps (prevLoc : M F _) := by unfold prevLoc; lkeeps
macro_rules | `(tactic| lkeeps_step) => `(tactic| with_reducible exact keeps_prevLoc)

theorem keeps_logAccess (sym : Str) (loc : Loc) (a : Access) : Keeps (logAccess sym loc a : M F _) := by
  unfold logAccess; lkeeps
macro_rules | `(tactic| lkeeps_step) => `(tactic| with_reducible exact keeps_logAccess _ _ _)

theorem keeps_check (a b : VT) : Keeps (VT.check a b : M F _) := by unfold VT.check; lkeeps
macro_rules | `(tactic| lkeeps_step) => `(tactic| with_reducible exact keeps_check _ _)

theorem keeps_checkNumber (a : VT) : Keeps (VT.checkNumber a : M F _) := by unfold VT.checkNumber; lkeeps
macro_rules | `(tactic| lkeeps_step) => `(tactic| with_reducible exact keeps_checkNumber _)


theorem keeps_nested {α : Type} {m : M F α} (hm : Keeps m) : Keeps (nested m) := by
  refine ⟨fun s => ?_⟩
  by_cases hcap : s.nesting = Extracted.nestingLimit
  · simp [Abasic.nested, bind, M.bindM, enterNested, M.get, hcap, M.fail, rst]
  · have hb : (s.nesting == Extracted.nestingLimit) = false := by simpa using hcap
    have h1 := hm.h { s with nesting := s.nesting + 1 }
    cases hr : m { s with nesting := s.nesting + 1 } with
    | ok a s' =>
      rw [hr] at h1
      simp only [rst, key] at h1
      cases hn : s'.nesting with
      | zero =>
        simp [Abasic.nested, bind, M.bindM, enterNested, M.get, hb, M.set, M.attempt, hr, exitNested, hn,
          M.rpanic, rst, key, h1]
      | succ k =>
        simp [Abasic.nested, bind, M.bindM, enterNested, M.get, hb, M.set, M.attempt, hr, exitNested, hn,
          M.ofExcept, M.pureM, rst, key, h1]
    | err e s' =>
      rw [hr] at h1
      simp only [rst, key] at h1
      cases hn : s'.nesting with
      | zero =>
        simp [Abasic.nested, bind, M.bindM, enterNested, M.get, hb, M.set, M.attempt, hr, exitNested, hn,
          M.rpanic, rst, key, h1]
      | succ k =>
        simp [Abasic.nested, bind, M.bindM, enterNested, M.get, hb, M.set, M.attempt, hr, exitNested, hn,
          M.ofExcept, M.throw, rst, key, h1]

section analyzer
variable (ev : AEvals F) (he : Keeps ev.expr) (hs : Keeps ev.stmt)
include he

theorem keeps_aArrayIndexLoop (n arity : Nat) : Keeps (aArrayIndexLoop ev n arity) := by
  induction n generalizing arity with
  | zero => unfold aArrayIndexLoop; lkeeps
  | succ n ih => unfold aArrayIndexLoop; have := ih (arity + 1); lkeeps

macro_rules | `(tactic| lkeeps_step) => `(tactic| with_reducible exact keeps_aArrayIndexLoop _ ‹_› _ _)

theorem keeps_aArrayIndex : Keeps (aArrayIndex ev) := by unfold aArrayIndex; lkeeps
macro_rules | `(tactic| lkeeps_step) => `(tactic| with_reducible exact keeps_aArrayIndex _ ‹_›)

theorem keeps_aNumberFunctionArg : Keeps (aNumberFunctionArg ev) := by unfold aNumberFunctionArg; lkeeps
macro_rules | `(tactic| lkeeps_step) => `(tactic| with_reducible exact keeps_aNumberFunctionArg _ ‹_›)

theorem keeps_aBindArgs (arity : Nat) (l : List Str) (i : Nat) : Keeps (aBindArgs ev arity l i) := by
  induction l generalizing i with
  | nil => unfold aBindArgs; lkeeps
  | cons a rest ih => unfold aBindArgs; have := ih (i + 1); lkeeps
macro_rules | `(tactic| lkeeps_step) => `(tactic| with_reducible exact keeps_aBindArgs _ ‹_› _ _ _)

theorem keeps_aUserFunctionCall (name : Str) (loc : Loc) : Keeps (aUserFunctionCall ev name loc) := by
  unfold aUserFunctionCall; lkeeps
macro_rules | `(tactic| lkeeps_step) => `(tactic| with_reducible exact keeps_aUserFunctionCall _ ‹_› _ _)

theorem keeps_aFunctionCall (name : Str) (loc : Loc) : Keeps (aFunctionCall ev name loc) := by
  unfold aFunctionCall; lkeeps
macro_rules | `(tactic| lkeeps_step) => `(tactic| with_reducible exact keeps_aFunctionCall _ ‹_› _ _)

theorem keeps_aTerm : Keeps (aTerm ev) := by unfold aTerm; lkeeps
macro_rules | `(tactic| lkeeps_step) => `(tactic| with_reducible exact keeps_aTerm _ ‹_›)

theorem keeps_aParen : Keeps (aParen ev) := by unfold aParen; lkeeps
macro_rules | `(tactic| lkeeps_step) => `(tactic| with_reducible exact keeps_aParen _ ‹_›)

theorem keeps_aUnary : Keeps (aUnary ev) := by unfold aUnary; lkeeps
macro_rules | `(tactic| lkeeps_step) => `(tactic| with_reducible exact keeps_aUnary _ ‹_›)

omit he in
theorem keeps_aLevelLoop {sub : M F VT} (hsub : Keeps sub) (ops : Token F → Option BinOp) (tier : ATier)
    (n : Nat) (v : VT) : Keeps (aLevelLoop sub ops tier n v) := by
  induction n generalizing v with
  | zero => unfold aLevelLoop; lkeeps
  | succ n ih => unfold aLevelLoop; have := ih v; have := ih .num; lkeeps

omit he in
theorem keeps_aLevel {sub : M F VT} (hsub : Keeps sub) (ops : Token F → Option BinOp) (tier : ATier) :
    Keeps (aLevel sub ops tier) := by
  unfold aLevel
  have := fun n v => keeps_aLevelLoop hsub ops tier n v
  lkeeps
  apply this

theorem keeps_aOrExpr : Keeps (aOrExpr ev) := by
  unfold aOrExpr
  repeat' apply keeps_aLevel
  exact keeps_aUnary ev he

theorem keeps_aExprBody : Keeps (aExprBody ev) := keeps_nested (keeps_aOrExpr ev he)

theorem keeps_aOptionalArrayIndex : Keeps (aOptionalArrayIndex ev) := by unfold aOptionalArrayIndex; lkeeps
macro_rules | `(tactic| lkeeps_step) => `(tactic| with_reducible exact keeps_aOptionalArrayIndex _ ‹_›)

omit he in
theorem keeps_aAssignValue (lv : ALValue) (r : VT) : Keeps (aAssignValue (F := F) lv r) := by
  unfold aAssignValue; lkeeps
macro_rules | `(tactic| lkeeps_step) => `(tactic| with_reducible exact keeps_aAssignValue _ _)

theorem keeps_aAssignment (name : Str) : Keeps (aAssignment ev name) := by unfold aAssignment; lkeeps
macro_rules | `(tactic| lkeeps_step) => `(tactic| with_reducible exact keeps_aAssignment _ ‹_› _)

theorem keeps_aLet : Keeps (aLet ev) := by unfold aLet; lkeeps
macro_rules | `(tactic| lkeeps_step) => `(tactic| with_reducible exact keeps_aLet _ ‹_›)

theorem keeps_aParseLValue : Keeps (aParseLValue ev) := by unfold aParseLValue; lkeeps
macro_rules | `(tactic| lkeeps_step) => `(tactic| with_reducible exact keeps_aParseLValue _ ‹_›)

theorem keeps_aReadLoop (n : Nat) : Keeps (aReadLoop ev n) := by
  induction n with
  | zero => unfold aReadLoop; lkeeps
  | succ n ih => unfold aReadLoop; lkeeps
macro_rules | `(tactic| lkeeps_step) => `(tactic| with_reducible exact keeps_aReadLoop _ ‹_› _)

omit he in
theorem keeps_aGotoOrGosub : Keeps (aGotoOrGosub (F := F)) := by unfold aGotoOrGosub; lkeeps
macro_rules | `(tactic| lkeeps_step) => `(tactic| with_reducible exact keeps_aGotoOrGosub)

theorem keeps_aPrintLoop (n : Nat) : Keeps (aPrintLoop ev n) := by
  induction n with
  | zero => unfold aPrintLoop; lkeeps
  | succ n ih => unfold aPrintLoop; lkeeps
macro_rules | `(tactic| lkeeps_step) => `(tactic| with_reducible exact keeps_aPrintLoop _ ‹_› _)

theorem keeps_aFor : Keeps (aFor ev) := by unfold aFor; lkeeps
macro_rules | `(tactic| lkeeps_step) => `(tactic| with_reducible exact keeps_aFor _ ‹_›)

omit he in
theorem keeps_aNext : Keeps (aNext (F := F)) := by unfold aNext; lkeeps
macro_rules | `(tactic| lkeeps_step) => `(tactic| with_reducible exact keeps_aNext)

omit he in
theorem keeps_defArgsLoop (n : Nat) (acc : List Str) : Keeps (defArgsLoop (F := F) n acc) := by
  induction n generalizing acc with
  | zero => unfold defArgsLoop; lkeeps
  | succ n ih => unfold defArgsLoop; lkeeps; exact ih _
macro_rules | `(tactic| lkeeps_step) => `(tactic| with_reducible exact keeps_defArgsLoop _ _)

theorem keeps_aDef : Keeps (aDef ev) := by unfold aDef; lkeeps
macro_rules | `(tactic| lkeeps_step) => `(tactic| with_reducible exact keeps_aDef _ ‹_›)

include hs

theorem keeps_aStatementOrGoto : Keeps (aStatementOrGoto ev) := by
  unfold aStatementOrGoto
  have := keeps_nested hs
  lkeeps
macro_rules | `(tactic| lkeeps_step) => `(tactic| with_reducible exact keeps_aStatementOrGoto _ ‹_› ‹_›)

theorem keeps_aIf : Keeps (aIf ev) := by unfold aIf; lkeeps
macro_rules | `(tactic| lkeeps_step) => `(tactic| with_reducible exact keeps_aIf _ ‹_› ‹_›)

theorem keeps_aStmtBody : Keeps (aStmtBody ev) := by unfold aStmtBody; lkeeps

end analyzer

theorem keeps_aEvalN (n : Nat) : Keeps (aEvalN (F := F) n).expr ∧ Keeps (aEvalN (F := F) n).stmt := by
  induction n with
  | zero => exact ⟨Keeps.fail _, Keeps.fail _⟩
  | succ n ih => exact ⟨keeps_aExprBody _ ih.1, keeps_aStmtBody _ ih.1 ih.2⟩

theorem keeps_stmt (fuel : Nat) : Keeps (aStmtBody (aEvalN (F := F) fuel)) :=
  keeps_aStmtBody _ (keeps_aEvalN fuel).1 (keeps_aEvalN fuel).2


end Abasic.ALine

namespace Abasic.ProgT
open Abasic Abasic.Ref Abasic.ExprL Abasic.StmtL Abasic.ProgL M

variable {F : Type} [NumOps F]

/-! ### the colon is a statement of its own -/

theorem aStmtBody_colon {ev : AEvals F} {σ : St F} {pre post : List (Token F)}
    (h : At σ pre (.kw .Colon :: post)) :
    aStmtBody ev σ = .ok () (mv σ 1 (σ.reads + 1)) := by
  unfold aStmtBody
  rw [bind_ok (next_eq h)]
  rfl

/-! ### one iteration of `analyzeStatements` -/

/-- nothing left on the line -/
theorem aS_done (fuel k : Nat) (a : Analysis F) {st' : St F} (h : hasNext a.st = .ok false st') :
    analyzeStatements fuel (k + 1) a = { a with st := st' } := by
  rw [analyzeStatements]
  simp only [h]

/-- a statement the analyzer accepts: go on behind it -/
theorem aS_ok (fuel k : Nat) (a : Analysis F) {st st' : St F} (h : hasNext a.st = .ok true st)
    (h2 : aStmtBody (aEvalN fuel) st = .ok () st') :
    analyzeStatements fuel (k + 1) a = analyzeStatements fuel k { a with st := st' } := by
  rw [analyzeStatements]
  simp only [h, h2]

/-- a statement the analyzer rejects with a static error: one diagnostic, and
    the rest of the line is NOT analysed -/
theorem aS_err (fuel k : Nat) (a : Analysis F) {st st' : St F} {x : Err} {f u v : Nat}
    (h : hasNext a.st = .ok true st)
    (h2 : aStmtBody (aEvalN fuel) st = .err { err := x } st')
    (hx : x = .typeMismatch ∨ x = .undefinedStatement)
    (hmap : a.map.mapLoc st'.prevLoc = some (f, u, v)) :
    analyzeStatements fuel (k + 1) a =
      { a with st := st', messages := a.messages ++ [.error f { err := x, loc := some st'.prevLoc }] } := by
  rw [analyzeStatements]
  simp only [h, h2]
  rcases hx with rfl | rfl
  · rw [populate_nd st' (by simp)]
    simp only [Option.bind_some, hmap]
  · rw [populate_nd st' (by simp)]
    simp only [Option.bind_some, hmap]

/-! ### `nextLine` and one iteration of `analyzeProgram` -/

omit [NumOps F] in
theorem nextLine_some {s : St F} {n m : Nat} (hl : s.loc.line = some n) (ha : s.lines.after n = some m) :
    nextLine s = .ok true { s with loc := { line := some m, idx := 0 } } := by
  simp only [nextLine, bind, M.bindM, M.get, hl, ha, M.set, pure, M.pureM]

omit [NumOps F] in
theorem nextLine_none {s : St F} {n : Nat} (hl : s.loc.line = some n) (ha : s.lines.after n = none) :
    nextLine s = .ok false s := by
  simp only [nextLine, bind, M.bindM, M.get, hl, ha, pure, M.pureM]

/-- the statements of the current line, then the next line -/
theorem aP_next (fuel n : Nat) (a : Analysis F) (hp : a.panicked = none) {ts : List (Token F)}
    (ht : tokens a.st = .ok ts a.st) {st : St F}
    (hp1 : (analyzeStatements fuel (ts.length + 2) a).panicked = none)
    (hn : nextLine (analyzeStatements fuel (ts.length + 2) a).st = .ok true st) :
    analyzeProgram fuel (n + 1) a =
      analyzeProgram fuel n { analyzeStatements fuel (ts.length + 2) a with st := st } := by
  rw [analyzeProgram]
  simp only [hp, ht, hp1, hn, Option.isSome_none, Bool.false_eq_true, ↓reduceIte]

/-- the statements of the last line -/
theorem aP_last (fuel n : Nat) (a : Analysis F) (hp : a.panicked = none) {ts : List (Token F)}
    (ht : tokens a.st = .ok ts a.st) {st : St F}
    (hp1 : (analyzeStatements fuel (ts.length + 2) a).panicked = none)
    (hn : nextLine (analyzeStatements fuel (ts.length + 2) a).st = .ok false st) :
    analyzeProgram fuel (n + 1) a = { analyzeStatements fuel (ts.length + 2) a with st := st } := by
  rw [analyzeProgram]
  simp only [hp, ht, hp1, hn, Option.isSome_none, Bool.false_eq_true, ↓reduceIte]

/-! ### an ascending program, split at a line -/

theorem line_at {done q : RProgram F} {n : Nat} {ss : List (RStmt F)}
    (h : ((done ++ (n, ss) :: q).map (·.1)).Pairwise (· < ·)) :
    RProgram.line (done ++ (n, ss) :: q) n = some ss := by
  induction done with
  | nil => simp only [List.nil_append, RProgram.line, beq_self_eq_true, ↓reduceIte]
  | cons l done ih =>
    obtain ⟨k, ss'⟩ := l
    simp only [List.cons_append, List.map_cons] at h
    have h' := List.pairwise_cons.mp h
    have hk : k < n := h'.1 n (by simp)
    have hb : (k == n) = false := by simp only [beq_eq_false_iff_ne, ne_eq]; omega
    simp only [List.cons_append, RProgram.line, hb, Bool.false_eq_true, ↓reduceIte]
    exact ih h'.2

theorem after_at {done q : RProgram F} {n : Nat} {ss : List (RStmt F)}
    (h : ((done ++ (n, ss) :: q).map (·.1)).Pairwise (· < ·)) :
    RProgram.after (done ++ (n, ss) :: q) n = q.head?.map (·.1) := by
  unfold RProgram.after
  induction done with
  | nil =>
    simp only [List.nil_append, List.map_cons] at h ⊢
    have h' := List.pairwise_cons.mp h
    rw [List.find?_cons_of_neg (by simp)]
    cases q with
    | nil => rfl
    | cons l q' =>
      have : n < l.1 := h'.1 l.1 (by simp)
      simp only [List.map_cons, List.head?_cons, Option.map_some]
      rw [List.find?_cons_of_pos (by simpa using this)]
  | cons l done ih =>
    simp only [List.cons_append, List.map_cons] at h ⊢
    have h' := List.pairwise_cons.mp h
    have hk : l.1 < n := h'.1 n (by simp)
    rw [List.find?_cons_of_neg (by simp only [decide_eq_true_eq]; omega)]
    exact ih h'.2

end Abasic.ProgT
