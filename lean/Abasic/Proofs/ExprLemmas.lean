import Abasic.Ref.Expr
/-
  Helper lemmas for C02 (`eval_render`, Abasic/Props/C02More.lean).

  * the monad: `bind_ok` / `bind_err` (rewrite a bind once the first action is known);
  * the cursor: `lineToks σ` (the current line), `mv σ n r` (σ with the cursor `n`
    tokens further and `r` reads), `nest σ k`, the view `At σ pre post`
    (line = pre ++ post, cursor = |pre|), and each cursor primitive of
    Program.lean (`peek`, `tryNext`, `accept`, `expect`, `nextUnwrapped`,
    `peekIsKw`, `lineBudget`) as an equation on such a state; `nested`;
  * spec side: `fixP p e` (what `renderAt p` renders), normal forms of `render`,
    `depth` (parenthesis nesting of the rendering), `lv e = 7 - prec e` (tier index);
  * the tiers: `tier ev k` (`tier ev 0 = unaryExpr ev`, `tier ev 6 = orExpr ev`),
    their operator tables `opsAt k`, the follow condition `Ends j rest`, the
    agreement predicate `Agrees`, `levelLoop_stop`, `lift_level`;
  * the induction: `AStmt` (atoms via `parenExpr`), `PStmt` (every tier at or below
    the strength of `e`), `SStmt` (left spine of a tier with an exact iteration
    budget; the budget read by `lineBudget` is passed through an arbitrary `g`),
    one lemma per constructor, `main_A` (stage A trees) and `main` (all trees).
-/
namespace Abasic.ExprL
open Abasic Abasic.Ref M

variable {F : Type}

/-! ### the monad -/

theorem bind_ok {α β : Type} {m : M F α} {f : α → M F β} {σ σ' : St F} {a : α}
    (h : m σ = .ok a σ') : (m >>= f) σ = f a σ' := by
  simp only [bind, M.bindM, h]

theorem bind_err {α β : Type} {m : M F α} {f : α → M F β} {σ σ' : St F} {e : TErr}
    (h : m σ = .err e σ') : (m >>= f) σ = .err e σ' := by
  simp only [bind, M.bindM, h]

theorem pure_eq {α : Type} (a : α) (σ : St F) : (pure a : M F α) σ = .ok a σ := rfl

/-! ### the cursor -/

/-- the token list of the current line, when it exists -/
def lineToks (σ : St F) : Option (List (Token F)) :=
  match σ.loc.line with
  | none => some σ.imm
  | some n => σ.lines.get n

/-- `σ` with the cursor moved `n` tokens forward and the read counter set to `r` -/
def mv (σ : St F) (n r : Nat) : St F :=
  { σ with loc := { σ.loc with idx := σ.loc.idx + n }, reads := r }

/-- `σ` with the nesting counter set to `k` -/
def nest (σ : St F) (k : Nat) : St F := { σ with nesting := k }

@[simp] theorem mv_reads (σ : St F) (n r : Nat) : (mv σ n r).reads = r := rfl
@[simp] theorem mv_nesting (σ : St F) (n r : Nat) : (mv σ n r).nesting = σ.nesting := rfl
@[simp] theorem mv_stack (σ : St F) (n r : Nat) : (mv σ n r).stack = σ.stack := rfl
@[simp] theorem mv_warnings (σ : St F) (n r : Nat) : (mv σ n r).warnings = σ.warnings := rfl
@[simp] theorem mv_vars (σ : St F) (n r : Nat) : (mv σ n r).vars = σ.vars := rfl
@[simp] theorem mv_idx (σ : St F) (n r : Nat) : (mv σ n r).loc.idx = σ.loc.idx + n := rfl
@[simp] theorem mv_line (σ : St F) (n r : Nat) : (mv σ n r).loc.line = σ.loc.line := rfl
@[simp] theorem lineToks_mv (σ : St F) (n r : Nat) : lineToks (mv σ n r) = lineToks σ := rfl
@[simp] theorem nest_reads (σ : St F) (k : Nat) : (nest σ k).reads = σ.reads := rfl
@[simp] theorem nest_nesting (σ : St F) (k : Nat) : (nest σ k).nesting = k := rfl
@[simp] theorem nest_stack (σ : St F) (k : Nat) : (nest σ k).stack = σ.stack := rfl
@[simp] theorem nest_warnings (σ : St F) (k : Nat) : (nest σ k).warnings = σ.warnings := rfl
@[simp] theorem lineToks_nest (σ : St F) (k : Nat) : lineToks (nest σ k) = lineToks σ := rfl
@[simp] theorem nest_idx (σ : St F) (k : Nat) : (nest σ k).loc.idx = σ.loc.idx := rfl

theorem mv_mv (σ : St F) (a r b r' : Nat) : mv (mv σ a r) b r' = mv σ (a + b) r' := by
  simp only [mv, Nat.add_assoc]

theorem mv_congr (σ : St F) {a b : Nat} (r : Nat) (h : a = b) : mv σ a r = mv σ b r := by
  subst h; rfl

theorem nest_mv (σ : St F) (k n r : Nat) : nest (mv σ n r) k = mv (nest σ k) n r := rfl
theorem nest_nest (σ : St F) (k k' : Nat) : nest (nest σ k) k' = nest σ k' := rfl
theorem nest_self (σ : St F) : nest σ σ.nesting = σ := rfl

/-- the current line is `pre ++ post` and the cursor stands between the two -/
def At (σ : St F) (pre post : List (Token F)) : Prop :=
  lineToks σ = some (pre ++ post) ∧ σ.loc.idx = pre.length

theorem at_mv {σ : St F} {pre a b : List (Token F)} (h : At σ pre (a ++ b)) (r : Nat) :
    At (mv σ a.length r) (pre ++ a) b := by
  obtain ⟨h1, h2⟩ := h
  refine ⟨?_, ?_⟩
  · rw [lineToks_mv, h1, List.append_assoc]
  · rw [mv_idx, h2, List.length_append]

theorem at_mv1 {σ : St F} {pre post : List (Token F)} {t : Token F} (h : At σ pre (t :: post)) (r : Nat) :
    At (mv σ 1 r) (pre ++ [t]) post :=
  at_mv (a := [t]) (b := post) h r

theorem at_mv0 {σ : St F} {pre post : List (Token F)} (h : At σ pre post) (r : Nat) :
    At (mv σ 0 r) pre post := ⟨h.1, h.2⟩

theorem at_nest {σ : St F} {pre post : List (Token F)} (h : At σ pre post) (k : Nat) :
    At (nest σ k) pre post := ⟨h.1, h.2⟩

theorem tokens_eq {σ : St F} {ts : List (Token F)} (h : lineToks σ = some ts) :
    tokens σ = .ok ts σ := by
  unfold lineToks at h
  unfold tokens tokensForLine
  cases hl : σ.loc.line with
  | none => rw [hl] at h; simp only [Option.some.injEq] at h; simp only [h]
  | some n => rw [hl] at h; simp only [h]

theorem lineBudget_eq {σ : St F} {ts : List (Token F)} (h : lineToks σ = some ts) :
    lineBudget σ = .ok (ts.length + 1) σ := by
  unfold lineBudget
  rw [bind_ok (tokens_eq h)]
  rfl

theorem peek_eq {σ : St F} {pre post : List (Token F)} (h : At σ pre post) :
    peek σ = .ok post.head? (mv σ 0 (σ.reads + 1)) := by
  obtain ⟨h1, h2⟩ := h
  have ht : tokens (mv σ 0 (σ.reads + 1)) = .ok (pre ++ post) (mv σ 0 (σ.reads + 1)) :=
    tokens_eq (by rw [lineToks_mv]; exact h1)
  have hm : (M.modify fun s => { s with reads := s.reads + 1 } : M F Unit) σ
      = .ok () (mv σ 0 (σ.reads + 1)) := rfl
  unfold peek
  rw [bind_ok hm, bind_ok ht]
  simp only [bind, M.bindM, M.get, pure, M.pureM, mv_idx, h2, Nat.add_zero]
  congr 1
  rw [List.getElem?_append_right (Nat.le_refl _), Nat.sub_self, List.head?_eq_getElem?]

theorem advance_eq (σ : St F) : advance σ = .ok () (mv σ 1 σ.reads) := rfl

theorem tryNext_some {α : Type} {σ : St F} {pre post : List (Token F)} {t : Token F}
    {f : Token F → Option α} {a : α} (h : At σ pre (t :: post)) (hf : f t = some a) :
    tryNext f σ = .ok (some a) (mv σ 1 (σ.reads + 1)) := by
  unfold tryNext
  rw [bind_ok (peek_eq h)]
  simp only [List.head?_cons, hf]
  rw [bind_ok (advance_eq _), mv_mv]
  rfl

theorem tryNext_none {α : Type} {σ : St F} {pre post : List (Token F)}
    {f : Token F → Option α} (h : At σ pre post) (hf : ∀ t, post.head? = some t → f t = none) :
    tryNext f σ = .ok none (mv σ 0 (σ.reads + 1)) := by
  unfold tryNext
  rw [bind_ok (peek_eq h)]
  cases hp : post.head? with
  | none => rfl
  | some t => simp only [hf t hp]; rfl

theorem accept_true {σ : St F} {pre post : List (Token F)} {t : Token F} {k : Kw}
    (h : At σ pre (t :: post)) (hk : t.isKw k = true) :
    accept k σ = .ok true (mv σ 1 (σ.reads + 1)) := by
  unfold accept
  rw [bind_ok (peek_eq h)]
  simp only [List.head?_cons, hk, if_true]
  rw [bind_ok (advance_eq _), mv_mv]
  rfl

theorem accept_false {σ : St F} {pre post : List (Token F)} {t : Token F} {k : Kw}
    (h : At σ pre (t :: post)) (hk : t.isKw k = false) :
    accept k σ = .ok false (mv σ 0 (σ.reads + 1)) := by
  unfold accept
  rw [bind_ok (peek_eq h)]
  simp only [List.head?_cons, hk]
  rfl

theorem next_eq {σ : St F} {pre post : List (Token F)} {t : Token F}
    (h : At σ pre (t :: post)) :
    next σ = .ok (some t) (mv σ 1 (σ.reads + 1)) := by
  unfold next
  rw [bind_ok (peek_eq h)]
  simp only [List.head?_cons, Option.isSome_some, ↓reduceIte]
  rw [bind_ok (advance_eq _), mv_mv]
  rfl

theorem nextUnwrapped_eq {σ : St F} {pre post : List (Token F)} {t : Token F}
    (h : At σ pre (t :: post)) :
    nextUnwrapped σ = .ok t (mv σ 1 (σ.reads + 1)) := by
  unfold nextUnwrapped
  rw [bind_ok (next_eq h)]
  rfl

theorem expect_eq {σ : St F} {pre post : List (Token F)} {t : Token F} {k : Kw}
    (h : At σ pre (t :: post)) (hk : t.isKw k = true) :
    expect k σ = .ok () (mv σ 1 (σ.reads + 1)) := by
  unfold expect
  rw [bind_ok (nextUnwrapped_eq h)]
  simp only [hk, if_true]
  rfl

theorem peekIsKw_cons {σ : St F} {pre post : List (Token F)} {t : Token F} (k : Kw)
    (h : At σ pre (t :: post)) :
    peekIsKw k σ = .ok (t.isKw k) (mv σ 0 (σ.reads + 1)) := by
  unfold peekIsKw
  rw [bind_ok (peek_eq h)]
  rfl

theorem peekIsKw_false {σ : St F} {pre post : List (Token F)} (k : Kw)
    (h : At σ pre post) (hk : ∀ t, post.head? = some t → t.isKw k = false) :
    peekIsKw k σ = .ok false (mv σ 0 (σ.reads + 1)) := by
  unfold peekIsKw
  rw [bind_ok (peek_eq h)]
  cases hp : post.head? with
  | none => rfl
  | some t => simp only [pure_eq, hk t hp]

/-! ### the nesting counter -/

theorem nested_ok {α : Type} {m : M F α} {σ σ' : St F} {a : α}
    (hn : σ.nesting < Extracted.nestingLimit)
    (h : m (nest σ (σ.nesting + 1)) = .ok a σ') (hσ' : σ'.nesting = σ.nesting + 1) :
    nested m σ = .ok a (nest σ' σ.nesting) := by
  have hne : (σ.nesting == Extracted.nestingLimit) = false := by
    simp only [beq_eq_false_iff_ne, ne_eq]; omega
  have he : (enterNested : M F Unit) σ = .ok () (nest σ (σ.nesting + 1)) := by
    simp only [enterNested, bind, M.bindM, M.get, hne]; rfl
  have ha : (attempt m) (nest σ (σ.nesting + 1)) = .ok (.ok a) σ' := by
    simp only [attempt, h]
  have hx : (exitNested : M F Unit) σ' = .ok () (nest σ' σ.nesting) := by
    simp only [exitNested, bind, M.bindM, M.get, hσ']; rfl
  unfold nested
  rw [bind_ok he, bind_ok ha, bind_ok hx]
  rfl

theorem nested_err {α : Type} {m : M F α} {σ σ' : St F} {e : TErr}
    (hn : σ.nesting < Extracted.nestingLimit)
    (h : m (nest σ (σ.nesting + 1)) = .err e σ') (hσ' : σ'.nesting = σ.nesting + 1) :
    nested m σ = .err e (nest σ' σ.nesting) := by
  have hne : (σ.nesting == Extracted.nestingLimit) = false := by
    simp only [beq_eq_false_iff_ne, ne_eq]; omega
  have he : (enterNested : M F Unit) σ = .ok () (nest σ (σ.nesting + 1)) := by
    simp only [enterNested, bind, M.bindM, M.get, hne]; rfl
  have ha : (attempt (α := α) m) (nest σ (σ.nesting + 1)) = .ok (.error e) σ' := by
    simp only [attempt, h]
  have hx : (exitNested : M F Unit) σ' = .ok () (nest σ' σ.nesting) := by
    simp only [exitNested, bind, M.bindM, M.get, hσ']; rfl
  unfold nested
  rw [bind_ok he, bind_ok ha, bind_ok hx]
  rfl

/-! ### spec side: normal forms of `render` -/

/-- what `renderAt p` renders: `e`, parenthesised when it binds less tightly than `p` -/
def fixP (p : Nat) (e : Expr F) : Expr F := if e.prec < p then .paren e else e

theorem render_paren (e : Expr F) :
    render (.paren e) = .kw .LeftParen :: (render e ++ [.kw .RightParen]) := by
  rw [render.eq_6]; rfl

theorem renderAt_eq (p : Nat) (e : Expr F) : renderAt p e = render (fixP p e) := by
  rw [renderAt.eq_1]; unfold fixP
  split
  · rw [render_paren]; rfl
  · rfl

theorem render_bin (op : BinOp) (l r : Expr F) :
    render (.bin op l r) =
      render (fixP (BinOp.prec op) l) ++ .kw (BinOp.token op) :: render (fixP (BinOp.prec op + 1) r) := by
  rw [render.eq_5, renderAt_eq, renderAt_eq]

theorem render_un (op : UnOp) (e : Expr F) :
    render (.un op e) = .kw (UnOp.token op) :: render (fixP 8 e) := by
  rw [render.eq_4, renderAt_eq]

theorem render_abs (e : Expr F) :
    render (.abs e) = .symbol Extracted.builtinAbs.toList :: .kw .LeftParen :: (render e ++ [.kw .RightParen]) := by
  rw [render.eq_7]; rfl

theorem render_int (e : Expr F) :
    render (.int e) = .symbol Extracted.builtinInt.toList :: .kw .LeftParen :: (render e ++ [.kw .RightParen]) := by
  rw [render.eq_8]; rfl

/-- parenthesis nesting of `render e` (explicit parentheses, the ones `renderAt`
    inserts, and those of ABS( ) / INT( )) -/
def depth : Expr F → Nat
  | .num _ => 0
  | .str _ => 0
  | .var _ => 0
  | .paren e => depth e + 1
  | .abs e => depth e + 1
  | .int e => depth e + 1
  | .un _ e => if e.prec < 8 then depth e + 1 else depth e
  | .bin op l r =>
    max (if l.prec < BinOp.prec op then depth l + 1 else depth l)
        (if r.prec < BinOp.prec op + 1 then depth r + 1 else depth r)

theorem depth_fixP (p : Nat) (e : Expr F) :
    depth (fixP p e) = if e.prec < p then depth e + 1 else depth e := by
  unfold fixP; split <;> simp [depth]

theorem depth_bin (op : BinOp) (l r : Expr F) :
    depth (.bin op l r) = max (depth (fixP (BinOp.prec op) l)) (depth (fixP (BinOp.prec op + 1) r)) := by
  rw [depth_fixP, depth_fixP]; rfl

theorem depth_un (op : UnOp) (e : Expr F) : depth (.un op e) = depth (fixP 8 e) := by
  rw [depth_fixP]; rfl

theorem prec_op_bounds (op : BinOp) : 1 ≤ BinOp.prec op ∧ BinOp.prec op ≤ 6 := by
  cases op <;> simp [BinOp.prec]

theorem prec_bounds (e : Expr F) : 1 ≤ e.prec ∧ e.prec ≤ 8 := by
  cases e <;> simp [Expr.prec]
  exact ⟨(prec_op_bounds _).1, by have := (prec_op_bounds ‹_›).2; omega⟩

/-- tier index of an expression: 0 for atoms and unary operators, `k+1` for a
    binary operator handled by the `k`-th tier above `unaryExpr` -/
def lv (e : Expr F) : Nat := 7 - e.prec

theorem prec_fixP (p : Nat) (e : Expr F) (hp : p ≤ 8) : p ≤ (fixP p e).prec := by
  unfold fixP; split
  · simp [Expr.prec]; exact hp
  · omega

variable [NumOps F]
theorem foldE_fixP (env : Str → Value F) (p : Nat) (e : Expr F) :
    foldE env (fixP p e) = foldE env e := by
  unfold fixP; split
  · rfl
  · rfl


/-! ### the tiers of `orExpr` -/

/-- operator table of the `k`-th tier above `unaryExpr` -/
def opsAt : Nat → Token F → Option BinOp
  | 0 => powOps
  | 1 => mulOps
  | 2 => addOps
  | 3 => cmpOps
  | 4 => andOps
  | 5 => orOps
  | _ => fun _ => none

/-- `tier ev 0 = unaryExpr ev`, …, `tier ev 6 = orExpr ev` -/
def tier (ev : Evals F) : Nat → M F (Value F)
  | 0 => unaryExpr ev
  | k + 1 => level (tier ev k) (opsAt k)

theorem tier_six (ev : Evals F) : tier ev 6 = orExpr ev := rfl

omit [NumOps F] in
theorem opsAt_token (op : BinOp) (i : Nat) :
    opsAt (F := F) i (.kw (BinOp.token op)) = if i = 6 - BinOp.prec op then some op else none := by
  have h7 : ∀ j, opsAt (F := F) (j + 6) (.kw (BinOp.token op)) = none := fun j => rfl
  rcases i with _ | _ | _ | _ | _ | _ | j
  all_goals first
    | exact (by rw [h7 j, if_neg]; have := prec_op_bounds op; omega)
    | (cases op with
       | cmp c => cases c <;> simp [opsAt, orOps, andOps, cmpOps, addOps, mulOps, powOps, BinOp.token, BinOp.prec, CmpOp.ofToken]
       | _ => simp [opsAt, orOps, andOps, cmpOps, addOps, mulOps, powOps, BinOp.token, BinOp.prec, CmpOp.ofToken])

omit [NumOps F] in
theorem token_not_lparen (op : BinOp) : (Token.kw (F := F) (BinOp.token op)).isKw .LeftParen = false := by
  cases op with
  | cmp c => cases c <;> rfl
  | _ => rfl

omit [NumOps F] in
theorem opsAt_rparen (i : Nat) : opsAt (F := F) i (.kw .RightParen) = none := by
  rcases i with _ | _ | _ | _ | _ | _ | j <;> rfl

/-- what may follow an expression parsed by tier `j`: not `(`, and no operator of
    the tiers `1 … j` -/
def Ends (j : Nat) (rest : List (Token F)) : Prop :=
  ∀ t, rest.head? = some t → t.isKw .LeftParen = false ∧ ∀ i, i < j → opsAt i t = none

omit [NumOps F] in
theorem Ends.mono {i j : Nat} {rest : List (Token F)} (h : Ends j rest) (hij : i ≤ j) : Ends i rest :=
  fun t ht => ⟨(h t ht).1, fun i' hi' => (h t ht).2 i' (by omega)⟩

omit [NumOps F] in
theorem ends_rparen (j : Nat) (rest : List (Token F)) : Ends j (.kw .RightParen :: rest) := by
  intro t ht
  simp only [List.head?_cons, Option.some.injEq] at ht
  subst ht
  exact ⟨rfl, fun i _ => opsAt_rparen i⟩

omit [NumOps F] in
theorem ends_op (op : BinOp) (rest : List (Token F)) :
    Ends (6 - BinOp.prec op) (.kw (BinOp.token op) :: rest) := by
  intro t ht
  simp only [List.head?_cons, Option.some.injEq] at ht
  subst ht
  refine ⟨token_not_lparen op, fun i hi => ?_⟩
  rw [opsAt_token, if_neg]; omega

/-- agreement of a run with the spec's result: on a value, the run is the
    continuation `k` applied to it and to some larger read counter; on an error,
    the run fails with that error and leaves the nesting counter alone. -/
def Agrees {α : Type} (res : Res F α) (ev : Except Err (Value F)) (σ : St F)
    (k : Value F → Nat → Res F α) : Prop :=
  match ev with
  | .ok v => ∃ r, σ.reads < r ∧ res = k v r
  | .error x => ∃ σ', res = .err { err := x } σ' ∧ σ'.nesting = σ.nesting

theorem levelLoop_stop {sub : M F (Value F)} {k n : Nat} {v : Value F} {σ : St F}
    {pre rest : List (Token F)} (h : At σ pre rest) (hE : Ends (k + 1) rest) :
    levelLoop sub (opsAt k) (n + 1) v σ = .ok v (mv σ 0 (σ.reads + 1)) := by
  unfold levelLoop
  rw [bind_ok (tryNext_none h (fun t ht => (hE t ht).2 k (Nat.lt_succ_self k)))]
  rfl

/-- lifting a result of tier `i` to a looser tier `j ≥ i` when no operator of the tiers in between follows -/
theorem lift_level (ev : Evals F) (res : Except Err (Value F)) (σ : St F) (len : Nat)
    (pre' rest : List (Token F)) (i j : Nat) (hij : i ≤ j) (hE : Ends j rest)
    (hAt : ∀ r, At (mv σ len r) pre' rest)
    (h : Agrees (tier ev i σ) res σ (fun v r => .ok v (mv σ len r))) :
    Agrees (tier ev j σ) res σ (fun v r => .ok v (mv σ len r)) := by
  induction j with
  | zero =>
    have : i = 0 := by omega
    subst this; exact h
  | succ j ih =>
    by_cases hi : i = j + 1
    · subst hi; exact h
    · have ih' := ih (by omega) (hE.mono (Nat.le_succ j))
      cases res with
      | error x =>
        obtain ⟨σ', hσ', hn⟩ := ih'
        exact ⟨σ', by simp only [tier, level]; rw [bind_err hσ'], hn⟩
      | ok v =>
        obtain ⟨r, hr, hσ'⟩ := ih'
        refine ⟨r + 1, by omega, ?_⟩
        simp only [tier, level]
        rw [bind_ok hσ', bind_ok (lineBudget_eq (hAt r).1), levelLoop_stop (hAt r) hE, mv_mv]
        rfl


/-! ### the statements proved by induction on the tree -/

theorem getVar_mv (σ : St F) (n r : Nat) : getVar (mv σ n r) = getVar σ := rfl
theorem getVar_nest (σ : St F) (k : Nat) : getVar (nest σ k) = getVar σ := rfl

/-- the part of the state that variable look-up consults besides `vars` -/
def Quiet (σ : St F) : Prop := σ.stack = [] ∧ σ.warnings = false

omit [NumOps F] in
theorem Quiet.mv {σ : St F} (h : Quiet σ) (n r : Nat) : Quiet (ExprL.mv σ n r) := h
omit [NumOps F] in
theorem Quiet.nest {σ : St F} (h : Quiet σ) (k : Nat) : Quiet (ExprL.nest σ k) := h

/-- number of operators of tier `k` on the left spine of `e` -/
def spine (k : Nat) : Expr F → Nat
  | .bin op l _ => if 6 - BinOp.prec op = k then spine k l + 1 else 0
  | _ => 0

/-- atoms, parsed by `parenExpr` -/
def AStmt (e : Expr F) : Prop :=
  ∀ (f : Nat) (σ : St F) (pre rest : List (Token F)),
    depth e ≤ f → σ.nesting + depth e ≤ Extracted.nestingLimit → e.prec = 8 →
    Ends 0 rest → At σ pre (render e ++ rest) → Quiet σ →
    Agrees (parenExpr (evalN f) σ) (foldE (getVar σ) e) σ
      (fun v r => .ok v (mv σ (render e).length r))

/-- any tier at or below the strength of `e` parses `render e` -/
def PStmt (e : Expr F) : Prop :=
  ∀ (f j : Nat) (σ : St F) (pre rest : List (Token F)),
    depth e ≤ f → σ.nesting + depth e ≤ Extracted.nestingLimit → lv e ≤ j → j ≤ 6 →
    Ends j rest → At σ pre (render e ++ rest) → Quiet σ →
    Agrees (tier (evalN f) j σ) (foldE (getVar σ) e) σ
      (fun v r => .ok v (mv σ (render e).length r))

/-- spine statement: the loop of tier `k+1`, started with `spine k e` iterations
    more than `n`, is after `render e` the loop with `n` iterations left -/
def SStmt (e : Expr F) : Prop :=
  ∀ (f k n : Nat) (g : Nat → Nat) (σ : St F) (pre rest : List (Token F)),
    depth e ≤ f → σ.nesting + depth e ≤ Extracted.nestingLimit → lv e ≤ k + 1 → k < 6 →
    Ends k rest → At σ pre (render e ++ rest) → Quiet σ →
    g ((pre ++ (render e ++ rest)).length + 1) = n + spine k e →
    Agrees ((tier (evalN f) k >>= fun v => lineBudget >>= fun b =>
              levelLoop (tier (evalN f) k) (opsAt k) (g b) v) σ)
      (foldE (getVar σ) e) σ
      (fun v r => levelLoop (tier (evalN f) k) (opsAt k) n v (mv σ (render e).length r))

/-- the recursive entry `ev.expr`, one nesting level and one unit of fuel deeper -/
theorem expr_eq (x : Expr F) (hx : PStmt x) (f : Nat) (σ : St F) (pre rest : List (Token F))
    (hd : depth x + 1 ≤ f) (hn : σ.nesting + (depth x + 1) ≤ Extracted.nestingLimit)
    (hE : Ends 6 rest) (hAt : At σ pre (render x ++ rest)) (hq : Quiet σ) :
    Agrees ((evalN f).expr σ) (foldE (getVar σ) x) σ
      (fun v r => .ok v (mv σ (render x).length r)) := by
  obtain ⟨f', rfl⟩ : ∃ f', f = f' + 1 := ⟨f - 1, by omega⟩
  have hP : Agrees (tier (evalN f') 6 (nest σ (σ.nesting + 1))) (foldE (getVar σ) x)
      (nest σ (σ.nesting + 1)) (fun v r => .ok v (mv (nest σ (σ.nesting + 1)) (render x).length r)) :=
    hx f' 6 (nest σ (σ.nesting + 1)) pre rest (by omega) (by simp only [nest_nesting]; omega)
      (by have := prec_bounds x; unfold lv; omega) (Nat.le_refl _) hE (at_nest hAt _) (hq.nest _)
  show Agrees (nested (tier (evalN f') 6) σ) _ _ _
  cases hev : foldE (getVar σ) x with
  | error e =>
    rw [hev] at hP
    obtain ⟨σ', hσ', hn'⟩ := hP
    exact ⟨nest σ' σ.nesting, nested_err (by omega) hσ' hn', rfl⟩
  | ok v =>
    rw [hev] at hP
    obtain ⟨r, hr, hσ'⟩ := hP
    exact ⟨r, hr, nested_ok (by omega) hσ' rfl⟩


/-! ### atoms -/

omit [NumOps F] in
theorem render_num (x : F) : render (.num x : Expr F) = [.num x] := render.eq_1 x
omit [NumOps F] in
theorem render_str (s : Str) : render (.str s : Expr F) = [.str s] := render.eq_2 s
omit [NumOps F] in
theorem render_var (n : Str) : render (.var n : Expr F) = [.symbol n] := render.eq_3 n

theorem A_num (x : F) : AStmt (.num x : Expr F) := by
  intro f σ pre rest _ _ _ _ hAt _
  rw [render_num] at hAt ⊢
  have hAt : At σ pre (.num x :: rest) := hAt
  refine ⟨σ.reads + 1 + 1, by omega, ?_⟩
  unfold parenExpr
  rw [bind_ok (accept_false hAt rfl)]
  simp only [Bool.false_eq_true, ↓reduceIte]
  unfold term
  rw [bind_ok (nextUnwrapped_eq (at_mv0 hAt _)), mv_mv]
  rfl

theorem A_str (s : Str) : AStmt (.str s : Expr F) := by
  intro f σ pre rest _ _ _ _ hAt _
  rw [render_str] at hAt ⊢
  have hAt : At σ pre (.str s :: rest) := hAt
  refine ⟨σ.reads + 1 + 1, by omega, ?_⟩
  unfold parenExpr
  rw [bind_ok (accept_false hAt rfl)]
  simp only [Bool.false_eq_true, ↓reduceIte]
  unfold term
  rw [bind_ok (nextUnwrapped_eq (at_mv0 hAt _)), mv_mv]
  rfl

theorem A_var (n : Str) : AStmt (.var n : Expr F) := by
  intro f σ pre rest _ _ _ hE hAt hq
  rw [render_var] at hAt ⊢
  have hAt : At σ pre (.symbol n :: rest) := hAt
  refine ⟨σ.reads + 1 + 1 + 1, by omega, ?_⟩
  unfold parenExpr
  rw [bind_ok (accept_false hAt rfl)]
  simp only [Bool.false_eq_true, ↓reduceIte]
  unfold term
  rw [bind_ok (nextUnwrapped_eq (at_mv0 hAt _)), mv_mv]
  simp only [mv_reads, Nat.zero_add]
  have hAt2 := at_mv1 hAt (σ.reads + 1 + 1)
  rw [bind_ok (peekIsKw_false .LeftParen hAt2 (fun t ht => (hE t ht).1)), mv_mv]
  simp only [Bool.false_eq_true, ↓reduceIte, bind, M.bindM, M.get, mv_stack, mv_warnings, hq.1, hq.2,
    findInStack, Bool.false_and, pure, M.pureM, mv_reads]
  rfl


theorem A_paren (x : Expr F) (hx : PStmt x) : AStmt (.paren x) := by
  intro f σ pre rest hd hn _ _ hAt hq
  rw [render_paren] at hAt ⊢
  have hAt : At σ pre (.kw .LeftParen :: (render x ++ (.kw .RightParen :: rest))) := by
    simpa only [List.cons_append, List.append_assoc, List.nil_append] using hAt
  have hd' : depth x + 1 ≤ f := hd
  have hn' : σ.nesting + (depth x + 1) ≤ Extracted.nestingLimit := hn
  have hAt1 := at_mv1 hAt (σ.reads + 1)
  have hX := expr_eq x hx f (mv σ 1 (σ.reads + 1)) _ _ hd' hn' (ends_rparen 6 rest) hAt1 (hq.mv _ _)
  rw [getVar_mv] at hX
  unfold parenExpr
  rw [bind_ok (accept_true hAt rfl)]
  simp only [↓reduceIte]
  show Agrees _ (foldE (getVar σ) x) _ _
  cases hev : foldE (getVar σ) x with
  | error e =>
    rw [hev] at hX
    obtain ⟨σ', hσ', hn''⟩ := hX
    exact ⟨σ', bind_err hσ', hn''⟩
  | ok v =>
    rw [hev] at hX
    obtain ⟨r, hr, hσ'⟩ := hX
    simp only [mv_reads, mv_mv] at hr hσ'
    refine ⟨r + 1, by omega, ?_⟩
    rw [bind_ok hσ']
    have hAt2 : At (mv σ (1 + (render x).length) r) ((pre ++ [.kw .LeftParen]) ++ render x)
        (.kw .RightParen :: rest) := by
      have := at_mv hAt1 r
      rwa [mv_mv] at this
    rw [bind_ok (expect_eq hAt2 rfl), mv_mv]
    simp only [mv_reads, pure_eq]
    congr 1
    apply mv_congr
    simp only [List.length_cons, List.length_append, List.length_nil]
    omega

omit [NumOps F] in
/-- an atom does not begin with a unary operator -/
theorem atom_head (e : Expr F) (h : e.prec = 8) :
    ∃ t ts, render e = t :: ts ∧ UnOp.ofToken t = none := by
  cases e with
  | num x => exact ⟨_, _, render_num x, rfl⟩
  | str s => exact ⟨_, _, render_str s, rfl⟩
  | var n => exact ⟨_, _, render_var n, rfl⟩
  | paren x => exact ⟨_, _, render_paren x, rfl⟩
  | abs x => exact ⟨_, _, render_abs x, rfl⟩
  | int x => exact ⟨_, _, render_int x, rfl⟩
  | un op x => simp [Expr.prec] at h
  | bin op l r => have := prec_op_bounds op; simp only [Expr.prec] at h; omega

/-- an atom at any tier -/
theorem P_atom (e : Expr F) (ha : AStmt e) (he : e.prec = 8) : PStmt e := by
  intro f j σ pre rest hd hn _ _ hE hAt hq
  obtain ⟨t, ts, hts, hun⟩ := atom_head e he
  have hAt0 : At σ pre (t :: (ts ++ rest)) := by rw [hts] at hAt; exact hAt
  have hA := ha f (mv σ 0 (σ.reads + 1)) pre rest hd hn he (hE.mono (Nat.zero_le _)) (at_mv0 hAt _) (hq.mv _ _)
  rw [getVar_mv] at hA
  have h0 : Agrees (tier (evalN f) 0 σ) (foldE (getVar σ) e) σ
      (fun v r => .ok v (mv σ (render e).length r)) := by
    show Agrees (unaryExpr (evalN f) σ) _ _ _
    unfold unaryExpr
    rw [bind_ok (tryNext_none hAt0 (fun t' ht' => by
      simp only [List.head?_cons, Option.some.injEq] at ht'; subst ht'; exact hun))]
    cases hev : foldE (getVar σ) e with
    | error x =>
      rw [hev] at hA
      obtain ⟨σ', hσ', hn'⟩ := hA
      exact ⟨σ', bind_err hσ', hn'⟩
    | ok v =>
      rw [hev] at hA
      obtain ⟨r, hr, hσ'⟩ := hA
      simp only [mv_reads, mv_mv, Nat.zero_add] at hr hσ'
      exact ⟨r, by omega, by rw [bind_ok hσ']; rfl⟩
  exact lift_level _ _ _ _ (pre ++ render e) rest 0 j (Nat.zero_le _) hE (fun r => at_mv hAt r) h0

omit [NumOps F] in
theorem spine_zero {k : Nat} {e : Expr F} (h : lv e ≤ k) : spine k e = 0 := by
  cases e with
  | bin op l r =>
    have := prec_op_bounds op
    simp only [lv, Expr.prec] at h
    simp only [spine]
    rw [if_neg]; omega
  | _ => rfl

/-- the spine statement from the tier statement when `e` has no operator of tier `k+1` on top -/
theorem S_of_P (e : Expr F) (hP : PStmt e) (f k n : Nat) (g : Nat → Nat) (σ : St F)
    (pre rest : List (Token F))
    (hd : depth e ≤ f) (hn : σ.nesting + depth e ≤ Extracted.nestingLimit) (hlv : lv e ≤ k) (hk : k < 6)
    (hE : Ends k rest) (hAt : At σ pre (render e ++ rest)) (hq : Quiet σ)
    (hg : g ((pre ++ (render e ++ rest)).length + 1) = n + spine k e) :
    Agrees ((tier (evalN f) k >>= fun v => lineBudget >>= fun b =>
              levelLoop (tier (evalN f) k) (opsAt k) (g b) v) σ)
      (foldE (getVar σ) e) σ
      (fun v r => levelLoop (tier (evalN f) k) (opsAt k) n v (mv σ (render e).length r)) := by
  have h := hP f k σ pre rest hd hn hlv (Nat.le_of_lt hk) hE hAt hq
  rw [spine_zero hlv, Nat.add_zero] at hg
  cases hev : foldE (getVar σ) e with
  | error x =>
    rw [hev] at h
    obtain ⟨σ', hσ', hn'⟩ := h
    exact ⟨σ', bind_err hσ', hn'⟩
  | ok v =>
    rw [hev] at h
    obtain ⟨r, hr, hσ'⟩ := h
    refine ⟨r, hr, ?_⟩
    rw [bind_ok hσ', bind_ok (lineBudget_eq (σ := mv σ (render e).length r) hAt.1), hg]
    rfl


/-! ### binary operators -/

theorem P_paren (x : Expr F) (hx : PStmt x) : PStmt (.paren x) := P_atom _ (A_paren x hx) rfl

theorem P_fixP (p : Nat) (x : Expr F) (hx : PStmt x) : PStmt (fixP p x) := by
  unfold fixP; split
  · exact P_paren x hx
  · exact hx

theorem S_paren (x : Expr F) (hx : PStmt x) : SStmt (.paren x) := by
  intro f k n g σ pre rest hd hn _ hk hE hAt hq hg
  exact S_of_P _ (P_paren x hx) f k n g σ pre rest hd hn (Nat.zero_le _) hk hE hAt hq hg

theorem S_fixP (p : Nat) (x : Expr F) (hP : PStmt x) (hS : SStmt x) : SStmt (fixP p x) := by
  unfold fixP; split
  · exact S_paren x hP
  · exact hS

omit [NumOps F] in
theorem lv_fixP_left (op : BinOp) (l : Expr F) : lv (fixP (BinOp.prec op) l) ≤ 6 - BinOp.prec op + 1 := by
  have := prec_op_bounds op
  have := prec_fixP (BinOp.prec op) l (by omega)
  unfold lv; omega

omit [NumOps F] in
theorem lv_fixP_right (op : BinOp) (r : Expr F) : lv (fixP (BinOp.prec op + 1) r) ≤ 6 - BinOp.prec op := by
  have := prec_op_bounds op
  have := prec_fixP (BinOp.prec op + 1) r (by omega)
  unfold lv; omega

omit [NumOps F] in
theorem spine_fixP (op : BinOp) (l : Expr F) :
    spine (6 - BinOp.prec op) (fixP (BinOp.prec op) l) = spine (6 - BinOp.prec op) l := by
  unfold fixP; split
  · rename_i h
    have := prec_op_bounds op
    cases l with
    | bin op' a b =>
      have := prec_op_bounds op'
      simp only [Expr.prec] at h
      simp only [spine]
      rw [if_neg]; omega
    | _ => rfl
  · rfl

omit [NumOps F] in
theorem render_length_fixP (p : Nat) (e : Expr F) : (render e).length ≤ (render (fixP p e)).length := by
  unfold fixP; split
  · rw [render_paren]; simp only [List.length_cons, List.length_append]; omega
  · exact Nat.le_refl _

omit [NumOps F] in
theorem spine_le (k : Nat) (e : Expr F) : spine k e ≤ (render e).length := by
  induction e with
  | bin op l r ihl _ =>
    simp only [spine]
    split
    · rw [render_bin]
      have := render_length_fixP (BinOp.prec op) l
      simp only [List.length_append, List.length_cons]; omega
    · omega
  | _ => simp only [spine]; omega

/-- the spine case: `bin op l r` read by the loop of the tier of `op` -/
theorem S_bin_same (op : BinOp) (l r : Expr F) (hPl : PStmt l) (hSl : SStmt l) (hPr : PStmt r)
    (f n : Nat) (g : Nat → Nat) (σ : St F) (pre rest : List (Token F))
    (hd : depth (.bin op l r) ≤ f) (hn : σ.nesting + depth (.bin op l r) ≤ Extracted.nestingLimit)
    (hE : Ends (6 - BinOp.prec op) rest) (hAt : At σ pre (render (.bin op l r) ++ rest)) (hq : Quiet σ)
    (hg : g ((pre ++ (render (.bin op l r) ++ rest)).length + 1) = n + spine (6 - BinOp.prec op) (.bin op l r)) :
    Agrees ((tier (evalN f) (6 - BinOp.prec op) >>= fun v => lineBudget >>= fun b =>
              levelLoop (tier (evalN f) (6 - BinOp.prec op)) (opsAt (6 - BinOp.prec op)) (g b) v) σ)
      (foldE (getVar σ) (.bin op l r)) σ
      (fun v r' => levelLoop (tier (evalN f) (6 - BinOp.prec op)) (opsAt (6 - BinOp.prec op)) n v
        (mv σ (render (.bin op l r)).length r')) := by
  have hb := prec_op_bounds op
  generalize hk : 6 - BinOp.prec op = k at *
  have hk6 : k < 6 := by omega
  rw [depth_bin] at hd hn
  have hdl : depth (fixP (BinOp.prec op) l) ≤ f := Nat.le_trans (Nat.le_max_left _ _) hd
  have hdr : depth (fixP (BinOp.prec op + 1) r) ≤ f := Nat.le_trans (Nat.le_max_right _ _) hd
  have hnl : σ.nesting + depth (fixP (BinOp.prec op) l) ≤ Extracted.nestingLimit :=
    Nat.le_trans (Nat.add_le_add_left (Nat.le_max_left _ _) _) hn
  have hnr : σ.nesting + depth (fixP (BinOp.prec op + 1) r) ≤ Extracted.nestingLimit :=
    Nat.le_trans (Nat.add_le_add_left (Nat.le_max_right _ _) _) hn
  rw [render_bin] at hAt hg ⊢
  generalize hL : fixP (BinOp.prec op) l = L at *
  generalize hR : fixP (BinOp.prec op + 1) r = R at *
  have hAtL : At σ pre (render L ++ (.kw (BinOp.token op) :: (render R ++ rest))) := by
    simpa only [List.append_assoc, List.cons_append] using hAt
  have hEL : Ends k (.kw (BinOp.token op) :: (render R ++ rest)) := hk ▸ ends_op op _
  have hlvL : lv L ≤ k + 1 := by rw [← hL, ← hk]; exact lv_fixP_left op l
  have hlvR : lv R ≤ k := by rw [← hR, ← hk]; exact lv_fixP_right op r
  have hspL : spine k L = spine k l := by rw [← hL, ← hk]; exact spine_fixP op l
  have hsp : spine k (.bin op l r) = spine k l + 1 := by simp only [spine, hk, if_true]
  have hSL : SStmt L := hL ▸ S_fixP _ l hPl hSl
  have hPR : PStmt R := hR ▸ P_fixP _ r hPr
  have hfL : foldE (getVar σ) L = foldE (getVar σ) l := by rw [← hL]; exact foldE_fixP _ _ _
  have hfR : foldE (getVar σ) R = foldE (getVar σ) r := by rw [← hR]; exact foldE_fixP _ _ _
  -- the left operand, with one more iteration in hand
  have hLres := hSL f k (n + 1) g σ pre _ hdl hnl hlvL hk6 hEL hAtL hq
    (by rw [hspL]
        have : pre ++ (render L ++ Token.kw (BinOp.token op) :: (render R ++ rest))
            = pre ++ (render L ++ Token.kw (BinOp.token op) :: render R ++ rest) := by
          simp only [List.append_assoc, List.cons_append]
        rw [this, hg, hsp]; omega)
  rw [hfL] at hLres
  cases hel : foldE (getVar σ) l with
  | error x =>
    rw [hel] at hLres
    obtain ⟨σ', hσ', hn'⟩ := hLres
    simp only [foldE, hel]
    exact ⟨σ', hσ', hn'⟩
  | ok a =>
    rw [hel] at hLres
    obtain ⟨r1, hr1, hσ1⟩ := hLres
    simp only at hσ1
    -- one iteration of the loop
    have hAt1 : At (mv σ (render L).length r1) (pre ++ render L)
        (.kw (BinOp.token op) :: (render R ++ rest)) := at_mv hAtL r1
    have hop : opsAt (F := F) k (.kw (BinOp.token op)) = some op := by
      rw [opsAt_token, if_pos hk.symm]
    have hAt2 := at_mv1 hAt1 (r1 + 1)
    rw [mv_mv] at hAt2
    have hRres := hPR f k (mv σ ((render L).length + 1) (r1 + 1)) _ rest hdr hnr hlvR
      (Nat.le_of_lt hk6) hE hAt2 (hq.mv _ _)
    rw [getVar_mv, hfR] at hRres
    have hstep : ∀ (res : Res F (Value F)),
        (do let r' ← tier (evalN f) k
            let v' ← liftE (op.eval a r')
            levelLoop (tier (evalN f) k) (opsAt k) n v') (mv σ ((render L).length + 1) (r1 + 1)) = res →
        levelLoop (tier (evalN f) k) (opsAt k) (n + 1) a (mv σ (render L).length r1) = res := by
      intro res hres
      rw [← hres]
      conv => lhs; unfold levelLoop
      rw [bind_ok (tryNext_some hAt1 hop), mv_mv]
      rfl
    cases her : foldE (getVar σ) r with
    | error x =>
      rw [her] at hRres
      obtain ⟨σ', hσ', hn'⟩ := hRres
      simp only [foldE, hel, her]
      exact ⟨σ', by rw [hσ1]; exact hstep _ (bind_err hσ'), hn'⟩
    | ok b =>
      rw [her] at hRres
      obtain ⟨r2, hr2, hσ2⟩ := hRres
      simp only [mv_reads, mv_mv] at hr2 hσ2
      simp only [foldE, hel, her]
      cases hev : op.eval a b with
      | error x =>
        refine ⟨mv σ ((render L).length + 1 + (render R).length) r2, ?_, rfl⟩
        rw [hσ1]
        apply hstep
        rw [bind_ok hσ2, hev]
        rfl
      | ok c =>
        refine ⟨r2, by omega, ?_⟩
        rw [hσ1]
        apply hstep
        rw [bind_ok hσ2, hev]
        show levelLoop _ _ n c _ = levelLoop _ _ n c _
        congr 1
        apply mv_congr
        simp only [List.length_append, List.length_cons]
        omega


/-- the tier statement of a binary node from its spine statement -/
theorem P_bin (op : BinOp) (l r : Expr F) (hPl : PStmt l) (hSl : SStmt l) (hPr : PStmt r) :
    PStmt (.bin op l r) := by
  intro f j σ pre rest hd hn hlv hj hE hAt hq
  have hb := prec_op_bounds op
  have hkj : 6 - BinOp.prec op + 1 ≤ j := by simp only [lv, Expr.prec] at hlv; omega
  -- budget bookkeeping
  have hsp := spine_le (6 - BinOp.prec op) (.bin op l r)
  have hlen : (render (.bin op l r)).length ≤ (pre ++ (render (.bin op l r) ++ rest)).length := by
    simp only [List.length_append]; omega
  obtain ⟨n, hn'⟩ : ∃ n, (pre ++ (render (.bin op l r) ++ rest)).length + 1
      = (n + 1) + spine (6 - BinOp.prec op) (.bin op l r) :=
    ⟨(pre ++ (render (.bin op l r) ++ rest)).length - spine (6 - BinOp.prec op) (.bin op l r), by omega⟩
  have h := S_bin_same op l r hPl hSl hPr f (n + 1) id σ pre rest hd hn (hE.mono (by omega)) hAt hq hn'
  have hAt' : ∀ r', At (mv σ (render (.bin op l r)).length r') (pre ++ render (.bin op l r)) rest :=
    fun r' => at_mv hAt r'
  have h1 : Agrees (tier (evalN f) (6 - BinOp.prec op + 1) σ) (foldE (getVar σ) (.bin op l r)) σ
      (fun v r' => .ok v (mv σ (render (.bin op l r)).length r')) := by
    show Agrees ((tier (evalN f) (6 - BinOp.prec op) >>= fun v => lineBudget >>= fun b =>
              levelLoop (tier (evalN f) (6 - BinOp.prec op)) (opsAt (6 - BinOp.prec op)) (id b) v) σ) _ _ _
    cases hev : foldE (getVar σ) (.bin op l r) with
    | error x => rw [hev] at h; exact h
    | ok v =>
      rw [hev] at h
      obtain ⟨r1, hr1, hσ1⟩ := h
      refine ⟨r1 + 1, by omega, ?_⟩
      rw [hσ1]
      simp only
      rw [levelLoop_stop (hAt' r1) (hE.mono hkj), mv_mv]
      rfl
  exact lift_level _ _ _ _ _ rest _ j hkj hE hAt' h1

theorem S_bin (op : BinOp) (l r : Expr F) (hPl : PStmt l) (hSl : SStmt l) (hPr : PStmt r) :
    SStmt (.bin op l r) := by
  intro f k n g σ pre rest hd hn hlv hk hE hAt hq hg
  by_cases hkk : 6 - BinOp.prec op = k
  · subst hkk
    exact S_bin_same op l r hPl hSl hPr f n g σ pre rest hd hn hE hAt hq hg
  · have hlv' : lv (.bin op l r) ≤ k := by
      simp only [lv, Expr.prec] at hlv ⊢; omega
    exact S_of_P _ (P_bin op l r hPl hSl hPr) f k n g σ pre rest hd hn hlv' hk hE hAt hq hg

theorem S_atom (e : Expr F) (hP : PStmt e) (he : lv e = 0) : SStmt e := by
  intro f k n g σ pre rest hd hn _ hk hE hAt hq hg
  exact S_of_P _ hP f k n g σ pre rest hd hn (by omega) hk hE hAt hq hg

/-! ### Stage A -/

/-- the trees of stage A: no unary operator, no ABS / INT -/
def StageA : Expr F → Prop
  | .num _ => True
  | .str _ => True
  | .var _ => True
  | .paren e => StageA e
  | .bin _ l r => StageA l ∧ StageA r
  | .un _ _ => False
  | .abs _ => False
  | .int _ => False

theorem main_A (e : Expr F) (h : StageA e) : PStmt e ∧ SStmt e := by
  induction e with
  | num x => exact ⟨P_atom _ (A_num x) rfl, S_atom _ (P_atom _ (A_num x) rfl) rfl⟩
  | str s => exact ⟨P_atom _ (A_str s) rfl, S_atom _ (P_atom _ (A_str s) rfl) rfl⟩
  | var n => exact ⟨P_atom _ (A_var n) rfl, S_atom _ (P_atom _ (A_var n) rfl) rfl⟩
  | paren x ih => exact ⟨P_paren x (ih h).1, S_paren x (ih h).1⟩
  | bin op l r ihl ihr =>
    have hl := ihl h.1
    have hr := ihr h.2
    exact ⟨P_bin op l r hl.1 hl.2 hr.1, S_bin op l r hl.1 hl.2 hr.1⟩
  | un op x _ => exact absurd h (by simp [StageA])
  | abs x _ => exact absurd h (by simp [StageA])
  | int x _ => exact absurd h (by simp [StageA])

/-! ### unary operators (stage B) -/

omit [NumOps F] in
theorem unop_ofToken (op : UnOp) : UnOp.ofToken (F := F) (.kw (UnOp.token op)) = some op := by
  cases op <;> rfl

omit [NumOps F] in
theorem prec_fixP8 (x : Expr F) : (fixP 8 x).prec = 8 := by
  have h1 := prec_fixP 8 x (Nat.le_refl _)
  have h2 := prec_bounds (fixP 8 x)
  omega

theorem A_fixP8 (x : Expr F) (hP : PStmt x) (hA : AStmt x) : AStmt (fixP 8 x) := by
  unfold fixP; split
  · exact A_paren x hP
  · exact hA

theorem P_un (op : UnOp) (x : Expr F) (hP : PStmt x) (hA : AStmt x) : PStmt (.un op x) := by
  intro f j σ pre rest hd hn _ _ hE hAt hq
  rw [depth_un] at hd hn
  have hAt0 : At σ pre (.kw (UnOp.token op) :: (render (fixP 8 x) ++ rest)) := by
    rw [render_un] at hAt; exact hAt
  have hAt1 := at_mv1 hAt0 (σ.reads + 1)
  have hX := A_fixP8 x hP hA f (mv σ 1 (σ.reads + 1)) _ rest hd hn (prec_fixP8 x)
    (hE.mono (Nat.zero_le _)) hAt1 (hq.mv _ _)
  rw [getVar_mv, foldE_fixP] at hX
  have h0 : Agrees (tier (evalN f) 0 σ) (foldE (getVar σ) (.un op x)) σ
      (fun v r => .ok v (mv σ (render (.un op x)).length r)) := by
    show Agrees (unaryExpr (evalN f) σ) _ _ _
    unfold unaryExpr
    rw [bind_ok (tryNext_some hAt0 (unop_ofToken op))]
    cases hev : foldE (getVar σ) x with
    | error e =>
      rw [hev] at hX
      obtain ⟨σ', hσ', hn'⟩ := hX
      simp only [foldE, hev]
      exact ⟨σ', bind_err hσ', hn'⟩
    | ok v =>
      rw [hev] at hX
      obtain ⟨r, hr, hσ'⟩ := hX
      simp only [mv_reads, mv_mv] at hr hσ'
      simp only [foldE, hev]
      rw [bind_ok hσ']
      cases hop : op.eval v with
      | error e => exact ⟨_, rfl, rfl⟩
      | ok w =>
        refine ⟨r, by omega, ?_⟩
        show Res.ok w _ = Res.ok w _
        congr 1
        apply mv_congr
        rw [render_un, List.length_cons]; omega
  exact lift_level _ _ _ _ (pre ++ render (.un op x)) rest 0 j (Nat.zero_le _) hE (fun r => at_mv hAt r) h0

omit [NumOps F] in
theorem lv_un (op : UnOp) (x : Expr F) : lv (.un op x) = 0 := rfl

theorem A_un (op : UnOp) (x : Expr F) : AStmt (.un op x) := by
  intro f σ pre rest _ _ he
  simp [Expr.prec] at he

theorem A_bin (op : BinOp) (l r : Expr F) : AStmt (.bin op l r) := by
  intro f σ pre rest _ _ he
  have := prec_op_bounds op
  simp only [Expr.prec] at he
  omega


/-! ### ABS / INT (stage C) -/

/-- `numberFunctionArg` on `( render x )` -/
theorem numberFunctionArg_eq (x : Expr F) (hx : PStmt x) (f : Nat) (σ : St F) (pre rest : List (Token F))
    (hd : depth x + 1 ≤ f) (hn : σ.nesting + (depth x + 1) ≤ Extracted.nestingLimit)
    (hAt : At σ pre (.kw .LeftParen :: (render x ++ (.kw .RightParen :: rest)))) (hq : Quiet σ) :
    match foldE (getVar σ) x with
    | .ok (.num y) => ∃ r, σ.reads < r ∧
        numberFunctionArg (evalN f) σ = .ok y (mv σ ((render x).length + 2) r)
    | .ok (.str _) => ∃ σ', numberFunctionArg (evalN f) σ = .err { err := .typeMismatch } σ' ∧
        σ'.nesting = σ.nesting
    | .error e => ∃ σ', numberFunctionArg (evalN f) σ = .err { err := e } σ' ∧ σ'.nesting = σ.nesting := by
  have hAt1 := at_mv1 hAt (σ.reads + 1)
  have hX := expr_eq x hx f (mv σ 1 (σ.reads + 1)) _ _ hd hn (ends_rparen 6 rest) hAt1 (hq.mv _ _)
  rw [getVar_mv] at hX
  unfold numberFunctionArg
  rw [bind_ok (expect_eq hAt rfl)]
  cases hev : foldE (getVar σ) x with
  | error e =>
    rw [hev] at hX
    obtain ⟨σ', hσ', hn''⟩ := hX
    exact ⟨σ', bind_err hσ', hn''⟩
  | ok v =>
    rw [hev] at hX
    obtain ⟨r, hr, hσ'⟩ := hX
    simp only [mv_reads, mv_mv] at hr hσ'
    cases v with
    | str s => exact ⟨mv σ (1 + (render x).length) r, by rw [bind_ok hσ']; rfl, rfl⟩
    | num y =>
      refine ⟨r + 1, by omega, ?_⟩
      rw [bind_ok hσ']
      have hAt2 : At (mv σ (1 + (render x).length) r) ((pre ++ [.kw .LeftParen]) ++ render x)
          (.kw .RightParen :: rest) := by
        have := at_mv hAt1 r
        rwa [mv_mv] at this
      simp only
      rw [bind_ok (expect_eq hAt2 rfl), mv_mv]
      simp only [mv_reads, pure_eq]
      congr 1
      apply mv_congr
      omega

theorem A_abs (x : Expr F) (hx : PStmt x) : AStmt (.abs x) := by
  intro f σ pre rest hd hn _ _ hAt hq
  rw [render_abs] at hAt ⊢
  have hAt : At σ pre (.symbol Extracted.builtinAbs.toList :: .kw .LeftParen ::
      (render x ++ (.kw .RightParen :: rest))) := by
    simpa only [List.cons_append, List.append_assoc, List.nil_append] using hAt
  have hd' : depth x + 1 ≤ f := hd
  have hn' : σ.nesting + (depth x + 1) ≤ Extracted.nestingLimit := hn
  have hAt1 := at_mv1 hAt (σ.reads + 1 + 1)
  have hAt2 := at_mv0 hAt1 (σ.reads + 1 + 1 + 1)
  rw [mv_mv, Nat.add_zero] at hAt2
  have hN := numberFunctionArg_eq x hx f (mv σ 1 (σ.reads + 1 + 1 + 1)) _ _ hd' hn' hAt2 (hq.mv _ _)
  rw [getVar_mv] at hN
  unfold parenExpr
  rw [bind_ok (accept_false hAt rfl)]
  simp only [Bool.false_eq_true, ↓reduceIte]
  unfold term
  rw [bind_ok (nextUnwrapped_eq (at_mv0 hAt _)), mv_mv]
  simp only [mv_reads, Nat.zero_add]
  rw [bind_ok (peekIsKw_cons .LeftParen hAt1), mv_mv]
  simp only [mv_reads, Nat.add_zero]
  have hk : (Token.kw (F := F) Kw.LeftParen).isKw Kw.LeftParen = true := rfl
  simp only [hk, ↓reduceIte]
  unfold functionCall
  simp only [beq_self_eq_true, ↓reduceIte]
  cases hev : foldE (getVar σ) x with
  | error e =>
    rw [hev] at hN
    obtain ⟨σ', hσ', hn''⟩ := hN
    simp only [foldE, hev]
    exact ⟨σ', bind_err (bind_err hσ'), hn''⟩
  | ok v =>
    rw [hev] at hN
    cases v with
    | str s =>
      obtain ⟨σ', hσ', hn''⟩ := hN
      simp only [foldE, hev]
      exact ⟨σ', bind_err (bind_err hσ'), hn''⟩
    | num y =>
      obtain ⟨r, hr, hσ'⟩ := hN
      simp only [mv_reads, mv_mv] at hr hσ'
      simp only [foldE, hev]
      refine ⟨r, by omega, ?_⟩
      have h1 : (numberFunctionArg (evalN f) >>= fun x => pure (some (Value.num (NumOps.abs x))))
          (mv σ 1 (σ.reads + 1 + 1 + 1)) = .ok (some (Value.num (NumOps.abs y))) (mv σ (1 + ((render x).length + 2)) r) := by
        rw [bind_ok hσ']; rfl
      rw [bind_ok h1]
      show Res.ok _ _ = Res.ok _ _
      congr 1
      apply mv_congr
      simp only [List.length_cons, List.length_append, List.length_nil]
      omega

theorem A_int (x : Expr F) (hx : PStmt x) : AStmt (.int x) := by
  intro f σ pre rest hd hn _ _ hAt hq
  rw [render_int] at hAt ⊢
  have hAt : At σ pre (.symbol Extracted.builtinInt.toList :: .kw .LeftParen ::
      (render x ++ (.kw .RightParen :: rest))) := by
    simpa only [List.cons_append, List.append_assoc, List.nil_append] using hAt
  have hd' : depth x + 1 ≤ f := hd
  have hn' : σ.nesting + (depth x + 1) ≤ Extracted.nestingLimit := hn
  have hAt1 := at_mv1 hAt (σ.reads + 1 + 1)
  have hAt2 := at_mv0 hAt1 (σ.reads + 1 + 1 + 1)
  rw [mv_mv, Nat.add_zero] at hAt2
  have hN := numberFunctionArg_eq x hx f (mv σ 1 (σ.reads + 1 + 1 + 1)) _ _ hd' hn' hAt2 (hq.mv _ _)
  rw [getVar_mv] at hN
  unfold parenExpr
  rw [bind_ok (accept_false hAt rfl)]
  simp only [Bool.false_eq_true, ↓reduceIte]
  unfold term
  rw [bind_ok (nextUnwrapped_eq (at_mv0 hAt _)), mv_mv]
  simp only [mv_reads, Nat.zero_add]
  rw [bind_ok (peekIsKw_cons .LeftParen hAt1), mv_mv]
  simp only [mv_reads, Nat.add_zero]
  have hk : (Token.kw (F := F) Kw.LeftParen).isKw Kw.LeftParen = true := rfl
  simp only [hk, ↓reduceIte]
  unfold functionCall
  have hne : (Extracted.builtinInt.toList == Extracted.builtinAbs.toList) = false := by decide
  simp only [hne, Bool.false_eq_true, beq_self_eq_true, ↓reduceIte]
  cases hev : foldE (getVar σ) x with
  | error e =>
    rw [hev] at hN
    obtain ⟨σ', hσ', hn''⟩ := hN
    simp only [foldE, hev]
    exact ⟨σ', bind_err (bind_err hσ'), hn''⟩
  | ok v =>
    rw [hev] at hN
    cases v with
    | str s =>
      obtain ⟨σ', hσ', hn''⟩ := hN
      simp only [foldE, hev]
      exact ⟨σ', bind_err (bind_err hσ'), hn''⟩
    | num y =>
      obtain ⟨r, hr, hσ'⟩ := hN
      simp only [mv_reads, mv_mv] at hr hσ'
      simp only [foldE, hev]
      refine ⟨r, by omega, ?_⟩
      have h1 : (numberFunctionArg (evalN f) >>= fun x => pure (some (Value.num (NumOps.floor x))))
          (mv σ 1 (σ.reads + 1 + 1 + 1)) = .ok (some (Value.num (NumOps.floor y))) (mv σ (1 + ((render x).length + 2)) r) := by
        rw [bind_ok hσ']; rfl
      rw [bind_ok h1]
      show Res.ok _ _ = Res.ok _ _
      congr 1
      apply mv_congr
      simp only [List.length_cons, List.length_append, List.length_nil]
      omega


/-! ### all trees -/

theorem main (e : Expr F) : PStmt e ∧ SStmt e ∧ AStmt e := by
  induction e with
  | num x => exact ⟨P_atom _ (A_num x) rfl, S_atom _ (P_atom _ (A_num x) rfl) rfl, A_num x⟩
  | str s => exact ⟨P_atom _ (A_str s) rfl, S_atom _ (P_atom _ (A_str s) rfl) rfl, A_str s⟩
  | var n => exact ⟨P_atom _ (A_var n) rfl, S_atom _ (P_atom _ (A_var n) rfl) rfl, A_var n⟩
  | paren x ih => exact ⟨P_paren x ih.1, S_paren x ih.1, A_paren x ih.1⟩
  | bin op l r ihl ihr =>
    exact ⟨P_bin op l r ihl.1 ihl.2.1 ihr.1, S_bin op l r ihl.1 ihl.2.1 ihr.1, A_bin op l r⟩
  | un op x ih =>
    have hP := P_un op x ih.1 ih.2.2
    exact ⟨hP, S_atom _ hP rfl, A_un op x⟩
  | abs x ih =>
    have hA := A_abs x ih.1
    exact ⟨P_atom _ hA rfl, S_atom _ (P_atom _ hA rfl) rfl, hA⟩
  | int x ih =>
    have hA := A_int x ih.1
    exact ⟨P_atom _ hA rfl, S_atom _ (P_atom _ hA rfl) rfl, hA⟩

end Abasic.ExprL
