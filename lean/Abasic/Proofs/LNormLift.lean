import Abasic.Proofs.LNorm
/-
  `LComm` (normalising the order of the program store's token map commutes with running)
  for the primitives and, by the structural rules, for every function of the evaluator and
  every host call; `LSim` for the numbered-line entry (which edits the store).
  Transcribed from Proofs/TranspLift.lean (the same lifting for the flags).
-/
set_option linter.unusedSectionVars false

namespace Abasic.Hoare
open Abasic M

variable {F : Type}

/-! ### Program.lean -/

theorem lcomm_tokensForLine (l : Option Nat) : LComm (tokensForLine (F := F) l) := by
  intro σ
  cases l with
  | none => rfl
  | some n =>
    show tokensForLine (some n) (lnorm σ) = (tokensForLine (some n) σ).mapSt lnorm
    simp only [tokensForLine, lnorm_lines, Lines.canon_get]
    cases σ.lines.get n <;> rfl

theorem lcomm_tokens : LComm (tokens (F := F)) := by
  intro σ
  exact lcomm_tokensForLine σ.loc.line σ
macro_rules | `(tactic| lcomm_prim) => `(tactic| exact lcomm_tokens)

theorem lcomm_peek : LComm (peek (F := F)) := by
  unfold peek
  lcomm_tac
macro_rules | `(tactic| lcomm_prim) => `(tactic| exact lcomm_peek)

theorem lcomm_advance : LComm (advance (F := F)) := by
  unfold advance
  lcomm_tac
macro_rules | `(tactic| lcomm_prim) => `(tactic| exact lcomm_advance)

theorem lcomm_next : LComm (next (F := F)) := by
  unfold next
  lcomm_tac
macro_rules | `(tactic| lcomm_prim) => `(tactic| exact lcomm_next)

theorem lcomm_hasNext : LComm (hasNext (F := F)) := by
  unfold hasNext
  lcomm_tac
macro_rules | `(tactic| lcomm_prim) => `(tactic| exact lcomm_hasNext)

theorem lcomm_nextUnwrapped : LComm (nextUnwrapped (F := F)) := by
  unfold nextUnwrapped
  lcomm_tac
macro_rules | `(tactic| lcomm_prim) => `(tactic| exact lcomm_nextUnwrapped)

theorem lcomm_expect (k : Kw) : LComm (expect (F := F) k) := by
  unfold expect
  lcomm_tac
macro_rules | `(tactic| lcomm_prim) => `(tactic| exact lcomm_expect _)

theorem lcomm_accept (k : Kw) : LComm (accept (F := F) k) := by
  unfold accept
  lcomm_tac
macro_rules | `(tactic| lcomm_prim) => `(tactic| exact lcomm_accept _)

theorem lcomm_peekIsKw (k : Kw) : LComm (peekIsKw (F := F) k) := by
  unfold peekIsKw
  lcomm_tac
macro_rules | `(tactic| lcomm_prim) => `(tactic| exact lcomm_peekIsKw _)

theorem lcomm_tryNext {α : Type} (f : Token F → Option α) : LComm (tryNext f) := by
  unfold tryNext
  lcomm_tac
macro_rules | `(tactic| lcomm_prim) => `(tactic| exact lcomm_tryNext _)

theorem lcomm_discardRemaining : LComm (discardRemaining (F := F)) := by
  unfold discardRemaining
  lcomm_tac
macro_rules | `(tactic| lcomm_prim) => `(tactic| exact lcomm_discardRemaining)

theorem lcomm_rewindBeforeInput : LComm (rewindBeforeInput (F := F)) := by
  unfold rewindBeforeInput
  lcomm_tac
macro_rules | `(tactic| lcomm_prim) => `(tactic| exact lcomm_rewindBeforeInput)

theorem lcomm_setImmediate (ts : List (Token F)) : LComm (setImmediate ts) := by
  unfold setImmediate
  lcomm_tac
macro_rules | `(tactic| lcomm_prim) => `(tactic| exact lcomm_setImmediate _)

theorem lcomm_continueFromBreakpoint : LComm (continueFromBreakpoint (F := F)) := by
  unfold continueFromBreakpoint
  lcomm_tac
macro_rules | `(tactic| lcomm_prim) => `(tactic| exact lcomm_continueFromBreakpoint)

theorem lcomm_setVar (name : Str) (v : Value F) : LComm (setVar name v) := by
  unfold setVar
  lcomm_tac
macro_rules | `(tactic| lcomm_prim) => `(tactic| exact lcomm_setVar _ _)

theorem lcomm_startLoop (sym : Str) (a b c : F) : LComm (startLoop sym a b c) := by
  unfold startLoop
  lcomm_tac
macro_rules | `(tactic| lcomm_prim) => `(tactic| exact lcomm_startLoop _ _ _ _)

theorem lcomm_endLoop [NumOps F] (sym : Str) : LComm (endLoop (F := F) sym) := by
  unfold endLoop
  lcomm_tac
macro_rules | `(tactic| lcomm_prim) => `(tactic| exact lcomm_endLoop _)

theorem lcomm_gotoLine (n : Nat) : LComm (gotoLine (F := F) n) := by
  unfold gotoLine
  lcomm_tac
macro_rules | `(tactic| lcomm_prim) => `(tactic| exact lcomm_gotoLine _)

theorem lcomm_gosubLine (n : Nat) : LComm (gosubLine (F := F) n) := by
  unfold gosubLine
  lcomm_tac
macro_rules | `(tactic| lcomm_prim) => `(tactic| exact lcomm_gosubLine _)

theorem lcomm_returnFromGosub : LComm (returnFromGosub (F := F)) := by
  unfold returnFromGosub
  lcomm_tac
macro_rules | `(tactic| lcomm_prim) => `(tactic| exact lcomm_returnFromGosub)

theorem lcomm_defineFunction (name : Str) (args : List Str) : LComm (defineFunction (F := F) name args) := by
  unfold defineFunction
  lcomm_tac
macro_rules | `(tactic| lcomm_prim) => `(tactic| exact lcomm_defineFunction _ _)

theorem lcomm_pushFunctionCall (name : Str) (b : List (Str × Value F)) : LComm (pushFunctionCall name b) := by
  unfold pushFunctionCall
  lcomm_tac
macro_rules | `(tactic| lcomm_prim) => `(tactic| exact lcomm_pushFunctionCall _ _)

theorem lcomm_popFunctionCall : LComm (popFunctionCall (F := F)) := by
  unfold popFunctionCall
  lcomm_tac
macro_rules | `(tactic| lcomm_prim) => `(tactic| exact lcomm_popFunctionCall)

theorem lcomm_nextDataElement : LComm (nextDataElement (F := F)) := by
  unfold nextDataElement
  lcomm_tac
macro_rules | `(tactic| lcomm_prim) => `(tactic| exact lcomm_nextDataElement)

theorem lcomm_nextLine : LComm (nextLine (F := F)) := by
  unfold nextLine
  lcomm_tac
macro_rules | `(tactic| lcomm_prim) => `(tactic| exact lcomm_nextLine)

theorem lcomm_enterNested : LComm (enterNested (F := F)) := by
  unfold enterNested
  lcomm_tac
macro_rules | `(tactic| lcomm_prim) => `(tactic| exact lcomm_enterNested)

theorem lcomm_exitNested : LComm (exitNested (F := F)) := by
  unfold exitNested
  lcomm_tac
macro_rules | `(tactic| lcomm_prim) => `(tactic| exact lcomm_exitNested)

theorem lcomm_nested {α : Type} {m : M F α} (hm : LComm m) : LComm (nested m) := by
  unfold nested
  lcomm_tac
macro_rules | `(tactic| lcomm_prim) => `(tactic| with_reducible apply lcomm_nested)

theorem lcomm_emit (o : Out) : LComm (emit (F := F) o) := by
  unfold emit
  lcomm_tac
macro_rules | `(tactic| lcomm_prim) => `(tactic| exact lcomm_emit _)

/-! ### Arrays.lean -/

variable [NumOps F]

theorem lcomm_ensureArray (name : Str) (k : Nat) : LComm (ensureArray (F := F) name k) := by
  unfold ensureArray
  lcomm_tac
macro_rules | `(tactic| lcomm_prim) => `(tactic| exact lcomm_ensureArray _ _)

theorem lcomm_arrayGet (name : Str) (idx : List Nat) : LComm (arrayGet (F := F) name idx) := by
  unfold arrayGet
  lcomm_tac
macro_rules | `(tactic| lcomm_prim) => `(tactic| exact lcomm_arrayGet _ _)

theorem lcomm_arraySet (name : Str) (idx : List Nat) (v : Value F) : LComm (arraySet name idx v) := by
  unfold arraySet
  lcomm_tac
macro_rules | `(tactic| lcomm_prim) => `(tactic| exact lcomm_arraySet _ _ _)

theorem lcomm_arrayCreate (name : Str) (idx : List Nat) : LComm (arrayCreate (F := F) name idx) := by
  unfold arrayCreate
  lcomm_tac
macro_rules | `(tactic| lcomm_prim) => `(tactic| exact lcomm_arrayCreate _ _)

theorem lcomm_rnd (x : F) : LComm (rnd x) := by
  unfold rnd
  lcomm_tac
macro_rules | `(tactic| lcomm_prim) => `(tactic| exact lcomm_rnd _)

/-! ### the three flag-reading primitives -/

omit [NumOps F] in
theorem lcomm_warn (msg : Str) : LComm (warn (F := F) msg) := by
  unfold warn
  lcomm_tac
macro_rules | `(tactic| lcomm_prim) => `(tactic| exact lcomm_warn _)

omit [NumOps F] in
theorem lcomm_warnUndeclaredArray (name : Str) : LComm (warnUndeclaredArray (F := F) name) := by
  unfold warnUndeclaredArray
  lcomm_tac
macro_rules | `(tactic| lcomm_prim) => `(tactic| exact lcomm_warnUndeclaredArray _)

omit [NumOps F] in
theorem lcomm_traceHere : LComm (traceHere (F := F)) := by
  unfold traceHere
  lcomm_tac
macro_rules | `(tactic| lcomm_prim) => `(tactic| exact lcomm_traceHere)

theorem lcomm_takeInput : LComm (takeInput (F := F)) := by
  unfold takeInput
  lcomm_tac
macro_rules | `(tactic| lcomm_prim) => `(tactic| exact lcomm_takeInput)

omit [NumOps F] in
theorem lcomm_rewindAndAwaitInput : LComm (rewindAndAwaitInput (F := F)) := by
  unfold rewindAndAwaitInput
  lcomm_tac
macro_rules | `(tactic| lcomm_prim) => `(tactic| exact lcomm_rewindAndAwaitInput)

/-! ### Expr.lean / Stmt.lean -/

omit [NumOps F] in
theorem lcomm_lineBudget : LComm (lineBudget (F := F)) := by
  unfold lineBudget
  lcomm_tac
macro_rules | `(tactic| lcomm_prim) => `(tactic| exact lcomm_lineBudget)

section evaluator
variable (ev : Evals F) (he : LComm ev.expr)
include he

theorem lcomm_arrayIndexLoop (n : Nat) (acc : List Nat) : LComm (arrayIndexLoop ev n acc) := by
  induction n generalizing acc with
  | zero => unfold arrayIndexLoop; lcomm_tac
  | succ n ih => unfold arrayIndexLoop; lcomm_tac

theorem lcomm_arrayIndex : LComm (arrayIndex ev) := by
  unfold arrayIndex
  have := lcomm_arrayIndexLoop ev he
  lcomm_tac

theorem lcomm_numberFunctionArg : LComm (numberFunctionArg ev) := by
  unfold numberFunctionArg
  lcomm_tac

theorem lcomm_bindArgs (arity : Nat) (args : List Str) (i : Nat) (acc : List (Str × Value F)) :
    LComm (bindArgs ev arity args i acc) := by
  induction args generalizing i acc with
  | nil => unfold bindArgs; lcomm_tac
  | cons a rest ih => unfold bindArgs; lcomm_tac

theorem lcomm_userFunctionCall (name : Str) : LComm (userFunctionCall ev name) := by
  unfold userFunctionCall
  have := lcomm_bindArgs ev he
  lcomm_tac

theorem lcomm_functionCall (name : Str) : LComm (functionCall ev name) := by
  unfold functionCall
  have := lcomm_numberFunctionArg ev he
  have := lcomm_userFunctionCall ev he
  lcomm_tac

theorem lcomm_term : LComm (term ev) := by
  unfold term
  have := lcomm_functionCall ev he
  have := lcomm_arrayIndex ev he
  lcomm_tac

theorem lcomm_parenExpr : LComm (parenExpr ev) := by
  unfold parenExpr
  have := lcomm_term ev he
  lcomm_tac

theorem lcomm_unaryExpr : LComm (unaryExpr ev) := by
  unfold unaryExpr
  have := lcomm_parenExpr ev he
  lcomm_tac

omit he in
theorem lcomm_levelLoop {sub : M F (Value F)} (hs : LComm sub) (ops : Token F → Option BinOp)
    (n : Nat) (v : Value F) : LComm (levelLoop sub ops n v) := by
  induction n generalizing v with
  | zero => unfold levelLoop; lcomm_tac
  | succ n ih => unfold levelLoop; lcomm_tac

omit he in
theorem lcomm_level {sub : M F (Value F)} (hs : LComm sub) (ops : Token F → Option BinOp) :
    LComm (level sub ops) := by
  unfold level
  have := lcomm_levelLoop hs ops
  lcomm_tac

theorem lcomm_orExpr : LComm (orExpr ev) := by
  unfold orExpr
  exact lcomm_level (lcomm_level (lcomm_level (lcomm_level (lcomm_level (lcomm_level
    (lcomm_unaryExpr ev he) _) _) _) _) _) _

theorem lcomm_exprBody : LComm (exprBody ev) := by
  unfold exprBody
  exact lcomm_nested (lcomm_orExpr ev he)

/-! ### Stmt.lean -/

theorem lcomm_optionalArrayIndex : LComm (optionalArrayIndex ev) := by
  unfold optionalArrayIndex
  have := lcomm_arrayIndex ev he
  lcomm_tac

omit he in
theorem lcomm_assignValue (lv : LValue) (v : Value F) : LComm (assignValue lv v) := by
  unfold assignValue
  lcomm_tac

theorem lcomm_assignmentStatement (name : Str) : LComm (assignmentStatement ev name) := by
  unfold assignmentStatement
  have := lcomm_optionalArrayIndex ev he
  have := lcomm_assignValue (F := F)
  lcomm_tac

theorem lcomm_letStatement : LComm (letStatement ev) := by
  unfold letStatement
  have := lcomm_assignmentStatement ev he
  lcomm_tac

theorem lcomm_parseLValue : LComm (parseLValue ev) := by
  unfold parseLValue
  have := lcomm_optionalArrayIndex ev he
  lcomm_tac

omit he in
theorem lcomm_gotoStatement : LComm (gotoStatement (F := F)) := by
  unfold gotoStatement
  lcomm_tac

omit he in
theorem lcomm_gosubStatement : LComm (gosubStatement (F := F)) := by
  unfold gosubStatement
  lcomm_tac

variable (hs : LComm ev.stmt)
include hs

omit he in
theorem lcomm_statementOrGoto : LComm (statementOrGoto ev) := by
  unfold statementOrGoto
  have := lcomm_gotoStatement (F := F)
  lcomm_tac

omit he in
theorem lcomm_ifSkipLoop (n : Nat) : LComm (ifSkipLoop ev n) := by
  have := lcomm_statementOrGoto ev hs
  induction n with
  | zero => unfold ifSkipLoop; lcomm_tac
  | succ n ih => unfold ifSkipLoop; lcomm_tac

theorem lcomm_ifStatement : LComm (ifStatement ev) := by
  unfold ifStatement
  have := lcomm_statementOrGoto ev hs
  have := lcomm_ifSkipLoop ev hs
  lcomm_tac

omit hs in
theorem lcomm_readLoop (n : Nat) : LComm (readLoop ev n) := by
  have := lcomm_parseLValue ev he
  have := lcomm_assignValue (F := F)
  induction n with
  | zero => unfold readLoop; lcomm_tac
  | succ n ih => unfold readLoop; lcomm_tac

omit hs in
theorem lcomm_readStatement : LComm (readStatement ev) := by
  unfold readStatement
  have := lcomm_readLoop ev he
  lcomm_tac

omit hs in
theorem lcomm_inputStatement : LComm (inputStatement ev) := by
  unfold inputStatement
  have := lcomm_parseLValue ev he
  have := lcomm_assignValue (F := F)
  lcomm_tac

omit hs in
theorem lcomm_dimStatement : LComm (dimStatement ev) := by
  unfold dimStatement
  have := lcomm_parseLValue ev he
  lcomm_tac

omit hs in
theorem lcomm_printLoop (n : Nat) (semi : Bool) (acc : Str) : LComm (printLoop ev n semi acc) := by
  induction n generalizing semi acc with
  | zero => unfold printLoop; lcomm_tac
  | succ n ih => unfold printLoop; lcomm_tac

omit hs in
theorem lcomm_printStatement : LComm (printStatement ev) := by
  unfold printStatement
  have := lcomm_printLoop ev he
  lcomm_tac

omit hs in
theorem lcomm_forStatement : LComm (forStatement ev) := by
  unfold forStatement
  lcomm_tac

omit he hs in
theorem lcomm_nextStatement : LComm (nextStatement (F := F)) := by
  unfold nextStatement
  lcomm_tac

omit he hs in
theorem lcomm_defArgsLoop (n : Nat) (acc : List Str) : LComm (defArgsLoop (F := F) n acc) := by
  induction n generalizing acc with
  | zero => unfold defArgsLoop; lcomm_tac
  | succ n ih => unfold defArgsLoop; lcomm_tac

omit he hs in
theorem lcomm_skipToColonLoop (n : Nat) : LComm (skipToColonLoop (F := F) n) := by
  induction n with
  | zero => unfold skipToColonLoop; lcomm_tac
  | succ n ih => unfold skipToColonLoop; lcomm_tac

omit he hs in
theorem lcomm_defStatement : LComm (defStatement (F := F)) := by
  unfold defStatement
  have := lcomm_defArgsLoop (F := F)
  have := lcomm_skipToColonLoop (F := F)
  lcomm_tac

omit he hs in
theorem lcomm_breakAtCurrentLocation : LComm (breakAtCurrentLocation (F := F)) := by
  unfold breakAtCurrentLocation
  lcomm_tac

theorem lcomm_dispatch : LComm (dispatch ev) := by
  unfold dispatch
  have := lcomm_assignmentStatement ev he
  have := lcomm_dimStatement ev he
  have := lcomm_printStatement ev he
  have := lcomm_inputStatement ev he
  have := lcomm_ifStatement ev he hs
  have := lcomm_gotoStatement (F := F)
  have := lcomm_gosubStatement (F := F)
  have := lcomm_forStatement ev he
  have := lcomm_nextStatement (F := F)
  have := lcomm_defStatement (F := F)
  have := lcomm_readStatement ev he
  have := lcomm_letStatement ev he
  have := lcomm_breakAtCurrentLocation (F := F)
  lcomm_tac

theorem lcomm_stmtBody : LComm (stmtBody ev) := by
  unfold stmtBody
  have := lcomm_dispatch ev he hs
  lcomm_tac

end evaluator

/-- The knot: every fuel level commutes with erasure. -/
theorem lcomm_evalN (n : Nat) :
    LComm (evalN (F := F) n).expr ∧ LComm (evalN (F := F) n).stmt := by
  induction n with
  | zero => exact ⟨lcomm_fail _, lcomm_fail _⟩
  | succ n ih => exact ⟨lcomm_exprBody _ ih.1, lcomm_stmtBody _ ih.1 ih.2⟩


/-! ### Interp.lean: the host API -/

omit [NumOps F] in
theorem lcomm_returnToIdle : LComm (returnToIdle (F := F)) := by
  unfold returnToIdle
  lcomm_tac
macro_rules | `(tactic| lcomm_prim) => `(tactic| exact lcomm_returnToIdle)

theorem lcomm_runNextStatement (fuel : Nat) : LComm (runNextStatement (F := F) fuel) := by
  unfold runNextStatement
  have := (lcomm_evalN (F := F) fuel)
  have := lcomm_stmtBody _ this.1 this.2
  lcomm_tac

theorem lsim_runNextStatement (fuel : Nat) : LSim (runNextStatement (F := F) fuel) :=
  (lcomm_runNextStatement fuel).sim

/-- every command commutes with normalisation -/
theorem lcomm_maybeProcessCommand (fuel : Nat) (line : Str) : LComm (maybeProcessCommand (F := F) fuel line) := by
  unfold maybeProcessCommand
  have hrun := lcomm_runNextStatement (F := F)
  split
  · exact lcomm_pure _
  · have hres : LComm (M.modify fun s : St F => ({ s with input := none, vars := [], arrays := [] }).runFromFirst) := by
      apply lcomm_modify
      intro σ
      show St.runFromFirst _ = lnorm (St.runFromFirst _)
      unfold St.runFromFirst
      dsimp only
      show (match σ.lines.canon.first with | some n => _ | none => _) = lnorm (match σ.lines.first with | some n => _ | none => _)
      rw [Lines.canon_first]
      cases σ.lines.first <;> rfl
    lcomm_tac
  · apply lcomm_get_bind
    intro σ
    lcomm_norm
    lcomm_norm
    cases σ.lines.list with
    | none => exact lcomm2_rpanic _
    | some ls =>
      apply lcomm2_bind _ (fun _ => lcomm_pure _)
      apply lcomm2_set
      rfl
  · lcomm_tac
  · lcomm_tac
  · lcomm_tac
  · lcomm_tac
  · lcomm_tac
  · lcomm_tac

theorem lsim_maybeProcessCommand (fuel : Nat) (line : Str) : LSim (maybeProcessCommand (F := F) fuel line) :=
  (lcomm_maybeProcessCommand fuel line).sim

omit [NumOps F] in
theorem lnorm_state_eq {σ₁ σ₂ : St F} (h : lnorm σ₁ = lnorm σ₂) : σ₁.state = σ₂.state :=
  show (lnorm σ₁).state = (lnorm σ₂).state from congrArg St.state h

omit [NumOps F] in
/-- storing a line in lnorm-equal states gives lnorm-equal states -/
theorem lnorm_setNumberedLine_congr (σ₁ σ₂ : St F) (h : lnorm σ₁ = lnorm σ₂) (n : Nat) (ts : List (Token F)) :
    lnorm (σ₁.setNumberedLine n ts) = lnorm (σ₂.setNumberedLine n ts) := by
  have hl : σ₁.lines.canon = σ₂.lines.canon := congrArg St.lines h
  have hs := Lines.canon_set_congr _ _ hl n ts
  have e : ∀ σ : St F, lnorm (σ.setNumberedLine n ts) =
      ({ lnorm σ with lines := (σ.lines.set n ts).canon, bp := none, data := none, fns := [], stack := [], loops := [] } : St F).setImmediate [] :=
    fun _ => rfl
  rw [e σ₁, e σ₂, h, hs]

theorem lsim_evaluateImpl (fuel : Nat) (line : Str) : LSim (evaluateImpl (F := F) fuel line) := by
  have hbody : ∀ st : IState, LSim (if (st != .idle) = true then (M.rpanic "assertion failed: state == Idle" : M F Unit)
      else do
        setImmediate []
        if ← maybeProcessCommand fuel line then pure ()
        else
          let (num, skip) : Option Nat × Nat :=
            match parseLineNumber line with
            | some (n, e) => (some n, e)
            | none => (none, 0)
          match tokenize (F := F) line skip with
          | .error e => M.fail (.syntax (.tokenization e))
          | .ok ts =>
            match num with
            | some n => M.modify fun s => s.setNumberedLine n ts
            | none => do
              setImmediate ts
              runNextStatement fuel) := by
    intro st
    apply lsim_ite (lsim_rpanic _)
    apply lsim_bind (lcomm_setImmediate _).sim
    intro _
    apply lsim_bind (lsim_maybeProcessCommand fuel line)
    intro b
    apply lsim_ite (lsim_pure _)
    dsimp only
    split
    · exact lsim_fail _
    · split
      · apply lsim_modify
        intro σ₁ σ₂ h
        exact lnorm_setNumberedLine_congr σ₁ σ₂ h _ _
      · apply LComm.sim
        have := lcomm_runNextStatement (F := F) fuel
        lcomm_tac
  intro σ₁ σ₂ he
  have h := hbody σ₁.state σ₁ σ₂ he
  have hst := lnorm_state_eq he
  show LResSim (evaluateImpl fuel line σ₁) (evaluateImpl fuel line σ₂)
  have e1 : evaluateImpl fuel line σ₁ = (if (σ₁.state != .idle) = true then (M.rpanic "assertion failed: state == Idle" : M F Unit)
      else do
        setImmediate []
        if ← maybeProcessCommand fuel line then pure ()
        else
          let (num, skip) : Option Nat × Nat :=
            match parseLineNumber line with
            | some (n, e) => (some n, e)
            | none => (none, 0)
          match tokenize (F := F) line skip with
          | .error e => M.fail (.syntax (.tokenization e))
          | .ok ts =>
            match num with
            | some n => M.modify fun s => s.setNumberedLine n ts
            | none => do
              setImmediate ts
              runNextStatement fuel) σ₁ := rfl
  have e2 : evaluateImpl fuel line σ₂ = (if (σ₁.state != .idle) = true then (M.rpanic "assertion failed: state == Idle" : M F Unit)
      else do
        setImmediate []
        if ← maybeProcessCommand fuel line then pure ()
        else
          let (num, skip) : Option Nat × Nat :=
            match parseLineNumber line with
            | some (n, e) => (some n, e)
            | none => (none, 0)
          match tokenize (F := F) line skip with
          | .error e => M.fail (.syntax (.tokenization e))
          | .ok ts =>
            match num with
            | some n => M.modify fun s => s.setNumberedLine n ts
            | none => do
              setImmediate ts
              runNextStatement fuel) σ₂ := by rw [hst]; rfl
  rw [e1, e2]
  exact h

theorem lsim_startEvaluating (fuel : Nat) (line : Str) : LSim (startEvaluating (F := F) fuel line) :=
  lsim_postprocess (lsim_evaluateImpl fuel line)

theorem lsim_continueEvaluating (fuel : Nat) : LSim (continueEvaluating (F := F) fuel) := by
  intro σ₁ σ₂ he
  have hst := lnorm_state_eq he
  have h1 : ∀ σ : St F, continueEvaluating fuel σ =
      (if (σ.state != .running) = true then (M.rpanic "assertion failed: state == Running" : M F Unit)
       else postprocess (runNextStatement fuel)) σ := fun _ => rfl
  rw [h1 σ₁, h1 σ₂, ← hst]
  exact lsim_ite (lsim_rpanic _) (lsim_postprocess (lsim_runNextStatement fuel)) σ₁ σ₂ he

omit [NumOps F] in
theorem lcomm_provideInput (text : Str) : LComm (provideInput (F := F) text) := by
  unfold provideInput
  lcomm_tac

omit [NumOps F] in
theorem lcomm_randomize (seed : Nat) : LComm (randomize (F := F) seed) := by
  unfold randomize
  lcomm_tac

end Abasic.Hoare
