import Abasic.Proofs.Hoare
/-
  The frame of an expression evaluation (used by C07 `inspect_pure` and by the
  `Numbered` invariant):

  `RX σ σ'` — everything the interrupted program can observe is the same in
  `σ'` as in `σ`, except

    * the token index of the cursor (the line is the same), the read counter,
      the nesting counter, the output queue, the generator state (RND), and
    * the array table, which may have GROWN by automatically created default
      arrays (a read of an undeclared array creates it): `ArrExt`.

  `Respects RX` is lifted through every function of Expr.lean — user function
  calls included: the frame pushed by the call is popped on both paths — and
  through PRINT.
-/
set_option linter.unusedSectionVars false

namespace Abasic.Proofs.XF
open Abasic Abasic.Hoare M

variable {F : Type} [NumOps F]

/-- every array of `a` is in `a'` with the same contents; every array of `a'`
    is one of `a`, or a freshly auto-created default array under a new name -/
def ArrExt (a a' : List (Str × ArrayV F)) : Prop :=
  (∀ name v, alGet name a = some v → alGet name a' = some v) ∧
  (∀ name v, alGet name a' = some v → alGet name a = some v ∨
    (alGet name a = none ∧
      ∃ k, ArrayV.create (F := F) name (List.replicate k Extracted.defaultArraySize) = .ok v))

theorem ArrExt.refl (a : List (Str × ArrayV F)) : ArrExt a a :=
  ⟨fun _ _ h => h, fun _ _ h => Or.inl h⟩

theorem ArrExt.trans {a b c : List (Str × ArrayV F)} (h1 : ArrExt a b) (h2 : ArrExt b c) : ArrExt a c := by
  refine ⟨fun n v h => h2.1 n v (h1.1 n v h), fun n v h => ?_⟩
  rcases h2.2 n v h with hb | ⟨hb, k, hk⟩
  · exact h1.2 n v hb
  · right
    refine ⟨?_, k, hk⟩
    cases ha : alGet n a with
    | none => rfl
    | some w => rw [h1.1 n w ha] at hb; cases hb

omit [NumOps F] in
theorem alGet_alSet_self {β : Type} (k : Str) (v : β) (l : List (Str × β)) :
    alGet k (alSet k v l) = some v := by
  induction l with
  | nil => simp [alSet, alGet]
  | cons p ps ih =>
    obtain ⟨k', v'⟩ := p
    by_cases hk : k' = k
    · simp [alSet, alGet, hk]
    · have hb : (k' == k) = false := by simpa using hk
      simp [alSet, alGet, hb, ih]

omit [NumOps F] in
theorem alGet_alSet_ne {β : Type} (k n : Str) (v : β) (l : List (Str × β)) (h : n ≠ k) :
    alGet n (alSet k v l) = alGet n l := by
  induction l with
  | nil =>
    have hb : (k == n) = false := by simpa using fun e => h e.symm
    simp [alSet, alGet, hb]
  | cons p ps ih =>
    obtain ⟨k', v'⟩ := p
    by_cases hk : k' = k
    · subst hk
      have hb : (k' == n) = false := by simpa using fun e => h e.symm
      simp [alSet, alGet, hb]
    · have hb : (k' == k) = false := by simpa using hk
      simp only [alSet, hb, Bool.false_eq_true, ↓reduceIte, alGet, ih]

/-- adding a default array under a name that has none -/
theorem arrExt_add (a : List (Str × ArrayV F)) (name : Str) (k : Nat) (v : ArrayV F)
    (hnew : alHas name a = false)
    (hv : ArrayV.create (F := F) name (List.replicate k Extracted.defaultArraySize) = .ok v) :
    ArrExt a (alSet name v a) := by
  have hnone : alGet name a = none := by
    unfold alHas at hnew
    cases h : alGet name a with
    | none => rfl
    | some w => rw [h] at hnew; cases hnew
  refine ⟨fun n w h => ?_, fun n w h => ?_⟩
  · by_cases hn : n = name
    · subst hn; rw [hnone] at h; cases h
    · rw [alGet_alSet_ne _ _ _ _ hn]; exact h
  · by_cases hn : n = name
    · subst hn
      rw [alGet_alSet_self] at h
      cases h
      exact Or.inr ⟨hnone, k, hv⟩
    · rw [alGet_alSet_ne _ _ _ _ hn] at h; exact Or.inl h

/-- the frame of an expression evaluation -/
structure RX (σ σ' : St F) : Prop where
  lines : σ'.lines = σ.lines
  imm : σ'.imm = σ.imm
  line : σ'.loc.line = σ.loc.line
  bp : σ'.bp = σ.bp
  stack : σ'.stack = σ.stack
  loops : σ'.loops = σ.loops
  data : σ'.data = σ.data
  fns : σ'.fns = σ.fns
  vars : σ'.vars = σ.vars
  input : σ'.input = σ.input
  state : σ'.state = σ.state
  warnings : σ'.warnings = σ.warnings
  tracing : σ'.tracing = σ.tracing
  arrays : ArrExt σ.arrays σ'.arrays

theorem rx_same {σ σ' : St F} (h1 : σ'.lines = σ.lines) (h2 : σ'.imm = σ.imm)
    (h3 : σ'.loc.line = σ.loc.line) (h4 : σ'.bp = σ.bp) (h5 : σ'.stack = σ.stack)
    (h6 : σ'.loops = σ.loops) (h7 : σ'.data = σ.data) (h8 : σ'.fns = σ.fns) (h9 : σ'.vars = σ.vars)
    (h10 : σ'.input = σ.input) (h11 : σ'.state = σ.state) (h12 : σ'.warnings = σ.warnings)
    (h13 : σ'.tracing = σ.tracing) (h14 : σ'.arrays = σ.arrays) : RX σ σ' :=
  ⟨h1, h2, h3, h4, h5, h6, h7, h8, h9, h10, h11, h12, h13, by rw [h14]; exact ArrExt.refl _⟩

instance : IsFrame (RX (F := F)) where
  refl _ := rx_same rfl rfl rfl rfl rfl rfl rfl rfl rfl rfl rfl rfl rfl rfl
  trans h1 h2 :=
    ⟨h2.lines.trans h1.lines, h2.imm.trans h1.imm, h2.line.trans h1.line, h2.bp.trans h1.bp,
     h2.stack.trans h1.stack, h2.loops.trans h1.loops, h2.data.trans h1.data, h2.fns.trans h1.fns,
     h2.vars.trans h1.vars, h2.input.trans h1.input, h2.state.trans h1.state,
     h2.warnings.trans h1.warnings, h2.tracing.trans h1.tracing, h1.arrays.trans h2.arrays⟩

macro_rules | `(tactic| respects_leaf) => `(tactic| exact rx_same rfl rfl rfl rfl rfl rfl rfl rfl rfl rfl rfl rfl rfl rfl)

/-! ### Program.lean -/

/-- `tokens` never changes the state -/
theorem tokens_state (σ : St F) : (tokens σ).final = σ := by
  unfold tokens tokensForLine
  cases σ.loc.line with
  | none => rfl
  | some n =>
    dsimp only
    cases σ.lines.get n <;> rfl

theorem any_tokens {R : St F → St F → Prop} [IsFrame R] : Respects R (tokens (F := F)) := by
  apply respects_of_at
  intro σ
  have h := tokens_state σ
  constructor
  · intro a s hs; rw [hs] at h; rw [← show s = σ from h]; exact IsFrame.refl _
  · intro a s hs; rw [hs] at h; rw [← show s = σ from h]; exact IsFrame.refl _

theorem rx_tokens : Respects RX (tokens (F := F)) := any_tokens
macro_rules | `(tactic| respects_prim) => `(tactic| exact rx_tokens)

theorem rx_peek : Respects RX (peek (F := F)) := by
  unfold peek
  respects_tac
macro_rules | `(tactic| respects_prim) => `(tactic| exact rx_peek)

theorem rx_advance : Respects RX (advance (F := F)) := by
  unfold advance
  respects_tac
macro_rules | `(tactic| respects_prim) => `(tactic| exact rx_advance)

theorem rx_next : Respects RX (next (F := F)) := by
  unfold next
  respects_tac
macro_rules | `(tactic| respects_prim) => `(tactic| exact rx_next)

theorem rx_hasNext : Respects RX (hasNext (F := F)) := by
  unfold hasNext
  respects_tac
macro_rules | `(tactic| respects_prim) => `(tactic| exact rx_hasNext)

theorem rx_nextUnwrapped : Respects RX (nextUnwrapped (F := F)) := by
  unfold nextUnwrapped
  respects_tac
macro_rules | `(tactic| respects_prim) => `(tactic| exact rx_nextUnwrapped)

theorem rx_expect (k : Kw) : Respects RX (expect (F := F) k) := by
  unfold expect
  respects_tac
macro_rules | `(tactic| respects_prim) => `(tactic| exact rx_expect _)

theorem rx_accept (k : Kw) : Respects RX (accept (F := F) k) := by
  unfold accept
  respects_tac
macro_rules | `(tactic| respects_prim) => `(tactic| exact rx_accept _)

theorem rx_peekIsKw (k : Kw) : Respects RX (peekIsKw (F := F) k) := by
  unfold peekIsKw
  respects_tac
macro_rules | `(tactic| respects_prim) => `(tactic| exact rx_peekIsKw _)

theorem rx_tryNext {α : Type} (f : Token F → Option α) : Respects RX (tryNext f) := by
  unfold tryNext
  respects_tac
macro_rules | `(tactic| respects_prim) => `(tactic| exact rx_tryNext _)

theorem rx_discardRemaining : Respects RX (discardRemaining (F := F)) := by
  unfold discardRemaining
  respects_tac
macro_rules | `(tactic| respects_prim) => `(tactic| exact rx_discardRemaining)

theorem rx_emit (o : Out) : Respects RX (emit (F := F) o) := by
  unfold emit
  respects_tac
macro_rules | `(tactic| respects_prim) => `(tactic| exact rx_emit _)

theorem rx_enterNested : Respects RX (enterNested (F := F)) := by
  unfold enterNested
  respects_tac
macro_rules | `(tactic| respects_prim) => `(tactic| exact rx_enterNested)

theorem rx_exitNested : Respects RX (exitNested (F := F)) := by
  unfold exitNested
  respects_tac
macro_rules | `(tactic| respects_prim) => `(tactic| exact rx_exitNested)

theorem rx_nested {α : Type} {m : M F α} (hm : Respects RX m) : Respects RX (nested m) := by
  unfold nested
  respects_tac

/-! ### Arrays.lean / Expr.lean -/

theorem rx_lineBudget : Respects RX (lineBudget (F := F)) := by
  unfold lineBudget
  respects_tac
macro_rules | `(tactic| respects_prim) => `(tactic| exact rx_lineBudget)

theorem rx_warn (msg : Str) : Respects RX (warn (F := F) msg) := by
  unfold warn
  respects_tac
macro_rules | `(tactic| respects_prim) => `(tactic| exact rx_warn _)

theorem rx_warnUndeclaredArray (name : Str) : Respects RX (warnUndeclaredArray (F := F) name) := by
  unfold warnUndeclaredArray
  respects_tac
macro_rules | `(tactic| respects_prim) => `(tactic| exact rx_warnUndeclaredArray _)

theorem rx_ensureArray (name : Str) (k : Nat) : Respects RX (ensureArray (F := F) name k) := by
  unfold ensureArray
  apply respects_get_bind
  intro σ
  by_cases hh : alHas name σ.arrays = true
  · rw [if_pos hh]; exact (respects_pure _).at σ
  · rw [if_neg hh]
    cases hc : ArrayV.create (F := F) name (List.replicate k Extracted.defaultArraySize) with
    | error e => exact (respects_fail _).at σ
    | ok a =>
      apply respectsAt_set
      exact ⟨rfl, rfl, rfl, rfl, rfl, rfl, rfl, rfl, rfl, rfl, rfl, rfl, rfl,
        arrExt_add σ.arrays name k a (by simpa using hh) hc⟩
macro_rules | `(tactic| respects_prim) => `(tactic| exact rx_ensureArray _ _)

theorem rx_arrayGet (name : Str) (idx : List Nat) : Respects RX (arrayGet (F := F) name idx) := by
  unfold arrayGet
  respects_tac
macro_rules | `(tactic| respects_prim) => `(tactic| exact rx_arrayGet _ _)

/-- `rnd` with its large constants abstracted -/
def rndG (big : Nat) (prodf modf : Nat → Nat) (x : F) : M F F := do
  let s ← get
  if NumOps.lt x NumOps.zero then fail .unimplemented
  else if NumOps.eq x NumOps.zero then pure (rngValue s.rng)
  else
    let prod := prodf s.rng
    if prod ≥ big then rpanic "rng: attempt to multiply with overflow"
    else
      let seed := modf prod
      set { s with rng := seed }
      pure (rngValue seed)

theorem rnd_eq (x : F) :
    rnd x = rndG (2 ^ 64) (fun r => Extracted.rngMultiplier * r + Extracted.rngIncrement)
      (fun p => p % Extracted.rngModulus) x := rfl

theorem rx_rndG (big : Nat) (prodf modf : Nat → Nat) (x : F) : Respects RX (rndG big prodf modf x) := by
  unfold rndG
  respects_tac

theorem rx_rnd (x : F) : Respects RX (rnd x) := by
  rw [rnd_eq]; exact rx_rndG _ _ _ _
macro_rules | `(tactic| respects_prim) => `(tactic| exact rx_rnd _)

/-- the call proper: push the frame, evaluate the body, pop the frame on both paths -/
def callBody (ev : Evals F) (name : Str) (bindings : List (Str × Value F)) : M F (Option (Value F)) := do
  pushFunctionCall name bindings
  match ← attempt ev.expr with
  | .ok v =>
    popFunctionCall
    pure (some v)
  | .error e =>
    let s ← get
    let e := s.populate e
    popFunctionCall
    throw e

/-- what the call proper does, spelled out:
    refused at the stack cap / for an unknown name (state untouched); otherwise
    the body runs from the state with the frame pushed and the cursor on the
    definition, and from the body's final state `s` the frame is popped and the
    cursor put back. -/
theorem callBody_eq (ev : Evals F) (name : Str) (b : List (Str × Value F)) (σ : St F) :
    callBody ev name b σ =
      if (σ.stack.length == Extracted.stackLimit) = true then .err { err := .oomStack } σ
      else match alGet name σ.fns with
        | none => .err { err := .panic "function must exist" } σ
        | some d =>
          match ev.expr { σ with stack := { ret := σ.loc, vars := b } :: σ.stack,
                                 loc := { line := some d.line, idx := d.idx } } with
          | .ok v s =>
            (match s.stack with
             | [] => .err { err := .panic "stack must not be empty" } s
             | f :: rest => .ok (some v) { s with stack := rest, loc := f.ret })
          | .err e s =>
            (match s.stack with
             | [] => .err { err := .panic "stack must not be empty" } s
             | f :: rest => .err (s.populate e) { s with stack := rest, loc := f.ret }) := by
  by_cases hl : (σ.stack.length == Extracted.stackLimit) = true
  · simp [callBody, pushFunctionCall, bind, M.bindM, M.get, hl, M.fail]
  · rw [if_neg hl]
    cases hd : alGet name σ.fns with
    | none => simp [callBody, pushFunctionCall, bind, M.bindM, M.get, hl, hd, M.rpanic]
    | some d =>
      simp only [callBody, pushFunctionCall, bind, M.bindM, M.get, hl, hd, M.set, M.attempt,
        Bool.false_eq_true, if_false]
      cases ev.expr { σ with stack := { ret := σ.loc, vars := b } :: σ.stack,
                             loc := { line := some d.line, idx := d.idx } } with
      | ok v s =>
        dsimp only
        simp only [popFunctionCall, bind, M.bindM, M.get]
        cases s.stack <;> rfl
      | err e s =>
        dsimp only
        simp only [popFunctionCall, bind, M.bindM, M.get]
        cases s.stack <;> rfl

theorem userFunctionCall_eq (ev : Evals F) (name : Str) :
    userFunctionCall ev name = (do
      let s ← get
      match alGet name s.fns with
      | none => pure none
      | some d =>
        expect .LeftParen
        let bindings ← bindArgs ev d.args.length d.args 0 []
        expect .RightParen
        callBody ev name bindings) := rfl

section evaluator
variable (ev : Evals F) (he : Respects RX ev.expr)
include he

theorem rx_callBody (name : Str) (b : List (Str × Value F)) : Respects RX (callBody ev name b) := by
  apply respects_of_at
  intro σ
  have key : RX σ (callBody ev name b σ).final := by
    rw [callBody_eq]
    by_cases hl : (σ.stack.length == Extracted.stackLimit) = true
    · rw [if_pos hl]; exact IsFrame.refl σ
    · rw [if_neg hl]
      cases hd : alGet name σ.fns with
      | none => exact IsFrame.refl σ
      | some d =>
        dsimp only
        have hx := he.final { σ with stack := { ret := σ.loc, vars := b } :: σ.stack,
                                     loc := { line := some d.line, idx := d.idx } }
        cases hr : ev.expr { σ with stack := { ret := σ.loc, vars := b } :: σ.stack,
                                    loc := { line := some d.line, idx := d.idx } } with
        | ok v s =>
          rw [hr] at hx
          have hs : s.stack = { ret := σ.loc, vars := b } :: σ.stack := hx.stack
          dsimp only
          rw [hs]
          exact ⟨hx.lines, hx.imm, rfl, hx.bp, rfl, hx.loops, hx.data, hx.fns, hx.vars, hx.input,
            hx.state, hx.warnings, hx.tracing, hx.arrays⟩
        | err e s =>
          rw [hr] at hx
          have hs : s.stack = { ret := σ.loc, vars := b } :: σ.stack := hx.stack
          dsimp only
          rw [hs]
          exact ⟨hx.lines, hx.imm, rfl, hx.bp, rfl, hx.loops, hx.data, hx.fns, hx.vars, hx.input,
            hx.state, hx.warnings, hx.tracing, hx.arrays⟩
  constructor
  · intro a s hs; rw [hs] at key; exact key
  · intro a s hs; rw [hs] at key; exact key

theorem rx_arrayIndexLoop (n : Nat) (acc : List Nat) : Respects RX (arrayIndexLoop ev n acc) := by
  induction n generalizing acc with
  | zero => unfold arrayIndexLoop; respects_tac
  | succ n ih => unfold arrayIndexLoop; respects_tac

theorem rx_arrayIndex : Respects RX (arrayIndex ev) := by
  unfold arrayIndex
  have := rx_arrayIndexLoop ev he
  respects_tac

theorem rx_numberFunctionArg : Respects RX (numberFunctionArg ev) := by
  unfold numberFunctionArg
  respects_tac

theorem rx_bindArgs (arity : Nat) (args : List Str) (i : Nat) (acc : List (Str × Value F)) :
    Respects RX (bindArgs ev arity args i acc) := by
  induction args generalizing i acc with
  | nil => unfold bindArgs; respects_tac
  | cons a rest ih => unfold bindArgs; respects_tac

theorem rx_userFunctionCall (name : Str) : Respects RX (userFunctionCall ev name) := by
  rw [userFunctionCall_eq]
  have := rx_bindArgs ev he
  have := rx_callBody ev he
  respects_tac

theorem rx_functionCall (name : Str) : Respects RX (functionCall ev name) := by
  unfold functionCall
  have := rx_numberFunctionArg ev he
  have := rx_userFunctionCall ev he
  respects_tac

theorem rx_term : Respects RX (term ev) := by
  unfold term
  have := rx_functionCall ev he
  have := rx_arrayIndex ev he
  respects_tac

theorem rx_parenExpr : Respects RX (parenExpr ev) := by
  unfold parenExpr
  have := rx_term ev he
  respects_tac

theorem rx_unaryExpr : Respects RX (unaryExpr ev) := by
  unfold unaryExpr
  have := rx_parenExpr ev he
  respects_tac

omit he in
theorem rx_levelLoop {sub : M F (Value F)} (hs : Respects RX sub) (ops : Token F → Option BinOp)
    (n : Nat) (v : Value F) : Respects RX (levelLoop sub ops n v) := by
  induction n generalizing v with
  | zero => unfold levelLoop; respects_tac
  | succ n ih => unfold levelLoop; respects_tac

omit he in
theorem rx_level {sub : M F (Value F)} (hs : Respects RX sub) (ops : Token F → Option BinOp) :
    Respects RX (level sub ops) := by
  unfold level
  have := rx_levelLoop hs ops
  respects_tac

theorem rx_orExpr : Respects RX (orExpr ev) := by
  unfold orExpr
  exact rx_level (rx_level (rx_level (rx_level (rx_level (rx_level
    (rx_unaryExpr ev he) _) _) _) _) _) _

theorem rx_exprBody : Respects RX (exprBody ev) := by
  unfold exprBody
  exact rx_nested (rx_orExpr ev he)

theorem rx_optionalArrayIndex : Respects RX (optionalArrayIndex ev) := by
  unfold optionalArrayIndex
  have := rx_arrayIndex ev he
  respects_tac

theorem rx_printLoop (n : Nat) (semi : Bool) (acc : Str) : Respects RX (printLoop ev n semi acc) := by
  induction n generalizing semi acc with
  | zero => unfold printLoop; respects_tac
  | succ n ih => unfold printLoop; respects_tac

theorem rx_printStatement : Respects RX (printStatement ev) := by
  unfold printStatement
  have := rx_printLoop ev he
  respects_tac

end evaluator

/-- every expression evaluation, at every fuel, respects the frame -/
theorem rx_evalN_expr (n : Nat) : Respects RX (evalN (F := F) n).expr := by
  induction n with
  | zero => exact respects_fail _
  | succ n ih => exact rx_exprBody _ ih

end Abasic.Proofs.XF
