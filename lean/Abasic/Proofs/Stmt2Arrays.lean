import Abasic.Proofs.Stmt2Lemmas
import Abasic.Proofs.WF
/-
  C03, arrays — the statement evaluator on DIM and on assignment to an array
  cell (continues Proofs/Stmt2Lemmas.lean).
-/
set_option linter.unusedSectionVars false

namespace Abasic.Stmt2L
open Abasic Abasic.Ref Abasic.StmtL Abasic.ProgL Abasic.Prog2L Abasic.Hoare M
open Abasic.ExprL hiding Quiet expr_eq main
open Abasic.ExprG (Quiet expr_eq main)

variable {F : Type} [NumOps F]

/-! ### the errors of the array operations -/

theorem create_err (name : Str) (idx : List Nat) (e : Err)
    (h : ArrayV.create (F := F) name idx = .error e) : e = .badSubscript ∨ e = .oomArray := by
  unfold ArrayV.create at h
  split at h
  · simp only [Except.error.injEq] at h; exact Or.inl h.symm
  · split at h
    · rename_i e' he
      simp only [Except.error.injEq] at h; subst h
      exact Or.inr (WF.dimSizes_err _ _ _ _ he)
    · split at h
      · simp only [Except.error.injEq] at h; exact Or.inr h.symm
      · split at h <;> cases h

theorem create_nd {name : Str} {idx : List Nat} {e : Err}
    (h : ArrayV.create (F := F) name idx = .error e) : e ≠ .dataTypeMismatch := by
  rcases create_err name idx e h with rfl | rfl <;> simp

theorem linearIndexAux_err : ∀ (is ds : List Nat) (lin stride : Nat) (e : Err),
    linearIndexAux is ds lin stride = .error e → e = .badSubscript
  | [], [], _, _, e, h => by simp [linearIndexAux] at h
  | [], _ :: _, _, _, e, h => by simp only [linearIndexAux, Except.error.injEq] at h; exact h.symm
  | _ :: _, [], _, _, e, h => by simp only [linearIndexAux, Except.error.injEq] at h; exact h.symm
  | i :: is, d :: ds, lin, stride, e, h => by
    simp only [linearIndexAux] at h
    split at h
    · simp only [Except.error.injEq] at h; exact h.symm
    · exact linearIndexAux_err is ds _ _ e h

theorem linearIndex_nd {index dims : List Nat} {e : Err} (h : linearIndex index dims = .error e) :
    e ≠ .dataTypeMismatch := by
  unfold linearIndex at h
  split at h
  · simp only [Except.error.injEq] at h; subst h; simp
  · rw [linearIndexAux_err _ _ _ _ e h]; simp

/-! ### subscripts -/

theorem arrayIndexLoop_unfold (ev : Evals F) (n : Nat) (acc : List Nat) :
    arrayIndexLoop ev (n + 1) acc = (ev.expr >>= fun v =>
      match v with
      | .str _ => fail .typeMismatch
      | .num x =>
        if NumOps.toI64 x < 0 then fail .illegalQuantity
        else accept .Comma >>= fun b =>
          if b then arrayIndexLoop ev n (acc ++ [(NumOps.toI64 x).toNat]) else pure (acc ++ [(NumOps.toI64 x).toNat])) := rfl

/-- the subscript loop against `foldSubs` -/
theorem idxLoop_run (f : Nat) (rest : List (Token F)) :
    ∀ (es : List (Expr F)), es ≠ [] → ∀ (k : Nat) (σ : St F) (pre : List (Token F)) (acc : List Nat),
      At σ pre (renderSubs2 es ++ .kw .RightParen :: rest) → Quiet σ → σ.fns = [] →
      argsDepth es ≤ f → σ.nesting + argsDepth es ≤ Extracted.nestingLimit →
      (renderSubs2 es).length < k →
      match foldSubs (getVar σ) es with
      | .ok is => ∃ r, σ.reads < r ∧
          arrayIndexLoop (evalN f) k acc σ = .ok (acc ++ is) (mv σ (renderSubs2 es).length r)
      | .error err => err ≠ .dataTypeMismatch ∧
          ∃ σ', arrayIndexLoop (evalN f) k acc σ = .err { err := err } σ' ∧ σ'.loc.line = σ.loc.line ∧
            σ'.out = σ.out := by
  intro es
  induction es with
  | nil => intro h; exact absurd rfl h
  | cons e es' ih =>
    intro _ k σ pre acc hAt hq hfn hd hn hk
    have hde : depth e + 1 ≤ f := by simp only [argsDepth] at hd; omega
    have hne : σ.nesting + (depth e + 1) ≤ Extracted.nestingLimit := by simp only [argsDepth] at hn; omega
    cases es' with
    | nil =>
      have hAt0 : At σ pre (render e ++ .kw .RightParen :: rest) := hAt
      have hlen : (renderSubs2 [e]).length = (render e).length := rfl
      obtain ⟨k', rfl⟩ : ∃ k', k = k' + 1 := ⟨k - 1, by omega⟩
      rw [arrayIndexLoop_unfold]
      have hX := expr_run e f σ pre _ hde hne (ends_rparen 6 rest) hAt0 hq hfn
      cases hev : foldE (getVar σ) e with
      | error err =>
        rw [hev] at hX
        obtain ⟨hnd, σ', hσ', hl, ho⟩ := hX
        have hfi : foldSubs (getVar σ) [e] = .error err := by simp only [foldSubs, numE, hev]
        rw [hfi]
        exact ⟨hnd, σ', bind_err hσ', hl, ho⟩
      | ok v =>
        rw [hev] at hX
        obtain ⟨r1, hr1, hσ1⟩ := hX
        rw [bind_ok hσ1]
        cases v with
        | str s =>
          have hfi : foldSubs (getVar σ) [e] = .error .typeMismatch := by simp only [foldSubs, numE, hev]
          rw [hfi]
          exact ⟨by simp, _, rfl, rfl, rfl⟩
        | num x =>
          by_cases hneg : NumOps.toI64 x < 0
          · have hfi : foldSubs (getVar σ) [e] = .error .illegalQuantity := by
              simp only [foldSubs, numE, hev, hneg, ↓reduceIte]
            rw [hfi]
            simp only [hneg, ↓reduceIte]
            exact ⟨by simp, _, rfl, rfl, rfl⟩
          · have hfi : foldSubs (getVar σ) [e] = .ok [(NumOps.toI64 x).toNat] := by
              simp only [foldSubs, numE, hev, hneg, ↓reduceIte]
            rw [hfi]
            simp only [hneg, ↓reduceIte]
            have hAt1 := at_mv hAt0 r1
            rw [bind_ok (accept_false hAt1 rfl), mv_mv]
            exact ⟨r1 + 1, by omega, rfl⟩
    | cons e' es'' =>
      have hAt0 : At σ pre (render e ++ .kw .Comma :: (renderSubs2 (e' :: es'') ++ .kw .RightParen :: rest)) := by
        simpa only [renderSubs2, List.append_assoc, List.cons_append] using hAt
      have hlen : (renderSubs2 (e :: e' :: es'')).length = (render e).length + 1 + (renderSubs2 (e' :: es'')).length := by
        simp only [renderSubs2, List.length_append, List.length_cons]; omega
      have hdr : argsDepth (e' :: es'') ≤ f := by simp only [argsDepth] at hd ⊢; omega
      have hnr : σ.nesting + argsDepth (e' :: es'') ≤ Extracted.nestingLimit := by
        simp only [argsDepth] at hn ⊢; omega
      obtain ⟨k', rfl⟩ : ∃ k', k = k' + 1 := ⟨k - 1, by omega⟩
      rw [arrayIndexLoop_unfold]
      have hX := expr_run e f σ pre _ hde hne (ends_comma 6 _) hAt0 hq hfn
      cases hev : foldE (getVar σ) e with
      | error err =>
        rw [hev] at hX
        obtain ⟨hnd, σ', hσ', hl, ho⟩ := hX
        have hfi : foldSubs (getVar σ) (e :: e' :: es'') = .error err := by simp only [foldSubs, numE, hev]
        rw [hfi]
        exact ⟨hnd, σ', bind_err hσ', hl, ho⟩
      | ok v =>
        rw [hev] at hX
        obtain ⟨r1, hr1, hσ1⟩ := hX
        rw [bind_ok hσ1]
        cases v with
        | str s =>
          have hfi : foldSubs (getVar σ) (e :: e' :: es'') = .error .typeMismatch := by
            simp only [foldSubs, numE, hev]
          rw [hfi]
          exact ⟨by simp, _, rfl, rfl, rfl⟩
        | num x =>
          by_cases hneg : NumOps.toI64 x < 0
          · have hfi : foldSubs (getVar σ) (e :: e' :: es'') = .error .illegalQuantity := by
              simp only [foldSubs, numE, hev, hneg, ↓reduceIte]
            rw [hfi]
            simp only [hneg, ↓reduceIte]
            exact ⟨by simp, _, rfl, rfl, rfl⟩
          · simp only [hneg, ↓reduceIte]
            have hAt1 := at_mv hAt0 r1
            rw [bind_ok (accept_true hAt1 rfl), mv_mv]
            simp only [↓reduceIte]
            have hAt2 := at_mv1 hAt1 (r1 + 1)
            rw [mv_mv] at hAt2
            have hI := ih (by simp) k' (mv σ ((render e).length + 1) (r1 + 1)) _ (acc ++ [(NumOps.toI64 x).toNat])
              hAt2 (hq.mv _ _) hfn hdr hnr (by rw [hlen] at hk; omega)
            rw [getVar_mv] at hI
            have hfi : foldSubs (getVar σ) (e :: e' :: es'') =
                (match foldSubs (getVar σ) (e' :: es'') with
                 | .error err => .error err
                 | .ok is => .ok ((NumOps.toI64 x).toNat :: is)) := by
              rw [foldSubs]
              simp only [numE, hev, hneg, ↓reduceIte]
              rfl
            rw [hfi]
            cases hrest : foldSubs (getVar σ) (e' :: es'') with
            | error err =>
              rw [hrest] at hI
              obtain ⟨hnd, σ', hσ', hl, ho⟩ := hI
              exact ⟨hnd, σ', hσ', hl, ho⟩
            | ok is =>
              rw [hrest] at hI
              obtain ⟨r2, hr2, hσ2⟩ := hI
              simp only [mv_reads, mv_mv] at hr2 hσ2
              refine ⟨r2, by omega, ?_⟩
              simp only [mv_reads]
              rw [hσ2]
              simp only [List.append_assoc, List.cons_append, List.nil_append, hlen]

/-- `( e₁ , … )` after an array name -/
theorem optIdx_run (f : Nat) (es : List (Expr F)) (hes : es ≠ []) (σ : St F) (pre rest : List (Token F))
    (hAt : At σ pre (.kw .LeftParen :: (renderSubs2 es ++ .kw .RightParen :: rest)))
    (hq : Quiet σ) (hfn : σ.fns = []) (hd : argsDepth es ≤ f)
    (hn : σ.nesting + argsDepth es ≤ Extracted.nestingLimit) :
    match foldSubs (getVar σ) es with
    | .ok is => ∃ r, σ.reads < r ∧
        optionalArrayIndex (evalN f) σ = .ok (some is) (mv σ (1 + (renderSubs2 es).length + 1) r)
    | .error err => err ≠ .dataTypeMismatch ∧
        ∃ σ', optionalArrayIndex (evalN f) σ = .err { err := err } σ' ∧ σ'.loc.line = σ.loc.line ∧
          σ'.out = σ.out := by
  have hAt0 := at_mv0 hAt (σ.reads + 1)
  have hAt1 := at_mv1 hAt0 (σ.reads + 1 + 1)
  rw [mv_mv] at hAt1
  have hk : (Token.kw (F := F) Kw.LeftParen).isKw Kw.LeftParen = true := rfl
  have hL := idxLoop_run f rest es hes ((pre ++ [Token.kw Kw.LeftParen] ++
      (renderSubs2 es ++ Token.kw Kw.RightParen :: rest)).length + 1) (mv σ (0 + 1) (σ.reads + 1 + 1)) _ [] hAt1
    (hq.mv _ _) hfn hd hn (by simp only [List.length_append]; omega)
  rw [getVar_mv] at hL
  unfold optionalArrayIndex
  rw [bind_ok (peekIsKw_cons .LeftParen hAt)]
  simp only [hk, ↓reduceIte]
  cases hfi : foldSubs (getVar σ) es with
  | error err =>
    rw [hfi] at hL
    obtain ⟨hnd, σ', hσ', hl, ho⟩ := hL
    refine ⟨hnd, σ', ?_, hl, ho⟩
    apply bind_err
    unfold arrayIndex
    rw [bind_ok (expect_eq hAt0 rfl), mv_mv]
    simp only [mv_reads]
    rw [bind_ok (lineBudget_eq hAt1.1)]
    exact bind_err hσ'
  | ok is =>
    rw [hfi] at hL
    obtain ⟨r, hr, hσ'⟩ := hL
    simp only [mv_reads, mv_mv, List.nil_append] at hr hσ'
    have hAt2 : At (mv σ (0 + 1 + (renderSubs2 es).length) r) (pre ++ [Token.kw Kw.LeftParen] ++ renderSubs2 es)
        (.kw .RightParen :: rest) := by
      have := at_mv hAt1 r
      rwa [mv_mv] at this
    have hai : arrayIndex (evalN f) (mv σ 0 (σ.reads + 1)) =
        .ok is (mv σ (0 + 1 + (renderSubs2 es).length + 1) (r + 1)) := by
      unfold arrayIndex
      rw [bind_ok (expect_eq hAt0 rfl), mv_mv]
      simp only [mv_reads]
      rw [bind_ok (lineBudget_eq hAt1.1), bind_ok hσ', bind_ok (expect_eq hAt2 rfl), mv_mv]
      rfl
    refine ⟨r + 1, by omega, ?_⟩
    rw [bind_ok hai]
    simp only [pure_eq]

/-- an array name and its subscripts -/
theorem parseLValue_run (f : Nat) (name : Str) (es : List (Expr F)) (hes : es ≠ []) (σ : St F)
    (pre rest : List (Token F))
    (hAt : At σ pre (.symbol name :: .kw .LeftParen :: (renderSubs2 es ++ .kw .RightParen :: rest)))
    (hq : Quiet σ) (hfn : σ.fns = []) (hd : argsDepth es ≤ f)
    (hn : σ.nesting + argsDepth es ≤ Extracted.nestingLimit) :
    match foldSubs (getVar σ) es with
    | .ok is => ∃ r, σ.reads < r ∧
        parseLValue (evalN f) σ = .ok { name := name, index := some is } (mv σ (1 + (1 + (renderSubs2 es).length + 1)) r)
    | .error err => err ≠ .dataTypeMismatch ∧
        ∃ σ', parseLValue (evalN f) σ = .err { err := err } σ' ∧ σ'.loc.line = σ.loc.line ∧ σ'.out = σ.out := by
  have hAt1 := at_mv1 hAt (σ.reads + 1)
  have hO := optIdx_run f es hes (mv σ 1 (σ.reads + 1)) _ _ hAt1 (hq.mv _ _) hfn hd hn
  rw [getVar_mv] at hO
  unfold parseLValue
  rw [bind_ok (next_eq hAt)]
  simp only
  cases hfi : foldSubs (getVar σ) es with
  | error err =>
    rw [hfi] at hO
    obtain ⟨hnd, σ', hσ', hl, ho⟩ := hO
    exact ⟨hnd, σ', bind_err hσ', hl, ho⟩
  | ok is =>
    rw [hfi] at hO
    obtain ⟨r, hr, hσ'⟩ := hO
    simp only [mv_reads, mv_mv] at hr hσ'
    exact ⟨r, by omega, by rw [bind_ok hσ']; rfl⟩

/-! ### DIM -/

theorem exec_dim_err {items : List (Nat × DataElement F)} {n j : Nat} {r : RState2 F} {name : Str}
    {dims : List (Expr F)} {err : Err} (h : foldSubs (envOf r.vars) dims = .error err) :
    (RStmt2.dimS name dims).exec items n j r = (r, .error err) := by
  simp only [RStmt2.exec, h]

theorem dim_run {p : RProgram2 F} {r : RState2 F} {σ : St F} {n j : Nat} {ss : List (RStmt2 F)} {name : Str}
    {dims : List (Expr F)} {fuel : Nat} (h : SReady2 p r σ n j ss (.dimS name dims) fuel) :
    Outcome p σ n ((preToks2 ss j).length + (renderS2 (.dimS name dims)).length) (renderLine2 ss).length
      (stmtBody (evalN fuel) σ) ((RStmt2.dimS name dims).exec (allData p) n j r).1
      ((RStmt2.dimS name dims).exec (allData p) n j r).2 := by
  have henv : getVar σ = envOf r.vars := by rw [getVar_eq_envOf, h.mem.vars]
  have hAt0 : At σ (preToks2 ss j) (.kw .Dim :: .symbol name :: .kw .LeftParen ::
      (renderSubs2 dims ++ .kw .RightParen :: renderTail2 (ss.drop (j + 1)))) := by
    have := h.at
    simpa only [renderS2, List.cons_append, List.append_assoc, List.nil_append] using this
  have hAt1 := at_mv1 hAt0 (σ.reads + 1)
  have hAt2 := at_mv1 hAt1 (σ.reads + 1 + 1)
  rw [mv_mv] at hAt2
  have hd := h.fuel
  have hn := h.nest
  simp only [sdepth2] at hd hn
  have hrun : stmtBody (evalN fuel) σ = dimStatement (evalN fuel) (mv σ 1 (σ.reads + 1)) := by
    unfold stmtBody
    rw [bind_ok (traceHere_off h.env.tracing)]
    unfold dispatch
    rw [bind_ok (next_eq hAt0)]
  rw [hrun]
  unfold dimStatement
  have hO := parseLValue_run fuel name dims h.covered (mv σ 1 (σ.reads + 1)) _ _ hAt1 (h.quiet.mv _ _) h.env.fns hd
    (by rw [mv_nesting, h.env.nesting]; omega)
  rw [getVar_mv, henv] at hO
  cases hfi : foldSubs (envOf r.vars) dims with
  | error err =>
    rw [hfi] at hO
    obtain ⟨hnd, σ', hσ', hl, ho⟩ := hO
    rw [exec_dim_err hfi]
    exact ⟨hnd, σ', bind_err hσ', by rw [hl]; exact h.locline, ho⟩
  | ok is =>
    rw [hfi] at hO
    obtain ⟨r1, hr1, hσ1⟩ := hO
    simp only [mv_reads, mv_mv] at hr1 hσ1
    rw [bind_ok hσ1]
    simp only
    have harr : (mv σ (1 + (1 + (1 + (renderSubs2 dims).length + 1))) r1).arrays = r.arrays := h.mem.arrays
    cases hhas : alHas name r.arrays with
    | true =>
      have hex : (RStmt2.dimS name dims).exec (allData p) n j r = (r, .error .redimensionedArray) := by
        simp only [RStmt2.exec, hfi, hhas, ↓reduceIte]
      rw [hex]
      refine ⟨by simp, mv σ (1 + (1 + (1 + (renderSubs2 dims).length + 1))) r1, ?_, h.locline, rfl⟩
      simp only [arrayCreate, bind, M.bindM, M.get, harr, hhas, ↓reduceIte, M.fail]
    | false =>
      cases hcr : ArrayV.create (F := F) name is with
      | error err =>
        have hex : (RStmt2.dimS name dims).exec (allData p) n j r = (r, .error err) := by
          simp only [RStmt2.exec, hfi, hhas, Bool.false_eq_true, ↓reduceIte, hcr]
        rw [hex]
        refine ⟨create_nd hcr, mv σ (1 + (1 + (1 + (renderSubs2 dims).length + 1))) r1, ?_, h.locline, rfl⟩
        simp only [arrayCreate, bind, M.bindM, M.get, harr, hhas, Bool.false_eq_true, ↓reduceIte, hcr, M.fail]
      | ok a =>
        have hex : (RStmt2.dimS name dims).exec (allData p) n j r =
            ({ r with arrays := alSet name a r.arrays }, .next) := by
          simp only [RStmt2.exec, hfi, hhas, Bool.false_eq_true, ↓reduceIte, hcr]
        rw [hex]
        refine ⟨{ mv σ (1 + (1 + (1 + (renderSubs2 dims).length + 1))) r1 with arrays := alSet name a r.arrays }, ?_,
          ⟨rfl, rfl, rfl, rfl, rfl, rfl⟩,
          ⟨h.mem.vars, rfl, h.mem.loops, h.mem.stack, h.mem.data, h.mem.out⟩, ?_⟩
        · simp only [arrayCreate, bind, M.bindM, M.get, harr, hhas, Bool.false_eq_true, ↓reduceIte, hcr, M.set]
        · show ({ line := σ.loc.line, idx := σ.loc.idx + _ } : Loc) = _
          rw [h.locline, h.idx]
          simp only [renderS2, List.length_cons, List.length_append, List.length_nil]
          congr 1
          omega

/-! ### assignment to a cell -/

theorem alSet_alSet {β : Type} (k : Str) (v v' : β) (l : List (Str × β)) :
    alSet k v' (alSet k v l) = alSet k v' l := by
  induction l with
  | nil => simp [alSet]
  | cons p ps ih =>
    obtain ⟨k0, v0⟩ := p
    by_cases hk : (k0 == k) = true
    · simp [alSet, hk]
    · simp [alSet, hk, ih]

/-- what `LET name(index) = v` does to the arrays -/
def cellStore (name : Str) (index : List Nat) (v : Value F) (arrays : List (Str × ArrayV F)) :
    Except Err (List (Str × ArrayV F)) :=
  if !v.matchesName name then .error .typeMismatch
  else
    match ensureArr name index.length arrays with
    | .error e => .error e
    | .ok a =>
      match cellSet a index v with
      | .error e => .error e
      | .ok a' => .ok (alSet name a' arrays)

/-- `arraySet` after the kind check and `ensureArray` -/
def arraySetTail (name : Str) (index : List Nat) (v : Value F) : M F Unit := do
  let s ← M.get
  match alGet name s.arrays with
  | none => M.rpanic "arrays: unwrap on None"
  | some a =>
    match a, v with
    | .strs dims cells, .str x =>
      (match linearIndex index dims with
       | .error e => M.fail e
       | .ok i =>
         if i < cells.length then M.set { s with arrays := alSet name (.strs dims (cells.set i x)) s.arrays }
         else M.rpanic "arrays: index out of bounds")
    | .nums dims cells, .num x =>
      (match linearIndex index dims with
       | .error e => M.fail e
       | .ok i =>
         if i < cells.length then M.set { s with arrays := alSet name (.nums dims (cells.set i x)) s.arrays }
         else M.rpanic "arrays: index out of bounds")
    | _, _ => M.fail .typeMismatch

theorem arraySet_eq (name : Str) (index : List Nat) (v : Value F) :
    arraySet name index v =
      (if !v.matchesName name then M.fail .typeMismatch
       else ensureArray name index.length >>= fun _ => arraySetTail name index v) := rfl

theorem cellSet_nd {a : ArrayV F} {index : List Nat} {v : Value F} {e : Err} (h : cellSet a index v = .error e) :
    e ≠ .dataTypeMismatch := by
  unfold cellSet at h
  cases a with
  | strs dims cells =>
    cases v with
    | str x =>
      simp only at h
      cases hl : linearIndex index dims with
      | error e' => rw [hl] at h; simp only [Except.error.injEq] at h; subst h; exact linearIndex_nd hl
      | ok i => rw [hl] at h; cases h
    | num x => simp only [Except.error.injEq] at h; subst h; simp
  | nums dims cells =>
    cases v with
    | num x =>
      simp only at h
      cases hl : linearIndex index dims with
      | error e' => rw [hl] at h; simp only [Except.error.injEq] at h; subst h; exact linearIndex_nd hl
      | ok i => rw [hl] at h; cases h
    | str x => simp only [Except.error.injEq] at h; subst h; simp

theorem arraySetTail_run (name : Str) (index : List Nat) (v : Value F) (σ : St F) (a : ArrayV F)
    (hget : alGet name σ.arrays = some a) (hwf : a.cellCount = Props.C16.prod a.dims) :
    match cellSet a index v with
    | .ok a' => arraySetTail name index v σ = .ok () { σ with arrays := alSet name a' σ.arrays }
    | .error e => arraySetTail name index v σ = .err { err := e } σ := by
  unfold arraySetTail
  simp only [bind, M.bindM, M.get, hget]
  cases a with
  | strs dims cells =>
    cases v with
    | str x =>
      simp only [cellSet]
      cases hl : linearIndex index dims with
      | error e => rfl
      | ok i =>
        have hb := WF.linearIndex_bound index dims i hl
        have hlt : i < cells.length := by
          have : cells.length = Props.C16.prod dims := hwf
          omega
        simp only [hlt, ↓reduceIte]
        rfl
    | num x => rfl
  | nums dims cells =>
    cases v with
    | num x =>
      simp only [cellSet]
      cases hl : linearIndex index dims with
      | error e => rfl
      | ok i =>
        have hb := WF.linearIndex_bound index dims i hl
        have hlt : i < cells.length := by
          have : cells.length = Props.C16.prod dims := hwf
          omega
        simp only [hlt, ↓reduceIte]
        rfl
    | str x => rfl

theorem arraySet_run (name : Str) (index : List Nat) (v : Value F) (σ : St F)
    (harr : ∀ k a, alGet k σ.arrays = some a → a.cellCount = Props.C16.prod a.dims) :
    match cellStore name index v σ.arrays with
    | .ok arrs => arraySet name index v σ = .ok () { σ with arrays := arrs }
    | .error e => e ≠ .dataTypeMismatch ∧
        ∃ σ', arraySet name index v σ = .err { err := e } σ' ∧ σ'.loc = σ.loc ∧ σ'.out = σ.out := by
  rw [arraySet_eq]
  unfold cellStore
  cases hm : v.matchesName name with
  | false =>
    simp only [Bool.not_false, ↓reduceIte]
    exact ⟨by simp, σ, rfl, rfl, rfl⟩
  | true =>
    simp only [Bool.not_true, Bool.false_eq_true, ↓reduceIte]
    cases hg : alGet name σ.arrays with
    | some a =>
      have hhas : alHas name σ.arrays = true := by simp only [alHas, hg, Option.isSome_some]
      have hens : ensureArray name index.length σ = .ok () σ := by
        simp only [ensureArray, bind, M.bindM, M.get, hhas, ↓reduceIte, pure, M.pureM]
      have hea : ensureArr name index.length σ.arrays = .ok a := by simp only [ensureArr, hg]
      rw [hea, bind_ok hens]
      dsimp only
      have hT := arraySetTail_run name index v σ a hg (harr name a hg)
      cases hcs : cellSet a index v with
      | ok a' => rw [hcs] at hT; exact hT
      | error e => rw [hcs] at hT; exact ⟨cellSet_nd hcs, σ, hT, rfl, rfl⟩
    | none =>
      have hhas : alHas name σ.arrays = false := by simp only [alHas, hg, Option.isSome_none]
      cases hcr : ArrayV.create (F := F) name (List.replicate index.length Extracted.defaultArraySize) with
      | error e =>
        have hens : ensureArray name index.length σ = .err { err := e } σ := by
          simp only [ensureArray, bind, M.bindM, M.get, hhas, Bool.false_eq_true, ↓reduceIte, hcr, M.fail]
        have hea : ensureArr name index.length σ.arrays = .error e := by simp only [ensureArr, hg, hcr]
        rw [hea, bind_err hens]
        exact ⟨create_nd hcr, σ, rfl, rfl, rfl⟩
      | ok a =>
        have hens : ensureArray name index.length σ = .ok () { σ with arrays := alSet name a σ.arrays } := by
          simp only [ensureArray, bind, M.bindM, M.get, hhas, Bool.false_eq_true, ↓reduceIte, hcr, M.set]
        have hea : ensureArr name index.length σ.arrays = .ok a := by simp only [ensureArr, hg, hcr]
        rw [hea, bind_ok hens]
        dsimp only
        have hT := arraySetTail_run name index v { σ with arrays := alSet name a σ.arrays } a
          (Props.C03.alGet_alSet name a σ.arrays) (Props.C16.create_spec name _ a hcr).1
        cases hcs : cellSet a index v with
        | ok a' =>
          rw [hcs] at hT
          rw [hT]
          show Res.ok () _ = Res.ok () _
          congr 1
          show ({ σ with arrays := alSet name a' (alSet name a σ.arrays) } : St F) = _
          rw [alSet_alSet]
        | error e => rw [hcs] at hT; exact ⟨cellSet_nd hcs, _, hT, rfl, rfl⟩

theorem exec_letCell {items : List (Nat × DataElement F)} {n j : Nat} {r : RState2 F} {name : Str}
    {idx : List (Expr F)} {e : Expr F} {index : List Nat} {v : Value F}
    (h1 : foldSubs (envOf r.vars) idx = .ok index) (h2 : foldE (envOf r.vars) e = .ok v) :
    (RStmt2.letCellS name idx e).exec items n j r =
      (match cellStore name index v r.arrays with
       | .ok arrs => ({ r with arrays := arrs }, .next)
       | .error err => (r, .error err)) := by
  simp only [RStmt2.exec, h1, h2, cellStore]
  cases hm : v.matchesName name with
  | false => rfl
  | true =>
    simp only [Bool.not_true, Bool.false_eq_true, ↓reduceIte]
    cases hea : ensureArr name index.length r.arrays with
    | error err => rfl
    | ok a =>
      simp only
      cases hcs : cellSet a index v with
      | error err => rfl
      | ok a' => rfl

theorem exec_letCell_err1 {items : List (Nat × DataElement F)} {n j : Nat} {r : RState2 F} {name : Str}
    {idx : List (Expr F)} {e : Expr F} {err : Err} (h1 : foldSubs (envOf r.vars) idx = .error err) :
    (RStmt2.letCellS name idx e).exec items n j r = (r, .error err) := by
  simp only [RStmt2.exec, h1]

theorem exec_letCell_err2 {items : List (Nat × DataElement F)} {n j : Nat} {r : RState2 F} {name : Str}
    {idx : List (Expr F)} {e : Expr F} {index : List Nat} {err : Err}
    (h1 : foldSubs (envOf r.vars) idx = .ok index) (h2 : foldE (envOf r.vars) e = .error err) :
    (RStmt2.letCellS name idx e).exec items n j r = (r, .error err) := by
  simp only [RStmt2.exec, h1, h2]

theorem warnUndeclared_off (name : Str) (σ : St F) (h : σ.warnings = false) :
    warnUndeclaredArray name σ = .ok () σ := by
  simp only [warnUndeclaredArray, bind, M.bindM, M.get, h, Bool.false_and, Bool.false_eq_true, ↓reduceIte, pure,
    M.pureM]

theorem letCell_run {p : RProgram2 F} {r : RState2 F} {σ : St F} {n j : Nat} {ss : List (RStmt2 F)} {name : Str}
    {idx : List (Expr F)} {e : Expr F} {fuel : Nat} (h : SReady2 p r σ n j ss (.letCellS name idx e) fuel) :
    Outcome p σ n ((preToks2 ss j).length + (renderS2 (.letCellS name idx e)).length) (renderLine2 ss).length
      (stmtBody (evalN fuel) σ) ((RStmt2.letCellS name idx e).exec (allData p) n j r).1
      ((RStmt2.letCellS name idx e).exec (allData p) n j r).2 := by
  have henv : getVar σ = envOf r.vars := by rw [getVar_eq_envOf, h.mem.vars]
  have hAt0 : At σ (preToks2 ss j) (.kw .Let :: .symbol name :: .kw .LeftParen ::
      (renderSubs2 idx ++ .kw .RightParen :: (.kw .Equals :: (render e ++ renderTail2 (ss.drop (j + 1)))))) := by
    have := h.at
    simpa only [renderS2, List.cons_append, List.append_assoc, List.nil_append] using this
  have hAt1 := at_mv1 hAt0 (σ.reads + 1)
  have hAt2 := at_mv1 hAt1 (σ.reads + 1 + 1)
  rw [mv_mv] at hAt2
  have hd := h.fuel
  have hn := h.nest
  simp only [sdepth2] at hd hn
  have hrun : stmtBody (evalN fuel) σ = assignmentStatement (evalN fuel) name (mv σ (1 + 1) (σ.reads + 1 + 1)) := by
    unfold stmtBody
    rw [bind_ok (traceHere_off h.env.tracing)]
    unfold dispatch
    rw [bind_ok (next_eq hAt0)]
    show letStatement (evalN fuel) _ = _
    unfold letStatement
    rw [bind_ok (next_eq hAt1), mv_mv]
    rfl
  rw [hrun]
  unfold assignmentStatement
  have hO := optIdx_run fuel idx h.covered (mv σ (1 + 1) (σ.reads + 1 + 1)) _ _ hAt2 (h.quiet.mv _ _) h.env.fns
    (by omega) (by rw [mv_nesting, h.env.nesting]; omega)
  rw [getVar_mv, henv] at hO
  cases hfi : foldSubs (envOf r.vars) idx with
  | error err =>
    rw [hfi] at hO
    obtain ⟨hnd, σ', hσ', hl, ho⟩ := hO
    rw [exec_letCell_err1 hfi]
    exact ⟨hnd, σ', bind_err hσ', by rw [hl]; exact h.locline, ho⟩
  | ok index =>
    rw [hfi] at hO
    obtain ⟨r1, hr1, hσ1⟩ := hO
    simp only [mv_reads, mv_mv] at hr1 hσ1
    rw [bind_ok hσ1]
    have hAt2' : At (mv σ (1 + 1) (σ.reads + 1 + 1)) (preToks2 ss j ++ [.kw .Let] ++ [.symbol name])
        ((.kw .LeftParen :: (renderSubs2 idx ++ [.kw .RightParen])) ++
          (.kw .Equals :: (render e ++ renderTail2 (ss.drop (j + 1))))) := by
      refine ⟨?_, hAt2.2⟩
      rw [hAt2.1]
      simp only [List.cons_append, List.append_assoc, List.nil_append]
    have hAt3 := at_mv hAt2' r1
    have hk3 : 1 + 1 + (Token.kw (F := F) Kw.LeftParen :: (renderSubs2 idx ++ [Token.kw Kw.RightParen])).length =
        1 + 1 + (1 + (renderSubs2 idx).length + 1) := by
      simp only [List.length_cons, List.length_append, List.length_nil]; omega
    rw [mv_mv, mv_congr σ r1 hk3] at hAt3
    rw [bind_ok (expect_eq hAt3 rfl), mv_mv]
    simp only [mv_reads]
    have hAt4 := at_mv1 hAt3 (r1 + 1)
    rw [mv_mv] at hAt4
    have hX := expr_run e fuel _ _ _ (by omega) (by rw [mv_nesting, h.env.nesting]; omega)
      (ends_of_stmtEnd h.lineEnd.stmtEnd 6) hAt4 (h.quiet.mv _ _) h.env.fns
    rw [getVar_mv, henv] at hX
    cases hev : foldE (envOf r.vars) e with
    | error err =>
      rw [hev] at hX
      obtain ⟨hnd, σ', hσ', hl, ho⟩ := hX
      rw [exec_letCell_err2 hfi hev]
      exact ⟨hnd, σ', bind_err hσ', by rw [hl]; exact h.locline, ho⟩
    | ok v =>
      rw [hev] at hX
      obtain ⟨r2, hr2, hσ2⟩ := hX
      simp only [mv_reads, mv_mv] at hr2 hσ2
      rw [bind_ok hσ2, exec_letCell hfi hev]
      show Outcome p σ n _ _ (assignValue { name := name, index := some index } v _) _ _
      have hav : assignValue (F := F) { name := name, index := some index } v
          (mv σ (1 + 1 + (1 + (renderSubs2 idx).length + 1) + 1 + (render e).length) r2) =
          arraySet name index v (mv σ (1 + 1 + (1 + (renderSubs2 idx).length + 1) + 1 + (render e).length) r2) := by
        show (warnUndeclaredArray name >>= fun _ => arraySet name index v) _ = _
        rw [bind_ok (warnUndeclared_off name
          (mv σ (1 + 1 + (1 + (renderSubs2 idx).length + 1) + 1 + (render e).length) r2) h.env.warnings)]
      rw [hav]
      have hA := arraySet_run name index v (mv σ (1 + 1 + (1 + (renderSubs2 idx).length + 1) + 1 + (render e).length) r2)
        (by intro k a hk; exact h.inv.arrs k a (by rw [← h.mem.arrays]; exact hk))
      have harr : (mv σ (1 + 1 + (1 + (renderSubs2 idx).length + 1) + 1 + (render e).length) r2).arrays = r.arrays :=
        h.mem.arrays
      rw [harr] at hA
      cases hcs : cellStore name index v r.arrays with
      | error err =>
        rw [hcs] at hA
        obtain ⟨hnd, σ', hσ', hl, ho⟩ := hA
        exact ⟨hnd, σ', hσ', by rw [hl]; exact h.locline, ho⟩
      | ok arrs =>
        rw [hcs] at hA
        refine ⟨_, hA, ⟨rfl, rfl, rfl, rfl, rfl, rfl⟩,
          ⟨h.mem.vars, rfl, h.mem.loops, h.mem.stack, h.mem.data, h.mem.out⟩, ?_⟩
        show ({ line := σ.loc.line, idx := σ.loc.idx + _ } : Loc) = _
        rw [h.locline, h.idx]
        simp only [renderS2, List.length_cons, List.length_append]
        congr 1
        omega

end Abasic.Stmt2L
