import Abasic.Proofs.Stmt3Store
import Abasic.Proofs.Prog2Rel
import Abasic.Proofs.Expr2Lemmas
/-
  C03, third layer — how a reference state (`RState3`) and a model state (`St`)
  correspond while a program runs (Proofs/Prog2Rel.lean for Ref/Stmt3.lean):

  * `AddrRel3`, `RetRel3`, `LoopRel3`, `DataRel3` — as in Prog2Rel.lean;
  * `Mem3`     — variables, arrays, generator state, loop stack, GOSUB stack, DATA,
                 output, and the function table: `FnsLink` (Proofs/Expr2Lemmas.lean:
                 every function of the reference table is stored with its
                 parameters and points at the tokens of its body) and the lines
                 of the definitions;
  * `Env3`     — what does not change during a run (store, flags);
  * `RInv3`    — invariants of the reference state;
  * `Outcome3` — what one activation of the statement evaluator has to do for
                 each `Ctl2` of the reference step.
-/
set_option linter.unusedSectionVars false

namespace Abasic.Prog3L
open Abasic Abasic.Ref Abasic.ExprL Abasic.ExprL2 Abasic.StmtL Abasic.ProgL M
open Abasic.Prog2L (Rel2)

variable {F : Type} [NumOps F]

/-! ### positions -/

/-- the reference position `(n, j)` — statement `j` of line `n`, where `j - 1` is
    a statement of that line — against the model location right behind statement `j - 1` -/
def AddrRel3 (p : RProgram3 F) (n j : Nat) (loc : Loc) : Prop :=
  ∃ ss j0 s, p.line n = some ss ∧ j = j0 + 1 ∧ ss[j0]? = some s ∧
    loc = { line := some n, idx := (preToks3 ss j0).length + (renderS3 s).length }

def RetRel3 (p : RProgram3 F) (a : Nat × Nat) (f : Frame F) : Prop :=
  f.vars = [] ∧ AddrRel3 p a.1 a.2 f.ret

def LoopRel3 (p : RProgram3 F) (l : RLoop F) (i : LoopInfo F) : Prop :=
  i.sym = l.var ∧ i.toV = l.limit ∧ i.stepV = l.step ∧ AddrRel3 p l.line l.idx i.loc

/-! ### DATA -/

/-- the DATA chunks of a program, as `Lines.dataChunks` computes them from its store -/
def progChunks3 (p : RProgram3 F) : List (Loc × List (DataElement F)) :=
  p.flatMap fun l => Props.C03.lineChunks (l.1, renderLine3 l.2)

def DataRel3 (p : RProgram3 F) (c : Nat) : Option (DataIter F) → Prop
  | none => c = 0
  | some it => it.chunks = progChunks3 p ∧
      Prog2L.remItems it = ((allData3 p).drop c).map fun x => (some x.1, x.2)

/-! ### states -/

structure Mem3 (p : RProgram3 F) (r : RState3 F) (σ : St F) : Prop where
  vars : σ.vars = r.vars
  arrays : σ.arrays = r.arrays
  rng : σ.rng = r.rng
  loops : Rel2 (LoopRel3 p) r.loops σ.loops
  stack : Rel2 (RetRel3 p) r.rets σ.stack
  data : DataRel3 p r.data σ.data
  out : σ.out = outRecs r.out
  fns : FnsLink σ r.fns
  fnLines : ∀ name fd, alGet name σ.fns = some fd → alGet name r.fnLines = some fd.line

structure Env3 (p : RProgram3 F) (σ : St F) : Prop where
  lines : Holds σ.lines p
  warnings : σ.warnings = false
  tracing : σ.tracing = false

structure RInv3 (r : RState3 F) : Prop where
  typed : ∀ k v, alGet k r.vars = some v → v.matchesName k = true
  arrs : ∀ k a, alGet k r.arrays = some a → a.cellCount = Props.C16.prod a.dims
  rng : r.rng < Extracted.rngModulus
  rets : r.rets.length ≤ Extracted.stackLimit

/-- what a statement leaves alone -/
structure Kept (σ σ' : St F) : Prop where
  lines : σ'.lines = σ.lines
  warnings : σ'.warnings = σ.warnings
  tracing : σ'.tracing = σ.tracing
  nesting : σ'.nesting = σ.nesting
  state : σ'.state = σ.state

theorem Kept.refl (σ : St F) : Kept σ σ := ⟨rfl, rfl, rfl, rfl, rfl⟩

theorem Kept.trans {a b c : St F} (h1 : Kept a b) (h2 : Kept b c) : Kept a c :=
  ⟨h2.lines.trans h1.lines, h2.warnings.trans h1.warnings, h2.tracing.trans h1.tracing,
   h2.nesting.trans h1.nesting, h2.state.trans h1.state⟩

theorem Kept.env {p : RProgram3 F} {σ σ' : St F} (h : Kept σ σ') (he : Env3 p σ) : Env3 p σ' :=
  ⟨by rw [h.lines]; exact he.lines, by rw [h.warnings]; exact he.warnings, by rw [h.tracing]; exact he.tracing⟩

/-- `Mem3` looks at these components of the model state only -/
theorem Mem3.congr {p : RProgram3 F} {r : RState3 F} {σ σ' : St F} (h : Mem3 p r σ)
    (h1 : σ'.vars = σ.vars) (h2 : σ'.arrays = σ.arrays) (h3 : σ'.rng = σ.rng) (h4 : σ'.loops = σ.loops)
    (h5 : σ'.stack = σ.stack) (h6 : σ'.data = σ.data) (h7 : σ'.out = σ.out) (h8 : σ'.fns = σ.fns)
    (h9 : σ'.lines = σ.lines) : Mem3 p r σ' where
  vars := h1.trans h.vars
  arrays := h2.trans h.arrays
  rng := h3.trans h.rng
  loops := by rw [h4]; exact h.loops
  stack := by rw [h5]; exact h.stack
  data := by rw [h6]; exact h.data
  out := h7.trans h.out
  fns := ⟨fun name hn => by rw [h8]; exact h.fns.undef name hn, fun name d hd => by
    obtain ⟨fd, pre, tail, a, b, c, d', e⟩ := h.fns.defd name d hd
    exact ⟨fd, pre, tail, by rw [h8]; exact a, b, by rw [h9]; exact c, d', e⟩⟩
  fnLines := by rw [h8]; exact h.fnLines

/-! ### errors -/

/-- the error was raised while the body of a user function was evaluated: the
    call has located it on the line of a function definition -/
def InFn (σ : St F) (te : TErr) : Prop :=
  ∃ (l : Loc) (name : Str) (fd : FnDef), te.loc = some l ∧ alGet name σ.fns = some fd ∧ l.line = some fd.line

/-- a run started in `σ` fails with `e`: nothing printed, the nesting counter and
    the line of the cursor as at the start; the error is not yet located, or it is
    located on the line of a function definition -/
def ErrFrom {α : Type} (σ : St F) (e : Err) (res : Res F α) : Prop :=
  ∃ te σ', res = .err te σ' ∧ te.err = e ∧ σ'.out = σ.out ∧ σ'.loc.line = σ.loc.line ∧
    σ'.nesting = σ.nesting ∧ (te.loc = none ∨ InFn σ te)

/-- token `i` of line `n` is a colon -/
def ColonAt (σ : St F) (n i : Nat) : Prop := ∃ ts, σ.lines.get n = some ts ∧ ts[i]? = some (.kw .Colon)

/-- The run `res` of one statement activation from `σ` (cursor on line `n`)
    against the reference result `(r', ctl)`.  `after`: the cursor position just
    behind the statement, `eol`: the length of the line.  (`next`: DEF skips the
    colon behind it as well.) -/
def Outcome3 (p : RProgram3 F) (σ : St F) (n after eol : Nat) (res : Res F Unit) (r' : RState3 F) : Ctl2 → Prop
  | .next => ∃ σ', res = .ok () σ' ∧ Kept σ σ' ∧ Mem3 p r' σ' ∧ σ'.loc.line = some n ∧
      (σ'.loc.idx = after ∨ (σ'.loc.idx = after + 1 ∧ ColonAt σ' n after))
  | .skipLine => ∃ σ', res = .ok () σ' ∧ Kept σ σ' ∧ Mem3 p r' σ' ∧ σ'.loc = { line := some n, idx := eol }
  | .jump m =>
    (σ.lines.has m = true →
      ∃ σ', res = .ok () σ' ∧ Kept σ σ' ∧ Mem3 p r' σ' ∧ σ'.loc = { line := some m, idx := 0 }) ∧
    (σ.lines.has m = false → ErrFrom σ .undefinedStatement res)
  | .stop => ∃ σ', res = .ok () σ' ∧ Kept σ σ' ∧ σ'.vars = r'.vars ∧ σ'.arrays = r'.arrays ∧
      σ'.out = outRecs r'.out ∧ σ'.loc = {} ∧ σ'.imm = []
  | .resume m k => ∃ σ', res = .ok () σ' ∧ Kept σ σ' ∧ Mem3 p r' σ' ∧ AddrRel3 p m k σ'.loc
  | .error e => e ≠ .dataTypeMismatch ∧ ErrFrom σ e res
  | .errorAt e ln => e = .dataTypeMismatch ∧
      ∃ σ' i, res = .err { err := e } σ' ∧ σ'.dataLoc = some { line := some ln, idx := i } ∧ σ'.out = σ.out ∧
        σ'.nesting = σ.nesting

/-! ### the stack is invisible to variable look-up -/

theorem frames_rets {p : RProgram3 F} {rets : List (Nat × Nat)} {stack : List (Frame F)}
    (h : Rel2 (RetRel3 p) rets stack) : stack.map (·.vars) = rets.map fun _ => [] := by
  induction h with
  | nil => rfl
  | cons hd _ ih => simp only [List.map_cons, hd.1, ih]

/-! ### loops -/

/-- `removeLoop` on corresponding loop stacks finds corresponding loops and leaves corresponding rests -/
theorem removeLoop_rel {p : RProgram3 F} {v : Str} {rl : List (RLoop F)} {ml : List (LoopInfo F)}
    (h : Rel2 (LoopRel3 p) rl ml) :
    match findLoop v rl, removeLoop v ml with
    | none, none => True
    | some (l, rest), some (i, mrest) => LoopRel3 p l i ∧ Rel2 (LoopRel3 p) rest mrest
    | _, _ => False := by
  induction h with
  | nil => simp [findLoop, removeLoop]
  | @cons l i rl' ml' hd tl ih =>
    simp only [findLoop, removeLoop, hd.1]
    by_cases hv : (l.var == v) = true
    · simp only [hv, ↓reduceIte]
      exact ⟨hd, tl⟩
    · simp only [hv, Bool.false_eq_true, ↓reduceIte]
      exact ih

theorem afterRemove_rel {p : RProgram3 F} (v : Str) {rl : List (RLoop F)} {ml : List (LoopInfo F)}
    (h : Rel2 (LoopRel3 p) rl ml) :
    Rel2 (LoopRel3 p) (keptLoops v rl) (Props.C16.afterRemove v ml) := by
  have := removeLoop_rel (v := v) h
  unfold keptLoops Props.C16.afterRemove
  cases h1 : findLoop v rl with
  | none =>
    cases h2 : removeLoop v ml with
    | none => exact h
    | some x => rw [h1, h2] at this; exact this.elim
  | some x =>
    cases h2 : removeLoop v ml with
    | none => rw [h1, h2] at this; exact this.elim
    | some y => rw [h1, h2] at this; exact this.2

end Abasic.Prog3L
