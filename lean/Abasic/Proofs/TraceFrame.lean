import Abasic.Proofs.Hoare
/-
  Frames for C17 (trace records):

  * `traces q` : the line numbers of the `Out.trace` records of a queue, in queue
    order (the queue is newest-first);
  * `RX` : tracing flag, program lines, trace records, GOSUB/function stack and
    the *line* of the cursor are unchanged — respected by the whole expression
    evaluator (on both the success and the error path: a user-function call
    pushes a frame, moves the cursor to the DEF line and pops it again);
  * `NT` : tracing flag, program lines and trace records unchanged — respected
    by every statement except the nested activation under IF;
  * `Rep u` : the trace records grow by some number of copies of `u`.
-/
set_option linter.unusedSectionVars false

namespace Abasic.Trace
open Abasic M Abasic.Hoare

variable {F : Type}

/-! ### trace records of a queue -/

def traceOf : Out → Option Nat
  | .trace n => some n
  | _ => none

/-- the `Out.trace` records of a queue, in queue order (newest first) -/
def traces (q : List Out) : List Nat := q.filterMap traceOf

theorem traces_nil : traces [] = [] := rfl
theorem traces_append (a b : List Out) : traces (a ++ b) = traces a ++ traces b := by
  unfold traces; exact List.filterMap_append
theorem traces_cons_trace (n : Nat) (q : List Out) : traces (.trace n :: q) = n :: traces q := rfl
theorem traces_map_trace (u : List Nat) : traces (u.map Out.trace) = u := by
  induction u with
  | nil => rfl
  | cons a r ih => rw [List.map_cons, traces_cons_trace, ih]

/-- `k` copies of the block `u` -/
def rep (k : Nat) (u : List Nat) : List Nat := (List.replicate k u).flatten

theorem rep_zero (u : List Nat) : rep 0 u = [] := rfl
theorem rep_succ (k : Nat) (u : List Nat) : rep (k + 1) u = u ++ rep k u := by
  unfold rep; rw [List.replicate_succ, List.flatten_cons]
theorem rep_add (a b : Nat) (u : List Nat) : rep (a + b) u = rep a u ++ rep b u := by
  induction a with
  | zero => rw [Nat.zero_add, rep_zero, List.nil_append]
  | succ a ih => rw [Nat.add_right_comm, rep_succ, rep_succ, ih, List.append_assoc]
theorem rep_nil (k : Nat) : rep k [] = [] := by
  induction k with
  | zero => rfl
  | succ k ih => rw [rep_succ, ih]; rfl
theorem rep_singleton (k n : Nat) : rep k [n] = List.replicate k n := by
  induction k with
  | zero => rfl
  | succ k ih => rw [rep_succ, ih, List.replicate_succ]; rfl
theorem rep_one (u : List Nat) : rep 1 u = u := by
  rw [rep_succ, rep_zero, List.append_nil]
theorem rep_succ' (k : Nat) (u : List Nat) : rep (k + 1) u = rep k u ++ u := by
  rw [rep_add, rep_one]

/-! ### the relations -/

def RX (σ σ' : St F) : Prop :=
  σ'.tracing = σ.tracing ∧ σ'.lines = σ.lines ∧ traces σ'.out = traces σ.out ∧
  σ'.stack = σ.stack ∧ σ'.loc.line = σ.loc.line

def NT (σ σ' : St F) : Prop :=
  σ'.tracing = σ.tracing ∧ σ'.lines = σ.lines ∧ traces σ'.out = traces σ.out

def Rep (u : List Nat) (σ σ' : St F) : Prop :=
  σ'.tracing = σ.tracing ∧ σ'.lines = σ.lines ∧ ∃ k, traces σ'.out = rep k u ++ traces σ.out

instance : IsFrame (RX (F := F)) where
  refl _ := ⟨rfl, rfl, rfl, rfl, rfl⟩
  trans h1 h2 := ⟨h2.1.trans h1.1, h2.2.1.trans h1.2.1, h2.2.2.1.trans h1.2.2.1,
    h2.2.2.2.1.trans h1.2.2.2.1, h2.2.2.2.2.trans h1.2.2.2.2⟩

instance : IsFrame (NT (F := F)) where
  refl _ := ⟨rfl, rfl, rfl⟩
  trans h1 h2 := ⟨h2.1.trans h1.1, h2.2.1.trans h1.2.1, h2.2.2.trans h1.2.2⟩

instance (u : List Nat) : IsFrame (Rep (F := F) u) where
  refl _ := ⟨rfl, rfl, 0, rfl⟩
  trans := by
    intro a b c h1 h2
    obtain ⟨t1, l1, k1, e1⟩ := h1
    obtain ⟨t2, l2, k2, e2⟩ := h2
    exact ⟨t2.trans t1, l2.trans l1, k2 + k1, by rw [e2, e1, rep_add, List.append_assoc]⟩

theorem rx_sub_nt {σ σ' : St F} (h : RX σ σ') : NT σ σ' := ⟨h.1, h.2.1, h.2.2.1⟩
theorem nt_sub_rep (u : List Nat) {σ σ' : St F} (h : NT σ σ') : Rep u σ σ' :=
  ⟨h.1, h.2.1, 0, by rw [h.2.2]; rfl⟩

/-- the block a statement activation that starts in `σ` puts on the queue -/
def here (σ : St F) : List Nat :=
  match σ.tracing, σ.loc.line with
  | true, some n => [n]
  | _, _ => []

theorem here_of_rx {σ σ' : St F} (h : RX σ σ') : here σ' = here σ := by
  unfold here; rw [h.1, h.2.2.2.2]

/-! ### general rules missing from the framework -/

theorem respectsAt_iff_final {R : St F → St F → Prop} {α : Type} {m : M F α} {σ : St F} :
    RespectsAt R m σ ↔ R σ (m σ).final := by
  unfold RespectsAt
  cases h : m σ with
  | ok a s =>
    constructor
    · intro hh; exact hh.1 a s rfl
    · intro hh; exact ⟨fun a' s' e => (by cases e; exact hh), fun e s' e' => (by cases e')⟩
  | err e s =>
    constructor
    · intro hh; exact hh.2 e s rfl
    · intro hh; exact ⟨fun a' s' e' => (by cases e'), fun e' s' e'' => (by cases e''; exact hh)⟩

/-- `bind` where the continuation may use what the first action returned -/
theorem respectsAt_bind_val {R : St F → St F → Prop} [IsFrame R] {α β : Type} {m : M F α} {f : α → M F β}
    {σ : St F} (hm : RespectsAt R m σ) (hf : ∀ a σ1, m σ = .ok a σ1 → RespectsAt R (f a) σ1) :
    RespectsAt R (m >>= f) σ := by
  show RespectsAt R (M.bindM m f) σ
  unfold RespectsAt M.bindM
  cases h : m σ with
  | ok a s =>
    have h1 := hm.1 a s h
    have h2 := hf a s h
    exact ⟨fun b s' h' => IsFrame.trans h1 (h2.1 b s' h'), fun e s' h' => IsFrame.trans h1 (h2.2 e s' h')⟩
  | err e s =>
    have h1 := hm.2 e s h
    constructor
    · intro b s' h'; cases h'
    · intro e' s' h'
      simp only [Res.err.injEq] at h'
      rw [← h'.2]; exact h1

theorem final_bind {α β : Type} (m : M F α) (f : α → M F β) (σ : St F) :
    ((m >>= f) σ).final = match m σ with
      | .ok a s => (f a s).final
      | .err _ s => s := by
  show (M.bindM m f σ).final = _
  unfold M.bindM
  cases m σ <;> rfl

namespace Lift
scoped macro_rules | `(tactic| respects_leaf) => `(tactic| (first | exact (⟨rfl, rfl, rfl, rfl, rfl⟩ : RX _ _) | exact (⟨rfl, rfl, rfl⟩ : NT _ _)))

/-! ### `RX`: cursor primitives -/

theorem rx_tokensForLine (l : Option Nat) : Respects RX (tokensForLine (F := F) l) := by
  apply respects_of_at; intro σ
  cases l with
  | none => exact respectsAt_of_eq_ok (a := σ.imm) (σ' := σ) rfl (IsFrame.refl σ)
  | some n =>
    cases h : σ.lines.get n with
    | some ts =>
      refine respectsAt_of_eq_ok (a := ts) (σ' := σ) ?_ (IsFrame.refl σ)
      simp only [tokensForLine, h]
    | none =>
      refine respectsAt_of_eq_err (e := { err := .panic "tokens_for_line: unwrap on None" }) (σ' := σ) ?_ (IsFrame.refl σ)
      simp only [tokensForLine, h]

theorem rx_tokens : Respects RX (tokens (F := F)) := by
  apply respects_of_at; intro σ
  exact (rx_tokensForLine σ.loc.line).at σ
scoped macro_rules | `(tactic| respects_prim) => `(tactic| exact rx_tokens)

theorem rx_peek : Respects RX (peek (F := F)) := by unfold peek; respects_tac
scoped macro_rules | `(tactic| respects_prim) => `(tactic| exact rx_peek)

theorem rx_advance : Respects RX (advance (F := F)) := by unfold advance; respects_tac
scoped macro_rules | `(tactic| respects_prim) => `(tactic| exact rx_advance)

theorem rx_discardRemaining : Respects RX (discardRemaining (F := F)) := by
  unfold discardRemaining; respects_tac
scoped macro_rules | `(tactic| respects_prim) => `(tactic| exact rx_discardRemaining)

theorem rx_next : Respects RX (next (F := F)) := by unfold next; respects_tac
scoped macro_rules | `(tactic| respects_prim) => `(tactic| exact rx_next)

theorem rx_hasNext : Respects RX (hasNext (F := F)) := by unfold hasNext; respects_tac
scoped macro_rules | `(tactic| respects_prim) => `(tactic| exact rx_hasNext)

theorem rx_nextUnwrapped : Respects RX (nextUnwrapped (F := F)) := by unfold nextUnwrapped; respects_tac
scoped macro_rules | `(tactic| respects_prim) => `(tactic| exact rx_nextUnwrapped)

theorem rx_expect (k : Kw) : Respects RX (expect (F := F) k) := by unfold expect; respects_tac
scoped macro_rules | `(tactic| respects_prim) => `(tactic| exact rx_expect _)

theorem rx_accept (k : Kw) : Respects RX (accept (F := F) k) := by unfold accept; respects_tac
scoped macro_rules | `(tactic| respects_prim) => `(tactic| exact rx_accept _)

theorem rx_peekIsKw (k : Kw) : Respects RX (peekIsKw (F := F) k) := by unfold peekIsKw; respects_tac
scoped macro_rules | `(tactic| respects_prim) => `(tactic| exact rx_peekIsKw _)

theorem rx_tryNext {α : Type} (f : Token F → Option α) : Respects RX (tryNext f) := by
  unfold tryNext; respects_tac
scoped macro_rules | `(tactic| respects_prim) => `(tactic| exact rx_tryNext _)

theorem rx_lineBudget : Respects RX (lineBudget (F := F)) := by unfold lineBudget; respects_tac
scoped macro_rules | `(tactic| respects_prim) => `(tactic| exact rx_lineBudget)

theorem rx_warn (msg : Str) : Respects RX (warn (F := F) msg) := by
  unfold warn emit; respects_tac
scoped macro_rules | `(tactic| respects_prim) => `(tactic| exact rx_warn _)

theorem rx_warnUndeclaredArray (name : Str) : Respects RX (warnUndeclaredArray (F := F) name) := by
  unfold warnUndeclaredArray; respects_tac
scoped macro_rules | `(tactic| respects_prim) => `(tactic| exact rx_warnUndeclaredArray _)

theorem rx_enterNested : Respects RX (enterNested (F := F)) := by unfold enterNested; respects_tac
theorem rx_exitNested : Respects RX (exitNested (F := F)) := by unfold exitNested; respects_tac

theorem rx_nested {α : Type} {m : M F α} (hm : Respects RX m) : Respects RX (nested m) := by
  unfold nested
  have := rx_enterNested (F := F)
  have := rx_exitNested (F := F)
  respects_tac

variable [NumOps F]

theorem rx_ensureArray (name : Str) (k : Nat) : Respects RX (ensureArray (F := F) name k) := by
  unfold ensureArray; respects_tac
scoped macro_rules | `(tactic| respects_prim) => `(tactic| exact rx_ensureArray _ _)

theorem rx_arrayGet (name : Str) (idx : List Nat) : Respects RX (arrayGet (F := F) name idx) := by
  unfold arrayGet; respects_tac
scoped macro_rules | `(tactic| respects_prim) => `(tactic| exact rx_arrayGet _ _)

theorem rx_rnd (x : F) : Respects RX (rnd x) := by unfold rnd; respects_tac
scoped macro_rules | `(tactic| respects_prim) => `(tactic| exact rx_rnd _)


/-! ### `RX`: the expression evaluator -/

section expr
variable (ev : Evals F) (he : Respects RX ev.expr)
include he

theorem rx_arrayIndexLoop (n : Nat) (acc : List Nat) : Respects RX (arrayIndexLoop ev n acc) := by
  induction n generalizing acc with
  | zero => unfold arrayIndexLoop; respects_tac
  | succ n ih => unfold arrayIndexLoop; respects_tac

theorem rx_arrayIndex : Respects RX (arrayIndex ev) := by
  unfold arrayIndex
  have := rx_arrayIndexLoop ev he
  respects_tac

theorem rx_numberFunctionArg : Respects RX (numberFunctionArg ev) := by
  unfold numberFunctionArg
  respects_tac

theorem rx_bindArgs (arity : Nat) (args : List Str) (i : Nat) (acc : List (Str × Value F)) :
    Respects RX (bindArgs ev arity args i acc) := by
  induction args generalizing i acc with
  | nil => unfold bindArgs; respects_tac
  | cons a rest ih => unfold bindArgs; respects_tac

/-- push the frame, evaluate the body, pop the frame: stack and cursor line are restored
    on both paths -/
theorem rx_callBody (name : Str) (b : List (Str × Value F)) :
    Respects RX (do
      pushFunctionCall name b
      match ← attempt ev.expr with
      | .ok v =>
        popFunctionCall
        pure (some v)
      | .error e =>
        let s ← get
        let e := s.populate e
        popFunctionCall
        throw e : M F (Option (Value F))) := by
  apply respects_of_at; intro σ
  rw [respectsAt_iff_final, final_bind]
  unfold pushFunctionCall
  simp only [bind, M.bindM, M.get]
  by_cases hcap : (σ.stack.length == Extracted.stackLimit) = true
  · rw [if_pos hcap]; exact IsFrame.refl σ
  · rw [if_neg hcap]
    cases hf : alGet name σ.fns with
    | none => exact IsFrame.refl σ
    | some d =>
      simp only [M.set, M.attempt]
      have hx := (he.at ({ σ with stack := { ret := σ.loc, vars := b } :: σ.stack,
                                  loc := { line := some d.line, idx := d.idx } } : St F))
      rw [respectsAt_iff_final] at hx
      cases hr : ev.expr ({ σ with stack := { ret := σ.loc, vars := b } :: σ.stack,
                                   loc := { line := some d.line, idx := d.idx } } : St F) with
      | ok v s2 =>
        rw [hr] at hx
        obtain ⟨h1, h2, h3, h4, h5⟩ := hx
        have h4' : s2.stack = { ret := σ.loc, vars := b } :: σ.stack := h4
        simp only [popFunctionCall, bind, M.bindM, M.get, h4', M.set, pure, M.pureM, Res.final]
        exact ⟨h1, h2, h3, rfl, rfl⟩
      | err e s2 =>
        rw [hr] at hx
        obtain ⟨h1, h2, h3, h4, h5⟩ := hx
        have h4' : s2.stack = { ret := σ.loc, vars := b } :: σ.stack := h4
        simp only [popFunctionCall, bind, M.bindM, M.get, h4', M.set, M.throw, Res.final]
        exact ⟨h1, h2, h3, rfl, rfl⟩

theorem rx_userFunctionCall (name : Str) : Respects RX (userFunctionCall ev name) := by
  unfold userFunctionCall
  apply respects_get_bind; intro σ
  dsimp only
  cases alGet name σ.fns with
  | none => exact (respects_pure _).at σ
  | some d =>
    refine respectsAt_bind ((rx_expect _).at σ) (fun _ => ?_)
    refine respects_bind (rx_bindArgs ev he _ _ _ _) (fun b => ?_)
    refine respects_bind (rx_expect _) (fun _ => ?_)
    exact rx_callBody ev he name b

theorem rx_functionCall (name : Str) : Respects RX (functionCall ev name) := by
  unfold functionCall
  have := rx_numberFunctionArg ev he
  have := rx_userFunctionCall ev he
  respects_tac

theorem rx_term : Respects RX (term ev) := by
  unfold term
  have := rx_functionCall ev he
  have := rx_arrayIndex ev he
  respects_tac

theorem rx_parenExpr : Respects RX (parenExpr ev) := by
  unfold parenExpr
  have := rx_term ev he
  respects_tac

theorem rx_unaryExpr : Respects RX (unaryExpr ev) := by
  unfold unaryExpr
  have := rx_parenExpr ev he
  respects_tac

omit he in
theorem rx_levelLoop {sub : M F (Value F)} (hs : Respects RX sub) (ops : Token F → Option BinOp)
    (n : Nat) (v : Value F) : Respects RX (levelLoop sub ops n v) := by
  induction n generalizing v with
  | zero => unfold levelLoop; respects_tac
  | succ n ih => unfold levelLoop; respects_tac

omit he in
theorem rx_level {sub : M F (Value F)} (hs : Respects RX sub) (ops : Token F → Option BinOp) :
    Respects RX (level sub ops) := by
  unfold level
  have := rx_levelLoop hs ops
  respects_tac

theorem rx_orExpr : Respects RX (orExpr ev) := by
  unfold orExpr
  exact rx_level (rx_level (rx_level (rx_level (rx_level (rx_level (rx_unaryExpr ev he) _) _) _) _) _) _

theorem rx_exprBody : Respects RX (exprBody ev) := by
  unfold exprBody
  exact rx_nested (rx_orExpr ev he)

theorem rx_optionalArrayIndex : Respects RX (optionalArrayIndex ev) := by
  unfold optionalArrayIndex
  have := rx_arrayIndex ev he
  respects_tac

end expr


/-! ### `NT`: the remaining primitives -/

scoped macro_rules | `(tactic| respects_prim) => `(tactic| (refine Respects.mono (R := RX) (R' := NT) (fun _ _ => rx_sub_nt) ?_; respects_prim))

omit [NumOps F] in
theorem nt_rewindBeforeInput : Respects NT (rewindBeforeInput (F := F)) := by
  unfold rewindBeforeInput; respects_tac
scoped macro_rules | `(tactic| respects_prim) => `(tactic| exact nt_rewindBeforeInput)

omit [NumOps F] in
theorem nt_setVar (name : Str) (v : Value F) : Respects NT (setVar name v) := by
  unfold setVar; respects_tac
scoped macro_rules | `(tactic| respects_prim) => `(tactic| exact nt_setVar _ _)

omit [NumOps F] in
theorem nt_startLoop (sym : Str) (a b c : F) : Respects NT (startLoop sym a b c) := by
  unfold startLoop; respects_tac
scoped macro_rules | `(tactic| respects_prim) => `(tactic| exact nt_startLoop _ _ _ _)

theorem nt_endLoop (sym : Str) : Respects NT (endLoop (F := F) sym) := by
  unfold endLoop; respects_tac
scoped macro_rules | `(tactic| respects_prim) => `(tactic| exact nt_endLoop _)

omit [NumOps F] in
theorem nt_gotoLine (n : Nat) : Respects NT (gotoLine (F := F) n) := by
  unfold gotoLine; respects_tac
scoped macro_rules | `(tactic| respects_prim) => `(tactic| exact nt_gotoLine _)

omit [NumOps F] in
theorem nt_gosubLine (n : Nat) : Respects NT (gosubLine (F := F) n) := by
  unfold gosubLine; respects_tac
scoped macro_rules | `(tactic| respects_prim) => `(tactic| exact nt_gosubLine _)

omit [NumOps F] in
theorem nt_returnFromGosub : Respects NT (returnFromGosub (F := F)) := by
  unfold returnFromGosub; respects_tac
scoped macro_rules | `(tactic| respects_prim) => `(tactic| exact nt_returnFromGosub)

omit [NumOps F] in
theorem nt_setImmediate (ts : List (Token F)) : Respects NT (setImmediate ts) := by
  unfold setImmediate St.setImmediate; respects_tac
scoped macro_rules | `(tactic| respects_prim) => `(tactic| exact nt_setImmediate _)

omit [NumOps F] in
theorem nt_defineFunction (name : Str) (args : List Str) : Respects NT (defineFunction (F := F) name args) := by
  unfold defineFunction; respects_tac
scoped macro_rules | `(tactic| respects_prim) => `(tactic| exact nt_defineFunction _ _)

omit [NumOps F] in
theorem nt_nextDataElement : Respects NT (nextDataElement (F := F)) := by
  unfold nextDataElement; respects_tac
scoped macro_rules | `(tactic| respects_prim) => `(tactic| exact nt_nextDataElement)

omit [NumOps F] in
theorem nt_nextLine : Respects NT (nextLine (F := F)) := by
  unfold nextLine; respects_tac
scoped macro_rules | `(tactic| respects_prim) => `(tactic| exact nt_nextLine)

omit [NumOps F] in
theorem nt_returnToIdle : Respects NT (returnToIdle (F := F)) := by
  unfold returnToIdle; respects_tac
scoped macro_rules | `(tactic| respects_prim) => `(tactic| exact nt_returnToIdle)

theorem nt_arraySet (name : Str) (idx : List Nat) (v : Value F) : Respects NT (arraySet name idx v) := by
  unfold arraySet; respects_tac
scoped macro_rules | `(tactic| respects_prim) => `(tactic| exact nt_arraySet _ _ _)

theorem nt_arrayCreate (name : Str) (idx : List Nat) : Respects NT (arrayCreate (F := F) name idx) := by
  unfold arrayCreate; respects_tac
scoped macro_rules | `(tactic| respects_prim) => `(tactic| exact nt_arrayCreate _ _)

theorem nt_takeInput : Respects NT (takeInput (F := F)) := by
  unfold takeInput; respects_tac
scoped macro_rules | `(tactic| respects_prim) => `(tactic| exact nt_takeInput)

omit [NumOps F] in
theorem nt_rewindAndAwaitInput : Respects NT (rewindAndAwaitInput (F := F)) := by
  unfold rewindAndAwaitInput; respects_tac
scoped macro_rules | `(tactic| respects_prim) => `(tactic| exact nt_rewindAndAwaitInput)

omit [NumOps F] in
theorem nt_breakAtCurrentLocation : Respects NT (breakAtCurrentLocation (F := F)) := by
  unfold breakAtCurrentLocation St.progBreak St.setImmediate; respects_tac
scoped macro_rules | `(tactic| respects_prim) => `(tactic| exact nt_breakAtCurrentLocation)

omit [NumOps F] in
theorem nt_nested {α : Type} {m : M F α} (hm : Respects NT m) : Respects NT (nested m) := by
  unfold nested
  have := rx_enterNested.mono (R' := NT) (F := F) (fun _ _ => rx_sub_nt)
  have := rx_exitNested.mono (R' := NT) (F := F) (fun _ _ => rx_sub_nt)
  respects_tac

/-! ### `NT`: the statements other than IF -/

section stmt
variable (ev : Evals F) (he : Respects RX ev.expr)
include he

theorem nt_expr : Respects NT ev.expr := he.mono (fun _ _ => rx_sub_nt)

omit he in
theorem nt_assignValue (lv : LValue) (v : Value F) : Respects NT (assignValue lv v) := by
  unfold assignValue; respects_tac

theorem nt_optionalArrayIndex : Respects NT (optionalArrayIndex ev) :=
  (rx_optionalArrayIndex ev he).mono (fun _ _ => rx_sub_nt)

theorem nt_assignmentStatement (name : Str) : Respects NT (assignmentStatement ev name) := by
  unfold assignmentStatement
  have := nt_optionalArrayIndex ev he
  have := nt_expr ev he
  have := nt_assignValue (F := F)
  respects_tac

theorem nt_letStatement : Respects NT (letStatement ev) := by
  unfold letStatement
  have := nt_assignmentStatement ev he
  respects_tac

theorem nt_parseLValue : Respects NT (parseLValue ev) := by
  unfold parseLValue
  have := nt_optionalArrayIndex ev he
  respects_tac

omit he in
theorem nt_gotoStatement : Respects NT (gotoStatement (F := F)) := by
  unfold gotoStatement; respects_tac

omit he in
theorem nt_gosubStatement : Respects NT (gosubStatement (F := F)) := by
  unfold gosubStatement; respects_tac

theorem nt_readLoop (n : Nat) : Respects NT (readLoop ev n) := by
  have := nt_parseLValue ev he
  have := nt_assignValue (F := F)
  induction n with
  | zero => unfold readLoop; respects_tac
  | succ n ih => unfold readLoop; respects_tac

theorem nt_readStatement : Respects NT (readStatement ev) := by
  unfold readStatement
  have := nt_readLoop ev he
  respects_tac

theorem nt_inputStatement : Respects NT (inputStatement ev) := by
  unfold inputStatement emit
  have := nt_parseLValue ev he
  have := nt_assignValue (F := F)
  respects_tac

theorem nt_dimStatement : Respects NT (dimStatement ev) := by
  unfold dimStatement
  have := nt_parseLValue ev he
  respects_tac

theorem nt_printLoop (n : Nat) (semi : Bool) (acc : Str) : Respects NT (printLoop ev n semi acc) := by
  have := nt_expr ev he
  induction n generalizing semi acc with
  | zero => unfold printLoop; respects_tac
  | succ n ih => unfold printLoop; respects_tac <;> exact ih _ _

theorem nt_printStatement : Respects NT (printStatement ev) := by
  unfold printStatement emit
  have := nt_printLoop ev he
  respects_tac

theorem nt_forStatement : Respects NT (forStatement ev) := by
  unfold forStatement
  have := nt_expr ev he
  respects_tac

omit he in
theorem nt_nextStatement : Respects NT (nextStatement (F := F)) := by
  unfold nextStatement; respects_tac

omit he in
theorem nt_defArgsLoop (n : Nat) (acc : List Str) : Respects NT (defArgsLoop (F := F) n acc) := by
  induction n generalizing acc with
  | zero => unfold defArgsLoop; respects_tac
  | succ n ih => unfold defArgsLoop; respects_tac

omit he in
theorem nt_skipToColonLoop (n : Nat) : Respects NT (skipToColonLoop (F := F) n) := by
  induction n with
  | zero => unfold skipToColonLoop; respects_tac
  | succ n ih => unfold skipToColonLoop; respects_tac

omit he in
theorem nt_defStatement : Respects NT (defStatement (F := F)) := by
  unfold defStatement
  have := nt_defArgsLoop (F := F)
  have := nt_skipToColonLoop (F := F)
  respects_tac

end stmt

end Lift
end Abasic.Trace
