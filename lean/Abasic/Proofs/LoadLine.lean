import Abasic.Interp
/-
  Helper for C19: a line that begins with an ASCII digit (the only lines the
  page's program loader hands to `start_evaluating`) never leaves the core in a
  state other than Idle when the call succeeds: it is not a command word; if it
  has a line number the line is stored; if it has none (the digit run does not
  fit `u64`) its first token is a numeric literal, which no statement starts with,
  so the call fails.
-/
namespace Abasic.Proofs.LoadLine
open Abasic


theorem digit_bounds (c : Char) (h : isAsciiDigit c = true) : 48 ≤ c.toNat ∧ c.toNat ≤ 57 := by
  simp only [isAsciiDigit, Bool.and_eq_true, decide_eq_true_eq] at h
  have h1 := h.1
  have h2 := h.2
  rw [Char.le_def, UInt32.le_iff_toNat_le] at h1 h2
  exact ⟨h1, h2⟩

theorem digit_cases (c : Char) (h : isAsciiDigit c = true) :
    c = '0' ∨ c = '1' ∨ c = '2' ∨ c = '3' ∨ c = '4' ∨ c = '5' ∨ c = '6' ∨ c = '7' ∨ c = '8' ∨ c = '9' := by
  have hb := digit_bounds c h
  have hc : c = Char.ofNat c.toNat := (Char.ofNat_toNat c).symm
  have : c.toNat = 48 ∨ c.toNat = 49 ∨ c.toNat = 50 ∨ c.toNat = 51 ∨ c.toNat = 52 ∨ c.toNat = 53 ∨
      c.toNat = 54 ∨ c.toNat = 55 ∨ c.toNat = 56 ∨ c.toNat = 57 := by omega
  rcases this with h | h | h | h | h | h | h | h | h | h <;> rw [h] at hc <;> simp [hc]

theorem ofWord_digit (c : Char) (b : Str) (h : isAsciiDigit c = true) : Command.ofWord (c :: b) = none := by
  rcases digit_cases c h with rfl | rfl | rfl | rfl | rfl | rfl | rfl | rfl | rfl | rfl <;>
    simp [Command.ofWord]

theorem digit_facts (c : Char) (h : isAsciiDigit c = true) :
    isAsciiWs c = false ∧ isBasicWs c = false ∧ asciiUpper c = c ∧ (c == '"') = false ∧
    Extracted.oneChar.lookup c = none ∧ c.toNat < 128 := by
  rcases digit_cases c h with rfl | rfl | rfl | rfl | rfl | rfl | rfl | rfl | rfl | rfl <;> decide

theorem cmd_none (c : Char) (cs : Str) (h : isAsciiDigit c = true) :
    (commandWord (c :: cs)).bind Command.ofWord = none := by
  obtain ⟨hws, _, hup, _, _, hlt⟩ := digit_facts c h
  simp only [commandWord, skipAsciiWs, hws, Bool.false_eq_true, if_false, commandWordChars, hlt, if_true, hup]
  cases commandWordChars cs with
  | none => rfl
  | some b => exact ofWord_digit c b h

variable {F : Type} [NumOps F]

theorem run_num_errs (fuel : Nat) (s : St F) (x : F) (rest : List (Token F))
    (himm : s.imm = .num x :: rest) (hloc : s.loc = {}) :
    ∃ e s', runNextStatement fuel s = .err e s' := by
  cases ht : s.tracing <;>
  simp [runNextStatement, bind, M.bindM, M.modify, hasNext, peek, tokens, tokensForLine, M.get, pure, M.pureM,
    stmtBody, traceHere, dispatch, next, advance, M.fail, himm, hloc, ht]

def tableOk (table : List (String × Kw)) : Bool :=
  table.all fun wk => match wk.1.toList with | k :: _ => !isAsciiDigit k | [] => false

theorem chompKeyword_digit (c : Char) (cs : Str) (h : isAsciiDigit c = true) (k : Char) (ks : Str)
    (hk : isAsciiDigit k = false) : chompKeyword (k :: ks) (c :: cs) = none := by
  obtain ⟨_, hb, hup, _, _, _⟩ := digit_facts c h
  have hne : (c == k) = false := by
    cases hck : c == k with
    | false => rfl
    | true =>
      have : c = k := by simpa using hck
      rw [this, hk] at h; cases h
  simp [chompKeyword, skipWs, hb, hup, hne]

theorem chompTable_none (c : Char) (cs : Str) (h : isAsciiDigit c = true) :
    ∀ table, tableOk table = true → chompKeywordTable table (c :: cs) = none := by
  intro table
  induction table with
  | nil => intro _; rfl
  | cons wk rest ih =>
    intro hok
    obtain ⟨w, kw⟩ := wk
    simp only [tableOk, List.all_cons, Bool.and_eq_true] at hok
    obtain ⟨h1, h2⟩ := hok
    cases hw : w.toList with
    | nil => rw [hw] at h1; cases h1
    | cons k ks =>
      rw [hw] at h1
      have hk : isAsciiDigit k = false := by simpa using h1
      simp only [chompKeywordTable, hw, chompKeyword_digit c cs h k ks hk]
      exact ih h2

theorem keywords_ok : tableOk Extracted.keywords = true := by decide

theorem nextToken_digit (c : Char) (cs : Str) (h : isAsciiDigit c = true) :
    (∃ x r, nextToken (F := F) (c :: cs) = .tok (.num x) r) ∨ (∃ r, nextToken (F := F) (c :: cs) = .invalidNumber r) := by
  obtain ⟨_, hb, hup, hq, hone, _⟩ := digit_facts c h
  have h1 : chompAnyKeyword (c :: cs) = none := chompTable_none c cs h _ keywords_ok
  have h2 : chompOneOrTwo (c :: cs) = none := by simp [chompOneOrTwo, skipWs, hb, hone]
  have h3 : numLoop (c :: cs) = (c :: (numLoop cs).1, (numLoop cs).2) := by
    simp [numLoop, hb, h]
  rcases digit_cases c h with rfl | rfl | rfl | rfl | rfl | rfl | rfl | rfl | rfl | rfl
  all_goals
    unfold nextToken
    simp only [h1, h2, h3]
    cases NumOps.parse (F := F) (_ :: (numLoop cs).fst) with
    | none => exact Or.inr ⟨_, rfl⟩
    | some x =>
      cases hf : NumOps.isFinite x with
      | true => exact Or.inl ⟨x, (numLoop cs).snd, by simp only [hf, if_true]; rfl⟩
      | false => exact Or.inr ⟨(numLoop cs).snd, by simp only [hf, Bool.false_eq_true, if_false]; rfl⟩

theorem tokLoop_prefix (fuel : Nat) : ∀ (cs : Str) (idx : Nat) (acc : List (RangedToken F)),
    ∃ more, (tokLoop fuel cs idx acc).1 = acc.reverse ++ more := by
  induction fuel with
  | zero => intro cs idx acc; exact ⟨[], by simp [tokLoop]⟩
  | succ n ih =>
    intro cs idx acc
    simp only [tokLoop]
    cases hr : skipWs cs with
    | nil => exact ⟨[], by simp⟩
    | cons c r =>
      simp only []
      cases hn : nextToken (F := F) (c :: r) with
      | tok t r' =>
        simp only []
        obtain ⟨more, hm⟩ := ih r' (idx + (len8 cs - len8 (c :: r)) + (len8 (c :: r) - len8 r'))
          ((t, idx + (len8 cs - len8 (c :: r)), idx + (len8 cs - len8 (c :: r)) + (len8 (c :: r) - len8 r')) :: acc)
        exact ⟨(t, idx + (len8 cs - len8 (c :: r)), idx + (len8 cs - len8 (c :: r)) + (len8 (c :: r) - len8 r')) :: more,
          by rw [hm]; simp⟩
      | illegalChar => exact ⟨[], by simp⟩
      | unterminated => exact ⟨[], by simp⟩
      | invalidNumber r' => exact ⟨[], by simp⟩

theorem tokenize_digit (c : Char) (cs : Str) (h : isAsciiDigit c = true) (ts : List (Token F))
    (ht : tokenize (F := F) (c :: cs) 0 = .ok ts) : ∃ x rest, ts = .num x :: rest := by
  obtain ⟨_, hb, _, _, _, _⟩ := digit_facts c h
  unfold tokenize tokenizeRanges at ht
  simp only [dropBytes, tokLoop, skipWs, hb, Bool.false_eq_true, if_false] at ht
  rcases nextToken_digit (F := F) c cs h with ⟨x, r, hn⟩ | ⟨r, hn⟩
  · rw [hn] at ht
    simp only [] at ht
    obtain ⟨more, hm⟩ := tokLoop_prefix (F := F) (c :: cs).length r
      (0 + (len8 (c :: cs) - len8 (c :: cs)) + (len8 (c :: cs) - len8 r))
      [(Token.num x, 0 + (len8 (c :: cs) - len8 (c :: cs)),
        0 + (len8 (c :: cs) - len8 (c :: cs)) + (len8 (c :: cs) - len8 r))]
    split at ht
    · rename_i ts' heq
      rw [heq] at hm
      simp only [Except.ok.injEq] at ht
      simp only [List.reverse_cons, List.reverse_nil, List.nil_append, List.cons_append] at hm
      rw [← ht, hm]
      exact ⟨x, _, rfl⟩
    · cases ht
  · rw [hn] at ht
    simp at ht

/-- A line beginning with an ASCII digit, evaluated from Idle: if the call succeeds the core is
    still Idle (the line was stored; nothing ran). -/
theorem start_digit_line_idle (fuel : Nat) (c : Char) (cs : Str) (hc : isAsciiDigit c = true)
    (σ σ' : St F) (a : Unit) (hi : σ.state = .idle)
    (h : startEvaluating fuel (c :: cs) σ = .ok a σ') : σ'.state = .idle := by
  have hcmd := cmd_none c cs hc
  cases hp : parseLineNumber (c :: cs) with
  | some nk =>
    obtain ⟨n, k⟩ := nk
    cases ht : tokenize (F := F) (c :: cs) k with
    | ok ts =>
      have he : startEvaluating fuel (c :: cs) σ = .ok () ((σ.setImmediate []).setNumberedLine n ts) := by
        simp [startEvaluating, postprocess, evaluateImpl, hi, maybeProcessCommand, hcmd, hp, ht,
          bind, M.bindM, M.get, M.modify, setImmediate, pure, M.pureM]
      rw [he] at h
      simp only [Res.ok.injEq] at h
      rw [← h.2]
      simp [St.setNumberedLine, St.setImmediate, hi]
    | error e =>
      have he : ∃ e' s', startEvaluating fuel (c :: cs) σ = .err e' s' := by
        simp [startEvaluating, postprocess, evaluateImpl, hi, maybeProcessCommand, hcmd, hp, ht,
          bind, M.bindM, M.get, M.modify, setImmediate, pure, M.pureM, M.fail]
      obtain ⟨e', s', he⟩ := he
      rw [he] at h; cases h
  | none =>
    cases ht : tokenize (F := F) (c :: cs) 0 with
    | error e =>
      have he : ∃ e' s', startEvaluating fuel (c :: cs) σ = .err e' s' := by
        simp [startEvaluating, postprocess, evaluateImpl, hi, maybeProcessCommand, hcmd, hp, ht,
          bind, M.bindM, M.get, M.modify, setImmediate, pure, M.pureM, M.fail]
      obtain ⟨e', s', he⟩ := he
      rw [he] at h; cases h
    | ok ts =>
      obtain ⟨x, rest, hts⟩ := tokenize_digit c cs hc ts ht
      have hev : evaluateImpl fuel (c :: cs) σ =
          runNextStatement fuel ((σ.setImmediate []).setImmediate ts) := by
        simp [evaluateImpl, hi, maybeProcessCommand, hcmd, hp, ht,
          bind, M.bindM, M.get, M.modify, setImmediate, pure, M.pureM]
      obtain ⟨e', s', hr⟩ := run_num_errs fuel ((σ.setImmediate []).setImmediate ts) x rest
        (by simp [St.setImmediate, hts]) (by simp [St.setImmediate])
      simp [startEvaluating, postprocess, hev, hr] at h

end Abasic.Proofs.LoadLine
