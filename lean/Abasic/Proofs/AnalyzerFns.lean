import Abasic.Props.C06Full
import Abasic.Proofs.LoopsAnalyzer
/-
  A third frame lemma for the static analyzer (next to Proofs/AnalyzerFrame.lean:
  `lines`, `nesting`, and `Abasic.ALine`: `loc.line`): no analyzer action other
  than `defineFunction` (hence: nothing but the DEF statement) changes the
  function table `fns`, on the success path and on the error path alike.
  Needed by Proofs/Analyzer3.lean: the signatures the analyzer holds after a
  statement that FAILED.
-/
set_option linter.unusedSectionVars false

namespace Abasic.AFns
open Abasic M

variable {F : Type}

/-- the state a result carries, on either path -/
def rst {α : Type} : Res F α → St F
  | .ok _ s => s
  | .err _ s => s

/-- what no analyzer action but `defineFunction` changes: the function table -/
def key (s : St F) : List (Str × FnDef) := s.fns

structure Keeps {α : Type} (m : M F α) : Prop where
  h : ∀ s, key (rst (m s)) = key s

theorem Keeps.pure {α : Type} (a : α) : Keeps (pure a : M F α) := ⟨fun _ => rfl⟩

theorem Keeps.bind {α β : Type} {m : M F α} {f : α → M F β} (hm : Keeps m) (hf : ∀ a, Keeps (f a)) :
    Keeps (m >>= f) := by
  refine ⟨fun s => ?_⟩
  have h1 := hm.h s
  show key (rst (M.bindM m f s)) = key s
  unfold M.bindM
  cases h : m s with
  | ok a s' =>
    rw [h] at h1
    simp only []
    rw [(hf a).h s']; exact h1
  | err e s' =>
    rw [h] at h1
    exact h1

theorem Keeps.get : Keeps (M.get : M F (St F)) := ⟨fun _ => rfl⟩
theorem Keeps.fail {α : Type} (e : Err) : Keeps (M.fail e : M F α) := ⟨fun _ => rfl⟩
theorem Keeps.rpanic {α : Type} (x : String) : Keeps (M.rpanic x : M F α) := ⟨fun _ => rfl⟩
theorem Keeps.throw {α : Type} (e : TErr) : Keeps (M.throw e : M F α) := ⟨fun _ => rfl⟩
theorem Keeps.modify {f : St F → St F} (h : ∀ s, key (f s) = key s) : Keeps (M.modify f) := ⟨fun s => h s⟩

/-- `get` followed by something that may mention the state it got -/
theorem Keeps.get_bind {α : Type} {f : St F → M F α} (h : ∀ s, key (rst (f s s)) = key s) :
    Keeps (M.get >>= f) := ⟨fun s => h s⟩

theorem Keeps.ite {α : Type} {c : Prop} [Decidable c] {a b : M F α} (ha : Keeps a) (hb : Keeps b) :
    Keeps (if c then a else b) := by
  split <;> assumption


/-- one structural step of a `Keeps` proof -/
macro "fkeeps_step" : tactic => `(tactic| first
  | assumption
  | exact Keeps.pure _
  | exact Keeps.get
  | exact Keeps.fail _
  | exact Keeps.rpanic _
  | exact Keeps.throw _
  | (apply Keeps.modify; intro _; rfl)
  | apply Keeps.bind
  | intro _
  | split
  | dsimp only)

macro "fkeeps" : tactic => `(tactic| repeat' fkeeps_step)

variable [NumOps F]
set_option linter.unusedSectionVars false

theorem keeps_tokens : Keeps (tokens : M F _) := by
  refine ⟨fun s => ?_⟩
  simp only [tokens, tokensForLine]
  split
  · rfl
  · split <;> rfl
macro_rules | `(tactic| fkeeps_step) => `(tactic| with_reducible exact keeps_tokens)

theorem keeps_peek : Keeps (peek : M F _) := by unfold peek; fkeeps
macro_rules | `(tactic| fkeeps_step) => `(tactic| with_reducible exact keeps_peek)

theorem keeps_advance : Keeps (advance : M F _) := by unfold advance; fkeeps
macro_rules | `(tactic| fkeeps_step) => `(tactic| with_reducible exact keeps_advance)

theorem keeps_next : Keeps (next : M F _) := by unfold next; fkeeps
macro_rules | `(tactic| fkeeps_step) => `(tactic| with_reducible exact keeps_next)

theorem keeps_hasNext : Keeps (hasNext : M F _) := by unfold hasNext; fkeeps
macro_rules | `(tactic| fkeeps_step) => `(tactic| with_reducible exact keeps_hasNext)

theorem keeps_nextUnwrapped : Keeps (nextUnwrapped : M F _) := by unfold nextUnwrapped; fkeeps
macro_rules | `(tactic| fkeeps_step) => `(tactic| with_reducible exact keeps_nextUnwrapped)

theorem keeps_expect (k : Kw) : Keeps (expect k : M F _) := by unfold expect; fkeeps
macro_rules | `(tactic| fkeeps_step) => `(tactic| with_reducible exact keeps_expect _)

theorem keeps_accept (k : Kw) : Keeps (accept k : M F _) := by unfold accept; fkeeps
macro_rules | `(tactic| fkeeps_step) => `(tactic| with_reducible exact keeps_accept _)

theorem keeps_peekIsKw (k : Kw) : Keeps (peekIsKw k : M F _) := by unfold peekIsKw; fkeeps
macro_rules | `(tactic| fkeeps_step) => `(tactic| with_reducible exact keeps_peekIsKw _)

theorem keeps_tryNext {α : Type} (f : Token F → Option α) : Keeps (tryNext f : M F _) := by
  unfold tryNext; fkeeps
macro_rules | `(tactic| fkeeps_step) => `(tactic| with_reducible exact keeps_tryNext _)

theorem keeps_lineBudget : Keeps (lineBudget : M F _) := by unfold lineBudget; fkeeps
macro_rules | `(tactic| fkeeps_step) => `(tactic| with_reducible exact keeps_lineBudget)


theorem keeps_prevLoc : Keeps (prevLoc : M F _) := by unfold prevLoc; fkeeps
macro_rules | `(tactic| fkeeps_step) => `(tactic| with_reducible exact keeps_prevLoc)

theorem keeps_logAccess (sym : Str) (loc : Loc) (a : Access) : Keeps (logAccess sym loc a : M F _) := by
  unfold logAccess; fkeeps
macro_rules | `(tactic| fkeeps_step) => `(tactic| with_reducible exact keeps_logAccess _ _ _)

theorem keeps_check (a b : VT) : Keeps (VT.check a b : M F _) := by unfold VT.check; fkeeps
macro_rules | `(tactic| fkeeps_step) => `(tactic| with_reducible exact keeps_check _ _)

theorem keeps_checkNumber (a : VT) : Keeps (VT.checkNumber a : M F _) := by unfold VT.checkNumber; fkeeps
macro_rules | `(tactic| fkeeps_step) => `(tactic| with_reducible exact keeps_checkNumber _)


theorem keeps_nested {α : Type} {m : M F α} (hm : Keeps m) : Keeps (nested m) := by
  refine ⟨fun s => ?_⟩
  by_cases hcap : s.nesting = Extracted.nestingLimit
  · simp [Abasic.nested, bind, M.bindM, enterNested, M.get, hcap, M.fail, rst]
  · have hb : (s.nesting == Extracted.nestingLimit) = false := by simpa using hcap
    have h1 := hm.h { s with nesting := s.nesting + 1 }
    cases hr : m { s with nesting := s.nesting + 1 } with
    | ok a s' =>
      rw [hr] at h1
      simp only [rst, key] at h1
      cases hn : s'.nesting with
      | zero =>
        simp [Abasic.nested, bind, M.bindM, enterNested, M.get, hb, M.set, M.attempt, hr, exitNested, hn,
          M.rpanic, rst, key, h1]
      | succ k =>
        simp [Abasic.nested, bind, M.bindM, enterNested, M.get, hb, M.set, M.attempt, hr, exitNested, hn,
          M.ofExcept, M.pureM, rst, key, h1]
    | err e s' =>
      rw [hr] at h1
      simp only [rst, key] at h1
      cases hn : s'.nesting with
      | zero =>
        simp [Abasic.nested, bind, M.bindM, enterNested, M.get, hb, M.set, M.attempt, hr, exitNested, hn,
          M.rpanic, rst, key, h1]
      | succ k =>
        simp [Abasic.nested, bind, M.bindM, enterNested, M.get, hb, M.set, M.attempt, hr, exitNested, hn,
          M.ofExcept, M.throw, rst, key, h1]

section analyzer
variable (ev : AEvals F) (he : Keeps ev.expr) (hs : Keeps ev.stmt)
include he

theorem keeps_aArrayIndexLoop (n arity : Nat) : Keeps (aArrayIndexLoop ev n arity) := by
  induction n generalizing arity with
  | zero => unfold aArrayIndexLoop; fkeeps
  | succ n ih => unfold aArrayIndexLoop; have := ih (arity + 1); fkeeps

macro_rules | `(tactic| fkeeps_step) => `(tactic| with_reducible exact keeps_aArrayIndexLoop _ ‹_› _ _)

theorem keeps_aArrayIndex : Keeps (aArrayIndex ev) := by unfold aArrayIndex; fkeeps
macro_rules | `(tactic| fkeeps_step) => `(tactic| with_reducible exact keeps_aArrayIndex _ ‹_›)

theorem keeps_aNumberFunctionArg : Keeps (aNumberFunctionArg ev) := by unfold aNumberFunctionArg; fkeeps
macro_rules | `(tactic| fkeeps_step) => `(tactic| with_reducible exact keeps_aNumberFunctionArg _ ‹_›)

theorem keeps_aBindArgs (arity : Nat) (l : List Str) (i : Nat) : Keeps (aBindArgs ev arity l i) := by
  induction l generalizing i with
  | nil => unfold aBindArgs; fkeeps
  | cons a rest ih => unfold aBindArgs; have := ih (i + 1); fkeeps
macro_rules | `(tactic| fkeeps_step) => `(tactic| with_reducible exact keeps_aBindArgs _ ‹_› _ _ _)

theorem keeps_aUserFunctionCall (name : Str) (loc : Loc) : Keeps (aUserFunctionCall ev name loc) := by
  unfold aUserFunctionCall; fkeeps
macro_rules | `(tactic| fkeeps_step) => `(tactic| with_reducible exact keeps_aUserFunctionCall _ ‹_› _ _)

theorem keeps_aFunctionCall (name : Str) (loc : Loc) : Keeps (aFunctionCall ev name loc) := by
  unfold aFunctionCall; fkeeps
macro_rules | `(tactic| fkeeps_step) => `(tactic| with_reducible exact keeps_aFunctionCall _ ‹_› _ _)

theorem keeps_aTerm : Keeps (aTerm ev) := by unfold aTerm; fkeeps
macro_rules | `(tactic| fkeeps_step) => `(tactic| with_reducible exact keeps_aTerm _ ‹_›)

theorem keeps_aParen : Keeps (aParen ev) := by unfold aParen; fkeeps
macro_rules | `(tactic| fkeeps_step) => `(tactic| with_reducible exact keeps_aParen _ ‹_›)

theorem keeps_aUnary : Keeps (aUnary ev) := by unfold aUnary; fkeeps
macro_rules | `(tactic| fkeeps_step) => `(tactic| with_reducible exact keeps_aUnary _ ‹_›)

omit he in
theorem keeps_aLevelLoop {sub : M F VT} (hsub : Keeps sub) (ops : Token F → Option BinOp) (tier : ATier)
    (n : Nat) (v : VT) : Keeps (aLevelLoop sub ops tier n v) := by
  induction n generalizing v with
  | zero => unfold aLevelLoop; fkeeps
  | succ n ih => unfold aLevelLoop; have := ih v; have := ih .num; fkeeps

omit he in
theorem keeps_aLevel {sub : M F VT} (hsub : Keeps sub) (ops : Token F → Option BinOp) (tier : ATier) :
    Keeps (aLevel sub ops tier) := by
  unfold aLevel
  have := fun n v => keeps_aLevelLoop hsub ops tier n v
  fkeeps
  apply this

theorem keeps_aOrExpr : Keeps (aOrExpr ev) := by
  unfold aOrExpr
  repeat' apply keeps_aLevel
  exact keeps_aUnary ev he

theorem keeps_aExprBody : Keeps (aExprBody ev) := keeps_nested (keeps_aOrExpr ev he)

theorem keeps_aOptionalArrayIndex : Keeps (aOptionalArrayIndex ev) := by unfold aOptionalArrayIndex; fkeeps
macro_rules | `(tactic| fkeeps_step) => `(tactic| with_reducible exact keeps_aOptionalArrayIndex _ ‹_›)

omit he in
theorem keeps_aAssignValue (lv : ALValue) (r : VT) : Keeps (aAssignValue (F := F) lv r) := by
  unfold aAssignValue; fkeeps
macro_rules | `(tactic| fkeeps_step) => `(tactic| with_reducible exact keeps_aAssignValue _ _)

theorem keeps_aAssignment (name : Str) : Keeps (aAssignment ev name) := by unfold aAssignment; fkeeps
macro_rules | `(tactic| fkeeps_step) => `(tactic| with_reducible exact keeps_aAssignment _ ‹_› _)

theorem keeps_aLet : Keeps (aLet ev) := by unfold aLet; fkeeps
macro_rules | `(tactic| fkeeps_step) => `(tactic| with_reducible exact keeps_aLet _ ‹_›)

theorem keeps_aParseLValue : Keeps (aParseLValue ev) := by unfold aParseLValue; fkeeps
macro_rules | `(tactic| fkeeps_step) => `(tactic| with_reducible exact keeps_aParseLValue _ ‹_›)

theorem keeps_aReadLoop (n : Nat) : Keeps (aReadLoop ev n) := by
  induction n with
  | zero => unfold aReadLoop; fkeeps
  | succ n ih => unfold aReadLoop; fkeeps
macro_rules | `(tactic| fkeeps_step) => `(tactic| with_reducible exact keeps_aReadLoop _ ‹_› _)

omit he in
theorem keeps_aGotoOrGosub : Keeps (aGotoOrGosub (F := F)) := by unfold aGotoOrGosub; fkeeps
macro_rules | `(tactic| fkeeps_step) => `(tactic| with_reducible exact keeps_aGotoOrGosub)

theorem keeps_aPrintLoop (n : Nat) : Keeps (aPrintLoop ev n) := by
  induction n with
  | zero => unfold aPrintLoop; fkeeps
  | succ n ih => unfold aPrintLoop; fkeeps
macro_rules | `(tactic| fkeeps_step) => `(tactic| with_reducible exact keeps_aPrintLoop _ ‹_› _)

theorem keeps_aFor : Keeps (aFor ev) := by unfold aFor; fkeeps
macro_rules | `(tactic| fkeeps_step) => `(tactic| with_reducible exact keeps_aFor _ ‹_›)

omit he in
theorem keeps_aNext : Keeps (aNext (F := F)) := by unfold aNext; fkeeps
macro_rules | `(tactic| fkeeps_step) => `(tactic| with_reducible exact keeps_aNext)

omit he in
theorem keeps_defArgsLoop (n : Nat) (acc : List Str) : Keeps (defArgsLoop (F := F) n acc) := by
  induction n generalizing acc with
  | zero => unfold defArgsLoop; fkeeps
  | succ n ih => unfold defArgsLoop; fkeeps; exact ih _
macro_rules | `(tactic| fkeeps_step) => `(tactic| with_reducible exact keeps_defArgsLoop _ _)


end analyzer

theorem keeps_expr (n : Nat) : Keeps (aEvalN (F := F) n).expr := by
  induction n with
  | zero => exact Keeps.fail _
  | succ n ih => exact keeps_aExprBody _ ih

end Abasic.AFns
