import Abasic.Proofs.Hoare
/-
  A quantitative version of the frame framework of Hoare.lean: how many
  token-cursor reads (`St.reads`, incremented by `peek` only) a computation
  makes, amortised against the progress of the cursor on the current line.

  Accounting.  Every token the cursor moves over yields 11 credits, every read
  costs one credit.  `ECost cin cout m` ("expression-like"): started with `cin`
  credits in a state without user functions whose cursor is inside the line,
  `m` stays on the line (same `lines`, `imm`, `loc.line`, `fns`), only moves
  the cursor forward, never past the end, and finishes with at least `cout a`
  credits; on the error path the reads are bounded by the credits of the whole
  rest of the line.  `SCost cin cout m` ("statement-like"): `m` may jump to
  another line (GOTO, GOSUB, RETURN, NEXT, END, STOP) or rewind (INPUT), so only
  the total is bounded: 11 per remaining token plus the length of the line.
  `Flat k m`: at most `k` reads in any state whatsoever (what follows a jump).
-/
set_option linter.unusedSectionVars false

namespace Abasic.Cost
open Abasic M Hoare

variable {F : Type}

/-- the tokens of the current line (`[]` when a numbered line is missing) -/
def toks (σ : St F) : List (Token F) :=
  match σ.loc.line with
  | none => σ.imm
  | some n => (σ.lines.get n).getD []

/-- the length of the line being executed -/
def tlen (σ : St F) : Nat := (toks σ).length

/-- still on the same line of the same program, same function table -/
structure Same (σ σ' : St F) : Prop where
  lines : σ'.lines = σ.lines
  imm : σ'.imm = σ.imm
  line : σ'.loc.line = σ.loc.line
  fns : σ'.fns = σ.fns

theorem Same.refl (σ : St F) : Same σ σ := ⟨rfl, rfl, rfl, rfl⟩

theorem Same.trans {a b c : St F} (h1 : Same a b) (h2 : Same b c) : Same a c :=
  ⟨h2.lines.trans h1.lines, h2.imm.trans h1.imm, h2.line.trans h1.line, h2.fns.trans h1.fns⟩

theorem Same.toks {σ σ' : St F} (h : Same σ σ') : toks σ' = toks σ := by
  unfold Cost.toks
  rw [h.line, h.imm, h.lines]

theorem Same.tlen {σ σ' : St F} (h : Same σ σ') : tlen σ' = tlen σ := by
  unfold Cost.tlen
  rw [h.toks]

/-- no user-defined function, cursor within the line -/
def Pre (σ : St F) : Prop := σ.fns = [] ∧ σ.loc.idx ≤ tlen σ

theorem Pre.of_same {σ σ' : St F} (hp : Pre σ) (hs : Same σ σ') (hi : σ'.loc.idx ≤ tlen σ) : Pre σ' :=
  ⟨hs.fns.trans hp.1, by rw [hs.tlen]; exact hi⟩

/-- the success postcondition of `ECost` -/
def EPost (cin cout : Nat) (σ σ' : St F) : Prop :=
  Same σ σ' ∧ σ.loc.idx ≤ σ'.loc.idx ∧ σ'.loc.idx ≤ tlen σ ∧
    σ'.reads + cout ≤ σ.reads + 11 * (σ'.loc.idx - σ.loc.idx) + cin

/-- the failure postcondition of `ECost` -/
def EErr (cin : Nat) (σ σ' : St F) : Prop :=
  σ'.reads ≤ σ.reads + 11 * (tlen σ - σ.loc.idx) + cin

def ECostAt {α : Type} (cin : Nat) (cout : α → Nat) (m : M F α) (σ : St F) : Prop :=
  (∀ a σ', m σ = .ok a σ' → EPost cin (cout a) σ σ') ∧ (∀ e σ', m σ = .err e σ' → EErr cin σ σ')

def ECost {α : Type} (cin : Nat) (cout : α → Nat) (m : M F α) : Prop :=
  ∀ σ, Pre σ → ECostAt cin cout m σ

/-- both postconditions of `SCost` bound this -/
def SBound (cin : Nat) (σ : St F) : Nat := σ.reads + 11 * (tlen σ - σ.loc.idx) + tlen σ + cin

def SCostAt {α : Type} (cin cout : Nat) (m : M F α) (σ : St F) : Prop :=
  (∀ a σ', m σ = .ok a σ' → σ'.reads + cout ≤ SBound cin σ) ∧ (∀ e σ', m σ = .err e σ' → σ'.reads ≤ SBound cin σ)

def SCost {α : Type} (cin cout : Nat) (m : M F α) : Prop :=
  ∀ σ, Pre σ → SCostAt cin cout m σ

def Flat {α : Type} (k : Nat) (m : M F α) : Prop := ∀ σ, (m σ).final.reads ≤ σ.reads + k

section rules
variable {α β : Type}

theorem ecostAt_of_eq_ok {m : M F α} {σ σ' : St F} {a : α} {cin : Nat} {cout : α → Nat}
    (h : m σ = .ok a σ') (hp : EPost cin (cout a) σ σ') : ECostAt cin cout m σ := by
  constructor
  · intro a' s' h'; rw [h] at h'; simp only [Res.ok.injEq] at h'; rw [← h'.1, ← h'.2]; exact hp
  · intro e s' h'; rw [h] at h'; cases h'

theorem ecostAt_of_eq_err {m : M F α} {σ σ' : St F} {e : TErr} {cin : Nat} {cout : α → Nat}
    (h : m σ = .err e σ') (hp : EErr cin σ σ') : ECostAt cin cout m σ := by
  constructor
  · intro a' s' h'; rw [h] at h'; cases h'
  · intro e' s' h'; rw [h] at h'; simp only [Res.err.injEq] at h'; rw [← h'.2]; exact hp

theorem epost_refl {cin cout : Nat} (σ : St F) (hp : Pre σ) (h : cout ≤ cin) : EPost cin cout σ σ :=
  ⟨Same.refl σ, Nat.le_refl _, hp.2, by omega⟩

theorem eerr_refl {cin : Nat} (σ : St F) : EErr cin σ σ := by
  unfold EErr; omega

theorem ecost_pure {cin : Nat} {cout : α → Nat} (a : α) (h : cout a ≤ cin) : ECost cin cout (pure a : M F α) :=
  fun σ hp => ecostAt_of_eq_ok (a := a) (σ' := σ) rfl (epost_refl σ hp h)

theorem ecost_fail {cin : Nat} {cout : α → Nat} (e : Err) : ECost cin cout (M.fail e : M F α) :=
  fun σ _ => ecostAt_of_eq_err (e := { err := e }) (σ' := σ) rfl (eerr_refl σ)

theorem ecost_throw {cin : Nat} {cout : α → Nat} (e : TErr) : ECost cin cout (M.throw e : M F α) :=
  fun σ _ => ecostAt_of_eq_err (e := e) (σ' := σ) rfl (eerr_refl σ)

theorem ecost_rpanic {cin : Nat} {cout : α → Nat} (s : String) : ECost cin cout (M.rpanic s : M F α) :=
  fun σ _ => ecostAt_of_eq_err (e := { err := .panic s }) (σ' := σ) rfl (eerr_refl σ)

theorem ecost_liftE {cin : Nat} {cout : α → Nat} (r : Except Err α) (h : ∀ a, cout a ≤ cin) :
    ECost cin cout (liftE r : M F α) := by
  cases r with
  | ok a => exact ecost_pure a (h a)
  | error e => exact ecost_fail e

theorem ecost_bind {m : M F α} {f : α → M F β} {c0 : Nat} {c1 : α → Nat} {c2 : β → Nat}
    (hm : ECost c0 c1 m) (hf : ∀ a, ECost (c1 a) c2 (f a)) : ECost c0 c2 (m >>= f) := by
  intro σ hp
  show ECostAt c0 c2 (M.bindM m f) σ
  unfold ECostAt M.bindM
  cases h : m σ with
  | ok a s =>
    obtain ⟨hs, hi1, hi2, hr⟩ := (hm σ hp).1 a s h
    have hp' : Pre s := hp.of_same hs hi2
    have hl := hs.tlen
    constructor
    · intro b s' h'
      obtain ⟨hs', hj1, hj2, hr'⟩ := (hf a s hp').1 b s' h'
      exact ⟨hs.trans hs', by omega, by omega, by omega⟩
    · intro e s' h'
      have := (hf a s hp').2 e s' h'
      unfold EErr at this ⊢
      omega
  | err e s =>
    have h1 := (hm σ hp).2 e s h
    constructor
    · intro b s' h'; cases h'
    · intro e' s' h'
      simp only [Res.err.injEq] at h'
      rw [← h'.2]; exact h1

/-- weakening: less credit out, more credit in -/
theorem ecost_conseq {m : M F α} {c c' : Nat} {cout cout' : α → Nat}
    (h : ECost c' cout' m) (hc : c' ≤ c) (ho : ∀ a, cout a + c' ≤ cout' a + c) : ECost c cout m := by
  intro σ hp
  obtain ⟨h1, h2⟩ := h σ hp
  constructor
  · intro a s' e
    obtain ⟨hs, hi1, hi2, hr⟩ := h1 a s' e
    have := ho a
    exact ⟨hs, hi1, hi2, by omega⟩
  · intro e s' he
    have := h2 e s' he
    unfold EErr at this ⊢
    omega

theorem ecost_ite {c : Prop} [Decidable c] {t e : M F α} {cin : Nat} {cout : α → Nat}
    (ht : c → ECost cin cout t) (he : ¬ c → ECost cin cout e) : ECost cin cout (if c then t else e) := by
  by_cases h : c
  · rw [if_pos h]; exact ht h
  · rw [if_neg h]; exact he h

/-! statement-like -/

theorem scost_of_ecost {m : M F α} {cin cout : Nat} {co : α → Nat} (h : ECost cin co m) (ho : ∀ a, cout ≤ co a) :
    SCost cin cout m := by
  intro σ hp
  obtain ⟨h1, h2⟩ := h σ hp
  constructor
  · intro a s' e
    obtain ⟨hs, hi1, hi2, hr⟩ := h1 a s' e
    have := ho a
    unfold SBound
    omega
  · intro e s' he
    have := h2 e s' he
    unfold EErr at this
    unfold SBound
    omega

theorem scost_fail {cin cout : Nat} (e : Err) : SCost cin cout (M.fail e : M F α) :=
  scost_of_ecost (co := fun _ => cout) (ecost_fail e) (fun _ => Nat.le_refl _)

theorem scost_pure {cin cout : Nat} (a : α) (h : cout ≤ cin) : SCost cin cout (pure a : M F α) :=
  scost_of_ecost (co := fun _ => cout) (ecost_pure a h) (fun _ => Nat.le_refl _)

/-- a line-preserving prefix followed by a statement-like tail -/
theorem scost_bind {m : M F α} {f : α → M F β} {c0 : Nat} {c1 : α → Nat} {c2 : Nat}
    (hm : ECost c0 c1 m) (hf : ∀ a, SCost (c1 a) c2 (f a)) : SCost c0 c2 (m >>= f) := by
  intro σ hp
  show SCostAt c0 c2 (M.bindM m f) σ
  unfold SCostAt M.bindM
  cases h : m σ with
  | ok a s =>
    obtain ⟨hs, hi1, hi2, hr⟩ := (hm σ hp).1 a s h
    have hp' : Pre s := hp.of_same hs hi2
    have hl := hs.tlen
    constructor
    · intro b s' h'
      have := (hf a s hp').1 b s' h'
      unfold SBound at this ⊢
      omega
    · intro e s' h'
      have := (hf a s hp').2 e s' h'
      unfold SBound at this ⊢
      omega
  | err e s =>
    have h1 := (hm σ hp).2 e s h
    constructor
    · intro b s' h'; cases h'
    · intro e' s' h'
      simp only [Res.err.injEq] at h'
      rw [← h'.2]
      unfold EErr at h1
      unfold SBound
      omega

/-- a statement-like computation followed by a bounded number of reads anywhere -/
theorem scost_bind_flat {m : M F α} {f : α → M F β} {c0 c1 c2 k : Nat}
    (hm : SCost c0 c1 m) (hf : ∀ a, Flat k (f a)) (hk : c2 + k ≤ c1) : SCost c0 c2 (m >>= f) := by
  intro σ hp
  show SCostAt c0 c2 (M.bindM m f) σ
  unfold SCostAt M.bindM
  cases h : m σ with
  | ok a s =>
    have h1 := (hm σ hp).1 a s h
    have h2 := hf a s
    constructor
    · intro b s' h'
      simp only at h'
      rw [h'] at h2
      simp only [Res.final] at h2
      omega
    · intro e s' h'
      simp only at h'
      rw [h'] at h2
      simp only [Res.final] at h2
      omega
  | err e s =>
    have h1 := (hm σ hp).2 e s h
    constructor
    · intro b s' h'; cases h'
    · intro e' s' h'
      simp only [Res.err.injEq] at h'
      rw [← h'.2]
      exact h1

theorem scost_conseq {m : M F α} {c c' cout cout' : Nat}
    (h : SCost c' cout' m) (hc : c' ≤ c) (ho : cout + c' ≤ cout' + c) : SCost c cout m := by
  intro σ hp
  obtain ⟨h1, h2⟩ := h σ hp
  constructor
  · intro a s' e
    have := h1 a s' e
    unfold SBound at this ⊢
    omega
  · intro e s' he
    have := h2 e s' he
    unfold SBound at this ⊢
    omega

theorem flat_pure (a : α) (k : Nat) : Flat k (pure a : M F α) := by
  intro σ; show σ.reads ≤ σ.reads + k; omega

theorem flat_bind {m : M F α} {f : α → M F β} {a b : Nat}
    (hm : Flat a m) (hf : ∀ x, Flat b (f x)) : Flat (a + b) (m >>= f) := by
  intro σ
  show (M.bindM m f σ).final.reads ≤ _
  unfold M.bindM
  have h1 := hm σ
  cases h : m σ with
  | ok x s =>
    rw [h] at h1
    simp only [Res.final] at h1
    have h2 := hf x s
    simp only
    omega
  | err e s =>
    rw [h] at h1
    simp only [Res.final] at h1 ⊢
    omega

theorem scost_of_flat {m : M F α} {k c co : Nat} (h : Flat k m) (hk : co + k ≤ c) : SCost c co m := by
  intro σ _
  have h1 := h σ
  constructor
  · intro a s' e; rw [e] at h1; simp only [Res.final] at h1; unfold SBound; omega
  · intro e s' he; rw [he] at h1; simp only [Res.final] at h1; unfold SBound; omega

theorem flat_mono {m : M F α} {a b : Nat} (h : Flat a m) (hab : a ≤ b) : Flat b m := by
  intro σ
  have := h σ
  omega

end rules

/-! ### (a) the cursor primitives -/

/-- `peek` is one read and nothing else; on success it returns the token under the cursor -/
theorem peek_spec (σ : St F) :
    peek σ = .ok (toks σ)[σ.loc.idx]? { σ with reads := σ.reads + 1 } ∨
    ∃ e, peek σ = .err e { σ with reads := σ.reads + 1 } := by
  unfold peek tokens tokensForLine toks
  simp only [bind, M.bindM, M.modify, M.get, pure, M.pureM]
  cases hl : σ.loc.line with
  | none => left; rfl
  | some n =>
    simp only
    cases hg : σ.lines.get n with
    | none => right; exact ⟨_, rfl⟩
    | some ts => left; rfl

/-- … and it fails only when the current line does not exist -/
theorem peek_spec' (σ : St F) :
    peek σ = .ok (toks σ)[σ.loc.idx]? { σ with reads := σ.reads + 1 } ∨
    ∃ e, peek σ = .err e { σ with reads := σ.reads + 1 } ∧ toks σ = [] := by
  unfold peek tokens tokensForLine toks
  simp only [bind, M.bindM, M.modify, M.get, pure, M.pureM]
  cases hl : σ.loc.line with
  | none => left; rfl
  | some n =>
    simp only
    cases hg : σ.lines.get n with
    | none => right; exact ⟨_, rfl, rfl⟩
    | some ts => left; rfl

theorem epost_stay {cin cout : Nat} (σ : St F) (hp : Pre σ) (h : cout + 1 ≤ cin) :
    EPost cin cout σ { σ with reads := σ.reads + 1 } :=
  ⟨⟨rfl, rfl, rfl, rfl⟩, Nat.le_refl _, hp.2, by show σ.reads + 1 + cout ≤ _; omega⟩

theorem epost_adv {cin cout : Nat} (σ : St F) (hlt : σ.loc.idx < tlen σ) (h : cout + 1 ≤ cin + 11) :
    EPost cin cout σ { σ with reads := σ.reads + 1, loc := { σ.loc with idx := σ.loc.idx + 1 } } :=
  ⟨⟨rfl, rfl, rfl, rfl⟩, Nat.le_succ _, hlt, by show σ.reads + 1 + cout ≤ σ.reads + 11 * (σ.loc.idx + 1 - σ.loc.idx) + cin; omega⟩

theorem eerr_stay {cin : Nat} (σ : St F) (h : 1 ≤ cin) : EErr cin σ { σ with reads := σ.reads + 1 } := by
  show σ.reads + 1 ≤ _; omega

theorem eerr_adv {cin : Nat} (σ : St F) (hlt : σ.loc.idx < tlen σ) :
    EErr cin σ { σ with reads := σ.reads + 1, loc := { σ.loc with idx := σ.loc.idx + 1 } } := by
  show σ.reads + 1 ≤ _; omega

theorem lt_of_getElem?_some {σ : St F} {t : Token F} (h : (toks σ)[σ.loc.idx]? = some t) : σ.loc.idx < tlen σ := by
  unfold tlen
  have := List.getElem?_eq_some_iff.mp h
  exact this.1

/-- (a) `peek`: one credit -/
theorem peek_cost {c : Nat} (h : 1 ≤ c) : ECost c (fun _ => c - 1) (peek (F := F)) := by
  intro σ hp
  rcases peek_spec σ with hk | ⟨e, hk⟩
  · exact ecostAt_of_eq_ok hk (epost_stay σ hp (by omega))
  · exact ecostAt_of_eq_err hk (eerr_stay σ h)

/-- (a) `next`: one credit, eleven back when a token was consumed -/
theorem next_cost {c : Nat} (h : 1 ≤ c) :
    ECost c (fun t => if t.isSome then c - 1 + 11 else c - 1) (next (F := F)) := by
  intro σ hp
  rcases peek_spec σ with hk | ⟨e, hk⟩
  · cases ht : (toks σ)[σ.loc.idx]? with
    | none =>
      refine ecostAt_of_eq_ok (a := none) (σ' := { σ with reads := σ.reads + 1 }) ?_ (epost_stay σ hp (by simp; omega))
      simp only [next, bind, M.bindM, hk, ht]; rfl
    | some t =>
      refine ecostAt_of_eq_ok (a := some t) ?_ (epost_adv σ (lt_of_getElem?_some ht) (by simp; omega))
      simp only [next, bind, M.bindM, hk, ht]; rfl
  · refine ecostAt_of_eq_err (e := e) ?_ (eerr_stay σ h)
    simp only [next, bind, M.bindM, hk]

theorem hasNext_cost {c : Nat} (h : 1 ≤ c) : ECost c (fun _ => c - 1) (hasNext (F := F)) := by
  intro σ hp
  rcases peek_spec σ with hk | ⟨e, hk⟩
  · refine ecostAt_of_eq_ok (a := ((toks σ)[σ.loc.idx]?).isSome) ?_ (epost_stay σ hp (by omega))
    simp only [hasNext, bind, M.bindM, hk]; rfl
  · refine ecostAt_of_eq_err (e := e) ?_ (eerr_stay σ h)
    simp only [hasNext, bind, M.bindM, hk]

theorem nextUnwrapped_cost {c : Nat} (h : 1 ≤ c) : ECost c (fun _ => c - 1 + 11) (nextUnwrapped (F := F)) := by
  intro σ hp
  rcases peek_spec σ with hk | ⟨e, hk⟩
  · cases ht : (toks σ)[σ.loc.idx]? with
    | none =>
      refine ecostAt_of_eq_err (e := { err := .syntax .unexpectedEnd, loc := some σ.loc })
        (σ' := { σ with reads := σ.reads + 1 }) ?_ (eerr_stay σ h)
      simp only [nextUnwrapped, next, bind, M.bindM, hk, ht]; rfl
    | some t =>
      refine ecostAt_of_eq_ok (a := t) ?_ (epost_adv σ (lt_of_getElem?_some ht) (by omega))
      simp only [nextUnwrapped, next, bind, M.bindM, hk, ht]; rfl
  · refine ecostAt_of_eq_err (e := e) ?_ (eerr_stay σ h)
    simp only [nextUnwrapped, next, bind, M.bindM, hk]

theorem expect_cost {c : Nat} (k : Kw) (h : 1 ≤ c) : ECost c (fun _ => c - 1 + 11) (expect (F := F) k) := by
  unfold expect
  refine ecost_bind (nextUnwrapped_cost h) (fun t => ?_)
  by_cases hk : t.isKw k = true
  · rw [if_pos hk]; exact ecost_pure _ (Nat.le_refl _)
  · rw [if_neg hk]; exact ecost_fail _

theorem accept_cost {c : Nat} (k : Kw) (h : 1 ≤ c) :
    ECost c (fun b => if b then c - 1 + 11 else c - 1) (accept (F := F) k) := by
  intro σ hp
  rcases peek_spec σ with hk | ⟨e, hk⟩
  · cases ht : (toks σ)[σ.loc.idx]? with
    | none =>
      refine ecostAt_of_eq_ok (a := false) (σ' := { σ with reads := σ.reads + 1 }) ?_ (epost_stay σ hp (by simp; omega))
      simp only [accept, bind, M.bindM, hk, ht]; rfl
    | some t =>
      by_cases hkw : t.isKw k = true
      · refine ecostAt_of_eq_ok (a := true) ?_ (epost_adv σ (lt_of_getElem?_some ht) (by simp; omega))
        simp only [accept, bind, M.bindM, hk, ht, hkw]; rfl
      · refine ecostAt_of_eq_ok (a := false) (σ' := { σ with reads := σ.reads + 1 }) ?_ (epost_stay σ hp (by simp; omega))
        simp only [accept, bind, M.bindM, hk, ht, hkw]; rfl
  · refine ecostAt_of_eq_err (e := e) ?_ (eerr_stay σ h)
    simp only [accept, bind, M.bindM, hk]

theorem peekIsKw_cost {c : Nat} (k : Kw) (h : 1 ≤ c) : ECost c (fun _ => c - 1) (peekIsKw (F := F) k) := by
  unfold peekIsKw
  refine ecost_bind (peek_cost h) (fun t => ?_)
  cases t with
  | none => exact ecost_pure _ (Nat.le_refl _)
  | some t => exact ecost_pure _ (Nat.le_refl _)

theorem tryNext_cost {α : Type} {c : Nat} (f : Token F → Option α) (h : 1 ≤ c) :
    ECost c (fun o => if o.isSome then c - 1 + 11 else c - 1) (tryNext f) := by
  intro σ hp
  rcases peek_spec σ with hk | ⟨e, hk⟩
  · cases ht : (toks σ)[σ.loc.idx]? with
    | none =>
      refine ecostAt_of_eq_ok (a := none) (σ' := { σ with reads := σ.reads + 1 }) ?_ (epost_stay σ hp (by simp; omega))
      simp only [tryNext, bind, M.bindM, hk, ht]; rfl
    | some t =>
      cases hf : f t with
      | some a =>
        refine ecostAt_of_eq_ok (a := some a) ?_ (epost_adv σ (lt_of_getElem?_some ht) (by simp; omega))
        simp only [tryNext, bind, M.bindM, hk, ht, hf]; rfl
      | none =>
        refine ecostAt_of_eq_ok (a := none) (σ' := { σ with reads := σ.reads + 1 }) ?_ (epost_stay σ hp (by simp; omega))
        simp only [tryNext, bind, M.bindM, hk, ht, hf]; rfl
  · refine ecostAt_of_eq_err (e := e) ?_ (eerr_stay σ h)
    simp only [tryNext, bind, M.bindM, hk]

theorem tokens_spec (σ : St F) : tokens σ = .ok (toks σ) σ ∨ ∃ e, tokens σ = .err e σ := by
  unfold tokens tokensForLine toks
  cases σ.loc.line with
  | none => left; rfl
  | some n =>
    simp only
    cases σ.lines.get n with
    | none => right; exact ⟨_, rfl⟩
    | some ts => left; rfl

theorem discardRemaining_spec (σ : St F) :
    discardRemaining σ = .ok () { σ with loc := { σ.loc with idx := tlen σ } } ∨
    ∃ e, discardRemaining σ = .err e σ := by
  rcases tokens_spec σ with hk | ⟨e, hk⟩
  · left; simp only [discardRemaining, bind, M.bindM, hk, M.modify, tlen]
  · right; exact ⟨e, by simp only [discardRemaining, bind, M.bindM, hk]⟩

/-- `discard_remaining_tokens`: no read, the cursor jumps to the end of the line -/
theorem discardRemaining_cost {c : Nat} : ECost c (fun _ => c) (discardRemaining (F := F)) := by
  intro σ hp
  rcases discardRemaining_spec σ with hk | ⟨e, hk⟩
  · refine ecostAt_of_eq_ok hk ⟨⟨rfl, rfl, rfl, rfl⟩, hp.2, Nat.le_refl _, ?_⟩
    show σ.reads + c ≤ _; omega
  · exact ecostAt_of_eq_err hk (eerr_refl σ)

/-- `discard_remaining_tokens` in any state: no read -/
theorem discardRemaining_flat : Flat 0 (discardRemaining (F := F)) := by
  intro σ
  rcases discardRemaining_spec σ with hk | ⟨e, hk⟩ <;> rw [hk] <;> exact Nat.le_refl _

theorem peek_flat : Flat 1 (peek (F := F)) := by
  intro σ
  rcases peek_spec σ with hk | ⟨e, hk⟩ <;> rw [hk] <;> exact Nat.le_refl _

theorem peekIsKw_flat (k : Kw) : Flat 1 (peekIsKw (F := F) k) := by
  unfold peekIsKw
  refine flat_bind (b := 0) peek_flat (fun t => ?_)
  cases t with
  | none => exact flat_pure _ _
  | some t => exact flat_pure _ _

theorem hasNext_flat : Flat 1 (hasNext (F := F)) := by
  unfold hasNext
  exact flat_bind (b := 0) peek_flat (fun t => flat_pure _ _)

/-! ### operations that make no read

  `RK`: nothing the cost accounting looks at changes (used through the
  `Respects` framework of Hoare.lean); `RR`: only the read counter is kept
  (the jumps). -/

def RK (σ σ' : St F) : Prop :=
  σ'.lines = σ.lines ∧ σ'.imm = σ.imm ∧ σ'.loc = σ.loc ∧ σ'.fns = σ.fns ∧ σ'.reads = σ.reads

instance : IsFrame (RK (F := F)) where
  refl _ := ⟨rfl, rfl, rfl, rfl, rfl⟩
  trans h1 h2 := ⟨h2.1.trans h1.1, h2.2.1.trans h1.2.1, h2.2.2.1.trans h1.2.2.1,
    h2.2.2.2.1.trans h1.2.2.2.1, h2.2.2.2.2.trans h1.2.2.2.2⟩

def RR (σ σ' : St F) : Prop := σ'.reads = σ.reads

instance : IsFrame (RR (F := F)) where
  refl _ := rfl
  trans h1 h2 := Eq.trans h2 h1

theorem rr_of_rk {α : Type} {m : M F α} (h : Respects RK m) : Respects RR m :=
  h.mono (fun _ _ h => h.2.2.2.2)

macro_rules | `(tactic| respects_leaf) => `(tactic| exact (⟨rfl, rfl, rfl, rfl, rfl⟩ : RK _ _))
macro_rules | `(tactic| respects_leaf) => `(tactic| exact (rfl : RR _ _))

theorem ecost_of_rk {α : Type} {m : M F α} {c : Nat} {cout : α → Nat} (h : Respects RK m)
    (hc : ∀ a, cout a ≤ c) : ECost c cout m := by
  intro σ hp
  constructor
  · intro a s' e
    obtain ⟨h1, h2, h3, h4, h5⟩ := (h.at σ).1 a s' e
    have := hc a
    exact ⟨⟨h1, h2, by rw [h3], h4⟩, by rw [h3]; exact Nat.le_refl _, by rw [h3]; exact hp.2, by rw [h5, h3]; omega⟩
  · intro e s' he
    obtain ⟨h1, h2, h3, h4, h5⟩ := (h.at σ).2 e s' he
    unfold EErr
    omega

theorem scost_of_rr {α : Type} {m : M F α} {c cout : Nat} (h : Respects RR m) (hc : cout ≤ c) : SCost c cout m := by
  intro σ hp
  constructor
  · intro a s' e
    have : s'.reads = σ.reads := (h.at σ).1 a s' e
    unfold SBound; omega
  · intro e s' he
    have : s'.reads = σ.reads := (h.at σ).2 e s' he
    unfold SBound; omega

theorem flat_of_rr {α : Type} {m : M F α} (h : Respects RR m) : Flat 0 m := by
  intro σ
  have : (m σ).final.reads = σ.reads := h.final σ
  omega

theorem rk_tokens : Respects RK (tokens (F := F)) := by
  apply respects_of_at; intro σ
  rcases tokens_spec σ with hk | ⟨e, hk⟩
  · exact respectsAt_of_eq_ok hk ⟨rfl, rfl, rfl, rfl, rfl⟩
  · exact respectsAt_of_eq_err hk ⟨rfl, rfl, rfl, rfl, rfl⟩
macro_rules | `(tactic| respects_prim) => `(tactic| exact rk_tokens)

theorem rk_lineBudget : Respects RK (lineBudget (F := F)) := by
  unfold lineBudget
  respects_tac
macro_rules | `(tactic| respects_prim) => `(tactic| exact rk_lineBudget)

theorem rk_setVar (name : Str) (v : Value F) : Respects RK (setVar name v) := by
  unfold setVar
  respects_tac
macro_rules | `(tactic| respects_prim) => `(tactic| exact rk_setVar _ _)

theorem rk_emit (o : Out) : Respects RK (emit (F := F) o) := by
  unfold emit
  respects_tac
macro_rules | `(tactic| respects_prim) => `(tactic| exact rk_emit _)

theorem rk_warn (msg : Str) : Respects RK (warn (F := F) msg) := by
  unfold warn
  respects_tac
macro_rules | `(tactic| respects_prim) => `(tactic| exact rk_warn _)

theorem rk_warnUndeclaredArray (name : Str) : Respects RK (warnUndeclaredArray (F := F) name) := by
  unfold warnUndeclaredArray
  respects_tac
macro_rules | `(tactic| respects_prim) => `(tactic| exact rk_warnUndeclaredArray _)

theorem rk_startLoop (sym : Str) (a b c : F) : Respects RK (startLoop sym a b c) := by
  unfold startLoop
  respects_tac
macro_rules | `(tactic| respects_prim) => `(tactic| exact rk_startLoop _ _ _ _)

theorem rk_nextDataElement : Respects RK (nextDataElement (F := F)) := by
  unfold nextDataElement
  respects_tac
macro_rules | `(tactic| respects_prim) => `(tactic| exact rk_nextDataElement)

theorem rk_enterNested : Respects RK (enterNested (F := F)) := by
  unfold enterNested
  respects_tac

theorem rk_exitNested : Respects RK (exitNested (F := F)) := by
  unfold exitNested
  respects_tac

section num
variable [NumOps F]

theorem rk_ensureArray (name : Str) (k : Nat) : Respects RK (ensureArray (F := F) name k) := by
  unfold ensureArray
  respects_tac
macro_rules | `(tactic| respects_prim) => `(tactic| exact rk_ensureArray _ _)

theorem rk_arrayGet (name : Str) (idx : List Nat) : Respects RK (arrayGet (F := F) name idx) := by
  unfold arrayGet
  respects_tac
macro_rules | `(tactic| respects_prim) => `(tactic| exact rk_arrayGet _ _)

theorem rk_arraySet (name : Str) (idx : List Nat) (v : Value F) : Respects RK (arraySet name idx v) := by
  unfold arraySet
  respects_tac
macro_rules | `(tactic| respects_prim) => `(tactic| exact rk_arraySet _ _ _)

theorem rk_arrayCreate (name : Str) (idx : List Nat) : Respects RK (arrayCreate (F := F) name idx) := by
  unfold arrayCreate
  respects_tac
macro_rules | `(tactic| respects_prim) => `(tactic| exact rk_arrayCreate _ _)

theorem rk_rnd (x : F) : Respects RK (rnd x) := by
  unfold rnd
  respects_tac
macro_rules | `(tactic| respects_prim) => `(tactic| exact rk_rnd _)

theorem rk_takeInput : Respects RK (takeInput (F := F)) := by
  unfold takeInput
  respects_tac
macro_rules | `(tactic| respects_prim) => `(tactic| exact rk_takeInput)

theorem rk_assignValue (lv : LValue) (v : Value F) : Respects RK (assignValue lv v) := by
  unfold assignValue
  respects_tac
macro_rules | `(tactic| respects_prim) => `(tactic| exact rk_assignValue _ _)

end num

theorem rk_traceHere : Respects RK (traceHere (F := F)) := by
  unfold traceHere
  respects_tac

/-! the jumps -/

theorem rr_gotoLine (n : Nat) : Respects RR (gotoLine (F := F) n) := by
  unfold gotoLine
  respects_tac
macro_rules | `(tactic| respects_prim) => `(tactic| exact rr_gotoLine _)

theorem rr_gosubLine (n : Nat) : Respects RR (gosubLine (F := F) n) := by
  unfold gosubLine
  respects_tac

theorem rr_returnFromGosub : Respects RR (returnFromGosub (F := F)) := by
  unfold returnFromGosub
  respects_tac

theorem rr_setVar (name : Str) (v : Value F) : Respects RR (setVar name v) := rr_of_rk (rk_setVar name v)
macro_rules | `(tactic| respects_prim) => `(tactic| exact rr_setVar _ _)

theorem rr_endLoop [NumOps F] (sym : Str) : Respects RR (endLoop (F := F) sym) := by
  unfold endLoop
  respects_tac

theorem rr_setImmediate (ts : List (Token F)) : Respects RR (setImmediate ts) := by
  unfold setImmediate
  apply respects_modify
  intro σ; rfl

theorem rr_breakAtCurrentLocation : Respects RR (breakAtCurrentLocation (F := F)) := by
  unfold breakAtCurrentLocation
  apply respects_modify
  intro σ; rfl

theorem rr_defineFunction (name : Str) (args : List Str) : Respects RR (defineFunction (F := F) name args) := by
  unfold defineFunction
  respects_tac

theorem rr_restoreData : Respects RR (M.modify fun s : St F => { s with data := none }) := by
  apply respects_modify
  intro σ; rfl

theorem rr_returnToIdle : Respects RR (returnToIdle (F := F)) := by
  unfold returnToIdle
  apply respects_modify
  intro σ; rfl

theorem rr_nextLine : Respects RR (nextLine (F := F)) := by
  unfold nextLine
  respects_tac

/-! ### the two places that are not amortised against the cursor: INPUT's rewind and DEF's skip -/

theorem next_spec (σ : St F) :
    (next σ = .ok none { σ with reads := σ.reads + 1 } ∧ (toks σ)[σ.loc.idx]? = none) ∨
    (∃ t, next σ = .ok (some t) { σ with reads := σ.reads + 1, loc := { σ.loc with idx := σ.loc.idx + 1 } } ∧
      (toks σ)[σ.loc.idx]? = some t) ∨
    ∃ e, next σ = .err e { σ with reads := σ.reads + 1 } := by
  rcases peek_spec σ with hk | ⟨e, hk⟩
  · cases ht : (toks σ)[σ.loc.idx]? with
    | none =>
      left
      refine ⟨?_, rfl⟩
      simp only [next, bind, M.bindM, hk, ht]; rfl
    | some t =>
      right; left
      refine ⟨t, ?_, rfl⟩
      simp only [next, bind, M.bindM, hk, ht]; rfl
  · right; right
    exact ⟨e, by simp only [next, bind, M.bindM, hk]⟩

/-- DEF skips the body of the definition: one read per remaining token and one more, in any state -/
theorem skipToColonLoop_reads (n : Nat) (σ : St F) :
    (skipToColonLoop n σ).final.reads ≤ σ.reads + (tlen σ - σ.loc.idx) + 1 := by
  induction n generalizing σ with
  | zero => show σ.reads ≤ _; omega
  | succ n ih =>
    unfold skipToColonLoop
    simp only [bind, M.bindM]
    rcases next_spec σ with ⟨hk, _⟩ | ⟨t, hk, ht⟩ | ⟨e, hk⟩
    · rw [hk]; show σ.reads + 1 ≤ _; omega
    · rw [hk]
      simp only
      have hlt := lt_of_getElem?_some ht
      by_cases hc : t.isKw .Colon = true
      · rw [if_pos hc]; show σ.reads + 1 ≤ _; omega
      · rw [if_neg hc]
        have := ih { σ with reads := σ.reads + 1, loc := { σ.loc with idx := σ.loc.idx + 1 } }
        have hl : tlen { σ with reads := σ.reads + 1, loc := { σ.loc with idx := σ.loc.idx + 1 } } = tlen σ := rfl
        rw [hl] at this
        simp only at this
        omega
    · rw [hk]; show σ.reads + 1 ≤ _; omega

theorem findInputBefore_lt (ts : List (Token F)) (n i : Nat) (h : findInputBefore ts n = some i) : i < n := by
  induction n with
  | zero => simp [findInputBefore] at h
  | succ n ih =>
    unfold findInputBefore at h
    split at h
    · split at h
      · simp only [Option.some.injEq] at h; omega
      · have := ih h; omega
    · have := ih h; omega

/-- INPUT's rewind counts one read per token it steps back over: at most the length of the line -/
theorem scost_rewindBeforeInput (c : Nat) : SCost c c (rewindBeforeInput (F := F)) := by
  intro σ hp
  have hidx := hp.2
  rcases tokens_spec σ with hk | ⟨e, hk⟩
  · cases hf : findInputBefore (toks σ) σ.loc.idx with
    | none =>
      have : rewindBeforeInput σ = .err { err := .panic "rewind_before_token: token not found" } σ := by
        simp only [rewindBeforeInput, bind, M.bindM, hk, M.get, hf]; rfl
      constructor
      · intro a s' h'; rw [this] at h'; cases h'
      · intro e s' h'; rw [this] at h'; simp only [Res.err.injEq] at h'; rw [← h'.2]; unfold SBound; omega
    | some i =>
      have : rewindBeforeInput σ = .ok () { σ with loc := { σ.loc with idx := i }, reads := σ.reads + (σ.loc.idx - i) } := by
        simp only [rewindBeforeInput, bind, M.bindM, hk, M.get, hf]; rfl
      constructor
      · intro a s' h'; rw [this] at h'; simp only [Res.ok.injEq] at h'; rw [← h'.2]
        show σ.reads + (σ.loc.idx - i) + c ≤ _
        unfold SBound; omega
      · intro e s' h'; rw [this] at h'; cases h'
  · have : rewindBeforeInput σ = .err e σ := by
      simp only [rewindBeforeInput, bind, M.bindM, hk]
    constructor
    · intro a s' h'; rw [this] at h'; cases h'
    · intro e s' h'; rw [this] at h'; simp only [Res.err.injEq] at h'; rw [← h'.2]; unfold SBound; omega

theorem scost_rewindAndAwaitInput (c : Nat) : SCost c c (rewindAndAwaitInput (F := F)) := by
  unfold rewindAndAwaitInput
  refine scost_bind_flat (k := 0) (scost_rewindBeforeInput c) (fun _ => flat_of_rr ?_) (Nat.le_refl _)
  apply respects_modify
  intro σ; rfl

/-! ### looking at the token before consuming it (`PRINT`'s `peek` … `next`) -/

/-- `ECost` for the initial states that satisfy `P` -/
def ECostOn {α : Type} (P : St F → Prop) (cin : Nat) (cout : α → Nat) (m : M F α) : Prop :=
  ∀ σ, Pre σ → P σ → ECostAt cin cout m σ

theorem ecostOn_of_ecost {α : Type} {P : St F → Prop} {c : Nat} {co : α → Nat} {m : M F α}
    (h : ECost c co m) : ECostOn P c co m := fun σ hp _ => h σ hp

/-- one explicit step from `σ` to `σ2`, then `m` -/
theorem ecostAt_step {β : Type} {m' m : M F β} {σ σ2 : St F} {c c' : Nat} {co : β → Nat}
    (hstep : EPost c c' σ σ2) (heq : m' σ = m σ2) (h : ECostAt c' co m σ2) : ECostAt c co m' σ := by
  obtain ⟨hs, hi1, hi2, hr⟩ := hstep
  have hl := hs.tlen
  rw [ECostAt, heq]
  constructor
  · intro b s' h'
    obtain ⟨hs', hj1, hj2, hr'⟩ := h.1 b s' h'
    exact ⟨hs.trans hs', by omega, by omega, by omega⟩
  · intro e s' h'
    have := h.2 e s' h'
    unfold EErr at this ⊢
    omega

theorem ecost_peek_bind {β : Type} {f : Option (Token F) → M F β} {c : Nat} {co : β → Nat} (hc : 1 ≤ c)
    (h : ∀ t, ECostOn (fun σ => (toks σ)[σ.loc.idx]? = t) (c - 1) co (f t)) : ECost c co (peek >>= f) := by
  intro σ hp
  rcases peek_spec σ with hk | ⟨e, hk⟩
  · have hpost : EPost c (c - 1) σ { σ with reads := σ.reads + 1 } := epost_stay σ hp (by omega)
    refine ecostAt_step (m := f (toks σ)[σ.loc.idx]?) hpost ?_
      (h _ { σ with reads := σ.reads + 1 } (hp.of_same hpost.1 hpost.2.2.1) rfl)
    show M.bindM peek f σ = _
    simp only [M.bindM, hk]
  · refine ecostAt_of_eq_err (e := e) (σ' := { σ with reads := σ.reads + 1 }) ?_ (eerr_stay σ hc)
    show M.bindM peek f σ = _
    simp only [M.bindM, hk]

theorem ecostOn_next_bind {β : Type} {f : Option (Token F) → M F β} {t : Token F} {c : Nat} {co : β → Nat}
    (hc : 1 ≤ c) (h : ECost (c - 1 + 11) co (f (some t))) :
    ECostOn (fun σ => (toks σ)[σ.loc.idx]? = some t) c co (next >>= f) := by
  intro σ hp hP
  have hlt := lt_of_getElem?_some hP
  have hk : next σ = .ok (some t) { σ with reads := σ.reads + 1, loc := { σ.loc with idx := σ.loc.idx + 1 } } := by
    rcases next_spec σ with ⟨_, h0⟩ | ⟨t', hk, ht'⟩ | ⟨e, hk⟩
    · rw [hP] at h0; cases h0
    · rw [hP] at ht'; simp only [Option.some.injEq] at ht'; rw [ht']; exact hk
    · exfalso
      rcases peek_spec' σ with hk' | ⟨e', hk', hnil⟩
      · simp only [next, bind, M.bindM, hk', hP] at hk
        cases hk
      · rw [hnil] at hP
        cases hP
  have hpost : EPost c (c - 1 + 11) σ { σ with reads := σ.reads + 1, loc := { σ.loc with idx := σ.loc.idx + 1 } } :=
    epost_adv σ hlt (by omega)
  refine ecostAt_step (m := f (some t)) hpost ?_ (h _ (hp.of_same hpost.1 hpost.2.2.1))
  show M.bindM next f σ = _
  simp only [M.bindM, hk]

/-! ### `nested`: the nesting counter is invisible to the accounting -/

theorem RK.same {σ s : St F} (h : RK σ s) : Same σ s := ⟨h.1, h.2.1, by rw [h.2.2.1], h.2.2.2.1⟩

theorem RK.tlen {σ s : St F} (h : RK σ s) : tlen s = tlen σ := h.same.tlen

theorem RK.pre {σ s : St F} (h : RK σ s) (hp : Pre σ) : Pre s :=
  ⟨h.2.2.2.1.trans hp.1, by rw [h.tlen, h.2.2.1]; exact hp.2⟩

theorem epost_congr {c co : Nat} {σ s1 s2 s3 : St F} (h1 : RK σ s1) (h : EPost c co s1 s2) (h2 : RK s2 s3) :
    EPost c co σ s3 := by
  obtain ⟨hs, hi1, hi2, hr⟩ := h
  have hl := h1.tlen
  obtain ⟨_, _, hloc1, _, hr1⟩ := id h1
  obtain ⟨_, _, hloc2, _, hr2⟩ := id h2
  refine ⟨(h1.same.trans hs).trans h2.same, ?_, ?_, ?_⟩
  · rw [hloc2, ← hloc1]; exact hi1
  · rw [hloc2, ← hl]; exact hi2
  · rw [hloc2, hr2, ← hloc1, ← hr1]; exact hr

theorem eerr_congr {c : Nat} {σ s1 s2 s3 : St F} (h1 : RK σ s1) (h : EErr c s1 s2) (h2 : RK s2 s3) :
    EErr c σ s3 := by
  have hl := h1.tlen
  obtain ⟨_, _, hloc1, _, hr1⟩ := id h1
  obtain ⟨_, _, hloc2, _, hr2⟩ := id h2
  unfold EErr at h ⊢
  rw [hr2, ← hl, ← hloc1, ← hr1]; exact h

theorem sbound_congr {c : Nat} {σ s1 : St F} (h1 : RK σ s1) : SBound c s1 = SBound c σ := by
  have hl := h1.tlen
  obtain ⟨_, _, hloc1, _, hr1⟩ := id h1
  unfold SBound
  rw [hl, hloc1, hr1]

theorem nested_shape {α : Type} (m : M F α) (σ : St F) :
    (∃ e s1, nested m σ = .err e s1 ∧ RK σ s1) ∨
    (∃ s1 a s2 s3, RK σ s1 ∧ m s1 = .ok a s2 ∧ RK s2 s3 ∧ (nested m σ = .ok a s3 ∨ ∃ e, nested m σ = .err e s3)) ∨
    (∃ s1 e s2 s3 e', RK σ s1 ∧ m s1 = .err e s2 ∧ RK s2 s3 ∧ nested m σ = .err e' s3) := by
  unfold nested
  simp only [bind, M.bindM]
  cases h1 : (enterNested : M F Unit) σ with
  | err e s1 =>
    left
    exact ⟨e, s1, rfl, (rk_enterNested.at σ).2 e s1 h1⟩
  | ok u s1 =>
    have hk1 : RK σ s1 := (rk_enterNested.at σ).1 u s1 h1
    right
    simp only [M.attempt]
    cases h2 : m s1 with
    | ok a s2 =>
      left
      simp only
      cases h3 : (exitNested : M F Unit) s2 with
      | err e s3 => exact ⟨s1, a, s2, s3, hk1, h2, (rk_exitNested.at s2).2 e s3 h3, Or.inr ⟨e, rfl⟩⟩
      | ok u s3 => exact ⟨s1, a, s2, s3, hk1, h2, (rk_exitNested.at s2).1 u s3 h3, Or.inl rfl⟩
    | err e s2 =>
      right
      simp only
      cases h3 : (exitNested : M F Unit) s2 with
      | err e' s3 => exact ⟨s1, e, s2, s3, e', hk1, h2, (rk_exitNested.at s2).2 e' s3 h3, rfl⟩
      | ok u s3 => exact ⟨s1, e, s2, s3, e, hk1, h2, (rk_exitNested.at s2).1 u s3 h3, rfl⟩

theorem ecost_nested {α : Type} {m : M F α} {c : Nat} {co : α → Nat} (h : ECost c co m) : ECost c co (nested m) := by
  intro σ hp
  rcases nested_shape m σ with ⟨e, s1, hn, hk⟩ | ⟨s1, a, s2, s3, hk1, hm, hk2, hn⟩ | ⟨s1, e, s2, s3, e', hk1, hm, hk2, hn⟩
  · exact ecostAt_of_eq_err hn (eerr_congr (IsFrame.refl σ) (eerr_refl σ) hk)
  · have hpost := (h s1 (hk1.pre hp)).1 a s2 hm
    rcases hn with hn | ⟨e, hn⟩
    · exact ecostAt_of_eq_ok hn (epost_congr hk1 hpost hk2)
    · refine ecostAt_of_eq_err hn ?_
      obtain ⟨hs, hi1, hi2, hr⟩ := epost_congr hk1 hpost hk2
      unfold EErr; omega
  · exact ecostAt_of_eq_err hn (eerr_congr hk1 ((h s1 (hk1.pre hp)).2 e s2 hm) hk2)

theorem scost_nested {α : Type} {m : M F α} {c co : Nat} (h : SCost c co m) : SCost c co (nested m) := by
  intro σ hp
  rcases nested_shape m σ with ⟨e, s1, hn, hk⟩ | ⟨s1, a, s2, s3, hk1, hm, hk2, hn⟩ | ⟨s1, e, s2, s3, e', hk1, hm, hk2, hn⟩
  · constructor
    · intro a s' h'; rw [hn] at h'; cases h'
    · intro e' s' h'; rw [hn] at h'; simp only [Res.err.injEq] at h'; rw [← h'.2, hk.2.2.2.2]
      unfold SBound; omega
  · have hpost := (h s1 (hk1.pre hp)).1 a s2 hm
    rw [sbound_congr hk1] at hpost
    have hr := hk2.2.2.2.2
    rcases hn with hn | ⟨e, hn⟩
    · constructor
      · intro a' s' h'; rw [hn] at h'; simp only [Res.ok.injEq] at h'; rw [← h'.2, hr]; exact hpost
      · intro e' s' h'; rw [hn] at h'; cases h'
    · constructor
      · intro a' s' h'; rw [hn] at h'; cases h'
      · intro e' s' h'; rw [hn] at h'; simp only [Res.err.injEq] at h'; rw [← h'.2, hr]; omega
  · have hpost := (h s1 (hk1.pre hp)).2 e s2 hm
    rw [sbound_congr hk1] at hpost
    have hr := hk2.2.2.2.2
    constructor
    · intro a' s' h'; rw [hn] at h'; cases h'
    · intro e'' s' h'; rw [hn] at h'; simp only [Res.err.injEq] at h'; rw [← h'.2, hr]; exact hpost

/-! ### the tactic -/

section more_rules
variable {α β : Type}

theorem ecost_tail {m : M F α} {c : Nat} {cout cout' : α → Nat}
    (h : ECost c cout' m) (ho : ∀ a, cout a ≤ cout' a) : ECost c cout m :=
  ecost_conseq h (Nat.le_refl _) (fun a => by have := ho a; omega)

theorem ecost_bind_bool {m : M F Bool} {f : Bool → M F β} {c0 : Nat} {c1 : Bool → Nat} {c2 : β → Nat}
    (hm : ECost c0 c1 m) (ht : ECost (c1 true) c2 (f true)) (hf : ECost (c1 false) c2 (f false)) :
    ECost c0 c2 (m >>= f) :=
  ecost_bind hm (fun b => by cases b; exact hf; exact ht)

theorem scost_bind_bool {m : M F Bool} {f : Bool → M F β} {c0 : Nat} {c1 : Bool → Nat} {c2 : Nat}
    (hm : ECost c0 c1 m) (ht : SCost (c1 true) c2 (f true)) (hf : SCost (c1 false) c2 (f false)) :
    SCost c0 c2 (m >>= f) :=
  scost_bind hm (fun b => by cases b; exact hf; exact ht)

theorem scost_tail {m : M F α} {c cout cout' : Nat}
    (h : SCost c cout' m) (ho : cout ≤ cout') : SCost c cout m :=
  scost_conseq h (Nat.le_refl _) (by omega)

theorem scost_rpanic {cin cout : Nat} (s : String) : SCost cin cout (M.rpanic s : M F α) :=
  scost_of_ecost (co := fun _ => cout) (ecost_rpanic s) (fun _ => Nat.le_refl _)

theorem scost_throw {cin cout : Nat} (e : TErr) : SCost cin cout (M.throw e : M F α) :=
  scost_of_ecost (co := fun _ => cout) (ecost_throw e) (fun _ => Nat.le_refl _)

theorem ecost_get_bind {f : St F → M F β} {c : Nat} {co : β → Nat} (h : ∀ s, ECost c co (f s)) :
    ECost c co (M.get >>= f) :=
  fun σ hp => h σ σ hp

theorem scost_get_bind {f : St F → M F β} {c co : Nat} (h : ∀ s, SCost c co (f s)) :
    SCost c co (M.get >>= f) :=
  fun σ hp => h σ σ hp

end more_rules

open Lean Elab Tactic Meta in
/-- instantiate the metavariables in the goal (the credit expressions are assigned by unification,
    and `omega` would otherwise take them for atoms) -/
elab "cost_inst" : tactic => do
  let g ← getMainGoal
  let t ← instantiateMVars (← g.getType)
  let t ← Meta.transform t (pre := fun e => pure (if e.isMData then .visit e.mdataExpr! else .continue))
  let g' ← g.replaceTargetDefEq t
  replaceMainGoal [g']

/-- arithmetic side conditions: reduce the `if`s of the credit expressions, then `omega` -/
macro "cost_side" : tactic => `(tactic|
  (cost_inst
   first
   | omega
   | ((try dsimp only)
      (try simp only [Option.isSome_some, Option.isSome_none, ↓reduceIte, Bool.false_eq_true])
      first | done | omega)))

/-- the head constant of the conclusion of a hypothesis, looking through binders and metadata -/
def conclHead : Lean.Expr → Lean.Expr
  | .mdata _ e => conclHead e
  | .forallE _ _ b _ => conclHead b
  | e => e.getAppFn

open Lean Elab Tactic Meta in
/-- apply a local hypothesis whose conclusion is `ECost …` / `SCost …` (hypotheses about the recursive
    entry points, induction hypotheses); its arithmetic premises go to `omega` -/
elab "cost_hyp" : tactic => withMainContext do
  let g ← getMainGoal
  for d in (← getLCtx) do
    if d.isImplementationDetail then continue
    let ty ← instantiateMVars d.type
    let fn := conclHead ty
    if fn.isConstOf ``Abasic.Cost.ECost || fn.isConstOf ``Abasic.Cost.SCost then
      let saved ← saveState
      try
        let others := (← getGoals).tail
        let gs ← g.apply d.toExpr
        setGoals gs
        evalTactic (← `(tactic| all_goals cost_side))
        setGoals ((← getGoals) ++ others)
        return
      catch _ => saved.restore
  throwError "cost_hyp: no applicable hypothesis"

/-- closes `ECost c ?out callee` by a registered lemma (extensible) -/
syntax "cost_call" : tactic
macro_rules | `(tactic| cost_call) => `(tactic| cost_hyp)
macro_rules | `(tactic| cost_call) => `(tactic| exact peek_cost (by cost_side))
macro_rules | `(tactic| cost_call) => `(tactic| exact next_cost (by cost_side))
macro_rules | `(tactic| cost_call) => `(tactic| exact hasNext_cost (by cost_side))
macro_rules | `(tactic| cost_call) => `(tactic| exact nextUnwrapped_cost (by cost_side))
macro_rules | `(tactic| cost_call) => `(tactic| exact expect_cost _ (by cost_side))
macro_rules | `(tactic| cost_call) => `(tactic| exact accept_cost _ (by cost_side))
macro_rules | `(tactic| cost_call) => `(tactic| exact peekIsKw_cost _ (by cost_side))
macro_rules | `(tactic| cost_call) => `(tactic| exact tryNext_cost _ (by cost_side))
macro_rules | `(tactic| cost_call) => `(tactic| exact discardRemaining_cost)
macro_rules | `(tactic| cost_call) => `(tactic| exact ecost_liftE _ (fun _ => Nat.le_refl _))

/-- a call that makes no read: `Respects RK` by a registered lemma -/
syntax "cost_rk" : tactic
macro_rules | `(tactic| cost_rk) => `(tactic| exact rk_lineBudget)
macro_rules | `(tactic| cost_rk) => `(tactic| exact rk_setVar _ _)
macro_rules | `(tactic| cost_rk) => `(tactic| exact rk_emit _)
macro_rules | `(tactic| cost_rk) => `(tactic| exact rk_warn _)
macro_rules | `(tactic| cost_rk) => `(tactic| exact rk_warnUndeclaredArray _)
macro_rules | `(tactic| cost_rk) => `(tactic| exact rk_startLoop _ _ _ _)
macro_rules | `(tactic| cost_rk) => `(tactic| exact rk_nextDataElement)
macro_rules | `(tactic| cost_rk) => `(tactic| exact rk_arrayGet _ _)
macro_rules | `(tactic| cost_rk) => `(tactic| exact rk_arraySet _ _ _)
macro_rules | `(tactic| cost_rk) => `(tactic| exact rk_arrayCreate _ _)
macro_rules | `(tactic| cost_rk) => `(tactic| exact rk_rnd _)
macro_rules | `(tactic| cost_rk) => `(tactic| exact rk_takeInput)
macro_rules | `(tactic| cost_rk) => `(tactic| exact rk_assignValue _ _)
macro_rules | `(tactic| cost_rk) => `(tactic| exact rk_traceHere)
macro_rules | `(tactic| cost_rk) => `(tactic| exact rk_tokens)

theorem ecost_of_rk' {α : Type} {m : M F α} {c : Nat} (h : Respects RK m) : ECost c (fun _ => c) m :=
  ecost_of_rk h (fun _ => Nat.le_refl _)

macro_rules | `(tactic| cost_call) => `(tactic| (apply ecost_of_rk'; cost_rk))

/-- a statement-like call (extensible) -/
syntax "scost_call" : tactic
macro_rules | `(tactic| scost_call) => `(tactic| cost_hyp)
macro_rules | `(tactic| scost_call) => `(tactic| exact scost_rewindAndAwaitInput _)

/-- a jump or another operation that only keeps the read counter: `Respects RR` by a registered lemma -/
syntax "cost_rr" : tactic
macro_rules | `(tactic| cost_rr) => `(tactic| exact rr_gotoLine _)
macro_rules | `(tactic| cost_rr) => `(tactic| exact rr_gosubLine _)
macro_rules | `(tactic| cost_rr) => `(tactic| exact rr_returnFromGosub)
macro_rules | `(tactic| cost_rr) => `(tactic| exact rr_endLoop _)
macro_rules | `(tactic| cost_rr) => `(tactic| exact rr_setImmediate _)
macro_rules | `(tactic| cost_rr) => `(tactic| exact rr_breakAtCurrentLocation)
macro_rules | `(tactic| cost_rr) => `(tactic| exact rr_restoreData)

/-- normalise the goal after a `bind` / `split` -/
macro "cost_norm" : tactic => `(tactic|
  simp only [Option.isSome_some, Option.isSome_none, ↓reduceIte, Bool.false_eq_true])

macro "cost_step" : tactic => `(tactic| first
  | with_reducible exact ecost_fail _
  | with_reducible exact ecost_rpanic _
  | with_reducible exact ecost_throw _
  | with_reducible exact scost_fail _
  | with_reducible exact scost_rpanic _
  | with_reducible exact scost_throw _
  | (with_reducible apply ecost_pure; cost_side)
  | (with_reducible apply scost_pure; cost_side)
  | (with_reducible apply ecost_liftE; intro _; cost_side)
  | (with_reducible apply ecost_get_bind; intro _)
  | (with_reducible apply scost_get_bind; intro _)
  | (with_reducible apply ecost_bind_bool; cost_call)
  | (with_reducible apply scost_bind_bool; cost_call)
  | (with_reducible apply ecost_bind; cost_call; intro _)
  | (with_reducible apply scost_bind; cost_call; intro _)
  | (with_reducible apply ecost_tail; cost_call; intro _; cost_side)
  | (with_reducible apply scost_tail; scost_call; cost_side)
  | (with_reducible apply scost_of_ecost; cost_call; intro _; cost_side)
  | (with_reducible apply scost_of_rr; cost_rr; cost_side)
  | cost_norm
  | split
  | contradiction)

macro "cost_tac" : tactic => `(tactic| repeat' cost_step)

end Abasic.Cost
