import Abasic.Ref.Prog3Input
import Abasic.Proofs.Stmt3Prog
import Abasic.Props.C08More
/-
  C03 / C08 — helpers for the reference machine with INPUT (Ref/Prog3Input.lean):

  * the store of a compiled `RProgramI` and where a statement stands on its
    line (Proofs/Stmt3Store.lean for `RProgramI`);
  * the correspondence between a reference state `RStateI` and a model state:
    `MemI`, `EnvI`, `CoreI`, `PosI`, `AwaitI`, `FinalI` and the relation `Sync`;
  * where the cursor lands behind a statement (`land_afterI`, `land_eolI`);
  * a turn on a colon (`rnsI_colon`).
-/
set_option linter.unusedSectionVars false

namespace Abasic.Prog3I
open Abasic Abasic.Ref Abasic.ExprL Abasic.ExprL2 Abasic.StmtL Abasic.ProgL Abasic.Prog3L M
open Abasic.Props
open Abasic.Prog2L (Rel2)

variable {F : Type} [NumOps F]

/-! ### the store of a compiled program -/

theorem compile_getI (q : RProgramI F) (n : Nat) :
    (compilePI q).get n = (q.line n).map renderLineI := by
  unfold Lines.get compilePI
  induction q with
  | nil => rfl
  | cons l rest ih =>
    obtain ⟨k, ss⟩ := l
    simp only [List.map_cons, Lines.getMap, RProgramI.line]
    by_cases h : (k == n) = true
    · simp only [h, ↓reduceIte, Option.map_some]
    · simp only [h, Bool.false_eq_true, ↓reduceIte]
      exact ih

theorem line_memI {q : RProgramI F} {n : Nat} {ss : List (RStmtI F)} (h : q.line n = some ss) :
    (n, ss) ∈ q := by
  induction q with
  | nil => simp [RProgramI.line] at h
  | cons l rest ih =>
    obtain ⟨k, ss'⟩ := l
    simp only [RProgramI.line] at h
    by_cases hk : (k == n) = true
    · simp only [hk, ↓reduceIte, Option.some.injEq] at h
      have : k = n := by simpa using hk
      subst this; subst h
      exact List.mem_cons_self
    · simp only [hk, Bool.false_eq_true, ↓reduceIte] at h
      exact List.mem_cons_of_mem _ (ih h)

theorem mem_lineI {q : RProgramI F} {n : Nat} (h : n ∈ q.map (·.1)) : ∃ ss, q.line n = some ss := by
  induction q with
  | nil => simp at h
  | cons l rest ih =>
    obtain ⟨k, ss'⟩ := l
    simp only [RProgramI.line]
    by_cases hk : (k == n) = true
    · exact ⟨ss', by simp only [hk, ↓reduceIte]⟩
    · simp only [hk, Bool.false_eq_true, ↓reduceIte]
      apply ih
      simp only [List.map_cons, List.mem_cons] at h
      rcases h with h | h
      · exact absurd (by simpa using h.symm) hk
      · exact h

theorem after_lineI {q : RProgramI F} {n m : Nat} (h : q.after n = some m) : ∃ ss, q.line m = some ss :=
  mem_lineI (List.mem_of_find?_eq_some h)

theorem first_lineI {q : RProgramI F} {n : Nat} (h : q.first = some n) : ∃ ss, q.line n = some ss := by
  apply mem_lineI
  unfold RProgramI.first at h
  cases q with
  | nil => simp at h
  | cons l rest =>
    simp only [List.head?_cons, Option.map_some, Option.some.injEq] at h
    simp [h]

/-- the store holds exactly the lines of `q` -/
structure HoldsI (l : Lines F) (q : RProgramI F) : Prop where
  get : ∀ n, l.get n = (q.line n).map renderLineI
  sorted : l.sorted = q.map (·.1)

theorem holds_compileI (q : RProgramI F) : HoldsI (compilePI q) q := ⟨compile_getI q, rfl⟩

theorem holds_afterI {l : Lines F} {q : RProgramI F} (h : HoldsI l q) (n : Nat) : l.after n = q.after n := by
  unfold Lines.after RProgramI.after
  rw [h.sorted]
  exact afterList_find n _

theorem holds_firstI {l : Lines F} {q : RProgramI F} (h : HoldsI l q) : l.first = q.first := by
  unfold Lines.first RProgramI.first
  rw [h.sorted]
  cases q <;> rfl

/-- a statement begins with a token that is neither ELSE nor `:` -/
theorem renderSI_head (s : RStmtI F) :
    ∃ t ts, renderSI s = t :: ts ∧ t.isKw .Else = false ∧ t.isKw .Colon = false := by
  cases s with
  | base s => exact renderS3_head s
  | input t => exact ⟨_, _, rfl, rfl, rfl⟩

/-! ### where a statement stands on its line -/

/-- the tokens in front of statement `j` of a line -/
def preToksI : List (RStmtI F) → Nat → List (Token F)
  | _, 0 => []
  | [], _ + 1 => []
  | s :: rest, j + 1 => renderSI s ++ .kw .Colon :: preToksI rest j

theorem renderTailI_cons (s : RStmtI F) (rest : List (RStmtI F)) :
    renderTailI (s :: rest) = .kw .Colon :: renderLineI (s :: rest) := rfl

theorem preToksI_zero (ss : List (RStmtI F)) : preToksI ss 0 = [] := by
  cases ss <;> rfl

/-- a line is: what stands in front of statement `j`, the statement, `: …` -/
theorem line_splitI : ∀ (ss : List (RStmtI F)) (j : Nat) (s : RStmtI F), ss[j]? = some s →
    renderLineI ss = preToksI ss j ++ (renderSI s ++ renderTailI (ss.drop (j + 1)))
  | [], j, s, h => by simp at h
  | a :: rest, 0, s, h => by
    simp only [List.getElem?_cons_zero, Option.some.injEq] at h
    subst h
    simp only [preToksI, List.nil_append, renderLineI, Nat.zero_add, List.drop_succ_cons, List.drop_zero]
  | a :: rest, j + 1, s, h => by
    simp only [List.getElem?_cons_succ] at h
    have ih := line_splitI rest j s h
    cases rest with
    | nil => simp at h
    | cons b rest' =>
      simp only [renderLineI, preToksI, renderTailI_cons, List.drop_succ_cons, List.append_assoc,
        List.cons_append] at ih ⊢
      rw [← ih]

/-- the next statement stands one colon further -/
theorem preToks_succI : ∀ (ss : List (RStmtI F)) (j : Nat) (s : RStmtI F), ss[j]? = some s → j + 1 < ss.length →
    preToksI ss (j + 1) = preToksI ss j ++ renderSI s ++ [.kw .Colon]
  | [], j, s, h, _ => by simp at h
  | a :: rest, 0, s, h, _ => by
    simp only [List.getElem?_cons_zero, Option.some.injEq] at h
    subst h
    simp only [preToksI, List.nil_append]
  | a :: rest, j + 1, s, h, hl => by
    simp only [List.getElem?_cons_succ] at h
    have ih := preToks_succI rest j s h (by simpa using hl)
    simp only [preToksI, ih, List.append_assoc, List.cons_append]

theorem drop_tail_nilI {ss : List (RStmtI F)} {j : Nat} (h : ¬ j + 1 < ss.length) :
    renderTailI (ss.drop (j + 1)) = [] := by
  rw [List.drop_eq_nil_of_le (by omega)]
  rfl

theorem drop_tail_consI {ss : List (RStmtI F)} {j : Nat} (h : j + 1 < ss.length) :
    ∃ s' post, ss[j + 1]? = some s' ∧ renderTailI (ss.drop (j + 1)) = .kw .Colon :: (renderSI s' ++ post) := by
  have : ss.drop (j + 1) = ss[j + 1] :: ss.drop (j + 1 + 1) := List.drop_eq_getElem_cons h
  refine ⟨ss[j + 1], renderTailI (ss.drop (j + 1 + 1)), by simp [h], ?_⟩
  rw [this]
  rfl

theorem line_nonemptyI {q : RProgramI F} (hwf : q.WF) {n : Nat} {ss : List (RStmtI F)} (h : q.line n = some ss) :
    0 < ss.length := by
  have := hwf.nonempty _ (line_memI h)
  cases ss with
  | nil => exact absurd rfl this
  | cons _ _ => simp

theorem lineToks_ofI {q : RProgramI F} {σ : St F} (hh : HoldsI σ.lines q) {n : Nat} {ss : List (RStmtI F)}
    (hl : q.line n = some ss) (hline : σ.loc.line = some n) : lineToks σ = some (renderLineI ss) := by
  unfold lineToks
  rw [hline]
  show σ.lines.get n = _
  rw [hh.get, hl]
  rfl

theorem resume_ltI {q : RProgramI F} {n k : Nat} {ss : List (RStmtI F)} (hl : q.line n = some ss)
    (hk : k < ss.length) : q.resume n k = some (n, k) := by
  simp only [RProgramI.resume, hl, hk, ↓reduceIte]

theorem resume_geI {q : RProgramI F} {n k : Nat} {ss : List (RStmtI F)} (hl : q.line n = some ss)
    (hk : ¬ k < ss.length) : q.resume n k = (q.after n).map fun m => (m, 0) := by
  simp only [RProgramI.resume, hl, hk, ↓reduceIte]

/-! ### reference state against model state -/

/-- the reference position `(n, j)` against the model location right behind statement `j - 1` -/
def AddrRelI (q : RProgramI F) (n j : Nat) (loc : Loc) : Prop :=
  ∃ ss j0 s, q.line n = some ss ∧ j = j0 + 1 ∧ ss[j0]? = some s ∧
    loc = { line := some n, idx := (preToksI ss j0).length + (renderSI s).length }

def RetRelI (q : RProgramI F) (a : Nat × Nat) (f : Frame F) : Prop :=
  f.vars = [] ∧ AddrRelI q a.1 a.2 f.ret

def LoopRelI (q : RProgramI F) (l : RLoop F) (i : LoopInfo F) : Prop :=
  i.sym = l.var ∧ i.toV = l.limit ∧ i.stepV = l.step ∧ AddrRelI q l.line l.idx i.loc

/-- the DATA chunks of a program, as `Lines.dataChunks` computes them from its store -/
def progChunksI (q : RProgramI F) : List (Loc × List (DataElement F)) :=
  q.flatMap fun l => Props.C03.lineChunks (l.1, renderLineI l.2)

def DataRelI (q : RProgramI F) (c : Nat) : Option (DataIter F) → Prop
  | none => c = 0
  | some it => it.chunks = progChunksI q ∧
      Prog2L.remItems it = ((allDataI q).drop c).map fun x => (some x.1, x.2)

/-- `Mem3` for the machine with INPUT: the output is the whole log, and no reply is pending -/
structure MemI (q : RProgramI F) (x : RStateI F) (σ : St F) : Prop where
  vars : σ.vars = x.st.vars
  arrays : σ.arrays = x.st.arrays
  rng : σ.rng = x.st.rng
  loops : Rel2 (LoopRelI q) x.st.loops σ.loops
  stack : Rel2 (RetRelI q) x.st.rets σ.stack
  data : DataRelI q x.st.data σ.data
  out : σ.out = x.output.reverse
  fns : FnsLink σ x.st.fns
  fnLines : ∀ name fd, alGet name σ.fns = some fd → alGet name x.st.fnLines = some fd.line
  input : σ.input = none

structure EnvI (q : RProgramI F) (σ : St F) : Prop where
  lines : HoldsI σ.lines q
  warnings : σ.warnings = false
  tracing : σ.tracing = false

/-- what the model state shares with the reference state, cursor and run state apart -/
structure CoreI (q : RProgramI F) (x : RStateI F) (σ : St F) : Prop where
  env : EnvI q σ
  mem : MemI q x σ
  inv : RInv3 x.st
  nesting : σ.nesting = 0

/-- after the end of the program -/
def FinalI (x : RStateI F) (σ : St F) : Prop :=
  σ.state = .idle ∧ σ.vars = x.st.vars ∧ σ.arrays = x.st.arrays ∧ σ.out = x.output.reverse

/-- running on line `n`, at the first token of statement `j` or on the colon in front of it -/
def PosI (q : RProgramI F) (n j : Nat) (σ : St F) : Prop :=
  σ.state = .running ∧ σ.loc.line = some n ∧
    ∃ ss, q.line n = some ss ∧ j < ss.length ∧
      (σ.loc.idx = (preToksI ss j).length ∨ (0 < j ∧ σ.loc.idx + 1 = (preToksI ss j).length))

/-- awaiting input, the cursor ON the INPUT token of statement `j` of line `n` -/
def AwaitI (q : RProgramI F) (n j : Nat) (σ : St F) : Prop :=
  σ.state = .awaitingInput ∧
    ∃ ss t, q.line n = some ss ∧ ss[j]? = some (.input t) ∧
      σ.loc = { line := some n, idx := (preToksI ss j).length }

/-- **The simulation relation** between the reference machine with INPUT and the
    model.  While the program runs: `CoreI`, and the model runs with the cursor
    where the program counter says — or, when the INPUT at the program counter
    has shown its prompt, the model awaits input with the cursor ON that INPUT.
    After the end: idle, with the reference variables, arrays and output. -/
def Sync (q : RProgramI F) (x : RStateI F) (σ : St F) : Prop :=
  match x.st.pc with
  | none => FinalI x σ
  | some (n, j) => CoreI q x σ ∧ (if x.prompted = true then AwaitI q n j σ else PosI q n j σ)

theorem final_endedI {x : RStateI F} {σ : St F} (hv : σ.vars = x.st.vars) (ha : σ.arrays = x.st.arrays)
    (ho : σ.out = x.output.reverse) (k : Nat) : FinalI x (ended (mv σ 0 k)) :=
  ⟨rfl, hv, ha, ho⟩

/-- `MemI` looks at these components of the model state only -/
theorem MemI.congr {q : RProgramI F} {x : RStateI F} {σ σ' : St F} (h : MemI q x σ)
    (h1 : σ'.vars = σ.vars) (h2 : σ'.arrays = σ.arrays) (h3 : σ'.rng = σ.rng) (h4 : σ'.loops = σ.loops)
    (h5 : σ'.stack = σ.stack) (h6 : σ'.data = σ.data) (h7 : σ'.out = σ.out) (h8 : σ'.fns = σ.fns)
    (h9 : σ'.lines = σ.lines) (h10 : σ'.input = σ.input) : MemI q x σ' where
  vars := h1.trans h.vars
  arrays := h2.trans h.arrays
  rng := h3.trans h.rng
  loops := by rw [h4]; exact h.loops
  stack := by rw [h5]; exact h.stack
  data := by rw [h6]; exact h.data
  out := h7.trans h.out
  fns := ⟨fun name hn => by rw [h8]; exact h.fns.undef name hn, fun name d hd => by
    obtain ⟨fd, pre, tail, a, b, c, d', e⟩ := h.fns.defd name d hd
    exact ⟨fd, pre, tail, by rw [h8]; exact a, b, by rw [h9]; exact c, d', e⟩⟩
  fnLines := by rw [h8]; exact h.fnLines
  input := h10.trans h.input

/-- the program counter and the prompt flag are not part of `MemI` -/
theorem MemI.pc {q : RProgramI F} {x : RStateI F} {σ : St F} (h : MemI q x σ) (pc : Option (Nat × Nat)) (b : Bool) :
    MemI q { x with st := { x.st with pc := pc }, prompted := b } σ :=
  ⟨h.vars, h.arrays, h.rng, h.loops, h.stack, h.data, h.out, h.fns, h.fnLines, h.input⟩

theorem RInv3.pcI {r : RState3 F} (h : RInv3 r) (pc : Option (Nat × Nat)) : RInv3 { r with pc := pc } :=
  ⟨h.typed, h.arrs, h.rng, h.rets⟩

theorem CoreI.pc {q : RProgramI F} {x : RStateI F} {σ : St F} (h : CoreI q x σ) (pc : Option (Nat × Nat)) (b : Bool) :
    CoreI q { x with st := { x.st with pc := pc }, prompted := b } σ :=
  ⟨h.env, h.mem.pc pc b, RInv3.pcI h.inv pc, h.nesting⟩

theorem coreI_mv {q : RProgramI F} {x : RStateI F} {σ : St F} (hc : CoreI q x σ) (a k : Nat) (loc : Loc) :
    CoreI q x ({ mv σ a k with loc := loc } : St F) :=
  ⟨⟨hc.env.lines, hc.env.warnings, hc.env.tracing⟩, hc.mem.congr rfl rfl rfl rfl rfl rfl rfl rfl rfl rfl, hc.inv,
    hc.nesting⟩

/-! ### where a turn lands behind a statement -/

/-- what the sequencing at the end of a turn leaves alone (the GOSUB stack is not
    listed: it is emptied when the program ends) -/
structure SeqFrame (σ σ' : St F) : Prop where
  vars : σ'.vars = σ.vars
  arrays : σ'.arrays = σ.arrays
  loops : σ'.loops = σ.loops
  data : σ'.data = σ.data
  fns : σ'.fns = σ.fns
  rng : σ'.rng = σ.rng
  out : σ'.out = σ.out
  input : σ'.input = σ.input

/-- at the end of a line the turn moves to the next greater line, or the program ends -/
theorem land_eolI {q : RProgramI F} (hwf : q.WF) {x : RStateI F} {σ : St F}
    {pre : List (Token F)} {n : Nat} (hc : CoreI q x σ) (hrun : σ.state = .running)
    (hAt : At σ pre []) (hl : σ.loc.line = some n) :
    ∃ σ', C09.sequence σ = .ok () σ' ∧
      Sync q { x with st := { x.st with pc := (q.after n).map fun m => (m, 0) }, prompted := false } σ' ∧
      SeqFrame σ σ' := by
  cases ha : q.after n with
  | none =>
    refine ⟨_, sequence_last hAt hl (by rw [holds_afterI hc.env.lines, ha]), ?_, ⟨rfl, rfl, rfl, rfl, rfl, rfl, rfl, rfl⟩⟩
    exact final_endedI (x := { x with st := { x.st with pc := none }, prompted := false })
      hc.mem.vars hc.mem.arrays hc.mem.out _
  | some m =>
    refine ⟨_, sequence_line hAt hl (by rw [holds_afterI hc.env.lines, ha]), ?_, ⟨rfl, rfl, rfl, rfl, rfl, rfl, rfl, rfl⟩⟩
    obtain ⟨ss', hss'⟩ := after_lineI ha
    refine ⟨(coreI_mv hc 0 _ _).pc _ _, ?_⟩
    show PosI q m 0 _
    refine ⟨hrun, rfl, ss', hss', line_nonemptyI hwf hss', Or.inl ?_⟩
    rw [preToksI_zero]; rfl

/-- **Behind a statement.**  With the cursor right behind statement `k - 1` of
    line `n`, the turn ends on the colon in front of statement `k`, or moves to
    the next line, or ends the program: `RProgramI.resume`. -/
theorem land_afterI {q : RProgramI F} (hwf : q.WF) {x : RStateI F} {σ : St F} (hc : CoreI q x σ)
    (hrun : σ.state = .running) {n k : Nat} (ha : AddrRelI q n k σ.loc) :
    ∃ σ', C09.sequence σ = .ok () σ' ∧
      Sync q { x with st := { x.st with pc := q.resume n k }, prompted := false } σ' ∧ SeqFrame σ σ' := by
  obtain ⟨ss, j0, s, hl, hk, hs, hloc⟩ := ha
  subst hk
  have hline : σ.loc.line = some n := by rw [hloc]
  have hidx : σ.loc.idx = (preToksI ss j0).length + (renderSI s).length := by rw [hloc]
  have hsplit := line_splitI ss j0 s hs
  have hToks := lineToks_ofI hc.env.lines hl hline
  by_cases hj : j0 + 1 < ss.length
  · obtain ⟨s', post, _, htl⟩ := drop_tail_consI hj
    rw [resume_ltI hl hj]
    refine ⟨_, sequence_more (pre := preToksI ss j0 ++ renderSI s) (t := .kw .Colon) (post := renderSI s' ++ post)
      ⟨?_, ?_⟩, ?_, ⟨rfl, rfl, rfl, rfl, rfl, rfl, rfl, rfl⟩⟩
    · rw [hToks, hsplit, htl, List.append_assoc]
    · rw [hidx, List.length_append]
    · refine ⟨⟨⟨hc.env.lines, hc.env.warnings, hc.env.tracing⟩,
        (hc.mem.pc _ _).congr rfl rfl rfl rfl rfl rfl rfl rfl rfl rfl, RInv3.pcI hc.inv _, hc.nesting⟩, ?_⟩
      show PosI q n (j0 + 1) _
      refine ⟨hrun, hline, ss, hl, hj, Or.inr ⟨Nat.succ_pos _, ?_⟩⟩
      rw [preToks_succI ss j0 s hs hj]
      show σ.loc.idx + 0 + 1 = _
      rw [hidx]
      simp only [List.length_append, List.length_cons, List.length_nil]
  · rw [resume_geI hl hj]
    exact land_eolI hwf (pre := preToksI ss j0 ++ renderSI s) hc hrun
      ⟨by rw [hToks, hsplit, drop_tail_nilI hj, List.append_nil, List.append_nil],
       by rw [hidx, List.length_append]⟩ hline

/-! ### one turn on a colon -/

/-- **A turn with the cursor on the colon in front of a statement steps over the
    colon and nothing else** (whatever the statements around it are). -/
theorem rnsI_colon {q : RProgramI F} {fuel : Nat} {σ : St F} (henv : EnvI q σ)
    {n j : Nat} {ss : List (RStmtI F)}
    (hl : q.line n = some ss) (hj : j + 1 < ss.length)
    (hline : σ.loc.line = some n) (hidx : σ.loc.idx + 1 = (preToksI ss (j + 1)).length) :
    runNextStatement fuel σ =
      .ok () { σ with state := .running, loc := { line := some n, idx := (preToksI ss (j + 1)).length },
                      reads := σ.reads + 1 + 1 + 1 } := by
  have hs : ss[j]? = some ss[j] := by simp [show j < ss.length by omega]
  have hs' : ss[j + 1]? = some ss[j + 1] := by simp [hj]
  have hsplit := line_splitI ss (j + 1) _ hs'
  have hpre := preToks_succI ss j _ hs hj
  obtain ⟨t0, ts0, hhead, _, _⟩ := renderSI_head ss[j + 1]
  have hToks : lineToks σ = some ((preToksI ss j ++ renderSI ss[j]) ++
      (.kw .Colon :: (t0 :: (ts0 ++ renderTailI (ss.drop (j + 1 + 1)))))) := by
    rw [lineToks_ofI henv.lines hl hline, hsplit, hpre, hhead]
    simp only [List.append_assoc, List.cons_append, List.nil_append]
  have hAt : At σ (preToksI ss j ++ renderSI ss[j])
      (.kw .Colon :: (t0 :: (ts0 ++ renderTailI (ss.drop (j + 1 + 1))))) := by
    refine ⟨hToks, ?_⟩
    rw [hpre, List.length_append] at hidx
    simp only [List.length_cons, List.length_nil] at hidx
    omega
  have hAt1 : At (mv { σ with state := .running } 0 (σ.reads + 1)) (preToksI ss j ++ renderSI ss[j])
      (.kw .Colon :: (t0 :: (ts0 ++ renderTailI (ss.drop (j + 1 + 1))))) := hAt
  have hbody : stmtBody (evalN fuel) (mv { σ with state := .running } 0 (σ.reads + 1)) =
      .ok () (mv (mv { σ with state := .running } 0 (σ.reads + 1)) 1 (σ.reads + 1 + 1)) := by
    unfold stmtBody
    rw [bind_ok (traceHere_off (σ := mv { σ with state := .running } 0 (σ.reads + 1)) henv.tracing)]
    unfold dispatch
    rw [bind_ok (next_eq hAt1)]
    rfl
  rw [rns_eq fuel σ hAt, bind_ok hbody, sequence_more (at_mv1 hAt1 _)]
  show Res.ok () _ = Res.ok () _
  congr 1
  simp only [mv]
  congr 1
  rw [hline]
  congr 1

end Abasic.Prog3I
