import Abasic.Proofs.ErrKeep
import Abasic.Proofs.StmtLemmasG
/-
  C03 (control stack): `stmt_errkeep` of Proofs/ErrKeep.lean again, for states
  whose GOSUB stack need not be empty (see StmtLemmasG.lean).
-/
set_option linter.unusedSectionVars false

namespace Abasic.StmtG
open Abasic Abasic.Ref Abasic.StmtL Abasic.Hoare M
open Abasic.ExprL hiding Quiet expr_eq main
open Abasic.ExprG (Quiet expr_eq main)

variable {F : Type}

theorem refines_succeeds {res : Res F Unit} {σ : St F} {a e : Nat} {r : RResult F}
    (h : Refines res σ a e r) (hf : ¬ Fails σ r) : ∃ s, res = .ok () s := by
  unfold Refines at h
  cases hc : r.ctl with
  | next => rw [hc] at h; obtain ⟨k, _, hk⟩ := h; exact ⟨_, hk⟩
  | skipLine => rw [hc] at h; obtain ⟨k, _, hk⟩ := h; exact ⟨_, hk⟩
  | jump n =>
    rw [hc] at h
    cases hh : σ.lines.has n with
    | true => obtain ⟨k, _, hk⟩ := h.1 hh; exact ⟨_, hk⟩
    | false => exact absurd (Or.inr ⟨n, hc, hh⟩) hf
  | stop => rw [hc] at h; obtain ⟨k, _, hk⟩ := h; exact ⟨_, hk⟩
  | error x => exact absurd (Or.inl ⟨x, hc⟩) hf

theorem refines_fails {res : Res F Unit} {σ : St F} {a e : Nat} {r : RResult F}
    (h : Refines res σ a e r) (hf : Fails σ r) :
    ∃ x s, res = .err { err := x } s ∧ s.nesting = σ.nesting := by
  unfold Refines at h
  rcases hf with ⟨x, hc⟩ | ⟨n, hc, hh⟩
  · rw [hc] at h; obtain ⟨s, hs, hn⟩ := h; exact ⟨x, s, hs, hn⟩
  · rw [hc] at h; obtain ⟨s, hs, hn⟩ := h.2 hh; exact ⟨_, s, hs, hn⟩

variable [NumOps F]

theorem stmt_errkeep : ∀ (s : RStmt F) (n : Nat) (σ : St F) (pre rest : List (Token F)),
    At σ pre (renderS s ++ rest) → Quiet σ → σ.tracing = false → σ.fns = [] → NoElseLine σ →
    sdepth s ≤ n → σ.nesting + sdepth s ≤ Extracted.nestingLimit → s.Covered → EndFor s rest →
    ErrKeep (stmtBody (evalN n) σ) σ
  | .letS x e, n, σ, pre, rest, hAt, hq, htr, hf, _, _, _, _, _ =>
    let_errkeep x e n σ pre rest hAt htr hf hq.2
  | .printS items, n, σ, pre, rest, hAt, hq, htr, hf, _, _, _, _, _ =>
    print_errkeep items n σ pre rest hAt htr hf hq.2
  | .gotoS m, n, σ, pre, rest, hAt, _, htr, _, _, _, _, hcov, _ =>
    goto_errkeep m n σ pre rest hAt htr hcov
  | .endS, n, σ, pre, rest, hAt, hq, htr, _, _, _, _, _, _ => by
    have h := end_run n σ pre rest 0 0 hAt htr
    obtain ⟨s, hs⟩ := refines_succeeds h (not_fails_of_ctl (Or.inr (Or.inr rfl)))
    exact errKeep_of_ok hs
  | .ifS c t none, n, σ, pre, rest, hAt, hq, htr, hf, hNE, hd, hn, hcov, hE => by
    have hR := stmt_run (.ifS c t none) n σ pre rest hAt hq htr hNE hd hn hcov hE
    by_cases hF' : ¬ Fails σ (RStmt.exec σ.vars (.ifS c t none))
    · obtain ⟨s, hs⟩ := refines_succeeds hR hF'
      exact errKeep_of_ok hs
    have hF := Classical.not_not.mp hF'
    clear hF'
    have hLE : LineEnd rest := by
      rcases hE with h | h
      · exact h
      · exact absurd h.1 (by simp [RStmt.simple])
    obtain ⟨helse, hcovt⟩ : t.elseFree = true ∧ t.Covered := by simpa only [RStmt.Covered] using hcov
    simp only [sdepth] at hd hn
    obtain ⟨n', rfl⟩ : ∃ n', n = n' + 1 := ⟨n - 1, by omega⟩
    have hAt0 : At σ pre (.kw .If :: (render c ++ .kw .Then :: (renderS t ++ rest))) := by
      simpa only [renderS, List.cons_append, List.append_assoc] using hAt
    have hAt1 := at_mv1 hAt0 (σ.reads + 1)
    cases hev : foldE (getVar σ) c with
    | error x =>
      have hrun : stmtBody (evalN (n' + 1)) σ = ifStatement (evalN (n' + 1)) (mv σ 1 (σ.reads + 1)) := by
        unfold stmtBody
        rw [bind_ok (traceHere_off htr)]
        unfold dispatch
        rw [bind_ok (next_eq hAt0)]
      have hX := expr_eq c (main c).1 (n' + 1) (mv σ 1 (σ.reads + 1)) _ _ (by omega) (by simp only [mv_nesting]; omega)
        (ends_then 6 _) hAt1 (hq.mv _ _)
      rw [getVar_mv, hev] at hX
      obtain ⟨σ', hσ', _⟩ := hX
      intro er s h
      rw [hrun] at h
      unfold ifStatement at h
      rw [bind_err hσ'] at h
      cases h
      have hk := ((kq_evalN_expr (n' + 1)).at _).2 _ _ hσ'
      exact (hk hf hq.2).2.2
    | ok v =>
      have hC := if_cond c (n' + 1) σ pre _ hAt0 hq htr (by omega) (by omega)
      rw [hev] at hC
      obtain ⟨r, hr, hrun⟩ := hC
      have hAt3 := if_at c hAt0 r
      cases hb : v.toBool with
      | false =>
        have hr' : RStmt.exec σ.vars (.ifS c t none) = { vars := σ.vars, out := [], ctl := .skipLine } := by
          simp only [RStmt.exec, ← getVar_eq_envOf, hev, hb, Bool.false_eq_true, ↓reduceIte]
        rw [hr'] at hF
        exact absurd hF (not_fails_of_ctl (Or.inr (Or.inl rfl)))
      | true =>
        have hr' : RStmt.exec σ.vars (.ifS c t none) = RStmt.exec σ.vars t := by
          simp only [RStmt.exec, ← getVar_eq_envOf, hev, hb, ↓reduceIte]
        rw [hr'] at hF
        have hI := stmt_run t n' (nest (mv (mv σ (1 + (render c).length + 1) r) 0 (r + 1)) (σ.nesting + 1))
          (pre ++ [.kw .If] ++ render c ++ [.kw .Then]) rest (at_nest (at_mv0 hAt3 _) _)
          ((hq.mv _ _).mv _ _ |>.nest _) htr hNE (by omega)
          (by simp only [nest_nesting]; omega) hcovt (Or.inl hLE)
        have hK := stmt_errkeep t n' (nest (mv (mv σ (1 + (render c).length + 1) r) 0 (r + 1)) (σ.nesting + 1))
          (pre ++ [.kw .If] ++ render c ++ [.kw .Then]) rest (at_nest (at_mv0 hAt3 _) _)
          ((hq.mv _ _).mv _ _ |>.nest _) htr hf hNE (by omega)
          (by simp only [nest_nesting]; omega) hcovt (Or.inl hLE)
        obtain ⟨x, s, hs, hsn⟩ := refines_fails hI hF
        have hres := branch_errkeep t n' (mv σ (1 + (render c).length + 1) r) _ rest hAt3
          (by simp only [mv_nesting]; omega) x s hs hsn
        have hwhole : ifRest (evalN (n' + 1)) true (mv σ (1 + (render c).length + 1) r) =
            .err { err := x } (nest s σ.nesting) := by
          show (statementOrGoto (evalN (n' + 1)) >>= fun _ => tailElse) _ = _
          exact bind_err hres
        intro er s' h
        rw [hrun, hb, hwhole] at h
        cases h
        exact hK _ s hs
  | .ifS c t (some e), n, σ, pre, rest, hAt, hq, htr, hf, hNE, hd, hn, hcov, hE => by
    have hR := stmt_run (.ifS c t (some e)) n σ pre rest hAt hq htr hNE hd hn hcov hE
    by_cases hF' : ¬ Fails σ (RStmt.exec σ.vars (.ifS c t (some e)))
    · obtain ⟨s, hs⟩ := refines_succeeds hR hF'
      exact errKeep_of_ok hs
    have hF := Classical.not_not.mp hF'
    clear hF'
    have hLE : LineEnd rest := by
      rcases hE with h | h
      · exact h
      · exact absurd h.1 (by simp [RStmt.simple])
    obtain ⟨hsimple, hcovt, hcove⟩ : t.simple = true ∧ t.Covered ∧ e.Covered := by
      simpa only [RStmt.Covered] using hcov
    simp only [sdepth] at hd hn
    obtain ⟨n', rfl⟩ : ∃ n', n = n' + 1 := ⟨n - 1, by omega⟩
    have hAt0 : At σ pre (.kw .If :: (render c ++ .kw .Then ::
        (renderS t ++ .kw .Else :: (renderS e ++ rest)))) := by
      simpa only [renderS, List.cons_append, List.append_assoc] using hAt
    have hAt1 := at_mv1 hAt0 (σ.reads + 1)
    cases hev : foldE (getVar σ) c with
    | error x =>
      have hrun : stmtBody (evalN (n' + 1)) σ = ifStatement (evalN (n' + 1)) (mv σ 1 (σ.reads + 1)) := by
        unfold stmtBody
        rw [bind_ok (traceHere_off htr)]
        unfold dispatch
        rw [bind_ok (next_eq hAt0)]
      have hX := expr_eq c (main c).1 (n' + 1) (mv σ 1 (σ.reads + 1)) _ _ (by omega) (by simp only [mv_nesting]; omega)
        (ends_then 6 _) hAt1 (hq.mv _ _)
      rw [getVar_mv, hev] at hX
      obtain ⟨σ', hσ', _⟩ := hX
      intro er s h
      rw [hrun] at h
      unfold ifStatement at h
      rw [bind_err hσ'] at h
      cases h
      have hk := ((kq_evalN_expr (n' + 1)).at _).2 _ _ hσ'
      exact (hk hf hq.2).2.2
    | ok v =>
      have hC := if_cond c (n' + 1) σ pre _ hAt0 hq htr (by omega) (by omega)
      rw [hev] at hC
      obtain ⟨r, hr, hrun⟩ := hC
      have hAt3 := if_at c hAt0 r
      cases hb : v.toBool with
      | true =>
        have hr' : RStmt.exec σ.vars (.ifS c t (some e)) = (RStmt.exec σ.vars t).closeLine := by
          simp only [RStmt.exec, ← getVar_eq_envOf, hev, hb, ↓reduceIte]
        rw [hr'] at hF
        have hF' := fails_closeLine hF
        have hI := stmt_run t n' (nest (mv (mv σ (1 + (render c).length + 1) r) 0 (r + 1)) (σ.nesting + 1))
          (pre ++ [.kw .If] ++ render c ++ [.kw .Then]) (.kw .Else :: (renderS e ++ rest))
          (at_nest (at_mv0 hAt3 _) _)
          ((hq.mv _ _).mv _ _ |>.nest _) htr hNE (by omega)
          (by simp only [nest_nesting]; omega) hcovt (Or.inr ⟨hsimple, stmtEnd_else _⟩)
        have hK := stmt_errkeep t n' (nest (mv (mv σ (1 + (render c).length + 1) r) 0 (r + 1)) (σ.nesting + 1))
          (pre ++ [.kw .If] ++ render c ++ [.kw .Then]) (.kw .Else :: (renderS e ++ rest))
          (at_nest (at_mv0 hAt3 _) _)
          ((hq.mv _ _).mv _ _ |>.nest _) htr hf hNE (by omega)
          (by simp only [nest_nesting]; omega) hcovt (Or.inr ⟨hsimple, stmtEnd_else _⟩)
        obtain ⟨x, s, hs, hsn⟩ := refines_fails hI hF'
        have hres := branch_errkeep t n' (mv σ (1 + (render c).length + 1) r) _ _ hAt3
          (by simp only [mv_nesting]; omega) x s hs hsn
        have hwhole : ifRest (evalN (n' + 1)) true (mv σ (1 + (render c).length + 1) r) =
            .err { err := x } (nest s σ.nesting) := by
          show (statementOrGoto (evalN (n' + 1)) >>= fun _ => tailElse) _ = _
          exact bind_err hres
        intro er s' h
        rw [hrun, hb, hwhole] at h
        cases h
        exact hK _ s hs
      | false =>
        have hr' : RStmt.exec σ.vars (.ifS c t (some e)) = RStmt.exec σ.vars e := by
          simp only [RStmt.exec, ← getVar_eq_envOf, hev, hb, Bool.false_eq_true, ↓reduceIte]
        rw [hr'] at hF
        have hAt4 := at_mv hAt3 (r + (renderS t).length)
        rw [mv_mv] at hAt4
        have hAt5 := at_mv1 hAt4 (r + (renderS t).length + 1)
        rw [mv_mv] at hAt5
        have hI := stmt_run e n'
          (nest (mv (mv σ (1 + (render c).length + 1 + (renderS t).length + 1) (r + (renderS t).length + 1)) 0
            (r + (renderS t).length + 1 + 1)) (σ.nesting + 1))
          _ rest (at_nest (at_mv0 hAt5 _) _)
          ((hq.mv _ _).mv _ _ |>.nest _) htr hNE (by omega)
          (by simp only [nest_nesting]; omega) hcove (Or.inl hLE)
        have hK := stmt_errkeep e n'
          (nest (mv (mv σ (1 + (render c).length + 1 + (renderS t).length + 1) (r + (renderS t).length + 1)) 0
            (r + (renderS t).length + 1 + 1)) (σ.nesting + 1))
          _ rest (at_nest (at_mv0 hAt5 _) _)
          ((hq.mv _ _).mv _ _ |>.nest _) htr hf hNE (by omega)
          (by simp only [nest_nesting]; omega) hcove (Or.inl hLE)
        obtain ⟨x, s, hs, hsn⟩ := refines_fails hI hF
        have hres := branch_errkeep e n'
          (mv σ (1 + (render c).length + 1 + (renderS t).length + 1) (r + (renderS t).length + 1)) _ rest hAt5
          (by simp only [mv_nesting]; omega) x s hs hsn
        intro er s' h
        rw [hrun, hb] at h
        change (lineBudget >>= fun b => ifSkipLoop (evalN (n' + 1)) b) _ = _ at h
        rw [bind_ok (lineBudget_eq hAt3.1)] at h
        obtain ⟨k, hk⟩ : ∃ k, (pre ++ [Token.kw Kw.If] ++ render c ++ [Token.kw Kw.Then] ++
            (renderS t ++ Token.kw Kw.Else :: (renderS e ++ rest))).length + 1
            = (k + 1) + (renderS t).length :=
          ⟨pre.length + (render c).length + (renderS e).length + rest.length + 2 + 1, by
            simp only [List.length_append, List.length_cons, List.length_nil]; omega⟩
        rw [hk, ifSkipLoop_skip _ (renderS t) (k + 1) _ _ _ hAt3
          (renderS_tokens t (simple_elseFree t hsimple)), mv_mv] at h
        simp only [mv_reads] at h
        rw [ifSkipLoop_else hAt4, mv_mv] at h
        simp only [mv_reads] at h
        rw [hres] at h
        cases h
        exact hK _ s hs

end Abasic.StmtG
