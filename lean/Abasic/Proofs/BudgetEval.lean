import Abasic.Proofs.Budget
/-
  The interpreter's evaluator under the `wp`/`Sat` framework of
  Abasic/Proofs/Budget.lean.

  `EvOK d ev`: the assumption on the two recursive entry points —
  `ev.expr` keeps the frame, consumes a token, and (for nesting ≥ d - 1) does
  not run out of fuel; `ev.stmt` does not run out of fuel for nesting ≥ d.
  Under it every loop with a budget above `rem σ` is independent of the budget
  and never exhausts it (`…_wp2`), every function of Expr.lean keeps the frame
  and every statement keeps the nesting counter, without `outOfFuel`.
-/
set_option linter.unusedSectionVars false

namespace Abasic.Budget
open Abasic M

variable {F : Type} [NumOps F]

structure EvOK (d : Nat) (ev : Evals F) : Prop where
  expr : SatS (NF d) ev.expr
  stmt : Sat (NF (d + 1)) SN ev.stmt

theorem EvOK.exprSat {d : Nat} {ev : Evals F} (h : EvOK d ev) : Sat (NF d) Fr ev.expr := h.expr.sat

/-! ### errors of the pure helpers -/

omit [NumOps F] in
theorem populate_err (s : St F) (e : TErr) : (s.populate e).err = e.err := by
  unfold St.populate
  split
  · rfl
  · split <;> rfl

theorem binop_err (op : BinOp) (l r : Value F) (e : Err) (h : op.eval l r = .error e) : e ≠ .outOfFuel := by
  unfold BinOp.eval at h
  intro he
  subst he
  split at h <;> (try split at h) <;> (try split at h) <;> cases h

theorem unop_err (op : UnOp) (v : Value F) (e : Err) (h : op.eval v = .error e) : e ≠ .outOfFuel := by
  unfold UnOp.eval at h
  intro he
  subst he
  split at h <;> (try split at h) <;> cases h

theorem coerce_err (name : Str) (x : DataElement F) (e : Err)
    (h : Value.coerceFromData name x = .error e) : e ≠ .outOfFuel := by
  unfold Value.coerceFromData at h
  intro he
  subst he
  split at h <;> split at h <;> cases h

macro_rules | `(tactic| w_err) => `(tactic| exact coerce_err _ _ _ (by assumption))

section expr
variable {d : Nat} {ev : Evals F}

/-! ### array subscripts -/

theorem arrayIndexLoop_wp2 (hev : EvOK d ev) : ∀ (n1 n2 : Nat) (acc : List Nat) (σ : St F),
    rem σ < n1 → rem σ < n2 →
    wp2 (NF d) (arrayIndexLoop ev n1 acc) (arrayIndexLoop ev n2 acc) (fun _ σ' => FrS σ σ') σ := by
  intro n1
  induction n1 with
  | zero => intro n2 acc σ h; omega
  | succ n1 ih =>
    intro n2 acc σ h1 h2
    cases n2 with
    | zero => omega
    | succ n2 =>
      unfold arrayIndexLoop
      refine wp2_bind (R := Fr) (hev.expr σ) ?_
      intro v σ1 hs1
      refine ⟨hs1.1, ?_⟩
      cases v with
      | str s => exact wp2_refl (wp_fail (R := Fr) (by intro h; cases h))
      | num x =>
        dsimp only
        split
        · exact wp2_refl (wp_fail (R := Fr) (by intro h; cases h))
        · refine wp2_bind (R := Fr) (wp_accept _ σ1) ?_
          rintro b σ2 ⟨hf2, hlt2⟩
          refine ⟨hf2, ?_⟩
          cases b with
          | false =>
            simp only [Bool.false_eq_true, if_false]
            exact wp2_refl (wp_pure (hs1.trans_fr hf2))
          | true =>
            simp only [if_true]
            have hlt := hlt2 rfl
            have := hs1.2
            refine wp2_mono (ih n2 _ σ2 (by omega) (by omega)) ?_
            intro _ σ3 h3
            exact hs1.trans (Fr.trans_frS hf2 h3)

theorem satS_arrayIndex (hev : EvOK d ev) : SatS (NF d) (arrayIndex ev) := by
  intro σ
  unfold arrayIndex
  refine wp_bind (R := Fr) (wp_expect _ σ) ?_
  intro _ σ1 h1
  refine ⟨h1.1, ?_⟩
  refine wp_bind (R := Fr) (wp_lineBudget σ1) ?_
  rintro b σ2 ⟨rfl, hb⟩
  refine ⟨Fr.refl _, ?_⟩
  refine wp_bind (R := Fr) (arrayIndexLoop_wp2 hev b b [] σ2 hb hb).2 ?_
  intro idx σ3 h3
  refine ⟨h3.1, ?_⟩
  refine wp_bind_sat (R := Fr) (sat_expect _) ?_
  intro _ σ4 h4
  exact wp_pure (h1.trans_fr (h3.1.trans h4))

theorem sat_arrayIndex (hev : EvOK d ev) : Sat (NF d) Fr (arrayIndex ev) := (satS_arrayIndex hev).sat

theorem sat_numberFunctionArg (hev : EvOK d ev) : Sat (NF d) Fr (numberFunctionArg ev) := by
  have := hev.exprSat
  unfold numberFunctionArg; sat_start; w_auto

theorem sat_bindArgs (hev : EvOK d ev) (arity : Nat) (args : List Str) :
    ∀ (i : Nat) (acc : List (Str × Value F)), Sat (NF d) Fr (bindArgs ev arity args i acc) := by
  have := hev.exprSat
  induction args with
  | nil => intro i acc; unfold bindArgs; sat_start; w_auto
  | cons a rest ih => intro i acc; unfold bindArgs; sat_start; w_auto

/-! ### user-defined function calls -/

omit [NumOps F] in
theorem push_cases (name : Str) (b : List (Str × Value F)) (σ : St F) :
    (∃ e, pushFunctionCall name b σ = .err e σ ∧ e.err ≠ .outOfFuel) ∨
    (∃ l, pushFunctionCall name b σ =
      .ok () { σ with stack := { ret := σ.loc, vars := b } :: σ.stack, loc := l }) := by
  simp only [pushFunctionCall, bind, M.bindM, M.get]
  split
  · exact .inl ⟨_, rfl, by intro h; cases h⟩
  · cases alGet name σ.fns with
    | none => exact .inl ⟨_, rfl, by intro h; cases h⟩
    | some d => exact .inr ⟨_, rfl⟩

omit [NumOps F] in
theorem pop_eq (σ : St F) : popFunctionCall σ = match σ.stack with
    | [] => .err { err := .panic "stack must not be empty" } σ
    | f :: rest => .ok () { σ with stack := rest, loc := f.ret } := by
  simp only [popFunctionCall, bind, M.bindM, M.get]
  cases σ.stack <;> rfl

/-- push the frame, evaluate the body where the function was defined, pop -/
theorem wp_callTail (hev : EvOK d ev) (name : Str) (b : List (Str × Value F)) (σ : St F) :
    wp (NF d) (pushFunctionCall name b >>= fun _ =>
      M.attempt ev.expr >>= fun r =>
        match r with
        | .ok v => popFunctionCall >>= fun _ => pure (some v)
        | .error e => M.get >>= fun s => popFunctionCall >>= fun _ => M.throw (s.populate e))
      (fun _ σ' => Fr σ σ') σ := by
  unfold wp
  rcases push_cases name b σ with ⟨e, he, hne⟩ | ⟨l, hok⟩
  · simp only [bind, M.bindM, he]
    exact fun _ _ => hne
  · simp only [bind, M.bindM, hok, M.attempt]
    have hx := hev.expr { σ with stack := { ret := σ.loc, vars := b } :: σ.stack, loc := l }
    cases hr : ev.expr { σ with stack := { ret := σ.loc, vars := b } :: σ.stack, loc := l } with
    | ok v σ5 =>
      have hfr := (wp_ok hx hr).1
      have hst : σ5.stack = { ret := σ.loc, vars := b } :: σ.stack := hfr.stack
      simp only [M.bindM, pop_eq, hst, pure, M.pureM]
      exact ⟨rfl, hfr.lines, hfr.imm, Nat.le_refl _, rfl, hfr.nesting⟩
    | err e σ5 =>
      have hnf := wp_err hx hr
      simp only [M.bindM, M.get, pop_eq]
      cases σ5.stack with
      | nil => exact fun _ _ => by intro h; cases h
      | cons f rest =>
        simp only [M.throw]
        intro h1 h2
        rw [populate_err]
        exact hnf h1 h2

theorem sat_userFunctionCall (hev : EvOK d ev) (name : Str) : Sat (NF d) Fr (userFunctionCall ev name) := by
  have := hev.exprSat
  have := sat_bindArgs hev
  unfold userFunctionCall
  sat_start
  apply W.get_bind
  dsimp only
  split
  · exact W.pure
  · refine W.bind (sat_expect _) fun _ _ => ?_
    refine W.bind (sat_bindArgs hev _ _ _ _) fun b _ => ?_
    refine W.bind (sat_expect _) fun _ σ3 => ?_
    exact W.of_wp (wp_callTail hev name b σ3)

theorem sat_functionCall (hev : EvOK d ev) (name : Str) : Sat (NF d) Fr (functionCall ev name) := by
  have := sat_numberFunctionArg hev
  have := sat_userFunctionCall hev
  unfold functionCall; sat_start; w_auto

/-! ### terms and operator tiers -/

theorem satS_term (hev : EvOK d ev) : SatS (NF d) (term ev) := by
  have := sat_functionCall hev
  have := sat_arrayIndex hev
  unfold term
  refine SatS.bind_left (fun σ => wp_nextUnwrapped σ) fun t => ?_
  sat_start; w_auto

theorem satS_parenExpr (hev : EvOK d ev) : SatS (NF d) (parenExpr ev) := by
  unfold parenExpr
  refine SatS.bind_right (sat_accept _) fun b => ?_
  split
  · refine SatS.bind_left hev.expr fun v => ?_
    sat_start; w_auto
  · exact satS_term hev

theorem satS_unaryExpr (hev : EvOK d ev) : SatS (NF d) (unaryExpr ev) := by
  unfold unaryExpr
  refine SatS.bind_right (sat_tryNext _) fun op => ?_
  refine SatS.bind_left (satS_parenExpr hev) fun v => ?_
  cases op with
  | none => exact Sat.pure v
  | some o => exact sat_liftE _ (unop_err o v)

end expr

section level
variable {E : EPost F} [Compat E Fr]

theorem levelLoop_wp2 {sub : M F (Value F)} (hsub : Sat E Fr sub) (ops : Token F → Option BinOp) :
    ∀ (n1 n2 : Nat) (v : Value F) (σ : St F), rem σ < n1 → rem σ < n2 →
    wp2 E (levelLoop sub ops n1 v) (levelLoop sub ops n2 v) (fun _ σ' => Fr σ σ') σ := by
  intro n1
  induction n1 with
  | zero => intro n2 v σ h; omega
  | succ n1 ih =>
    intro n2 v σ h1 h2
    cases n2 with
    | zero => omega
    | succ n2 =>
      unfold levelLoop
      refine wp2_bind (R := Fr) (wp_tryNext ops σ) ?_
      rintro o σ1 ⟨hf1, hlt1⟩
      refine ⟨hf1, ?_⟩
      cases o with
      | none => exact wp2_refl (wp_pure hf1)
      | some op =>
        dsimp only
        have hlt := hlt1 (by intro h; cases h)
        refine wp2_bind (R := Fr) (hsub σ1) ?_
        intro r σ2 hf2
        refine ⟨hf2, ?_⟩
        refine wp2_bind (R := Fr) (sat_liftE (R := Fr) _ (binop_err op v r) σ2) ?_
        intro v' σ3 hf3
        refine ⟨hf3, ?_⟩
        have := hf2.rem_le
        have := hf3.rem_le
        refine wp2_mono (ih n2 v' σ3 (by omega) (by omega)) ?_
        intro _ σ4 h4
        exact hf1.trans (hf2.trans (hf3.trans h4))

theorem satS_level {sub : M F (Value F)} (hsub : SatS E sub) (ops : Token F → Option BinOp) :
    SatS E (level sub ops) := by
  intro σ
  unfold level
  refine wp_bind (R := Fr) (hsub σ) ?_
  intro v σ1 h1
  refine ⟨h1.1, ?_⟩
  refine wp_bind (R := Fr) (wp_lineBudget σ1) ?_
  rintro b σ2 ⟨rfl, hb⟩
  refine ⟨Fr.refl _, ?_⟩
  exact wp_mono (levelLoop_wp2 hsub.sat ops b b v σ2 hb hb).2 fun _ _ h => h1.trans_fr h

end level

section expr2
variable {d : Nat} {ev : Evals F}

theorem satS_orExpr (hev : EvOK d ev) : SatS (NF d) (orExpr ev) := by
  unfold orExpr
  exact satS_level (satS_level (satS_level (satS_level (satS_level (satS_level
    (satS_unaryExpr hev) _) _) _) _) _) _

/-! ### `nested`: one level deeper, one unit of fuel less -/

omit [NumOps F] in
theorem enterNested_cases (σ : St F) :
    (σ.nesting = Extracted.nestingLimit ∧ enterNested σ = .err { err := .oomStack } σ) ∨
    (σ.nesting ≠ Extracted.nestingLimit ∧ enterNested σ = .ok () { σ with nesting := σ.nesting + 1 }) := by
  simp only [enterNested, bind, M.bindM, M.get]
  by_cases h : (σ.nesting == Extracted.nestingLimit) = true
  · left; rw [if_pos h]; exact ⟨by simpa using h, rfl⟩
  · right; rw [if_neg h]; exact ⟨by simpa using h, rfl⟩

omit [NumOps F] in
theorem wp_nested {α : Type} {m : M F α} {Q : α → St F → Prop} {σ : St F}
    (h : wp (NF (d + 1)) m (fun a σ' => σ'.nesting = σ.nesting + 1 ∧ Q a { σ' with nesting := σ.nesting })
      { σ with nesting := σ.nesting + 1 }) : wp (NF d) (nested m) Q σ := by
  unfold wp
  simp only [nested, bind, M.bindM]
  rcases enterNested_cases σ with ⟨_, hen⟩ | ⟨hne, hen⟩ <;> rw [hen]
  · exact fun _ _ => by intro h; cases h
  · simp only [M.attempt]
    cases hm : m { σ with nesting := σ.nesting + 1 } with
    | ok a σ' =>
      obtain ⟨hn, hq⟩ := wp_ok h hm
      have hex : exitNested σ' = .ok () { σ' with nesting := σ.nesting } := by
        simp only [exitNested, bind, M.bindM, M.get, hn, M.set]
      simp only [hex, M.ofExcept, M.pureM]
      exact hq
    | err e σ' =>
      have hnf := wp_err h hm
      have hgoal : e.err ≠ .outOfFuel ∨ ¬ (d ≤ σ.nesting + 1 ∧ σ.nesting ≤ Extracted.nestingLimit) := by
        by_cases hc : d ≤ σ.nesting + 1 ∧ σ.nesting ≤ Extracted.nestingLimit
        · left
          refine hnf ?_ ?_
          · show d + 1 ≤ σ.nesting + 1 + 1
            omega
          · show σ.nesting + 1 ≤ Extracted.nestingLimit
            omega
        · right; exact hc
      simp only [exitNested, bind, M.bindM, M.get]
      cases σ'.nesting with
      | zero => exact fun _ _ => by intro h; cases h
      | succ k =>
        simp only [M.set, M.ofExcept, M.throw]
        intro h1 h2
        rcases hgoal with hg | hg
        · exact hg
        · exact absurd ⟨h1, h2⟩ hg

theorem satS_exprBody (hev : EvOK (d + 1) ev) : SatS (NF d) (exprBody ev) := by
  intro σ
  unfold exprBody
  refine wp_nested (wp_mono (satS_orExpr hev { σ with nesting := σ.nesting + 1 }) ?_)
  intro v σ' hs
  refine ⟨hs.1.nesting, ⟨hs.1.line, hs.1.lines, hs.1.imm, hs.1.idx, hs.1.stack, rfl⟩, hs.2⟩

end expr2

/-! ### statements: primitives that move the cursor elsewhere (same nesting counter) -/

section stmtprims
variable {d : Nat}

omit [NumOps F] in
theorem wp_discardRemaining (σ : St F) :
    wp (NF d) discardRemaining (fun _ σ' => SN σ σ' ∧ rem σ' = 0) σ := by
  unfold wp
  simp only [discardRemaining, bind, M.bindM, M.modify]
  rw [tokens_eq]
  cases ht : toks σ with
  | none => exact fun _ _ => by intro h; cases h
  | some ts =>
    refine ⟨rfl, ?_⟩
    have h2 : toks { σ with loc := { σ.loc with idx := ts.length } } = toks σ := rfl
    unfold rem
    rw [h2, ht]
    exact Nat.sub_self _

omit [NumOps F] in
theorem sat_discardRemaining : Sat (NF d) SN (discardRemaining (F := F)) :=
  fun σ => wp_mono (wp_discardRemaining σ) fun _ _ h => h.1
macro_rules | `(tactic| w_prim0) => `(tactic| with_reducible exact sat_discardRemaining)

omit [NumOps F] in
theorem sat_gotoLine (n : Nat) : Sat (NF d) SN (gotoLine (F := F) n) := by
  unfold gotoLine; sat_start; w_auto
macro_rules | `(tactic| w_prim0) => `(tactic| with_reducible exact sat_gotoLine _)

omit [NumOps F] in
theorem sat_gosubLine (n : Nat) : Sat (NF d) SN (gosubLine (F := F) n) := by
  unfold gosubLine; sat_start; w_auto
macro_rules | `(tactic| w_prim0) => `(tactic| with_reducible exact sat_gosubLine _)

omit [NumOps F] in
theorem sat_returnFromGosub : Sat (NF d) SN (returnFromGosub (F := F)) := by
  unfold returnFromGosub; sat_start; w_auto
macro_rules | `(tactic| w_prim0) => `(tactic| with_reducible exact sat_returnFromGosub)

omit [NumOps F] in
theorem sat_setImmediate (ts : List (Token F)) : Sat (NF d) SN (setImmediate ts) := by
  unfold setImmediate; sat_start; w_auto
macro_rules | `(tactic| w_prim0) => `(tactic| with_reducible exact sat_setImmediate _)

theorem sat_endLoop (sym : Str) : Sat (NF d) SN (endLoop (F := F) sym) := by
  unfold endLoop; sat_start; w_auto
macro_rules | `(tactic| w_prim0) => `(tactic| with_reducible exact sat_endLoop _)

omit [NumOps F] in
theorem sat_rewindBeforeInput : Sat (NF d) SN (rewindBeforeInput (F := F)) := by
  unfold rewindBeforeInput; sat_start; w_auto
macro_rules | `(tactic| w_prim0) => `(tactic| with_reducible exact sat_rewindBeforeInput)

omit [NumOps F] in
theorem sat_rewindAndAwaitInput : Sat (NF d) SN (rewindAndAwaitInput (F := F)) := by
  unfold rewindAndAwaitInput; sat_start; w_auto
macro_rules | `(tactic| w_prim0) => `(tactic| with_reducible exact sat_rewindAndAwaitInput)

omit [NumOps F] in
theorem sat_breakAtCurrentLocation : Sat (NF d) SN (breakAtCurrentLocation (F := F)) := by
  unfold breakAtCurrentLocation; sat_start; w_auto
macro_rules | `(tactic| w_prim0) => `(tactic| with_reducible exact sat_breakAtCurrentLocation)

end stmtprims

/-! ### statements -/

section stmt
variable {d : Nat} {ev : Evals F}

theorem sat_optionalArrayIndex (hev : EvOK d ev) : Sat (NF d) Fr (optionalArrayIndex ev) := by
  have := sat_arrayIndex hev
  unfold optionalArrayIndex; sat_start; w_auto

theorem sat_assignValue (lv : LValue) (v : Value F) : Sat (NF d) Fr (assignValue lv v) := by
  unfold assignValue; sat_start; w_auto

theorem sat_assignmentStatement (hev : EvOK d ev) (name : Str) :
    Sat (NF d) Fr (assignmentStatement ev name) := by
  have := sat_optionalArrayIndex hev
  have := hev.exprSat
  have := sat_assignValue (F := F) (d := d)
  unfold assignmentStatement; sat_start; w_auto

theorem sat_letStatement (hev : EvOK d ev) : Sat (NF d) Fr (letStatement ev) := by
  have := sat_assignmentStatement hev
  unfold letStatement; sat_start; w_auto

theorem sat_parseLValue (hev : EvOK d ev) : Sat (NF d) Fr (parseLValue ev) := by
  have := sat_optionalArrayIndex hev
  unfold parseLValue; sat_start; w_auto

theorem sat_gotoStatement : Sat (NF d) SN (gotoStatement (F := F)) := by
  unfold gotoStatement; sat_start; w_auto

theorem sat_gosubStatement : Sat (NF d) SN (gosubStatement (F := F)) := by
  unfold gosubStatement; sat_start; w_auto

theorem sat_nestedStmt (hev : EvOK d ev) : Sat (NF d) SN (nested ev.stmt) := by
  intro σ
  refine wp_nested (wp_mono (hev.stmt { σ with nesting := σ.nesting + 1 }) ?_)
  intro _ σ' hs
  exact ⟨hs, rfl⟩

theorem sat_statementOrGoto (hev : EvOK d ev) : Sat (NF d) SN (statementOrGoto ev) := by
  have := sat_nestedStmt hev
  have := sat_gotoStatement (F := F) (d := d)
  unfold statementOrGoto; sat_start; w_auto

/-- the skip to `ELSE` of a false `IF` -/
theorem ifSkipLoop_wp2 (hev : EvOK d ev) : ∀ (n1 n2 : Nat) (σ : St F), rem σ < n1 → rem σ < n2 →
    wp2 (NF d) (ifSkipLoop ev n1) (ifSkipLoop ev n2) (fun _ σ' => SN σ σ') σ := by
  intro n1
  induction n1 with
  | zero => intro n2 σ h; omega
  | succ n1 ih =>
    intro n2 σ h1 h2
    cases n2 with
    | zero => omega
    | succ n2 =>
      unfold ifSkipLoop
      refine wp2_bind (R := SN) (wp_next σ) ?_
      rintro o σ1 ⟨hf1, _, hlt1⟩
      refine ⟨hf1.sn, ?_⟩
      cases o with
      | none => exact wp2_refl (wp_pure hf1.sn)
      | some t =>
        dsimp only
        have hlt := hlt1 (by intro h; cases h)
        split
        · refine wp2_bind (R := SN) (wp_discardRemaining σ1) ?_
          rintro _ σ2 ⟨hs2, hz⟩
          refine ⟨hs2, ?_⟩
          refine wp2_mono (ih n2 σ2 (by omega) (by omega)) ?_
          intro _ σ3 h3
          exact Eq.trans h3 (Eq.trans hs2 hf1.sn)
        · split
          · exact wp2_refl (wp_mono (sat_statementOrGoto hev σ1) fun _ σ2 h2 => Eq.trans h2 hf1.sn)
          · refine wp2_mono (ih n2 σ1 (by omega) (by omega)) ?_
            intro _ σ3 h3
            exact Eq.trans h3 hf1.sn

theorem sat_ifSkip (hev : EvOK d ev) : Sat (NF d) SN (lineBudget >>= fun b => ifSkipLoop ev b) := by
  intro σ
  refine wp_bind (R := SN) (wp_lineBudget σ) ?_
  rintro b σ1 ⟨rfl, hb⟩
  exact ⟨rfl, (ifSkipLoop_wp2 hev b b σ1 hb hb).2⟩

theorem sat_ifStatement (hev : EvOK d ev) : Sat (NF d) SN (ifStatement ev) := by
  have := hev.exprSat
  have := sat_statementOrGoto hev
  have := sat_ifSkip hev
  unfold ifStatement; sat_start; w_auto

/-- READ -/
theorem readLoop_wp2 (hev : EvOK d ev) : ∀ (n1 n2 : Nat) (σ : St F), rem σ < n1 → rem σ < n2 →
    wp2 (NF d) (readLoop ev n1) (readLoop ev n2) (fun _ σ' => Fr σ σ') σ := by
  intro n1
  induction n1 with
  | zero => intro n2 σ h; omega
  | succ n1 ih =>
    intro n2 σ h1 h2
    cases n2 with
    | zero => omega
    | succ n2 =>
      unfold readLoop
      refine wp2_bind (R := Fr) (sat_parseLValue hev σ) ?_
      intro lv σ1 hf1
      refine ⟨hf1, ?_⟩
      refine wp2_bind (R := Fr) (sat_nextDataElement (E := NF d) σ1) ?_
      intro o σ2 hf2
      refine ⟨hf2, ?_⟩
      cases o with
      | none => exact wp2_refl (wp_fail (R := Fr) (by intro h; cases h))
      | some e =>
        dsimp only
        refine wp2_bind (R := Fr) (sat_liftE (R := Fr) _ (coerce_err lv.name e) σ2) ?_
        intro v σ3 hf3
        refine ⟨hf3, ?_⟩
        refine wp2_bind (R := Fr) (sat_assignValue lv v σ3) ?_
        intro _ σ4 hf4
        refine ⟨hf4, ?_⟩
        refine wp2_bind (R := Fr) (wp_accept _ σ4) ?_
        rintro b σ5 ⟨hf5, hlt5⟩
        refine ⟨hf5, ?_⟩
        have hall : Fr σ σ5 := hf1.trans (hf2.trans (hf3.trans (hf4.trans hf5)))
        cases b with
        | false =>
          simp only [Bool.false_eq_true, if_false]
          exact wp2_refl (wp_pure hall)
        | true =>
          simp only [if_true]
          have hlt := hlt5 rfl
          have := (hf1.trans (hf2.trans (hf3.trans hf4))).rem_le
          refine wp2_mono (ih n2 σ5 (by omega) (by omega)) ?_
          intro _ σ6 h6
          exact hall.trans h6

theorem sat_readStatement (hev : EvOK d ev) : Sat (NF d) Fr (readStatement ev) := by
  intro σ
  unfold readStatement
  refine wp_bind (R := Fr) (wp_lineBudget σ) ?_
  rintro b σ1 ⟨rfl, hb⟩
  exact ⟨Fr.refl _, (readLoop_wp2 hev b b σ1 hb hb).2⟩

theorem sat_inputStatement (hev : EvOK d ev) : Sat (NF d) SN (inputStatement ev) := by
  have := sat_parseLValue hev
  have := sat_assignValue (F := F) (d := d)
  unfold inputStatement; sat_start; w_auto

theorem sat_dimStatement (hev : EvOK d ev) : Sat (NF d) Fr (dimStatement ev) := by
  have := sat_parseLValue hev
  unfold dimStatement; sat_start; w_auto

/-- PRINT -/
theorem printLoop_wp2 (hev : EvOK d ev) : ∀ (n1 n2 : Nat) (semi : Bool) (acc : Str) (σ : St F),
    rem σ < n1 → rem σ < n2 →
    wp2 (NF d) (printLoop ev n1 semi acc) (printLoop ev n2 semi acc) (fun _ σ' => Fr σ σ') σ := by
  intro n1
  induction n1 with
  | zero => intro n2 semi acc σ h; omega
  | succ n1 ih =>
    intro n2 semi acc σ h1 h2
    cases n2 with
    | zero => omega
    | succ n2 =>
      unfold printLoop
      refine wp2_bind (R := Fr) (wp_peek σ) ?_
      rintro o σ1 ⟨rfl, rfl⟩
      refine ⟨fr_rd σ, ?_⟩
      cases hc : cur σ with
      | none => exact wp2_refl (wp_pure (fr_rd σ))
      | some t =>
        dsimp only
        have hnext : ∀ (n1 n2 : Nat) (semi : Bool) (acc : Str), rem σ < n1 + 1 → rem σ < n2 + 1 →
            (∀ σ', rem σ' < n1 → rem σ' < n2 →
              wp2 (NF d) (printLoop ev n1 semi acc) (printLoop ev n2 semi acc) (fun _ σ'' => Fr σ' σ'') σ') →
            wp2 (NF d) (next >>= fun _ => printLoop ev n1 semi acc) (next >>= fun _ => printLoop ev n2 semi acc)
              (fun _ σ' => Fr σ σ') (rd σ) := by
          intro n1 n2 semi acc h1 h2 ih
          refine wp2_bind (R := Fr) (wp_next (rd σ)) ?_
          rintro o2 σ2 ⟨hf2, ho2, hlt2⟩
          refine ⟨hf2, ?_⟩
          have hlt : rem σ2 < rem σ := hlt2 (by rw [ho2, cur_rd, hc]; intro h; cases h)
          refine wp2_mono (ih σ2 (by omega) (by omega)) ?_
          intro _ σ3 h3
          exact (fr_rd σ).trans (hf2.trans h3)
        split
        · exact wp2_refl (wp_pure (fr_rd σ))
        · split
          · exact hnext n1 n2 true acc h1 h2 fun σ' a b => ih n2 true acc σ' a b
          · split
            · exact hnext n1 n2 false _ h1 h2 fun σ' a b => ih n2 false _ σ' a b
            · refine wp2_bind (R := Fr) (hev.expr (rd σ)) ?_
              intro v σ2 hs2
              refine ⟨hs2.1, ?_⟩
              have : rem σ2 < rem σ := hs2.2
              refine wp2_mono (ih n2 false _ σ2 (by omega) (by omega)) ?_
              intro _ σ3 h3
              exact (fr_rd σ).trans (hs2.1.trans h3)

theorem sat_printStatement (hev : EvOK d ev) : Sat (NF d) Fr (printStatement ev) := by
  intro σ
  unfold printStatement
  refine wp_bind (R := Fr) (wp_lineBudget σ) ?_
  rintro b σ1 ⟨rfl, hb⟩
  refine ⟨Fr.refl _, ?_⟩
  refine wp_bind (R := Fr) (printLoop_wp2 hev b b false [] σ1 hb hb).2 ?_
  rintro ⟨semi, text⟩ σ2 h2
  refine ⟨h2, ?_⟩
  exact wp_mono (sat_emit (E := NF d) _ σ2) fun _ _ h3 => h2.trans h3

theorem sat_forStatement (hev : EvOK d ev) : Sat (NF d) Fr (forStatement ev) := by
  have := hev.exprSat
  unfold forStatement; sat_start; w_auto

theorem sat_nextStatement : Sat (NF d) SN (nextStatement (F := F)) := by
  unfold nextStatement; sat_start; w_auto

end stmt

/-! ### DEF: the parameter list and the skip over the body -/

section defloops
variable {E : EPost F} [Compat E Fr]

omit [NumOps F] in
theorem defArgsLoop_wp2 : ∀ (n1 n2 : Nat) (acc : List Str) (σ : St F), rem σ < n1 → rem σ < n2 →
    wp2 E (defArgsLoop n1 acc) (defArgsLoop n2 acc) (fun _ σ' => Fr σ σ') σ := by
  intro n1
  induction n1 with
  | zero => intro n2 acc σ h; omega
  | succ n1 ih =>
    intro n2 acc σ h1 h2
    cases n2 with
    | zero => omega
    | succ n2 =>
      unfold defArgsLoop
      refine wp2_bind (R := Fr) (wp_next σ) ?_
      rintro o σ1 ⟨hf1, _, hlt1⟩
      refine ⟨hf1, ?_⟩
      split
      · have hlt := hlt1 (by intro h; cases h)
        dsimp only
        refine wp2_bind (R := Fr) (wp_next σ1) ?_
        rintro o2 σ2 ⟨hf2, _, hlt2⟩
        refine ⟨hf2, ?_⟩
        cases o2 with
        | none => exact wp2_refl (wp_fail (R := Fr) (by intro h; cases h))
        | some t =>
          dsimp only
          have hlt' := hlt2 (by intro h; cases h)
          split
          · refine wp2_mono (ih n2 _ σ2 (by omega) (by omega)) ?_
            intro _ σ3 h3
            exact hf1.trans (hf2.trans h3)
          · split
            · exact wp2_refl (wp_pure (hf1.trans hf2))
            · exact wp2_refl (wp_fail (R := Fr) (by intro h; cases h))
      · exact wp2_refl (wp_fail (R := Fr) (by intro h; cases h))

omit [NumOps F] in
theorem skipToColonLoop_wp2 : ∀ (n1 n2 : Nat) (σ : St F), rem σ < n1 → rem σ < n2 →
    wp2 E (skipToColonLoop n1) (skipToColonLoop n2) (fun _ σ' => Fr σ σ') σ := by
  intro n1
  induction n1 with
  | zero => intro n2 σ h; omega
  | succ n1 ih =>
    intro n2 σ h1 h2
    cases n2 with
    | zero => omega
    | succ n2 =>
      unfold skipToColonLoop
      refine wp2_bind (R := Fr) (wp_next σ) ?_
      rintro o σ1 ⟨hf1, _, hlt1⟩
      refine ⟨hf1, ?_⟩
      cases o with
      | none => exact wp2_refl (wp_pure hf1)
      | some t =>
        dsimp only
        have hlt := hlt1 (by intro h; cases h)
        split
        · exact wp2_refl (wp_pure hf1)
        · refine wp2_mono (ih n2 σ1 (by omega) (by omega)) ?_
          intro _ σ3 h3
          exact hf1.trans h3

omit [NumOps F] in
theorem sat_defStatement : Sat E Fr (defStatement (F := F)) := by
  intro σ
  unfold defStatement
  refine wp_bind (R := Fr) (sat_next σ) ?_
  intro o σ1 hf1
  refine ⟨hf1, ?_⟩
  split
  · refine wp_bind (R := Fr) (sat_expect _ σ1) ?_
    intro _ σ2 hf2
    refine ⟨hf2, ?_⟩
    refine wp_bind (R := Fr) (wp_lineBudget σ2) ?_
    rintro b σ3 ⟨rfl, hb⟩
    refine ⟨Fr.refl _, ?_⟩
    refine wp_bind (R := Fr) (defArgsLoop_wp2 b b [] σ3 hb hb).2 ?_
    intro args σ4 hf4
    refine ⟨hf4, ?_⟩
    refine wp_bind (R := Fr) (sat_expect _ σ4) ?_
    intro _ σ5 hf5
    refine ⟨hf5, ?_⟩
    refine wp_bind (R := Fr) (sat_defineFunction _ _ σ5) ?_
    intro _ σ6 hf6
    refine ⟨hf6, ?_⟩
    have := (hf4.trans (hf5.trans hf6)).rem_le
    refine wp_mono (skipToColonLoop_wp2 b b σ6 (by omega) (by omega)).2 ?_
    intro _ σ7 hf7
    exact hf1.trans (hf2.trans (hf4.trans (hf5.trans (hf6.trans hf7))))
  · exact wp_fail (R := Fr) (by intro h; cases h)

end defloops

section top
variable {d : Nat} {ev : Evals F}

theorem sat_dispatch (hev : EvOK d ev) : Sat (NF d) SN (dispatch ev) := by
  have := sat_assignmentStatement hev
  have := sat_dimStatement hev
  have := sat_printStatement hev
  have := sat_inputStatement hev
  have := sat_ifStatement hev
  have := sat_gotoStatement (F := F) (d := d)
  have := sat_gosubStatement (F := F) (d := d)
  have := sat_forStatement hev
  have := sat_nextStatement (F := F) (d := d)
  have := sat_defStatement (F := F) (E := NF d)
  have := sat_readStatement hev
  have := sat_letStatement hev
  unfold dispatch; sat_start; w_auto

theorem sat_stmtBody (hev : EvOK d ev) : Sat (NF d) SN (stmtBody ev) := by
  have := sat_dispatch hev
  unfold stmtBody; sat_start; w_auto

end top

/-! ### the knot -/

omit [NumOps F] in
theorem nf_mono {d d' : Nat} (h : d ≤ d') {σ : St F} {e : TErr} {σ' : St F} (hn : NF d σ e σ') : NF d' σ e σ' :=
  fun h1 h2 => hn (Nat.le_trans h h1) h2

omit [NumOps F] in
theorem wp_mono_d {α : Type} {d d' : Nat} (h : d ≤ d') {m : M F α} {Q : α → St F → Prop} {σ : St F}
    (hw : wp (NF d) m Q σ) : wp (NF d') m Q σ := by
  unfold wp at hw ⊢
  cases hm : m σ with
  | ok a σ' => rw [hm] at hw; exact hw
  | err e σ' => rw [hm] at hw; exact nf_mono h hw

theorem EvOK.mono {d d' : Nat} {ev : Evals F} (h : d ≤ d') (hev : EvOK d ev) : EvOK d' ev :=
  ⟨fun σ => wp_mono_d h (hev.expr σ), fun σ => wp_mono_d (Nat.succ_le_succ h) (hev.stmt σ)⟩

/-- what is assumed of the recursive entry points when only the frame matters -/
theorem evOK_of_frame {ev : Evals F}
    (hexpr : ∀ σ v σ', ev.expr σ = .ok v σ' → Fr σ σ' ∧ rem σ' < rem σ)
    (hstmt : ∀ σ u σ', ev.stmt σ = .ok u σ' → σ'.nesting = σ.nesting) :
    EvOK (Extracted.nestingLimit + 2) ev := by
  constructor
  · intro σ
    unfold wp
    cases hm : ev.expr σ with
    | ok v σ' => exact hexpr σ v σ' hm
    | err e σ' => intro h1 h2; omega
  · intro σ
    unfold wp
    cases hm : ev.stmt σ with
    | ok v σ' => exact hstmt σ v σ' hm
    | err e σ' => intro h1 h2; omega

/-- **The invariant of the recursion fuel.**  `evalN n` is fine for nesting
    counters `k` with `nestingLimit + 1 ≤ n + k` (expressions) and
    `nestingLimit + 2 ≤ n + k` (statements): each recursive entry goes through
    `nested`, which raises the counter and refuses at the cap. -/
theorem evOK_evalN (n : Nat) : EvOK (Extracted.nestingLimit + 2 - n) (evalN (F := F) n) := by
  induction n with
  | zero =>
    constructor
    · intro σ h1 h2; omega
    · intro σ h1 h2; omega
  | succ n ih =>
    have ih' : EvOK (Extracted.nestingLimit + 2 - (n + 1) + 1) (evalN (F := F) n) := ih.mono (by omega)
    exact ⟨satS_exprBody ih', sat_stmtBody ih'⟩

/-! ### the host API (Interp.lean) -/

section host
variable {d : Nat}

omit [NumOps F] in
theorem sat_nextLine : Sat (NF d) SN (nextLine (F := F)) := by
  unfold nextLine; sat_start; w_auto

omit [NumOps F] in
theorem sat_returnToIdle : Sat (NF d) SN (returnToIdle (F := F)) := by
  unfold returnToIdle; sat_start; w_auto

omit [NumOps F] in
theorem sat_continueFromBreakpoint : Sat (NF d) SN (continueFromBreakpoint (F := F)) := by
  unfold continueFromBreakpoint; sat_start; w_auto

omit [NumOps F] in
theorem runFromFirst_nesting (s : St F) : s.runFromFirst.nesting = s.nesting := by
  unfold St.runFromFirst
  dsimp only
  split <;> rfl

theorem sat_runNextStatement (fuel : Nat) (h : Extracted.nestingLimit + 2 - fuel ≤ d) :
    Sat (NF d) SN (runNextStatement (F := F) fuel) := by
  have := sat_stmtBody ((evOK_evalN (F := F) fuel).mono h)
  have := sat_nextLine (F := F) (d := d)
  have := sat_returnToIdle (F := F) (d := d)
  unfold runNextStatement; sat_start; w_auto

theorem sat_maybeProcessCommand (fuel : Nat) (h : Extracted.nestingLimit + 2 - fuel ≤ d) (line : Str) :
    Sat (NF d) SN (maybeProcessCommand (F := F) fuel line) := by
  have := sat_runNextStatement (F := F) fuel h
  have := sat_continueFromBreakpoint (F := F) (d := d)
  have hrun : Sat (NF d) SN (M.modify fun s : St F =>
      ({ s with input := none, vars := [], arrays := [] }).runFromFirst) := by
    sat_start
    exact W.modify fun h => Eq.trans (runFromFirst_nesting _) h
  unfold maybeProcessCommand; sat_start; w_auto

theorem sat_evaluateImpl (fuel : Nat) (h : Extracted.nestingLimit + 2 - fuel ≤ d) (line : Str) :
    Sat (NF d) SN (evaluateImpl (F := F) fuel line) := by
  have := sat_runNextStatement (F := F) fuel h
  have := sat_maybeProcessCommand (F := F) fuel h
  unfold evaluateImpl; sat_start; w_auto

omit [NumOps F] in
theorem sat_postprocess {α : Type} {m : M F α} (hm : Sat (NF d) SN m) : Sat (NF d) SN (postprocess m) := by
  intro σ
  have h := hm σ
  unfold wp at h ⊢
  unfold postprocess
  cases hr : m σ with
  | ok a σ' => rw [hr] at h; exact h
  | err e σ' =>
    rw [hr] at h
    intro h1 h2
    rw [populate_err]
    exact h h1 h2

theorem sat_startEvaluating (fuel : Nat) (h : Extracted.nestingLimit + 2 - fuel ≤ d) (line : Str) :
    Sat (NF d) SN (startEvaluating (F := F) fuel line) :=
  sat_postprocess (sat_evaluateImpl fuel h line)

theorem sat_continueEvaluating (fuel : Nat) (h : Extracted.nestingLimit + 2 - fuel ≤ d) :
    Sat (NF d) SN (continueEvaluating (F := F) fuel) := by
  have := sat_postprocess (sat_runNextStatement (F := F) fuel h)
  unfold continueEvaluating; sat_start; w_auto

end host

end Abasic.Budget
