import Abasic.Proofs.LoopsTyping
/-
  C06 for the control stack and DATA, analyzer side: what the model of the
  static analyzer (`aStmtBody`, Analyzer.lean) does on the rendering of a
  statement of `RStmt2` — FOR, NEXT, GOSUB, RETURN, READ, DATA, RESTORE, DIM and
  `LET a(i…) = e` — against the static check `typeOfS2` (Proofs/LoopsTyping.lean).

  `AOut res ty pre toks rest`: if the check passes, the run succeeds and leaves
  the cursor right behind the statement; if the check fails with `x`, the run
  fails with `x`.  One lemma per statement kind, tied together in `astmt2_run`.
-/
set_option linter.unusedSectionVars false

namespace Abasic.Props.C06
open Abasic Abasic.Ref Abasic.ExprL Abasic.AnaL Abasic.StmtL Abasic.AnaS Abasic.ProgL Abasic.Prog2L Abasic.Stmt2L M

variable {F : Type} [NumOps F]

/-- agreement of a statement-analyzer run with a static verdict -/
def AOut (res : Res F Unit) (ty : Except Err Unit) (pre toks rest : List (Token F)) : Prop :=
  match ty with
  | .ok _ => ∃ σ', res = .ok () σ' ∧ At σ' (pre ++ toks) rest
  | .error x => ∃ σ', res = .err { err := x } σ'

omit [NumOps F] in
theorem at_congr {σ : St F} {pre pre' post : List (Token F)} (h : At σ pre post) (e : pre = pre') :
    At σ pre' post := e ▸ h

/-! ### expressions that have to be numbers -/

theorem anum_ok (e : Expr F) (f ln : Nat) (S : St F) (pre rest : List (Token F))
    (hAt : At S pre (render e ++ rest)) (hl : S.loc.line = some ln)
    (hd : depth e + 1 ≤ f) (hn : S.nesting + (depth e + 1) ≤ Extracted.nestingLimit)
    (hE : Ends 6 rest)
    (ht : typeNum e = .ok ()) :
    ∃ S', (aEvalN f).expr S = .ok .num S' ∧ At S' (pre ++ render e) rest ∧ S'.loc.line = some ln ∧
      S'.nesting = S.nesting := by
  have hX := aexpr_eq e (amain e).1 f ln S pre rest hd hn hE hAt hl
  rw [(typeNum_ok_iff e).1 ht] at hX
  obtain ⟨r, _, hr⟩ := hX
  exact ⟨_, hr, at_lg (at_mv hAt r) _, hl, rfl⟩

theorem anum_err (e : Expr F) (f ln : Nat) (S : St F) (pre rest : List (Token F))
    (hAt : At S pre (render e ++ rest)) (hl : S.loc.line = some ln)
    (hd : depth e + 1 ≤ f) (hn : S.nesting + (depth e + 1) ≤ Extracted.nestingLimit)
    (hE : Ends 6 rest)
    {x : Err} (ht : typeNum e = .error x) :
    (∃ S', (aEvalN f).expr S = .err { err := x } S') ∨
      (x = .typeMismatch ∧ ∃ S', (aEvalN f).expr S = .ok .str S') := by
  have hX := aexpr_eq e (amain e).1 f ln S pre rest hd hn hE hAt hl
  unfold typeNum at ht
  cases hte : typeOf e with
  | error y =>
    rw [hte] at ht hX
    simp only [Except.error.injEq] at ht
    subst ht
    obtain ⟨S', hS', _⟩ := hX
    exact .inl ⟨S', hS'⟩
  | ok t =>
    rw [hte] at ht hX
    cases t with
    | num => cases ht
    | str =>
      simp only [Except.error.injEq] at ht
      obtain ⟨r, _, hr⟩ := hX
      exact .inr ⟨ht.symm, _, hr⟩

theorem bind_num_ok {α : Type} {m : M F VT} {S S' : St F} (h : m S = .ok .num S') (K : VT → M F α) :
    (m >>= fun t => VT.checkNumber t >>= K) S = K .num S' := by
  rw [bind_ok h]
  exact bind_ok (checkNumber_num S')

theorem bind_num_bad {α : Type} {m : M F VT} {S : St F} {x : Err}
    (h : (∃ S', m S = .err { err := x } S') ∨ (x = .typeMismatch ∧ ∃ S', m S = .ok .str S'))
    (K : VT → M F α) :
    ∃ S', (m >>= fun t => VT.checkNumber t >>= K) S = .err { err := x } S' := by
  rcases h with ⟨S', hS'⟩ | ⟨rfl, S', hS'⟩
  · exact ⟨S', bind_err hS'⟩
  · refine ⟨S', ?_⟩
    rw [bind_ok hS']
    exact bind_err (checkNumber_str S')

/-! ### the dispatch of `aStmtBody` -/

theorem aStmtBody_for {ev : AEvals F} {σ : St F} {pre post : List (Token F)}
    (h : At σ pre (.kw .For :: post)) :
    aStmtBody ev σ = aFor ev (mv σ 1 (σ.reads + 1)) := by
  unfold aStmtBody
  rw [bind_ok (next_eq h)]

theorem aStmtBody_next {ev : AEvals F} {σ : St F} {pre post : List (Token F)}
    (h : At σ pre (.kw .Next :: post)) :
    aStmtBody ev σ = aNext (mv σ 1 (σ.reads + 1)) := by
  unfold aStmtBody
  rw [bind_ok (next_eq h)]

theorem aStmtBody_gosub {ev : AEvals F} {σ : St F} {pre post : List (Token F)}
    (h : At σ pre (.kw .Gosub :: post)) :
    aStmtBody ev σ = aGotoOrGosub (mv σ 1 (σ.reads + 1)) := by
  unfold aStmtBody
  rw [bind_ok (next_eq h)]

theorem aStmtBody_return {ev : AEvals F} {σ : St F} {pre post : List (Token F)}
    (h : At σ pre (.kw .Return :: post)) :
    aStmtBody ev σ = .ok () (mv σ 1 (σ.reads + 1)) := by
  unfold aStmtBody
  rw [bind_ok (next_eq h)]
  rfl

theorem aStmtBody_data {ev : AEvals F} {σ : St F} {pre post : List (Token F)} {items : List (DataElement F)}
    (h : At σ pre (.data items :: post)) :
    aStmtBody ev σ = .ok () (mv σ 1 (σ.reads + 1)) := by
  unfold aStmtBody
  rw [bind_ok (next_eq h)]
  rfl

theorem aStmtBody_restore {ev : AEvals F} {σ : St F} {pre post : List (Token F)}
    (h : At σ pre (.kw .Restore :: post)) :
    aStmtBody ev σ = .ok () { mv σ 1 (σ.reads + 1) with data := none } := by
  unfold aStmtBody
  rw [bind_ok (next_eq h)]
  rfl

theorem aStmtBody_read {ev : AEvals F} {σ : St F} {pre post : List (Token F)}
    (h : At σ pre (.kw .Read :: post)) :
    aStmtBody ev σ = (lineBudget >>= fun b => aReadLoop ev b) (mv σ 1 (σ.reads + 1)) := by
  unfold aStmtBody
  rw [bind_ok (next_eq h)]

theorem aStmtBody_dim {ev : AEvals F} {σ : St F} {pre post : List (Token F)}
    (h : At σ pre (.kw .Dim :: post)) :
    aStmtBody ev σ = (aParseLValue ev >>= fun lv => logAccess lv.name lv.loc .write) (mv σ 1 (σ.reads + 1)) := by
  unfold aStmtBody
  rw [bind_ok (next_eq h)]

/-! ### RETURN, DATA, RESTORE, GOSUB, NEXT -/

theorem areturn_run (n : Nat) (σ : St F) (pre rest : List (Token F)) (le : Nat → Bool)
    (hAt : At σ pre (renderS2 (.returnS : RStmt2 F) ++ rest)) :
    AOut (aStmtBody (aEvalN n) σ) (typeOfS2 (.returnS : RStmt2 F) le) pre (renderS2 (.returnS : RStmt2 F)) rest := by
  have hAt0 : At σ pre (.kw .Return :: rest) := hAt
  exact ⟨_, aStmtBody_return hAt0, at_mv1 hAt0 _⟩

theorem adata_run (items : List (DataElement F)) (n : Nat) (σ : St F) (pre rest : List (Token F)) (le : Nat → Bool)
    (hAt : At σ pre (renderS2 (.dataS items : RStmt2 F) ++ rest)) :
    AOut (aStmtBody (aEvalN n) σ) (typeOfS2 (.dataS items : RStmt2 F) le) pre (renderS2 (.dataS items : RStmt2 F))
      rest := by
  have hAt0 : At σ pre (.data items :: rest) := hAt
  exact ⟨_, aStmtBody_data hAt0, at_mv1 hAt0 _⟩

theorem arestore_run (n : Nat) (σ : St F) (pre rest : List (Token F)) (le : Nat → Bool)
    (hAt : At σ pre (renderS2 (.restoreS : RStmt2 F) ++ rest)) :
    AOut (aStmtBody (aEvalN n) σ) (typeOfS2 (.restoreS : RStmt2 F) le) pre (renderS2 (.restoreS : RStmt2 F))
      rest := by
  have hAt0 : At σ pre (.kw .Restore :: rest) := hAt
  have h1 := at_mv1 hAt0 (σ.reads + 1)
  exact ⟨_, aStmtBody_restore hAt0, ⟨h1.1, h1.2⟩⟩

theorem agosub_run (m : Nat) (n : Nat) (σ : St F) (pre rest : List (Token F))
    (hAt : At σ pre (renderS2 (.gosubS m : RStmt2 F) ++ rest))
    (hround : NumOps.toU64 (NumOps.ofNat m : F) = m) :
    AOut (aStmtBody (aEvalN n) σ) (typeOfS2 (.gosubS m : RStmt2 F) σ.lines.has) pre
      (renderS2 (.gosubS m : RStmt2 F)) rest := by
  have hAt0 : At σ pre (.kw .Gosub :: .num (NumOps.ofNat m) :: rest) := hAt
  have hAt1 := at_mv1 hAt0 (σ.reads + 1)
  rw [aStmtBody_gosub hAt0, aGotoOrGosub_eq hAt1, hround]
  have hl : (mv σ 1 (σ.reads + 1)).lines = σ.lines := rfl
  rw [hl]
  cases hh : σ.lines.has m with
  | true =>
    have hty : typeOfS2 (.gosubS m : RStmt2 F) σ.lines.has = .ok () := by simp only [typeOfS2, hh, ↓reduceIte]
    rw [hty]
    simp only [↓reduceIte]
    exact ⟨_, rfl, at_congr (at_mv1 hAt1 _) (by simp [renderS2])⟩
  | false =>
    have hty : typeOfS2 (.gosubS m : RStmt2 F) σ.lines.has = .error .undefinedStatement := by
      simp only [typeOfS2, hh, Bool.false_eq_true, ↓reduceIte]
    rw [hty]
    simp only [Bool.false_eq_true, ↓reduceIte]
    exact ⟨_, rfl⟩

theorem anext_run (v : Str) (n ln : Nat) (σ : St F) (pre rest : List (Token F)) (le : Nat → Bool)
    (hAt : At σ pre (renderS2 (.nextS v : RStmt2 F) ++ rest)) (hl : σ.loc.line = some ln) :
    AOut (aStmtBody (aEvalN n) σ) (typeOfS2 (.nextS v : RStmt2 F) le) pre (renderS2 (.nextS v : RStmt2 F)) rest := by
  have hAt0 : At σ pre (.kw .Next :: .symbol v :: rest) := hAt
  have hAt1 := at_mv1 hAt0 (σ.reads + 1)
  have hAt2 := at_mv1 hAt1 ((mv σ 1 (σ.reads + 1)).reads + 1)
  rw [aStmtBody_next hAt0]
  unfold aNext
  rw [bind_ok (next_eq hAt1)]
  dsimp only
  have hl2 : (mv (mv σ 1 (σ.reads + 1)) 1 ((mv σ 1 (σ.reads + 1)).reads + 1)).loc.line = some ln := hl
  rw [bind_ok (prevLoc_eq (ln := ln) (i := (pre ++ [Token.kw Kw.Next]).length) hl2
    (by rw [hAt2.2]; simp only [List.length_append, List.length_cons, List.length_nil]))]
  rw [bind_ok (logAccess_eq _ _ _ _ _)]
  simp only [typeOfS2]
  cases hv : VT.ofName v with
  | num =>
    rw [bind_ok (checkNumber_num _)]
    simp only [↓reduceIte]
    exact ⟨_, rfl, at_congr (at_lg hAt2 _) (by simp [renderS2])⟩
  | str =>
    rw [bind_err (checkNumber_str _)]
    simp only [reduceCtorEq, ↓reduceIte]
    exact ⟨_, rfl⟩

/-! ### FOR -/

/-- the optional STEP of a FOR, as tokens -/
def stepToks : Option (Expr F) → List (Token F)
  | none => []
  | some c => .kw .Step :: render c

theorem renderS2_for (v : Str) (a b : Expr F) (c : Option (Expr F)) :
    renderS2 (.forS v a b c) =
      .kw .For :: .symbol v :: .kw .Equals :: (render a ++ .kw .To :: (render b ++ stepToks c)) := by
  cases c <;> simp [renderS2, stepToks]

theorem afor_run (v : Str) (a b : Expr F) (c : Option (Expr F)) (n ln : Nat) (σ : St F)
    (pre rest : List (Token F)) (le : Nat → Bool)
    (hAt : At σ pre (renderS2 (.forS v a b c) ++ rest)) (hl : σ.loc.line = some ln)
    (hd : sdepth2 (.forS v a b c) ≤ n) (hn : σ.nesting + sdepth2 (.forS v a b c) ≤ Extracted.nestingLimit)
    (hE : LineEnd rest) :
    AOut (aStmtBody (aEvalN n) σ) (typeOfS2 (.forS v a b c) le) pre (renderS2 (.forS v a b c)) rest := by
  have hdep : depth a + 1 ≤ n ∧ σ.nesting + (depth a + 1) ≤ Extracted.nestingLimit ∧
      depth b + 1 ≤ n ∧ σ.nesting + (depth b + 1) ≤ Extracted.nestingLimit ∧
      ∀ e, c = some e → depth e + 1 ≤ n ∧ σ.nesting + (depth e + 1) ≤ Extracted.nestingLimit := by
    cases c with
    | none =>
      simp only [sdepth2] at hd hn
      exact ⟨by omega, by omega, by omega, by omega, fun e he => by cases he⟩
    | some c =>
      simp only [sdepth2] at hd hn
      refine ⟨by omega, by omega, by omega, by omega, fun e he => ?_⟩
      cases he
      exact ⟨by omega, by omega⟩
  obtain ⟨hda, hna, hdb, hnb, hdc⟩ := hdep
  rw [renderS2_for] at hAt ⊢
  have hAt0 : At σ pre (.kw .For :: .symbol v :: .kw .Equals ::
      (render a ++ (.kw .To :: (render b ++ (stepToks c ++ rest))))) := by
    simpa only [List.cons_append, List.append_assoc] using hAt
  have hAt1 := at_mv1 hAt0 (σ.reads + 1)
  have hAt2 := at_mv1 hAt1 ((mv σ 1 (σ.reads + 1)).reads + 1)
  rw [aStmtBody_for hAt0]
  unfold aFor
  rw [bind_ok (next_eq hAt1)]
  dsimp only
  have hl2 : (mv (mv σ 1 (σ.reads + 1)) 1 ((mv σ 1 (σ.reads + 1)).reads + 1)).loc.line = some ln := hl
  rw [bind_ok (prevLoc_eq (ln := ln) (i := (pre ++ [Token.kw Kw.For]).length) hl2
    (by rw [hAt2.2]; simp only [List.length_append, List.length_cons, List.length_nil]))]
  rw [bind_ok (logAccess_eq _ _ _ _ _)]
  simp only [typeOfS2]
  cases hv : VT.ofName v with
  | str =>
    rw [bind_err (checkNumber_str _)]
    simp only [reduceCtorEq, ↓reduceIte]
    exact ⟨_, rfl⟩
  | num =>
    rw [bind_ok (checkNumber_num _)]
    simp only [↓reduceIte]
    have hAt3 := at_lg hAt2 [(v, ln, (pre ++ [Token.kw Kw.For]).length, Access.write)]
    rw [bind_ok (expect_eq hAt3 rfl)]
    have hAt4 := at_mv1 hAt3
      ((lg (mv (mv σ 1 (σ.reads + 1)) 1 ((mv σ 1 (σ.reads + 1)).reads + 1))
        [(v, ln, (pre ++ [Token.kw Kw.For]).length, Access.write)]).reads + 1)
    cases hta : typeNum a with
    | error x =>
      obtain ⟨S', hS'⟩ := bind_num_bad (anum_err a n ln _ _ _ hAt4 hl hda hna (ends_to 6 _) hta)
        (fun _ => expect .To >>= fun _ => (aEvalN n).expr >>= fun b => VT.checkNumber (F := F) b >>= fun _ =>
          accept .Step >>= fun s => if s then (aEvalN n).expr >>= fun c => VT.checkNumber (F := F) c >>= fun _ =>
            pure () else pure ())
      exact ⟨S', hS'⟩
    | ok u =>
      obtain ⟨S5, hS5, hAt5, hl5, hn5⟩ := anum_ok a n ln _ _ _ hAt4 hl hda hna (ends_to 6 _) hta
      rw [bind_num_ok hS5]
      rw [bind_ok (expect_eq hAt5 rfl)]
      have hAt6 := at_mv1 hAt5 (S5.reads + 1)
      have hEb : Ends 6 (stepToks c ++ rest) := by
        cases c with
        | none => exact ends_of_stmtEnd hE.stmtEnd 6
        | some c => exact ends_step 6 _
      have hnb' : (mv S5 1 (S5.reads + 1)).nesting + (depth b + 1) ≤ Extracted.nestingLimit := by
        have h5 : S5.nesting = σ.nesting := hn5
        show S5.nesting + _ ≤ _; rw [h5]; exact hnb
      cases htb : typeNum b with
      | error x =>
        obtain ⟨S', hS'⟩ := bind_num_bad (anum_err b n ln _ _ _ hAt6 hl5 hdb hnb' hEb htb)
          (fun _ => accept .Step >>= fun s => if s then (aEvalN n).expr >>= fun c =>
            VT.checkNumber (F := F) c >>= fun _ => pure () else pure ())
        exact ⟨S', hS'⟩
      | ok u =>
        obtain ⟨S7, hS7, hAt7, hl7, hn7⟩ := anum_ok b n ln _ _ _ hAt6 hl5 hdb hnb' hEb htb
        rw [bind_num_ok hS7]
        cases c with
        | none =>
          have hAt7' : At S7 (pre ++ [Token.kw Kw.For] ++ [Token.symbol v] ++ [Token.kw Kw.Equals] ++ render a ++
              [Token.kw Kw.To] ++ render b) rest := hAt7
          rw [bind_ok (accept_end hAt7' (lineEnd_not hE (by decide)))]
          simp only [Bool.false_eq_true, ↓reduceIte, typeStep]
          exact ⟨_, rfl, at_congr (at_mv0 hAt7' _) (by simp [stepToks])⟩
        | some c =>
          have hAt7' : At S7 (pre ++ [Token.kw Kw.For] ++ [Token.symbol v] ++ [Token.kw Kw.Equals] ++ render a ++
              [Token.kw Kw.To] ++ render b) (.kw .Step :: (render c ++ rest)) := hAt7
          rw [bind_ok (accept_true hAt7' rfl)]
          simp only [↓reduceIte, typeStep]
          have hAt8 := at_mv1 hAt7' (S7.reads + 1)
          obtain ⟨hdc1, hdc2⟩ := hdc c rfl
          have hnc' : (mv S7 1 (S7.reads + 1)).nesting + (depth c + 1) ≤ Extracted.nestingLimit := by
            have h75 : S7.nesting = σ.nesting := hn7.trans hn5
            show S7.nesting + _ ≤ _; rw [h75]; exact hdc2
          cases htc : typeNum c with
          | error x =>
            obtain ⟨S', hS'⟩ := bind_num_bad
              (anum_err c n ln _ _ _ hAt8 hl7 hdc1 hnc' (ends_of_stmtEnd hE.stmtEnd 6) htc)
              (fun _ => (pure () : M F Unit))
            exact ⟨S', hS'⟩
          | ok u =>
            obtain ⟨S9, hS9, hAt9, _, _⟩ :=
              anum_ok c n ln _ _ _ hAt8 hl7 hdc1 hnc' (ends_of_stmtEnd hE.stmtEnd 6) htc
            rw [bind_num_ok hS9]
            exact ⟨_, rfl, at_congr hAt9 (by simp [stepToks])⟩

/-! ### subscripts -/

theorem subs_len : ∀ (es : List (Expr F)), es.length ≤ (renderSubs2 es).length
  | [] => Nat.le_refl _
  | [e] => by have := render_pos e; simp only [renderSubs2, List.length_cons, List.length_nil]; omega
  | e :: e2 :: r => by
    have := render_pos e
    have ih := subs_len (e2 :: r)
    simp only [renderSubs2, List.length_append, List.length_cons] at ih ⊢
    omega

theorem typeNums_cons (e : Expr F) (rest : List (Expr F)) :
    typeNums (e :: rest) = (match typeNum e with | .error x => .error x | .ok _ => typeNums rest) := rfl

/-- the loop of `aArrayIndex` over the subscripts `es`, up to the closing parenthesis -/
theorem aidxLoop_run (f ln : Nat) (rest : List (Token F)) :
    ∀ (es : List (Expr F)), es ≠ [] → ∀ (k arity : Nat) (S : St F) (pre : List (Token F)),
      At S pre (renderSubs2 es ++ .kw .RightParen :: rest) → S.loc.line = some ln →
      argsDepth es ≤ f → S.nesting + argsDepth es ≤ Extracted.nestingLimit → es.length ≤ k →
      match typeNums es with
      | .ok _ => ∃ S' m, aArrayIndexLoop (aEvalN f) k arity S = .ok m S' ∧
          At S' (pre ++ renderSubs2 es) (.kw .RightParen :: rest) ∧ S'.loc.line = some ln ∧ S'.nesting = S.nesting
      | .error x => ∃ S', aArrayIndexLoop (aEvalN f) k arity S = .err { err := x } S'
  | [], h, _, _, _, _, _, _, _, _, _ => absurd rfl h
  | [e], _, k, arity, S, pre, hAt, hl, hd, hn, hk => by
    obtain ⟨k', rfl⟩ : ∃ k', k = k' + 1 := ⟨k - 1, by simp only [List.length_cons, List.length_nil] at hk; omega⟩
    have hAt0 : At S pre (render e ++ .kw .RightParen :: rest) := hAt
    simp only [argsDepth] at hd hn
    rw [aArrayIndexLoop]
    simp only [typeNums]
    cases hte : typeNum e with
    | error x =>
      obtain ⟨S', hS'⟩ := bind_num_bad (anum_err e f ln _ _ _ hAt0 hl (by omega) (by omega) (ends_rparen 6 _) hte)
        (fun _ => accept .Comma >>= fun b => if b then aArrayIndexLoop (aEvalN f) k' (arity + 1) else pure (arity + 1))
      exact ⟨S', hS'⟩
    | ok u =>
      obtain ⟨S1, hS1, hAt1, hl1, hn1⟩ := anum_ok e f ln _ _ _ hAt0 hl (by omega) (by omega) (ends_rparen 6 _) hte
      rw [bind_num_ok hS1, bind_ok (accept_false hAt1 rfl)]
      simp only [Bool.false_eq_true, ↓reduceIte]
      exact ⟨_, _, rfl, at_mv0 hAt1 _, hl1, hn1⟩
  | e :: e2 :: r, _, k, arity, S, pre, hAt, hl, hd, hn, hk => by
    obtain ⟨k', rfl⟩ : ∃ k', k = k' + 1 := ⟨k - 1, by simp only [List.length_cons] at hk; omega⟩
    have hAt0 : At S pre (render e ++ .kw .Comma :: (renderSubs2 (e2 :: r) ++ .kw .RightParen :: rest)) := by
      simpa only [renderSubs2, List.append_assoc, List.cons_append] using hAt
    have hd' : depth e + 1 ≤ f ∧ argsDepth (e2 :: r) ≤ f := by
      simp only [argsDepth] at hd ⊢; omega
    have hn' : S.nesting + (depth e + 1) ≤ Extracted.nestingLimit ∧
        S.nesting + argsDepth (e2 :: r) ≤ Extracted.nestingLimit := by
      simp only [argsDepth] at hn ⊢; omega
    rw [aArrayIndexLoop, typeNums_cons]
    cases hte : typeNum e with
    | error x =>
      obtain ⟨S', hS'⟩ := bind_num_bad (anum_err e f ln _ _ _ hAt0 hl hd'.1 hn'.1 (ends_comma 6 _) hte)
        (fun _ => accept .Comma >>= fun b => if b then aArrayIndexLoop (aEvalN f) k' (arity + 1) else pure (arity + 1))
      exact ⟨S', hS'⟩
    | ok u =>
      obtain ⟨S1, hS1, hAt1, hl1, hn1⟩ := anum_ok e f ln _ _ _ hAt0 hl hd'.1 hn'.1 (ends_comma 6 _) hte
      rw [bind_num_ok hS1, bind_ok (accept_true hAt1 rfl)]
      simp only [↓reduceIte]
      have hI := aidxLoop_run f ln rest (e2 :: r) (by simp) k' (arity + 1) (mv S1 1 (S1.reads + 1))
        (pre ++ render e ++ [.kw .Comma]) (at_mv1 hAt1 _) hl1 hd'.2
        (by show S1.nesting + _ ≤ _; rw [hn1]; exact hn'.2)
        (by simp only [List.length_cons] at hk ⊢; omega)
      cases htr : typeNums (e2 :: r) with
      | error x =>
        rw [htr] at hI
        exact hI
      | ok u =>
        rw [htr] at hI
        obtain ⟨S', m, hS', hAt', hl', hn'⟩ := hI
        refine ⟨S', m, hS', at_congr hAt' ?_, hl', hn'.trans hn1⟩
        simp only [renderSubs2, List.append_assoc, List.cons_append, List.nil_append]

/-- `aArrayIndex` on `( e₁ , … )` -/
theorem aidx_run (es : List (Expr F)) (hes : es ≠ []) (f ln : Nat) (S : St F) (pre rest : List (Token F))
    (hAt : At S pre (.kw .LeftParen :: (renderSubs2 es ++ .kw .RightParen :: rest))) (hl : S.loc.line = some ln)
    (hd : argsDepth es ≤ f) (hn : S.nesting + argsDepth es ≤ Extracted.nestingLimit) :
    match typeNums es with
    | .ok _ => ∃ S' m, aArrayIndex (aEvalN f) S = .ok m S' ∧
        At S' (pre ++ .kw .LeftParen :: (renderSubs2 es ++ [.kw .RightParen])) rest ∧ S'.loc.line = some ln ∧
        S'.nesting = S.nesting
    | .error x => ∃ S', aArrayIndex (aEvalN f) S = .err { err := x } S' := by
  unfold aArrayIndex
  rw [bind_ok (expect_eq hAt rfl)]
  have hAt1 := at_mv1 hAt (S.reads + 1)
  rw [bind_ok (lineBudget_eq hAt1.1)]
  have hlen : es.length ≤ (pre ++ [Token.kw Kw.LeftParen] ++ (renderSubs2 es ++ Token.kw Kw.RightParen :: rest)).length + 1 := by
    have := subs_len es
    simp only [List.length_append, List.length_cons]
    omega
  have hL := aidxLoop_run f ln rest es hes _ 0 _ _ hAt1 hl hd hn hlen
  cases hty : typeNums es with
  | error x =>
    rw [hty] at hL
    obtain ⟨S', hS'⟩ := hL
    exact ⟨S', bind_err hS'⟩
  | ok u =>
    rw [hty] at hL
    obtain ⟨S', m, hS', hAt', hl', hn'⟩ := hL
    rw [bind_ok hS', bind_ok (expect_eq hAt' rfl)]
    refine ⟨_, m, rfl, at_congr (at_mv1 hAt' _) ?_, hl', hn'⟩
    simp only [List.append_assoc, List.cons_append, List.nil_append]

/-- `aOptionalArrayIndex` on `( e₁ , … )` -/
theorem aoptidx_run (es : List (Expr F)) (hes : es ≠ []) (f ln : Nat) (S : St F) (pre rest : List (Token F))
    (hAt : At S pre (.kw .LeftParen :: (renderSubs2 es ++ .kw .RightParen :: rest))) (hl : S.loc.line = some ln)
    (hd : argsDepth es ≤ f) (hn : S.nesting + argsDepth es ≤ Extracted.nestingLimit) :
    match typeNums es with
    | .ok _ => ∃ S' m, aOptionalArrayIndex (aEvalN f) S = .ok (some m) S' ∧
        At S' (pre ++ .kw .LeftParen :: (renderSubs2 es ++ [.kw .RightParen])) rest ∧ S'.loc.line = some ln ∧
        S'.nesting = S.nesting
    | .error x => ∃ S', aOptionalArrayIndex (aEvalN f) S = .err { err := x } S' := by
  unfold aOptionalArrayIndex
  rw [bind_ok (peekIsKw_cons .LeftParen hAt)]
  have hk : (Token.kw (F := F) .LeftParen).isKw .LeftParen = true := rfl
  simp only [hk, ↓reduceIte]
  have hI := aidx_run es hes f ln _ pre rest (at_mv0 hAt (S.reads + 1)) hl hd hn
  cases hty : typeNums es with
  | error x =>
    rw [hty] at hI
    obtain ⟨S', hS'⟩ := hI
    exact ⟨S', bind_err hS'⟩
  | ok u =>
    rw [hty] at hI
    obtain ⟨S', m, hS', hAt', hl', hn'⟩ := hI
    exact ⟨S', m, by rw [bind_ok hS']; rfl, hAt', hl', hn'⟩

/-- `aParseLValue` on `name ( e₁ , … )` -/
theorem aparse_idx_run (name : Str) (es : List (Expr F)) (hes : es ≠ []) (f ln : Nat) (S : St F)
    (pre rest : List (Token F))
    (hAt : At S pre (.symbol name :: .kw .LeftParen :: (renderSubs2 es ++ .kw .RightParen :: rest)))
    (hl : S.loc.line = some ln) (hd : argsDepth es ≤ f) (hn : S.nesting + argsDepth es ≤ Extracted.nestingLimit) :
    match typeNums es with
    | .ok _ => ∃ S' m, aParseLValue (aEvalN f) S =
          .ok { name := name, loc := { line := some ln, idx := pre.length }, arity := some m } S' ∧
        At S' (pre ++ .symbol name :: .kw .LeftParen :: (renderSubs2 es ++ [.kw .RightParen])) rest
    | .error x => ∃ S', aParseLValue (aEvalN f) S = .err { err := x } S' := by
  unfold aParseLValue
  rw [bind_ok (next_eq hAt)]
  dsimp only
  have hAt1 := at_mv1 hAt (S.reads + 1)
  have hl1 : (mv S 1 (S.reads + 1)).loc.line = some ln := hl
  rw [bind_ok (prevLoc_eq (ln := ln) (i := pre.length) hl1
    (by rw [hAt1.2]; simp only [List.length_append, List.length_cons, List.length_nil]))]
  have hI := aoptidx_run es hes f ln _ _ rest hAt1 hl1 hd hn
  cases hty : typeNums es with
  | error x =>
    rw [hty] at hI
    obtain ⟨S', hS'⟩ := hI
    exact ⟨S', bind_err hS'⟩
  | ok u =>
    rw [hty] at hI
    obtain ⟨S', m, hS', hAt', _, _⟩ := hI
    refine ⟨S', m, by rw [bind_ok hS']; rfl, at_congr hAt' ?_⟩
    simp only [List.append_assoc, List.cons_append, List.nil_append]

theorem aoptidx_none {ev : AEvals F} {σ : St F} {pre post : List (Token F)}
    (h : At σ pre post) (ht : ∀ t, post.head? = some t → t.isKw .LeftParen = false) :
    aOptionalArrayIndex ev σ = .ok none (mv σ 0 (σ.reads + 1)) := by
  unfold aOptionalArrayIndex
  rw [bind_ok (peekIsKw_false .LeftParen h ht)]
  simp only [Bool.false_eq_true, ↓reduceIte]
  rfl

/-- `aParseLValue` on a plain name -/
theorem aparse_plain (ev : AEvals F) (name : Str) (ln : Nat) (S : St F) (pre post : List (Token F))
    (hAt : At S pre (.symbol name :: post)) (hl : S.loc.line = some ln)
    (hpost : ∀ t, post.head? = some t → t.isKw .LeftParen = false) :
    ∃ S', aParseLValue ev S = .ok { name := name, loc := { line := some ln, idx := pre.length }, arity := none } S' ∧
      At S' (pre ++ [.symbol name]) post ∧ S'.loc.line = some ln := by
  unfold aParseLValue
  rw [bind_ok (next_eq hAt)]
  dsimp only
  have hAt1 := at_mv1 hAt (S.reads + 1)
  have hl1 : (mv S 1 (S.reads + 1)).loc.line = some ln := hl
  rw [bind_ok (prevLoc_eq (ln := ln) (i := pre.length) hl1
    (by rw [hAt1.2]; simp only [List.length_append, List.length_cons, List.length_nil]))]
  rw [bind_ok (aoptidx_none hAt1 hpost)]
  exact ⟨_, rfl, at_mv0 hAt1 _, hl⟩

/-! ### DIM -/

theorem adim_run (name : Str) (dims : List (Expr F)) (hne : dims ≠ []) (n ln : Nat) (σ : St F)
    (pre rest : List (Token F)) (le : Nat → Bool)
    (hAt : At σ pre (renderS2 (.dimS name dims) ++ rest)) (hl : σ.loc.line = some ln)
    (hd : sdepth2 (.dimS name dims) ≤ n) (hn : σ.nesting + sdepth2 (.dimS name dims) ≤ Extracted.nestingLimit) :
    AOut (aStmtBody (aEvalN n) σ) (typeOfS2 (.dimS name dims) le) pre (renderS2 (.dimS name dims)) rest := by
  have hAt0 : At σ pre (.kw .Dim :: .symbol name :: .kw .LeftParen ::
      (renderSubs2 dims ++ .kw .RightParen :: rest)) := by
    simpa only [renderS2, List.cons_append, List.append_assoc, List.nil_append] using hAt
  have hAt1 := at_mv1 hAt0 (σ.reads + 1)
  rw [aStmtBody_dim hAt0]
  have hI := aparse_idx_run name dims hne n ln _ _ rest hAt1 hl hd hn
  simp only [typeOfS2]
  cases hty : typeNums dims with
  | error x =>
    rw [hty] at hI
    obtain ⟨S', hS'⟩ := hI
    exact ⟨S', bind_err hS'⟩
  | ok u =>
    rw [hty] at hI
    obtain ⟨S', m, hS', hAt'⟩ := hI
    rw [bind_ok hS']
    refine ⟨_, logAccess_eq _ _ _ _ _, at_congr (at_lg hAt' _) ?_⟩
    simp only [renderS2, List.append_assoc, List.cons_append, List.nil_append]

/-! ### `LET a(i…) = e` -/

theorem aletcell_run (name : Str) (idx : List (Expr F)) (e : Expr F) (hne : idx ≠ []) (n ln : Nat) (σ : St F)
    (pre rest : List (Token F)) (le : Nat → Bool)
    (hAt : At σ pre (renderS2 (.letCellS name idx e) ++ rest)) (hl : σ.loc.line = some ln)
    (hd : sdepth2 (.letCellS name idx e) ≤ n)
    (hn : σ.nesting + sdepth2 (.letCellS name idx e) ≤ Extracted.nestingLimit) (hE : LineEnd rest) :
    AOut (aStmtBody (aEvalN n) σ) (typeOfS2 (.letCellS name idx e) le) pre (renderS2 (.letCellS name idx e)) rest := by
  have hAt0 : At σ pre (.kw .Let :: .symbol name :: .kw .LeftParen ::
      (renderSubs2 idx ++ .kw .RightParen :: (.kw .Equals :: (render e ++ rest)))) := by
    simpa only [renderS2, List.cons_append, List.append_assoc, List.nil_append] using hAt
  simp only [sdepth2] at hd hn
  have hAt1 := at_mv1 hAt0 (σ.reads + 1)
  have hAt2 := at_mv1 hAt1 ((mv σ 1 (σ.reads + 1)).reads + 1)
  have hl2 : (mv (mv σ 1 (σ.reads + 1)) 1 ((mv σ 1 (σ.reads + 1)).reads + 1)).loc.line = some ln := hl
  rw [aStmtBody_let hAt0]
  unfold aLet
  rw [bind_ok (next_eq hAt1)]
  dsimp only
  unfold aAssignment
  rw [bind_ok (prevLoc_eq (ln := ln) (i := (pre ++ [Token.kw Kw.Let]).length) hl2
    (by rw [hAt2.2]; simp only [List.length_append, List.length_cons, List.length_nil]))]
  have hI := aoptidx_run idx hne n ln _ _ _ hAt2 hl2 (by omega)
    (by show σ.nesting + _ ≤ _; omega)
  simp only [typeOfS2]
  cases hty : typeNums idx with
  | error x =>
    rw [hty] at hI
    obtain ⟨S', hS'⟩ := hI
    exact ⟨S', bind_err hS'⟩
  | ok u =>
    rw [hty] at hI
    obtain ⟨S3, m, hS3, hAt3, hl3, hn3⟩ := hI
    rw [bind_ok hS3, bind_ok (expect_eq hAt3 rfl)]
    have hAt4 := at_mv1 hAt3 (S3.reads + 1)
    have hn3' : S3.nesting = σ.nesting := hn3
    have hX := aexpr_eq e (amain e).1 n ln (mv S3 1 (S3.reads + 1)) _ rest (by omega)
      (by show S3.nesting + _ ≤ _; rw [hn3']; omega) (ends_of_stmtEnd hE.stmtEnd 6) hAt4 hl3
    cases hte : typeOf e with
    | error y =>
      rw [hte] at hX
      obtain ⟨S', hS', _⟩ := hX
      exact ⟨S', bind_err hS'⟩
    | ok t =>
      rw [hte] at hX
      obtain ⟨r, _, hr⟩ := hX
      rw [bind_ok hr]
      by_cases ht : VT.ofName name = t
      · subst ht
        simp only [↓reduceIte]
        rw [aAssignValue_ok]
        refine ⟨_, rfl, at_congr (at_lg (at_lg (at_mv hAt4 r) _) _) ?_⟩
        simp only [renderS2, List.append_assoc, List.cons_append, List.nil_append]
      · simp only [ht, ↓reduceIte]
        exact ⟨_, aAssignValue_err name ln _ _ t ht _⟩

/-! ### READ -/

theorem targets_len : ∀ (ts : List Str), ts.length ≤ (renderTargets (F := F) ts).length
  | [] => Nat.le_refl _
  | [t] => by simp [renderTargets]
  | t :: t2 :: r => by
    have ih := targets_len (t2 :: r)
    simp only [renderTargets, List.length_cons] at ih ⊢
    omega

theorem areadLoop_run (f ln : Nat) (rest : List (Token F)) (hE : LineEnd rest) :
    ∀ (ts : List Str), ts ≠ [] → ∀ (k : Nat) (S : St F) (pre : List (Token F)),
      At S pre (renderTargets ts ++ rest) → S.loc.line = some ln → ts.length ≤ k →
      ∃ S', aReadLoop (aEvalN f) k S = .ok () S' ∧ At S' (pre ++ renderTargets ts) rest
  | [], h, _, _, _, _, _, _ => absurd rfl h
  | [t], _, k, S, pre, hAt, hl, hk => by
    obtain ⟨k', rfl⟩ : ∃ k', k = k' + 1 := ⟨k - 1, by simp only [List.length_cons, List.length_nil] at hk; omega⟩
    have hAt0 : At S pre (.symbol t :: rest) := hAt
    obtain ⟨S1, hS1, hAt1, hl1⟩ := aparse_plain (aEvalN f) t ln S pre rest hAt0 hl (lineEnd_not hE (by decide))
    rw [aReadLoop, bind_ok hS1]
    dsimp only
    rw [bind_ok (aAssignValue_ok _ _ _ _ _)]
    have hAt2 := at_lg hAt1 [(t, ln, pre.length, Access.write)]
    rw [bind_ok (accept_end hAt2 (lineEnd_not hE (by decide)))]
    simp only [Bool.false_eq_true, ↓reduceIte]
    exact ⟨_, rfl, at_mv0 hAt2 _⟩
  | t :: t2 :: r, _, k, S, pre, hAt, hl, hk => by
    obtain ⟨k', rfl⟩ : ∃ k', k = k' + 1 := ⟨k - 1, by simp only [List.length_cons] at hk; omega⟩
    have hAt0 : At S pre (.symbol t :: .kw .Comma :: (renderTargets (t2 :: r) ++ rest)) := hAt
    obtain ⟨S1, hS1, hAt1, hl1⟩ := aparse_plain (aEvalN f) t ln S pre _ hAt0 hl (by
      intro t' ht'
      simp only [List.head?_cons, Option.some.injEq] at ht'
      subst ht'
      rfl)
    rw [aReadLoop, bind_ok hS1]
    dsimp only
    rw [bind_ok (aAssignValue_ok _ _ _ _ _)]
    have hAt2 := at_lg hAt1 [(t, ln, pre.length, Access.write)]
    rw [bind_ok (accept_true hAt2 rfl)]
    simp only [↓reduceIte]
    obtain ⟨S', hS', hAt'⟩ := areadLoop_run f ln rest hE (t2 :: r) (by simp) k' _ _ (at_mv1 hAt2 _) hl1
      (by simp only [List.length_cons] at hk ⊢; omega)
    refine ⟨S', hS', at_congr hAt' ?_⟩
    simp only [renderTargets, List.append_assoc, List.cons_append, List.nil_append]

theorem aread_run (ts : List Str) (hne : ts ≠ []) (n ln : Nat) (σ : St F) (pre rest : List (Token F))
    (le : Nat → Bool) (hAt : At σ pre (renderS2 (.readS ts : RStmt2 F) ++ rest)) (hl : σ.loc.line = some ln)
    (hE : LineEnd rest) :
    AOut (aStmtBody (aEvalN n) σ) (typeOfS2 (.readS ts : RStmt2 F) le) pre (renderS2 (.readS ts : RStmt2 F)) rest := by
  have hAt0 : At σ pre (.kw .Read :: (renderTargets ts ++ rest)) := hAt
  have hAt1 := at_mv1 hAt0 (σ.reads + 1)
  rw [aStmtBody_read hAt0, bind_ok (lineBudget_eq hAt1.1)]
  have hlen : ts.length ≤ (pre ++ [Token.kw Kw.Read] ++ (renderTargets ts ++ rest)).length + 1 := by
    have := targets_len (F := F) ts
    simp only [List.length_append, List.length_cons]
    omega
  obtain ⟨S', hS', hAt'⟩ := areadLoop_run n ln rest hE ts hne _ _ _ hAt1 hl hlen
  exact ⟨S', hS', at_congr hAt' (by simp only [renderS2, List.append_assoc, List.cons_append, List.nil_append])⟩

end Abasic.Props.C06
