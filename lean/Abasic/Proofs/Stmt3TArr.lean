import Abasic.Proofs.Stmt3TCtl
/-
  C03 / C08, route (B) of discharging `BaseTurns` — Proofs/Stmt3Arr.lean RE-RUN for programs
  with INPUT statements: the text of that file over the relations of
  Proofs/Stmt3TRel.lean (`ProgT`, `Holds`, `Mem3`, `Outcome3`, … in namespace
  `Abasic.Stmt3T`, which shadow the originals of `Abasic.Prog3L` / `Abasic.Stmt3L`).
  Lemmas of the original that do not mention the program are not repeated; they
  are used from `Abasic.Stmt3L`.  Differences to the original: `Mem3` has the
  field `input` and its `out` ends in `p.base`.  The original header follows.

  C03, third layer — the statement evaluator on the statements of Ref/Stmt3.lean.

  Part 5: DIM, assignment to an array cell, READ (scalar and cell targets).
-/
set_option linter.unusedSectionVars false

namespace Abasic.Stmt3T
open Abasic Abasic.Ref Abasic.ExprL Abasic.ExprL2 Abasic.StmtL Abasic.ProgL Abasic.Prog3L Abasic.Stmt3L Abasic.Hoare M
open Abasic.Prog3I (HoldsI AddrRelI RetRelI LoopRelI DataRelI progChunksI preToksI line_splitI preToks_succI drop_tail_nilI drop_tail_consI line_memI mem_lineI after_lineI first_lineI holds_afterI holds_firstI renderSI_head lineToks_ofI line_nonemptyI preToksI_zero resume_ltI resume_geI)
open Abasic.Prog2L (Rel2)
open Abasic.Stmt2L (accept_end optionalArrayIndex_none' coerce_matches coerce_err readLoop_unfold readAll_ctl)

variable {F : Type} [NumOps F]

/-! ### READ: one scalar target -/

/-- one target of a READ: its name, the next item, the coercion, the assignment -/
theorem read_one3 {p : ProgT F} (hwf : p.q.WF) (ev : Evals F) (t : Str) (σ : St F) (pre post : List (Token F))
    (c : Nat) (hAt : At σ pre (.symbol t :: post)) (hpost : ∀ t', post.head? = some t' → t'.isKw .LeftParen = false)
    (hh : Holds σ.lines p) (hd : DataRel3 p c σ.data) (K : M F Unit) :
    match (allDataI p.q)[c]? with
    | none => ∃ σ', (do
          let lv ← parseLValue ev
          match ← nextDataElement with
          | none => fail .outOfData
          | some e =>
            let v ← liftE (Value.coerceFromData lv.name e)
            assignValue lv v
            K) σ = .err { err := .outOfData } σ' ∧ σ'.loc.line = σ.loc.line ∧ σ'.out = σ.out ∧ σ'.nesting = σ.nesting
    | some (ln, d) =>
      match Value.coerceFromData t d with
      | .error e => ∃ σ' i, (do
          let lv ← parseLValue ev
          match ← nextDataElement with
          | none => fail .outOfData
          | some e =>
            let v ← liftE (Value.coerceFromData lv.name e)
            assignValue lv v
            K) σ = .err { err := e } σ' ∧ σ'.dataLoc = some { line := some ln, idx := i } ∧ σ'.out = σ.out ∧ σ'.nesting = σ.nesting
      | .ok v => ∃ it' σ1, DataRel3 p (c + 1) (some it') ∧ (do
          let lv ← parseLValue ev
          match ← nextDataElement with
          | none => fail .outOfData
          | some e =>
            let v ← liftE (Value.coerceFromData lv.name e)
            assignValue lv v
            K) σ = K σ1 ∧
          σ1 = mv ({ σ with data := some it', vars := alSet t v σ.vars } : St F) 1 (σ.reads + 1 + 1) := by
  have hAt1 := at_mv1 hAt (σ.reads + 1)
  have hpl : parseLValue ev σ = .ok { name := t, index := none } (mv σ 1 (σ.reads + 1 + 1)) := by
    unfold parseLValue
    rw [bind_ok (next_eq hAt)]
    simp only
    rw [bind_ok (optionalArrayIndex_none' hAt1 hpost), mv_mv]
    rfl
  have hh' : Holds (mv σ 1 (σ.reads + 1 + 1)).lines p := hh
  have hd' : DataRel3 p c (mv σ 1 (σ.reads + 1 + 1)).data := hd
  cases hc : (allDataI p.q)[c]? with
  | none =>
    obtain ⟨it', hnd⟩ := nextData_none hh' hwf hd' hc
    refine ⟨_, ?_, (rfl : (({ mv σ 1 (σ.reads + 1 + 1) with data := some it' } : St F)).loc.line = _), rfl, rfl⟩
    rw [bind_ok hpl, bind_ok hnd]
    rfl
  | some lnd =>
    obtain ⟨ln, d⟩ := lnd
    obtain ⟨it', i, hnd, hrel, hdl⟩ := nextData_some hh' hwf hd' hc
    dsimp only
    cases hco : Value.coerceFromData t d with
    | error e =>
      refine ⟨_, i, ?_, hdl, rfl, rfl⟩
      rw [bind_ok hpl, bind_ok hnd]
      simp only [hco, liftE]
      rfl
    | ok v =>
      refine ⟨it', _, hrel, ?_, rfl⟩
      rw [bind_ok hpl, bind_ok hnd]
      simp only [hco, liftE]
      have hm := coerce_matches hco
      have hset : assignValue (F := F) { name := t, index := none } v
          ({ mv σ 1 (σ.reads + 1 + 1) with data := some it' } : St F) =
          .ok () { mv σ 1 (σ.reads + 1 + 1) with data := some it', vars := alSet t v σ.vars } := by
        simp only [assignValue, setVar, hm, ↓reduceIte, M.modify]
        rfl
      show (pure v >>= fun v => assignValue { name := t, index := none } v >>= fun _ => K) _ = _
      rw [bind_ok (pure_eq v _), bind_ok hset]
      rfl


section stmts
variable {p : ProgT F} {n j : Nat}

/-! ### an array name and its subscripts -/

/-- `( e₁ , … )` behind an array name, read by `optionalArrayIndex` -/
theorem optIdx3_run {σ : St F} {r : RState3 F} (hS : Sync p r σ) (idx : List (Expr2 F)) (fuel : Nat)
    (pre rest : List (Token F)) (hres : ResolvedL r.fns idx) (hd : depthArgs r.fns callFuel idx ≤ fuel)
    (hn : σ.nesting + depthArgs r.fns callFuel idx ≤ Extracted.nestingLimit)
    (hAt : At σ pre (.kw .LeftParen :: (renderArgs idx ++ (.kw .RightParen :: rest)))) :
    match foldIdx callFuel r.env idx with
    | .ok (is, env') => ∃ τ, optionalArrayIndex (evalN fuel) σ = .ok (some is) τ ∧ Sync p (r.put env') τ ∧ Start σ τ ∧
        At τ (pre ++ (.kw .LeftParen :: (renderArgs idx ++ [.kw .RightParen]))) rest ∧ τ.arrays = env'.arrays
    | .error x => x ≠ .dataTypeMismatch ∧ ErrFrom σ x (optionalArrayIndex (evalN fuel) σ) := by
  obtain ⟨k, hk⟩ := optIdx_some (ev := evalN fuel) hAt
  have hX := idx3_run (hS.mv 0 k) idx fuel pre rest hres hd hn (at_mv0 hAt k)
  rw [hk]
  cases hev : foldIdx callFuel r.env idx with
  | error x =>
    rw [hev] at hX
    exact ⟨hX.1, (hX.2.bind).start (start_mv _ _ _)⟩
  | ok q =>
    obtain ⟨is, env'⟩ := q
    rw [hev] at hX
    obtain ⟨rd, hσ1, hS1⟩ := hX
    refine ⟨_, by rw [bind_ok hσ1]; rfl, hS1, (start_mv _ _ _).trans (start_upd _ _ _ _), ?_, rfl⟩
    have hAt' : At (mv σ 0 k) pre ((.kw .LeftParen :: (renderArgs idx ++ [.kw .RightParen])) ++ rest) := by
      have := at_mv0 hAt k
      simpa only [List.cons_append, List.append_assoc, List.nil_append] using this
    have := at_upd hAt' rd env'
    simpa only [List.length_cons, List.length_append, List.length_nil] using this

/-! ### DIM -/

theorem dim_ok (name : Str) (dims : List (Expr2 F)) : StmtOK p n j (.dimS name dims) := by
  intro fuel σ r pre rest after eol hS hP _ _ _ hres hd hn
  have hAt0 : At σ pre (.kw .Dim :: .symbol name :: .kw .LeftParen :: (renderArgs dims ++ (.kw .RightParen :: rest))) := by
    simpa only [renderS3, List.cons_append, List.append_assoc, List.nil_append] using hP.cur
  obtain ⟨k1, h1⟩ := next_ex hAt0
  have hAt1 := at_mv1 hAt0 k1
  obtain ⟨k2, h2⟩ := next_ex hAt1
  have hAt2 := at_mv1 hAt1 k2
  have hst2 : Start σ (mv (mv σ 1 k1) 1 k2) := ⟨⟨rfl, rfl, rfl, rfl, rfl⟩, rfl, rfl, rfl⟩
  have hrun : stmtBody (evalN fuel) σ =
      (optionalArrayIndex (evalN fuel) >>= fun idx =>
        match idx with
        | none => pure ()
        | some is => arrayCreate name is) (mv (mv σ 1 k1) 1 k2) := by
    unfold stmtBody
    rw [bind_ok (traceHere_off hS.env.tracing)]
    unfold dispatch
    rw [bind_ok h1]
    show dimStatement (evalN fuel) _ = _
    unfold dimStatement parseLValue
    rw [bind_assoc', bind_ok h2]
    show ((optionalArrayIndex (evalN fuel) >>= fun idx => pure ({ name := name, index := idx } : LValue)) >>= _) _ = _
    rw [bind_assoc']
    rfl
  rw [hrun]
  have hO := optIdx3_run ((hS.mv 1 k1).mv 1 k2) dims fuel _ rest hres hd hn hAt2
  cases hev : foldIdx callFuel r.env dims with
  | error err =>
    rw [hev] at hO
    have hex : (RStmt3.dimS name dims).exec (allDataI p.q) n j r = (r, .error err) := by
      simp only [RStmt3.exec, evalIdx, hev]
    rw [hex]
    exact ⟨hO.1, (hO.2.bind).start hst2⟩
  | ok q =>
    obtain ⟨is, env'⟩ := q
    rw [hev] at hO
    obtain ⟨τ, hσ1, hSτ, hstτ, hAtτ, harr⟩ := hO
    rw [bind_ok hσ1]
    show Outcome3 p σ n after eol (arrayCreate name is τ) _ _
    have hstA : Start σ τ := hst2.trans hstτ
    have hM := hSτ.mem
    cases hhas : alHas name env'.arrays with
    | true =>
      have hex : (RStmt3.dimS name dims).exec (allDataI p.q) n j r = (r.put env', .error .redimensionedArray) := by
        simp only [RStmt3.exec, evalIdx, hev, RState3.put, hhas, ↓reduceIte]
      rw [hex]
      refine ⟨by simp, errFrom_at hstA ?_⟩
      simp only [arrayCreate, bind, M.bindM, M.get, harr, hhas, ↓reduceIte, M.fail]
    | false =>
      cases hcr : ArrayV.create (F := F) name is with
      | error err =>
        have hex : (RStmt3.dimS name dims).exec (allDataI p.q) n j r = (r.put env', .error err) := by
          simp only [RStmt3.exec, evalIdx, hev, RState3.put, hhas, Bool.false_eq_true, ↓reduceIte, hcr]
        rw [hex]
        refine ⟨Stmt2L.create_nd hcr, errFrom_at hstA ?_⟩
        simp only [arrayCreate, bind, M.bindM, M.get, harr, hhas, Bool.false_eq_true, ↓reduceIte, hcr, M.fail]
      | ok a =>
        have hex : (RStmt3.dimS name dims).exec (allDataI p.q) n j r =
            ({ r.put env' with arrays := alSet name a env'.arrays }, .next) := by
          simp only [RStmt3.exec, evalIdx, hev, RState3.put, hhas, Bool.false_eq_true, ↓reduceIte, hcr]
        rw [hex]
        refine ⟨{ τ with arrays := alSet name a env'.arrays }, ?_,
          ⟨hstA.kept.lines, hstA.kept.warnings, hstA.kept.tracing, hstA.kept.nesting, hstA.kept.state⟩, ?_, ?_, Or.inl ?_⟩
        · simp only [arrayCreate, bind, M.bindM, M.get, harr, hhas, Bool.false_eq_true, ↓reduceIte, hcr, M.set]
        · exact { vars := hM.vars, arrays := rfl, rng := hM.rng, loops := hM.loops, stack := hM.stack
                  data := hM.data, out := hM.out, fns := ⟨hM.fns.undef, hM.fns.defd⟩, fnLines := hM.fnLines, input := hM.input }
        · show τ.loc.line = some n
          rw [hstA.line]; exact hP.locline
        · rw [hP.hafter]
          have hAt' : At ({ τ with arrays := alSet name a env'.arrays } : St F) _ rest := ⟨hAtτ.1, hAtτ.2⟩
          exact (idx_after hP.cur hAt' (by show lineToks τ = lineToks σ; exact lineToks_start hstA hP.locline)).trans (by
            simp only [renderS3, List.length_cons, List.length_append])

/-! ### assignment to a cell -/

theorem letCell_ok (name : Str) (idx : List (Expr2 F)) (e : Expr2 F) : StmtOK p n j (.letCellS name idx e) := by
  intro fuel σ r pre rest after eol hS hP hE _ _ hres hd hn
  obtain ⟨hri, hre⟩ : ResolvedL r.fns idx ∧ Resolved r.fns e := hres
  simp only [sdepth3] at hd hn
  have hAt0 : At σ pre (.kw .Let :: .symbol name :: .kw .LeftParen ::
      (renderArgs idx ++ (.kw .RightParen :: (.kw .Equals :: (render2 e ++ rest))))) := by
    simpa only [renderS3, List.cons_append, List.append_assoc, List.nil_append] using hP.cur
  obtain ⟨k1, h1⟩ := next_ex hAt0
  have hAt1 := at_mv1 hAt0 k1
  obtain ⟨k2, h2⟩ := next_ex hAt1
  have hAt2 := at_mv1 hAt1 k2
  have hst2 : Start σ (mv (mv σ 1 k1) 1 k2) := ⟨⟨rfl, rfl, rfl, rfl, rfl⟩, rfl, rfl, rfl⟩
  have hrun : stmtBody (evalN fuel) σ = assignmentStatement (evalN fuel) name (mv (mv σ 1 k1) 1 k2) := by
    unfold stmtBody
    rw [bind_ok (traceHere_off hS.env.tracing)]
    unfold dispatch
    rw [bind_ok h1]
    show letStatement (evalN fuel) _ = _
    unfold letStatement
    rw [bind_ok h2]
  rw [hrun]
  unfold assignmentStatement
  have hO := optIdx3_run ((hS.mv 1 k1).mv 1 k2) idx fuel _ _ hri (by omega) (by show σ.nesting + _ ≤ _; omega) hAt2
  cases hev : foldIdx callFuel r.env idx with
  | error err =>
    rw [hev] at hO
    have hex : (RStmt3.letCellS name idx e).exec (allDataI p.q) n j r = (r, .error err) := by
      simp only [RStmt3.exec, evalIdx, hev]
    rw [hex]
    exact ⟨hO.1, (hO.2.bind).start hst2⟩
  | ok q =>
    obtain ⟨is, env1⟩ := q
    rw [hev] at hO
    obtain ⟨τ, hσ1, hSτ, hstτ, hAtτ, _⟩ := hO
    rw [bind_ok hσ1]
    obtain ⟨k3, h3⟩ := expect_ex (k := .Equals) hAtτ rfl
    have hAt3 := at_mv1 hAtτ k3
    rw [bind_ok h3]
    have hst3 : Start σ (mv τ 1 k3) := hst2.trans (hstτ.trans (start_mv _ _ _))
    have hX := expr3_run (hSτ.mv 1 k3) e fuel _ rest hre (by show edepth r.fns e ≤ fuel; omega)
      (by show τ.nesting + edepth r.fns e ≤ _; rw [(hst2.trans hstτ).kept.nesting]; omega) (hE.ends 6) hAt3
    cases hev2 : fold2 callFuel (r.put env1).env e with
    | error err =>
      rw [hev2] at hX
      have hex : (RStmt3.letCellS name idx e).exec (allDataI p.q) n j r = (r, .error err) := by
        simp only [RStmt3.exec, evalIdx, hev, evalE, hev2]
      rw [hex]
      exact ⟨hX.1, (hX.2.bind).start hst3⟩
    | ok q2 =>
      obtain ⟨v, env2⟩ := q2
      rw [hev2] at hX
      obtain ⟨rd, hσ2, hS2⟩ := hX
      rw [bind_ok hσ2]
      have hst4 : Start σ (upd (mv τ 1 k3) (render2 e).length rd env2) := hst3.trans (start_upd _ _ _ _)
      have hAt4 := at_upd hAt3 rd env2
      show Outcome3 p σ n after eol (assignValue { name := name, index := some is } v _) _ _
      have hav : assignValue (F := F) { name := name, index := some is } v (upd (mv τ 1 k3) (render2 e).length rd env2) =
          arraySet name is v (upd (mv τ 1 k3) (render2 e).length rd env2) := by
        show (warnUndeclaredArray name >>= fun _ => arraySet name is v) _ = _
        rw [bind_ok (Stmt2L.warnUndeclared_off name _ hS2.env.warnings)]
      rw [hav]
      have hA := Stmt2L.arraySet_run name is v (upd (mv τ 1 k3) (render2 e).length rd env2)
        (by intro k a hk; exact hS2.inv.arrs k a hk)
      have harr : (upd (mv τ 1 k3) (render2 e).length rd env2).arrays = env2.arrays := rfl
      rw [harr, ← storeCell_eq] at hA
      have hM := hS2.mem
      cases hcs : storeCell name is v env2.arrays with
      | error err =>
        rw [hcs] at hA
        obtain ⟨hnd, σ', hσ', hl, ho⟩ := hA
        have hex : (RStmt3.letCellS name idx e).exec (allDataI p.q) n j r = ((r.put env1).put env2, .error err) := by
          simp only [RStmt3.exec, evalIdx, hev, evalE, hev2, put_arrays, hcs]
        rw [hex]
        have hnn := (((rns_arraySet name is v).at _).2 _ _ hσ').1
        exact ⟨hnd, ErrFrom.start (σ1 := upd (mv τ 1 k3) (render2 e).length rd env2)
          ⟨_, σ', hσ', rfl, ho, by rw [hl], hnn, Or.inl rfl⟩ hst4⟩
      | ok arrs =>
        rw [hcs] at hA
        have hex : (RStmt3.letCellS name idx e).exec (allDataI p.q) n j r =
            ({ (r.put env1).put env2 with arrays := arrs }, .next) := by
          simp only [RStmt3.exec, evalIdx, hev, evalE, hev2, put_arrays, hcs]
        rw [hex]
        refine ⟨_, hA, ⟨hst4.kept.lines, hst4.kept.warnings, hst4.kept.tracing, hst4.kept.nesting, hst4.kept.state⟩,
          ?_, ?_, Or.inl ?_⟩
        · exact { vars := hM.vars, arrays := rfl, rng := hM.rng, loops := hM.loops, stack := hM.stack
                  data := hM.data, out := hM.out, fns := ⟨hM.fns.undef, hM.fns.defd⟩, fnLines := hM.fnLines, input := hM.input }
        · show τ.loc.line = some n
          rw [(hst2.trans hstτ).line]; exact hP.locline
        · rw [hP.hafter]
          have hAt' : At ({ upd (mv τ 1 k3) (render2 e).length rd env2 with arrays := arrs } : St F) _ rest :=
            ⟨hAt4.1, hAt4.2⟩
          exact (idx_after hP.cur hAt' (by
            show lineToks τ = lineToks σ; exact lineToks_start (hst2.trans hstτ) hP.locline)).trans (by
            simp only [renderS3, List.length_cons, List.length_append])

/-! ### READ

  READ OFF THE CODE (`readLoop`, Stmt.lean): for each target, in this order,
    1. the target is parsed — `parseLValue`: the name and, behind `(`, the
       subscripts, which are EVALUATED NOW;
    2. the next DATA item is consumed (OUT OF DATA when there is none);
    3. the item is coerced to the kind of the target's NAME;
    4. the value is stored — `assignValue`, the same store as LET.
  `readCellSpec` / `readScalarSpec` / `readTargetsSpec` (Ref/Stmt3.lean) are that. -/

/-- a run of a READ round from `σ` against the spec's result; on success the run
    continues with `K` in a state `τ` in `Sync` with the new reference state, the
    cursor behind the target -/
def ReadCellOK (p : ProgT F) (σ : St F) (pre tgt rest : List (Token F)) (K : M F Unit) (res : Res F Unit) :
    RState3 F × Ctl2 → Prop
  | (r', .next) => ∃ τ, res = K τ ∧ Sync p r' τ ∧ Start σ τ ∧ At τ (pre ++ tgt) rest
  | (_, .error e) => e ≠ .dataTypeMismatch ∧ ErrFrom σ e res
  | (_, .errorAt e ln) => e = .dataTypeMismatch ∧
      ∃ σ' i, res = .err { err := e } σ' ∧ σ'.dataLoc = some { line := some ln, idx := i } ∧ σ'.out = σ.out ∧
        σ'.nesting = σ.nesting
  | _ => True

/-- **read_cell_refines.**  One cell target `name(idx…)` of a READ: the model's
    READ round is `readCellSpec` — subscripts first, then the item, the
    coercion by the name, the store of LET with auto-dimension. -/
theorem read_cell_refines {p : ProgT F} {σ : St F} {r : RState3 F} (hS : Sync p r σ) (fuel : Nat)
    (name : Str) (idx : List (Expr2 F)) (pre rest : List (Token F))
    (hres : ResolvedL r.fns idx) (hd : depthArgs r.fns callFuel idx ≤ fuel)
    (hn : σ.nesting + depthArgs r.fns callFuel idx ≤ Extracted.nestingLimit)
    (hAt : At σ pre (.symbol name :: .kw .LeftParen :: (renderArgs idx ++ (.kw .RightParen :: rest))))
    (K : M F Unit) :
    ReadCellOK p σ pre (cellToks name idx) rest K (readBody (evalN fuel) K σ)
      (readCellSpec (allDataI p.q) r name idx) := by
  have hAt1 := at_mv1 hAt (σ.reads + 1)
  have hst1 : Start σ (mv σ 1 (σ.reads + 1)) := start_mv _ _ _
  have hrun : readBody (evalN fuel) K σ =
      (optionalArrayIndex (evalN fuel) >>= fun ix =>
        (nextDataElement >>= fun o =>
          match o with
          | none => fail .outOfData
          | some e =>
            liftE (Value.coerceFromData name e) >>= fun v =>
              assignValue { name := name, index := ix } v >>= fun _ => K)) (mv σ 1 (σ.reads + 1)) := by
    unfold readBody parseLValue
    rw [bind_assoc', bind_ok (next_eq hAt)]
    show ((optionalArrayIndex (evalN fuel) >>= fun ix => pure ({ name := name, index := ix } : LValue)) >>= _) _ = _
    rw [bind_assoc']
    rfl
  rw [hrun]
  have hO := optIdx3_run (hS.mv 1 (σ.reads + 1)) idx fuel _ rest hres hd hn hAt1
  cases hev : foldIdx callFuel r.env idx with
  | error err =>
    rw [hev] at hO
    have hsp : readCellSpec (allDataI p.q) r name idx = (r, .error err) := by
      simp only [readCellSpec, evalIdx, hev]
    rw [hsp]
    exact ⟨hO.1, (hO.2.bind).start hst1⟩
  | ok q =>
    obtain ⟨is, env'⟩ := q
    rw [hev] at hO
    obtain ⟨τ, hσ1, hSτ, hstτ, hAtτ, harr⟩ := hO
    rw [bind_ok hσ1]
    have hst : Start σ τ := hst1.trans hstτ
    have hM := hSτ.mem
    have hdat : DataRel3 p r.data τ.data := hM.data
    cases hc : (allDataI p.q)[r.data]? with
    | none =>
      obtain ⟨it', hnd⟩ := nextData_none hSτ.env.lines hSτ.wf hdat hc
      have hsp : readCellSpec (allDataI p.q) r name idx = (r.put env', .error .outOfData) := by
        simp only [readCellSpec, evalIdx, hev, RState3.put, hc]
      rw [hsp, bind_ok hnd]
      exact ⟨by simp, errFrom_at (start_data hst _) rfl⟩
    | some lnd =>
      obtain ⟨ln, d⟩ := lnd
      obtain ⟨it', i, hnd, hrel, hdl⟩ := nextData_some hSτ.env.lines hSτ.wf hdat hc
      rw [bind_ok hnd]
      dsimp only
      cases hco : Value.coerceFromData name d with
      | error e =>
        have hsp : readCellSpec (allDataI p.q) r name idx =
            ({ r.put env' with data := r.data + 1 }, .errorAt e ln) := by
          simp only [readCellSpec, evalIdx, hev, RState3.put, hc, hco]
        rw [hsp]
        refine ⟨coerce_err hco, _, i, ?_, hdl, hst.out, hst.kept.nesting⟩
        simp only [liftE]
        rfl
      | ok v =>
        have hm := coerce_matches hco
        simp only [liftE]
        show ReadCellOK p σ pre _ rest K
          ((assignValue { name := name, index := some is } v >>= fun _ => K) ({ τ with data := some it' } : St F)) _
        have hav : assignValue (F := F) { name := name, index := some is } v ({ τ with data := some it' } : St F) =
            arraySet name is v ({ τ with data := some it' } : St F) := by
          show (warnUndeclaredArray name >>= fun _ => arraySet name is v) _ = _
          rw [bind_ok (Stmt2L.warnUndeclared_off name ({ τ with data := some it' } : St F) hSτ.env.warnings)]
        have hA := Stmt2L.arraySet_run name is v ({ τ with data := some it' } : St F)
          (by intro k a hk
              have hk' : alGet k τ.arrays = some a := hk
              rw [hM.arrays] at hk'
              exact hSτ.inv.arrs k a hk')
        have hcsτ : ∀ x, storeCell name is v env'.arrays = x →
            Stmt2L.cellStore name is v ({ τ with data := some it' } : St F).arrays = x := by
          intro x hx
          rw [← storeCell_eq]
          show storeCell name is v τ.arrays = x
          rw [harr]; exact hx
        cases hcs : storeCell name is v env'.arrays with
        | error err =>
          rw [hcsτ _ hcs] at hA
          obtain ⟨hnd', σ', hσ', hl, ho⟩ := hA
          have hsp : readCellSpec (allDataI p.q) r name idx =
              ({ r.put env' with data := r.data + 1 }, .error err) := by
            simp only [readCellSpec, evalIdx, hev, RState3.put, hc, hco, hcs]
          rw [hsp]
          have hnn := (((rns_arraySet name is v).at _).2 _ _ hσ').1
          refine ⟨hnd', ErrFrom.start (σ1 := ({ τ with data := some it' } : St F)) ?_ (start_data hst _)⟩
          refine ⟨{ err := err }, σ', ?_, rfl, ho, by rw [hl], hnn, Or.inl rfl⟩
          exact bind_err (hav.trans hσ')
        | ok arrs =>
          rw [hcsτ _ hcs] at hA
          have hsp : readCellSpec (allDataI p.q) r name idx =
              ({ r.put env' with data := r.data + 1, arrays := arrs }, .next) := by
            simp only [readCellSpec, evalIdx, hev, RState3.put, hc, hco, hcs]
          rw [hsp]
          refine ⟨{ τ with data := some it', arrays := arrs }, ?_, ?_, ?_, ?_⟩
          · exact bind_ok (hav.trans hA)
          · exact {
              wf := hSτ.wf
              env := ⟨hSτ.env.lines, hSτ.env.warnings, hSτ.env.tracing⟩
              mem := { vars := hM.vars, arrays := rfl, rng := hM.rng, loops := hM.loops, stack := hM.stack
                       data := hrel, out := hM.out, fns := ⟨hM.fns.undef, hM.fns.defd⟩, fnLines := hM.fnLines, input := hM.input }
              inv := ⟨hSτ.inv.typed, Stmt2L.cellStore_ok (by rw [← storeCell_eq]; exact hcs) hSτ.inv.arrs,
                      hSτ.inv.rng, hSτ.inv.rets⟩
              bodies := hSτ.bodies }
          · exact ⟨⟨hst.kept.lines, hst.kept.warnings, hst.kept.tracing, hst.kept.nesting, hst.kept.state⟩,
              hst.out, hst.fns, hst.line⟩
          · have : At ({ τ with data := some it', arrays := arrs } : St F)
                (pre ++ [.symbol name] ++ (.kw .LeftParen :: (renderArgs idx ++ [.kw .RightParen]))) rest :=
              ⟨hAtτ.1, hAtτ.2⟩
            simpa only [cellToks, List.append_assoc, List.cons_append, List.nil_append] using this


/-- one target, scalar or cell -/
theorem read_target_refines {p : ProgT F} {σ : St F} {r : RState3 F} (hS : Sync p r σ) (fuel : Nat)
    (t : RTarget F) (pre rest : List (Token F)) (hok : TargetOK r.fns fuel σ.nesting t)
    (hAt : At σ pre (t.toks ++ rest)) (hpost : ∀ t', rest.head? = some t' → t'.isKw .LeftParen = false)
    (K : M F Unit) :
    ReadCellOK p σ pre t.toks rest K (readBody (evalN fuel) K σ) (readTargetSpec (allDataI p.q) r t) := by
  cases t with
  | cell name idx =>
    have hAt' : At σ pre (.symbol name :: .kw .LeftParen :: (renderArgs idx ++ (.kw .RightParen :: rest))) := by
      simpa only [RTarget.toks, cellToks, List.cons_append, List.append_assoc, List.nil_append] using hAt
    exact read_cell_refines hS fuel name idx pre rest hok.1 hok.2.1 hok.2.2 hAt' K
  | scalar x =>
    have hAt' : At σ pre (.symbol x :: rest) := hAt
    have hM := hS.mem
    have hO := read_one3 hS.wf (evalN fuel) x σ pre rest r.data hAt' hpost hS.env.lines hM.data K
    show ReadCellOK p σ pre [.symbol x] rest K _ (readScalarSpec (allDataI p.q) r x)
    unfold readScalarSpec
    cases hc : (allDataI p.q)[r.data]? with
    | none =>
      rw [hc] at hO
      obtain ⟨σ', hr, hl, ho, hnn⟩ := hO
      exact ⟨by simp, { err := .outOfData }, σ', hr, rfl, ho, hl, hnn, Or.inl rfl⟩
    | some lnd =>
      obtain ⟨ln, d⟩ := lnd
      rw [hc] at hO
      dsimp only at hO ⊢
      cases hco : Value.coerceFromData x d with
      | error e =>
        rw [hco] at hO
        exact ⟨coerce_err hco, hO⟩
      | ok v =>
        rw [hco] at hO
        obtain ⟨it', σ1, hrel, hrun, hσ1⟩ := hO
        have hm := coerce_matches hco
        refine ⟨σ1, hrun, ?_, ?_, ?_⟩
        · rw [hσ1]
          exact {
            wf := hS.wf
            env := ⟨hS.env.lines, hS.env.warnings, hS.env.tracing⟩
            mem := { vars := by show alSet x v σ.vars = alSet x v r.vars; rw [hM.vars]
                     arrays := hM.arrays, rng := hM.rng, loops := hM.loops, stack := hM.stack
                     data := hrel, out := hM.out, fns := ⟨hM.fns.undef, hM.fns.defd⟩, fnLines := hM.fnLines, input := hM.input }
            inv := ⟨Stmt2L.typed_alSet hS.inv.typed hm, hS.inv.arrs, hS.inv.rng, hS.inv.rets⟩
            bodies := hS.bodies }
        · rw [hσ1]; exact ⟨⟨rfl, rfl, rfl, rfl, rfl⟩, rfl, rfl, rfl⟩
        · rw [hσ1]
          have hAtb : At ({ σ with data := some it', vars := alSet x v σ.vars } : St F) pre (.symbol x :: rest) :=
            ⟨hAt'.1, hAt'.2⟩
          exact at_mv1 hAtb _

/-- **read_targets_refines.**  The READ loop over a non-empty list of targets —
    scalars and array cells in any mixture — is `readTargetsSpec`: the targets in
    order, each one as `readScalarSpec` / `readCellSpec` says, the first failure
    ending the statement. -/
theorem read_targets_refines {p : ProgT F} (fuel : Nat) (rest : List (Token F)) (hE : StmtEnd rest) :
    ∀ (ts : List (RTarget F)), ts ≠ [] → ∀ (k : Nat) (σ : St F) (r : RState3 F) (pre : List (Token F)),
      Sync p r σ → (∀ t ∈ ts, TargetOK r.fns fuel σ.nesting t) → At σ pre (renderRTargets ts ++ rest) →
      (renderRTargets ts).length < k →
      ReadCellOK p σ pre (renderRTargets ts) rest (pure ()) (readLoop (evalN fuel) k σ)
        (readTargetsSpec (allDataI p.q) r ts) := by
  intro ts
  induction ts with
  | nil => intro h; exact absurd rfl h
  | cons t ts' ih =>
    intro _ k σ r pre hS hok hAt hk
    obtain ⟨k', rfl⟩ : ∃ k', k = k' + 1 := ⟨k - 1, by omega⟩
    rw [readLoop_body]
    have hokt := hok t List.mem_cons_self
    cases ts' with
    | nil =>
      have hAt0 : At σ pre (t.toks ++ rest) := hAt
      have hO := read_target_refines hS fuel t pre rest hokt hAt0
        (Stmt3L.stmtEnd_not hE (by decide) (by decide))
        (accept .Comma >>= fun b => if b then readLoop (evalN fuel) k' else pure ())
      have hsp : readTargetsSpec (allDataI p.q) r [t] =
          match readTargetSpec (allDataI p.q) r t with
          | (r', .next) => (r', .next)
          | x => x := rfl
      rw [hsp]
      generalize readTargetSpec (allDataI p.q) r t = res at hO
      obtain ⟨r', ctl⟩ := res
      cases ctl with
      | next =>
        obtain ⟨τ, hres, hSτ, hstτ, hAtτ⟩ := hO
        have hacc := accept_end (k := .Comma) hAtτ (Stmt3L.stmtEnd_not hE (by decide) (by decide))
        refine ⟨mv τ 0 (τ.reads + 1), ?_, hSτ.mv 0 _, hstτ.trans (start_mv _ _ _), at_mv0 hAtτ _⟩
        rw [hres, bind_ok hacc]
        rfl
      | error e => exact hO
      | errorAt e ln => exact hO
      | skipLine => trivial
      | jump m => trivial
      | stop => trivial
      | resume a b => trivial
    | cons t' ts'' =>
      have hAt0 : At σ pre (t.toks ++ (.kw .Comma :: (renderRTargets (t' :: ts'') ++ rest))) := by
        simpa only [renderRTargets, List.append_assoc, List.cons_append] using hAt
      have hlen : (renderRTargets (t :: t' :: ts'')).length =
          t.toks.length + 1 + (renderRTargets (t' :: ts'')).length := by
        simp only [renderRTargets, List.length_append, List.length_cons]
        omega
      have hO := read_target_refines hS fuel t pre _ hokt hAt0 (toks_head_ne_paren t _)
        (accept .Comma >>= fun b => if b then readLoop (evalN fuel) k' else pure ())
      have hfns := readTargetSpec_fns (allDataI p.q) r t
      have hsp : readTargetsSpec (allDataI p.q) r (t :: t' :: ts'') =
          match readTargetSpec (allDataI p.q) r t with
          | (r', .next) => readTargetsSpec (allDataI p.q) r' (t' :: ts'')
          | x => x := rfl
      rw [hsp]
      generalize readTargetSpec (allDataI p.q) r t = res at hO hfns
      obtain ⟨r', ctl⟩ := res
      cases ctl with
      | next =>
        obtain ⟨τ, hres, hSτ, hstτ, hAtτ⟩ := hO
        have hacc := accept_true (k := .Comma) hAtτ rfl
        have hAt2 := at_mv1 hAtτ (τ.reads + 1)
        have hst2 : Start σ (mv τ 1 (τ.reads + 1)) := hstτ.trans (start_mv _ _ _)
        have hfns' : r'.fns = r.fns := hfns
        have hI := ih (by simp) k' (mv τ 1 (τ.reads + 1)) r' _ (hSτ.mv 1 _)
          (fun x hx => by
            have := hok x (List.mem_cons_of_mem _ hx)
            rw [hfns']
            have hnn : (mv τ 1 (τ.reads + 1)).nesting = σ.nesting := hst2.kept.nesting
            rw [hnn]; exact this)
          hAt2 (by rw [hlen] at hk; omega)
        have hrun : readBody (evalN fuel)
            (accept .Comma >>= fun b => if b then readLoop (evalN fuel) k' else pure ()) σ =
            readLoop (evalN fuel) k' (mv τ 1 (τ.reads + 1)) := by
          rw [hres, bind_ok hacc]
          rfl
        rw [hrun]
        dsimp only
        generalize readTargetsSpec (allDataI p.q) r' (t' :: ts'') = res2 at hI ⊢
        obtain ⟨r'', ctl2⟩ := res2
        cases ctl2 with
        | next =>
          obtain ⟨τ2, hres2, hS2, hst3, hAt3⟩ := hI
          refine ⟨τ2, hres2, hS2, hst2.trans hst3, ?_⟩
          simpa only [renderRTargets, List.append_assoc, List.cons_append, List.nil_append] using hAt3
        | error e => exact ⟨hI.1, hI.2.start hst2⟩
        | errorAt e ln =>
          obtain ⟨he, σ', i, h1, h2, h3, h4⟩ := hI
          exact ⟨he, σ', i, h1, h2, h3.trans hst2.out, h4.trans hst2.kept.nesting⟩
        | skipLine => trivial
        | jump m => trivial
        | stop => trivial
        | resume a b => trivial
      | error e => exact hO
      | errorAt e ln => exact hO
      | skipLine => trivial
      | jump m => trivial
      | stop => trivial
      | resume a b => trivial

/-! ### the READ statement -/

theorem read_ok (ts : List (RTarget F)) : StmtOK p n j (.readS ts) := by
  intro fuel σ r pre rest after eol hS hP hE _ hcov hres hd hn
  have hAt0 : At σ pre (.kw .Read :: (renderRTargets ts ++ rest)) := by
    simpa only [renderS3, List.cons_append] using hP.cur
  obtain ⟨k1, h1⟩ := next_ex hAt0
  have hAt1 := at_mv1 hAt0 k1
  have hst : Start σ (mv σ 1 k1) := start_mv _ _ _
  have hrun : stmtBody (evalN fuel) σ =
      readLoop (evalN fuel) ((pre ++ [Token.kw Kw.Read] ++ (renderRTargets ts ++ rest)).length + 1) (mv σ 1 k1) := by
    unfold stmtBody
    rw [bind_ok (traceHere_off hS.env.tracing)]
    unfold dispatch
    rw [bind_ok h1]
    show readStatement (evalN fuel) _ = _
    unfold readStatement
    rw [bind_ok (lineBudget_eq hAt1.1)]
  rw [hrun]
  have hok : ∀ t ∈ ts, TargetOK r.fns fuel (mv σ 1 k1).nesting t :=
    targetsOK_of ts hres hd hn
  have hL := read_targets_refines fuel rest hE.stmtEnd ts hcov
    ((pre ++ [Token.kw Kw.Read] ++ (renderRTargets ts ++ rest)).length + 1)
    (mv σ 1 k1) r _ (hS.mv 1 k1) hok hAt1 (by simp only [List.length_append]; omega)
  show Outcome3 p σ n after eol _ (readTargetsSpec (allDataI p.q) r ts).1 (readTargetsSpec (allDataI p.q) r ts).2
  have hctl := readTargetsSpec_ctl (allDataI p.q) ts r
  generalize readTargetsSpec (allDataI p.q) r ts = res at hL hctl
  obtain ⟨r', ctl⟩ := res
  cases ctl with
  | next =>
    obtain ⟨τ, hres', hSτ, hstτ, hAtτ⟩ := hL
    refine ⟨τ, hres', (hst.trans hstτ).kept, hSτ.mem, ?_, Or.inl ?_⟩
    · rw [(hst.trans hstτ).line]; exact hP.locline
    · rw [hAtτ.2, hP.hafter]
      simp only [renderS3, List.length_append, List.length_cons, List.length_nil]
      omega
  | error e => exact ⟨hL.1, hL.2.start hst⟩
  | errorAt e ln =>
    obtain ⟨he, σ', i, h1', h2', h3', h4'⟩ := hL
    exact ⟨he, σ', i, h1', h2', h3', h4'⟩
  | skipLine => rcases hctl with h | ⟨_, h⟩ | ⟨_, _, h⟩ <;> cases h
  | jump m => rcases hctl with h | ⟨_, h⟩ | ⟨_, _, h⟩ <;> cases h
  | stop => rcases hctl with h | ⟨_, h⟩ | ⟨_, _, h⟩ <;> cases h
  | resume a b => rcases hctl with h | ⟨_, h⟩ | ⟨_, _, h⟩ <;> cases h

end stmts

end Abasic.Stmt3T
