import Abasic.Proofs.ExprLemmas
/-
  Helpers for the host-level C11 probes: an expression whose first unary
  operand is followed by nothing an operator tier would consume evaluates to
  that operand, with an explicit final state (for ANY state: warnings on or
  off, any arrays, any read counter).
-/
namespace Abasic.Proofs.C11Eval
open Abasic Abasic.ExprL M

variable {F : Type} [NumOps F]

/-- `σ` with the read counter set to `r` -/
def rd (σ : St F) (r : Nat) : St F := { σ with reads := r }

omit [NumOps F] in
theorem at_rd {σ : St F} {pre post : List (Token F)} (h : At σ pre post) (r : Nat) : At (rd σ r) pre post :=
  ⟨h.1, h.2⟩

theorem tier_lift (ev : Evals F) (σ σ1 : St F) (v : Value F) (pre rest : List (Token F))
    (h0 : unaryExpr ev σ = .ok v σ1) (hAt : At σ1 pre rest) (hE : Ends 6 rest) :
    ∀ j, j ≤ 6 → tier ev j σ = .ok v (rd σ1 (σ1.reads + j)) := by
  intro j
  induction j with
  | zero => intro _; exact h0
  | succ j ih =>
    intro hj
    have ih' := ih (by omega)
    have hA := at_rd hAt (σ1.reads + j)
    simp only [tier, level]
    rw [bind_ok ih', bind_ok (lineBudget_eq hA.1), levelLoop_stop hA (hE.mono hj)]
    rfl

/-- the whole expression (one nesting level deeper, restored afterwards) -/
theorem exprBody_of_unary (ev : Evals F) (σ σ1 : St F) (v : Value F) (pre rest : List (Token F))
    (hn : σ.nesting < Extracted.nestingLimit)
    (h0 : unaryExpr ev (nest σ (σ.nesting + 1)) = .ok v σ1) (hn1 : σ1.nesting = σ.nesting + 1)
    (hAt : At σ1 pre rest) (hE : Ends 6 rest) :
    exprBody ev σ = .ok v (nest (rd σ1 (σ1.reads + 6)) σ.nesting) := by
  unfold exprBody
  rw [← tier_six]
  exact nested_ok hn (tier_lift ev _ σ1 v pre rest h0 hAt hE 6 (Nat.le_refl 6)) hn1

omit [NumOps F] in
theorem ends_nil (j : Nat) : Ends (F := F) j [] := by
  intro t ht; cases ht

theorem paren_num (ev : Evals F) (s : St F) (pre rest : List (Token F)) (x : F)
    (hAt : At s pre (.num x :: rest)) :
    parenExpr ev s = .ok (.num x) (mv s 1 (s.reads + 1 + 1)) := by
  unfold parenExpr
  rw [bind_ok (accept_false hAt rfl)]
  simp only [Bool.false_eq_true, ↓reduceIte]
  unfold term
  rw [bind_ok (nextUnwrapped_eq (at_mv0 hAt _)), mv_mv]
  rfl

/-- a numeric literal as a unary operand -/
theorem unary_num (ev : Evals F) (s : St F) (pre rest : List (Token F)) (x : F)
    (hAt : At s pre (.num x :: rest)) :
    unaryExpr ev s = .ok (.num x) (mv s 1 (s.reads + 3)) := by
  unfold unaryExpr
  rw [bind_ok (tryNext_none hAt (by intro t ht; simp only [List.head?_cons, Option.some.injEq] at ht; subst ht; rfl))]
  rw [bind_ok (paren_num ev _ pre rest x (at_mv0 hAt (s.reads + 1))), mv_mv]
  rfl

/-- a numeric literal as a whole expression (followed by nothing an operator tier consumes) -/
theorem expr_num (ev : Evals F) (s : St F) (pre rest : List (Token F)) (x : F)
    (hAt : At s pre (.num x :: rest)) (hE : Ends 6 rest) (hn : s.nesting < Extracted.nestingLimit) :
    exprBody ev s = .ok (.num x) (mv s 1 (s.reads + 9)) := by
  have h0 := unary_num ev (nest s (s.nesting + 1)) pre rest x (at_nest hAt _)
  rw [exprBody_of_unary ev s _ _ (pre ++ [.num x]) rest hn h0 rfl (at_mv1 (at_nest hAt _) _) hE]
  rfl

end Abasic.Proofs.C11Eval
