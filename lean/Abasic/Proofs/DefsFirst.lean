import Abasic.Props.C06File3
/-
  C06 — a STATIC sufficient condition for the dynamic side condition `DefsAgree`
  ("function definitions are each unique and executed before any use").

  * `exprNames`, `typeOf2_congr` — the static type of a tree depends only on the
      signatures of the names that occur in it (as call or as cell name).
  * `fnsAfterS`, `beforeL`, `fnsAt` — the function table that mirrors the
      analyzer's signatures `sigAt p n j`: the DEFs that stand before `(n, j)` in the
      text (`sigAt_eq : sigAt p n j = sigOfSpec (fnsAt p n j)`).
  * `typedTable_prefix`, `fnsTyped_at` — STATIC typing stability: in a checked
      program in which DEFs stand only at top level (not under IF) and no DEF body
      mentions a name that is defined LATER in the text, the table of the DEFs
      before any position is typed w.r.t. the signatures at that position.
  * `ExecFrame`, `exec_frame` — frame lemmas for `RStmt3.exec`: a DEF-free
      statement leaves `fns` EQUAL; new entries of the GOSUB / FOR stacks name the
      line of the statement itself; `.jump m` names one of the statement's own
      targets, `.resume m k` an entry of the stacks.
  * `DefsFirstAt p k`, `DefsFirst p`, `defsFirstB` — the static criterion.
  * `DFInv`, `dfInv_start`, `dfInv_step`, `dfInv_typed` — the invariant of the run.
-/
set_option linter.unusedSectionVars false

namespace Abasic.Props.C06
open Abasic Abasic.Ref Abasic.ExprL Abasic.ExprL2 Abasic.Stmt3L

variable {F : Type} [NumOps F]

/-! ### 1. the names of a tree; `typeOf2` depends only on their signatures -/

mutual
/-- the names that occur in front of a `(`: called functions and array cells -/
def exprNames : Expr2 F → List Str
  | .num _ => []
  | .str _ => []
  | .var _ => []
  | .un _ e => exprNames e
  | .bin _ l r => exprNames l ++ exprNames r
  | .paren e => exprNames e
  | .abs e => exprNames e
  | .int e => exprNames e
  | .rnd e => exprNames e
  | .cell name idx => name :: exprNamesL idx
  | .call f args => f :: exprNamesL args
def exprNamesL : List (Expr2 F) → List Str
  | [] => []
  | e :: es => exprNames e ++ exprNamesL es
end

mutual
/-- **`typeOf2_congr`.**  Two signature tables that agree on every name occurring in `e`
    (as call or as cell name) give `e` the same static type. -/
theorem typeOf2_congr (sig sig' : Sig) : ∀ (e : Expr2 F), (∀ g ∈ exprNames e, sig g = sig' g) →
    typeOf2 sig e = typeOf2 sig' e
  | .num _, _ => by simp only [typeOf2]
  | .str _, _ => by simp only [typeOf2]
  | .var _, _ => by simp only [typeOf2]
  | .un op e, h => by
    simp only [typeOf2]
    rw [typeOf2_congr sig sig' e (fun g hg => h g (by simpa only [exprNames] using hg))]
  | .bin op l r, h => by
    simp only [typeOf2]
    rw [typeOf2_congr sig sig' l (fun g hg => h g (by simp only [exprNames, List.mem_append]; exact .inl hg)),
      typeOf2_congr sig sig' r (fun g hg => h g (by simp only [exprNames, List.mem_append]; exact .inr hg))]
  | .paren e, h => by
    simp only [typeOf2]
    exact typeOf2_congr sig sig' e (fun g hg => h g (by simpa only [exprNames] using hg))
  | .abs e, h => by
    simp only [typeOf2]
    rw [typeOf2_congr sig sig' e (fun g hg => h g (by simpa only [exprNames] using hg))]
  | .int e, h => by
    simp only [typeOf2]
    rw [typeOf2_congr sig sig' e (fun g hg => h g (by simpa only [exprNames] using hg))]
  | .rnd e, h => by
    simp only [typeOf2]
    rw [typeOf2_congr sig sig' e (fun g hg => h g (by simpa only [exprNames] using hg))]
  | .cell name idx, h => by
    simp only [typeOf2]
    rw [typeIdx_congr sig sig' idx (fun g hg => h g (by simp only [exprNames, List.mem_cons]; exact .inr hg))]
  | .call f args, h => by
    have hf : sig f = sig' f := h f (by simp only [exprNames, List.mem_cons, true_or])
    have hargs : ∀ g ∈ exprNamesL args, sig g = sig' g :=
      fun g hg => h g (by simp only [exprNames, List.mem_cons]; exact .inr hg)
    simp only [typeOf2]
    rw [← hf]
    cases hs : sig f with
    | none => simp only; rw [typeIdx_congr sig sig' args hargs]
    | some s => simp only; rw [typeArgs_congr sig sig' true s.1 args hargs]
termination_by e => sizeOf e
theorem typeIdx_congr (sig sig' : Sig) : ∀ (es : List (Expr2 F)), (∀ g ∈ exprNamesL es, sig g = sig' g) →
    typeIdx sig es = typeIdx sig' es
  | [], _ => by simp only [typeIdx]
  | e :: es, h => by
    rw [typeIdx_cons, typeIdx_cons]
    rw [typeOf2_congr sig sig' e (fun g hg => h g (by simp only [exprNamesL, List.mem_append]; exact .inl hg))]
    cases es with
    | nil => rfl
    | cons e' es' =>
      have ih := typeIdx_congr sig sig' (e' :: es')
        (fun g hg => h g (by simp only [exprNamesL, List.mem_append] at hg ⊢; exact .inr hg))
      simp only [ih]
termination_by es => sizeOf es
theorem typeArgs_congr (sig sig' : Sig) : ∀ (first : Bool) (ps : List VT) (as : List (Expr2 F)),
    (∀ g ∈ exprNamesL as, sig g = sig' g) → typeArgs sig first ps as = typeArgs sig' first ps as
  | first, [], [], _ => by simp only [typeArgs]
  | first, [], _ :: _, _ => by simp only [typeArgs]
  | first, _ :: _, [], _ => by simp only [typeArgs]
  | first, p :: ps, a :: as, h => by
    simp only [typeArgs]
    rw [typeOf2_congr sig sig' a (fun g hg => h g (by simp only [exprNamesL, List.mem_append]; exact .inl hg)),
      typeArgs_congr sig sig' false ps as
        (fun g hg => h g (by simp only [exprNamesL, List.mem_append]; exact .inr hg))]
termination_by _ _ as => sizeOf as
end

/-- hence: a DEF of a name the tree does not mention leaves its static type alone — under (iv), earlier
    bodies stay typed when later DEFs are added -/
theorem typeOf2_sigAfterS_def (sig : Sig) (f : Str) (ps : List Str) (body e : Expr2 F) (h : f ∉ exprNames e) :
    typeOf2 (sigAfterS sig (.defS f ps body)) e = typeOf2 sig e := by
  apply typeOf2_congr
  intro g hg
  have hne : g ≠ f := fun he => h (he ▸ hg)
  simp only [sigAfterS, if_neg hne]

/-! ### 2. the function table that mirrors the analyzer's signatures -/

abbrev FnTable (F : Type) := List (Str × FnDefSpec F)

/-- the table after the statement has been walked (as `sigAfterS`) -/
def fnsAfterS : FnTable F → RStmt3 F → FnTable F
  | t, .defS f ps body => alSet f { params := ps, body := body } t
  | t, .ifS _ a none => fnsAfterS t a
  | t, .ifS _ a (some b) => fnsAfterS (fnsAfterS t a) b
  | t, _ => t

def fnsAfterStmts : FnTable F → List (RStmt3 F) → FnTable F
  | t, [] => t
  | t, s :: rest => fnsAfterStmts (fnsAfterS t s) rest

theorem sigOfSpec_nil : sigOfSpec ([] : FnTable F) = fun _ => none := rfl

theorem sigOfSpec_alSet (t : FnTable F) (f : Str) (ps : List Str) (body : Expr2 F) :
    sigOfSpec (alSet f { params := ps, body := body } t) =
      fun g => if g = f then some (ps.map VT.ofName, VT.ofName f) else sigOfSpec t g := by
  funext g
  unfold sigOfSpec
  rw [alGet_alSet_cases']
  by_cases hg : g = f
  · subst hg; simp only [if_true]
  · simp only [if_neg hg]

theorem sigOfSpec_fnsAfterS : ∀ (s : RStmt3 F) (t : FnTable F), sigOfSpec (fnsAfterS t s) = sigAfterS (sigOfSpec t) s
  | .defS f ps body, t => by simp only [fnsAfterS, sigAfterS]; exact sigOfSpec_alSet t f ps body
  | .ifS _ a none, t => by simp only [fnsAfterS, sigAfterS]; exact sigOfSpec_fnsAfterS a t
  | .ifS _ a (some b), t => by
    simp only [fnsAfterS, sigAfterS]
    rw [sigOfSpec_fnsAfterS b, sigOfSpec_fnsAfterS a]
  | .letS _ _, _ => rfl
  | .printS _, _ => rfl
  | .gotoS _, _ => rfl
  | .endS, _ => rfl
  | .lineS _, _ => rfl
  | .forS _ _ _ _, _ => rfl
  | .nextS _, _ => rfl
  | .gosubS _, _ => rfl
  | .returnS, _ => rfl
  | .readS _, _ => rfl
  | .dataS _, _ => rfl
  | .restoreS, _ => rfl
  | .dimS _ _, _ => rfl
  | .letCellS _ _ _, _ => rfl

theorem sigOfSpec_fnsAfterStmts : ∀ (ss : List (RStmt3 F)) (t : FnTable F),
    sigOfSpec (fnsAfterStmts t ss) = sigAfterStmts (sigOfSpec t) ss
  | [], _ => rfl
  | s :: rest, t => by
    simp only [fnsAfterStmts, sigAfterStmts]
    rw [sigOfSpec_fnsAfterStmts rest, sigOfSpec_fnsAfterS]

theorem fnsAfterS_defFree : ∀ (s : RStmt3 F) (t : FnTable F), defFree s = true → fnsAfterS t s = t
  | .defS _ _ _, _, h => by simp [defFree] at h
  | .ifS _ a none, t, h => by
    simp only [defFree] at h
    simp only [fnsAfterS]; exact fnsAfterS_defFree a t h
  | .ifS _ a (some b), t, h => by
    simp only [defFree, Bool.and_eq_true] at h
    simp only [fnsAfterS]
    rw [fnsAfterS_defFree a t h.1]; exact fnsAfterS_defFree b t h.2
  | .letS _ _, _, _ => rfl
  | .printS _, _, _ => rfl
  | .gotoS _, _, _ => rfl
  | .endS, _, _ => rfl
  | .lineS _, _, _ => rfl
  | .forS _ _ _ _, _, _ => rfl
  | .nextS _, _, _ => rfl
  | .gosubS _, _, _ => rfl
  | .returnS, _, _ => rfl
  | .readS _, _, _ => rfl
  | .dataS _, _, _ => rfl
  | .restoreS, _, _ => rfl
  | .dimS _ _, _, _ => rfl
  | .letCellS _ _ _, _, _ => rfl

theorem fnsAfterStmts_append : ∀ (a b : List (RStmt3 F)) (t : FnTable F),
    fnsAfterStmts t (a ++ b) = fnsAfterStmts (fnsAfterStmts t a) b
  | [], _, _ => rfl
  | s :: a, b, t => by simp only [List.cons_append, fnsAfterStmts]; exact fnsAfterStmts_append a b _

theorem sigAfterStmts_append : ∀ (a b : List (RStmt3 F)) (sig : Sig),
    sigAfterStmts sig (a ++ b) = sigAfterStmts (sigAfterStmts sig a) b
  | [], _, _ => rfl
  | s :: a, b, sig => by simp only [List.cons_append, sigAfterStmts]; exact sigAfterStmts_append a b _

theorem fnsAfterStmts_defFree : ∀ (ss : List (RStmt3 F)) (t : FnTable F), (∀ s ∈ ss, defFree s = true) →
    fnsAfterStmts t ss = t
  | [], _, _ => rfl
  | s :: rest, t, h => by
    simp only [fnsAfterStmts]
    rw [fnsAfterS_defFree s t (h s List.mem_cons_self)]
    exact fnsAfterStmts_defFree rest t (fun s' hs' => h s' (List.mem_cons_of_mem _ hs'))

/-- the statements that stand before statement `j` of line `n` in the text (all statements, if there is
    no line `n`) -/
def beforeL : RProgram3 F → Nat → Nat → List (RStmt3 F)
  | [], _, _ => []
  | (k, ss) :: rest, n, j => if k == n then ss.take j else ss ++ beforeL rest n j

/-- all statements, in text order -/
def flatP (p : RProgram3 F) : List (RStmt3 F) := p.flatMap (·.2)

theorem flatP_cons (l : Nat × List (RStmt3 F)) (p : RProgram3 F) : flatP (l :: p) = l.2 ++ flatP p := by
  simp [flatP]

theorem flatP_append (a b : RProgram3 F) : flatP (a ++ b) = flatP a ++ flatP b := by
  simp [flatP]

theorem mem_flatP {p : RProgram3 F} {s : RStmt3 F} : s ∈ flatP p ↔ ∃ l ∈ p, s ∈ l.2 := by
  simp [flatP]

theorem sigAtL_before : ∀ (p : RProgram3 F) (sig : Sig) (n j : Nat),
    sigAtL sig p n j = sigAfterStmts sig (beforeL p n j)
  | [], _, _, _ => rfl
  | (k, ss) :: rest, sig, n, j => by
    simp only [sigAtL, beforeL]
    by_cases hk : (k == n) = true
    · rw [if_pos hk, if_pos hk]
    · rw [if_neg hk, if_neg hk, sigAfterStmts_append]
      exact sigAtL_before rest _ n j

/-- the statements before a position are an initial segment of the text -/
theorem beforeL_prefix : ∀ (p : RProgram3 F) (n j : Nat), ∃ ys, flatP p = beforeL p n j ++ ys
  | [], _, _ => ⟨[], rfl⟩
  | (k, ss) :: rest, n, j => by
    simp only [beforeL, flatP_cons]
    by_cases hk : (k == n) = true
    · rw [if_pos hk]
      exact ⟨ss.drop j ++ flatP rest, by rw [← List.append_assoc, List.take_append_drop]⟩
    · rw [if_neg hk]
      obtain ⟨ys, hys⟩ := beforeL_prefix rest n j
      exact ⟨ys, by rw [hys, List.append_assoc]⟩

/-- the DEFs that stand before statement `j` of line `n`: the table that mirrors `sigAt p n j` -/
def fnsAt (p : RProgram3 F) (n j : Nat) : FnTable F := fnsAfterStmts [] (beforeL p n j)

/-- the analyzer's signatures at a position are those of the DEFs before it -/
theorem sigAt_eq (p : RProgram3 F) (n j : Nat) : sigAt p n j = sigOfSpec (fnsAt p n j) := by
  unfold sigAt fnsAt
  rw [sigAtL_before, sigOfSpec_fnsAfterStmts]
  rfl

/-! ### 3. static typing stability -/

/-- every body of the table is typed w.r.t. the signatures of the table itself -/
def TypedTable (t : FnTable F) : Prop := ∀ f d, alGet f t = some d → typeOf2 (sigOfSpec t) d.body = .ok (VT.ofName f)

/-- the statements, in order, pass the check (the judgement behind `typeOfStmts3`, without line numbers) -/
def StmtsTyped (le : Nat → Bool) : Sig → List (RStmt3 F) → Prop
  | _, [] => True
  | sig, s :: rest => typeOfS3 sig le s = .ok () ∧ StmtsTyped le (sigAfterS sig s) rest

theorem stmtsTyped_append (le : Nat → Bool) : ∀ (a b : List (RStmt3 F)) (sig : Sig),
    StmtsTyped le sig a → StmtsTyped le (sigAfterStmts sig a) b → StmtsTyped le sig (a ++ b)
  | [], _, _, _, hb => hb
  | _ :: a, b, _, ha, hb => ⟨ha.1, stmtsTyped_append le a b _ ha.2 hb⟩

theorem stmtsTyped_of_stmts (le : Nat → Bool) (ln : Nat) : ∀ (ss : List (RStmt3 F)) (sig : Sig),
    typeOfStmts3 le ln sig ss = .ok () → StmtsTyped le sig ss
  | [], _, _ => trivial
  | s :: rest, sig, h => by
    simp only [typeOfStmts3] at h
    cases hs : typeOfS3 sig le s with
    | error x => rw [hs] at h; cases h
    | ok u =>
      rw [hs] at h
      exact ⟨hs, stmtsTyped_of_stmts le ln rest _ h⟩

theorem stmtsTyped_of_lines (le : Nat → Bool) : ∀ (p : RProgram3 F) (sig : Sig),
    typeOfLines3 le sig p = .ok () → StmtsTyped le sig (flatP p)
  | [], _, _ => trivial
  | l :: rest, sig, h => by
    simp only [typeOfLines3] at h
    cases hs : typeOfStmts3 le l.1 sig l.2 with
    | error x => rw [hs] at h; cases h
    | ok u =>
      rw [hs] at h
      rw [flatP_cons]
      exact stmtsTyped_append le _ _ sig (stmtsTyped_of_stmts le l.1 l.2 sig hs) (stmtsTyped_of_lines le rest _ h)

/-- the name a top-level DEF defines -/
def defName? : RStmt3 F → Option Str
  | .defS f _ _ => some f
  | _ => none

/-- the names the body of a top-level DEF mentions -/
def bodyNames : RStmt3 F → List Str
  | .defS _ _ body => exprNames body
  | _ => []

/-- a DEF standing by itself, or a statement without any DEF (no DEF under an IF) -/
def topDef : RStmt3 F → Bool
  | .defS _ _ _ => true
  | s => defFree s

/-- `s'` (later in the text) does not define a name the body of `s` mentions -/
def laterOK (s s' : RStmt3 F) : Bool :=
  match defName? s' with
  | none => true
  | some f => !(bodyNames s).contains f

/-- **(iv)** no body of a DEF mentions (as call or as cell name) a function that is defined LATER in the
    text: the body of each DEF mentions only functions defined earlier, or itself -/
def NoLaterUse (ss : List (RStmt3 F)) : Prop := ss.Pairwise (fun s s' => laterOK s s' = true)

theorem laterOK_spec {s s' : RStmt3 F} (h : laterOK s s' = true) {f : Str} (hf : defName? s' = some f) :
    f ∉ bodyNames s := by
  unfold laterOK at h
  rw [hf] at h
  simpa using h

theorem topDef_cases {s : RStmt3 F} (h : topDef s = true) :
    defFree s = true ∨ ∃ f ps body, s = .defS f ps body := by
  cases s with
  | defS f ps body => exact .inr ⟨f, ps, body, rfl⟩
  | _ => exact .inl h

theorem defName?_defFree {s : RStmt3 F} (h : defFree s = true) : defName? s = none := by
  cases s with
  | defS f ps body => simp [defFree] at h
  | _ => rfl

/-- **Typing stability.**  Walk the statements `xs` of a checked text `xs ++ ys` in which DEFs stand only at
    top level and no body mentions a name defined later, starting from a typed table none of whose bodies
    mentions a name defined in `xs ++ ys`: the table reached is typed. -/
theorem typedTable_prefix (le : Nat → Bool) : ∀ (xs ys : List (RStmt3 F)) (t : FnTable F),
    TypedTable t → StmtsTyped le (sigOfSpec t) (xs ++ ys) → (∀ s ∈ xs ++ ys, topDef s = true) →
    NoLaterUse (xs ++ ys) →
    (∀ g d, alGet g t = some d → ∀ s ∈ xs ++ ys, ∀ f, defName? s = some f → f ∉ exprNames d.body) →
    TypedTable (fnsAfterStmts t xs)
  | [], _, _, ht, _, _, _, _ => ht
  | x :: xs, ys, t, ht, hty, htop, hnl, hold => by
    simp only [List.cons_append] at hty htop hnl hold
    simp only [fnsAfterStmts]
    obtain ⟨hx, hrest⟩ := hty
    have hnl' := List.pairwise_cons.mp hnl
    rcases topDef_cases (htop x List.mem_cons_self) with hdf | ⟨f, ps, body, rfl⟩
    · rw [fnsAfterS_defFree x t hdf]
      rw [sigAfterS_defFree x _ hdf] at hrest
      exact typedTable_prefix le xs ys t ht hrest (fun s hs => htop s (List.mem_cons_of_mem _ hs)) hnl'.2
        (fun g d hg s hs => hold g d hg s (List.mem_cons_of_mem _ hs))
    · have hsig : sigOfSpec (fnsAfterS t (.defS f ps body)) = sigAfterS (sigOfSpec t) (.defS f ps body) :=
        sigOfSpec_fnsAfterS _ t
      have hbody : typeOf2 (sigAfterS (sigOfSpec t) (.defS f ps body)) body = .ok (VT.ofName f) :=
        (typeOfS3_ok_iff _ le _).1 hx
      have ht' : TypedTable (fnsAfterS t (.defS f ps body)) := by
        intro g d hg
        rw [hsig]
        simp only [fnsAfterS] at hg
        rw [alGet_alSet_cases'] at hg
        by_cases hgf : g = f
        · rw [if_pos hgf] at hg
          cases hg
          rw [hgf]
          exact hbody
        · rw [if_neg hgf] at hg
          rw [← ht g d hg]
          apply typeOf2_congr
          intro h hh
          have hne : h ≠ f := fun he =>
            hold g d hg (.defS f ps body) List.mem_cons_self f rfl (he ▸ hh)
          simp only [sigAfterS, if_neg hne]
      refine typedTable_prefix le xs ys _ ht' (by rw [hsig]; exact hrest)
        (fun s hs => htop s (List.mem_cons_of_mem _ hs)) hnl'.2 ?_
      intro g d hg s hs f' hf'
      simp only [fnsAfterS] at hg
      rw [alGet_alSet_cases'] at hg
      by_cases hgf : g = f
      · rw [if_pos hgf] at hg
        cases hg
        exact laterOK_spec (hnl'.1 s hs) hf'
      · rw [if_neg hgf] at hg
        exact hold g d hg s (List.mem_cons_of_mem _ hs) f' hf'

theorem typedTable_nil : TypedTable ([] : FnTable F) := fun f d h => by simp [alGet] at h

/-- **Static typing stability for a checked program**: DEFs only at top level, no body mentions a name
    defined later ⇒ at every position the table of the DEFs before it agrees with the analyzer's
    signatures there. -/
theorem fnsTyped_at {p : RProgram3 F} (hty : typeOfP3 p = .ok ()) (htop : ∀ s ∈ flatP p, topDef s = true)
    (hnl : NoLaterUse (flatP p)) (n j : Nat) : FnsTyped (sigAt p n j) (fnsAt p n j) := by
  rw [sigAt_eq, fnsTyped_sigOfSpec]
  obtain ⟨ys, hys⟩ := beforeL_prefix p n j
  have hst := stmtsTyped_of_lines p.hasLine p _ hty
  rw [hys] at hst htop hnl
  exact typedTable_prefix p.hasLine (beforeL p n j) ys [] typedTable_nil hst htop hnl
    (fun g d hg => by simp [alGet] at hg)

/-! ### 4. frame lemmas for `RStmt3.exec` -/

/-- the line numbers a statement may jump to: GOTO, GOSUB, `THEN n` / `ELSE n` (in the branches of an IF, too) -/
def targets : RStmt3 F → List Nat
  | .gotoS m => [m]
  | .lineS m => [m]
  | .gosubS m => [m]
  | .ifS _ t none => targets t
  | .ifS _ t (some e) => targets t ++ targets e
  | _ => []

/-- function table and both stacks are the same -/
structure SameCtl (r r1 : RState3 F) : Prop where
  fns : r1.fns = r.fns
  rets : r1.rets = r.rets
  loops : r1.loops = r.loops

theorem SameCtl.refl (r : RState3 F) : SameCtl r r := ⟨rfl, rfl, rfl⟩

theorem SameCtl.trans {r r1 r2 : RState3 F} (h1 : SameCtl r r1) (h2 : SameCtl r1 r2) : SameCtl r r2 :=
  ⟨h2.fns.trans h1.fns, h2.rets.trans h1.rets, h2.loops.trans h1.loops⟩

theorem sameCtl_put (r : RState3 F) (env : RefEnv F) : SameCtl r (r.put env) := ⟨rfl, rfl, rfl⟩

theorem evalE_same {r r1 : RState3 F} {e : Expr2 F} {v : Value F} (he : evalE r e = .ok (v, r1)) : SameCtl r r1 := by
  unfold evalE at he
  cases hev : fold2 callFuel r.env e with
  | error x => rw [hev] at he; cases he
  | ok q =>
    obtain ⟨v', env'⟩ := q
    rw [hev] at he
    simp only [Except.ok.injEq, Prod.mk.injEq] at he
    rw [← he.2]
    exact sameCtl_put r env'

theorem numE3_same {r r1 : RState3 F} {e : Expr2 F} {x : F} (he : numE3 r e = .ok (x, r1)) : SameCtl r r1 := by
  unfold numE3 at he
  cases hev : evalE r e with
  | error x => rw [hev] at he; cases he
  | ok q =>
    obtain ⟨v, r'⟩ := q
    rw [hev] at he
    cases v with
    | str s => cases he
    | num y =>
      simp only [Except.ok.injEq, Prod.mk.injEq] at he
      rw [← he.2]
      exact evalE_same hev

theorem stepE3_same {r r1 : RState3 F} {c : Option (Expr2 F)} {x : F} (he : stepE3 r c = .ok (x, r1)) :
    SameCtl r r1 := by
  cases c with
  | none =>
    simp only [stepE3, Except.ok.injEq, Prod.mk.injEq] at he
    rw [← he.2]
    exact SameCtl.refl r
  | some c => exact numE3_same he

theorem evalIdx_same {r r1 : RState3 F} {idx : List (Expr2 F)} {is : List Nat} (he : evalIdx r idx = .ok (is, r1)) :
    SameCtl r r1 := by
  unfold evalIdx at he
  cases hev : foldIdx callFuel r.env idx with
  | error x => rw [hev] at he; cases he
  | ok q =>
    obtain ⟨is', env'⟩ := q
    rw [hev] at he
    simp only [Except.ok.injEq, Prod.mk.injEq] at he
    rw [← he.2]
    exact sameCtl_put r env'

theorem printText3_same {items : List (PItem3 F)} {r r' : RState3 F} {semi : Bool} {acc text : Str}
    (h : printText3 r items semi acc = .ok (text, r')) : SameCtl r r' := by
  have := Stmt3L.printText3_fns items r semi acc text r' h
  exact ⟨this.2.2.2.2.2.2.1, this.2.2.1, this.2.1⟩

theorem readTargetSpec_same (items : List (Nat × DataElement F)) (r : RState3 F) (t : RTarget F) :
    SameCtl r (readTargetSpec items r t).1 := by
  cases t with
  | scalar x =>
    simp only [readTargetSpec, readScalarSpec]
    cases items[r.data]? with
    | none => exact SameCtl.refl r
    | some lnd =>
      obtain ⟨ln, d⟩ := lnd
      dsimp only
      cases Value.coerceFromData x d <;> exact ⟨rfl, rfl, rfl⟩
  | cell name idx =>
    simp only [readTargetSpec, readCellSpec, evalIdx]
    cases foldIdx callFuel r.env idx with
    | error err => exact SameCtl.refl r
    | ok q =>
      obtain ⟨index, env'⟩ := q
      dsimp only
      cases items[(r.put env').data]? with
      | none => exact ⟨rfl, rfl, rfl⟩
      | some lnd =>
        obtain ⟨ln, d⟩ := lnd
        dsimp only
        cases Value.coerceFromData name d with
        | error e => exact ⟨rfl, rfl, rfl⟩
        | ok v =>
          dsimp only
          cases storeCell name index v (r.put env').arrays <;> exact ⟨rfl, rfl, rfl⟩

theorem readTargetsSpec_same (items : List (Nat × DataElement F)) : ∀ (ts : List (RTarget F)) (r : RState3 F),
    SameCtl r (readTargetsSpec items r ts).1
  | [], r => SameCtl.refl r
  | t :: rest, r => by
    have h1 := readTargetSpec_same items r t
    have hsp : readTargetsSpec items r (t :: rest) =
        match readTargetSpec items r t with
        | (r', .next) => readTargetsSpec items r' rest
        | x => x := rfl
    rw [hsp]
    generalize readTargetSpec items r t = res at h1
    obtain ⟨r', ctl⟩ := res
    cases ctl with
    | next => exact h1.trans (readTargetsSpec_same items rest r')
    | _ => exact h1

/-- neither a jump nor a resumption -/
def Ctl2.stays : Ctl2 → Prop
  | .jump _ => False
  | .resume _ _ => False
  | _ => True

/-- **What one reference step of the statement at `(n, j)` does to the function table, the stacks and the
    program counter.**
    * a DEF-free statement leaves the function table EQUAL;
    * an entry of the GOSUB stack afterwards was there before, or is `(n, j + 1)`: pushed by this
      statement, for its own line;
    * an open loop afterwards was open before, or was opened by this statement, for its own line;
    * `.jump m`: `m` is one of the statement's own targets;
    * `.resume m k`: `(m, k)` is an entry of the GOSUB stack or the body of an open loop. -/
structure ExecFrame (n j : Nat) (s : RStmt3 F) (r : RState3 F) (res : RState3 F × Ctl2) : Prop where
  fns : defFree s = true → res.1.fns = r.fns
  rets : ∀ e ∈ res.1.rets, e ∈ r.rets ∨ e = (n, j + 1)
  loops : ∀ l ∈ res.1.loops, l ∈ r.loops ∨ (l.line = n ∧ l.idx = j + 1)
  jump : ∀ m, res.2 = .jump m → m ∈ targets s
  resume : ∀ m k, res.2 = .resume m k → (m, k) ∈ r.rets ∨ ∃ l ∈ r.loops, l.line = m ∧ l.idx = k

theorem frame_stays {n j : Nat} {s : RStmt3 F} {r r1 : RState3 F} {c : Ctl2} (h : SameCtl r r1) (hc : Ctl2.stays c) :
    ExecFrame n j s r (r1, c) where
  fns := fun _ => h.fns
  rets := fun e he => .inl (h.rets ▸ he)
  loops := fun l hl => .inl (h.loops ▸ hl)
  jump := fun m hm => by
    have : c = .jump m := hm
    subst this; exact hc.elim
  resume := fun m k hm => by
    have : c = .resume m k := hm
    subst this; exact hc.elim

/-- evaluate something first (function table and stacks stay), then run the statement -/
theorem ExecFrame.of_same {n j : Nat} {s : RStmt3 F} {r r1 : RState3 F} {res : RState3 F × Ctl2}
    (h : SameCtl r r1) (hf : ExecFrame n j s r1 res) : ExecFrame n j s r res where
  fns := fun hd => (hf.fns hd).trans h.fns
  rets := fun e he => by rw [← h.rets]; exact hf.rets e he
  loops := fun l hl => by rw [← h.loops]; exact hf.loops l hl
  jump := hf.jump
  resume := fun m k hm => by rw [← h.rets, ← h.loops]; exact hf.resume m k hm

theorem closeLine3_jump {x : RState3 F × Ctl2} {m : Nat} (h : (closeLine3 x).2 = .jump m) : x.2 = .jump m := by
  obtain ⟨r, c⟩ := x
  cases c <;> first | exact h | cases h

theorem closeLine3_resume {x : RState3 F × Ctl2} {m k : Nat} (h : (closeLine3 x).2 = .resume m k) :
    x.2 = .resume m k := by
  obtain ⟨r, c⟩ := x
  cases c <;> first | exact h | cases h

theorem findLoop_mem {v : Str} : ∀ {loops : List (RLoop F)} {l : RLoop F} {rest : List (RLoop F)},
    findLoop v loops = some (l, rest) → l ∈ loops ∧ ∀ x ∈ rest, x ∈ loops
  | [], _, _, h => by simp [findLoop] at h
  | l0 :: rest0, l, rest, h => by
    simp only [findLoop] at h
    by_cases hv : (l0.var == v) = true
    · rw [if_pos hv] at h
      simp only [Option.some.injEq, Prod.mk.injEq] at h
      obtain ⟨rfl, rfl⟩ := h
      exact ⟨List.mem_cons_self, fun x hx => List.mem_cons_of_mem _ hx⟩
    · rw [if_neg hv] at h
      obtain ⟨h1, h2⟩ := findLoop_mem h
      exact ⟨List.mem_cons_of_mem _ h1, fun x hx => List.mem_cons_of_mem _ (h2 x hx)⟩

theorem keptLoops_mem {v : Str} {loops : List (RLoop F)} : ∀ x ∈ keptLoops v loops, x ∈ loops := by
  unfold keptLoops
  cases h : findLoop v loops with
  | none => exact fun x hx => hx
  | some lr =>
    obtain ⟨l, rest⟩ := lr
    exact (findLoop_mem h).2

theorem forPush3_frame (n j : Nat) (s : RStmt3 F) (r : RState3 F) (v : Str) (x y z : F) :
    ExecFrame n j s r (forPush3 n j r v x y z) := by
  unfold forPush3
  by_cases hcap : ((keptLoops v r.loops).length == Extracted.stackLimit) = true
  · rw [if_pos hcap]; exact frame_stays (SameCtl.refl r) trivial
  · rw [if_neg hcap]
    cases hd : endsWithDollar v with
    | true => simp only [↓reduceIte]; exact frame_stays (SameCtl.refl r) trivial
    | false =>
      simp only [Bool.false_eq_true, ↓reduceIte]
      refine ⟨fun _ => rfl, fun e he => .inl he, fun l hl => ?_, (fun m hm => by cases hm), (fun m k hm => by cases hm)⟩
      simp only [List.mem_cons] at hl
      rcases hl with rfl | hl
      · exact .inr ⟨rfl, rfl⟩
      · exact .inl (keptLoops_mem l hl)

/-- **The frame lemma** for every statement of `RStmt3`. -/
theorem exec_frame (items : List (Nat × DataElement F)) (n j : Nat) :
    ∀ (s : RStmt3 F) (r : RState3 F), ExecFrame n j s r (s.exec items n j r)
  | .letS x e, r => by
    cases hev : evalE r e with
    | error err => simp only [RStmt3.exec, hev]; exact frame_stays (SameCtl.refl r) trivial
    | ok q =>
      obtain ⟨v, r1⟩ := q
      have h1 := evalE_same hev
      cases hm : v.matchesName x with
      | true =>
        simp only [RStmt3.exec, hev, hm, ↓reduceIte]
        exact frame_stays ⟨h1.fns, h1.rets, h1.loops⟩ trivial
      | false =>
        simp only [RStmt3.exec, hev, hm, Bool.false_eq_true, ↓reduceIte]
        exact frame_stays h1 trivial
  | .printS items', r => by
    cases hp : printText3 r items' false [] with
    | error err => simp only [RStmt3.exec, hp]; exact frame_stays (SameCtl.refl r) trivial
    | ok q =>
      obtain ⟨text, r1⟩ := q
      have h1 := printText3_same hp
      simp only [RStmt3.exec, hp]
      exact frame_stays ⟨h1.fns, h1.rets, h1.loops⟩ trivial
  | .gotoS m, r => by
    simp only [RStmt3.exec]
    exact ⟨fun _ => rfl, fun e he => .inl he, fun l hl => .inl hl,
      (fun m' hm => by cases hm; simp [targets]), (fun m' k hm => by cases hm)⟩
  | .lineS m, r => by
    simp only [RStmt3.exec]
    exact ⟨fun _ => rfl, fun e he => .inl he, fun l hl => .inl hl,
      (fun m' hm => by cases hm; simp [targets]), (fun m' k hm => by cases hm)⟩
  | .endS, r => by simp only [RStmt3.exec]; exact frame_stays (SameCtl.refl r) trivial
  | .ifS c t none, r => by
    cases hev : evalE r c with
    | error err => simp only [RStmt3.exec, hev]; exact frame_stays (SameCtl.refl r) trivial
    | ok q =>
      obtain ⟨v, r1⟩ := q
      have h1 := evalE_same hev
      cases hb : v.toBool with
      | false =>
        simp only [RStmt3.exec, hev, hb, Bool.false_eq_true, ↓reduceIte]
        exact frame_stays h1 trivial
      | true =>
        simp only [RStmt3.exec, hev, hb, ↓reduceIte]
        have ih := (exec_frame items n j t r1).of_same h1
        exact ⟨fun hd => ih.fns (by simpa only [defFree] using hd), ih.rets, ih.loops,
          fun m hm => by simpa only [targets] using ih.jump m hm, ih.resume⟩
  | .ifS c t (some e), r => by
    cases hev : evalE r c with
    | error err => simp only [RStmt3.exec, hev]; exact frame_stays (SameCtl.refl r) trivial
    | ok q =>
      obtain ⟨v, r1⟩ := q
      have h1 := evalE_same hev
      cases hb : v.toBool with
      | true =>
        simp only [RStmt3.exec, hev, hb, ↓reduceIte]
        have ih := (exec_frame items n j t r1).of_same h1
        refine ⟨fun hd => ?_, ?_, ?_, fun m hm => ?_, fun m k hm => ?_⟩
        · rw [closeLine3_fst]
          simp only [defFree, Bool.and_eq_true] at hd
          exact ih.fns hd.1
        · rw [closeLine3_fst]; exact ih.rets
        · rw [closeLine3_fst]; exact ih.loops
        · simp only [targets, List.mem_append]
          exact .inl (ih.jump m (closeLine3_jump hm))
        · exact ih.resume m k (closeLine3_resume hm)
      | false =>
        simp only [RStmt3.exec, hev, hb, Bool.false_eq_true, ↓reduceIte]
        have ih := (exec_frame items n j e r1).of_same h1
        refine ⟨fun hd => ?_, ih.rets, ih.loops, fun m hm => ?_, ih.resume⟩
        · simp only [defFree, Bool.and_eq_true] at hd
          exact ih.fns hd.2
        · simp only [targets, List.mem_append]
          exact .inr (ih.jump m hm)
  | .forS v a b c, r => by
    cases hna : numE3 r a with
    | error err => simp only [RStmt3.exec, hna]; exact frame_stays (SameCtl.refl r) trivial
    | ok q =>
      obtain ⟨x, r1⟩ := q
      have h1 := numE3_same hna
      cases hnb : numE3 r1 b with
      | error err => simp only [RStmt3.exec, hna, hnb]; exact frame_stays (SameCtl.refl r) trivial
      | ok q' =>
        obtain ⟨y, r2⟩ := q'
        have h2 := numE3_same hnb
        cases hnc : stepE3 r2 c with
        | error err => simp only [RStmt3.exec, hna, hnb, hnc]; exact frame_stays (SameCtl.refl r) trivial
        | ok q'' =>
          obtain ⟨z, r3⟩ := q''
          have h3 := stepE3_same hnc
          simp only [RStmt3.exec, hna, hnb, hnc]
          exact (forPush3_frame n j _ r3 v x y z).of_same ((h1.trans h2).trans h3)
  | .nextS v, r => by
    cases hv : envOf r.vars v with
    | str x => simp only [RStmt3.exec, hv]; exact frame_stays (SameCtl.refl r) trivial
    | num cur =>
      cases hf : findLoop v r.loops with
      | none => simp only [RStmt3.exec, hv, hf]; exact frame_stays (SameCtl.refl r) trivial
      | some lr =>
        obtain ⟨l, rest⟩ := lr
        obtain ⟨hl, hrest⟩ := findLoop_mem hf
        have hA : ∀ vars : List (Str × Value F), ExecFrame n j (.nextS v) r
            ({ r with vars := vars, loops := l :: rest }, .resume l.line l.idx) := by
          intro vars
          refine ⟨fun _ => rfl, fun e he => .inl he, fun l' hl' => ?_, (fun m hm => by cases hm), fun m k hm => ?_⟩
          · simp only [List.mem_cons] at hl'
            rcases hl' with rfl | hl'
            · exact .inl hl
            · exact .inl (hrest l' hl')
          · have hm' : Ctl2.resume l.line l.idx = Ctl2.resume m k := hm
            simp only [Ctl2.resume.injEq] at hm'
            exact .inr ⟨l, hl, hm'.1, hm'.2⟩
        have hB : ∀ vars : List (Str × Value F), ExecFrame n j (.nextS v) r
            ({ r with vars := vars, loops := rest }, .next) := fun vars =>
          ⟨fun _ => rfl, fun e he => .inl he, fun l' hl' => .inl (hrest l' hl'), (fun m hm => by cases hm),
            (fun m k hm => by cases hm)⟩
        simp only [RStmt3.exec, hv, hf]
        split <;> split <;> first | exact hA _ | exact hB _
  | .gosubS m, r => by
    simp only [RStmt3.exec]
    split
    · exact frame_stays (SameCtl.refl r) trivial
    · refine ⟨fun _ => rfl, fun e he => ?_, fun l hl => .inl hl, (fun m' hm => by cases hm; simp [targets]),
        (fun m' k hm => by cases hm)⟩
      simp only [List.mem_cons] at he
      rcases he with rfl | he
      · exact .inr rfl
      · exact .inl he
  | .returnS, r => by
    cases hr : r.rets with
    | nil => simp only [RStmt3.exec, hr]; exact frame_stays (SameCtl.refl r) trivial
    | cons a as =>
      obtain ⟨ln, k⟩ := a
      simp only [RStmt3.exec, hr]
      refine ⟨fun _ => rfl, fun e he => ?_, fun l hl => .inl hl, (fun m hm => by cases hm), fun m k' hm => ?_⟩
      · rw [hr]; exact .inl (List.mem_cons_of_mem _ he)
      · simp only [Ctl2.resume.injEq] at hm
        rw [hr, ← hm.1, ← hm.2]
        exact .inl List.mem_cons_self
  | .readS ts, r => by
    have h1 := readTargetsSpec_same items ts r
    have hc := readTargetsSpec_ctl items ts r
    simp only [RStmt3.exec]
    refine ⟨fun _ => h1.fns, fun e he => .inl (h1.rets ▸ he), fun l hl => .inl (h1.loops ▸ hl), fun m hm => ?_,
      fun m k hm => ?_⟩
    · rw [hm] at hc; rcases hc with h | ⟨_, h⟩ | ⟨_, _, h⟩ <;> cases h
    · rw [hm] at hc; rcases hc with h | ⟨_, h⟩ | ⟨_, _, h⟩ <;> cases h
  | .dataS items', r => by simp only [RStmt3.exec]; exact frame_stays (SameCtl.refl r) trivial
  | .restoreS, r => by simp only [RStmt3.exec]; exact frame_stays ⟨rfl, rfl, rfl⟩ trivial
  | .dimS name dims, r => by
    cases hfi : evalIdx r dims with
    | error err => simp only [RStmt3.exec, hfi]; exact frame_stays (SameCtl.refl r) trivial
    | ok q =>
      obtain ⟨index, r1⟩ := q
      have h1 := evalIdx_same hfi
      simp only [RStmt3.exec, hfi]
      split
      · exact frame_stays h1 trivial
      · split
        · exact frame_stays h1 trivial
        · exact frame_stays ⟨h1.fns, h1.rets, h1.loops⟩ trivial
  | .letCellS name idx e, r => by
    cases hfi : evalIdx r idx with
    | error err => simp only [RStmt3.exec, hfi]; exact frame_stays (SameCtl.refl r) trivial
    | ok q =>
      obtain ⟨index, r1⟩ := q
      have h1 := evalIdx_same hfi
      cases hev : evalE r1 e with
      | error err => simp only [RStmt3.exec, hfi, hev]; exact frame_stays (SameCtl.refl r) trivial
      | ok q' =>
        obtain ⟨v, r2⟩ := q'
        have h2 := (h1.trans (evalE_same hev))
        simp only [RStmt3.exec, hfi, hev]
        split
        · exact frame_stays h2 trivial
        · exact frame_stays ⟨h2.fns, h2.rets, h2.loops⟩ trivial
  | .defS f ps body, r => by
    simp only [RStmt3.exec]
    exact ⟨(fun hd => by simp [defFree] at hd), fun e he => .inl he, fun l hl => .inl hl, (fun m hm => by cases hm),
      (fun m k hm => by cases hm)⟩

/-! ### 5. looking things up in a program that is split in two -/

theorem line_append_right {pre post : RProgram3 F} {n : Nat} (h : n ∉ pre.map (·.1)) :
    RProgram3.line (pre ++ post) n = RProgram3.line post n := by
  induction pre with
  | nil => rfl
  | cons l pre ih =>
    obtain ⟨k, ss⟩ := l
    simp only [List.map_cons, List.mem_cons, not_or] at h
    have hb : (k == n) = false := by simp only [beq_eq_false_iff_ne, ne_eq]; exact fun he => h.1 he.symm
    simp only [List.cons_append, RProgram3.line, hb, Bool.false_eq_true, ↓reduceIte]
    exact ih h.2

theorem mem_nums_of_mem {p : RProgram3 F} {n : Nat} {ss : List (RStmt3 F)} (h : (n, ss) ∈ p) : n ∈ p.map (·.1) :=
  List.mem_map.mpr ⟨(n, ss), h, rfl⟩

theorem hasLine_mem {p : RProgram3 F} {m : Nat} (h : p.hasLine m = true) : m ∈ p.map (·.1) := by
  unfold RProgram3.hasLine at h
  cases hl : p.line m with
  | none => rw [hl] at h; cases h
  | some ss => exact mem_nums_of_mem (Prog3L.line_mem hl)

theorem after_spec {p : RProgram3 F} {n m : Nat} (h : p.after n = some m) : n < m ∧ m ∈ p.map (·.1) := by
  unfold RProgram3.after at h
  exact ⟨by simpa using List.find?_some h, List.mem_of_find?_eq_some h⟩

theorem resume_spec {p : RProgram3 F} {n j n' j' : Nat} (h : p.resume n j = some (n', j')) :
    (n' = n ∧ j' = j) ∨ (p.after n = some n' ∧ j' = 0) := by
  unfold RProgram3.resume at h
  have key : (p.after n).map (fun m => (m, 0)) = some (n', j') → p.after n = some n' ∧ j' = 0 := by
    intro h'
    cases ha : p.after n with
    | none => rw [ha] at h'; cases h'
    | some m =>
      rw [ha] at h'
      simp only [Option.map_some, Option.some.injEq, Prod.mk.injEq] at h'
      exact ⟨by rw [h'.1], h'.2.symm⟩
  cases hl : p.line n with
  | none => rw [hl] at h; exact .inr (key h)
  | some ss =>
    rw [hl] at h
    simp only at h
    by_cases hj : j < ss.length
    · rw [if_pos hj] at h
      simp only [Option.some.injEq, Prod.mk.injEq] at h
      exact .inl ⟨h.1.symm, h.2.symm⟩
    · rw [if_neg hj] at h; exact .inr (key h)

/-- greater than every line number of the definition prefix -/
def PostNum (pre : RProgram3 F) (m : Nat) : Prop := ∀ x ∈ pre.map (·.1), x < m

theorem PostNum.mono {pre : RProgram3 F} {m m' : Nat} (h : PostNum pre m) (hm : m ≤ m') : PostNum pre m' :=
  fun x hx => Nat.lt_of_lt_of_le (h x hx) hm

theorem PostNum.not_mem {pre : RProgram3 F} {m : Nat} (h : PostNum pre m) : m ∉ pre.map (·.1) :=
  fun hm => Nat.lt_irrefl m (h m hm)

theorem PostNum.after {pre : RProgram3 F} {p : RProgram3 F} {m m' : Nat} (h : PostNum pre m) (ha : p.after m = some m') :
    PostNum pre m' :=
  h.mono (Nat.le_of_lt (after_spec ha).1)

theorem PostNum.resume {pre : RProgram3 F} {p : RProgram3 F} {m k n' j' : Nat} (h : PostNum pre m)
    (hr : p.resume m k = some (n', j')) : PostNum pre n' := by
  rcases resume_spec hr with ⟨rfl, _⟩ | ⟨ha, _⟩
  · exact h
  · exact h.after ha

theorem postNum_of_mem {pre post : RProgram3 F} (hasc : ((pre ++ post).map (·.1)).Pairwise (· < ·)) {m : Nat}
    (hm : m ∈ post.map (·.1)) : PostNum pre m := by
  rw [List.map_append, List.pairwise_append] at hasc
  exact fun x hx => hasc.2.2 x hx m hm

/-- a line number of the program is in the prefix or behind it -/
theorem region_of_mem {pre post : RProgram3 F} (hasc : ((pre ++ post).map (·.1)).Pairwise (· < ·)) {m : Nat}
    (hm : m ∈ (pre ++ post).map (·.1)) : m ∈ pre.map (·.1) ∨ PostNum pre m := by
  rw [List.map_append, List.mem_append] at hm
  rcases hm with hm | hm
  · exact .inl hm
  · exact .inr (postNum_of_mem hasc hm)

theorem beforeL_append {pre post : RProgram3 F} {n : Nat} (h : n ∉ pre.map (·.1)) (j : Nat) :
    beforeL (pre ++ post) n j = flatP pre ++ beforeL post n j := by
  induction pre with
  | nil => simp [flatP]
  | cons l pre ih =>
    obtain ⟨k, ss⟩ := l
    simp only [List.map_cons, List.mem_cons, not_or] at h
    have hb : (k == n) = false := by simp only [beq_eq_false_iff_ne, ne_eq]; exact fun he => h.1 he.symm
    simp only [List.cons_append, beforeL, hb, Bool.false_eq_true, ↓reduceIte, flatP_cons, List.append_assoc]
    rw [ih h.2]

theorem beforeL_mem : ∀ (q : RProgram3 F) (n j : Nat) (s : RStmt3 F), s ∈ beforeL q n j → ∃ l ∈ q, s ∈ l.2
  | [], _, _, _, h => by simp [beforeL] at h
  | (k, ss) :: rest, n, j, s, h => by
    simp only [beforeL] at h
    by_cases hk : (k == n) = true
    · rw [if_pos hk] at h
      exact ⟨(k, ss), List.mem_cons_self, List.mem_of_mem_take h⟩
    · rw [if_neg hk, List.mem_append] at h
      rcases h with h | h
      · exact ⟨(k, ss), List.mem_cons_self, h⟩
      · obtain ⟨l, hl, hs⟩ := beforeL_mem rest n j s h
        exact ⟨l, List.mem_cons_of_mem _ hl, hs⟩

/-- behind the definition prefix, the DEFs before a position are those of the prefix -/
theorem fnsAt_post {pre post : RProgram3 F} (hpost : ∀ l ∈ post, ∀ s ∈ l.2, defFree s = true) {n : Nat}
    (h : n ∉ pre.map (·.1)) (j : Nat) : fnsAt (pre ++ post) n j = fnsAfterStmts [] (flatP pre) := by
  unfold fnsAt
  rw [beforeL_append h, fnsAfterStmts_append]
  exact fnsAfterStmts_defFree _ _ (fun s hs => by
    obtain ⟨l, hl, hsl⟩ := beforeL_mem post n j s hs
    exact hpost l hl s hsl)

theorem line_split : ∀ {p : RProgram3 F} {n : Nat} {ss : List (RStmt3 F)}, p.line n = some ss →
    ∃ done q, p = done ++ (n, ss) :: q ∧ n ∉ done.map (·.1)
  | [], _, _, h => by simp [RProgram3.line] at h
  | (k, ss0) :: rest, n, ss, h => by
    simp only [RProgram3.line] at h
    by_cases hk : (k == n) = true
    · rw [if_pos hk] at h
      simp only [Option.some.injEq] at h
      have : k = n := by simpa using hk
      subst this; subst h
      exact ⟨[], rest, rfl, by simp⟩
    · rw [if_neg hk] at h
      obtain ⟨done, q, hp, hn⟩ := line_split h
      refine ⟨(k, ss0) :: done, q, by rw [hp]; rfl, ?_⟩
      simp only [List.map_cons, List.mem_cons, not_or]
      exact ⟨fun he => hk (by simp [he]), hn⟩

theorem beforeL_at {done q : RProgram3 F} {n : Nat} {ss : List (RStmt3 F)} (h : n ∉ done.map (·.1)) (j : Nat) :
    beforeL (done ++ (n, ss) :: q) n j = flatP done ++ ss.take j := by
  rw [beforeL_append h]
  simp only [beforeL, beq_self_eq_true, ↓reduceIte]

/-- **The textual successor**: where the machine goes after statement `j` of line `n` has run to its end,
    exactly that statement has been added to the statements before the position. -/
theorem beforeL_succ {p : RProgram3 F} (hasc : (p.map (·.1)).Pairwise (· < ·)) {n j n' j' : Nat} {ss : List (RStmt3 F)}
    {s : RStmt3 F} (hl : p.line n = some ss) (hs : ss[j]? = some s) (hr : p.resume n (j + 1) = some (n', j')) :
    beforeL p n' j' = beforeL p n j ++ [s] := by
  obtain ⟨done, q, hp, hn⟩ := line_split hl
  have htake : ss.take (j + 1) = ss.take j ++ [s] := by rw [List.take_add_one, hs]; rfl
  unfold RProgram3.resume at hr
  rw [hl] at hr
  simp only at hr
  by_cases hj : j + 1 < ss.length
  · rw [if_pos hj] at hr
    simp only [Option.some.injEq, Prod.mk.injEq] at hr
    rw [← hr.1, ← hr.2, hp, beforeL_at hn, beforeL_at hn, htake, List.append_assoc]
  · rw [if_neg hj] at hr
    rw [hp] at hasc hr
    rw [after_at3 hasc] at hr
    cases q with
    | nil => simp at hr
    | cons l q' =>
      obtain ⟨m, ss'⟩ := l
      simp only [List.head?_cons, Option.map_some, Option.some.injEq, Prod.mk.injEq] at hr
      obtain ⟨rfl, rfl⟩ := hr
      have hp' : p = (done ++ [(n, ss)]) ++ (m, ss') :: q' := by rw [hp]; simp
      have hm : m ∉ (done ++ [(n, ss)]).map (·.1) := by
        have hasc' : (((done ++ [(n, ss)]) ++ (m, ss') :: q').map (·.1)).Pairwise (· < ·) := by
          simpa using hasc
        rw [List.map_append, List.pairwise_append] at hasc'
        exact fun hmem => Nat.lt_irrefl m (hasc'.2.2 m hmem m (by simp))
      have hfull : ss.take j ++ [s] = ss := by
        rw [← htake]
        exact List.take_of_length_le (by omega)
      rw [hp', beforeL_at hm, ← hp', hp, beforeL_at hn, List.take_zero, List.append_nil, flatP_append,
        List.append_assoc, hfull]
      simp [flatP]

/-! ### 6. the static criterion -/

/-- DEF or DATA: what may stand in the definition prefix -/
def isDefOrData : RStmt3 F → Bool
  | .defS _ _ _ => true
  | .dataS _ => true
  | _ => false

/-- the names the top-level DEFs of the statements define, in order -/
def defNames (ss : List (RStmt3 F)) : List Str := ss.filterMap defName?

/-- **The static criterion, for a given length `k` of the definition prefix.**
    (i)   every statement of the first `k` lines is a DEF or a DATA statement, and no statement of the
          later lines contains a DEF (not even under an IF);
    (ii)  every function name is defined at most once;
    (iii) no target of a GOTO, GOSUB, `THEN n`, `ELSE n` is one of the first `k` lines;
    (iv)  no body of a DEF mentions — as call or as cell name — a function defined LATER in the text
          (it mentions only functions defined earlier, or itself). -/
def DefsFirstAt (p : RProgram3 F) (k : Nat) : Prop :=
  (∀ l ∈ p.take k, ∀ s ∈ l.2, isDefOrData s = true) ∧
  (∀ l ∈ p.drop k, ∀ s ∈ l.2, defFree s = true) ∧
  (defNames (flatP (p.take k))).Nodup ∧
  (∀ l ∈ p.drop k, ∀ s ∈ l.2, ∀ m ∈ targets s, m ∉ (p.take k).map (·.1)) ∧
  NoLaterUse (flatP (p.take k))

instance (p : RProgram3 F) (k : Nat) : Decidable (DefsFirstAt p k) := by
  unfold DefsFirstAt NoLaterUse
  infer_instance

/-- **`DefsFirst`**: the program begins with its function definitions — some number `k` of leading lines
    satisfies `DefsFirstAt`.  Purely syntactic and decidable. -/
def DefsFirst (p : RProgram3 F) : Prop := ∃ k, k ≤ p.length ∧ DefsFirstAt p k

instance (p : RProgram3 F) : Decidable (DefsFirst p) := by
  unfold DefsFirst
  exact Nat.decidableExistsLE p.length

/-- the criterion as a Boolean function -/
def defsFirstB (p : RProgram3 F) : Bool := decide (DefsFirst p)

theorem defsFirstB_iff (p : RProgram3 F) : defsFirstB p = true ↔ DefsFirst p := by
  unfold defsFirstB; exact decide_eq_true_iff

theorem topDef_of_defOrData {s : RStmt3 F} (h : isDefOrData s = true) : topDef s = true := by
  cases s <;> first | rfl | (simp [isDefOrData] at h)

theorem topDef_of_defFree {s : RStmt3 F} (h : defFree s = true) : topDef s = true := by
  cases s with
  | defS f ps body => rfl
  | _ => exact h

theorem noLaterUse_append {xs ys : List (RStmt3 F)} (hx : NoLaterUse xs) (hy : ∀ s ∈ ys, defFree s = true) :
    NoLaterUse (xs ++ ys) := by
  have hl : ∀ (s s' : RStmt3 F), s' ∈ ys → laterOK s s' = true := by
    intro s s' hs'
    unfold laterOK
    rw [defName?_defFree (hy s' hs')]
  unfold NoLaterUse
  rw [List.pairwise_append]
  refine ⟨hx, ?_, fun a _ b hb => hl a b hb⟩
  clear hx
  induction ys with
  | nil => exact List.Pairwise.nil
  | cons y ys ih =>
    refine List.Pairwise.cons (fun b hb => hl y b (List.mem_cons_of_mem _ hb)) ?_
    exact ih (fun s hs => hy s (List.mem_cons_of_mem _ hs)) (fun s s' hs' => hl s s' (List.mem_cons_of_mem _ hs'))

/-! ### 7. the invariant of the run -/

/-- what the prefix statements do: nothing but recording the definition -/
theorem exec_defOrData (items : List (Nat × DataElement F)) (n j : Nat) {s : RStmt3 F} (h : isDefOrData s = true)
    (r : RState3 F) :
    (s.exec items n j r).2 = .next ∧ (s.exec items n j r).1.fns = fnsAfterS r.fns s ∧
      (s.exec items n j r).1.rets = r.rets ∧ (s.exec items n j r).1.loops = r.loops := by
  cases s <;> first | exact ⟨rfl, rfl, rfl, rfl⟩ | (simp [isDefOrData] at h)

/-- **The invariant**: the stack entries point behind the definition prefix; the program counter is in
    the prefix or behind it, and the function table holds exactly the DEFs that stand before it in the text
    (behind the prefix: all of them, `fnsAt_post`). -/
structure DFInv (pre post : RProgram3 F) (r : RState3 F) : Prop where
  rets : ∀ e ∈ r.rets, PostNum pre e.1
  loops : ∀ l ∈ r.loops, PostNum pre l.line
  pc : ∀ n j, r.pc = some (n, j) → r.fns = fnsAt (pre ++ post) n j ∧ (n ∈ pre.map (·.1) ∨ PostNum pre n)

theorem dfInv_start {pre post : RProgram3 F} (hasc : ((pre ++ post).map (·.1)).Pairwise (· < ·)) (g : Nat) :
    DFInv pre post ((pre ++ post).start g) where
  rets := fun e he => by simp [RProgram3.start] at he
  loops := fun l hl => by simp [RProgram3.start] at hl
  pc := fun n j hpc => by
    cases hp : pre ++ post with
    | nil => rw [hp] at hpc; simp [RProgram3.start, RProgram3.first] at hpc
    | cons l q =>
      obtain ⟨k, ss⟩ := l
      have hpc' : ((pre ++ post).start g).pc = some (n, j) := hpc
      rw [hp] at hpc'
      simp only [RProgram3.start, RProgram3.first, List.head?_cons, Option.map_some, Option.some.injEq,
        Prod.mk.injEq] at hpc'
      obtain ⟨rfl, rfl⟩ := hpc'
      refine ⟨?_, region_of_mem hasc (by rw [hp]; simp)⟩
      show ([] : FnTable F) = fnsAt ((k, ss) :: q) k 0
      simp [fnsAt, beforeL, fnsAfterStmts]

/-- the part of the invariant a state behind the prefix needs -/
theorem dfInv_post {pre post : RProgram3 F} (hpost : ∀ l ∈ post, ∀ s ∈ l.2, defFree s = true) {r1 : RState3 F}
    (hrets : ∀ e ∈ r1.rets, PostNum pre e.1) (hloops : ∀ l ∈ r1.loops, PostNum pre l.line)
    (hfns : r1.fns = fnsAfterStmts [] (flatP pre)) {X : Option (Nat × Nat)}
    (hX : ∀ n j, X = some (n, j) → PostNum pre n) : DFInv pre post { r1 with pc := X } where
  rets := hrets
  loops := hloops
  pc := fun n j hpc => by
    have hn := hX n j hpc
    exact ⟨by show r1.fns = _; rw [hfns, fnsAt_post hpost hn.not_mem], .inr hn⟩

/-- **The invariant is kept by every reference step.** -/
theorem dfInv_step {pre post : RProgram3 F} (hasc : ((pre ++ post).map (·.1)).Pairwise (· < ·))
    (hpre : ∀ l ∈ pre, ∀ s ∈ l.2, isDefOrData s = true) (hpost : ∀ l ∈ post, ∀ s ∈ l.2, defFree s = true)
    (htg : ∀ l ∈ post, ∀ s ∈ l.2, ∀ m ∈ targets s, m ∉ pre.map (·.1))
    {r r' : RState3 F} (h : DFInv pre post r) (hs : RStep3 (pre ++ post) r = .inl r') : DFInv pre post r' := by
  cases hpc : r.pc with
  | none => rw [C03.rstep3_ended hpc] at hs; cases hs; exact h
  | some nj =>
    obtain ⟨n, j⟩ := nj
    have hnone : DFInv pre post { r with pc := none } := ⟨h.rets, h.loops, fun n j hx => by cases hx⟩
    cases hl : RProgram3.line (pre ++ post) n with
    | none =>
      have : RStep3 (pre ++ post) r = .inl { r with pc := none } := by simp only [RStep3, hpc, hl]
      rw [this] at hs; cases hs; exact hnone
    | some ss =>
      cases hsj : ss[j]? with
      | none =>
        have : RStep3 (pre ++ post) r = .inl { r with pc := none } := by simp only [RStep3, hpc, hl, hsj]
        rw [this] at hs; cases hs; exact hnone
      | some s =>
        obtain ⟨hfns, hreg⟩ := h.pc n j hpc
        have hmem : (n, ss) ∈ pre ++ post := Prog3L.line_mem hl
        have hsmem : s ∈ ss := List.mem_of_getElem? hsj
        rcases hreg with hreg | hreg
        · -- in the prefix: a DEF or a DATA statement
          have hin : (n, ss) ∈ pre := by
            rcases List.mem_append.mp hmem with hm | hm
            · exact hm
            · exact absurd hreg (postNum_of_mem hasc (mem_nums_of_mem hm)).not_mem
          obtain ⟨hnext, hf, hrt, hlp⟩ := exec_defOrData (allData3 (pre ++ post)) n j (hpre _ hin s hsmem) r
          have : RStep3 (pre ++ post) r =
              .inl { (s.exec (allData3 (pre ++ post)) n j r).1 with pc := (pre ++ post).resume n (j + 1) } := by
            simp only [RStep3, hpc, hl, hsj, hnext]
          rw [this] at hs; cases hs
          refine ⟨fun e he => h.rets e (hrt ▸ he), fun l hl' => h.loops l (hlp ▸ hl'), fun n' j' hX => ?_⟩
          have hX' : (pre ++ post).resume n (j + 1) = some (n', j') := hX
          constructor
          · show (s.exec (allData3 (pre ++ post)) n j r).1.fns = _
            rw [hf, hfns]
            unfold fnsAt
            rw [beforeL_succ hasc hl hsj hX', fnsAfterStmts_append]
            rfl
          · rcases resume_spec hX' with ⟨rfl, _⟩ | ⟨ha, _⟩
            · exact .inl hreg
            · exact region_of_mem hasc (after_spec ha).2
        · -- behind the prefix: a statement without DEF
          have hin : (n, ss) ∈ post := by
            rcases List.mem_append.mp hmem with hm | hm
            · exact absurd (mem_nums_of_mem hm) hreg.not_mem
            · exact hm
          have hfr := exec_frame (allData3 (pre ++ post)) n j s r
          have hf : (s.exec (allData3 (pre ++ post)) n j r).1.fns = fnsAfterStmts [] (flatP pre) := by
            rw [hfr.fns (hpost _ hin s hsmem), hfns, fnsAt_post hpost hreg.not_mem]
          have hrt : ∀ e ∈ (s.exec (allData3 (pre ++ post)) n j r).1.rets, PostNum pre e.1 := by
            intro e he
            rcases hfr.rets e he with he | rfl
            · exact h.rets e he
            · exact hreg
          have hlp : ∀ l ∈ (s.exec (allData3 (pre ++ post)) n j r).1.loops, PostNum pre l.line := by
            intro l hl'
            rcases hfr.loops l hl' with hl' | ⟨hl', _⟩
            · exact h.loops l hl'
            · rw [hl']; exact hreg
          cases hctl : (s.exec (allData3 (pre ++ post)) n j r).2 with
          | next =>
            have : RStep3 (pre ++ post) r =
                .inl { (s.exec (allData3 (pre ++ post)) n j r).1 with pc := (pre ++ post).resume n (j + 1) } := by
              simp only [RStep3, hpc, hl, hsj, hctl]
            rw [this] at hs; cases hs
            exact dfInv_post hpost hrt hlp hf (fun n' j' hX => hreg.resume hX)
          | skipLine =>
            have : RStep3 (pre ++ post) r = .inl { (s.exec (allData3 (pre ++ post)) n j r).1 with
                pc := ((pre ++ post).after n).map fun m => (m, 0) } := by
              simp only [RStep3, hpc, hl, hsj, hctl]
            rw [this] at hs; cases hs
            refine dfInv_post hpost hrt hlp hf (fun n' j' hX => ?_)
            cases ha : (pre ++ post).after n with
            | none => rw [ha] at hX; cases hX
            | some m =>
              rw [ha] at hX
              simp only [Option.map_some, Option.some.injEq, Prod.mk.injEq] at hX
              rw [← hX.1]
              exact hreg.after ha
          | jump m =>
            cases hh : (pre ++ post).hasLine m with
            | false =>
              have : RStep3 (pre ++ post) r = .inr (.undefinedStatement, n) := by
                simp only [RStep3, hpc, hl, hsj, hctl, hh, Bool.false_eq_true, ↓reduceIte]
              rw [this] at hs; cases hs
            | true =>
              have : RStep3 (pre ++ post) r =
                  .inl { (s.exec (allData3 (pre ++ post)) n j r).1 with pc := some (m, 0) } := by
                simp only [RStep3, hpc, hl, hsj, hctl, hh, ↓reduceIte]
              rw [this] at hs; cases hs
              refine dfInv_post hpost hrt hlp hf (fun n' j' hX => ?_)
              simp only [Option.some.injEq, Prod.mk.injEq] at hX
              rw [← hX.1]
              rcases region_of_mem hasc (hasLine_mem hh) with hm | hm
              · exact absurd hm (htg _ hin s hsmem m (hfr.jump m hctl))
              · exact hm
          | stop =>
            have : RStep3 (pre ++ post) r = .inl { (s.exec (allData3 (pre ++ post)) n j r).1 with pc := none } := by
              simp only [RStep3, hpc, hl, hsj, hctl]
            rw [this] at hs; cases hs
            exact dfInv_post hpost hrt hlp hf (fun n' j' hX => by cases hX)
          | resume m k =>
            have : RStep3 (pre ++ post) r =
                .inl { (s.exec (allData3 (pre ++ post)) n j r).1 with pc := (pre ++ post).resume m k } := by
              simp only [RStep3, hpc, hl, hsj, hctl]
            rw [this] at hs; cases hs
            refine dfInv_post hpost hrt hlp hf (fun n' j' hX => ?_)
            have hm : PostNum pre m := by
              rcases hfr.resume m k hctl with he | ⟨l, hl', hlm, _⟩
              · exact h.rets (m, k) he
              · rw [← hlm]; exact h.loops l hl'
            exact hm.resume hX
          | error x =>
            have : RStep3 (pre ++ post) r = .inr (x, n) := by simp only [RStep3, hpc, hl, hsj, hctl]
            rw [this] at hs; cases hs
          | errorAt x ln' =>
            have : RStep3 (pre ++ post) r = .inr (x, ln') := by simp only [RStep3, hpc, hl, hsj, hctl]
            rw [this] at hs; cases hs

/-- **The invariant implies the agreement at the program counter** (for a checked program with (iv)). -/
theorem dfInv_typed {pre post : RProgram3 F} (hty : typeOfP3 (pre ++ post) = .ok ())
    (hpre : ∀ l ∈ pre, ∀ s ∈ l.2, isDefOrData s = true) (hpost : ∀ l ∈ post, ∀ s ∈ l.2, defFree s = true)
    (hnl : NoLaterUse (flatP pre)) {r : RState3 F} (h : DFInv pre post r) {n j : Nat} (hpc : r.pc = some (n, j)) :
    FnsTyped (sigAt (pre ++ post) n j) r.fns := by
  rw [(h.pc n j hpc).1]
  refine fnsTyped_at hty (fun s hs => ?_) ?_ n j
  · rw [flatP_append, List.mem_append] at hs
    rcases hs with hs | hs
    · obtain ⟨l, hl, hsl⟩ := mem_flatP.mp hs
      exact topDef_of_defOrData (hpre l hl s hsl)
    · obtain ⟨l, hl, hsl⟩ := mem_flatP.mp hs
      exact topDef_of_defFree (hpost l hl s hsl)
  · rw [flatP_append]
    exact noLaterUse_append hnl (fun s hs => by
      obtain ⟨l, hl, hsl⟩ := mem_flatP.mp hs
      exact hpost l hl s hsl)

end Abasic.Props.C06
