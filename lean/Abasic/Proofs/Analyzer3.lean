import Abasic.Proofs.AnalyzerFns
import Abasic.Proofs.Stmt3If
/-
  C06 for the whole statement language `RStmt3`, analyzer side: what the model of
  the static analyzer (`aStmtBody`, Analyzer.lean) does on the rendering of a
  statement of `RStmt3` — every expression an `Expr2` — against the static check
  `typeOfS3A` / `typeOfS3` (Proofs/Typing3.lean).

  * `asdepth s`       — nesting levels / fuel the ANALYZER needs on `renderS3 s`
                        (it does not enter function bodies: `adepth`);
  * `ResolvedS2 sig s` — names are used consistently with the signatures the
                        analyzer holds when it reaches each expression of `s`
                        (`Resolved2`; the body of a DEF w.r.t. the signatures after
                        the DEF, the ELSE branch w.r.t. those after the THEN branch);
  * `sigFailS le sig s` — the signatures the analyzer holds after it has FAILED on `s`
                        (a DEF whose body is rejected has been recorded);
  * `AOut3`           — agreement of a run with a static verdict: on acceptance the
                        cursor stands right behind the statement and the signatures
                        are `sigAfterS`; on an error the run fails with that error and
                        the signatures are `sigFailS`;
  * one lemma per statement kind, tied together in `astmt3_run`.
-/
set_option linter.unusedSectionVars false

namespace Abasic.Props.C06
open Abasic Abasic.Ref Abasic.ExprL Abasic.ExprL2 Abasic.AnaL Abasic.StmtL Abasic.AnaS M

variable {F : Type} [NumOps F]

/-! ### side conditions -/

def aitemsDepth : List (PItem3 F) → Nat
  | [] => 0
  | .expr e :: rest => max (adepth e + 1) (aitemsDepth rest)
  | _ :: rest => aitemsDepth rest

def atargetsDepth : List (RTarget F) → Nat
  | [] => 0
  | .scalar _ :: rest => atargetsDepth rest
  | .cell _ idx :: rest => max (adepthArgs idx) (atargetsDepth rest)

/-- nesting levels / fuel the analyzer needs on the rendering of a statement -/
def asdepth : RStmt3 F → Nat
  | .letS _ e => adepth e + 1
  | .printS items => aitemsDepth items
  | .ifS c t none => max (adepth c + 1) (asdepth t + 1)
  | .ifS c t (some e) => max (adepth c + 1) (max (asdepth t + 1) (asdepth e + 1))
  | .forS _ a b none => max (adepth a + 1) (adepth b + 1)
  | .forS _ a b (some c) => max (adepth a + 1) (max (adepth b + 1) (adepth c + 1))
  | .dimS _ dims => adepthArgs dims
  | .letCellS _ idx e => max (adepthArgs idx) (adepth e + 1)
  | .readS ts => atargetsDepth ts
  | .defS _ _ body => adepth body + 1
  | _ => 0

def ResolvedItems2 (sig : Sig) : List (PItem3 F) → Prop
  | [] => True
  | .expr e :: rest => Resolved2 sig e ∧ ResolvedItems2 sig rest
  | _ :: rest => ResolvedItems2 sig rest

def ResolvedTargets2 (sig : Sig) : List (RTarget F) → Prop
  | [] => True
  | .scalar _ :: rest => ResolvedTargets2 sig rest
  | .cell _ idx :: rest => Resolved2L sig idx ∧ ResolvedTargets2 sig rest

/-- every expression of the statement is `Resolved2` w.r.t. the signatures the
    analyzer holds when it reaches it -/
def ResolvedS2 : Sig → RStmt3 F → Prop
  | sig, .letS _ e => Resolved2 sig e
  | sig, .printS items => ResolvedItems2 sig items
  | sig, .ifS c t none => Resolved2 sig c ∧ ResolvedS2 sig t
  | sig, .ifS c t (some e) => Resolved2 sig c ∧ ResolvedS2 sig t ∧ ResolvedS2 (sigAfterS sig t) e
  | sig, .forS _ a b none => Resolved2 sig a ∧ Resolved2 sig b
  | sig, .forS _ a b (some c) => Resolved2 sig a ∧ Resolved2 sig b ∧ Resolved2 sig c
  | sig, .dimS _ dims => Resolved2L sig dims
  | sig, .letCellS _ idx e => Resolved2L sig idx ∧ Resolved2 sig e
  | sig, .readS ts => ResolvedTargets2 sig ts
  | sig, .defS f ps body => Resolved2 (sigAfterS sig (.defS f ps body : RStmt3 F)) body
  | _, _ => True

/-- the signatures the analyzer holds after it has walked into `s` and failed -/
def sigFailS (le : Nat → Bool) : Sig → RStmt3 F → Sig
  | sig, .defS f ps body => sigAfterS sig (.defS f ps body : RStmt3 F)
  | sig, .ifS c a none =>
    match typeAny sig c with
    | .error _ => sig
    | .ok _ => sigFailS le sig a
  | sig, .ifS c a (some b) =>
    match typeAny sig c with
    | .error _ => sig
    | .ok _ =>
      match typeOfS3A le sig a with
      | .error _ => sigFailS le sig a
      | .ok _ => sigFailS le (sigAfterS sig a) b
  | sig, _ => sig

/-- may be followed by ELSE only if it `closes` -/
def AEnd (s : RStmt3 F) (rest : List (Token F)) : Prop :=
  LineEnd rest ∨ (s.closes = true ∧ StmtEnd rest)

theorem AEnd.stmtEnd {s : RStmt3 F} {rest : List (Token F)} (h : AEnd s rest) : StmtEnd rest := by
  rcases h with h | h
  · exact h.stmtEnd
  · exact h.2

theorem AEnd.lineEnd {s : RStmt3 F} {rest : List (Token F)} (h : AEnd s rest) (hc : s.closes = false) :
    LineEnd rest := by
  rcases h with h | h
  · exact h
  · rw [hc] at h; exact absurd h.1 (by simp)

/-! ### later states of the same statement -/

/-- `S` is a later state of the run that started in `σ`: same line, same nesting
    counter, same function table -/
structure Cur (σ S : St F) : Prop where
  line : S.loc.line = σ.loc.line
  nesting : S.nesting = σ.nesting
  fns : S.fns = σ.fns
  lines : S.lines = σ.lines

omit [NumOps F] in
theorem Cur.refl (σ : St F) : Cur σ σ := ⟨rfl, rfl, rfl, rfl⟩
omit [NumOps F] in
theorem Cur.trans {a b c : St F} (h1 : Cur a b) (h2 : Cur b c) : Cur a c :=
  ⟨h2.line.trans h1.line, h2.nesting.trans h1.nesting, h2.fns.trans h1.fns, h2.lines.trans h1.lines⟩
omit [NumOps F] in
theorem Cur.mv {σ S : St F} (h : Cur σ S) (a r : Nat) : Cur σ (mv S a r) := ⟨h.line, h.nesting, h.fns, h.lines⟩
omit [NumOps F] in
theorem Cur.lg {σ S : St F} (h : Cur σ S) (a : List Acc) : Cur σ (lg S a) := ⟨h.line, h.nesting, h.fns, h.lines⟩
omit [NumOps F] in
theorem Cur.sig {σ S : St F} (h : Cur σ S) {sig : Sig} (hS : sigOf σ.fns = sig) : sigOf S.fns = sig := by
  rw [h.fns]; exact hS
omit [NumOps F] in
theorem Cur.ln {σ S : St F} (h : Cur σ S) {ln : Nat} (hl : σ.loc.line = some ln) : S.loc.line = some ln := by
  rw [h.line]; exact hl

/-! ### expressions -/

theorem aexpr3_ok (sig : Sig) (e : Expr2 F) (f ln : Nat) (S : St F) (pre rest : List (Token F))
    (hAt : At S pre (render2 e ++ rest)) (hl : S.loc.line = some ln) (hS : sigOf S.fns = sig)
    (hd : adepth e + 1 ≤ f) (hn : S.nesting + (adepth e + 1) ≤ Extracted.nestingLimit)
    (hE : Ends 6 rest) (hres : Resolved2 sig e) {t : VT} (ht : typeOf2 sig e = .ok t) :
    ∃ S', (aEvalN f).expr S = .ok t S' ∧ At S' (pre ++ render2 e) rest ∧ Cur S S' := by
  have hX := aexpr_eq2 sig e (amain2 _ e).1 f ln S pre rest hd hn hE hAt hl hS hres
  rw [ht] at hX
  obtain ⟨r, _, hr⟩ := hX
  exact ⟨_, hr, at_lg (at_mv hAt r) _, ⟨rfl, rfl, rfl, rfl⟩⟩

theorem aexpr3_err (sig : Sig) (e : Expr2 F) (f ln : Nat) (S : St F) (pre rest : List (Token F))
    (hAt : At S pre (render2 e ++ rest)) (hl : S.loc.line = some ln) (hS : sigOf S.fns = sig)
    (hd : adepth e + 1 ≤ f) (hn : S.nesting + (adepth e + 1) ≤ Extracted.nestingLimit)
    (hE : Ends 6 rest) (hres : Resolved2 sig e) {x : Err} (ht : typeOf2 sig e = .error x) :
    ∃ S', (aEvalN f).expr S = .err { err := x } S' := by
  have hX := aexpr_eq2 sig e (amain2 _ e).1 f ln S pre rest hd hn hE hAt hl hS hres
  rw [ht] at hX
  obtain ⟨S', hS', _⟩ := hX
  exact ⟨S', hS'⟩

theorem anum3_ok (sig : Sig) (e : Expr2 F) (f ln : Nat) (S : St F) (pre rest : List (Token F))
    (hAt : At S pre (render2 e ++ rest)) (hl : S.loc.line = some ln) (hS : sigOf S.fns = sig)
    (hd : adepth e + 1 ≤ f) (hn : S.nesting + (adepth e + 1) ≤ Extracted.nestingLimit)
    (hE : Ends 6 rest) (hres : Resolved2 sig e) (ht : typeAs sig .num e = .ok ()) :
    ∃ S', (aEvalN f).expr S = .ok .num S' ∧ At S' (pre ++ render2 e) rest ∧ Cur S S' :=
  aexpr3_ok sig e f ln S pre rest hAt hl hS hd hn hE hres ((typeAs_ok_iff sig .num e).1 ht)

theorem anum3_err (sig : Sig) (e : Expr2 F) (f ln : Nat) (S : St F) (pre rest : List (Token F))
    (hAt : At S pre (render2 e ++ rest)) (hl : S.loc.line = some ln) (hS : sigOf S.fns = sig)
    (hd : adepth e + 1 ≤ f) (hn : S.nesting + (adepth e + 1) ≤ Extracted.nestingLimit)
    (hE : Ends 6 rest) (hres : Resolved2 sig e) {x : Err} (ht : typeAs sig .num e = .error x) :
    (∃ S', (aEvalN f).expr S = .err { err := x } S') ∨
      (x = .typeMismatch ∧ ∃ S', (aEvalN f).expr S = .ok .str S') := by
  unfold typeAs at ht
  cases hte : typeOf2 sig e with
  | error y =>
    rw [hte] at ht
    simp only [Except.error.injEq] at ht
    subst ht
    exact .inl (aexpr3_err sig e f ln S pre rest hAt hl hS hd hn hE hres hte)
  | ok t =>
    rw [hte] at ht
    cases t with
    | num => simp at ht
    | str =>
      simp only [reduceCtorEq, ↓reduceIte, Except.error.injEq] at ht
      obtain ⟨S', hS', _⟩ := aexpr3_ok sig e f ln S pre rest hAt hl hS hd hn hE hres hte
      exact .inr ⟨ht.symm, S', hS'⟩

/-! ### subscripts -/

theorem aidx3_run (sig : Sig) (es : List (Expr2 F)) (f ln : Nat) (S : St F) (pre rest : List (Token F))
    (hAt : At S pre (.kw .LeftParen :: (renderArgs es ++ (.kw .RightParen :: rest))))
    (hl : S.loc.line = some ln) (hS : sigOf S.fns = sig)
    (hd : adepthArgs es ≤ f) (hn : S.nesting + adepthArgs es ≤ Extracted.nestingLimit)
    (hres : Resolved2L sig es) :
    match typeIdx sig es with
    | .ok _ => ∃ S', aArrayIndex (aEvalN f) S = .ok es.length S' ∧
        At S' (pre ++ .kw .LeftParen :: (renderArgs es ++ [.kw .RightParen])) rest ∧ Cur S S'
    | .error x => ∃ S', aArrayIndex (aEvalN f) S = .err { err := x } S' := by
  have hI := aidx2_run sig es (fun x _ => (amain2 sig x).1) f ln S pre rest hd hn hAt hl hS hres
  cases hty : typeIdx sig es with
  | error x =>
    rw [hty] at hI
    obtain ⟨S', hS', _⟩ := hI
    exact ⟨S', hS'⟩
  | ok u =>
    rw [hty] at hI
    obtain ⟨r, _, hr⟩ := hI
    refine ⟨_, hr, ?_, ⟨rfl, rfl, rfl, rfl⟩⟩
    have hAt' : At S pre ((.kw .LeftParen :: (renderArgs es ++ [.kw .RightParen])) ++ rest) := by
      simpa only [List.cons_append, List.append_assoc, List.nil_append] using hAt
    have h2 := at_mv hAt' r
    have hlen : (Token.kw (F := F) .LeftParen :: (renderArgs es ++ [.kw .RightParen])).length
        = (renderArgs es).length + 2 := by
      simp only [List.length_cons, List.length_append, List.length_nil]
    rw [hlen] at h2
    exact at_lg h2 _

theorem aoptidx3_run (sig : Sig) (es : List (Expr2 F)) (f ln : Nat) (S : St F) (pre rest : List (Token F))
    (hAt : At S pre (.kw .LeftParen :: (renderArgs es ++ (.kw .RightParen :: rest))))
    (hl : S.loc.line = some ln) (hS : sigOf S.fns = sig)
    (hd : adepthArgs es ≤ f) (hn : S.nesting + adepthArgs es ≤ Extracted.nestingLimit)
    (hres : Resolved2L sig es) :
    match typeIdx sig es with
    | .ok _ => ∃ S', aOptionalArrayIndex (aEvalN f) S = .ok (some es.length) S' ∧
        At S' (pre ++ .kw .LeftParen :: (renderArgs es ++ [.kw .RightParen])) rest ∧ Cur S S'
    | .error x => ∃ S', aOptionalArrayIndex (aEvalN f) S = .err { err := x } S' := by
  unfold aOptionalArrayIndex
  rw [bind_ok (peekIsKw_cons .LeftParen hAt)]
  have hk : (Token.kw (F := F) .LeftParen).isKw .LeftParen = true := rfl
  simp only [hk, ↓reduceIte]
  have hI := aidx3_run sig es f ln _ pre rest (at_mv0 hAt (S.reads + 1)) hl hS hd hn hres
  cases hty : typeIdx sig es with
  | error x =>
    rw [hty] at hI
    obtain ⟨S', hS'⟩ := hI
    exact ⟨S', bind_err hS'⟩
  | ok u =>
    rw [hty] at hI
    obtain ⟨S', hS', hAt', hc⟩ := hI
    exact ⟨S', by rw [bind_ok hS']; rfl, hAt', ⟨hc.line, hc.nesting, hc.fns, hc.lines⟩⟩

/-- `aParseLValue` on `name ( e₁ , … )` -/
theorem aparse3_idx (sig : Sig) (name : Str) (es : List (Expr2 F)) (f ln : Nat) (S : St F)
    (pre rest : List (Token F))
    (hAt : At S pre (.symbol name :: .kw .LeftParen :: (renderArgs es ++ .kw .RightParen :: rest)))
    (hl : S.loc.line = some ln) (hS : sigOf S.fns = sig)
    (hd : adepthArgs es ≤ f) (hn : S.nesting + adepthArgs es ≤ Extracted.nestingLimit)
    (hres : Resolved2L sig es) :
    match typeIdx sig es with
    | .ok _ => ∃ S', aParseLValue (aEvalN f) S =
          .ok { name := name, loc := { line := some ln, idx := pre.length }, arity := some es.length } S' ∧
        At S' (pre ++ .symbol name :: .kw .LeftParen :: (renderArgs es ++ [.kw .RightParen])) rest ∧ Cur S S'
    | .error x => ∃ S', aParseLValue (aEvalN f) S = .err { err := x } S' := by
  unfold aParseLValue
  rw [bind_ok (next_eq hAt)]
  dsimp only
  have hAt1 := at_mv1 hAt (S.reads + 1)
  have hl1 : (mv S 1 (S.reads + 1)).loc.line = some ln := hl
  rw [bind_ok (prevLoc_eq (ln := ln) (i := pre.length) hl1
    (by rw [hAt1.2]; simp only [List.length_append, List.length_cons, List.length_nil]))]
  have hI := aoptidx3_run sig es f ln _ _ rest hAt1 hl1 hS hd hn hres
  cases hty : typeIdx sig es with
  | error x =>
    rw [hty] at hI
    obtain ⟨S', hS'⟩ := hI
    exact ⟨S', bind_err hS'⟩
  | ok u =>
    rw [hty] at hI
    obtain ⟨S', hS', hAt', hc⟩ := hI
    refine ⟨S', by rw [bind_ok hS']; rfl, at_congr hAt' ?_, ⟨hc.line, hc.nesting, hc.fns, hc.lines⟩⟩
    simp only [List.append_assoc, List.cons_append, List.nil_append]

/-! ### the outcome of a statement run -/

omit [NumOps F] in
theorem aout_shift {res : Res F Unit} {ty : Except Err Unit} {pre a b rest : List (Token F)}
    (h : AOut res ty (pre ++ a) b rest) : AOut res ty pre (a ++ b) rest := by
  cases ty with
  | error x => exact h
  | ok u =>
    obtain ⟨σ', h1, h2⟩ := h
    exact ⟨σ', h1, by rwa [List.append_assoc] at h2⟩

omit [NumOps F] in
theorem aout_congr {res : Res F Unit} {ty : Except Err Unit} {pre a b rest : List (Token F)}
    (h : AOut res ty pre a rest) (e : a = b) : AOut res ty pre b rest := e ▸ h

theorem bind_num_bad' {α : Type} {m : M F VT} {S : St F} {x : Err}
    (h : (∃ S', m S = .err { err := x } S') ∨ (x = .typeMismatch ∧ ∃ S', m S = .ok .str S'))
    {K : VT → M F α} :
    ∃ S', (m >>= fun t => VT.checkNumber t >>= K) S = .err { err := x } S' := bind_num_bad h K

/-! ### LET -/

theorem alet3_run (sig : Sig) (x : Str) (e : Expr2 F) (n ln : Nat) (σ : St F) (pre rest : List (Token F))
    (le : Nat → Bool)
    (hAt : At σ pre (renderS3 (.letS x e) ++ rest)) (hl : σ.loc.line = some ln) (hS : sigOf σ.fns = sig)
    (hd : adepth e + 1 ≤ n) (hn : σ.nesting + (adepth e + 1) ≤ Extracted.nestingLimit) (hE : Ends 6 rest)
    (hres : Resolved2 sig e) :
    AOut (aStmtBody (aEvalN n) σ) (typeOfS3 sig le (.letS x e)) pre (renderS3 (.letS x e)) rest := by
  have hAt0 : At σ pre (.kw .Let :: .symbol x :: .kw .Equals :: (render2 e ++ rest)) := by
    simpa only [renderS3, List.cons_append] using hAt
  have hAt1 := at_mv1 hAt0 (σ.reads + 1)
  rw [aStmtBody_let hAt0]
  unfold aLet
  obtain ⟨c1, h1⟩ := Stmt3L.next_ex hAt1
  rw [bind_ok h1]
  dsimp only
  have hAt2 := at_mv1 hAt1 c1
  unfold aAssignment
  rw [bind_ok (prevLoc_eq (ln := ln) (i := (pre ++ [Token.kw Kw.Let]).length)
    (show (mv (mv σ 1 (σ.reads + 1)) 1 c1).loc.line = some ln from hl)
    (by rw [hAt2.2]; simp only [List.length_append, List.length_cons, List.length_nil]))]
  rw [bind_ok (aoptidx_none hAt2 (Stmt3L.head_cons_ne rfl))]
  have hAt3 := at_mv0 hAt2 ((mv (mv σ 1 (σ.reads + 1)) 1 c1).reads + 1)
  obtain ⟨c2, h2⟩ := Stmt3L.expect_ex (k := .Equals) hAt3 rfl
  rw [bind_ok h2]
  have hAt4 := at_mv1 hAt3 c2
  simp only [typeOfS3, typeAs]
  cases hte : typeOf2 sig e with
  | error y =>
    obtain ⟨S', hS'⟩ := aexpr3_err sig e n ln _ _ rest hAt4 hl hS hd hn hE hres hte
    exact ⟨S', bind_err hS'⟩
  | ok t =>
    obtain ⟨S5, hS5, hAt5, hc5⟩ := aexpr3_ok sig e n ln _ _ rest hAt4 hl hS hd hn hE hres hte
    rw [bind_ok hS5]
    by_cases ht : VT.ofName x = t
    · subst ht
      simp only [↓reduceIte]
      rw [aAssignValue_ok]
      exact ⟨_, rfl, at_congr (at_lg hAt5 _)
        (by simp only [renderS3, List.append_assoc, List.cons_append, List.nil_append])⟩
    · have ht' : ¬ t = VT.ofName x := fun h => ht h.symm
      simp only [ht', ↓reduceIte]
      exact ⟨_, aAssignValue_err x ln _ _ t ht _⟩

/-! ### PRINT -/

theorem aprintLoop3_run (sig : Sig) (n ln : Nat) (rest : List (Token F)) (hE : StmtEnd rest)
    (items : List (PItem3 F)) :
    ∀ (k : Nat) (S : St F) (pre : List (Token F)),
      At S pre (renderItems3 items ++ rest) → S.loc.line = some ln → sigOf S.fns = sig →
      aitemsDepth items ≤ n → S.nesting + aitemsDepth items ≤ Extracted.nestingLimit →
      separated3 items = true → ResolvedItems2 sig items → (renderItems3 items).length < k →
      AOut (aPrintLoop (aEvalN n) k S) (typeItems3 sig items) pre (renderItems3 items) rest := by
  induction items with
  | nil =>
    intro k S pre hAt _ _ _ _ _ _ hk
    obtain ⟨k', rfl⟩ : ∃ k', k = k' + 1 := ⟨k - 1, by omega⟩
    have hAt' : At S pre rest := hAt
    exact ⟨_, aPrintLoop_stop hAt' hE, by simpa only [renderItems3, List.append_nil] using at_mv0 hAt' _⟩
  | cons i r ih =>
    intro k S pre hAt hl hS hd hn hsep hres hk
    obtain ⟨k', rfl⟩ : ∃ k', k = k' + 1 := ⟨k - 1, by omega⟩
    have hsep' := Stmt3L.sep3_tail i r hsep
    cases i with
    | semi =>
      have hAt0 : At S pre (.kw .Semicolon :: (renderItems3 r ++ rest)) := hAt
      have hlen : (renderItems3 (PItem3.semi :: r)).length = 1 + (renderItems3 r).length := by
        simp only [renderItems3, PItem3.render, List.length_append, List.length_cons, List.length_nil]
      simp only [aitemsDepth] at hd hn
      simp only [ResolvedItems2] at hres
      have hI := ih k' (mv S 1 (S.reads + 1 + 1)) _ (at_mv1 hAt0 _) hl hS hd hn hsep' hres (by omega)
      rw [aPrintLoop_semi hAt0]
      simp only [typeItems3]
      exact aout_shift hI
    | comma =>
      have hAt0 : At S pre (.kw .Comma :: (renderItems3 r ++ rest)) := hAt
      have hlen : (renderItems3 (PItem3.comma :: r)).length = 1 + (renderItems3 r).length := by
        simp only [renderItems3, PItem3.render, List.length_append, List.length_cons, List.length_nil]
      simp only [aitemsDepth] at hd hn
      simp only [ResolvedItems2] at hres
      have hI := ih k' (mv S 1 (S.reads + 1 + 1)) _ (at_mv1 hAt0 _) hl hS hd hn hsep' hres (by omega)
      rw [aPrintLoop_comma hAt0]
      simp only [typeItems3]
      exact aout_shift hI
    | expr e =>
      have hAt0 : At S pre (render2 e ++ (renderItems3 r ++ rest)) := by
        simpa only [renderItems3, PItem3.render, List.append_assoc] using hAt
      have hlen : (renderItems3 (PItem3.expr e :: r)).length = (render2 e).length + (renderItems3 r).length := by
        simp only [renderItems3, PItem3.render, List.length_append]
      simp only [aitemsDepth] at hd hn
      simp only [ResolvedItems2] at hres
      obtain ⟨t, ts, hts, hpl⟩ := Prog3L.render2_head_plain e
      have hAt1 : At S pre (t :: (ts ++ (renderItems3 r ++ rest))) := by rw [hts] at hAt0; exact hAt0
      rw [aPrintLoop_expr hAt1 hpl]
      simp only [typeItems3, typeAny]
      have hEe := Stmt3L.sep3_follow e r rest hsep hE
      cases hev : typeOf2 sig e with
      | error x =>
        obtain ⟨S', hS'⟩ := aexpr3_err sig e n ln (mv S 0 (S.reads + 1)) pre _ (at_mv0 hAt0 _) hl hS
          (by omega) (by show S.nesting + _ ≤ _; omega) hEe hres.1 hev
        exact ⟨S', bind_err hS'⟩
      | ok v =>
        obtain ⟨S1, hS1, hAt2, hc⟩ := aexpr3_ok sig e n ln (mv S 0 (S.reads + 1)) pre _ (at_mv0 hAt0 _) hl hS
          (by omega) (by show S.nesting + _ ≤ _; omega) hEe hres.1 hev
        rw [bind_ok hS1]
        have hI := ih k' S1 _ hAt2 (hc.ln hl) (hc.sig hS) (by omega)
          (by rw [hc.nesting]; show S.nesting + _ ≤ _; omega) hsep' hres.2
          (by have := Prog3L.render2_pos e; omega)
        exact aout_shift hI

theorem aprint3_run (sig : Sig) (items : List (PItem3 F)) (n ln : Nat) (σ : St F) (pre rest : List (Token F))
    (le : Nat → Bool)
    (hAt : At σ pre (renderS3 (.printS items) ++ rest)) (hl : σ.loc.line = some ln) (hS : sigOf σ.fns = sig)
    (hd : aitemsDepth items ≤ n) (hn : σ.nesting + aitemsDepth items ≤ Extracted.nestingLimit)
    (hsep : separated3 items = true) (hE : StmtEnd rest) (hres : ResolvedItems2 sig items) :
    AOut (aStmtBody (aEvalN n) σ) (typeOfS3 sig le (.printS items)) pre (renderS3 (.printS items)) rest := by
  have hAt0 : At σ pre (.kw .Print :: (renderItems3 items ++ rest)) := by
    simpa only [renderS3, List.cons_append] using hAt
  have hAt1 := at_mv1 hAt0 (σ.reads + 1)
  have hL := aprintLoop3_run sig n ln rest hE items
    ((pre ++ [Token.kw Kw.Print] ++ (renderItems3 items ++ rest)).length + 1)
    (mv σ 1 (σ.reads + 1)) _ hAt1 hl hS hd hn hsep hres
    (by simp only [List.length_append]; omega)
  rw [aStmtBody_print hAt0, bind_ok (lineBudget_eq hAt1.1)]
  simp only [typeOfS3]
  exact aout_congr (aout_shift hL) (by simp only [renderS3, List.cons_append, List.nil_append])

/-! ### GOTO, GOSUB, END, RETURN, DATA, RESTORE, NEXT -/

theorem agoto3_run (m n : Nat) (σ : St F) (pre rest : List (Token F)) (sig : Sig)
    (hAt : At σ pre (renderS3 (.gotoS m : RStmt3 F) ++ rest))
    (hround : NumOps.toU64 (NumOps.ofNat m : F) = m) :
    AOut (aStmtBody (aEvalN n) σ) (typeOfS3 sig σ.lines.has (.gotoS m : RStmt3 F)) pre
      (renderS3 (.gotoS m : RStmt3 F)) rest := by
  have hAt0 : At σ pre (.kw .Goto :: .num (NumOps.ofNat m) :: rest) := by
    simpa only [renderS3, List.cons_append, List.nil_append] using hAt
  have hAt1 := at_mv1 hAt0 (σ.reads + 1)
  rw [aStmtBody_goto hAt0, aGotoOrGosub_eq hAt1, hround]
  have hl : (mv σ 1 (σ.reads + 1)).lines = σ.lines := rfl
  rw [hl]
  simp only [typeOfS3, lineOK]
  cases hh : σ.lines.has m with
  | true =>
    simp only [↓reduceIte]
    exact ⟨_, rfl, at_congr (at_mv1 hAt1 _) (by simp [renderS3])⟩
  | false =>
    simp only [Bool.false_eq_true, ↓reduceIte]
    exact ⟨_, rfl⟩

theorem agosub3_run (m n : Nat) (σ : St F) (pre rest : List (Token F)) (sig : Sig)
    (hAt : At σ pre (renderS3 (.gosubS m : RStmt3 F) ++ rest))
    (hround : NumOps.toU64 (NumOps.ofNat m : F) = m) :
    AOut (aStmtBody (aEvalN n) σ) (typeOfS3 sig σ.lines.has (.gosubS m : RStmt3 F)) pre
      (renderS3 (.gosubS m : RStmt3 F)) rest := by
  have hAt0 : At σ pre (.kw .Gosub :: .num (NumOps.ofNat m) :: rest) := by
    simpa only [renderS3, List.cons_append, List.nil_append] using hAt
  have hAt1 := at_mv1 hAt0 (σ.reads + 1)
  rw [aStmtBody_gosub hAt0, aGotoOrGosub_eq hAt1, hround]
  have hl : (mv σ 1 (σ.reads + 1)).lines = σ.lines := rfl
  rw [hl]
  simp only [typeOfS3, lineOK]
  cases hh : σ.lines.has m with
  | true =>
    simp only [↓reduceIte]
    exact ⟨_, rfl, at_congr (at_mv1 hAt1 _) (by simp [renderS3])⟩
  | false =>
    simp only [Bool.false_eq_true, ↓reduceIte]
    exact ⟨_, rfl⟩

theorem aend3_run (n : Nat) (σ : St F) (pre rest : List (Token F)) (sig : Sig) (le : Nat → Bool)
    (hAt : At σ pre (renderS3 (.endS : RStmt3 F) ++ rest)) :
    AOut (aStmtBody (aEvalN n) σ) (typeOfS3 sig le (.endS : RStmt3 F)) pre (renderS3 (.endS : RStmt3 F)) rest := by
  have hAt0 : At σ pre (.kw .End :: rest) := by
    simpa only [renderS3, List.cons_append, List.nil_append] using hAt
  simp only [typeOfS3]
  exact ⟨_, aStmtBody_end hAt0, at_congr (at_mv1 hAt0 _) (by simp [renderS3])⟩

theorem areturn3_run (n : Nat) (σ : St F) (pre rest : List (Token F)) (sig : Sig) (le : Nat → Bool)
    (hAt : At σ pre (renderS3 (.returnS : RStmt3 F) ++ rest)) :
    AOut (aStmtBody (aEvalN n) σ) (typeOfS3 sig le (.returnS : RStmt3 F)) pre (renderS3 (.returnS : RStmt3 F))
      rest := by
  have hAt0 : At σ pre (.kw .Return :: rest) := by
    simpa only [renderS3, List.cons_append, List.nil_append] using hAt
  simp only [typeOfS3]
  exact ⟨_, aStmtBody_return hAt0, at_congr (at_mv1 hAt0 _) (by simp [renderS3])⟩

theorem adata3_run (items : List (DataElement F)) (n : Nat) (σ : St F) (pre rest : List (Token F)) (sig : Sig)
    (le : Nat → Bool) (hAt : At σ pre (renderS3 (.dataS items : RStmt3 F) ++ rest)) :
    AOut (aStmtBody (aEvalN n) σ) (typeOfS3 sig le (.dataS items : RStmt3 F)) pre
      (renderS3 (.dataS items : RStmt3 F)) rest := by
  have hAt0 : At σ pre (.data items :: rest) := by
    simpa only [renderS3, List.cons_append, List.nil_append] using hAt
  simp only [typeOfS3]
  exact ⟨_, aStmtBody_data hAt0, at_congr (at_mv1 hAt0 _) (by simp [renderS3])⟩

theorem arestore3_run (n : Nat) (σ : St F) (pre rest : List (Token F)) (sig : Sig) (le : Nat → Bool)
    (hAt : At σ pre (renderS3 (.restoreS : RStmt3 F) ++ rest)) :
    AOut (aStmtBody (aEvalN n) σ) (typeOfS3 sig le (.restoreS : RStmt3 F)) pre
      (renderS3 (.restoreS : RStmt3 F)) rest := by
  have hAt0 : At σ pre (.kw .Restore :: rest) := by
    simpa only [renderS3, List.cons_append, List.nil_append] using hAt
  have h1 := at_mv1 hAt0 (σ.reads + 1)
  simp only [typeOfS3]
  exact ⟨_, aStmtBody_restore hAt0, at_congr ⟨h1.1, h1.2⟩ (by simp [renderS3])⟩

theorem anext3_run (v : Str) (n ln : Nat) (σ : St F) (pre rest : List (Token F)) (sig : Sig) (le : Nat → Bool)
    (hAt : At σ pre (renderS3 (.nextS v : RStmt3 F) ++ rest)) (hl : σ.loc.line = some ln) :
    AOut (aStmtBody (aEvalN n) σ) (typeOfS3 sig le (.nextS v : RStmt3 F)) pre (renderS3 (.nextS v : RStmt3 F))
      rest := by
  have hAt0 : At σ pre (.kw .Next :: .symbol v :: rest) := by
    simpa only [renderS3, List.cons_append, List.nil_append] using hAt
  have hAt1 := at_mv1 hAt0 (σ.reads + 1)
  have hAt2 := at_mv1 hAt1 ((mv σ 1 (σ.reads + 1)).reads + 1)
  rw [aStmtBody_next hAt0]
  unfold aNext
  rw [bind_ok (next_eq hAt1)]
  dsimp only
  have hl2 : (mv (mv σ 1 (σ.reads + 1)) 1 ((mv σ 1 (σ.reads + 1)).reads + 1)).loc.line = some ln := hl
  rw [bind_ok (prevLoc_eq (ln := ln) (i := (pre ++ [Token.kw Kw.Next]).length) hl2
    (by rw [hAt2.2]; simp only [List.length_append, List.length_cons, List.length_nil]))]
  rw [bind_ok (logAccess_eq _ _ _ _ _)]
  simp only [typeOfS3]
  cases hv : VT.ofName v with
  | num =>
    rw [bind_ok (checkNumber_num _)]
    simp only [↓reduceIte]
    exact ⟨_, rfl, at_congr (at_lg hAt2 _) (by simp [renderS3])⟩
  | str =>
    rw [bind_err (checkNumber_str _)]
    simp only [reduceCtorEq, ↓reduceIte]
    exact ⟨_, rfl⟩

/-! ### FOR -/

/-- the optional STEP of a FOR, as tokens -/
def stepToks2 : Option (Expr2 F) → List (Token F)
  | none => []
  | some c => .kw .Step :: render2 c

theorem renderS3_for (v : Str) (a b : Expr2 F) (c : Option (Expr2 F)) :
    renderS3 (.forS v a b c) =
      .kw .For :: .symbol v :: .kw .Equals :: (render2 a ++ .kw .To :: (render2 b ++ stepToks2 c)) := by
  cases c <;> simp [renderS3, stepToks2]

theorem afor3_run (sig : Sig) (v : Str) (a b : Expr2 F) (c : Option (Expr2 F)) (n ln : Nat) (σ : St F)
    (pre rest : List (Token F)) (le : Nat → Bool)
    (hAt : At σ pre (renderS3 (.forS v a b c) ++ rest)) (hl : σ.loc.line = some ln) (hS : sigOf σ.fns = sig)
    (hd : asdepth (.forS v a b c) ≤ n) (hn : σ.nesting + asdepth (.forS v a b c) ≤ Extracted.nestingLimit)
    (hE : StmtEnd rest) (hres : ResolvedS2 sig (.forS v a b c)) :
    AOut (aStmtBody (aEvalN n) σ) (typeOfS3 sig le (.forS v a b c)) pre (renderS3 (.forS v a b c)) rest := by
  have hdep : adepth a + 1 ≤ n ∧ σ.nesting + (adepth a + 1) ≤ Extracted.nestingLimit ∧
      adepth b + 1 ≤ n ∧ σ.nesting + (adepth b + 1) ≤ Extracted.nestingLimit ∧
      Resolved2 sig a ∧ Resolved2 sig b ∧
      ∀ e, c = some e → adepth e + 1 ≤ n ∧ σ.nesting + (adepth e + 1) ≤ Extracted.nestingLimit ∧
        Resolved2 sig e := by
    cases c with
    | none =>
      simp only [asdepth] at hd hn
      simp only [ResolvedS2] at hres
      exact ⟨by omega, by omega, by omega, by omega, hres.1, hres.2, fun e he => by cases he⟩
    | some c =>
      simp only [asdepth] at hd hn
      simp only [ResolvedS2] at hres
      refine ⟨by omega, by omega, by omega, by omega, hres.1, hres.2.1, fun e he => ?_⟩
      cases he
      exact ⟨by omega, by omega, hres.2.2⟩
  obtain ⟨hda, hna, hdb, hnb, hra, hrb, hdc⟩ := hdep
  rw [renderS3_for] at hAt ⊢
  have hAt0 : At σ pre (.kw .For :: .symbol v :: .kw .Equals ::
      (render2 a ++ (.kw .To :: (render2 b ++ (stepToks2 c ++ rest))))) := by
    simpa only [List.cons_append, List.append_assoc] using hAt
  have hAt1 := at_mv1 hAt0 (σ.reads + 1)
  have hAt2 := at_mv1 hAt1 ((mv σ 1 (σ.reads + 1)).reads + 1)
  rw [aStmtBody_for hAt0]
  unfold aFor
  rw [bind_ok (next_eq hAt1)]
  dsimp only
  have hl2 : (mv (mv σ 1 (σ.reads + 1)) 1 ((mv σ 1 (σ.reads + 1)).reads + 1)).loc.line = some ln := hl
  rw [bind_ok (prevLoc_eq (ln := ln) (i := (pre ++ [Token.kw Kw.For]).length) hl2
    (by rw [hAt2.2]; simp only [List.length_append, List.length_cons, List.length_nil]))]
  rw [bind_ok (logAccess_eq _ _ _ _ _)]
  simp only [typeOfS3]
  cases hv : VT.ofName v with
  | str =>
    rw [bind_err (checkNumber_str _)]
    simp only [reduceCtorEq, ↓reduceIte]
    exact ⟨_, rfl⟩
  | num =>
    rw [bind_ok (checkNumber_num _)]
    simp only [↓reduceIte]
    have hAt3 := at_lg hAt2 [(v, ln, (pre ++ [Token.kw Kw.For]).length, Access.write)]
    obtain ⟨c3, h3⟩ := Stmt3L.expect_ex (k := .Equals) hAt3 rfl
    rw [bind_ok h3]
    have hAt4 := at_mv1 hAt3 c3
    cases hta : typeAs sig .num a with
    | error x =>
      exact bind_num_bad' (anum3_err sig a n ln _ _ _ hAt4 hl hS hda hna (Stmt2L.ends_to 6 _) hra hta)
    | ok u =>
      obtain ⟨S5, hS5, hAt5, hc5⟩ := anum3_ok sig a n ln _ _ _ hAt4 hl hS hda hna (Stmt2L.ends_to 6 _) hra hta
      rw [bind_num_ok hS5]
      obtain ⟨c6, h6⟩ := Stmt3L.expect_ex (k := .To) hAt5 rfl
      rw [bind_ok h6]
      have hAt6 := at_mv1 hAt5 c6
      have hEb : Ends 6 (stepToks2 c ++ rest) := by
        cases c with
        | none => exact ends_of_stmtEnd hE 6
        | some c => exact Stmt2L.ends_step 6 _
      have hn5 : S5.nesting = σ.nesting := hc5.nesting
      have hl5 : S5.loc.line = some ln := hc5.ln hl
      have hS5' : sigOf S5.fns = sig := hc5.sig hS
      cases htb : typeAs sig .num b with
      | error x =>
        exact bind_num_bad' (anum3_err sig b n ln _ _ _ hAt6 hl5 hS5' hdb
          (by show S5.nesting + _ ≤ _; rw [hn5]; exact hnb) hEb hrb htb)
      | ok u =>
        obtain ⟨S7, hS7, hAt7, hc7⟩ := anum3_ok sig b n ln _ _ _ hAt6 hl5 hS5' hdb
          (by show S5.nesting + _ ≤ _; rw [hn5]; exact hnb) hEb hrb htb
        rw [bind_num_ok hS7]
        have hn7 : S7.nesting = σ.nesting := hc7.nesting.trans hn5
        have hl7 : S7.loc.line = some ln := hc7.ln hl5
        have hS7' : sigOf S7.fns = sig := hc7.sig hS5'
        cases c with
        | none =>
          have hAt7' : At S7 (pre ++ [Token.kw Kw.For] ++ [Token.symbol v] ++ [Token.kw Kw.Equals] ++ render2 a ++
              [Token.kw Kw.To] ++ render2 b) rest := hAt7
          have hnostep : ∀ t, rest.head? = some t → t.isKw .Step = false := by
            intro t ht
            rcases hE t ht with rfl | rfl <;> rfl
          rw [bind_ok (Stmt2L.accept_end hAt7' hnostep)]
          simp only [Bool.false_eq_true, ↓reduceIte, typeStep2]
          exact ⟨_, rfl, at_congr (at_mv0 hAt7' _) (by simp [stepToks2])⟩
        | some c =>
          have hAt7' : At S7 (pre ++ [Token.kw Kw.For] ++ [Token.symbol v] ++ [Token.kw Kw.Equals] ++ render2 a ++
              [Token.kw Kw.To] ++ render2 b) (.kw .Step :: (render2 c ++ rest)) := hAt7
          rw [bind_ok (accept_true hAt7' rfl)]
          simp only [↓reduceIte, typeStep2]
          have hAt8 := at_mv1 hAt7' (S7.reads + 1)
          obtain ⟨hdc1, hdc2, hrc⟩ := hdc c rfl
          cases htc : typeAs sig .num c with
          | error x =>
            exact bind_num_bad' (anum3_err sig c n ln _ _ _ hAt8 hl7 hS7' hdc1
              (by show S7.nesting + _ ≤ _; rw [hn7]; exact hdc2) (ends_of_stmtEnd hE 6) hrc htc)
          | ok u =>
            obtain ⟨S9, hS9, hAt9, _⟩ := anum3_ok sig c n ln _ _ _ hAt8 hl7 hS7' hdc1
              (by show S7.nesting + _ ≤ _; rw [hn7]; exact hdc2) (ends_of_stmtEnd hE 6) hrc htc
            rw [bind_num_ok hS9]
            exact ⟨_, rfl, at_congr hAt9 (by simp [stepToks2])⟩

/-! ### DIM, `LET a(i…) = e` -/

theorem adim3_run (sig : Sig) (name : Str) (dims : List (Expr2 F)) (n ln : Nat) (σ : St F)
    (pre rest : List (Token F)) (le : Nat → Bool)
    (hAt : At σ pre (renderS3 (.dimS name dims) ++ rest)) (hl : σ.loc.line = some ln) (hS : sigOf σ.fns = sig)
    (hd : adepthArgs dims ≤ n) (hn : σ.nesting + adepthArgs dims ≤ Extracted.nestingLimit)
    (hres : Resolved2L sig dims) :
    AOut (aStmtBody (aEvalN n) σ) (typeOfS3 sig le (.dimS name dims)) pre (renderS3 (.dimS name dims)) rest := by
  have hAt0 : At σ pre (.kw .Dim :: .symbol name :: .kw .LeftParen ::
      (renderArgs dims ++ .kw .RightParen :: rest)) := by
    simpa only [renderS3, List.cons_append, List.append_assoc, List.nil_append] using hAt
  have hAt1 := at_mv1 hAt0 (σ.reads + 1)
  rw [aStmtBody_dim hAt0]
  have hI := aparse3_idx sig name dims n ln _ _ rest hAt1 hl hS hd hn hres
  simp only [typeOfS3]
  cases hty : typeIdx sig dims with
  | error x =>
    rw [hty] at hI
    obtain ⟨S', hS'⟩ := hI
    exact ⟨S', bind_err hS'⟩
  | ok u =>
    rw [hty] at hI
    obtain ⟨S', hS', hAt', _⟩ := hI
    rw [bind_ok hS']
    refine ⟨_, logAccess_eq _ _ _ _ _, at_congr (at_lg hAt' _) ?_⟩
    simp only [renderS3, List.append_assoc, List.cons_append, List.nil_append]

theorem aletcell3_run (sig : Sig) (name : Str) (idx : List (Expr2 F)) (e : Expr2 F) (n ln : Nat) (σ : St F)
    (pre rest : List (Token F)) (le : Nat → Bool)
    (hAt : At σ pre (renderS3 (.letCellS name idx e) ++ rest)) (hl : σ.loc.line = some ln)
    (hS : sigOf σ.fns = sig)
    (hd : max (adepthArgs idx) (adepth e + 1) ≤ n)
    (hn : σ.nesting + max (adepthArgs idx) (adepth e + 1) ≤ Extracted.nestingLimit) (hE : Ends 6 rest)
    (hres : Resolved2L sig idx ∧ Resolved2 sig e) :
    AOut (aStmtBody (aEvalN n) σ) (typeOfS3 sig le (.letCellS name idx e)) pre
      (renderS3 (.letCellS name idx e)) rest := by
  have hAt0 : At σ pre (.kw .Let :: .symbol name :: .kw .LeftParen ::
      (renderArgs idx ++ .kw .RightParen :: (.kw .Equals :: (render2 e ++ rest)))) := by
    simpa only [renderS3, List.cons_append, List.append_assoc, List.nil_append] using hAt
  have hAt1 := at_mv1 hAt0 (σ.reads + 1)
  have hAt2 := at_mv1 hAt1 ((mv σ 1 (σ.reads + 1)).reads + 1)
  have hl2 : (mv (mv σ 1 (σ.reads + 1)) 1 ((mv σ 1 (σ.reads + 1)).reads + 1)).loc.line = some ln := hl
  rw [aStmtBody_let hAt0]
  unfold aLet
  rw [bind_ok (next_eq hAt1)]
  dsimp only
  unfold aAssignment
  rw [bind_ok (prevLoc_eq (ln := ln) (i := (pre ++ [Token.kw Kw.Let]).length) hl2
    (by rw [hAt2.2]; simp only [List.length_append, List.length_cons, List.length_nil]))]
  have hI := aoptidx3_run sig idx n ln _ _ _ hAt2 hl2 hS (by omega) (by show σ.nesting + _ ≤ _; omega) hres.1
  simp only [typeOfS3]
  cases hty : typeIdx sig idx with
  | error x =>
    rw [hty] at hI
    obtain ⟨S', hS'⟩ := hI
    exact ⟨S', bind_err hS'⟩
  | ok u =>
    rw [hty] at hI
    obtain ⟨S3, hS3, hAt3, hc3⟩ := hI
    rw [bind_ok hS3]
    obtain ⟨c4, h4⟩ := Stmt3L.expect_ex (k := .Equals) hAt3 rfl
    rw [bind_ok h4]
    have hAt4 := at_mv1 hAt3 c4
    have hn3 : S3.nesting = σ.nesting := hc3.nesting
    have hl3 : S3.loc.line = some ln := hc3.ln hl
    have hS3' : sigOf S3.fns = sig := hc3.sig hS
    simp only [typeAs]
    cases hte : typeOf2 sig e with
    | error y =>
      obtain ⟨S', hS'⟩ := aexpr3_err sig e n ln _ _ rest hAt4 hl3 hS3' (by omega)
        (by show S3.nesting + _ ≤ _; rw [hn3]; omega) hE hres.2 hte
      exact ⟨S', bind_err hS'⟩
    | ok t =>
      obtain ⟨S5, hS5, hAt5, _⟩ := aexpr3_ok sig e n ln _ _ rest hAt4 hl3 hS3' (by omega)
        (by show S3.nesting + _ ≤ _; rw [hn3]; omega) hE hres.2 hte
      rw [bind_ok hS5]
      by_cases ht : VT.ofName name = t
      · subst ht
        simp only [↓reduceIte]
        rw [aAssignValue_ok]
        refine ⟨_, rfl, at_congr (at_lg hAt5 _) ?_⟩
        simp only [renderS3, List.append_assoc, List.cons_append, List.nil_append]
      · have ht' : ¬ t = VT.ofName name := fun h => ht h.symm
        simp only [ht', ↓reduceIte]
        exact ⟨_, aAssignValue_err name ln _ _ t ht _⟩

/-! ### READ -/

theorem rtargets_len : ∀ (ts : List (RTarget F)), ts.length ≤ (renderRTargets ts).length
  | [] => Nat.le_refl _
  | [t] => by
    cases t with
    | scalar x => simp [renderRTargets, RTarget.toks]
    | cell name idx => simp [renderRTargets, RTarget.toks, cellToks]
  | t :: t2 :: r => by
    have ih := rtargets_len (t2 :: r)
    simp only [renderRTargets, List.length_cons, List.length_append] at ih ⊢
    omega

/-- one target of a READ: the l-value, then the (always accepted) assignment of a value of the kind of the name -/
theorem areadTarget3 (sig : Sig) (f ln : Nat) (t : RTarget F) (S : St F) (pre post : List (Token F))
    (hAt : At S pre (t.toks ++ post)) (hl : S.loc.line = some ln) (hS : sigOf S.fns = sig)
    (hpost : ∀ x, post.head? = some x → x.isKw .LeftParen = false)
    (hd : atargetsDepth [t] ≤ f) (hn : S.nesting + atargetsDepth [t] ≤ Extracted.nestingLimit)
    (hres : ResolvedTargets2 sig [t]) :
    match typeTargets sig [t] with
    | .ok _ => ∃ S', (∀ {β : Type} (K : Unit → M F β),
          (aParseLValue (aEvalN f) >>= fun lv => aAssignValue lv (VT.ofName lv.name) >>= K) S = K () S') ∧
        At S' (pre ++ t.toks) post ∧ Cur S S'
    | .error x => ∃ S', ∀ {β : Type} (K : Unit → M F β),
        (aParseLValue (aEvalN f) >>= fun lv => aAssignValue lv (VT.ofName lv.name) >>= K) S =
          .err { err := x } S' := by
  cases t with
  | scalar x =>
    have hAt0 : At S pre (.symbol x :: post) := hAt
    obtain ⟨S1, hS1, hAt1, hl1⟩ := aparse_plain (aEvalN f) x ln S pre post hAt0 hl hpost
    have hc1 : Cur S S1 := by
      have hfn := (AFns.keeps_aParseLValue (aEvalN f) (AFns.keeps_expr f)).h S
      have hfr := (AFrame.keeps_aParseLValue (aEvalN f) (AFrame.keeps_aEvalN f).1).h S
      rw [hS1] at hfn hfr
      exact ⟨hl1.trans hl.symm, (Prod.mk.inj hfr).2, hfn, (Prod.mk.inj hfr).1⟩
    simp only [typeTargets]
    refine ⟨_, fun K => ?_, at_lg hAt1 [(x, ln, pre.length, Access.write)], hc1.lg _⟩
    rw [bind_ok hS1]
    dsimp only
    rw [bind_ok (aAssignValue_ok _ _ _ _ _)]
  | cell name idx =>
    have hAt0 : At S pre (.symbol name :: .kw .LeftParen :: (renderArgs idx ++ .kw .RightParen :: post)) := by
      simpa only [RTarget.toks, cellToks, List.cons_append, List.append_assoc, List.nil_append] using hAt
    simp only [atargetsDepth] at hd hn
    simp only [ResolvedTargets2] at hres
    have hI := aparse3_idx sig name idx f ln S pre post hAt0 hl hS (by omega) (by omega) hres.1
    simp only [typeTargets]
    cases hty : typeIdx sig idx with
    | error x =>
      rw [hty] at hI
      obtain ⟨S', hS'⟩ := hI
      exact ⟨S', fun K => bind_err hS'⟩
    | ok u =>
      rw [hty] at hI
      obtain ⟨S1, hS1, hAt1, hc1⟩ := hI
      refine ⟨_, fun K => ?_, at_congr (at_lg hAt1 [(name, ln, pre.length, Access.write)])
        (by simp only [RTarget.toks, cellToks]), hc1.lg _⟩
      rw [bind_ok hS1]
      dsimp only
      rw [bind_ok (aAssignValue_ok _ _ _ _ _)]

theorem typeTargets_cons (sig : Sig) (t : RTarget F) (ts : List (RTarget F)) :
    typeTargets sig (t :: ts) = (match typeTargets sig [t] with | .error x => .error x | .ok _ => typeTargets sig ts) := by
  cases t with
  | scalar x => simp only [typeTargets]
  | cell name idx =>
    simp only [typeTargets]
    cases typeIdx sig idx <;> rfl

theorem areadLoop3_run (sig : Sig) (f ln : Nat) (rest : List (Token F)) (hE : StmtEnd rest) :
    ∀ (ts : List (RTarget F)), ts ≠ [] → ∀ (k : Nat) (S : St F) (pre : List (Token F)),
      At S pre (renderRTargets ts ++ rest) → S.loc.line = some ln → sigOf S.fns = sig → ts.length ≤ k →
      atargetsDepth ts ≤ f → S.nesting + atargetsDepth ts ≤ Extracted.nestingLimit → ResolvedTargets2 sig ts →
      AOut (aReadLoop (aEvalN f) k S) (typeTargets sig ts) pre (renderRTargets ts) rest
  | [], h, _, _, _, _, _, _, _, _, _, _ => absurd rfl h
  | [t], _, k, S, pre, hAt, hl, hS, hk, hd, hn, hres => by
    obtain ⟨k', rfl⟩ : ∃ k', k = k' + 1 := ⟨k - 1, by simp only [List.length_cons, List.length_nil] at hk; omega⟩
    have hAt0 : At S pre (t.toks ++ rest) := hAt
    have hnp : ∀ x, rest.head? = some x → x.isKw .LeftParen = false := by
      intro x hx
      rcases hE x hx with rfl | rfl <;> rfl
    have hnc : ∀ x, rest.head? = some x → x.isKw .Comma = false := by
      intro x hx
      rcases hE x hx with rfl | rfl <;> rfl
    have hT := areadTarget3 sig f ln t S pre rest hAt0 hl hS hnp hd hn hres
    rw [aReadLoop]
    cases hty : typeTargets sig [t] with
    | error x =>
      rw [hty] at hT
      obtain ⟨S', hS'⟩ := hT
      exact ⟨S', hS' _⟩
    | ok u =>
      rw [hty] at hT
      obtain ⟨S1, hS1, hAt1, _⟩ := hT
      rw [hS1, bind_ok (Stmt2L.accept_end hAt1 hnc)]
      simp only [Bool.false_eq_true, ↓reduceIte]
      exact ⟨_, rfl, at_mv0 hAt1 _⟩
  | t :: t2 :: r, _, k, S, pre, hAt, hl, hS, hk, hd, hn, hres => by
    obtain ⟨k', rfl⟩ : ∃ k', k = k' + 1 := ⟨k - 1, by simp only [List.length_cons] at hk; omega⟩
    have hAt0 : At S pre (t.toks ++ (.kw .Comma :: (renderRTargets (t2 :: r) ++ rest))) := by
      simpa only [renderRTargets, List.append_assoc, List.cons_append] using hAt
    have hd1 : atargetsDepth [t] ≤ f ∧ atargetsDepth (t2 :: r) ≤ f := by
      cases t <;> simp only [atargetsDepth] at hd ⊢ <;> omega
    have hn1 : S.nesting + atargetsDepth [t] ≤ Extracted.nestingLimit ∧
        S.nesting + atargetsDepth (t2 :: r) ≤ Extracted.nestingLimit := by
      cases t <;> simp only [atargetsDepth] at hn ⊢ <;> omega
    have hres1 : ResolvedTargets2 sig [t] ∧ ResolvedTargets2 sig (t2 :: r) := by
      cases t with
      | scalar x => exact ⟨trivial, hres⟩
      | cell name idx => exact ⟨⟨hres.1, trivial⟩, hres.2⟩
    have hT := areadTarget3 sig f ln t S pre _ hAt0 hl hS (Stmt3L.head_cons_ne rfl) hd1.1 hn1.1 hres1.1
    rw [aReadLoop, typeTargets_cons]
    cases hty : typeTargets sig [t] with
    | error x =>
      rw [hty] at hT
      obtain ⟨S', hS'⟩ := hT
      exact ⟨S', hS' _⟩
    | ok u =>
      rw [hty] at hT
      obtain ⟨S1, hS1, hAt1, hc1⟩ := hT
      rw [hS1, bind_ok (accept_true hAt1 rfl)]
      simp only [↓reduceIte]
      have hI := areadLoop3_run sig f ln rest hE (t2 :: r) (by simp) k' (mv S1 1 (S1.reads + 1)) _
        (at_mv1 hAt1 _) (hc1.ln hl)
        (hc1.sig hS) (by simp only [List.length_cons] at hk ⊢; omega) hd1.2
        (by show S1.nesting + _ ≤ _; rw [hc1.nesting]; exact hn1.2) hres1.2
      refine aout_congr (aout_shift (aout_shift hI)) ?_
      simp only [renderRTargets, List.append_assoc, List.cons_append, List.nil_append]

theorem aread3_run (sig : Sig) (ts : List (RTarget F)) (hne : ts ≠ []) (n ln : Nat) (σ : St F)
    (pre rest : List (Token F)) (le : Nat → Bool)
    (hAt : At σ pre (renderS3 (.readS ts : RStmt3 F) ++ rest)) (hl : σ.loc.line = some ln) (hS : sigOf σ.fns = sig)
    (hd : atargetsDepth ts ≤ n) (hn : σ.nesting + atargetsDepth ts ≤ Extracted.nestingLimit)
    (hE : StmtEnd rest) (hres : ResolvedTargets2 sig ts) :
    AOut (aStmtBody (aEvalN n) σ) (typeOfS3 sig le (.readS ts : RStmt3 F)) pre (renderS3 (.readS ts : RStmt3 F))
      rest := by
  have hAt0 : At σ pre (.kw .Read :: (renderRTargets ts ++ rest)) := by
    simpa only [renderS3, List.cons_append] using hAt
  have hAt1 := at_mv1 hAt0 (σ.reads + 1)
  rw [aStmtBody_read hAt0, bind_ok (lineBudget_eq hAt1.1)]
  have hlen : ts.length ≤ (pre ++ [Token.kw Kw.Read] ++ (renderRTargets ts ++ rest)).length + 1 := by
    have := rtargets_len ts
    simp only [List.length_append, List.length_cons]
    omega
  have hL := areadLoop3_run sig n ln rest hE ts hne _ _ _ hAt1 hl hS hlen hd hn hres
  simp only [typeOfS3]
  exact aout_congr (aout_shift hL) (by simp only [renderS3, List.cons_append, List.nil_append])

/-! ### DEF: the function table after the statement, on both paths -/

/-- `aDef` records the function before it looks at the body: whatever the verdict on the body, the table it
    leaves is `fnsAfterDef` -/
theorem adef_fns (f : Str) (ps : List Str) (body : Expr2 F) (hps : ps ≠ []) (n ln i : Nat) (σ : St F)
    (pre rest : List (Token F))
    (hAt : At σ pre (.symbol f :: .kw .LeftParen ::
      (renderTargets ps ++ .kw .RightParen :: .kw .Equals :: (render2 body ++ rest))))
    (hl : σ.loc.line = some ln) (hi : i = pre.length + (renderTargets (F := F) ps).length + 4) :
    (AFns.rst (aDef (aEvalN n) σ)).fns = fnsAfterDef σ.fns f ps ln i := by
  have hAt1 := at_lg (at_mv1 hAt (σ.reads + 1)) [(f, ln, pre.length, Access.write)]
  have hAt2 := at_mv1 hAt1 (σ.reads + 1 + 1)
  have hAt2' : At (mv (lg (mv σ 1 (σ.reads + 1)) [(f, ln, pre.length, Access.write)]) 1 (σ.reads + 1 + 1))
      (pre ++ [Token.symbol f] ++ [Token.kw Kw.LeftParen])
      ((renderTargets ps ++ [.kw .RightParen]) ++ (.kw .Equals :: (render2 body ++ rest))) := by
    simpa only [List.append_assoc, List.cons_append, List.nil_append] using hAt2
  have htl := Stmt3L.targets_length (F := F) ps
  obtain ⟨c, hc⟩ := Stmt3L.defArgsLoop_run ps hps
    ((pre ++ [Token.symbol f] ++ [Token.kw Kw.LeftParen] ++
      (renderTargets ps ++ Token.kw Kw.RightParen :: Token.kw Kw.Equals :: (render2 body ++ rest))).length + 1)
    _ _ _ [] hAt2 (by simp only [List.length_append, List.length_cons]; omega)
  have hAt3 := at_mv hAt2' c
  have hlen : (renderTargets (F := F) ps ++ [Token.kw Kw.RightParen]).length = (renderTargets (F := F) ps).length + 1 := by
    simp only [List.length_append, List.length_cons, List.length_nil]
  rw [hlen] at hAt3
  let σ5 : St F := { mv (mv (mv (lg (mv σ 1 (σ.reads + 1)) [(f, ln, pre.length, Access.write)]) 1 (σ.reads + 1 + 1))
      ((renderTargets (F := F) ps).length + 1) c) 1 (c + 1) with fns := fnsAfterDef σ.fns f ps ln i }
  have hidx : (mv (mv (mv (lg (mv σ 1 (σ.reads + 1)) [(f, ln, pre.length, Access.write)]) 1 (σ.reads + 1 + 1))
      ((renderTargets (F := F) ps).length + 1) c) 1 (c + 1)).loc.idx = i := by
    simp only [mv_idx, lg_idx, hAt.2]; omega
  have hdef : defineFunction f ps (mv (mv (mv (lg (mv σ 1 (σ.reads + 1)) [(f, ln, pre.length, Access.write)]) 1
      (σ.reads + 1 + 1)) ((renderTargets (F := F) ps).length + 1) c) 1 (c + 1)) = .ok () σ5 := by
    unfold defineFunction
    simp only [bind, M.bindM, M.get, mv_line, lg_line, hl, M.set, hidx]
    rfl
  have hrun : aDef (aEvalN n) σ = ((aEvalN n).expr >>= fun t => VT.check (F := F) t (VT.ofName f) >>= fun _ =>
      pure ()) σ5 := by
    unfold aDef
    rw [bind_ok (next_eq hAt)]
    simp only
    rw [bind_ok (prevLoc_eq (ln := ln) (i := pre.length) (by rw [mv_line]; exact hl) (by rw [mv_idx, hAt.2]))]
    rw [bind_ok (logAccess_eq _ _ _ _ _), bind_ok (expect_eq hAt1 rfl)]
    simp only [lg_reads, mv_reads]
    rw [bind_ok (lineBudget_eq hAt2.1), bind_ok hc]
    simp only [List.nil_append]
    rw [bind_ok (expect_eq hAt3 rfl)]
    simp only [mv_reads]
    rw [bind_ok hdef]
  rw [hrun]
  have hk : AFns.Keeps ((aEvalN n).expr >>= fun t => VT.check (F := F) t (VT.ofName f) >>= fun _ =>
      (pure () : M F Unit)) :=
    AFns.Keeps.bind (AFns.keeps_expr n) (fun t => AFns.Keeps.bind (AFns.keeps_check _ _) (fun _ => AFns.Keeps.pure _))
  exact hk.h σ5

theorem adef_stmt_fns (f : Str) (ps : List Str) (body : Expr2 F) (hps : ps ≠ []) (n ln : Nat)
    (σ : St F) (pre rest : List (Token F))
    (hAt : At σ pre (renderS3 (.defS f ps body) ++ rest)) (hl : σ.loc.line = some ln) :
    sigOf (AFns.rst (aStmtBody (aEvalN n) σ)).fns = sigAfterS (sigOf σ.fns) (.defS f ps body : RStmt3 F) := by
  have hAt0 : At σ pre (.kw .Def :: (.symbol f :: .kw .LeftParen ::
      (renderTargets ps ++ .kw .RightParen :: .kw .Equals :: (render2 body ++ rest)))) := by
    simpa only [renderS3, List.cons_append, List.append_assoc] using hAt
  have hAt1 := at_mv1 hAt0 (σ.reads + 1)
  rw [aStmtBody_def hAt0, adef_fns f ps body hps n ln _ (mv σ 1 (σ.reads + 1)) _ rest hAt1 hl rfl]
  exact (defCheck_eq_typeOfS3 σ.fns f ps body ln _ (fun _ => true)).2

/-! ### statements other than DEF and IF leave the function table alone, on both paths -/

theorem astmt3_fns_simple (s : RStmt3 F) (n : Nat) (σ : St F) (pre rest : List (Token F))
    (hAt : At σ pre (renderS3 s ++ rest)) (hsimple : s.simple = true) (hnd : defFree s = true)
    (hnl : s.isLine = false) :
    (AFns.rst (aStmtBody (aEvalN n) σ)).fns = σ.fns := by
  have he := AFns.keeps_expr (F := F) n
  cases s with
  | ifS c t e => cases hsimple
  | defS f ps body => simp [defFree] at hnd
  | lineS m => cases hnl
  | letS x e =>
    have hAt0 : At σ pre (.kw .Let :: (.symbol x :: .kw .Equals :: (render2 e ++ rest))) := by
      simpa only [renderS3, List.cons_append] using hAt
    rw [aStmtBody_let hAt0]
    exact (AFns.keeps_aLet _ he).h _
  | letCellS name idx e =>
    have hAt0 : At σ pre (.kw .Let :: (.symbol name :: .kw .LeftParen ::
        (renderArgs idx ++ .kw .RightParen :: (.kw .Equals :: (render2 e ++ rest))))) := by
      simpa only [renderS3, List.cons_append, List.append_assoc, List.nil_append] using hAt
    rw [aStmtBody_let hAt0]
    exact (AFns.keeps_aLet _ he).h _
  | printS items =>
    have hAt0 : At σ pre (.kw .Print :: (renderItems3 items ++ rest)) := by
      simpa only [renderS3, List.cons_append] using hAt
    rw [aStmtBody_print hAt0]
    exact (AFns.Keeps.bind AFns.keeps_lineBudget (fun b => AFns.keeps_aPrintLoop _ he b)).h _
  | gotoS m =>
    have hAt0 : At σ pre (.kw .Goto :: (.num (NumOps.ofNat m) :: rest)) := by
      simpa only [renderS3, List.cons_append, List.nil_append] using hAt
    rw [aStmtBody_goto hAt0]
    exact AFns.keeps_aGotoOrGosub.h _
  | gosubS m =>
    have hAt0 : At σ pre (.kw .Gosub :: (.num (NumOps.ofNat m) :: rest)) := by
      simpa only [renderS3, List.cons_append, List.nil_append] using hAt
    rw [aStmtBody_gosub hAt0]
    exact AFns.keeps_aGotoOrGosub.h _
  | endS =>
    have hAt0 : At σ pre (.kw .End :: rest) := by
      simpa only [renderS3, List.cons_append, List.nil_append] using hAt
    rw [aStmtBody_end hAt0]; rfl
  | returnS =>
    have hAt0 : At σ pre (.kw .Return :: rest) := by
      simpa only [renderS3, List.cons_append, List.nil_append] using hAt
    rw [aStmtBody_return hAt0]; rfl
  | dataS items =>
    have hAt0 : At σ pre (.data items :: rest) := by
      simpa only [renderS3, List.cons_append, List.nil_append] using hAt
    rw [aStmtBody_data hAt0]; rfl
  | restoreS =>
    have hAt0 : At σ pre (.kw .Restore :: rest) := by
      simpa only [renderS3, List.cons_append, List.nil_append] using hAt
    rw [aStmtBody_restore hAt0]; rfl
  | nextS v =>
    have hAt0 : At σ pre (.kw .Next :: (.symbol v :: rest)) := by
      simpa only [renderS3, List.cons_append, List.nil_append] using hAt
    rw [aStmtBody_next hAt0]
    exact AFns.keeps_aNext.h _
  | forS v a b c =>
    rw [renderS3_for] at hAt
    have hAt0 : At σ pre (.kw .For :: (.symbol v :: .kw .Equals ::
        (render2 a ++ .kw .To :: (render2 b ++ stepToks2 c)) ++ rest)) := hAt
    rw [aStmtBody_for hAt0]
    exact (AFns.keeps_aFor _ he).h _
  | readS ts =>
    have hAt0 : At σ pre (.kw .Read :: (renderRTargets ts ++ rest)) := by
      simpa only [renderS3, List.cons_append] using hAt
    rw [aStmtBody_read hAt0]
    exact (AFns.Keeps.bind AFns.keeps_lineBudget (fun b => AFns.keeps_aReadLoop _ he b)).h _
  | dimS name dims =>
    have hAt0 : At σ pre (.kw .Dim :: (.symbol name :: .kw .LeftParen ::
        (renderArgs dims ++ .kw .RightParen :: rest))) := by
      simpa only [renderS3, List.cons_append, List.append_assoc, List.nil_append] using hAt
    rw [aStmtBody_dim hAt0]
    exact (AFns.Keeps.bind (AFns.keeps_aParseLValue _ he) (fun lv => AFns.keeps_logAccess _ _ _)).h _

/-! ### the outcome with signatures -/

/-- agreement of a statement-analyzer run with a static verdict, signatures included -/
def AOut3 (res : Res F Unit) (ty : Except Err Unit) (pre toks rest : List (Token F)) (sOk sErr : Sig) : Prop :=
  match ty with
  | .ok _ => ∃ σ', res = .ok () σ' ∧ At σ' (pre ++ toks) rest ∧ sigOf σ'.fns = sOk
  | .error x => ∃ σ', res = .err { err := x } σ' ∧ sigOf σ'.fns = sErr

omit [NumOps F] in
theorem aout3_of {res : Res F Unit} {ty : Except Err Unit} {pre toks rest : List (Token F)} {sig : Sig}
    (h : AOut res ty pre toks rest) (hf : sigOf (AFns.rst res).fns = sig) : AOut3 res ty pre toks rest sig sig := by
  cases ty with
  | ok u =>
    obtain ⟨σ', h1, h2⟩ := h
    rw [h1] at hf
    exact ⟨σ', h1, h2, hf⟩
  | error x =>
    obtain ⟨σ', h1⟩ := h
    rw [h1] at hf
    exact ⟨σ', h1, hf⟩

/-- the statement of `astmt3_run` for one statement and one amount of fuel, from any state -/
def AStmtOK3 (s : RStmt3 F) (n ln : Nat) (le : Nat → Bool) : Prop :=
  ∀ (sig : Sig) (σ : St F) (pre rest : List (Token F)),
    At σ pre (renderS3 s ++ rest) → σ.loc.line = some ln → σ.lines.has = le → sigOf σ.fns = sig →
    σ.nesting + asdepth s ≤ Extracted.nestingLimit → AEnd s rest → ResolvedS2 sig s →
    AOut3 (aStmtBody (aEvalN n) σ) (typeOfS3A le sig s) pre (renderS3 s) rest
      (sigAfterS sig s) (sigFailS le sig s)

/-- the same for a statement in branch position (after THEN / ELSE): a line number or a nested statement -/
def ABranchOK3 (t : RStmt3 F) (n ln : Nat) (le : Nat → Bool) : Prop :=
  ∀ (sig : Sig) (S : St F) (pre rest : List (Token F)),
    At S pre (renderS3 t ++ rest) → S.loc.line = some ln → S.lines.has = le → sigOf S.fns = sig →
    S.nesting + (asdepth t + 1) ≤ Extracted.nestingLimit → AEnd t rest → ResolvedS2 sig t →
    AOut3 (aStatementOrGoto (aEvalN n) S) (typeOfS3A le sig t) pre (renderS3 t) rest
      (sigAfterS sig t) (sigFailS le sig t)

theorem aout3_simple {s : RStmt3 F} {n : Nat} {σ : St F} {pre rest : List (Token F)} {sig : Sig} {le : Nat → Bool}
    (hAt : At σ pre (renderS3 s ++ rest)) (hS : sigOf σ.fns = sig)
    (h : AOut (aStmtBody (aEvalN n) σ) (typeOfS3 sig le s) pre (renderS3 s) rest)
    (hsimple : s.simple = true) (hnd : defFree s = true) (hnl : s.isLine = false) :
    AOut3 (aStmtBody (aEvalN n) σ) (typeOfS3 sig le s) pre (renderS3 s) rest sig sig :=
  aout3_of h (by rw [astmt3_fns_simple s n σ pre rest hAt hsimple hnd hnl]; exact hS)

/-! ### DEF -/

theorem adef3_run (sig : Sig) (f : Str) (ps : List Str) (body : Expr2 F) (hps : ps ≠ []) (n ln : Nat)
    (le : Nat → Bool) (σ : St F) (pre rest : List (Token F))
    (hAt : At σ pre (renderS3 (.defS f ps body) ++ rest)) (hl : σ.loc.line = some ln) (hS : sigOf σ.fns = sig)
    (hE : Ends 6 rest) (hres : Resolved2 (sigAfterS sig (.defS f ps body : RStmt3 F)) body)
    (hd : adepth body + 1 ≤ n) (hn : σ.nesting + (adepth body + 1) ≤ Extracted.nestingLimit) :
    AOut3 (aStmtBody (aEvalN n) σ) (typeOfS3 sig le (.defS f ps body)) pre (renderS3 (.defS f ps body)) rest
      (sigAfterS sig (.defS f ps body : RStmt3 F)) (sigAfterS sig (.defS f ps body : RStmt3 F)) := by
  subst hS
  have h := adef_stmt_run f ps body hps n ln le σ pre rest hAt hl hE hres hd hn
  have hf := adef_stmt_fns f ps body hps n ln σ pre rest hAt hl
  cases hty : typeOfS3 (sigOf σ.fns) le (.defS f ps body) with
  | error x =>
    rw [hty] at h
    obtain ⟨σ', h1, _⟩ := h
    rw [h1] at hf
    exact ⟨σ', h1, hf⟩
  | ok u =>
    rw [hty] at h
    obtain ⟨σ', h1, hsig, hloc, hlines, _, himm⟩ := h
    refine ⟨σ', h1, ⟨?_, ?_⟩, hsig⟩
    · have h0 := hAt.1
      unfold lineToks at h0 ⊢
      rw [hloc, hlines, himm]
      rw [h0, List.append_assoc]
    · rw [hloc]
      simp only [List.length_append]

/-! ### the branch of an IF -/

theorem aStatementOrGoto_other {ev : AEvals F} {σ : St F} {pre post : List (Token F)} {t : Token F}
    (h : At σ pre (t :: post)) (ht : ∀ x, t ≠ .num x) :
    aStatementOrGoto ev σ = nested ev.stmt (mv σ 0 (σ.reads + 1)) := by
  unfold aStatementOrGoto
  rw [bind_ok (peek_eq h)]
  simp only [List.head?_cons]
  cases t with
  | num x => exact absurd rfl (ht x)
  | _ => rfl

theorem aStatementOrGoto_num {ev : AEvals F} {σ : St F} {pre post : List (Token F)} {x : F}
    (h : At σ pre (.num x :: post)) :
    aStatementOrGoto ev σ = aGotoOrGosub (mv σ 0 (σ.reads + 1)) := by
  unfold aStatementOrGoto
  rw [bind_ok (peek_eq h)]
  rfl

theorem sog_frames (n : Nat) {S S' : St F} (h : aStatementOrGoto (aEvalN n) S = .ok () S') :
    S'.lines = S.lines ∧ S'.nesting = S.nesting ∧ S'.loc.line = S.loc.line := by
  have h1 := (AFrame.keeps_aStatementOrGoto (aEvalN n) (AFrame.keeps_aEvalN n).1 (AFrame.keeps_aEvalN n).2).h S
  have h2 := (ALine.keeps_aStatementOrGoto (aEvalN n) (ALine.keeps_aEvalN n).1 (ALine.keeps_aEvalN n).2).h S
  rw [h] at h1 h2
  exact ⟨(Prod.mk.inj h1).1, (Prod.mk.inj h1).2, h2⟩

theorem abranch3 (t : RStmt3 F) (n' ln : Nat) (le : Nat → Bool) (hT : t.isLine = false → AStmtOK3 t n' ln le)
    (hcov : t.CoveredB) : ABranchOK3 t (n' + 1) ln le := by
  intro sig S pre rest hAt hl hle hS hn hE hres
  cases hil : t.isLine with
  | true =>
    obtain ⟨m, rfl⟩ : ∃ m, t = .lineS m := by
      cases t <;> first | exact ⟨_, rfl⟩ | cases hil
    have hAt0 : At S pre (.num (NumOps.ofNat m) :: rest) := by
      simpa only [renderS3, List.cons_append, List.nil_append] using hAt
    have hround : NumOps.toU64 (NumOps.ofNat m : F) = m := hcov
    have hAt1 := at_mv0 hAt0 (S.reads + 1)
    rw [aStatementOrGoto_num hAt0, aGotoOrGosub_eq hAt1, hround]
    have hl' : (mv S 0 (S.reads + 1)).lines = S.lines := rfl
    rw [hl', hle]
    simp only [typeOfS3A, typeOfS3, lineOK, sigAfterS, sigFailS]
    cases hh : le m with
    | true =>
      simp only [↓reduceIte]
      exact ⟨_, rfl, at_congr (at_mv1 hAt1 _) (by simp [renderS3]), hS⟩
    | false =>
      simp only [Bool.false_eq_true, ↓reduceIte]
      exact ⟨_, rfl, hS⟩
  | false =>
    obtain ⟨t0, ts, hhead, hnn⟩ := Stmt3L.renderS3_head_nonnum t hil
    have hAt0 : At S pre (t0 :: (ts ++ rest)) := by rw [hhead] at hAt; exact hAt
    rw [aStatementOrGoto_other hAt0 hnn]
    show AOut3 (nested (aStmtBody (aEvalN n')) (mv S 0 (S.reads + 1))) _ _ _ _ _ _
    have hnl : (mv S 0 (S.reads + 1)).nesting < Extracted.nestingLimit := by show S.nesting < _; omega
    have hI := hT hil sig (nest (mv S 0 (S.reads + 1)) ((mv S 0 (S.reads + 1)).nesting + 1)) pre rest
      (at_nest (at_mv0 hAt _) _) hl hle hS (by show S.nesting + 1 + _ ≤ _; omega) hE hres
    have hfr := (AFrame.keeps_stmt (F := F) n').h (nest (mv S 0 (S.reads + 1)) ((mv S 0 (S.reads + 1)).nesting + 1))
    cases hty : typeOfS3A le sig t with
    | ok u =>
      rw [hty] at hI
      obtain ⟨σ', h1, h2, h3⟩ := hI
      rw [h1] at hfr
      exact ⟨_, nested_ok hnl h1 (Prod.mk.inj hfr).2, at_nest h2 _, h3⟩
    | error x =>
      rw [hty] at hI
      obtain ⟨σ', h1, h3⟩ := hI
      rw [h1] at hfr
      exact ⟨_, nested_err hnl h1 (Prod.mk.inj hfr).2, h3⟩

/-! ### IF -/

/-- the condition of an IF (any kind is accepted) and THEN -/
theorem aif3_cond (sig : Sig) (c : Expr2 F) (n ln : Nat) (σ : St F) (pre post : List (Token F))
    (hAt : At σ pre (.kw .If :: (render2 c ++ .kw .Then :: post))) (hl : σ.loc.line = some ln)
    (hS : sigOf σ.fns = sig)
    (hd : adepth c + 1 ≤ n) (hn : σ.nesting + (adepth c + 1) ≤ Extracted.nestingLimit) (hres : Resolved2 sig c) :
    match typeAny sig c with
    | .ok _ => ∃ S, aStmtBody (aEvalN n) σ = aIfRest (aEvalN n) S ∧
        At S (pre ++ [.kw .If] ++ render2 c ++ [.kw .Then]) post ∧ Cur σ S
    | .error x => ∃ σ', aStmtBody (aEvalN n) σ = .err { err := x } σ' ∧ σ'.fns = σ.fns := by
  have hAt1 := at_mv1 hAt (σ.reads + 1)
  rw [aStmtBody_if hAt]
  unfold typeAny
  cases hev : typeOf2 sig c with
  | error x =>
    obtain ⟨S', hS'⟩ := aexpr3_err sig c n ln _ _ _ hAt1 hl hS hd hn (ends_then 6 post) hres hev
    have hfn := (AFns.keeps_expr (F := F) n).h (mv σ 1 (σ.reads + 1))
    rw [hS'] at hfn
    exact ⟨S', by unfold aIf; exact bind_err hS', hfn⟩
  | ok v =>
    obtain ⟨S1, hS1, hAtS1, hc1⟩ := aexpr3_ok sig c n ln _ _ _ hAt1 hl hS hd hn (ends_then 6 post) hres hev
    obtain ⟨c2, h2⟩ := Stmt3L.expect_ex (k := .Then) hAtS1 rfl
    refine ⟨mv S1 1 c2, ?_, at_mv1 hAtS1 c2, ⟨hc1.line, hc1.nesting, hc1.fns, hc1.lines⟩⟩
    unfold aIf
    rw [bind_ok hS1, bind_ok h2]
    rfl

theorem aif3_none (c : Expr2 F) (t : RStmt3 F) (n' ln : Nat) (le : Nat → Bool)
    (hB : ABranchOK3 t (n' + 1) ln le) (hd : adepth c + 1 ≤ n' + 1) : AStmtOK3 (.ifS c t none) (n' + 1) ln le := by
  intro sig σ pre rest hAt hl hle hS hn hE hres
  have hLE : LineEnd rest := hE.lineEnd rfl
  have hAt0 : At σ pre (.kw .If :: (render2 c ++ .kw .Then :: (renderS3 t ++ rest))) := by
    simpa only [renderS3, List.cons_append, List.append_assoc] using hAt
  simp only [asdepth] at hn
  simp only [ResolvedS2] at hres
  have hC := aif3_cond sig c (n' + 1) ln σ pre _ hAt0 hl hS hd (by omega) hres.1
  simp only [typeOfS3A, sigAfterS, sigFailS]
  cases hev : typeAny sig c with
  | error x =>
    rw [hev] at hC
    obtain ⟨σ', h1, h2⟩ := hC
    exact ⟨σ', h1, by rw [h2]; exact hS⟩
  | ok u =>
    rw [hev] at hC
    obtain ⟨S, hrun, hAtS, hc⟩ := hC
    rw [hrun]
    have hB' := hB sig S _ rest hAtS (hc.ln hl) (by rw [hc.lines]; exact hle) (hc.sig hS)
      (by rw [hc.nesting]; omega) (Or.inl hLE) hres.2
    simp only
    cases hty : typeOfS3A le sig t with
    | error x =>
      rw [hty] at hB'
      obtain ⟨σ', h1, h2⟩ := hB'
      exact ⟨σ', by unfold aIfRest; exact bind_err h1, h2⟩
    | ok u' =>
      rw [hty] at hB'
      obtain ⟨S2, h1, hAt2, h2⟩ := hB'
      unfold aIfRest
      rw [bind_ok h1, bind_ok (accept_no (k := .Else) hAt2 (fun t ht => by rw [hLE t ht]; rfl))]
      simp only [Bool.false_eq_true, ↓reduceIte]
      refine ⟨_, rfl, at_congr (at_mv0 hAt2 _) ?_, h2⟩
      simp only [renderS3, List.append_assoc, List.cons_append, List.nil_append]

theorem aif3_some (c : Expr2 F) (t e : RStmt3 F) (n' ln : Nat) (le : Nat → Bool)
    (hB1 : ABranchOK3 t (n' + 1) ln le) (hB2 : ABranchOK3 e (n' + 1) ln le) (hcl : t.closes = true)
    (hd : adepth c + 1 ≤ n' + 1) : AStmtOK3 (.ifS c t (some e)) (n' + 1) ln le := by
  intro sig σ pre rest hAt hl hle hS hn hE hres
  have hLE : LineEnd rest := hE.lineEnd rfl
  have hAt0 : At σ pre (.kw .If :: (render2 c ++ .kw .Then :: (renderS3 t ++ .kw .Else :: (renderS3 e ++ rest)))) := by
    simpa only [renderS3, List.cons_append, List.append_assoc] using hAt
  simp only [asdepth] at hn
  simp only [ResolvedS2] at hres
  have hC := aif3_cond sig c (n' + 1) ln σ pre _ hAt0 hl hS hd (by omega) hres.1
  simp only [typeOfS3A, sigAfterS, sigFailS]
  cases hev : typeAny sig c with
  | error x =>
    rw [hev] at hC
    obtain ⟨σ', h1, h2⟩ := hC
    exact ⟨σ', h1, by rw [h2]; exact hS⟩
  | ok u =>
    rw [hev] at hC
    obtain ⟨S, hrun, hAtS, hc⟩ := hC
    rw [hrun]
    have hB' := hB1 sig S _ _ hAtS (hc.ln hl) (by rw [hc.lines]; exact hle) (hc.sig hS)
      (by rw [hc.nesting]; omega) (Or.inr ⟨hcl, stmtEnd_else _⟩) hres.2.1
    simp only
    cases hty : typeOfS3A le sig t with
    | error x =>
      rw [hty] at hB'
      obtain ⟨σ', h1, h2⟩ := hB'
      exact ⟨σ', by unfold aIfRest; exact bind_err h1, h2⟩
    | ok u' =>
      rw [hty] at hB'
      obtain ⟨S2, h1, hAt2, h2⟩ := hB'
      obtain ⟨f1, f2, f3⟩ := sog_frames (n' + 1) h1
      unfold aIfRest
      rw [bind_ok h1, bind_ok (accept_true hAt2 rfl)]
      simp only [↓reduceIte]
      have hB'' := hB2 (sigAfterS sig t) (mv S2 1 (S2.reads + 1)) _ rest (at_mv1 hAt2 _)
        (by show S2.loc.line = _; rw [f3]; exact hc.ln hl)
        (by show S2.lines.has = _; rw [f1, hc.lines]; exact hle) h2
        (by show S2.nesting + _ ≤ _; rw [f2, hc.nesting]; omega) (Or.inl hLE) hres.2.2
      cases hty2 : typeOfS3A le (sigAfterS sig t) e with
      | error x =>
        rw [hty2] at hB''
        exact hB''
      | ok u'' =>
        rw [hty2] at hB''
        obtain ⟨S3, g1, g2, g3⟩ := hB''
        refine ⟨S3, g1, at_congr g2 ?_, g3⟩
        simp only [renderS3, List.append_assoc, List.cons_append, List.nil_append]

/-! ### every covered statement -/

/-- **The analyzer's statement pass on the rendering of a covered statement of `RStmt3`**
    (`aStmtBody (aEvalN n)` from a state `σ` standing in front of `renderS3 s`, on the numbered line `ln`,
    holding the signatures `sig`): it accepts iff `typeOfS3A le sig s` does (which is `typeOfS3 sig le s` on
    covered statements: `typeOfS3A_covered`); on acceptance the cursor stands right behind the statement
    and the signatures of the state are `sigAfterS sig s` (extended by the DEFs the statement contains);
    otherwise it fails with the static error, holding the signatures `sigFailS le sig s`. -/
theorem astmt3_run : ∀ (s : RStmt3 F) (n ln : Nat) (le : Nat → Bool), asdepth s ≤ n → s.isLine = false →
    s.CoveredB → AStmtOK3 s n ln le
  | .letS x e, n, ln, le, hd, _, _ => fun sig σ pre rest hAt hl _ hS hn hE hres => by
    simp only [asdepth] at hd hn
    simp only [ResolvedS2] at hres
    simp only [typeOfS3A, sigAfterS, sigFailS]
    exact aout3_simple hAt hS (alet3_run sig x e n ln σ pre rest le hAt hl hS hd hn
      (ends_of_stmtEnd hE.stmtEnd 6) hres) rfl rfl rfl
  | .printS items, n, ln, le, hd, _, hcov => fun sig σ pre rest hAt hl _ hS hn hE hres => by
    simp only [asdepth] at hd hn
    simp only [ResolvedS2] at hres
    simp only [typeOfS3A, sigAfterS, sigFailS]
    exact aout3_simple hAt hS (aprint3_run sig items n ln σ pre rest le hAt hl hS hd hn hcov hE.stmtEnd hres)
      rfl rfl rfl
  | .gotoS m, n, ln, le, _, _, hcov => fun sig σ pre rest hAt _ hle hS _ _ _ => by
    subst hle
    simp only [typeOfS3A, sigAfterS, sigFailS]
    exact aout3_simple hAt hS (agoto3_run m n σ pre rest sig hAt hcov) rfl rfl rfl
  | .gosubS m, n, ln, le, _, _, hcov => fun sig σ pre rest hAt _ hle hS _ _ _ => by
    subst hle
    simp only [typeOfS3A, sigAfterS, sigFailS]
    exact aout3_simple hAt hS (agosub3_run m n σ pre rest sig hAt hcov) rfl rfl rfl
  | .lineS m, _, _, _, _, hnl, _ => by cases hnl
  | .endS, n, ln, le, _, _, _ => fun sig σ pre rest hAt _ _ hS _ _ _ => by
    simp only [typeOfS3A, sigAfterS, sigFailS]
    exact aout3_simple hAt hS (aend3_run n σ pre rest sig le hAt) rfl rfl rfl
  | .returnS, n, ln, le, _, _, _ => fun sig σ pre rest hAt _ _ hS _ _ _ => by
    simp only [typeOfS3A, sigAfterS, sigFailS]
    exact aout3_simple hAt hS (areturn3_run n σ pre rest sig le hAt) rfl rfl rfl
  | .dataS items, n, ln, le, _, _, _ => fun sig σ pre rest hAt _ _ hS _ _ _ => by
    simp only [typeOfS3A, sigAfterS, sigFailS]
    exact aout3_simple hAt hS (adata3_run items n σ pre rest sig le hAt) rfl rfl rfl
  | .restoreS, n, ln, le, _, _, _ => fun sig σ pre rest hAt _ _ hS _ _ _ => by
    simp only [typeOfS3A, sigAfterS, sigFailS]
    exact aout3_simple hAt hS (arestore3_run n σ pre rest sig le hAt) rfl rfl rfl
  | .nextS v, n, ln, le, _, _, _ => fun sig σ pre rest hAt hl _ hS _ _ _ => by
    simp only [typeOfS3A, sigAfterS, sigFailS]
    exact aout3_simple hAt hS (anext3_run v n ln σ pre rest sig le hAt hl) rfl rfl rfl
  | .forS v a b c, n, ln, le, hd, _, _ => fun sig σ pre rest hAt hl _ hS hn hE hres => by
    simp only [typeOfS3A, sigAfterS, sigFailS]
    exact aout3_simple hAt hS (afor3_run sig v a b c n ln σ pre rest le hAt hl hS hd hn hE.stmtEnd hres)
      rfl rfl rfl
  | .readS ts, n, ln, le, hd, _, hcov => fun sig σ pre rest hAt hl _ hS hn hE hres => by
    simp only [asdepth] at hd hn
    simp only [ResolvedS2] at hres
    simp only [typeOfS3A, sigAfterS, sigFailS]
    exact aout3_simple hAt hS (aread3_run sig ts hcov n ln σ pre rest le hAt hl hS hd hn hE.stmtEnd hres)
      rfl rfl rfl
  | .dimS name dims, n, ln, le, hd, _, _ => fun sig σ pre rest hAt hl _ hS hn _ hres => by
    simp only [asdepth] at hd hn
    simp only [ResolvedS2] at hres
    simp only [typeOfS3A, sigAfterS, sigFailS]
    exact aout3_simple hAt hS (adim3_run sig name dims n ln σ pre rest le hAt hl hS hd hn hres) rfl rfl rfl
  | .letCellS name idx e, n, ln, le, hd, _, _ => fun sig σ pre rest hAt hl _ hS hn hE hres => by
    simp only [asdepth] at hd hn
    simp only [ResolvedS2] at hres
    simp only [typeOfS3A, sigAfterS, sigFailS]
    exact aout3_simple hAt hS (aletcell3_run sig name idx e n ln σ pre rest le hAt hl hS hd hn
      (ends_of_stmtEnd hE.stmtEnd 6) hres) rfl rfl rfl
  | .defS f ps body, n, ln, le, hd, _, hcov => fun sig σ pre rest hAt hl _ hS hn hE hres => by
    simp only [asdepth] at hd hn
    simp only [ResolvedS2] at hres
    have hLE : LineEnd rest := hE.lineEnd rfl
    simp only [typeOfS3A, sigFailS]
    exact adef3_run sig f ps body hcov n ln le σ pre rest hAt hl hS (ends_of_stmtEnd hLE.stmtEnd 6) hres hd hn
  | .ifS c t none, n, ln, le, hd, _, hcov => by
    obtain ⟨_, hcovt⟩ : t.elseFree = true ∧ t.CoveredB := by simpa only [RStmt3.CoveredB] using hcov
    simp only [asdepth] at hd
    obtain ⟨n', rfl⟩ : ∃ n', n = n' + 1 := ⟨n - 1, by omega⟩
    exact aif3_none c t n' ln le
      (abranch3 t n' ln le (fun hl => astmt3_run t n' ln le (by omega) hl hcovt) hcovt) (by omega)
  | .ifS c t (some e), n, ln, le, hd, _, hcov => by
    obtain ⟨hcl, hcovt, hcove⟩ : t.closes = true ∧ t.CoveredB ∧ e.CoveredB := by
      simpa only [RStmt3.CoveredB] using hcov
    simp only [asdepth] at hd
    obtain ⟨n', rfl⟩ : ∃ n', n = n' + 1 := ⟨n - 1, by omega⟩
    exact aif3_some c t e n' ln le
      (abranch3 t n' ln le (fun hl => astmt3_run t n' ln le (by omega) hl hcovt) hcovt)
      (abranch3 e n' ln le (fun hl => astmt3_run e n' ln le (by omega) hl hcove) hcove) hcl (by omega)

end Abasic.Props.C06
