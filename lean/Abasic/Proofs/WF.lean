import Abasic.Props.C04
import Abasic.Props.C16
import Abasic.Props.C18
import Abasic.Proofs.DataRoundTrip
/-
  The well-formedness invariant of interpreter states (helper for C01 / C19,
  Abasic/Props/C01WF.lean).

  * `LocOk L loc`   — a location on a numbered line names a stored line of `L` and
                      is at most one past its last token (an immediate location is
                      always ok: see `C01WF.immediate_idx_not_invariant`);
  * `WFσ s`         — the two indexes of the line store agree, and the cursor, the
                      breakpoint, every GOSUB/FN frame, every open loop, every
                      function definition and every DATA chunk is `LocOk`; every
                      array has as many cells as its dimensions say; the RNG state
                      is reduced; the nesting counter is within its cap;
  * `EOk L e`       — the error is neither a panic nor a tokenization error and its
                      location (if set) is `LocOk`;
  * `Good R Q m`    — from a state with `WFσ`, `m` ends (on both paths) in a state
                      with `WFσ` related to the initial one by the frame `R`; a
                      value satisfies `Q`, an error `EOk`.
  Two frames: `ER` (expression evaluation: nesting counter, stack, functions,
  store, immediate line and the cursor's line unchanged, the cursor's index not
  smaller) and `SR` (statements: nesting counter unchanged).
-/
namespace Abasic.WF
open Abasic M

variable {F : Type}

/-! ### definitions -/

def LocOk (L : Lines F) (loc : Loc) : Prop :=
  ∀ n, loc.line = some n → ∃ ts, L.get n = some ts ∧ loc.idx ≤ ts.length

/-- the same, against a state's store -/
abbrev LocOkS (s : St F) (loc : Loc) : Prop := LocOk s.lines loc

structure WFσ (s : St F) : Prop where
  lines : Props.C04.WF s.lines
  loc : LocOk s.lines s.loc
  bp : ∀ n i, s.bp = some (n, i) → LocOk s.lines { line := some n, idx := i }
  stack : ∀ f ∈ s.stack, LocOk s.lines f.ret
  loops : ∀ l ∈ s.loops, LocOk s.lines l.loc
  fns : ∀ p ∈ s.fns, LocOk s.lines { line := some p.2.line, idx := p.2.idx }
  data : ∀ it, s.data = some it → ∀ c ∈ it.chunks, LocOk s.lines c.1
  arrays : ∀ p ∈ s.arrays, p.2.cellCount = Props.C16.prod p.2.dims
  rng : s.rng < 2 ^ 33
  nest : s.nesting ≤ Extracted.nestingLimit

/-- errors the evaluator may raise -/
def plain : Err → Bool
  | .panic _ => false
  | .syntax (.tokenization _) => false
  | _ => true

theorem plain_not_panic {e : Err} (h : plain e = true) : e.isPanic = false := by
  cases e <;> first | rfl | (simp [plain] at h)

structure EOk (L : Lines F) (e : TErr) : Prop where
  plain : plain e.err = true
  loc : ∀ loc, e.loc = some loc → LocOk L loc

/-- reflexive and transitive relations on states -/
class Fr (R : St F → St F → Prop) : Prop where
  refl : ∀ s, R s s
  trans : ∀ {a b c}, R a b → R b c → R a c

/-- what expression evaluation leaves alone -/
structure ER (s s' : St F) : Prop where
  nesting : s'.nesting = s.nesting
  stack : s'.stack = s.stack
  fns : s'.fns = s.fns
  lines : s'.lines = s.lines
  imm : s'.imm = s.imm
  line : s'.loc.line = s.loc.line
  idx : s.loc.idx ≤ s'.loc.idx

/-- what statements leave alone -/
structure SR (s s' : St F) : Prop where
  nesting : s'.nesting = s.nesting
  lines : s'.lines = s.lines

instance : Fr (ER (F := F)) where
  refl _ := ⟨rfl, rfl, rfl, rfl, rfl, rfl, Nat.le_refl _⟩
  trans h1 h2 := ⟨h2.nesting.trans h1.nesting, h2.stack.trans h1.stack, h2.fns.trans h1.fns,
    h2.lines.trans h1.lines, h2.imm.trans h1.imm, h2.line.trans h1.line, Nat.le_trans h1.idx h2.idx⟩

instance : Fr (SR (F := F)) where
  refl _ := ⟨rfl, rfl⟩
  trans h1 h2 := ⟨h2.nesting.trans h1.nesting, h2.lines.trans h1.lines⟩

theorem er_sr {s s' : St F} (h : ER s s') : SR s s' := ⟨h.nesting, h.lines⟩

def Post (R : St F → St F → Prop) {α : Type} (Q : α → Prop) (s0 : St F) : Res F α → Prop
  | .ok a s' => WFσ s' ∧ R s0 s' ∧ Q a
  | .err e s' => WFσ s' ∧ R s0 s' ∧ EOk s'.lines e

def Good (R : St F → St F → Prop) {α : Type} (Q : α → Prop) (m : M F α) : Prop :=
  ∀ s, WFσ s → Post R Q s (m s)

abbrev T {α : Type} : α → Prop := fun _ => True

/-! ### structural rules -/

section
variable {R R' : St F → St F → Prop} {α β : Type}

theorem Post.mono {Q : α → Prop} {s0 : St F} {r : Res F α} (hsub : ∀ a b, R a b → R' a b)
    (h : Post R Q s0 r) : Post R' Q s0 r := by
  cases r with
  | ok a s' => exact ⟨h.1, hsub _ _ h.2.1, h.2.2⟩
  | err e s' => exact ⟨h.1, hsub _ _ h.2.1, h.2.2⟩

theorem Post.weaken {Q Q' : α → Prop} {s0 : St F} {r : Res F α} (hq : ∀ a, Q a → Q' a)
    (h : Post R Q s0 r) : Post R Q' s0 r := by
  cases r with
  | ok a s' => exact ⟨h.1, h.2.1, hq a h.2.2⟩
  | err e s' => exact h

/-- a result related to `s1` is related to `s0` when `s1` is -/
theorem Post.from [Fr R] {Q : α → Prop} {s0 s1 : St F} {r : Res F α} (hr : R s0 s1)
    (h : Post R Q s1 r) : Post R Q s0 r := by
  cases r with
  | ok a s' => exact ⟨h.1, Fr.trans hr h.2.1, h.2.2⟩
  | err e s' => exact ⟨h.1, Fr.trans hr h.2.1, h.2.2⟩

theorem Post.bind [Fr R] {Q : α → Prop} {Q' : β → Prop} {m : M F α} {f : α → M F β} {s0 s : St F}
    (hm : Post R Q s0 (m s))
    (hf : ∀ a s1, WFσ s1 → R s0 s1 → Q a → m s = .ok a s1 → Post R Q' s0 (f a s1)) :
    Post R Q' s0 ((m >>= f) s) := by
  show Post R Q' s0 (M.bindM m f s)
  unfold M.bindM
  cases hms : m s with
  | ok a s1 =>
    rw [hms] at hm
    exact hf a s1 hm.1 hm.2.1 hm.2.2 hms
  | err e s1 =>
    rw [hms] at hm
    exact hm

theorem Good.at [Fr R] {Q : α → Prop} {m : M F α} (hg : Good R Q m) {s0 s1 : St F}
    (hw : WFσ s1) (hr : R s0 s1) : Post R Q s0 (m s1) :=
  Post.from hr (hg s1 hw)

theorem Good.mono {Q : α → Prop} {m : M F α} (hsub : ∀ a b, R a b → R' a b) (h : Good R Q m) :
    Good R' Q m :=
  fun s hs => (h s hs).mono hsub

theorem Good.sr {Q : α → Prop} {m : M F α} (h : Good ER Q m) : Good SR Q m :=
  h.mono fun _ _ => er_sr

theorem Good.pure [Fr R] {Q : α → Prop} {a : α} (h : Q a) : Good R Q (pure a : M F α) :=
  fun s hs => ⟨hs, Fr.refl s, h⟩

theorem Good.bind [Fr R] {Q : α → Prop} {Q' : β → Prop} {m : M F α} {f : α → M F β}
    (hm : Good R Q m) (hf : ∀ a, Q a → Good R Q' (f a)) : Good R Q' (m >>= f) :=
  fun s hs => Post.bind (hm s hs) fun a _ hw hr hq _ => (hf a hq).at hw hr

theorem Good.weaken {Q Q' : α → Prop} {m : M F α} (hm : Good R Q m) (h : ∀ a, Q a → Q' a) :
    Good R Q' m :=
  fun s hs => (hm s hs).weaken h

theorem Good.triv {Q : α → Prop} {m : M F α} (hm : Good R Q m) : Good R T m :=
  hm.weaken fun _ _ => trivial

theorem eok_fail {L : Lines F} {e : Err} (h : plain e = true) : EOk L { err := e } :=
  ⟨h, by intro loc hl; cases hl⟩

theorem Good.fail [Fr R] {Q : α → Prop} {e : Err} (h : plain e = true) : Good R Q (M.fail e : M F α) :=
  fun s hs => ⟨hs, Fr.refl s, eok_fail h⟩

theorem Good.get_bind {Q : β → Prop} {f : St F → M F β} (hf : ∀ s0, WFσ s0 → Post R Q s0 (f s0 s0)) :
    Good R Q (M.get >>= f) :=
  fun s hs => hf s hs

theorem Good.liftE [Fr R] {r : Except Err α} (h : ∀ e, r = .error e → plain e = true) :
    Good R T (liftE r : M F α) := by
  cases r with
  | ok a => exact Good.pure trivial
  | error e => exact Good.fail (h e rfl)

/-- `m` run from `s`, measured against the base state `s0` (lets a proof look through
    `let s ← get; … set { s with … }`) -/
def GoodAt (R : St F → St F → Prop) (Q : α → Prop) (m : M F α) (s0 s : St F) : Prop :=
  Post R Q s0 (m s)

theorem Good.get_bind' {Q : β → Prop} {f : St F → M F β} (hf : ∀ s, WFσ s → GoodAt R Q (f s) s s) :
    Good R Q (M.get >>= f) :=
  fun s hs => hf s hs

theorem GoodAt.get_bind {Q : β → Prop} {f : St F → M F β} {s0 s : St F} (hf : GoodAt R Q (f s) s0 s) :
    GoodAt R Q (M.get >>= f) s0 s := hf

theorem Good.gat [Fr R] {Q : α → Prop} {m : M F α} (hg : Good R Q m) {s0 s1 : St F}
    (hw : WFσ s1) (hr : R s0 s1) : GoodAt R Q m s0 s1 :=
  hg.at hw hr

theorem GoodAt.bind [Fr R] {Q : α → Prop} {Q' : β → Prop} {m : M F α} {f : α → M F β} {s0 s : St F}
    (hm : GoodAt R Q m s0 s)
    (hf : ∀ a s1, WFσ s1 → R s0 s1 → Q a → m s = .ok a s1 → GoodAt R Q' (f a) s0 s1) :
    GoodAt R Q' (m >>= f) s0 s :=
  Post.bind hm hf

theorem GoodAt.set {s0 s s' : St F} (hw : WFσ s') (hr : R s0 s') : GoodAt R T (M.set s') s0 s :=
  ⟨hw, hr, trivial⟩

theorem GoodAt.modify {s0 s : St F} {f : St F → St F} (hw : WFσ (f s)) (hr : R s0 (f s)) :
    GoodAt R T (M.modify f) s0 s :=
  ⟨hw, hr, trivial⟩

theorem GoodAt.pure {Q : α → Prop} {a : α} {s0 s : St F} (hw : WFσ s) (hr : R s0 s) (hq : Q a) :
    GoodAt R Q (pure a : M F α) s0 s :=
  ⟨hw, hr, hq⟩

theorem GoodAt.fail {Q : α → Prop} {e : Err} {s0 s : St F} (hw : WFσ s) (hr : R s0 s) (h : plain e = true) :
    GoodAt R Q (M.fail e : M F α) s0 s :=
  ⟨hw, hr, eok_fail h⟩

theorem GoodAt.weaken {Q Q' : α → Prop} {m : M F α} {s0 s : St F} (hm : GoodAt R Q m s0 s)
    (h : ∀ a, Q a → Q' a) : GoodAt R Q' m s0 s :=
  Post.weaken h hm

end

/-! ### the cursor primitives -/

section
variable {R : St F → St F → Prop} {α : Type}

/-- a state that differs only in fields the invariant does not mention -/
theorem WFσ.same {s s' : St F} (hs : WFσ s) (h1 : s'.lines = s.lines) (h2 : s'.loc = s.loc)
    (h3 : s'.bp = s.bp) (h4 : s'.stack = s.stack) (h5 : s'.loops = s.loops) (h6 : s'.fns = s.fns)
    (h7 : s'.data = s.data) (h8 : s'.arrays = s.arrays) (h9 : s'.rng = s.rng)
    (h10 : s'.nesting = s.nesting) : WFσ s' := by
  refine ⟨?_, ?_, ?_, ?_, ?_, ?_, ?_, ?_, ?_, ?_⟩
  · rw [h1]; exact hs.lines
  · rw [h1, h2]; exact hs.loc
  · rw [h1, h3]; exact hs.bp
  · rw [h1, h4]; exact hs.stack
  · rw [h1, h5]; exact hs.loops
  · rw [h1, h6]; exact hs.fns
  · rw [h1, h7]; exact hs.data
  · rw [h8]; exact hs.arrays
  · rw [h9]; exact hs.rng
  · rw [h10]; exact hs.nest

theorem er_same {s s' : St F} (h1 : s'.nesting = s.nesting) (h2 : s'.stack = s.stack) (h3 : s'.fns = s.fns)
    (h4 : s'.lines = s.lines) (h5 : s'.imm = s.imm) (h6 : s'.loc = s.loc) : ER s s' :=
  ⟨h1, h2, h3, h4, h5, by rw [h6], by rw [h6]; exact Nat.le_refl _⟩

/-- the tokens under the cursor's line -/
def curToks (s : St F) : List (Token F) :=
  match s.loc.line with
  | none => s.imm
  | some n => (s.lines.get n).getD []

theorem curToks_er {s s' : St F} (h : ER s s') : curToks s' = curToks s := by
  unfold curToks
  rw [h.line, h.imm, h.lines]

theorem tokens_eq {s : St F} (hs : WFσ s) : tokens s = .ok (curToks s) s := by
  unfold tokens tokensForLine curToks
  cases hl : s.loc.line with
  | none => rfl
  | some n =>
    obtain ⟨ts, hg, _⟩ := hs.loc n hl
    simp only [hg, Option.getD_some]

theorem peek_eq {s : St F} (hs : WFσ s) :
    peek s = .ok (curToks s)[s.loc.idx]? { s with reads := s.reads + 1 } := by
  have hs1 : WFσ { s with reads := s.reads + 1 } := hs.same rfl rfl rfl rfl rfl rfl rfl rfl rfl rfl
  have h := tokens_eq hs1
  simp only [peek, Bind.bind, M.bindM, M.modify, h, M.get, Pure.pure, M.pureM]
  rfl

/-- the cursor may step over a token it has just seen -/
theorem locOk_adv {s : St F} (hs : WFσ s) {t : Token F} (h : (curToks s)[s.loc.idx]? = some t) :
    LocOk s.lines { s.loc with idx := s.loc.idx + 1 } := by
  intro n hl
  obtain ⟨ts, hg, hi⟩ := hs.loc n hl
  refine ⟨ts, hg, ?_⟩
  have hl' : s.loc.line = some n := hl
  have hc : curToks s = ts := by simp only [curToks, hl', hg, Option.getD_some]
  rw [hc] at h
  have := (List.getElem?_eq_some_iff.mp h).1
  show s.loc.idx + 1 ≤ ts.length
  omega

theorem WFσ.adv {s : St F} (hs : WFσ s) {t : Token F} (h : (curToks s)[s.loc.idx]? = some t) (r : Nat) :
    WFσ { s with reads := r, loc := { s.loc with idx := s.loc.idx + 1 } } :=
  { hs with loc := locOk_adv hs h }

theorem WFσ.reads {s : St F} (hs : WFσ s) (r : Nat) : WFσ { s with reads := r } :=
  hs.same rfl rfl rfl rfl rfl rfl rfl rfl rfl rfl

theorem er_reads (s : St F) (r : Nat) : ER s { s with reads := r } :=
  er_same rfl rfl rfl rfl rfl rfl

theorem er_adv (s : St F) (r : Nat) :
    ER s { s with reads := r, loc := { s.loc with idx := s.loc.idx + 1 } } :=
  ⟨rfl, rfl, rfl, rfl, rfl, rfl, Nat.le_succ _⟩

theorem good_tokens : Good ER T (tokens : M F (List (Token F))) := by
  intro s hs
  rw [tokens_eq hs]
  exact ⟨hs, Fr.refl s, trivial⟩

theorem good_peek : Good ER T (peek : M F (Option (Token F))) := by
  intro s hs
  rw [peek_eq hs]
  exact ⟨hs.reads _, er_reads s _, trivial⟩

theorem next_eq {s : St F} (hs : WFσ s) :
    next s = .ok (curToks s)[s.loc.idx]?
      (match (curToks s)[s.loc.idx]? with
       | some _ => { s with reads := s.reads + 1, loc := { s.loc with idx := s.loc.idx + 1 } }
       | none => { s with reads := s.reads + 1 }) := by
  simp only [next, Bind.bind, M.bindM, peek_eq hs]
  cases (curToks s)[s.loc.idx]? with
  | none => rfl
  | some t => rfl

theorem good_next : Good ER T (next : M F (Option (Token F))) := by
  intro s hs
  rw [next_eq hs]
  cases h : (curToks s)[s.loc.idx]? with
  | none => exact ⟨hs.reads _, er_reads s _, trivial⟩
  | some t => exact ⟨hs.adv h _, er_adv s _, trivial⟩

theorem good_hasNext : Good ER T (hasNext : M F Bool) :=
  Good.bind good_peek fun _ _ => Good.pure trivial

theorem good_nextUnwrapped : Good ER T (nextUnwrapped : M F (Token F)) := by
  intro s hs
  simp only [nextUnwrapped, Bind.bind, M.bindM, next_eq hs]
  cases h : (curToks s)[s.loc.idx]? with
  | none =>
    refine ⟨hs.reads _, er_reads s _, ⟨rfl, ?_⟩⟩
    intro loc hloc
    simp only [Option.some.injEq] at hloc
    subst hloc
    exact hs.loc
  | some t => exact ⟨hs.adv h _, er_adv s _, trivial⟩

theorem good_expect (k : Kw) : Good ER T (expect k : M F Unit) := by
  unfold expect
  refine Good.bind good_nextUnwrapped fun t _ => ?_
  split
  · exact Good.pure trivial
  · exact Good.fail rfl

theorem good_accept (k : Kw) : Good ER T (accept k : M F Bool) := by
  intro s hs
  simp only [accept, Bind.bind, M.bindM, peek_eq hs]
  cases h : (curToks s)[s.loc.idx]? with
  | none => exact ⟨hs.reads _, er_reads s _, trivial⟩
  | some t =>
    simp only
    split
    · exact ⟨hs.adv h _, er_adv s _, trivial⟩
    · exact ⟨hs.reads _, er_reads s _, trivial⟩

theorem good_peekIsKw (k : Kw) : Good ER T (peekIsKw k : M F Bool) := by
  unfold peekIsKw
  refine Good.bind good_peek fun t _ => ?_
  split <;> exact Good.pure trivial

theorem good_tryNext {γ : Type} (f : Token F → Option γ) : Good ER T (tryNext f : M F (Option γ)) := by
  intro s hs
  simp only [tryNext, Bind.bind, M.bindM, peek_eq hs]
  cases h : (curToks s)[s.loc.idx]? with
  | none => exact ⟨hs.reads _, er_reads s _, trivial⟩
  | some t =>
    simp only
    cases f t with
    | none => exact ⟨hs.reads _, er_reads s _, trivial⟩
    | some a => exact ⟨hs.adv h _, er_adv s _, trivial⟩

theorem good_lineBudget : Good ER T (lineBudget : M F Nat) :=
  Good.bind good_tokens fun _ _ => Good.pure trivial

/-- `discard_remaining_tokens` (the index can go DOWN on a stale immediate location) -/
theorem good_discardRemaining : Good SR T (discardRemaining : M F Unit) := by
  intro s hs
  simp only [discardRemaining, Bind.bind, M.bindM, tokens_eq hs, M.modify]
  refine ⟨{ hs with loc := ?_ }, ⟨rfl, rfl⟩, trivial⟩
  intro n hl
  obtain ⟨ts, hg, hi⟩ := hs.loc n hl
  refine ⟨ts, hg, ?_⟩
  have hl' : s.loc.line = some n := hl
  have hc : curToks s = ts := by simp only [curToks, hl', hg, Option.getD_some]
  show (curToks s).length ≤ ts.length
  rw [hc]
  exact Nat.le_refl _

end

/-! ### association lists, loops, DATA -/

section
variable {β : Type}

theorem mem_alSet {k : Str} {v : β} {l : List (Str × β)} {p : Str × β} (h : p ∈ alSet k v l) :
    p = (k, v) ∨ p ∈ l := by
  induction l with
  | nil =>
    simp only [alSet, List.mem_singleton] at h
    exact .inl h
  | cons x xs ih =>
    obtain ⟨k', v'⟩ := x
    simp only [alSet] at h
    split at h
    · rcases List.mem_cons.mp h with h | h
      · exact .inl h
      · exact .inr (List.mem_cons_of_mem _ h)
    · rcases List.mem_cons.mp h with h | h
      · exact .inr (by rw [h]; exact List.mem_cons_self ..)
      · rcases ih h with h | h
        · exact .inl h
        · exact .inr (List.mem_cons_of_mem _ h)

theorem alGet_mem {k : Str} {v : β} {l : List (Str × β)} (h : alGet k l = some v) : ∃ k', (k', v) ∈ l := by
  induction l with
  | nil => simp [alGet] at h
  | cons x xs ih =>
    obtain ⟨k', v'⟩ := x
    simp only [alGet] at h
    split at h
    · simp only [Option.some.injEq] at h
      subst h
      exact ⟨k', List.mem_cons_self ..⟩
    · obtain ⟨k'', hm⟩ := ih h
      exact ⟨k'', List.mem_cons_of_mem _ hm⟩

theorem alGet_alSet_self (k : Str) (v : β) (l : List (Str × β)) : alGet k (alSet k v l) = some v := by
  induction l with
  | nil => simp [alSet, alGet]
  | cons x xs ih =>
    obtain ⟨k', v'⟩ := x
    simp only [alSet]
    by_cases hk : (k' == k) = true
    · simp only [hk, if_true, alGet, beq_self_eq_true]
    · simp only [hk, if_false, alGet, Bool.false_eq_true]
      exact ih

end

theorem removeLoop_sub {sym : Str} {l : List (LoopInfo F)} {info : LoopInfo F} {rest : List (LoopInfo F)}
    (h : removeLoop sym l = some (info, rest)) : info ∈ l ∧ ∀ x ∈ rest, x ∈ l := by
  obtain ⟨_, inner, hl, _⟩ := Props.C16.removeLoop_some sym l info rest h
  subst hl
  exact ⟨by simp, fun x hx => by simp [hx]⟩

theorem dataIter_next_chunks (it : DataIter F) (fuel : Nat) : (it.next fuel).2.chunks = it.chunks := by
  induction fuel generalizing it with
  | zero => rfl
  | succ n ih =>
    unfold DataIter.next
    split
    · rfl
    · split
      · rfl
      · rw [ih]

theorem dataChunks_locOk [NumOps F] {L : Lines F} (hwf : Props.C04.WF L) :
    ∃ chunks, L.dataChunks = some chunks ∧ ∀ c ∈ chunks, LocOk L c.1 := by
  obtain ⟨entries, he, _, hg⟩ := Props.C04.list_sorted L hwf
  refine ⟨_, by unfold Lines.dataChunks; rw [he]; rfl, ?_⟩
  intro c hc
  simp only [List.mem_flatMap, List.mem_filterMap] at hc
  obtain ⟨⟨n, ts⟩, hmem, ⟨t, i⟩, hti, hsome⟩ := hc
  have hget : L.get n = some ts := hg (n, ts) hmem
  have hi : i < ts.length := by
    have := List.mem_zipIdx hti
    simp only at this
    omega
  cases t with
  | data items =>
    simp only [Option.some.injEq] at hsome
    subst hsome
    intro m hm
    simp only [Option.some.injEq] at hm
    subst hm
    exact ⟨ts, hget, Nat.le_of_lt hi⟩
  | _ => simp at hsome

theorem findInputBefore_some (ts : List (Token F)) (k i : Nat) (t : Token F) (hi : i < k)
    (ht : ts[i]? = some t) (hk : t.isKw .Input = true) : ∃ j, findInputBefore ts k = some j ∧ j < k := by
  induction k with
  | zero => omega
  | succ k ih =>
    unfold findInputBefore
    by_cases hik : i = k
    · subst hik
      simp only [ht, hk, if_true]
      exact ⟨i, rfl, Nat.lt_succ_self _⟩
    · have hlt : i < k := by omega
      obtain ⟨j, hj, hjk⟩ := ih hlt
      cases hts : ts[k]? with
      | none => simp only; exact ⟨j, hj, by omega⟩
      | some t' =>
        simp only
        split
        · exact ⟨k, rfl, Nat.lt_succ_self _⟩
        · exact ⟨j, hj, by omega⟩

/-! ### Program.lean: runtime bookkeeping -/

section

theorem locOk_imm (L : Lines F) (i : Nat) : LocOk L { line := none, idx := i } := by
  intro n hl; cases hl

theorem locOk_mk {L : Lines F} {n i : Nat} {ts : List (Token F)} (hg : L.get n = some ts) (hi : i ≤ ts.length) :
    LocOk L { line := some n, idx := i } := by
  intro m hm
  simp only [Option.some.injEq] at hm
  subst hm
  exact ⟨ts, hg, hi⟩

theorem wf_setImmediate {s : St F} (hs : WFσ s) (ts : List (Token F)) : WFσ (s.setImmediate ts) := by
  unfold St.setImmediate
  refine { hs with loc := locOk_imm _ _, stack := ?_ }
  intro f hf
  by_cases hb : s.bp.isNone = true
  · simp only [hb, if_true] at hf
    cases hf
  · simp only [hb] at hf
    exact hs.stack f hf

theorem good_setImmediate (ts : List (Token F)) : Good SR T (setImmediate ts : M F Unit) :=
  fun s hs => show Post SR T s (.ok () (s.setImmediate ts)) from ⟨wf_setImmediate hs ts, ⟨rfl, rfl⟩, trivial⟩

theorem wf_progBreak {s : St F} (hs : WFσ s) : WFσ s.progBreak := by
  unfold St.progBreak
  apply wf_setImmediate
  refine { hs with bp := ?_ }
  intro n i h
  cases hl : s.loc.line with
  | none => simp only [hl] at h; cases h
  | some m =>
    simp only [hl, Option.some.injEq, Prod.mk.injEq] at h
    obtain ⟨h1, h2⟩ := h
    subst h1 h2
    obtain ⟨ts, hg, hi⟩ := hs.loc m hl
    exact locOk_mk hg hi

theorem good_continueFromBreakpoint : Good SR T (continueFromBreakpoint : M F Unit) := by
  unfold continueFromBreakpoint
  refine Good.bind (good_setImmediate []) fun _ _ => Good.get_bind' fun s0 hs0 => ?_
  split
  · exact GoodAt.fail hs0 (Fr.refl _) rfl
  · rename_i n i hb
    exact GoodAt.set { hs0 with loc := hs0.bp n i hb, bp := by intro _ _ h; cases h } ⟨rfl, rfl⟩

theorem good_setVar [NumOps F] (name : Str) (v : Value F) : Good ER T (setVar name v) := by
  unfold setVar
  split
  · intro s hs
    exact ⟨hs.same rfl rfl rfl rfl rfl rfl rfl rfl rfl rfl, er_same rfl rfl rfl rfl rfl rfl, trivial⟩
  · exact Good.fail rfl

theorem good_emit (o : Out) : Good ER T (emit o : M F Unit) := by
  intro s hs
  exact ⟨hs.same rfl rfl rfl rfl rfl rfl rfl rfl rfl rfl, er_same rfl rfl rfl rfl rfl rfl, trivial⟩

theorem good_startLoop [NumOps F] (sym : Str) (a b c : F) : Good SR T (startLoop sym a b c) := by
  unfold startLoop
  have h1 : Good SR T (M.modify fun s : St F =>
      match removeLoop sym s.loops with
      | some (_, rest) => { s with loops := rest }
      | none => s) := by
    intro s hs
    cases heq : removeLoop sym s.loops with
    | none =>
      refine GoodAt.modify (s0 := s) ?_ ?_ <;> simp only [heq]
      · exact hs
      · exact ⟨rfl, rfl⟩
    | some p =>
      obtain ⟨x, rest⟩ := p
      refine GoodAt.modify (s0 := s) ?_ ?_ <;> simp only [heq]
      · exact { hs with loops := fun l hl => hs.loops l ((removeLoop_sub heq).2 l hl) }
      · exact ⟨rfl, rfl⟩
  refine Good.bind h1 fun _ _ => Good.get_bind' fun s0 hs0 => ?_
  split
  · exact GoodAt.fail hs0 (Fr.refl _) rfl
  · refine GoodAt.bind (Q := T) (GoodAt.set ?_ ⟨rfl, rfl⟩) fun _ s1 hw hr _ _ => (good_setVar sym (.num a)).sr.gat hw hr
    refine { hs0 with loops := ?_ }
    intro l hl
    rcases List.mem_cons.mp hl with rfl | hl
    · exact hs0.loc
    · exact hs0.loops l hl

theorem good_endLoop [NumOps F] (sym : Str) : Good SR T (endLoop (F := F) sym) := by
  unfold endLoop
  refine Good.get_bind' fun s0 hs0 => ?_
  split
  · exact GoodAt.fail hs0 (Fr.refl _) rfl
  · split
    · exact GoodAt.fail hs0 (Fr.refl _) rfl
    · rename_i info rest heq
      have hsub := removeLoop_sub heq
      have key : ∀ (c : Bool) (v : Value F), GoodAt SR T
          (if c = true then (do M.set { s0 with loops := info :: rest, loc := info.loc }; setVar sym v)
           else (do M.set { s0 with loops := rest }; setVar sym v)) s0 s0 := by
        intro c v
        split
        · refine GoodAt.bind (Q := T) (GoodAt.set ?_ ⟨rfl, rfl⟩)
            fun _ s1 hw hr _ _ => (good_setVar (F := F) sym _).sr.gat hw hr
          refine { hs0 with loops := ?_, loc := hs0.loops _ hsub.1 }
          intro l hl
          rcases List.mem_cons.mp hl with rfl | hl
          · exact hs0.loops _ hsub.1
          · exact hs0.loops l (hsub.2 l hl)
        · refine GoodAt.bind (Q := T) (GoodAt.set ?_ ⟨rfl, rfl⟩)
            fun _ s1 hw hr _ _ => (good_setVar (F := F) sym _).sr.gat hw hr
          exact { hs0 with loops := fun l hl => hs0.loops l (hsub.2 l hl) }
      exact key _ _

theorem wf_resetRuntime {s : St F} (hs : WFσ s) : WFσ s.resetRuntime := by
  unfold St.resetRuntime
  apply wf_setImmediate
  exact { hs with
    bp := by intro _ _ h; cases h
    data := by intro _ h; cases h
    fns := by intro _ h; cases h
    stack := by intro _ h; cases h
    loops := by intro _ h; cases h }

theorem wf_runFromFirst {s : St F} (hs : WFσ s) : WFσ s.runFromFirst := by
  have hr := wf_resetRuntime hs
  have hlines : s.resetRuntime.lines = s.lines := rfl
  unfold St.runFromFirst
  simp only
  split
  · rename_i n hf
    refine { hr with loc := ?_ }
    rw [hlines] at hf
    have hmem : n ∈ s.lines.sorted := by
      unfold Lines.first at hf
      exact List.mem_of_mem_head? (by rw [hf]; rfl)
    obtain ⟨ts, hts⟩ := Option.isSome_iff_exists.mp ((hs.lines.agree n).mp hmem)
    exact locOk_mk (L := s.lines) hts (Nat.zero_le _)
  · exact hr

theorem wf_setNumberedLine {s : St F} (hs : WFσ s) (n : Nat) (ts : List (Token F)) :
    WFσ (s.setNumberedLine n ts) := by
  unfold St.setNumberedLine St.setImmediate
  exact {
    lines := Props.C04.wf_set _ hs.lines n ts
    loc := locOk_imm _ _
    bp := by intro _ _ h; cases h
    data := by intro _ h; cases h
    fns := by intro _ h; cases h
    stack := by intro _ h; simp at h
    loops := by intro _ h; cases h
    arrays := hs.arrays
    rng := hs.rng
    nest := hs.nest }

theorem good_gotoLine (n : Nat) : Good SR T (gotoLine n : M F Unit) := by
  unfold gotoLine
  have h1 : Good SR T (M.modify fun s : St F => { s with bp := none }) := fun s hs =>
    GoodAt.modify (s0 := s) { hs with bp := by intro _ _ h; cases h } ⟨rfl, rfl⟩
  refine Good.bind h1 fun _ _ => Good.get_bind' fun s0 hs0 => ?_
  split
  · rename_i hhas
    obtain ⟨ts, hts⟩ := Option.isSome_iff_exists.mp (show (s0.lines.get n).isSome = true from hhas)
    exact GoodAt.set { hs0 with loc := locOk_mk hts (Nat.zero_le _) } ⟨rfl, rfl⟩
  · exact GoodAt.fail hs0 (Fr.refl _) rfl

theorem good_gosubLine (n : Nat) : Good SR T (gosubLine n : M F Unit) := by
  unfold gosubLine
  refine Good.get_bind' fun s0 hs0 => ?_
  split
  · exact GoodAt.fail hs0 (Fr.refl _) rfl
  · refine GoodAt.bind (Q := T) ((good_gotoLine n).gat hs0 (Fr.refl _)) fun _ s1 hw hr _ _ => ?_
    refine GoodAt.modify { hw with stack := ?_ } ⟨hr.nesting, hr.lines⟩
    intro f hf
    rcases List.mem_cons.mp hf with rfl | hf
    · show LocOk s1.lines s0.loc
      rw [hr.lines]; exact hs0.loc
    · exact hw.stack f hf

theorem good_returnFromGosub : Good SR T (returnFromGosub : M F Unit) := by
  unfold returnFromGosub
  have h1 : Good SR T (M.modify fun s : St F => { s with bp := none }) := fun s hs =>
    GoodAt.modify (s0 := s) { hs with bp := by intro _ _ h; cases h } ⟨rfl, rfl⟩
  refine Good.bind h1 fun _ _ => Good.get_bind' fun s0 hs0 => ?_
  split
  · exact GoodAt.fail hs0 (Fr.refl _) rfl
  · rename_i f rest hst
    refine GoodAt.set { hs0 with stack := ?_, loc := ?_ } ⟨rfl, rfl⟩
    · exact hs0.stack f (by rw [hst]; exact List.mem_cons_self ..)
    · intro g hg
      exact hs0.stack g (by rw [hst]; exact List.mem_cons_of_mem _ hg)

theorem good_defineFunction (name : Str) (args : List Str) : Good SR T (defineFunction name args : M F Unit) := by
  unfold defineFunction
  refine Good.get_bind' fun s0 hs0 => ?_
  split
  · exact GoodAt.fail hs0 (Fr.refl _) rfl
  · rename_i n hl
    refine GoodAt.set { hs0 with fns := ?_ } ⟨rfl, rfl⟩
    intro p hp
    rcases mem_alSet hp with rfl | hp
    · obtain ⟨ts, hg, hi⟩ := hs0.loc n hl
      exact locOk_mk hg hi
    · exact hs0.fns p hp

theorem good_nextLine : Good SR T (nextLine : M F Bool) := by
  unfold nextLine
  refine Good.get_bind' fun s0 hs0 => ?_
  split
  · exact GoodAt.pure hs0 (Fr.refl _) trivial
  · rename_i n hl
    split
    · rename_i m ha
      have hmem := ((Props.C04.after_least s0.lines hs0.lines n).1 m ha).1
      obtain ⟨ts, hts⟩ := Option.isSome_iff_exists.mp ((hs0.lines.agree m).mp hmem)
      refine GoodAt.bind (Q := T) (GoodAt.set { hs0 with loc := locOk_mk hts (Nat.zero_le _) } ⟨rfl, rfl⟩)
        fun _ s1 hw hr _ _ => GoodAt.pure hw hr trivial
    · exact GoodAt.pure hs0 (Fr.refl _) trivial

theorem good_nextDataElement [NumOps F] : Good ER T (nextDataElement : M F (Option (DataElement F))) := by
  unfold nextDataElement
  refine Good.get_bind' fun s0 hs0 => ?_
  have h1 : GoodAt ER (fun it : DataIter F => ∀ c ∈ it.chunks, LocOk s0.lines c.1)
      (match s0.data with
        | some it => pure it
        | none =>
          match s0.lines.dataChunks with
          | some chunks => pure ({ chunks := chunks } : DataIter F)
          | none => rpanic "data_iterator: unwrap on None") s0 s0 := by
    split
    · rename_i it hd
      exact GoodAt.pure hs0 (Fr.refl _) (hs0.data it hd)
    · obtain ⟨chunks, hc, hok⟩ := dataChunks_locOk hs0.lines
      simp only [hc]
      exact GoodAt.pure hs0 (Fr.refl _) hok
  refine GoodAt.bind h1 fun it s1 hw hr hit _ => ?_
  have hc := dataIter_next_chunks it (it.chunks.length + 1)
  generalize it.next (it.chunks.length + 1) = p at hc
  obtain ⟨e, it'⟩ := p
  dsimp only
  refine GoodAt.bind (Q := T) (GoodAt.modify ?_ ?_) fun _ s2 hw2 hr2 _ _ => GoodAt.pure hw2 hr2 trivial
  · refine { hw with data := ?_ }
    intro it2 h2 c hcm
    simp only [Option.some.injEq] at h2
    subst h2
    rw [hr.lines]
    exact hit c (by rw [← hc]; exact hcm)
  · exact ⟨hr.nesting, hr.stack, hr.fns, hr.lines, hr.imm, hr.line, hr.idx⟩

/-- frames that `nested` respects -/
class NestFr (R : St F → St F → Prop) : Prop extends Fr R where
  nest_eq : ∀ {a b}, R a b → b.nesting = a.nesting
  nest_out : ∀ {s s' : St F}, R { s with nesting := s.nesting + 1 } s' → R s { s' with nesting := s.nesting }

instance : NestFr (ER (F := F)) where
  nest_eq h := h.nesting
  nest_out h := ⟨rfl, h.stack, h.fns, h.lines, h.imm, h.line, h.idx⟩

instance : NestFr (SR (F := F)) where
  nest_eq h := h.nesting
  nest_out h := ⟨rfl, h.lines⟩

theorem WFσ.nesting {s : St F} (hs : WFσ s) {k : Nat} (hk : k ≤ Extracted.nestingLimit) :
    WFσ { s with nesting := k } :=
  { hs with nest := hk }

/-- `nested` restores the nesting counter, so `exit_nested` cannot underflow -/
theorem good_nested {R : St F → St F → Prop} [NestFr R] {α : Type} {Q : α → Prop} {m : M F α}
    (hm : Good R Q m) : Good R Q (nested m) := by
  intro s hs
  have hen : enterNested s = .err { err := .oomStack } s ∨
      (s.nesting < Extracted.nestingLimit ∧ enterNested s = .ok () { s with nesting := s.nesting + 1 }) := by
    simp only [enterNested, Bind.bind, M.bindM, M.get]
    by_cases h : (s.nesting == Extracted.nestingLimit) = true
    · left; rw [if_pos h]; rfl
    · right
      rw [if_neg h]
      have : s.nesting ≠ Extracted.nestingLimit := by simpa using h
      exact ⟨Nat.lt_of_le_of_ne hs.nest this, rfl⟩
  simp only [nested, Bind.bind, M.bindM]
  rcases hen with hen | ⟨hlt, hen⟩ <;> rw [hen]
  · exact ⟨hs, Fr.refl s, eok_fail rfl⟩
  · have hs1 : WFσ { s with nesting := s.nesting + 1 } := hs.nesting hlt
    have h1 := hm _ hs1
    simp only [M.attempt]
    cases hms : m { s with nesting := s.nesting + 1 } with
    | ok a s' =>
      rw [hms] at h1
      obtain ⟨hs', hr, hq⟩ := h1
      have hn' : s'.nesting = s.nesting + 1 := NestFr.nest_eq hr
      have hex : exitNested s' = .ok () { s' with nesting := s.nesting } := by
        simp only [exitNested, Bind.bind, M.bindM, M.get, hn', M.set]
      simp only [hex, M.ofExcept, M.pureM]
      exact ⟨hs'.nesting hs.nest, NestFr.nest_out hr, hq⟩
    | err e s' =>
      rw [hms] at h1
      obtain ⟨hs', hr, hq⟩ := h1
      have hn' : s'.nesting = s.nesting + 1 := NestFr.nest_eq hr
      have hex : exitNested s' = .ok () { s' with nesting := s.nesting } := by
        simp only [exitNested, Bind.bind, M.bindM, M.get, hn', M.set]
      simp only [hex, M.ofExcept, M.throw]
      exact ⟨hs'.nesting hs.nest, NestFr.nest_out hr, hq⟩

/-- a token the cursor has already passed on its line -/
def TokBefore (s : St F) (t : Token F) : Prop := ∃ i, i < s.loc.idx ∧ (curToks s)[i]? = some t

theorem tokBefore_er {s s' : St F} {t : Token F} (h : ER s s') (hb : TokBefore s t) : TokBefore s' t := by
  obtain ⟨i, hi, ht⟩ := hb
  exact ⟨i, Nat.lt_of_lt_of_le hi h.idx, by rw [curToks_er h]; exact ht⟩

/-- `rewind_before_token(Token::Input)` finds its token when the cursor has passed one -/
theorem rewindBeforeInput_post {s0 s : St F} (hs : WFσ s) (hr : SR s0 s) (hb : TokBefore s (.kw .Input)) :
    GoodAt SR T (rewindBeforeInput : M F Unit) s0 s := by
  obtain ⟨i, hi, ht⟩ := hb
  obtain ⟨j, hj, hjk⟩ := findInputBefore_some (curToks s) s.loc.idx i _ hi ht rfl
  unfold GoodAt
  simp only [rewindBeforeInput, Bind.bind, M.bindM, tokens_eq hs, M.get, hj, M.set]
  refine ⟨{ hs with loc := ?_ }, ⟨hr.nesting, hr.lines⟩, trivial⟩
  intro n hl
  obtain ⟨ts, hg, hle⟩ := hs.loc n hl
  exact ⟨ts, hg, by show j ≤ ts.length; omega⟩

end

/-! ### Arrays.lean -/

section
variable [NumOps F]

theorem dimSizes_err (idx : List Nat) (total : Nat) (acc : List Nat) (e : Err)
    (h : dimSizes idx total acc = .error e) : e = .oomArray := by
  induction idx generalizing total acc with
  | nil => simp [dimSizes] at h
  | cons m rest ih =>
    simp only [dimSizes] at h
    split at h
    · simp only [Except.error.injEq] at h; exact h.symm
    · split at h
      · simp only [Except.error.injEq] at h; exact h.symm
      · exact ih _ _ h

theorem create_err_plain (name : Str) (idx : List Nat) (e : Err)
    (h : ArrayV.create (F := F) name idx = .error e) : plain e = true := by
  unfold ArrayV.create at h
  split at h
  · simp only [Except.error.injEq] at h; subst h; rfl
  · split at h
    · rename_i e' he
      simp only [Except.error.injEq] at h; subst h
      rw [dimSizes_err _ _ _ _ he]; rfl
    · split at h
      · simp only [Except.error.injEq] at h; subst h; rfl
      · split at h <;> cases h

theorem linearIndexAux_bound (is ds : List Nat) (lin stride r : Nat)
    (h : linearIndexAux is ds lin stride = .ok r) : r + stride ≤ lin + stride * Props.C16.prod ds := by
  induction is generalizing ds lin stride with
  | nil =>
    cases ds with
    | nil =>
      simp only [linearIndexAux, Except.ok.injEq] at h
      subst h
      simp [Props.C16.prod]
    | cons d ds => simp [linearIndexAux] at h
  | cons i is ih =>
    cases ds with
    | nil => simp [linearIndexAux] at h
    | cons d ds =>
      simp only [linearIndexAux] at h
      split at h
      · cases h
      · rename_i hid
        have hlt : i < d := by omega
        have h1 := ih ds _ _ h
        have h2 : i * stride + stride ≤ stride * d := by
          have : (i + 1) * stride ≤ d * stride := Nat.mul_le_mul_right _ hlt
          rw [Nat.mul_comm d stride] at this
          rw [Nat.succ_mul] at this
          exact this
        have h3 : stride * Props.C16.prod (d :: ds) = stride * d * Props.C16.prod ds := by
          simp only [Props.C16.prod, Nat.mul_assoc]
        rw [h3]
        omega

theorem linearIndex_bound (index dims : List Nat) (i : Nat) (h : linearIndex index dims = .ok i) :
    i < Props.C16.prod dims := by
  unfold linearIndex at h
  split at h
  · cases h
  · have := linearIndexAux_bound _ _ _ _ _ h
    omega

theorem linearIndex_err (index dims : List Nat) (e : Err) (h : linearIndex index dims = .error e) :
    plain e = true := by
  have aux : ∀ (is ds : List Nat) (lin stride : Nat), linearIndexAux is ds lin stride = .error e → plain e = true := by
    intro is
    induction is with
    | nil =>
      intro ds lin stride h
      cases ds with
      | nil => simp [linearIndexAux] at h
      | cons d ds => simp only [linearIndexAux, Except.error.injEq] at h; subst h; rfl
    | cons i is ih =>
      intro ds lin stride h
      cases ds with
      | nil => simp only [linearIndexAux, Except.error.injEq] at h; subst h; rfl
      | cons d ds =>
        simp only [linearIndexAux] at h
        split at h
        · simp only [Except.error.injEq] at h; subst h; rfl
        · exact ih _ _ _ h
  unfold linearIndex at h
  split at h
  · simp only [Except.error.injEq] at h; subst h; rfl
  · exact aux _ _ _ _ h

/-- `maybe_create_default_array`: afterwards the array exists -/
theorem ensureArray_spec (name : Str) (arity : Nat) {s : St F} (hs : WFσ s) :
    (∃ e, plain e = true ∧ ensureArray name arity s = .err { err := e } s) ∨
    (∃ s', ensureArray name arity s = .ok () s' ∧ WFσ s' ∧ ER s s' ∧ (alGet name s'.arrays).isSome = true) := by
  simp only [ensureArray, Bind.bind, M.bindM, M.get]
  by_cases hh : alHas name s.arrays = true
  · right
    rw [if_pos hh]
    exact ⟨s, rfl, hs, Fr.refl _, hh⟩
  · rw [if_neg hh]
    cases hc : ArrayV.create (F := F) name (List.replicate arity Extracted.defaultArraySize) with
    | error e => left; exact ⟨e, create_err_plain _ _ _ hc, rfl⟩
    | ok a =>
      right
      refine ⟨_, rfl, { hs with arrays := ?_ }, er_same rfl rfl rfl rfl rfl rfl, ?_⟩
      · intro p hp
        rcases mem_alSet hp with rfl | hp
        · exact (Props.C16.create_spec _ _ _ hc).1
        · exact hs.arrays p hp
      · show (alGet name (alSet name a s.arrays)).isSome = true
        rw [alGet_alSet_self]; rfl

theorem good_ensureArray (name : Str) (arity : Nat) : Good ER T (ensureArray (F := F) name arity) := by
  intro s hs
  rcases ensureArray_spec name arity hs with ⟨e, he, h⟩ | ⟨s', h, hw, hr, _⟩
  · rw [h]; exact ⟨hs, Fr.refl _, eok_fail he⟩
  · rw [h]; exact ⟨hw, hr, trivial⟩

theorem good_arrayGet (name : Str) (index : List Nat) : Good ER T (arrayGet (F := F) name index) := by
  intro s hs
  simp only [arrayGet, Bind.bind, M.bindM]
  rcases ensureArray_spec name index.length hs with ⟨e, he, h⟩ | ⟨s', h, hw, hr, hsome⟩
  · rw [h]; exact ⟨hs, Fr.refl _, eok_fail he⟩
  · rw [h]
    simp only [M.get]
    obtain ⟨a, ha⟩ := Option.isSome_iff_exists.mp hsome
    simp only [ha]
    obtain ⟨k', hmem⟩ := alGet_mem ha
    have hcount := hw.arrays _ hmem
    cases hl : linearIndex index a.dims with
    | error e => exact ⟨hw, hr, eok_fail (linearIndex_err _ _ _ hl)⟩
    | ok i =>
      have hi := linearIndex_bound _ _ _ hl
      simp only at hcount
      cases a with
      | strs dims cells =>
        simp only [ArrayV.cellCount] at hcount
        have hlt : i < cells.length := by rw [hcount]; exact hi
        simp only [List.getElem?_eq_getElem hlt]
        exact ⟨hw, hr, trivial⟩
      | nums dims cells =>
        simp only [ArrayV.cellCount] at hcount
        have hlt : i < cells.length := by rw [hcount]; exact hi
        simp only [List.getElem?_eq_getElem hlt]
        exact ⟨hw, hr, trivial⟩

theorem good_arraySet (name : Str) (index : List Nat) (v : Value F) : Good ER T (arraySet name index v) := by
  intro s hs
  unfold arraySet
  split
  · exact ⟨hs, Fr.refl _, eok_fail rfl⟩
  · simp only [Bind.bind, M.bindM]
    rcases ensureArray_spec name index.length hs with ⟨e, he, h⟩ | ⟨s', h, hw, hr, hsome⟩
    · rw [h]; exact ⟨hs, Fr.refl _, eok_fail he⟩
    · rw [h]
      simp only [M.get]
      obtain ⟨a, ha⟩ := Option.isSome_iff_exists.mp hsome
      simp only [ha]
      obtain ⟨k', hmem⟩ := alGet_mem ha
      have hcount := hw.arrays _ hmem
      simp only at hcount
      have hupd : ∀ a' : ArrayV F, a'.cellCount = Props.C16.prod a'.dims →
          WFσ { s' with arrays := alSet name a' s'.arrays } := by
        intro a' ha'
        refine { hw with arrays := ?_ }
        intro p hp
        rcases mem_alSet hp with rfl | hp
        · exact ha'
        · exact hw.arrays p hp
      have hrel : ∀ a' : ArrayV F, ER s { s' with arrays := alSet name a' s'.arrays } := fun a' =>
        ⟨hr.nesting, hr.stack, hr.fns, hr.lines, hr.imm, hr.line, hr.idx⟩
      cases a with
      | strs dims cells =>
        cases v with
        | num x => exact ⟨hw, hr, eok_fail rfl⟩
        | str x =>
          simp only
          cases hl : linearIndex index dims with
          | error e => exact ⟨hw, hr, eok_fail (linearIndex_err _ _ _ hl)⟩
          | ok i =>
            have hi := linearIndex_bound _ _ _ hl
            simp only [ArrayV.cellCount, ArrayV.dims] at hcount
            have hlt : i < cells.length := by rw [hcount]; exact hi
            simp only [hlt, if_true]
            exact ⟨hupd _ (by simp only [ArrayV.cellCount, ArrayV.dims, List.length_set]; exact hcount), hrel _, trivial⟩
      | nums dims cells =>
        cases v with
        | str x => exact ⟨hw, hr, eok_fail rfl⟩
        | num x =>
          simp only
          cases hl : linearIndex index dims with
          | error e => exact ⟨hw, hr, eok_fail (linearIndex_err _ _ _ hl)⟩
          | ok i =>
            have hi := linearIndex_bound _ _ _ hl
            simp only [ArrayV.cellCount, ArrayV.dims] at hcount
            have hlt : i < cells.length := by rw [hcount]; exact hi
            simp only [hlt, if_true]
            exact ⟨hupd _ (by simp only [ArrayV.cellCount, ArrayV.dims, List.length_set]; exact hcount), hrel _, trivial⟩

theorem good_arrayCreate (name : Str) (idx : List Nat) : Good ER T (arrayCreate (F := F) name idx) := by
  unfold arrayCreate
  refine Good.get_bind' fun s0 hs0 => ?_
  split
  · exact GoodAt.fail hs0 (Fr.refl _) rfl
  · split
    · rename_i a hc
      refine GoodAt.set { hs0 with arrays := ?_ } (er_same rfl rfl rfl rfl rfl rfl)
      intro p hp
      rcases mem_alSet hp with rfl | hp
      · exact (Props.C16.create_spec _ _ _ hc).1
      · exact hs0.arrays p hp
    · rename_i e hc
      exact GoodAt.fail hs0 (Fr.refl _) (create_err_plain _ _ _ hc)

omit [NumOps F] in
theorem WFσ.setRng {s : St F} (hs : WFσ s) {k : Nat} (hk : k < 2 ^ 33) : WFσ { s with rng := k } :=
  { hs with rng := hk }

theorem good_rnd (x : F) : Good ER T (rnd x) := by
  intro s hs
  cases hneg : NumOps.lt x (NumOps.zero : F)
  · cases hz : NumOps.eq x (NumOps.zero : F)
    · rw [Props.C18.rnd_positive x s hs.rng hneg hz]
      exact ⟨hs.setRng (Props.C18.lcg_lt s.rng), er_same rfl rfl rfl rfl rfl rfl, trivial⟩
    · rw [Props.C18.rnd_zero x s hneg hz]
      exact ⟨hs, Fr.refl _, trivial⟩
  · rw [Props.C18.rnd_negative x s hneg]
    exact ⟨hs, Fr.refl _, eok_fail rfl⟩

end

end Abasic.WF
