import Abasic.Proofs.Typing2Fold
import Abasic.Props.C03All
/-
  C06 for the whole statement language `RStmt3` (DEF included, expressions of
  the full language `Expr2`), spec side.

  * `sigAfterS sig s` — the signatures after the analyzer has walked `s`.
  * `typeOfS3 sig le s` — the static check of one statement relative to the
      signatures `sig` and the existing line numbers `le`; `Typed3` the same as a
      judgement (`typeOfS3_ok_iff`).
      RESTRICTION: the THEN branch of an IF that has an ELSE branch must not
      contain a DEF (`defFree`); then both branches are checked w.r.t.
      the same `sig` (the analyzer checks the ELSE branch w.r.t.
      `sigAfterS sig thenBranch`, which is `sig` for a DEF-free branch:
      `sigAfterS_defFree`).  `RStmt3.closes`, which `RStmt3.Covered` demands of
      such a branch, implies it (`defFree_of_closes`).  The check answers
      `.syntax .unexpectedToken` for a tree that violates the restriction.
      READ t₁, …: the subscripts of every cell target are numbers (`typeTargets`);
      scalar targets need no check (the item is coerced by the name).
  * `TInv3 r` — variables and arrays of a reference state hold what their names
      announce.  Nothing about functions.
  * `exec3_typed` — a checked statement, run by `RStmt3.exec` in a state with
      `TInv3 r` and `FnsTyped sig r.fns`, ends only in `RunErr2` errors (READ:
      DATA TYPE MISMATCH, as `errorAt`), jumps only to existing lines, keeps `TInv3`.
  * `sigAt`, `typeOfP3`, `DefsAgree`, `rsteps3_typed` — whole programs.
-/
set_option linter.unusedSectionVars false

namespace Abasic.Props.C06
open Abasic Abasic.Ref Abasic.ExprL Abasic.ExprL2 Abasic.Stmt2L

variable {F : Type} [NumOps F]

/-! ### 1. the static check -/

/-- the signatures after the analyzer has walked the statement -/
def sigAfterS : Sig → RStmt3 F → Sig
  | sig, .defS f ps _ => fun g => if g = f then some (ps.map VT.ofName, VT.ofName f) else sig g
  | sig, .ifS _ a none => sigAfterS sig a
  | sig, .ifS _ a (some b) => sigAfterS (sigAfterS sig a) b
  | sig, _ => sig

/-- no DEF anywhere in the statement -/
def defFree : RStmt3 F → Bool
  | .defS _ _ _ => false
  | .ifS _ a none => defFree a
  | .ifS _ a (some b) => defFree a && defFree b
  | _ => true

theorem sigAfterS_defFree : ∀ (s : RStmt3 F) (sig : Sig), defFree s = true → sigAfterS sig s = sig
  | .defS _ _ _, sig, h => by simp [defFree] at h
  | .ifS _ a none, sig, h => by
    simp only [defFree] at h
    simp only [sigAfterS]; exact sigAfterS_defFree a sig h
  | .ifS _ a (some b), sig, h => by
    simp only [defFree, Bool.and_eq_true] at h
    simp only [sigAfterS]
    rw [sigAfterS_defFree a sig h.1]; exact sigAfterS_defFree b sig h.2
  | .letS _ _, sig, _ => rfl
  | .printS _, sig, _ => rfl
  | .gotoS _, sig, _ => rfl
  | .endS, sig, _ => rfl
  | .lineS _, sig, _ => rfl
  | .forS _ _ _ _, sig, _ => rfl
  | .nextS _, sig, _ => rfl
  | .gosubS _, sig, _ => rfl
  | .returnS, sig, _ => rfl
  | .readS _, sig, _ => rfl
  | .dataS _, sig, _ => rfl
  | .restoreS, sig, _ => rfl
  | .dimS _ _, sig, _ => rfl
  | .letCellS _ _ _, sig, _ => rfl

theorem defFree_of_closes (s : RStmt3 F) (h : s.closes = true) : defFree s = true := by
  cases s <;> first | rfl | (simp [RStmt3.closes] at h)

/-- the expression is typed (any kind) -/
def typeAny (sig : Sig) (e : Expr2 F) : Except Err Unit :=
  match typeOf2 sig e with
  | .error x => .error x
  | .ok _ => .ok ()

/-- the expression is typed, with kind `t` -/
def typeAs (sig : Sig) (t : VT) (e : Expr2 F) : Except Err Unit :=
  match typeOf2 sig e with
  | .error x => .error x
  | .ok t' => if t' = t then .ok () else .error .typeMismatch

/-- the optional STEP of a FOR -/
def typeStep2 (sig : Sig) : Option (Expr2 F) → Except Err Unit
  | none => .ok ()
  | some c => typeAs sig .num c

/-- the expressions of a PRINT list are typed -/
def typeItems3 (sig : Sig) : List (PItem3 F) → Except Err Unit
  | [] => .ok ()
  | .expr e :: rest =>
    match typeAny sig e with
    | .error x => .error x
    | .ok _ => typeItems3 sig rest
  | _ :: rest => typeItems3 sig rest

/-- the subscripts of the cell targets of a READ are numbers (scalars: nothing to check) -/
def typeTargets (sig : Sig) : List (RTarget F) → Except Err Unit
  | [] => .ok ()
  | .scalar _ :: rest => typeTargets sig rest
  | .cell _ idx :: rest =>
    match typeIdx sig idx with
    | .error x => .error x
    | .ok _ => typeTargets sig rest

def lineOK (le : Nat → Bool) (n : Nat) : Except Err Unit :=
  if le n then .ok () else .error .undefinedStatement

/-- What the analyzer checks on a statement of `RStmt3` when `sig` are the
    definitions it has seen; the first error in token order. -/
def typeOfS3 (sig : Sig) (le : Nat → Bool) : RStmt3 F → Except Err Unit
  | .letS v e => typeAs sig (VT.ofName v) e
  | .printS items => typeItems3 sig items
  | .gotoS n => lineOK le n
  | .gosubS n => lineOK le n
  | .lineS n => lineOK le n
  | .endS => .ok ()
  | .returnS => .ok ()
  | .readS ts => typeTargets sig ts
  | .dataS _ => .ok ()
  | .restoreS => .ok ()
  | .ifS c a none =>
    match typeAny sig c with
    | .error x => .error x
    | .ok _ => typeOfS3 sig le a
  | .ifS c a (some b) =>
    match typeAny sig c with
    | .error x => .error x
    | .ok _ =>
      match typeOfS3 sig le a with
      | .error x => .error x
      | .ok _ => if defFree a then typeOfS3 sig le b else .error (.syntax .unexpectedToken)
  | .forS v a b c =>
    if VT.ofName v = .num then
      match typeAs sig .num a with
      | .error x => .error x
      | .ok _ =>
        match typeAs sig .num b with
        | .error x => .error x
        | .ok _ => typeStep2 sig c
    else .error .typeMismatch
  | .nextS v => if VT.ofName v = .num then .ok () else .error .typeMismatch
  | .dimS _ idx => typeIdx sig idx
  | .letCellS name idx e =>
    match typeIdx sig idx with
    | .error x => .error x
    | .ok _ => typeAs sig (VT.ofName name) e
  | .defS f ps body =>
    typeAs (fun g => if g = f then some (ps.map VT.ofName, VT.ofName f) else sig g) (VT.ofName f) body

/-- **The typing judgement** for the statements of `RStmt3`. -/
def Typed3 (sig : Sig) (le : Nat → Bool) : RStmt3 F → Prop
  | .letS v e => typeOf2 sig e = .ok (VT.ofName v)
  | .printS items => ∀ e, PItem3.expr e ∈ items → ∃ t, typeOf2 sig e = .ok t
  | .gotoS n => le n = true
  | .gosubS n => le n = true
  | .lineS n => le n = true
  | .ifS c a none => (∃ t, typeOf2 sig c = .ok t) ∧ Typed3 sig le a
  | .ifS c a (some b) => (∃ t, typeOf2 sig c = .ok t) ∧ Typed3 sig le a ∧ defFree a = true ∧ Typed3 sig le b
  | .forS v a b c =>
    VT.ofName v = .num ∧ typeOf2 sig a = .ok .num ∧ typeOf2 sig b = .ok .num ∧
      ∀ e, c = some e → typeOf2 sig e = .ok .num
  | .nextS v => VT.ofName v = .num
  | .readS ts => ∀ name idx, RTarget.cell name idx ∈ ts → typeIdx sig idx = .ok ()
  | .dimS _ idx => typeIdx sig idx = .ok ()
  | .letCellS name idx e => typeIdx sig idx = .ok () ∧ typeOf2 sig e = .ok (VT.ofName name)
  | .defS f ps body => typeOf2 (sigAfterS sig (.defS f ps body)) body = .ok (VT.ofName f)
  | _ => True

theorem typeAny_ok_iff (sig : Sig) (e : Expr2 F) : typeAny sig e = .ok () ↔ ∃ t, typeOf2 sig e = .ok t := by
  unfold typeAny
  cases typeOf2 sig e with
  | error x => simp
  | ok t => simp

theorem typeAs_ok_iff (sig : Sig) (t : VT) (e : Expr2 F) : typeAs sig t e = .ok () ↔ typeOf2 sig e = .ok t := by
  unfold typeAs
  cases typeOf2 sig e with
  | error x => simp
  | ok t' =>
    by_cases h : t' = t
    · simp [h]
    · simp [h]

theorem typeStep2_ok_iff (sig : Sig) (c : Option (Expr2 F)) :
    typeStep2 sig c = .ok () ↔ ∀ e, c = some e → typeOf2 sig e = .ok .num := by
  cases c with
  | none => simp [typeStep2]
  | some e => simp [typeStep2, typeAs_ok_iff]

theorem typeItems3_ok_iff (sig : Sig) : ∀ (items : List (PItem3 F)),
    typeItems3 sig items = .ok () ↔ ∀ e, PItem3.expr e ∈ items → ∃ t, typeOf2 sig e = .ok t
  | [] => by simp [typeItems3]
  | .semi :: rest => by simp [typeItems3, typeItems3_ok_iff sig rest]
  | .comma :: rest => by simp [typeItems3, typeItems3_ok_iff sig rest]
  | .expr e :: rest => by
    simp only [typeItems3]
    cases h : typeAny sig e with
    | error x =>
      have : ¬ ∃ t, typeOf2 sig e = .ok t := fun h' => by rw [(typeAny_ok_iff sig e).2 h'] at h; cases h
      simp only [reduceCtorEq, false_iff]
      exact fun h' => this (h' e List.mem_cons_self)
    | ok u =>
      have h1 := (typeAny_ok_iff sig e).1 h
      simp only [typeItems3_ok_iff sig rest, List.mem_cons, PItem3.expr.injEq]
      constructor
      · intro hr e' he'
        rcases he' with rfl | he'
        · exact h1
        · exact hr e' he'
      · intro hr e' he'
        exact hr e' (.inr he')

theorem typeTargets_ok_iff (sig : Sig) : ∀ (ts : List (RTarget F)),
    typeTargets sig ts = .ok () ↔ ∀ name idx, RTarget.cell name idx ∈ ts → typeIdx sig idx = .ok ()
  | [] => by simp [typeTargets]
  | .scalar x :: rest => by simp [typeTargets, typeTargets_ok_iff sig rest]
  | .cell name idx :: rest => by
    simp only [typeTargets]
    cases h : typeIdx sig idx with
    | error x =>
      simp only [reduceCtorEq, false_iff]
      intro h'
      have := h' name idx List.mem_cons_self
      rw [h] at this
      cases this
    | ok u =>
      simp only [typeTargets_ok_iff sig rest, List.mem_cons, RTarget.cell.injEq]
      constructor
      · intro hr name' idx' he
        rcases he with ⟨rfl, rfl⟩ | he
        · exact h
        · exact hr name' idx' he
      · intro hr name' idx' he
        exact hr name' idx' (.inr he)

theorem lineOK_ok_iff (le : Nat → Bool) (n : Nat) : lineOK le n = .ok () ↔ le n = true := by
  unfold lineOK
  cases le n <;> simp

/-- the check passes iff the statement is typed -/
theorem typeOfS3_ok_iff (sig : Sig) (le : Nat → Bool) :
    ∀ s : RStmt3 F, typeOfS3 sig le s = .ok () ↔ Typed3 sig le s
  | .letS v e => by simp only [typeOfS3, Typed3]; exact typeAs_ok_iff sig _ e
  | .printS items => by simp only [typeOfS3, Typed3]; exact typeItems3_ok_iff sig items
  | .gotoS n => by simp only [typeOfS3, Typed3]; exact lineOK_ok_iff le n
  | .gosubS n => by simp only [typeOfS3, Typed3]; exact lineOK_ok_iff le n
  | .lineS n => by simp only [typeOfS3, Typed3]; exact lineOK_ok_iff le n
  | .endS => by simp [typeOfS3, Typed3]
  | .returnS => by simp [typeOfS3, Typed3]
  | .readS ts => by simp only [typeOfS3, Typed3]; exact typeTargets_ok_iff sig ts
  | .dataS _ => by simp [typeOfS3, Typed3]
  | .restoreS => by simp [typeOfS3, Typed3]
  | .ifS c a none => by
    simp only [typeOfS3, Typed3]
    cases hc : typeAny sig c with
    | error x =>
      have : ¬ ∃ t, typeOf2 sig c = .ok t := fun h' => by rw [(typeAny_ok_iff sig c).2 h'] at hc; cases hc
      simp [this]
    | ok u =>
      have h1 := (typeAny_ok_iff sig c).1 hc
      simp only [typeOfS3_ok_iff sig le a]
      exact ⟨fun h => ⟨h1, h⟩, fun h => h.2⟩
  | .ifS c a (some b) => by
    simp only [typeOfS3, Typed3]
    cases hc : typeAny sig c with
    | error x =>
      have : ¬ ∃ t, typeOf2 sig c = .ok t := fun h' => by rw [(typeAny_ok_iff sig c).2 h'] at hc; cases hc
      simp [this]
    | ok u =>
      have h1 := (typeAny_ok_iff sig c).1 hc
      cases ha : typeOfS3 sig le a with
      | error x =>
        have : ¬ Typed3 sig le a := fun h' => by rw [(typeOfS3_ok_iff sig le a).2 h'] at ha; cases ha
        simp [this]
      | ok u' =>
        have h2 := (typeOfS3_ok_iff sig le a).1 ha
        cases hd : defFree a with
        | false => simp
        | true =>
          simp only [if_true, typeOfS3_ok_iff sig le b]
          exact ⟨fun h => ⟨h1, h2, trivial, h⟩, fun h => h.2.2.2⟩
  | .forS v a b c => by
    simp only [typeOfS3, Typed3]
    by_cases hv : VT.ofName v = .num
    · rw [if_pos hv]
      cases ha : typeAs sig .num a with
      | error x =>
        have : ¬ typeOf2 sig a = .ok .num := fun h' => by rw [(typeAs_ok_iff sig _ a).2 h'] at ha; cases ha
        simp [this]
      | ok u =>
        have ha' := (typeAs_ok_iff sig _ a).1 ha
        cases hb : typeAs sig .num b with
        | error x =>
          have : ¬ typeOf2 sig b = .ok .num := fun h' => by rw [(typeAs_ok_iff sig _ b).2 h'] at hb; cases hb
          simp [this]
        | ok u =>
          have hb' := (typeAs_ok_iff sig _ b).1 hb
          simp only [typeStep2_ok_iff, hv, ha', hb', true_and]
    · rw [if_neg hv]; simp [hv]
  | .nextS v => by
    simp only [typeOfS3, Typed3]
    by_cases hv : VT.ofName v = .num <;> simp [hv]
  | .dimS _ idx => by simp only [typeOfS3, Typed3]
  | .letCellS name idx e => by
    simp only [typeOfS3, Typed3]
    cases hi : typeIdx sig idx with
    | error x => simp
    | ok u => simp only [typeAs_ok_iff, true_and]
  | .defS f ps body => by
    simp only [typeOfS3, Typed3, sigAfterS]; exact typeAs_ok_iff _ _ body

/-! ### 1b. the static errors; the restriction on THEN branches is vacuous on covered statements -/

theorem typeAny_error {sig : Sig} {e : Expr2 F} {x : Err} (h : typeAny sig e = .error x) :
    x = .typeMismatch ∨ ∃ s, x = .syntax s := by
  unfold typeAny at h
  cases he : typeOf2 sig e with
  | error y => rw [he] at h; cases h; exact typeOf2_error sig e _ he
  | ok t => rw [he] at h; cases h

theorem typeAs_error {sig : Sig} {t : VT} {e : Expr2 F} {x : Err} (h : typeAs sig t e = .error x) :
    x = .typeMismatch ∨ ∃ s, x = .syntax s := by
  unfold typeAs at h
  cases he : typeOf2 sig e with
  | error y => rw [he] at h; cases h; exact typeOf2_error sig e _ he
  | ok t' =>
    rw [he] at h
    by_cases ht : t' = t
    · simp only [if_pos ht] at h; cases h
    · simp only [if_neg ht, Except.error.injEq] at h; exact .inl h.symm

theorem typeItems3_error {sig : Sig} : ∀ (items : List (PItem3 F)) (x : Err),
    typeItems3 sig items = .error x → x = .typeMismatch ∨ ∃ s, x = .syntax s
  | [], x, h => by cases h
  | .semi :: rest, x, h => typeItems3_error rest x (by simpa only [typeItems3] using h)
  | .comma :: rest, x, h => typeItems3_error rest x (by simpa only [typeItems3] using h)
  | .expr e :: rest, x, h => by
    simp only [typeItems3] at h
    cases he : typeAny sig e with
    | error y => rw [he] at h; cases h; exact typeAny_error he
    | ok u => rw [he] at h; exact typeItems3_error rest x h

theorem typeTargets_error {sig : Sig} : ∀ (ts : List (RTarget F)) (x : Err),
    typeTargets sig ts = .error x → x = .typeMismatch ∨ ∃ s, x = .syntax s
  | [], x, h => by cases h
  | .scalar _ :: rest, x, h => typeTargets_error rest x (by simpa only [typeTargets] using h)
  | .cell _ idx :: rest, x, h => by
    simp only [typeTargets] at h
    cases hi : typeIdx sig idx with
    | error y => rw [hi] at h; cases h; exact typeIdx_error sig idx _ hi
    | ok u => rw [hi] at h; exact typeTargets_error rest x h

theorem lineOK_error {le : Nat → Bool} {n : Nat} {x : Err} (h : lineOK le n = .error x) :
    x = .undefinedStatement := by
  unfold lineOK at h
  cases hl : le n with
  | true => rw [hl] at h; cases h
  | false => rw [hl] at h; simp only [Bool.false_eq_true, ↓reduceIte, Except.error.injEq] at h; exact h.symm

/-- the static errors: TYPE MISMATCH, a syntax error, UNDEF'D STATEMENT -/
theorem typeOfS3_error (sig : Sig) (le : Nat → Bool) : ∀ (s : RStmt3 F) (x : Err),
    typeOfS3 sig le s = .error x → x = .typeMismatch ∨ (∃ se, x = .syntax se) ∨ x = .undefinedStatement
  | .letS v e, x, h => by
    simp only [typeOfS3] at h
    rcases typeAs_error h with h | h
    · exact .inl h
    · exact .inr (.inl h)
  | .printS items, x, h => by
    simp only [typeOfS3] at h
    rcases typeItems3_error items x h with h | h
    · exact .inl h
    · exact .inr (.inl h)
  | .gotoS n, x, h => by simp only [typeOfS3] at h; exact .inr (.inr (lineOK_error h))
  | .gosubS n, x, h => by simp only [typeOfS3] at h; exact .inr (.inr (lineOK_error h))
  | .lineS n, x, h => by simp only [typeOfS3] at h; exact .inr (.inr (lineOK_error h))
  | .endS, x, h => by cases h
  | .returnS, x, h => by cases h
  | .readS ts, x, h => by
    simp only [typeOfS3] at h
    rcases typeTargets_error ts x h with h | h
    · exact .inl h
    · exact .inr (.inl h)
  | .dataS _, x, h => by cases h
  | .restoreS, x, h => by cases h
  | .ifS c a none, x, h => by
    simp only [typeOfS3] at h
    cases hc : typeAny sig c with
    | error y =>
      rw [hc] at h; cases h
      rcases typeAny_error hc with h | h
      · exact .inl h
      · exact .inr (.inl h)
    | ok u => rw [hc] at h; exact typeOfS3_error sig le a x h
  | .ifS c a (some b), x, h => by
    simp only [typeOfS3] at h
    cases hc : typeAny sig c with
    | error y =>
      rw [hc] at h; cases h
      rcases typeAny_error hc with h | h
      · exact .inl h
      · exact .inr (.inl h)
    | ok u =>
      rw [hc] at h
      cases ha : typeOfS3 sig le a with
      | error y => rw [ha] at h; cases h; exact typeOfS3_error sig le a _ ha
      | ok u' =>
        rw [ha] at h
        cases hd : defFree a with
        | true => rw [hd] at h; exact typeOfS3_error sig le b x h
        | false =>
          rw [hd] at h
          simp only [Bool.false_eq_true, ↓reduceIte, Except.error.injEq] at h
          exact .inr (.inl ⟨_, h.symm⟩)
  | .forS v a b c, x, h => by
    simp only [typeOfS3] at h
    by_cases hv : VT.ofName v = .num
    · rw [if_pos hv] at h
      have key : ∀ {e : Expr2 F} {y : Err}, typeAs sig .num e = .error y →
          y = .typeMismatch ∨ (∃ se, y = .syntax se) ∨ y = .undefinedStatement := by
        intro e y hy
        rcases typeAs_error hy with h | h
        · exact .inl h
        · exact .inr (.inl h)
      cases ha : typeAs sig .num a with
      | error y => rw [ha] at h; cases h; exact key ha
      | ok u =>
        rw [ha] at h
        cases hb : typeAs sig .num b with
        | error y => rw [hb] at h; cases h; exact key hb
        | ok u =>
          rw [hb] at h
          cases c with
          | none => cases h
          | some c => exact key h
    · rw [if_neg hv] at h; simp only [Except.error.injEq] at h; exact .inl h.symm
  | .nextS v, x, h => by
    simp only [typeOfS3] at h
    by_cases hv : VT.ofName v = .num
    · rw [if_pos hv] at h; cases h
    · rw [if_neg hv] at h; simp only [Except.error.injEq] at h; exact .inl h.symm
  | .dimS _ idx, x, h => by
    simp only [typeOfS3] at h
    rcases typeIdx_error sig idx x h with h | h
    · exact .inl h
    · exact .inr (.inl h)
  | .letCellS name idx e, x, h => by
    simp only [typeOfS3] at h
    cases hi : typeIdx sig idx with
    | error y =>
      rw [hi] at h; cases h
      rcases typeIdx_error sig idx _ hi with h | h
      · exact .inl h
      · exact .inr (.inl h)
    | ok u =>
      rw [hi] at h
      rcases typeAs_error h with h | h
      · exact .inl h
      · exact .inr (.inl h)
  | .defS f ps body, x, h => by
    simp only [typeOfS3] at h
    rcases typeAs_error h with h | h
    · exact .inl h
    · exact .inr (.inl h)

/-- the check exactly as the analyzer walks an IF: the ELSE branch w.r.t. the
    signatures after the THEN branch, no restriction on the THEN branch -/
def typeOfS3A (le : Nat → Bool) : Sig → RStmt3 F → Except Err Unit
  | sig, .ifS c a none =>
    match typeAny sig c with
    | .error x => .error x
    | .ok _ => typeOfS3A le sig a
  | sig, .ifS c a (some b) =>
    match typeAny sig c with
    | .error x => .error x
    | .ok _ =>
      match typeOfS3A le sig a with
      | .error x => .error x
      | .ok _ => typeOfS3A le (sigAfterS sig a) b
  | sig, s => typeOfS3 sig le s

/-- on the statements covered by the refinement theorems (a THEN branch in front
    of an ELSE `closes`) the restriction of `typeOfS3` is vacuous: it is the
    analyzer's walk -/
theorem typeOfS3A_covered (le : Nat → Bool) : ∀ (s : RStmt3 F) (sig : Sig), s.CoveredB →
    typeOfS3A le sig s = typeOfS3 sig le s
  | .ifS c a none, sig, h => by
    simp only [RStmt3.CoveredB] at h
    simp only [typeOfS3A, typeOfS3, typeOfS3A_covered le a sig h.2]
  | .ifS c a (some b), sig, h => by
    simp only [RStmt3.CoveredB] at h
    have hd := defFree_of_closes a h.1
    simp only [typeOfS3A, typeOfS3, typeOfS3A_covered le a sig h.2.1, sigAfterS_defFree a sig hd,
      typeOfS3A_covered le b sig h.2.2, hd, if_true]
  | .letS _ _, sig, _ => by simp only [typeOfS3A]
  | .printS _, sig, _ => by simp only [typeOfS3A]
  | .gotoS _, sig, _ => by simp only [typeOfS3A]
  | .endS, sig, _ => by simp only [typeOfS3A]
  | .lineS _, sig, _ => by simp only [typeOfS3A]
  | .forS _ _ _ _, sig, _ => by simp only [typeOfS3A]
  | .nextS _, sig, _ => by simp only [typeOfS3A]
  | .gosubS _, sig, _ => by simp only [typeOfS3A]
  | .returnS, sig, _ => by simp only [typeOfS3A]
  | .readS _, sig, _ => by simp only [typeOfS3A]
  | .dataS _, sig, _ => by simp only [typeOfS3A]
  | .restoreS, sig, _ => by simp only [typeOfS3A]
  | .dimS _ _, sig, _ => by simp only [typeOfS3A]
  | .letCellS _ _ _, sig, _ => by simp only [typeOfS3A]
  | .defS _ _ _, sig, _ => by simp only [typeOfS3A]

/-! ### 2. the invariant -/

/-- variables and arrays hold what their names announce -/
structure TInv3 (r : RState3 F) : Prop where
  vars : BindTyped r.vars
  kind : ArrKind r.arrays

/-- the invariant, and the function table agrees with the signatures `sig` -/
structure Good3 (sig : Sig) (r : RState3 F) : Prop where
  inv : TInv3 r
  fns : FnsTyped sig r.fns

theorem envTyped_env {sig : Sig} {r : RState3 F} (h : Good3 sig r) : EnvTyped sig r.env :=
  ⟨h.inv.vars, fun fr hfr => by
    simp only [RState3.env, List.mem_map] at hfr
    obtain ⟨_, _, rfl⟩ := hfr
    exact bindTyped_nil, h.inv.kind, h.fns⟩

theorem good3_put {sig : Sig} {r : RState3 F} {env' : RefEnv F} (h : Good3 sig r) (henv : EnvTyped sig env') :
    Good3 sig (r.put env') :=
  ⟨⟨h.inv.vars, henv.arrays⟩, h.fns⟩

theorem tinv3_start (p : RProgram3 F) (g : Nat) : TInv3 (p.start g) :=
  ⟨bindTyped_nil, fun k a h => by simp [RProgram3.start, alGet] at h⟩

/-! ### 3. a checked statement on the reference semantics -/

theorem evalE_typed {sig : Sig} {r : RState3 F} (h : Good3 sig r) {e : Expr2 F} {t : VT}
    (ht : typeOf2 sig e = .ok t) :
    (∀ v r1, evalE r e = .ok (v, r1) → kindOf v = t ∧ Good3 sig r1) ∧
    (∀ x, evalE r e = .error x → RunErr2 x) := by
  have hp := fold2_typed sig callFuel e r.env t (envTyped_env h) ht
  unfold evalE
  cases hf : fold2 callFuel r.env e with
  | error x =>
    refine ⟨fun v r1 he => (by cases he), fun y he => ?_⟩
    simp only [Except.error.injEq] at he
    subst he
    exact hp.2 x hf
  | ok q =>
    obtain ⟨v, env'⟩ := q
    obtain ⟨hk, he'⟩ := hp.1 v env' hf
    refine ⟨fun v' r1 he => ?_, fun y he => (by cases he)⟩
    simp only [Except.ok.injEq, Prod.mk.injEq] at he
    obtain ⟨rfl, rfl⟩ := he
    exact ⟨hk, good3_put h he'⟩

theorem numE3_typed {sig : Sig} {r : RState3 F} (h : Good3 sig r) {e : Expr2 F}
    (ht : typeOf2 sig e = .ok .num) :
    (∀ x r1, numE3 r e = .ok (x, r1) → Good3 sig r1) ∧ (∀ y, numE3 r e = .error y → RunErr2 y) := by
  obtain ⟨h1, h2⟩ := evalE_typed h ht
  unfold numE3
  cases hev : evalE r e with
  | error x =>
    refine ⟨fun v r1 he => (by cases he), fun y he => ?_⟩
    simp only [Except.error.injEq] at he
    subst he
    exact h2 x hev
  | ok q =>
    obtain ⟨v, r1⟩ := q
    obtain ⟨hk, hg⟩ := h1 v r1 hev
    cases v with
    | str s => cases hk
    | num z =>
      refine ⟨fun x r1' he => ?_, fun y he => (by cases he)⟩
      simp only [Except.ok.injEq, Prod.mk.injEq] at he
      obtain ⟨_, rfl⟩ := he
      exact hg

theorem stepE3_typed {sig : Sig} {r : RState3 F} (h : Good3 sig r) {c : Option (Expr2 F)}
    (ht : ∀ e, c = some e → typeOf2 sig e = .ok .num) :
    (∀ x r1, stepE3 r c = .ok (x, r1) → Good3 sig r1) ∧ (∀ y, stepE3 r c = .error y → RunErr2 y) := by
  cases c with
  | none =>
    refine ⟨fun x r1 he => ?_, fun y he => (by cases he)⟩
    simp only [stepE3, Except.ok.injEq, Prod.mk.injEq] at he
    obtain ⟨_, rfl⟩ := he
    exact h
  | some e => exact numE3_typed h (ht e rfl)

theorem evalIdx_typed {sig : Sig} {r : RState3 F} (h : Good3 sig r) {idx : List (Expr2 F)}
    (ht : typeIdx sig idx = .ok ()) :
    (∀ is r1, evalIdx r idx = .ok (is, r1) → Good3 sig r1) ∧ (∀ y, evalIdx r idx = .error y → RunErr2 y) := by
  have hp := foldIdx_typed sig callFuel idx r.env (envTyped_env h) ht
  unfold evalIdx
  cases hf : foldIdx callFuel r.env idx with
  | error x =>
    refine ⟨fun v r1 he => (by cases he), fun y he => ?_⟩
    simp only [Except.error.injEq] at he
    subst he
    exact hp.2 x hf
  | ok q =>
    obtain ⟨is, env'⟩ := q
    have he' := hp.1 is env' hf
    refine ⟨fun v' r1 he => ?_, fun y he => (by cases he)⟩
    simp only [Except.ok.injEq, Prod.mk.injEq] at he
    obtain ⟨_, rfl⟩ := he
    exact good3_put h he'

theorem printText3_typed {sig : Sig} : ∀ (items : List (PItem3 F)) (r : RState3 F) (semi : Bool) (acc : Str),
    Good3 sig r → (∀ e, PItem3.expr e ∈ items → ∃ t, typeOf2 sig e = .ok t) →
    (∀ text r1, printText3 r items semi acc = .ok (text, r1) → Good3 sig r1) ∧
    (∀ y, printText3 r items semi acc = .error y → RunErr2 y)
  | [], r, semi, acc, h, _ => by
    refine ⟨fun text r1 he => ?_, fun y he => (by cases he)⟩
    simp only [printText3, Except.ok.injEq, Prod.mk.injEq] at he
    obtain ⟨_, rfl⟩ := he
    exact h
  | .semi :: rest, r, semi, acc, h, ht => by
    simp only [printText3]
    exact printText3_typed rest r true acc h (fun e he => ht e (List.mem_cons_of_mem _ he))
  | .comma :: rest, r, semi, acc, h, ht => by
    simp only [printText3]
    exact printText3_typed rest r false _ h (fun e he => ht e (List.mem_cons_of_mem _ he))
  | .expr e :: rest, r, semi, acc, h, ht => by
    obtain ⟨t, hte⟩ := ht e List.mem_cons_self
    obtain ⟨h1, h2⟩ := evalE_typed h hte
    simp only [printText3]
    cases hev : evalE r e with
    | error x =>
      refine ⟨fun v r1 he => (by cases he), fun y he => ?_⟩
      simp only [Except.error.injEq] at he
      subst he
      exact h2 x hev
    | ok q =>
      obtain ⟨v, r1⟩ := q
      exact printText3_typed rest r1 false _ (h1 v r1 hev).2 (fun e he => ht e (List.mem_cons_of_mem _ he))

theorem envOf_matches {vars : List (Str × Value F)} (h : BindTyped vars) (name : Str) :
    (envOf vars name).matchesName name = true := by
  unfold envOf
  cases hg : alGet name vars with
  | some v => exact h name v hg
  | none => exact defaultFor_matches name

/-- what the reference step of a checked statement can do -/
structure Exec3OK (le : Nat → Bool) (res : RState3 F × Ctl2) : Prop where
  /-- an error reported for the line of the statement is one of `RunErr2` -/
  err : ∀ x, res.2 = .error x → RunErr2 x
  /-- an error reported for another line is READ's DATA TYPE MISMATCH -/
  errAt : ∀ x ln, res.2 = .errorAt x ln → x = .dataTypeMismatch
  /-- a jump goes to a line the check has seen -/
  jump : ∀ m, res.2 = .jump m → le m = true
  /-- the state satisfies the invariant again -/
  inv : TInv3 res.1

theorem exec3OK_of {le : Nat → Bool} {res : RState3 F × Ctl2} {c : Ctl2} (hc : res.2 = c) (hinv : TInv3 res.1)
    (h1 : ∀ x, c = .error x → RunErr2 x) (h2 : ∀ x ln, c = .errorAt x ln → x = .dataTypeMismatch)
    (h3 : ∀ m, c = .jump m → le m = true) : Exec3OK le res :=
  ⟨fun x hx => h1 x (hc ▸ hx), fun x ln hx => h2 x ln (hc ▸ hx), fun m hm => h3 m (hc ▸ hm), hinv⟩

theorem ok_err {le : Nat → Bool} {r : RState3 F} {e : Err} (hinv : TInv3 r) (he : RunErr2 e) :
    Exec3OK le (r, .error e) :=
  exec3OK_of rfl hinv (fun x hx => by cases hx; exact he) (fun x ln hx => by cases hx) (fun m hm => by cases hm)

/-- neither an error nor a jump -/
def Ctl2.quiet : Ctl2 → Prop
  | .next => True
  | .skipLine => True
  | .stop => True
  | .resume _ _ => True
  | _ => False

theorem ok_quiet {le : Nat → Bool} {r : RState3 F} {c : Ctl2} (hinv : TInv3 r) (hc : Ctl2.quiet c) :
    Exec3OK le (r, c) := by
  cases c with
  | error e => exact hc.elim
  | errorAt e ln => exact hc.elim
  | jump m => exact hc.elim
  | next => exact exec3OK_of rfl hinv (fun x hx => by cases hx) (fun x ln hx => by cases hx) (fun m hm => by cases hm)
  | skipLine => exact exec3OK_of rfl hinv (fun x hx => by cases hx) (fun x ln hx => by cases hx) (fun m hm => by cases hm)
  | stop => exact exec3OK_of rfl hinv (fun x hx => by cases hx) (fun x ln hx => by cases hx) (fun m hm => by cases hm)
  | resume a b => exact exec3OK_of rfl hinv (fun x hx => by cases hx) (fun x ln hx => by cases hx) (fun m hm => by cases hm)

theorem ok_jump {le : Nat → Bool} {r : RState3 F} {m : Nat} (hinv : TInv3 r) (hm : le m = true) :
    Exec3OK le (r, .jump m) :=
  exec3OK_of rfl hinv (fun x hx => by cases hx) (fun x ln hx => by cases hx) (fun m' h => by cases h; exact hm)

theorem ok_closeLine3 {le : Nat → Bool} {x : RState3 F × Ctl2} (h : Exec3OK le x) : Exec3OK le (closeLine3 x) := by
  obtain ⟨r, c⟩ := x
  cases c with
  | next => exact ok_quiet h.inv trivial
  | skipLine => exact h
  | stop => exact h
  | resume a b => exact h
  | jump m => exact h
  | error e => exact h
  | errorAt e ln => exact h

theorem RunErr2.redim : RunErr2 .redimensionedArray :=
  .inl (.inr (.inr (.inr (.inr (.inr (.inr (.inr (.inl rfl))))))))
theorem RunErr2.nextWithoutFor : RunErr2 .nextWithoutFor := .inl (.inr (.inl rfl))
theorem RunErr2.returnWithoutGosub : RunErr2 .returnWithoutGosub := .inl (.inr (.inr (.inl rfl)))
theorem RunErr2.outOfData : RunErr2 .outOfData := .inl (.inr (.inr (.inr (.inl rfl))))

/-! READ -/

theorem readScalar_typed {sig : Sig} {le : Nat → Bool} (items : List (Nat × DataElement F)) {r : RState3 F}
    (h : Good3 sig r) (name : Str) :
    Exec3OK le (readScalarSpec items r name) ∧
    ((readScalarSpec items r name).2 = .next → Good3 sig (readScalarSpec items r name).1) := by
  unfold readScalarSpec
  cases hi : items[r.data]? with
  | none => exact ⟨ok_err h.inv RunErr2.outOfData, fun hc => by cases hc⟩
  | some lnd =>
    obtain ⟨ln, d⟩ := lnd
    simp only
    cases hco : Value.coerceFromData name d with
    | error e =>
      have := coerce_err hco
      subst this
      exact ⟨exec3OK_of rfl ⟨h.inv.vars, h.inv.kind⟩ (fun x hx => by cases hx) (fun x ln' hx => by cases hx; rfl)
        (fun m hm => by cases hm), fun hc => by cases hc⟩
    | ok v =>
      have hm := coerce_matches hco
      exact ⟨ok_quiet ⟨bindTyped_alSet h.inv.vars hm, h.inv.kind⟩ trivial,
        fun _ => ⟨⟨bindTyped_alSet h.inv.vars hm, h.inv.kind⟩, h.fns⟩⟩

theorem readCell_spec_typed {sig : Sig} {le : Nat → Bool} (items : List (Nat × DataElement F)) {r : RState3 F}
    (h : Good3 sig r) (name : Str) {idx : List (Expr2 F)} (hti : typeIdx sig idx = .ok ()) :
    Exec3OK le (readCellSpec items r name idx) ∧
    ((readCellSpec items r name idx).2 = .next → Good3 sig (readCellSpec items r name idx).1) := by
  obtain ⟨h1, h2⟩ := evalIdx_typed h hti
  unfold readCellSpec
  cases hfi : evalIdx r idx with
  | error err => exact ⟨ok_err h.inv (h2 err hfi), fun hc => by cases hc⟩
  | ok q =>
    obtain ⟨index, r1⟩ := q
    have hg := h1 index r1 hfi
    simp only
    cases hi : items[r1.data]? with
    | none => exact ⟨ok_err hg.inv RunErr2.outOfData, fun hc => by cases hc⟩
    | some lnd =>
      obtain ⟨ln, d⟩ := lnd
      simp only
      cases hco : Value.coerceFromData name d with
      | error e =>
        have := coerce_err hco
        subst this
        exact ⟨exec3OK_of rfl ⟨hg.inv.vars, hg.inv.kind⟩ (fun x hx => by cases hx)
          (fun x ln' hx => by cases hx; rfl) (fun m hm => by cases hm), fun hc => by cases hc⟩
      | ok v =>
        have hm := coerce_matches hco
        simp only
        cases hcs : storeCell name index v r1.arrays with
        | error err =>
          have hcs' : cellStore name index v r1.arrays = .error err := hcs
          have hinv' : TInv3 { r1 with data := r1.data + 1 } := ⟨hg.inv.vars, hg.inv.kind⟩
          rcases cellStore_err hcs' hg.inv.kind (kindOf_of_matches hm) with rfl | rfl
          · exact ⟨ok_err hinv' RunErr2.badSubscript, fun hc => by cases hc⟩
          · exact ⟨ok_err hinv' RunErr2.oomArray, fun hc => by cases hc⟩
        | ok arrs =>
          have hcs' : cellStore name index v r1.arrays = .ok arrs := hcs
          have hinv' : TInv3 { r1 with data := r1.data + 1, arrays := arrs } :=
            ⟨hg.inv.vars, cellStore_kind hcs' hg.inv.kind⟩
          exact ⟨ok_quiet hinv' trivial, fun _ => ⟨hinv', hg.fns⟩⟩

theorem readTarget_typed {sig : Sig} {le : Nat → Bool} (items : List (Nat × DataElement F)) {r : RState3 F}
    (h : Good3 sig r) (t : RTarget F) (ht : ∀ name idx, t = .cell name idx → typeIdx sig idx = .ok ()) :
    Exec3OK le (readTargetSpec items r t) ∧
    ((readTargetSpec items r t).2 = .next → Good3 sig (readTargetSpec items r t).1) := by
  cases t with
  | scalar x => exact readScalar_typed items h x
  | cell name idx => exact readCell_spec_typed items h name (ht name idx rfl)

/-- READ: every target in order; OUT OF DATA, DATA TYPE MISMATCH (for the line of
    the item), or what the subscripts and the store of a cell target may fail with -/
theorem readTargets_typed {sig : Sig} {le : Nat → Bool} (items : List (Nat × DataElement F)) :
    ∀ (ts : List (RTarget F)) (r : RState3 F), Good3 sig r →
      (∀ name idx, RTarget.cell name idx ∈ ts → typeIdx sig idx = .ok ()) →
      Exec3OK le (readTargetsSpec items r ts)
  | [], r, h, _ => by simp only [readTargetsSpec]; exact ok_quiet h.inv trivial
  | t :: rest, r, h, ht => by
    obtain ⟨hok, hgood⟩ := readTarget_typed (le := le) items h t
      (fun name idx he => ht name idx (he ▸ List.mem_cons_self))
    simp only [readTargetsSpec]
    cases hres : readTargetSpec items r t with
    | mk r' c =>
      rw [hres] at hok hgood
      cases c with
      | next =>
        simp only
        exact readTargets_typed items rest r' (hgood rfl) (fun name idx he => ht name idx (List.mem_cons_of_mem _ he))
      | _ => simp only; exact hok

/-- **Soundness on the reference semantics** for the statements of `RStmt3`: a
    statement checked w.r.t. the signatures `sig`, run from a state that satisfies
    the name-suffix invariant and whose function table agrees with `sig`, ends,
    if it fails, in one of the `RunErr2` errors — or, for READ, in DATA TYPE
    MISMATCH reported as `errorAt` —, never in TYPE MISMATCH, a syntax error or
    UNDEF'D STATEMENT; it jumps only to lines the check has seen; the invariant
    holds again afterwards. -/
theorem exec3_typed (sig : Sig) (le : Nat → Bool) (items : List (Nat × DataElement F)) (n j : Nat) :
    ∀ (s : RStmt3 F) (r : RState3 F), Good3 sig r → Typed3 sig le s → Exec3OK le (s.exec items n j r)
  | .letS x e, r, h, hty => by
    simp only [Typed3] at hty
    obtain ⟨h1, h2⟩ := evalE_typed h hty
    cases hev : evalE r e with
    | error err => simp only [RStmt3.exec, hev]; exact ok_err h.inv (h2 err hev)
    | ok q =>
      obtain ⟨v, r1⟩ := q
      obtain ⟨hk, hg⟩ := h1 v r1 hev
      have hm := matches_of_kindOf hk
      simp only [RStmt3.exec, hev, hm, ↓reduceIte]
      exact ok_quiet ⟨bindTyped_alSet hg.inv.vars hm, hg.inv.kind⟩ trivial
  | .printS items', r, h, hty => by
    simp only [Typed3] at hty
    obtain ⟨h1, h2⟩ := printText3_typed items' r false [] h hty
    cases hp : printText3 r items' false [] with
    | error err => simp only [RStmt3.exec, hp]; exact ok_err h.inv (h2 err hp)
    | ok q =>
      obtain ⟨text, r1⟩ := q
      have hg := h1 text r1 hp
      simp only [RStmt3.exec, hp]
      exact ok_quiet ⟨hg.inv.vars, hg.inv.kind⟩ trivial
  | .gotoS m, r, h, hty => by
    simp only [Typed3] at hty
    simp only [RStmt3.exec]; exact ok_jump h.inv hty
  | .lineS m, r, h, hty => by
    simp only [Typed3] at hty
    simp only [RStmt3.exec]; exact ok_jump h.inv hty
  | .endS, r, h, _ => by simp only [RStmt3.exec]; exact ok_quiet h.inv trivial
  | .ifS c t none, r, h, hty => by
    simp only [Typed3] at hty
    obtain ⟨⟨tc, htc⟩, hta⟩ := hty
    obtain ⟨h1, h2⟩ := evalE_typed h htc
    cases hev : evalE r c with
    | error err => simp only [RStmt3.exec, hev]; exact ok_err h.inv (h2 err hev)
    | ok q =>
      obtain ⟨v, r1⟩ := q
      obtain ⟨_, hg⟩ := h1 v r1 hev
      cases hb : v.toBool with
      | true =>
        simp only [RStmt3.exec, hev, hb, ↓reduceIte]
        exact exec3_typed sig le items n j t r1 hg hta
      | false =>
        simp only [RStmt3.exec, hev, hb, Bool.false_eq_true, ↓reduceIte]
        exact ok_quiet hg.inv trivial
  | .ifS c t (some e), r, h, hty => by
    simp only [Typed3] at hty
    obtain ⟨⟨tc, htc⟩, hta, _, htb⟩ := hty
    obtain ⟨h1, h2⟩ := evalE_typed h htc
    cases hev : evalE r c with
    | error err => simp only [RStmt3.exec, hev]; exact ok_err h.inv (h2 err hev)
    | ok q =>
      obtain ⟨v, r1⟩ := q
      obtain ⟨_, hg⟩ := h1 v r1 hev
      cases hb : v.toBool with
      | true =>
        simp only [RStmt3.exec, hev, hb, ↓reduceIte]
        exact ok_closeLine3 (exec3_typed sig le items n j t r1 hg hta)
      | false =>
        simp only [RStmt3.exec, hev, hb, Bool.false_eq_true, ↓reduceIte]
        exact exec3_typed sig le items n j e r1 hg htb
  | .forS v a b c, r, h, hty => by
    simp only [Typed3] at hty
    obtain ⟨hv, hta, htb, htc⟩ := hty
    obtain ⟨ha1, ha2⟩ := numE3_typed h hta
    cases hna : numE3 r a with
    | error err => simp only [RStmt3.exec, hna]; exact ok_err h.inv (ha2 err hna)
    | ok q =>
      obtain ⟨x, r1⟩ := q
      have hg1 := ha1 x r1 hna
      obtain ⟨hb1, hb2⟩ := numE3_typed hg1 htb
      cases hnb : numE3 r1 b with
      | error err => simp only [RStmt3.exec, hna, hnb]; exact ok_err h.inv (hb2 err hnb)
      | ok q' =>
        obtain ⟨y, r2⟩ := q'
        have hg2 := hb1 y r2 hnb
        obtain ⟨hc1, hc2⟩ := stepE3_typed hg2 htc
        cases hnc : stepE3 r2 c with
        | error err => simp only [RStmt3.exec, hna, hnb, hnc]; exact ok_err h.inv (hc2 err hnc)
        | ok q'' =>
          obtain ⟨z, r3⟩ := q''
          have hg3 := hc1 z r3 hnc
          simp only [RStmt3.exec, hna, hnb, hnc]
          unfold forPush3
          have hd := (ofName_num_iff v).1 hv
          by_cases hcap : ((keptLoops v r3.loops).length == Extracted.stackLimit) = true
          · rw [if_pos hcap]; exact ok_err hg3.inv RunErr2.oomStack
          · rw [if_neg hcap, hd]
            simp only [Bool.false_eq_true, ↓reduceIte]
            exact ok_quiet ⟨bindTyped_alSet hg3.inv.vars (by simp [Value.matchesName, hd]), hg3.inv.kind⟩ trivial
  | .nextS v, r, h, hty => by
    simp only [Typed3] at hty
    have hd := (ofName_num_iff v).1 hty
    have hm : ∀ y : F, (Value.num y : Value F).matchesName v = true := by
      intro y; simp [Value.matchesName, hd]
    cases hv : envOf r.vars v with
    | str x =>
      have := envOf_matches h.inv.vars v
      rw [hv] at this
      simp [Value.matchesName, hd] at this
    | num cur =>
      cases hf : findLoop v r.loops with
      | none => simp only [RStmt3.exec, hv, hf]; exact ok_err h.inv RunErr2.nextWithoutFor
      | some lr =>
        obtain ⟨l, rest⟩ := lr
        simp only [RStmt3.exec, hv, hf]
        split <;> split <;>
          exact ok_quiet ⟨bindTyped_alSet h.inv.vars (hm _), h.inv.kind⟩ trivial
  | .gosubS m, r, h, hty => by
    simp only [Typed3] at hty
    simp only [RStmt3.exec]
    split
    · exact ok_err h.inv RunErr2.oomStack
    · exact ok_jump ⟨h.inv.vars, h.inv.kind⟩ hty
  | .returnS, r, h, _ => by
    cases hr : r.rets with
    | nil => simp only [RStmt3.exec, hr]; exact ok_err h.inv RunErr2.returnWithoutGosub
    | cons a as =>
      obtain ⟨ln, k⟩ := a
      simp only [RStmt3.exec, hr]
      exact ok_quiet ⟨h.inv.vars, h.inv.kind⟩ trivial
  | .readS ts, r, h, hty => by
    simp only [Typed3] at hty
    simp only [RStmt3.exec]
    exact readTargets_typed items ts r h hty
  | .dataS items', r, h, _ => by simp only [RStmt3.exec]; exact ok_quiet h.inv trivial
  | .restoreS, r, h, _ => by simp only [RStmt3.exec]; exact ok_quiet ⟨h.inv.vars, h.inv.kind⟩ trivial
  | .dimS name dims, r, h, hty => by
    simp only [Typed3] at hty
    obtain ⟨h1, h2⟩ := evalIdx_typed h hty
    cases hfi : evalIdx r dims with
    | error err => simp only [RStmt3.exec, hfi]; exact ok_err h.inv (h2 err hfi)
    | ok q =>
      obtain ⟨index, r1⟩ := q
      have hg := h1 index r1 hfi
      cases hhas : alHas name r1.arrays with
      | true => simp only [RStmt3.exec, hfi, hhas, ↓reduceIte]; exact ok_err hg.inv RunErr2.redim
      | false =>
        cases hcr : ArrayV.create (F := F) name index with
        | error err =>
          simp only [RStmt3.exec, hfi, hhas, Bool.false_eq_true, ↓reduceIte, hcr]
          rcases create_err hcr with rfl | rfl
          · exact ok_err hg.inv RunErr2.badSubscript
          · exact ok_err hg.inv RunErr2.oomArray
        | ok a =>
          simp only [RStmt3.exec, hfi, hhas, Bool.false_eq_true, ↓reduceIte, hcr]
          exact ok_quiet ⟨hg.inv.vars, arrKind_alSet hg.inv.kind (create_kind hcr)⟩ trivial
  | .letCellS name idx e, r, h, hty => by
    simp only [Typed3] at hty
    obtain ⟨hti, hte⟩ := hty
    obtain ⟨h1, h2⟩ := evalIdx_typed h hti
    cases hfi : evalIdx r idx with
    | error err => simp only [RStmt3.exec, hfi]; exact ok_err h.inv (h2 err hfi)
    | ok q =>
      obtain ⟨index, r1⟩ := q
      have hg1 := h1 index r1 hfi
      obtain ⟨h3, h4⟩ := evalE_typed hg1 hte
      cases hev : evalE r1 e with
      | error err => simp only [RStmt3.exec, hfi, hev]; exact ok_err h.inv (h4 err hev)
      | ok q' =>
        obtain ⟨v, r2⟩ := q'
        obtain ⟨hk, hg2⟩ := h3 v r2 hev
        cases hcs : storeCell name index v r2.arrays with
        | error err =>
          simp only [RStmt3.exec, hfi, hev, hcs]
          have hcs' : cellStore name index v r2.arrays = .error err := hcs
          rcases cellStore_err hcs' hg2.inv.kind hk with rfl | rfl
          · exact ok_err hg2.inv RunErr2.badSubscript
          · exact ok_err hg2.inv RunErr2.oomArray
        | ok arrs =>
          simp only [RStmt3.exec, hfi, hev, hcs]
          have hcs' : cellStore name index v r2.arrays = .ok arrs := hcs
          exact ok_quiet ⟨hg2.inv.vars, cellStore_kind hcs' hg2.inv.kind⟩ trivial
  | .defS f ps body, r, h, _ => by
    simp only [RStmt3.exec]; exact ok_quiet ⟨h.inv.vars, h.inv.kind⟩ trivial

/-! ### 4. whole programs on the reference machine -/

/-- the signatures after the analyzer has walked the statements, in order -/
def sigAfterStmts : Sig → List (RStmt3 F) → Sig
  | sig, [] => sig
  | sig, s :: rest => sigAfterStmts (sigAfterS sig s) rest

def sigAtL : Sig → RProgram3 F → Nat → Nat → Sig
  | sig, [], _, _ => sig
  | sig, (k, ss) :: rest, n, j =>
    if k == n then sigAfterStmts sig (ss.take j) else sigAtL (sigAfterStmts sig ss) rest n j

/-- the signatures the analyzer has when it reaches statement `j` of line `n`:
    it walks the lines of `p` in order, starting without any definition -/
def sigAt (p : RProgram3 F) (n j : Nat) : Sig := sigAtL (fun _ => none) p n j

/-- the statements of line `ln`, in order; the first static error, with the line -/
def typeOfStmts3 (le : Nat → Bool) (ln : Nat) : Sig → List (RStmt3 F) → Except (Err × Nat) Unit
  | _, [] => .ok ()
  | sig, s :: rest =>
    match typeOfS3 sig le s with
    | .ok _ => typeOfStmts3 le ln (sigAfterS sig s) rest
    | .error x => .error (x, ln)

/-- the lines, in order -/
def typeOfLines3 (le : Nat → Bool) : Sig → RProgram3 F → Except (Err × Nat) Unit
  | _, [] => .ok ()
  | sig, l :: rest =>
    match typeOfStmts3 le l.1 sig l.2 with
    | .ok _ => typeOfLines3 le (sigAfterStmts sig l.2) rest
    | .error x => .error x

/-- **The static check of a program** of `RStmt3`: every statement of every line
    passes `typeOfS3` w.r.t. the definitions that stand before it in the text
    (its own, for a DEF), the targets of GOTO / GOSUB / THEN n being looked up
    among the lines of the program itself. -/
def typeOfP3 (p : RProgram3 F) : Except (Err × Nat) Unit := typeOfLines3 p.hasLine (fun _ => none) p

theorem typeOfStmts3_get (le : Nat → Bool) (ln : Nat) : ∀ (ss : List (RStmt3 F)) (sig : Sig) (j : Nat) (s : RStmt3 F),
    typeOfStmts3 le ln sig ss = .ok () → ss[j]? = some s →
    typeOfS3 (sigAfterStmts sig (ss.take j)) le s = .ok ()
  | [], sig, j, s, _, hs => by simp at hs
  | s0 :: rest, sig, j, s, h, hs => by
    simp only [typeOfStmts3] at h
    cases h0 : typeOfS3 sig le s0 with
    | error x => rw [h0] at h; cases h
    | ok u =>
      rw [h0] at h
      cases j with
      | zero =>
        simp only [List.getElem?_cons_zero, Option.some.injEq] at hs
        subst hs
        simpa only [List.take_zero, sigAfterStmts] using h0
      | succ j' =>
        simp only [List.getElem?_cons_succ] at hs
        simp only [List.take_succ_cons, sigAfterStmts]
        exact typeOfStmts3_get le ln rest _ j' s h hs

theorem typeOfLines3_get (le : Nat → Bool) : ∀ (p : RProgram3 F) (sig : Sig) (n j : Nat) (ss : List (RStmt3 F))
    (s : RStmt3 F), typeOfLines3 le sig p = .ok () → p.line n = some ss → ss[j]? = some s →
    typeOfS3 (sigAtL sig p n j) le s = .ok ()
  | [], sig, n, j, ss, s, _, hl, _ => by simp [RProgram3.line] at hl
  | (k, ss0) :: rest, sig, n, j, ss, s, h, hl, hs => by
    simp only [typeOfLines3] at h
    cases h0 : typeOfStmts3 le k sig ss0 with
    | error x => rw [h0] at h; cases h
    | ok u =>
      rw [h0] at h
      simp only at h
      simp only [RProgram3.line] at hl
      simp only [sigAtL]
      by_cases hk : (k == n) = true
      · rw [if_pos hk] at hl ⊢
        simp only [Option.some.injEq] at hl
        subst hl
        exact typeOfStmts3_get le k ss0 sig j s h0 hs
      · rw [if_neg hk] at hl ⊢
        exact typeOfLines3_get le rest _ n j ss s h hl hs

/-- a checked program: the statement at `(n, j)` is typed w.r.t. `sigAt p n j` -/
theorem typeOfP3_get {p : RProgram3 F} (hty : typeOfP3 p = .ok ()) {n j : Nat} {ss : List (RStmt3 F)} {s : RStmt3 F}
    (hl : p.line n = some ss) (hs : ss[j]? = some s) : Typed3 (sigAt p n j) p.hasLine s :=
  (typeOfS3_ok_iff _ _ s).1 (typeOfLines3_get p.hasLine p _ n j ss s hty hl hs)

theorem typeOfStmts3_error {le : Nat → Bool} {ln : Nat} : ∀ (ss : List (RStmt3 F)) (sig : Sig) (x : Err) (k : Nat),
    typeOfStmts3 le ln sig ss = .error (x, k) →
    (x = .typeMismatch ∨ (∃ se, x = .syntax se) ∨ x = .undefinedStatement) ∧ k = ln
  | [], sig, x, k, h => by cases h
  | s :: rest, sig, x, k, h => by
    simp only [typeOfStmts3] at h
    cases hs : typeOfS3 sig le s with
    | ok u => rw [hs] at h; exact typeOfStmts3_error rest _ x k h
    | error y =>
      rw [hs] at h
      simp only [Except.error.injEq, Prod.mk.injEq] at h
      obtain ⟨rfl, rfl⟩ := h
      exact ⟨typeOfS3_error sig le s y hs, rfl⟩

theorem typeOfLines3_error {le : Nat → Bool} : ∀ (p : RProgram3 F) (sig : Sig) (x : Err) (k : Nat),
    typeOfLines3 le sig p = .error (x, k) →
    (x = .typeMismatch ∨ (∃ se, x = .syntax se) ∨ x = .undefinedStatement) ∧ ∃ l ∈ p, l.1 = k
  | [], sig, x, k, h => by cases h
  | l :: rest, sig, x, k, h => by
    simp only [typeOfLines3] at h
    cases hs : typeOfStmts3 le l.1 sig l.2 with
    | ok u =>
      rw [hs] at h
      obtain ⟨h1, l', hl', hk⟩ := typeOfLines3_error rest _ x k h
      exact ⟨h1, l', List.mem_cons_of_mem _ hl', hk⟩
    | error y =>
      rw [hs] at h
      simp only [Except.error.injEq] at h
      subst h
      obtain ⟨h1, hk⟩ := typeOfStmts3_error l.2 sig x k hs
      exact ⟨h1, l, List.mem_cons_self, hk.symm⟩

/-- what the static check of a program reports: one of the three static errors, for a line of the program -/
theorem typeOfP3_error {p : RProgram3 F} {x : Err} {k : Nat} (h : typeOfP3 p = .error (x, k)) :
    (x = .typeMismatch ∨ (∃ se, x = .syntax se) ∨ x = .undefinedStatement) ∧ ∃ l ∈ p, l.1 = k :=
  typeOfLines3_error p _ x k h

/-- the errors a checked program may still stop with -/
def RunErr3 (e : Err) : Prop := RunErr2 e ∨ e = .dataTypeMismatch

theorem RunErr3.not_static {e : Err} (h : RunErr3 e) :
    e ≠ .typeMismatch ∧ (∀ se, e ≠ .syntax se) ∧ e ≠ .undefinedStatement := by
  rcases h with h | h
  · exact h.not_static
  · subst h; simp

/-- THE dynamic side condition ("function definitions are each unique and
    executed before any use"): in every state the reference machine reaches from
    `r`, the run-time function table is what the analyzer had seen when it
    checked the statement at the program counter. -/
def DefsAgreeFrom (p : RProgram3 F) (r : RState3 F) : Prop :=
  ∀ m r' n j, RSteps3 p m r = .inl r' → r'.pc = some (n, j) → FnsTyped (sigAt p n j) r'.fns

/-- … from the start of the program -/
def DefsAgree (p : RProgram3 F) (g : Nat) : Prop := DefsAgreeFrom p (p.start g)

theorem DefsAgreeFrom.step {p : RProgram3 F} {r r' : RState3 F} (h : DefsAgreeFrom p r)
    (hs : RStep3 p r = .inl r') : DefsAgreeFrom p r' :=
  fun m r'' n j hm hpc => h (m + 1) r'' n j (by rw [C03.rsteps3_ok m hs]; exact hm) hpc

theorem TInv3.pc {r : RState3 F} (h : TInv3 r) (x : Option (Nat × Nat)) : TInv3 { r with pc := x } :=
  ⟨h.vars, h.kind⟩

/-- **One reference step of a checked program**, from a state whose function
    table agrees with the signatures at the program counter, keeps the typing
    invariant and can stop only with a `RunErr3` error. -/
theorem rstep3_typed {p : RProgram3 F} (hty : typeOfP3 p = .ok ()) (r : RState3 F) (hinv : TInv3 r)
    (hfn : ∀ n j, r.pc = some (n, j) → FnsTyped (sigAt p n j) r.fns) :
    (∀ r', RStep3 p r = .inl r' → TInv3 r') ∧
    (∀ e ln, RStep3 p r = .inr (e, ln) → RunErr3 e) := by
  cases hpc : r.pc with
  | none =>
    rw [C03.rstep3_ended hpc]
    exact ⟨fun r' h => by cases h; exact hinv, fun e ln h => by cases h⟩
  | some nj =>
    obtain ⟨n, j⟩ := nj
    cases hl : p.line n with
    | none =>
      have : RStep3 p r = .inl { r with pc := none } := by simp only [RStep3, hpc, hl]
      rw [this]
      exact ⟨fun r' h => by cases h; exact hinv.pc _, fun e ln h => by cases h⟩
    | some ss =>
      cases hs : ss[j]? with
      | none =>
        have : RStep3 p r = .inl { r with pc := none } := by simp only [RStep3, hpc, hl, hs]
        rw [this]
        exact ⟨fun r' h => by cases h; exact hinv.pc _, fun e ln h => by cases h⟩
      | some s =>
        have hsty : Typed3 (sigAt p n j) p.hasLine s := typeOfP3_get hty hl hs
        have hok := exec3_typed (sigAt p n j) p.hasLine (allData3 p) n j s r ⟨hinv, hfn n j hpc⟩ hsty
        have hi := hok.inv
        cases hctl : (s.exec (allData3 p) n j r).2 with
        | next =>
          have : RStep3 p r = .inl { (s.exec (allData3 p) n j r).1 with pc := p.resume n (j + 1) } := by
            simp only [RStep3, hpc, hl, hs, hctl]
          rw [this]
          exact ⟨fun r' h => by cases h; exact hi.pc _, fun e ln h => by cases h⟩
        | skipLine =>
          have : RStep3 p r = .inl { (s.exec (allData3 p) n j r).1 with pc := (p.after n).map fun m => (m, 0) } := by
            simp only [RStep3, hpc, hl, hs, hctl]
          rw [this]
          exact ⟨fun r' h => by cases h; exact hi.pc _, fun e ln h => by cases h⟩
        | jump m =>
          have : RStep3 p r = .inl { (s.exec (allData3 p) n j r).1 with pc := some (m, 0) } := by
            simp only [RStep3, hpc, hl, hs, hctl, hok.jump m hctl, ↓reduceIte]
          rw [this]
          exact ⟨fun r' h => by cases h; exact hi.pc _, fun e ln h => by cases h⟩
        | stop =>
          have : RStep3 p r = .inl { (s.exec (allData3 p) n j r).1 with pc := none } := by
            simp only [RStep3, hpc, hl, hs, hctl]
          rw [this]
          exact ⟨fun r' h => by cases h; exact hi.pc _, fun e ln h => by cases h⟩
        | resume m k =>
          have : RStep3 p r = .inl { (s.exec (allData3 p) n j r).1 with pc := p.resume m k } := by
            simp only [RStep3, hpc, hl, hs, hctl]
          rw [this]
          exact ⟨fun r' h => by cases h; exact hi.pc _, fun e ln h => by cases h⟩
        | error x =>
          have : RStep3 p r = .inr (x, n) := by simp only [RStep3, hpc, hl, hs, hctl]
          rw [this]
          refine ⟨fun r' h => (by cases h), fun e ln h => ?_⟩
          simp only [Sum.inr.injEq, Prod.mk.injEq] at h
          rw [← h.1]
          exact .inl (hok.err x hctl)
        | errorAt x ln' =>
          have : RStep3 p r = .inr (x, ln') := by simp only [RStep3, hpc, hl, hs, hctl]
          rw [this]
          refine ⟨fun r' h => (by cases h), fun e ln h => ?_⟩
          simp only [Sum.inr.injEq, Prod.mk.injEq] at h
          rw [← h.1]
          exact .inr (hok.errAt x ln' hctl)

theorem rsteps3_typed_from {p : RProgram3 F} (hty : typeOfP3 p = .ok ()) :
    ∀ (m : Nat) (r : RState3 F), TInv3 r → DefsAgreeFrom p r →
      (∀ r', RSteps3 p m r = .inl r' → TInv3 r') ∧
      (∀ e ln out, RSteps3 p m r = .inr (e, ln, out) → RunErr3 e)
  | 0, r, hinv, _ => ⟨fun r' h => by cases h; exact hinv, fun e ln out h => by cases h⟩
  | m + 1, r, hinv, hda => by
    obtain ⟨h1, h2⟩ := rstep3_typed hty r hinv (fun n j hpc => hda 0 r n j rfl hpc)
    cases hstep : RStep3 p r with
    | inl r1 =>
      rw [C03.rsteps3_ok m hstep]
      exact rsteps3_typed_from hty m r1 (h1 r1 hstep) (hda.step hstep)
    | inr eln =>
      obtain ⟨e, ln⟩ := eln
      rw [C03.rsteps3_err m hstep]
      refine ⟨fun r' h => (by cases h), fun e' ln' out h => ?_⟩
      simp only [Sum.inr.injEq, Prod.mk.injEq] at h
      rw [← h.1]
      exact h2 e ln hstep

/-- **Soundness of the static check on the reference machine** for whole
    programs with DEF: if the check passes and every definition is in force
    exactly where the analyzer assumed it (`DefsAgree`), the program can stop only
    with a run-time error of `RunErr3`: never TYPE MISMATCH, a syntax error or
    UNDEF'D STATEMENT. -/
theorem rsteps3_typed {p : RProgram3 F} (hty : typeOfP3 p = .ok ()) (g : Nat) (hda : DefsAgree p g)
    (m : Nat) (x : Err) (ln : Nat) (out : List Str) (h : RSteps3 p m (p.start g) = .inr (x, ln, out)) :
    RunErr3 x ∧ x ≠ .typeMismatch ∧ (∀ s, x ≠ .syntax s) ∧ x ≠ .undefinedStatement := by
  have := (rsteps3_typed_from hty m (p.start g) (tinv3_start p g) hda).2 x ln out h
  exact ⟨this, this.not_static⟩

/-! ### 5. transfer to the interpreter -/

/-- **`sound_program3`.**  Let the program `p` of the whole statement language
    fit the covered fragment (`Fits3`), let the interpreter be idle with `p`
    stored, flags off (`PReady3`), let every state the reference machine reaches
    satisfy the side conditions on names and nesting (`SafeRun`), let `p` pass the
    static check `typeOfP3`, and let every definition be in force exactly where
    the analyzer assumed it (`DefsAgree`).  Then NO host turn of a run — RUN
    followed by any number `k` of `continueEvaluating` — fails with TYPE
    MISMATCH, a syntax error or UNDEF'D STATEMENT: a failure is one of `RunErr3`.
    A run that has not failed holds well-typed variables. -/
theorem sound_program3 {p : RProgram3 F} {fuel : Nat} (hfit : C03.Fits3 p) {σ : St F} (h : C03.PReady3 p σ)
    (hsafe : C03.SafeRun p fuel (p.start σ.rng)) (hty : typeOfP3 p = .ok ()) (hda : DefsAgree p σ.rng)
    (k : Nat) :
    (∀ te σ', C03.runTurns fuel k σ = .err te σ' →
      RunErr3 te.err ∧ te.err ≠ .typeMismatch ∧ (∀ se, te.err ≠ .syntax se) ∧
      te.err ≠ .undefinedStatement) ∧
    (∀ σ', C03.runTurns fuel k σ = .ok () σ' → WellTyped σ') := by
  obtain ⟨n, _, _, hm⟩ := C03.run3_refines hfit h hsafe k
  obtain ⟨h1, h2⟩ := rsteps3_typed_from hty n (p.start σ.rng) (tinv3_start p σ.rng) hda
  cases hr : RSteps3 p n (p.start σ.rng) with
  | inl r' =>
    rw [hr] at hm
    obtain ⟨σ1, hσ1, hsim⟩ := hm
    refine ⟨fun te σ' he => (by rw [hσ1] at he; cases he), fun σ' ho => ?_⟩
    rw [hσ1] at ho
    simp only [Res.ok.injEq, true_and] at ho
    subst ho
    have hv : σ1.vars = r'.vars := by
      unfold Prog3L.Sim3 at hsim
      cases hpc : r'.pc with
      | none => rw [hpc] at hsim; exact hsim.2.1
      | some nj => rw [hpc] at hsim; exact hsim.1.mem.vars
    intro name v hg
    rw [hv] at hg
    exact (h1 r' hr).vars name v hg
  | inr eln =>
    obtain ⟨e, ln, out⟩ := eln
    rw [hr] at hm
    obtain ⟨σ1, l, hσ1, _, _⟩ := hm
    refine ⟨fun te σ' he => ?_, fun σ' ho => by rw [hσ1] at ho; cases ho⟩
    rw [hσ1] at he
    simp only [Res.err.injEq] at he
    rw [← he.1]
    exact ⟨h2 e ln out hr, (h2 e ln out hr).not_static⟩

/-! ### 6. an example -/

namespace Demo3T

def fna : Str := ['F', 'N', 'A']

/-- ```
    5 DATA 1, "S"
    10 DEF FNA(X,Y$) = X + A(X)
    15 READ A, B$(A,0)
    20 FOR I = 0 TO 3
    30 PRINT FNA(I,"S"); B$(I,I) : IF I THEN 40 ELSE LET B$(I,0) = "Z"
    40 NEXT I
    ``` -/
def prog : RProgram3 Unit :=
  [ (5, [ .dataS [.num (), .str ['S']] ]),
    (10, [ .defS fna [['X'], ['Y', '$']] (.bin .add (.var ['X']) (.cell ['A'] [.var ['X']])) ]),
    (15, [ .readS [.scalar ['A'], .cell ['B', '$'] [.var ['A'], .num ()]] ]),
    (20, [ .forS ['I'] (.num ()) (.num ()) none ]),
    (30, [ .printS [.expr (.call fna [.var ['I'], .str ['S']]), .semi,
                    .expr (.cell ['B', '$'] [.var ['I'], .var ['I']])],
           .ifS (.var ['I']) (.lineS 40) (some (.letCellS ['B', '$'] [.var ['I'], .num ()] (.str ['Z']))) ]),
    (40, [ .nextS ['I'] ]) ]

/-- the program passes the static check -/
example : typeOfP3 prog = .ok () := by
  simp [typeOfP3, prog, typeOfLines3, typeOfStmts3, typeOfS3, typeAs, typeAny, typeStep2, typeItems3, lineOK,
    typeOf2, typeArgs, typeIdx, typeTargets, sigAfterS, sigAfterStmts, defFree, fna, VT.ofName, endsWithDollar, tierRule, tierOf,
    RProgram3.hasLine, RProgram3.line]

/-- … and it does not when the call precedes the definition in the text: `FNA(I,"S")`
    is then read as an array cell with a string subscript -/
example : typeOfP3 (F := Unit)
    [ (10, [ .printS [.expr (.call fna [.var ['I'], .str ['S']])] ]),
      (20, [ .defS fna [['X'], ['Y', '$']] (.var ['X']) ]) ] = .error (.typeMismatch, 10) := by
  simp [typeOfP3, typeOfLines3, typeOfStmts3, typeOfS3, typeAny, typeItems3, typeOf2, typeIdx_cons, fna,
    VT.ofName, endsWithDollar]

/-- a string subscript in a READ target is rejected -/
example : typeOfP3 (F := Unit) [ (10, [ .readS [.scalar ['A'], .cell ['B'] [.str ['S']]] ]) ] =
    .error (.typeMismatch, 10) := by
  simp [typeOfP3, typeOfLines3, typeOfStmts3, typeOfS3, typeTargets, typeOf2, typeIdx_cons]

end Demo3T

end Abasic.Props.C06

section
open Abasic.Props.C06
end
