import Lean.Elab.Tactic
import Abasic.Analyzer
/-
  Iteration budgets and recursion fuel are never the limit (helper for
  C01 / C05 / C20: Abasic/Props/C01Budget.lean, Abasic/Props/C05Total.lean).

  * `toks σ`, `cur σ`, `rem σ`: the tokens of the current line, the token under
    the cursor, the number of tokens left;
  * `Fr σ σ'`: the frame of everything that walks a line — same line, same
    program store and immediate line, cursor not moved back, same GOSUB/function
    stack, same nesting counter; `rem` does not grow along `Fr`;
  * `wp E m Q σ`: `m` from `σ` ends in `ok a σ'` with `Q a σ'`, or in an error
    `e`, state `σ'` with `E σ e σ'`.  Two error conditions are used:
    `NF d` (the error is not `outOfFuel`, provided `d ≤ nesting + 1` and
    `nesting ≤ nestingLimit`) for the interpreter, and `FrE` (the frame holds on
    the error path as well) for the analyzer;
  * `Sat E R m`: from every state, `wp` with the relation `R` as postcondition;
    `W E R σ0 m σ`: the same relative to a base state (the form the tactic
    `w_auto` works on);
  * `wp2`: `wp` for a pair of computations that moreover agree — one proof per
    loop gives both "the budget is not exhausted" and "the budget is irrelevant".
-/
namespace Abasic.Budget
open Abasic M

variable {F : Type}

/-! ### the current line -/

/-- tokens of the current line (`none`: a numbered line that is not stored) -/
def toks (σ : St F) : Option (List (Token F)) :=
  match σ.loc.line with
  | none => some σ.imm
  | some n => σ.lines.get n

/-- the token under the cursor -/
def cur (σ : St F) : Option (Token F) :=
  match toks σ with
  | some ts => ts[σ.loc.idx]?
  | none => none

/-- number of tokens from the cursor to the end of the line -/
def rem (σ : St F) : Nat :=
  match toks σ with
  | some ts => ts.length - σ.loc.idx
  | none => 0

/-- what walking along a line keeps -/
structure Fr (σ σ' : St F) : Prop where
  line : σ'.loc.line = σ.loc.line
  lines : σ'.lines = σ.lines
  imm : σ'.imm = σ.imm
  idx : σ.loc.idx ≤ σ'.loc.idx
  stack : σ'.stack = σ.stack
  nesting : σ'.nesting = σ.nesting

theorem Fr.refl (σ : St F) : Fr σ σ := ⟨rfl, rfl, rfl, Nat.le_refl _, rfl, rfl⟩

theorem Fr.trans {a b c : St F} (h1 : Fr a b) (h2 : Fr b c) : Fr a c :=
  ⟨h2.line.trans h1.line, h2.lines.trans h1.lines, h2.imm.trans h1.imm, Nat.le_trans h1.idx h2.idx,
    h2.stack.trans h1.stack, h2.nesting.trans h1.nesting⟩

/-- a state that differs from `σ` in none of the framed fields, cursor at or after `σ`'s -/
theorem Fr.upd {σ0 σ σ' : St F} (h : Fr σ0 σ) (h1 : σ'.loc.line = σ.loc.line) (h2 : σ'.lines = σ.lines)
    (h3 : σ'.imm = σ.imm) (h4 : σ.loc.idx ≤ σ'.loc.idx) (h5 : σ'.stack = σ.stack)
    (h6 : σ'.nesting = σ.nesting) : Fr σ0 σ' :=
  h.trans ⟨h1, h2, h3, h4, h5, h6⟩

theorem toks_congr {σ σ' : St F} (h1 : σ'.loc.line = σ.loc.line) (h2 : σ'.lines = σ.lines)
    (h3 : σ'.imm = σ.imm) : toks σ' = toks σ := by
  unfold toks
  rw [h1, h2, h3]

theorem Fr.toks {σ σ' : St F} (h : Fr σ σ') : toks σ' = toks σ := toks_congr h.line h.lines h.imm

theorem Fr.rem_le {σ σ' : St F} (h : Fr σ σ') : rem σ' ≤ rem σ := by
  unfold rem
  rw [h.toks]
  have := h.idx
  cases Budget.toks σ with
  | none => exact Nat.le_refl _
  | some ts => simp only; omega

/-- a frame step that moreover consumed a token -/
def FrS (σ σ' : St F) : Prop := Fr σ σ' ∧ rem σ' < rem σ

theorem FrS.fr {σ σ' : St F} (h : FrS σ σ') : Fr σ σ' := h.1

theorem FrS.trans_fr {a b c : St F} (h1 : FrS a b) (h2 : Fr b c) : FrS a c :=
  ⟨h1.1.trans h2, Nat.lt_of_le_of_lt h2.rem_le h1.2⟩

theorem Fr.trans_frS {a b c : St F} (h1 : Fr a b) (h2 : FrS b c) : FrS a c :=
  ⟨h1.trans h2.1, Nat.lt_of_lt_of_le h2.2 h1.rem_le⟩

theorem FrS.trans {a b c : St F} (h1 : FrS a b) (h2 : FrS b c) : FrS a c := h1.trans_fr h2.1

/-- the state after a token-cursor read -/
def rd (σ : St F) : St F := { σ with reads := σ.reads + 1 }

/-- the state after consuming one token -/
def adv (σ : St F) : St F := { σ with loc := { σ.loc with idx := σ.loc.idx + 1 } }

theorem fr_rd (σ : St F) : Fr σ (rd σ) := ⟨rfl, rfl, rfl, Nat.le_refl _, rfl, rfl⟩
theorem toks_rd (σ : St F) : toks (rd σ) = toks σ := rfl
theorem cur_rd (σ : St F) : cur (rd σ) = cur σ := rfl
theorem rem_rd (σ : St F) : rem (rd σ) = rem σ := rfl
theorem fr_adv (σ : St F) : Fr σ (adv σ) := ⟨rfl, rfl, rfl, Nat.le_succ _, rfl, rfl⟩

theorem cur_some_lt {σ : St F} {t : Token F} (h : cur σ = some t) : 0 < rem σ := by
  unfold cur at h
  unfold rem
  cases ht : toks σ with
  | none => rw [ht] at h; cases h
  | some ts =>
    rw [ht] at h
    have := (List.getElem?_eq_some_iff.mp h).1
    simp only
    omega

theorem frS_adv {σ : St F} (h : 0 < rem σ) : FrS σ (adv σ) := by
  refine ⟨fr_adv σ, ?_⟩
  have ht : toks (adv σ) = toks σ := rfl
  unfold rem at h ⊢
  rw [ht]
  cases hts : toks σ with
  | none => rw [hts] at h; exact absurd h (Nat.lt_irrefl 0)
  | some ts =>
    rw [hts] at h
    simp only at h ⊢
    show ts.length - (σ.loc.idx + 1) < ts.length - σ.loc.idx
    omega

/-! ### weakest preconditions -/

/-- error postconditions: initial state, error, final state -/
abbrev EPost (F : Type) := St F → TErr → St F → Prop

def wp {α : Type} (E : EPost F) (m : M F α) (Q : α → St F → Prop) (σ : St F) : Prop :=
  match m σ with
  | .ok a σ' => Q a σ'
  | .err e σ' => E σ e σ'

/-- the error is not the model's fuel/budget error, as long as the nesting
    counter is within `[d - 1, nestingLimit]` -/
def NF (d : Nat) : EPost F := fun σ e _ =>
  d ≤ σ.nesting + 1 → σ.nesting ≤ Extracted.nestingLimit → e.err ≠ .outOfFuel

/-- the frame holds on the error path -/
def FrE : EPost F := fun σ _ σ' => Fr σ σ'

/-- same nesting counter -/
def SN (σ σ' : St F) : Prop := σ'.nesting = σ.nesting

theorem Fr.sn {σ σ' : St F} (h : Fr σ σ') : SN σ σ' := h.nesting

/-- an error condition and a transition relation that go together -/
class Compat (E : EPost F) (R : St F → St F → Prop) : Prop where
  refl : ∀ σ, R σ σ
  trans : ∀ {a b c}, R a b → R b c → R a c
  /-- an error condition relative to a later state holds relative to an earlier one -/
  shift : ∀ {σ σ1 e s}, R σ σ1 → E σ1 e s → E σ e s
  /-- raising an error other than `outOfFuel` is fine -/
  fail : ∀ {σ0 σ e}, R σ0 σ → e.err ≠ .outOfFuel → E σ0 e σ

instance (d : Nat) : Compat (NF (F := F) d) Fr where
  refl := Fr.refl
  trans := Fr.trans
  shift := by
    intro σ σ1 e s h he h1 h2
    exact he (by rw [h.nesting]; exact h1) (by rw [h.nesting]; exact h2)
  fail := fun _ he _ _ => he

instance (d : Nat) : Compat (NF (F := F) d) SN where
  refl := fun _ => rfl
  trans := fun h1 h2 => Eq.trans h2 h1
  shift := by
    intro σ σ1 e s h he h1 h2
    have h : σ1.nesting = σ.nesting := h
    exact he (by rw [h]; exact h1) (by rw [h]; exact h2)
  fail := fun _ he _ _ => he

instance : Compat (FrE (F := F)) Fr where
  refl := Fr.refl
  trans := Fr.trans
  shift := fun h he => Fr.trans h he
  fail := fun h _ => h

section rules
variable {E : EPost F} {R : St F → St F → Prop} {α β : Type}

theorem wp_ok {m : M F α} {Q : α → St F → Prop} {σ σ' : St F} {a : α} (h : wp E m Q σ)
    (hm : m σ = .ok a σ') : Q a σ' := by
  unfold wp at h; rw [hm] at h; exact h

theorem wp_err {m : M F α} {Q : α → St F → Prop} {σ σ' : St F} {e : TErr} (h : wp E m Q σ)
    (hm : m σ = .err e σ') : E σ e σ' := by
  unfold wp at h; rw [hm] at h; exact h

theorem wp_mono {m : M F α} {P Q : α → St F → Prop} {σ : St F} (h : wp E m P σ)
    (hpq : ∀ a σ', P a σ' → Q a σ') : wp E m Q σ := by
  unfold wp at h ⊢
  cases hm : m σ with
  | ok a σ' => rw [hm] at h; exact hpq a σ' h
  | err e σ' => rw [hm] at h; exact h

theorem wp_pure {Q : α → St F → Prop} {σ : St F} {a : α} (h : Q a σ) : wp E (pure a : M F α) Q σ := h

theorem wp_pureM {Q : α → St F → Prop} {σ : St F} {a : α} (h : Q a σ) : wp E (M.pureM a : M F α) Q σ := h

/-- sequencing: the first action moves along `R` -/
theorem wp_bind [Compat E R] {m : M F α} {f : α → M F β} {P : α → St F → Prop} {Q : β → St F → Prop}
    {σ : St F} (hm : wp E m P σ) (hf : ∀ a σ1, P a σ1 → R σ σ1 ∧ wp E (f a) Q σ1) :
    wp E (m >>= f) Q σ := by
  show wp E (M.bindM m f) Q σ
  unfold wp M.bindM
  cases h : m σ with
  | ok a σ1 =>
    obtain ⟨hr, hw⟩ := hf a σ1 (wp_ok hm h)
    simp only
    cases h2 : f a σ1 with
    | ok b σ2 => exact wp_ok hw h2
    | err e σ2 => exact Compat.shift hr (wp_err hw h2)
  | err e σ1 => exact wp_err hm h

theorem wp_fail [Compat E R] {Q : α → St F → Prop} {σ : St F} {e : Err} (h : e ≠ .outOfFuel) :
    wp E (M.fail e : M F α) Q σ :=
  Compat.fail (R := R) (Compat.refl E σ) h

def Sat (E : EPost F) (R : St F → St F → Prop) (m : M F α) : Prop :=
  ∀ σ, wp E m (fun _ σ' => R σ σ') σ

/-- `Sat` relative to a base state `σ0` from which `σ` was reached -/
def W (E : EPost F) (R : St F → St F → Prop) (σ0 : St F) (m : M F α) (σ : St F) : Prop :=
  R σ0 σ → match m σ with
    | .ok _ σ' => R σ0 σ'
    | .err e σ' => E σ0 e σ'

theorem Sat.of_W [Compat E R] {m : M F α} (h : ∀ σ, W E R σ m σ) : Sat E R m := by
  intro σ
  have := h σ (Compat.refl E σ)
  unfold wp
  cases hm : m σ with
  | ok a σ' => rw [hm] at this; exact this
  | err e σ' => rw [hm] at this; exact this

theorem W.of_sat [Compat E R] {m : M F α} {σ0 σ : St F} (h : Sat E R m) : W E R σ0 m σ := by
  intro hr
  have := h σ
  unfold wp at this
  cases hm : m σ with
  | ok a σ' => rw [hm] at this; exact Compat.trans E hr this
  | err e σ' => rw [hm] at this; exact Compat.shift hr this

theorem W.bind [Compat E R] {m : M F α} {f : α → M F β} {σ0 σ : St F} (hm : Sat E R m)
    (hf : ∀ a σ', W E R σ0 (f a) σ') : W E R σ0 (m >>= f) σ := by
  intro hr
  show match M.bindM m f σ with
    | .ok _ σ' => R σ0 σ'
    | .err e σ' => E σ0 e σ'
  have h1 := W.of_sat (σ0 := σ0) (σ := σ) hm hr
  unfold M.bindM
  cases h : m σ with
  | ok a σ1 =>
    rw [h] at h1
    exact hf a σ1 h1
  | err e σ1 =>
    rw [h] at h1
    exact h1

theorem W.pure {σ0 σ : St F} {a : α} : W E R σ0 (pure a : M F α) σ := fun h => h

theorem W.pureM {σ0 σ : St F} {a : α} : W E R σ0 (M.pureM a : M F α) σ := fun h => h

theorem W.get_bind {f : St F → M F β} {σ0 σ : St F} (h : W E R σ0 (f σ) σ) : W E R σ0 (M.get >>= f) σ := h

theorem W.set {σ0 σ s : St F} (h : R σ0 σ → R σ0 s) : W E R σ0 (M.set s) σ := h

theorem W.set_bind {f : Unit → M F β} {σ0 σ s : St F} (h : R σ0 σ → R σ0 s) (hf : W E R σ0 (f ()) s) :
    W E R σ0 (M.set s >>= f) σ := fun hr => hf (h hr)

theorem W.modify {g : St F → St F} {σ0 σ : St F} (h : R σ0 σ → R σ0 (g σ)) : W E R σ0 (M.modify g) σ := h

theorem W.modify_bind {g : St F → St F} {f : Unit → M F β} {σ0 σ : St F} (h : R σ0 σ → R σ0 (g σ))
    (hf : W E R σ0 (f ()) (g σ)) : W E R σ0 (M.modify g >>= f) σ := fun hr => hf (h hr)

theorem W.fail [Compat E R] {σ0 σ : St F} {e : Err} (h : e ≠ .outOfFuel) : W E R σ0 (M.fail e : M F α) σ :=
  fun hr => Compat.fail hr h

theorem W.rpanic [Compat E R] {σ0 σ : St F} {site : String} : W E R σ0 (M.rpanic site : M F α) σ :=
  fun hr => Compat.fail (e := { err := .panic site }) hr (by intro h; cases h)

theorem W.throw [Compat E R] {σ0 σ : St F} {e : TErr} (h : e.err ≠ .outOfFuel) :
    W E R σ0 (M.throw e : M F α) σ :=
  fun hr => Compat.fail hr h

theorem Sat.mono {R' : St F → St F → Prop} {m : M F α} (h : Sat E R m) (hsub : ∀ σ σ', R σ σ' → R' σ σ') :
    Sat E R' m := fun σ => wp_mono (h σ) fun _ σ' hr => hsub σ σ' hr

theorem Sat.sn {m : M F α} (h : Sat E Fr m) : Sat E SN m := h.mono fun _ _ hr => hr.sn

theorem Sat.pure [Compat E R] (a : α) : Sat E R (pure a : M F α) := fun σ => Compat.refl E σ

theorem Sat.fail [Compat E R] {e : Err} (h : e ≠ .outOfFuel) : Sat E R (M.fail e : M F α) :=
  fun _ => wp_fail (R := R) h

theorem Sat.rpanic [Compat E R] (site : String) : Sat E R (M.rpanic site : M F α) :=
  fun σ => Compat.fail (R := R) (e := { err := .panic site }) (Compat.refl E σ) (by intro h; cases h)

theorem Sat.bind [Compat E R] {m : M F α} {f : α → M F β} (hm : Sat E R m) (hf : ∀ a, Sat E R (f a)) :
    Sat E R (m >>= f) :=
  Sat.of_W fun _ => W.bind hm fun a _ => W.of_sat (hf a)

/-- a `Sat` fact used inside a `wp` proof -/
theorem wp_bind_sat [Compat E R] {m : M F α} {f : α → M F β} {Q : β → St F → Prop} {σ : St F}
    (hm : Sat E R m) (hf : ∀ a σ1, R σ σ1 → wp E (f a) Q σ1) : wp E (m >>= f) Q σ :=
  wp_bind (R := R) (hm σ) fun a σ1 hr => ⟨hr, hf a σ1 hr⟩

theorem W.of_wp [Compat E R] {m : M F α} {σ0 σ : St F} (h : wp E m (fun _ σ' => R σ σ') σ) :
    W E R σ0 m σ := by
  intro hr
  unfold wp at h
  cases hm : m σ with
  | ok a σ' => rw [hm] at h; exact Compat.trans E hr h
  | err e σ' => rw [hm] at h; exact Compat.shift hr h

/-- `wp` for two computations that agree -/
def wp2 (E : EPost F) (m1 m2 : M F α) (Q : α → St F → Prop) (σ : St F) : Prop :=
  m1 σ = m2 σ ∧ wp E m1 Q σ

theorem wp2_refl {m : M F α} {Q : α → St F → Prop} {σ : St F} (h : wp E m Q σ) : wp2 E m m Q σ := ⟨rfl, h⟩

theorem wp2_mono {m1 m2 : M F α} {P Q : α → St F → Prop} {σ : St F} (h : wp2 E m1 m2 P σ)
    (hpq : ∀ a σ', P a σ' → Q a σ') : wp2 E m1 m2 Q σ := ⟨h.1, wp_mono h.2 hpq⟩

theorem wp2_bind [Compat E R] {m : M F α} {f1 f2 : α → M F β} {P : α → St F → Prop} {Q : β → St F → Prop}
    {σ : St F} (hm : wp E m P σ) (hf : ∀ a σ1, P a σ1 → R σ σ1 ∧ wp2 E (f1 a) (f2 a) Q σ1) :
    wp2 E (m >>= f1) (m >>= f2) Q σ := by
  refine ⟨?_, wp_bind (R := R) hm fun a σ1 hp => ⟨(hf a σ1 hp).1, (hf a σ1 hp).2.2⟩⟩
  show M.bindM m f1 σ = M.bindM m f2 σ
  unfold M.bindM
  cases h : m σ with
  | ok a σ1 => exact (hf a σ1 (wp_ok hm h)).2.1
  | err e σ1 => rfl

end rules

/-- `Sat` with the strict frame: at least one token is consumed -/
def SatS {α : Type} (E : EPost F) (m : M F α) : Prop := ∀ σ, wp E m (fun _ σ' => FrS σ σ') σ

theorem SatS.sat {α : Type} {E : EPost F} {m : M F α} (h : SatS E m) : Sat E Fr m :=
  fun σ => wp_mono (h σ) fun _ _ hs => hs.1

theorem SatS.bind_left {α β : Type} {E : EPost F} [Compat E Fr] {m : M F α} {f : α → M F β}
    (hm : SatS E m) (hf : ∀ a, Sat E Fr (f a)) : SatS E (m >>= f) :=
  fun σ => wp_bind (R := Fr) (hm σ) fun a σ1 h1 =>
    ⟨h1.1, wp_mono (hf a σ1) fun _ _ h2 => h1.trans_fr h2⟩

theorem SatS.bind_right {α β : Type} {E : EPost F} [Compat E Fr] {m : M F α} {f : α → M F β}
    (hm : Sat E Fr m) (hf : ∀ a, SatS E (f a)) : SatS E (m >>= f) :=
  fun σ => wp_bind (R := Fr) (hm σ) fun a σ1 h1 =>
    ⟨h1, wp_mono (hf a σ1) fun _ _ h2 => h1.trans_frS h2⟩

/-- with the frame as error condition every error is fine -/
theorem W.fail_frE {α : Type} {σ0 σ : St F} {e : Err} : W FrE Fr σ0 (M.fail e : M F α) σ := fun hr => hr

/-! ### the cursor primitives -/

section cursor
variable {E : EPost F} [Compat E Fr]

theorem tokens_eq (σ : St F) : tokens σ = match toks σ with
    | some ts => .ok ts σ
    | none => .err { err := .panic "tokens_for_line: unwrap on None" } σ := by
  unfold tokens tokensForLine toks
  cases σ.loc.line with
  | none => rfl
  | some n => simp only; cases σ.lines.get n <;> rfl

theorem peek_eq (σ : St F) : peek σ = match toks σ with
    | some ts => .ok ts[σ.loc.idx]? (rd σ)
    | none => .err { err := .panic "tokens_for_line: unwrap on None" } (rd σ) := by
  have h := tokens_eq (rd σ)
  rw [toks_rd] at h
  unfold rd at h
  simp only [peek, bind, M.bindM, M.modify, M.get, pure, M.pureM]
  rw [h]
  cases toks σ <;> rfl

theorem sat_tokens : Sat E Fr (tokens (F := F)) := by
  intro σ
  unfold wp
  rw [tokens_eq]
  cases toks σ with
  | none => exact Compat.fail (R := Fr) (Fr.refl σ) (by intro h; cases h)
  | some ts => exact Fr.refl σ

theorem wp_peek (σ : St F) : wp E peek (fun o σ' => σ' = rd σ ∧ o = cur σ) σ := by
  unfold wp cur
  rw [peek_eq]
  cases toks σ with
  | none => exact Compat.fail (R := Fr) (fr_rd σ) (by intro h; cases h)
  | some ts => exact ⟨rfl, rfl⟩

theorem sat_peek : Sat E Fr (peek (F := F)) :=
  fun σ => wp_mono (wp_peek σ) fun _ _ h => h.1 ▸ fr_rd σ

theorem advance_eq (σ : St F) : advance σ = .ok () (adv σ) := rfl

theorem wp_next (σ : St F) :
    wp E next (fun o σ' => Fr σ σ' ∧ o = cur σ ∧ (o ≠ none → rem σ' < rem σ)) σ := by
  unfold next
  refine wp_bind (R := Fr) (wp_peek σ) ?_
  rintro o σ1 ⟨rfl, rfl⟩
  refine ⟨fr_rd σ, ?_⟩
  cases h : cur σ with
  | none => exact ⟨fr_rd σ, rfl, fun h => absurd rfl h⟩
  | some t =>
    have hlt : 0 < rem (rd σ) := cur_some_lt (σ := rd σ) h
    have := frS_adv hlt
    exact ⟨(fr_rd σ).trans this.1, rfl, fun _ => this.2⟩

theorem sat_next : Sat E Fr (next (F := F)) := fun σ => wp_mono (wp_next σ) fun _ _ h => h.1

theorem wp_hasNext (σ : St F) : wp E hasNext (fun b σ' => σ' = rd σ ∧ b = (cur σ).isSome) σ := by
  unfold hasNext
  refine wp_bind (R := Fr) (wp_peek σ) ?_
  rintro o σ1 ⟨rfl, rfl⟩
  exact ⟨fr_rd σ, rfl, rfl⟩

theorem sat_hasNext : Sat E Fr (hasNext (F := F)) :=
  fun σ => wp_mono (wp_hasNext σ) fun _ _ h => h.1 ▸ fr_rd σ

theorem wp_nextUnwrapped (σ : St F) : wp E nextUnwrapped (fun _ σ' => FrS σ σ') σ := by
  unfold nextUnwrapped
  refine wp_bind (R := Fr) (wp_next σ) ?_
  rintro o σ1 ⟨hfr, _, hlt⟩
  refine ⟨hfr, ?_⟩
  cases o with
  | none => exact Compat.fail (R := Fr) (Fr.refl σ1) (by intro h; cases h)
  | some t => exact ⟨hfr, hlt (by intro h; cases h)⟩

theorem sat_nextUnwrapped : Sat E Fr (nextUnwrapped (F := F)) :=
  fun σ => wp_mono (wp_nextUnwrapped σ) fun _ _ h => h.1

theorem wp_expect (k : Kw) (σ : St F) : wp E (expect k) (fun _ σ' => FrS σ σ') σ := by
  unfold expect
  refine wp_bind (R := Fr) (wp_nextUnwrapped σ) ?_
  intro t σ1 h
  refine ⟨h.1, ?_⟩
  split
  · exact h
  · exact wp_fail (R := Fr) (by intro h; cases h)

theorem sat_expect (k : Kw) : Sat E Fr (expect (F := F) k) :=
  fun σ => wp_mono (wp_expect k σ) fun _ _ h => h.1

theorem wp_accept (k : Kw) (σ : St F) :
    wp E (accept k) (fun b σ' => Fr σ σ' ∧ (b = true → rem σ' < rem σ)) σ := by
  unfold accept
  refine wp_bind (R := Fr) (wp_peek σ) ?_
  rintro o σ1 ⟨rfl, rfl⟩
  refine ⟨fr_rd σ, ?_⟩
  cases h : cur σ with
  | none => exact ⟨fr_rd σ, fun h => by cases h⟩
  | some t =>
    simp only
    split
    · have := frS_adv (cur_some_lt (σ := rd σ) h)
      exact ⟨(fr_rd σ).trans this.1, fun _ => this.2⟩
    · exact ⟨fr_rd σ, fun h => by cases h⟩

theorem sat_accept (k : Kw) : Sat E Fr (accept (F := F) k) :=
  fun σ => wp_mono (wp_accept k σ) fun _ _ h => h.1

theorem wp_peekIsKw (k : Kw) (σ : St F) :
    wp E (peekIsKw k) (fun b σ' => σ' = rd σ ∧ (b = true → cur σ ≠ none)) σ := by
  unfold peekIsKw
  refine wp_bind (R := Fr) (wp_peek σ) ?_
  rintro o σ1 ⟨rfl, rfl⟩
  refine ⟨fr_rd σ, ?_⟩
  cases h : cur σ with
  | none => exact ⟨rfl, fun h => by cases h⟩
  | some t => exact ⟨rfl, fun _ h => by cases h⟩

theorem sat_peekIsKw (k : Kw) : Sat E Fr (peekIsKw (F := F) k) :=
  fun σ => wp_mono (wp_peekIsKw k σ) fun _ _ h => h.1 ▸ fr_rd σ

theorem wp_tryNext {γ : Type} (f : Token F → Option γ) (σ : St F) :
    wp E (tryNext f) (fun o σ' => Fr σ σ' ∧ (o ≠ none → rem σ' < rem σ)) σ := by
  unfold tryNext
  refine wp_bind (R := Fr) (wp_peek σ) ?_
  rintro o σ1 ⟨rfl, rfl⟩
  refine ⟨fr_rd σ, ?_⟩
  cases h : cur σ with
  | none => exact ⟨fr_rd σ, fun h => absurd rfl h⟩
  | some t =>
    simp only
    cases f t with
    | none => exact ⟨fr_rd σ, fun h => absurd rfl h⟩
    | some a =>
      have := frS_adv (cur_some_lt (σ := rd σ) h)
      exact ⟨(fr_rd σ).trans this.1, fun _ => this.2⟩

theorem sat_tryNext {γ : Type} (f : Token F → Option γ) : Sat E Fr (tryNext f) :=
  fun σ => wp_mono (wp_tryNext f σ) fun _ _ h => h.1

theorem wp_lineBudget (σ : St F) : wp E lineBudget (fun b σ' => σ' = σ ∧ rem σ < b) σ := by
  unfold wp rem
  simp only [lineBudget, bind, M.bindM, pure, M.pureM]
  rw [tokens_eq]
  cases toks σ with
  | none => exact Compat.fail (R := Fr) (Fr.refl σ) (by intro h; cases h)
  | some ts => exact ⟨rfl, by simp only; omega⟩

theorem sat_lineBudget : Sat E Fr (lineBudget (F := F)) :=
  fun σ => wp_mono (wp_lineBudget σ) fun _ _ h => h.1 ▸ Fr.refl σ

end cursor

/-! ### the tactic

  `w_auto` works on goals `W E R σ0 m σ`: it walks through `bind`, `get`, `set`,
  `modify`, `pure`, `fail`, `if`, `match`; a bound action must be closed by
  `w_prim0` (extensible: registered `Sat` lemmas, hypotheses), a state update by
  `w_leaf`. -/

open Lean Elab Tactic Meta in
/-- apply a local hypothesis whose conclusion is `Sat …` (induction hypotheses,
    assumptions about the recursive entry points, lemmas brought in by `have`) -/
elab "sat_hyp" : tactic => withMainContext do
  let g ← getMainGoal
  for d in (← getLCtx) do
    if d.isImplementationDetail then continue
    let ty := (← instantiateMVars d.type).consumeMData.headBeta.consumeMData
    if ty.getForallBody.consumeMData.getAppFn.isConstOf ``Abasic.Budget.Sat then
      let saved ← saveState
      try
        let gs ← withReducible (g.apply d.toExpr)
        if gs.isEmpty then
          replaceMainGoal gs
          return
        else saved.restore
      catch _ => saved.restore
  throwError "sat_hyp: no applicable hypothesis"

syntax "w_prim0" : tactic
syntax "w_leaf" : tactic

macro_rules | `(tactic| w_prim0) => `(tactic| with_reducible assumption)
macro_rules | `(tactic| w_prim0) => `(tactic| sat_hyp)

macro_rules | `(tactic| w_leaf) => `(tactic| exact fun h => h)
macro_rules | `(tactic| w_leaf) => `(tactic| exact fun h => Fr.upd h rfl rfl rfl (Nat.le_refl _) rfl rfl)

macro "w_prim" : tactic => `(tactic| first
  | w_prim0
  | (refine Sat.sn ?_; w_prim0))

syntax "w_err" : tactic
macro_rules | `(tactic| w_err) => `(tactic| (intro h; cases h; done))

macro "w_step" : tactic => `(tactic| first
  | with_reducible exact W.pure
  | with_reducible exact W.pureM
  | ((with_reducible refine W.fail ?_); w_err)
  | with_reducible exact W.fail_frE
  | with_reducible exact W.rpanic
  | ((with_reducible apply W.get_bind); try dsimp only)
  | ((with_reducible refine W.set_bind ?_ ?_); w_leaf)
  | ((with_reducible refine W.set ?_); w_leaf)
  | ((with_reducible refine W.modify_bind ?_ ?_); w_leaf)
  | ((with_reducible refine W.modify ?_); w_leaf)
  | ((with_reducible refine W.of_sat ?_); w_prim)
  | ((with_reducible refine W.bind ?_ (fun _ _ => ?_)); w_prim)
  | split
  | dsimp only)

macro "w_auto" : tactic => `(tactic| repeat' w_step)

/-- start a `Sat` proof for a definition: unfold it first, then `sat_start; w_auto` -/
macro "sat_start" : tactic => `(tactic| (refine Sat.of_W (fun σ => ?_)))

macro_rules | `(tactic| w_prim0) => `(tactic| with_reducible exact sat_peek)
macro_rules | `(tactic| w_prim0) => `(tactic| with_reducible exact sat_tokens)
macro_rules | `(tactic| w_prim0) => `(tactic| with_reducible exact sat_next)
macro_rules | `(tactic| w_prim0) => `(tactic| with_reducible exact sat_hasNext)
macro_rules | `(tactic| w_prim0) => `(tactic| with_reducible exact sat_nextUnwrapped)
macro_rules | `(tactic| w_prim0) => `(tactic| with_reducible exact sat_expect _)
macro_rules | `(tactic| w_prim0) => `(tactic| with_reducible exact sat_accept _)
macro_rules | `(tactic| w_prim0) => `(tactic| with_reducible exact sat_peekIsKw _)
macro_rules | `(tactic| w_prim0) => `(tactic| with_reducible exact sat_tryNext _)
macro_rules | `(tactic| w_prim0) => `(tactic| with_reducible exact sat_lineBudget)
macro_rules | `(tactic| w_prim0) => `(tactic| with_reducible exact Sat.pure _)
macro_rules | `(tactic| w_prim0) => `(tactic| with_reducible exact Sat.rpanic _)

/-! ### primitives that keep the frame (Program.lean, Arrays.lean, Expr.lean) -/

section prims
variable {E : EPost F} [Compat E Fr]

omit [Compat E Fr] in
theorem sat_liftE {α : Type} {R : St F → St F → Prop} [Compat E R] (r : Except Err α)
    (h : ∀ e, r = .error e → e ≠ .outOfFuel) : Sat E R (liftE r : M F α) := by
  cases r with
  | ok a => exact Sat.pure a
  | error e => exact Sat.fail (h e rfl)

theorem sat_emit (o : Out) : Sat E Fr (emit (F := F) o) := by
  unfold emit; sat_start; w_auto
macro_rules | `(tactic| w_prim0) => `(tactic| with_reducible exact sat_emit _)

theorem sat_warn (msg : Str) : Sat E Fr (warn (F := F) msg) := by
  unfold warn; sat_start; w_auto
macro_rules | `(tactic| w_prim0) => `(tactic| with_reducible exact sat_warn _)

theorem sat_warnUndeclaredArray (name : Str) : Sat E Fr (warnUndeclaredArray (F := F) name) := by
  unfold warnUndeclaredArray; sat_start; w_auto
macro_rules | `(tactic| w_prim0) => `(tactic| with_reducible exact sat_warnUndeclaredArray _)

theorem sat_setVar (name : Str) (v : Value F) : Sat E Fr (setVar name v) := by
  unfold setVar; sat_start; w_auto
macro_rules | `(tactic| w_prim0) => `(tactic| with_reducible exact sat_setVar _ _)

theorem sat_defineFunction (name : Str) (args : List Str) : Sat E Fr (defineFunction (F := F) name args) := by
  unfold defineFunction; sat_start; w_auto
macro_rules | `(tactic| w_prim0) => `(tactic| with_reducible exact sat_defineFunction _ _)

theorem sat_startLoop (sym : Str) (a b c : F) : Sat E Fr (startLoop sym a b c) := by
  unfold startLoop
  sat_start
  refine W.modify_bind ?_ ?_
  · intro h
    split
    · exact Fr.upd h rfl rfl rfl (Nat.le_refl _) rfl rfl
    · exact h
  · w_auto
macro_rules | `(tactic| w_prim0) => `(tactic| with_reducible exact sat_startLoop _ _ _ _)

theorem sat_nextDataElement : Sat E Fr (nextDataElement (F := F)) := by
  unfold nextDataElement; sat_start; w_auto
macro_rules | `(tactic| w_prim0) => `(tactic| with_reducible exact sat_nextDataElement)

/-! Arrays.lean -/

theorem dimSizes_err (l : List Nat) : ∀ (total : Nat) (dims : List Nat) (e : Err),
    dimSizes l total dims = .error e → e ≠ .outOfFuel := by
  induction l with
  | nil => intro total dims e h; unfold dimSizes at h; cases h
  | cons m rest ih =>
    intro total dims e h
    unfold dimSizes at h
    dsimp only at h
    split at h
    · cases h; intro h; cases h
    · split at h
      · cases h; intro h; cases h
      · exact ih _ _ e h

theorem create_err [NumOps F] (name : Str) (idx : List Nat) (e : Err)
    (h : ArrayV.create (F := F) name idx = .error e) : e ≠ .outOfFuel := by
  unfold ArrayV.create at h
  split at h
  · cases h; intro h; cases h
  · split at h
    · rename_i e' he
      cases h
      exact dimSizes_err _ _ _ _ he
    · split at h
      · cases h; intro h; cases h
      · split at h <;> cases h

theorem linearIndexAux_err : ∀ (is ds : List Nat) (lin stride : Nat) (e : Err),
    linearIndexAux is ds lin stride = .error e → e ≠ .outOfFuel := by
  intro is
  induction is with
  | nil =>
    intro ds lin stride e h
    cases ds with
    | nil => unfold linearIndexAux at h; cases h
    | cons d ds => unfold linearIndexAux at h; cases h; intro h; cases h
  | cons i is ih =>
    intro ds lin stride e h
    cases ds with
    | nil => unfold linearIndexAux at h; cases h; intro h; cases h
    | cons d ds =>
      unfold linearIndexAux at h
      split at h
      · cases h; intro h; cases h
      · exact ih _ _ _ e h

theorem linearIndex_err (idx dims : List Nat) (e : Err) (h : linearIndex idx dims = .error e) :
    e ≠ .outOfFuel := by
  unfold linearIndex at h
  split at h
  · cases h; intro h; cases h
  · exact linearIndexAux_err _ _ _ _ e h

macro_rules | `(tactic| w_err) => `(tactic| exact create_err _ _ _ (by assumption))
macro_rules | `(tactic| w_err) => `(tactic| exact linearIndex_err _ _ _ (by assumption))

variable [NumOps F]

theorem sat_ensureArray (name : Str) (k : Nat) : Sat E Fr (ensureArray (F := F) name k) := by
  unfold ensureArray; sat_start; w_auto
macro_rules | `(tactic| w_prim0) => `(tactic| with_reducible exact sat_ensureArray _ _)

theorem sat_arrayGet (name : Str) (idx : List Nat) : Sat E Fr (arrayGet (F := F) name idx) := by
  unfold arrayGet; sat_start; w_auto
macro_rules | `(tactic| w_prim0) => `(tactic| with_reducible exact sat_arrayGet _ _)

theorem sat_arraySet (name : Str) (idx : List Nat) (v : Value F) : Sat E Fr (arraySet name idx v) := by
  unfold arraySet; sat_start; w_auto
macro_rules | `(tactic| w_prim0) => `(tactic| with_reducible exact sat_arraySet _ _ _)

theorem sat_arrayCreate (name : Str) (idx : List Nat) : Sat E Fr (arrayCreate (F := F) name idx) := by
  unfold arrayCreate; sat_start; w_auto
macro_rules | `(tactic| w_prim0) => `(tactic| with_reducible exact sat_arrayCreate _ _)

theorem sat_rnd (x : F) : Sat E Fr (rnd x) := by
  unfold rnd
  sat_start
  apply W.get_bind
  split
  · w_auto
  · split
    · w_auto
    · dsimp only
      split
      · exact W.rpanic
      · refine W.set_bind (fun h => Fr.upd h rfl rfl rfl (Nat.le_refl _) rfl rfl) W.pure
macro_rules | `(tactic| w_prim0) => `(tactic| with_reducible exact sat_rnd _)

theorem sat_takeInput : Sat E Fr (takeInput (F := F)) := by
  unfold takeInput; sat_start; w_auto
macro_rules | `(tactic| w_prim0) => `(tactic| with_reducible exact sat_takeInput)

omit [NumOps F] in
theorem sat_traceHere : Sat E Fr (traceHere (F := F)) := by
  unfold traceHere; sat_start; w_auto
macro_rules | `(tactic| w_prim0) => `(tactic| with_reducible exact sat_traceHere)

end prims

end Abasic.Budget
