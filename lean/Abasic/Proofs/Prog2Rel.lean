import Abasic.Proofs.Prog2Store
import Abasic.Props.C16
import Abasic.Props.C03
/-
  C03, control stack and DATA — how a reference state (`RState2`) and a model
  state (`St`) correspond while a program runs:

  * `AddrRel`  — a stored reference position `(n, j)` (the statement after a
                 GOSUB / FOR) against the token position the model stored (the
                 cursor right behind that statement: on the colon, or at the end
                 of the line);
  * `RetRel`, `LoopRel` — frames and loop records;
  * `DataRel`  — the DATA cursor against the model's iterator (`none` after RUN
                 and RESTORE; otherwise the items the iterator has not yet
                 yielded are the items from the cursor on);
  * `Mem`      — variables, arrays, loop stack, GOSUB stack, DATA, output;
  * `Env`      — what does not change during a run (store, flags, nesting 0);
  * `RInv`     — invariants of the reference state (variables have the kind
                 their name demands; arrays have as many cells as their
                 dimensions say);
  * `Outcome`  — what one activation of the statement evaluator has to do for
                 each `Ctl2` of the reference step.
-/
set_option linter.unusedSectionVars false

namespace Abasic.Prog2L
open Abasic Abasic.Ref Abasic.ExprL Abasic.StmtL Abasic.ProgL M

variable {F : Type} [NumOps F]

/-- two lists of the same length whose elements are related pairwise -/
inductive Rel2 {α β : Type} (R : α → β → Prop) : List α → List β → Prop where
  | nil : Rel2 R [] []
  | cons {a : α} {b : β} {as : List α} {bs : List β} : R a b → Rel2 R as bs → Rel2 R (a :: as) (b :: bs)

omit [NumOps F] in
theorem Rel2.length {α β : Type} {R : α → β → Prop} {as : List α} {bs : List β} (h : Rel2 R as bs) :
    as.length = bs.length := by
  induction h with
  | nil => rfl
  | cons _ _ ih => simp only [List.length_cons, ih]

/-! ### positions -/

/-- the reference position `(n, j)` — statement `j` of line `n`, where `j - 1` is
    a statement of that line — against the model location right behind statement `j - 1` -/
def AddrRel (p : RProgram2 F) (n j : Nat) (loc : Loc) : Prop :=
  ∃ ss j0 s, p.line n = some ss ∧ j = j0 + 1 ∧ ss[j0]? = some s ∧
    loc = { line := some n, idx := (preToks2 ss j0).length + (renderS2 s).length }

def RetRel (p : RProgram2 F) (a : Nat × Nat) (f : Frame F) : Prop :=
  f.vars = [] ∧ AddrRel p a.1 a.2 f.ret

def LoopRel (p : RProgram2 F) (l : RLoop F) (i : LoopInfo F) : Prop :=
  i.sym = l.var ∧ i.toV = l.limit ∧ i.stepV = l.step ∧ AddrRel p l.line l.idx i.loc

/-! ### DATA -/

/-- the DATA chunks of a program, as `Lines.dataChunks` computes them from its store -/
def progChunks (p : RProgram2 F) : List (Loc × List (DataElement F)) :=
  p.flatMap fun l => Props.C03.lineChunks (l.1, renderLine2 l.2)

/-- the items of a list of chunks, each with the line of its chunk -/
def flatItems (chunks : List (Loc × List (DataElement F))) : List (Option Nat × DataElement F) :=
  chunks.flatMap fun c => c.2.map fun d => (c.1.line, d)

/-- the items an iterator has not yet yielded -/
def remItems (it : DataIter F) : List (Option Nat × DataElement F) :=
  match it.chunks.drop it.ci with
  | [] => []
  | ch :: more => (ch.2.drop it.ii).map (fun d => (ch.1.line, d)) ++ flatItems more

def DataRel (p : RProgram2 F) (c : Nat) : Option (DataIter F) → Prop
  | none => c = 0
  | some it => it.chunks = progChunks p ∧
      remItems it = ((allData p).drop c).map fun x => (some x.1, x.2)

/-! ### states -/

structure Mem (p : RProgram2 F) (r : RState2 F) (σ : St F) : Prop where
  vars : σ.vars = r.vars
  arrays : σ.arrays = r.arrays
  loops : Rel2 (LoopRel p) r.loops σ.loops
  stack : Rel2 (RetRel p) r.rets σ.stack
  data : DataRel p r.data σ.data
  out : σ.out = outRecs r.out

structure Env (p : RProgram2 F) (σ : St F) : Prop where
  lines : Holds σ.lines p
  warnings : σ.warnings = false
  tracing : σ.tracing = false
  nesting : σ.nesting = 0
  fns : σ.fns = []

structure RInv (r : RState2 F) : Prop where
  typed : ∀ k v, alGet k r.vars = some v → v.matchesName k = true
  arrs : ∀ k a, alGet k r.arrays = some a → a.cellCount = Props.C16.prod a.dims

/-- what a statement leaves alone -/
structure Kept (σ σ' : St F) : Prop where
  lines : σ'.lines = σ.lines
  warnings : σ'.warnings = σ.warnings
  tracing : σ'.tracing = σ.tracing
  nesting : σ'.nesting = σ.nesting
  fns : σ'.fns = σ.fns
  state : σ'.state = σ.state

theorem Kept.env {p : RProgram2 F} {σ σ' : St F} (h : Kept σ σ') (he : Env p σ) : Env p σ' :=
  ⟨by rw [h.lines]; exact he.lines, by rw [h.warnings]; exact he.warnings, by rw [h.tracing]; exact he.tracing,
   by rw [h.nesting]; exact he.nesting, by rw [h.fns]; exact he.fns⟩

/-- The run `res` of one statement activation from `σ` (cursor on line `n`)
    against the reference result `(r', ctl)`.  `after`: the cursor position just
    behind the statement, `eol`: the length of the line. -/
def Outcome (p : RProgram2 F) (σ : St F) (n after eol : Nat) (res : Res F Unit) (r' : RState2 F) : Ctl2 → Prop
  | .next => ∃ σ', res = .ok () σ' ∧ Kept σ σ' ∧ Mem p r' σ' ∧ σ'.loc = { line := some n, idx := after }
  | .skipLine => ∃ σ', res = .ok () σ' ∧ Kept σ σ' ∧ Mem p r' σ' ∧ σ'.loc = { line := some n, idx := eol }
  | .jump m =>
    (σ.lines.has m = true →
      ∃ σ', res = .ok () σ' ∧ Kept σ σ' ∧ Mem p r' σ' ∧ σ'.loc = { line := some m, idx := 0 }) ∧
    (σ.lines.has m = false →
      ∃ σ', res = .err { err := .undefinedStatement } σ' ∧ σ'.loc.line = some n ∧ σ'.out = σ.out)
  | .stop => ∃ σ', res = .ok () σ' ∧ Kept σ σ' ∧ σ'.vars = r'.vars ∧ σ'.arrays = r'.arrays ∧
      σ'.out = outRecs r'.out ∧ σ'.loc = {} ∧ σ'.imm = []
  | .resume m k => ∃ σ', res = .ok () σ' ∧ Kept σ σ' ∧ Mem p r' σ' ∧ AddrRel p m k σ'.loc
  | .error e => e ≠ .dataTypeMismatch ∧
      ∃ σ', res = .err { err := e } σ' ∧ σ'.loc.line = some n ∧ σ'.out = σ.out
  | .errorAt e ln => e = .dataTypeMismatch ∧
      ∃ σ' i, res = .err { err := e } σ' ∧ σ'.dataLoc = some { line := some ln, idx := i } ∧ σ'.out = σ.out

/-! ### the stack is invisible to variable look-up -/

theorem findInStack_rets {p : RProgram2 F} {rets : List (Nat × Nat)} {stack : List (Frame F)}
    (h : Rel2 (RetRel p) rets stack) (sym : Str) : findInStack sym stack = none := by
  induction h with
  | nil => rfl
  | cons hd _ ih =>
    simp only [findInStack, hd.1, alGet]
    exact ih

/-! ### loops -/

/-- `removeLoop` on corresponding loop stacks finds corresponding loops and leaves corresponding rests -/
theorem removeLoop_rel {p : RProgram2 F} {v : Str} {rl : List (RLoop F)} {ml : List (LoopInfo F)}
    (h : Rel2 (LoopRel p) rl ml) :
    match findLoop v rl, removeLoop v ml with
    | none, none => True
    | some (l, rest), some (i, mrest) => LoopRel p l i ∧ Rel2 (LoopRel p) rest mrest
    | _, _ => False := by
  induction h with
  | nil => simp [findLoop, removeLoop]
  | @cons l i rl' ml' hd tl ih =>
    simp only [findLoop, removeLoop, hd.1]
    by_cases hv : (l.var == v) = true
    · simp only [hv, ↓reduceIte]
      exact ⟨hd, tl⟩
    · simp only [hv, Bool.false_eq_true, ↓reduceIte]
      exact ih

theorem afterRemove_rel {p : RProgram2 F} (v : Str) {rl : List (RLoop F)} {ml : List (LoopInfo F)}
    (h : Rel2 (LoopRel p) rl ml) :
    Rel2 (LoopRel p) (keptLoops v rl) (Props.C16.afterRemove v ml) := by
  have := removeLoop_rel (v := v) h
  unfold keptLoops Props.C16.afterRemove
  cases h1 : findLoop v rl with
  | none =>
    cases h2 : removeLoop v ml with
    | none => exact h
    | some x => rw [h1, h2] at this; exact this.elim
  | some x =>
    cases h2 : removeLoop v ml with
    | none => rw [h1, h2] at this; exact this.elim
    | some y => rw [h1, h2] at this; exact this.2

end Abasic.Prog2L
