import Abasic.Proofs.ExprFrame
import Abasic.Proofs.Transparency
import Abasic.Proofs.StmtLemmas
import Abasic.Proofs.CursorLemmas
/-
  The invariant behind C07 `run_numbered`:

    Live σ  — the cursor is in a numbered line, no breakpoint is pending, every
              return address on the GOSUB / function stack and every FOR loop
              start is in a numbered line;
    Dead σ  — the cursor is on the EMPTY immediate line (what END, STOP and
              running off the end of the program leave), return addresses and
              loop starts numbered.

  From a `Live` state every statement leads to a `Live` or a `Dead` state
  (`SP`); from a `Dead` state nothing can be executed.  `G σ` (`Live`, or
  `Dead` and idle) is preserved by every `continue_evaluating` /
  `provide_input` turn and established by RUN.
-/
set_option linter.unusedSectionVars false

namespace Abasic.Proofs.NumInv
open Abasic Abasic.Hoare Abasic.Proofs.XF M

variable {F : Type} [NumOps F]

def StackNum (σ : St F) : Prop := σ.stack.all (fun f => f.ret.line.isSome) = true
def LoopsNum (σ : St F) : Prop := σ.loops.all (fun l => l.loc.line.isSome) = true

/-- `κ` switches the breakpoint clause on: `Live True` = numbered cursor, no
    breakpoint pending, numbered return addresses and loops; `Live False` = the
    same without the breakpoint clause -/
def Live (κ : Prop) (σ : St F) : Prop :=
  σ.loc.line.isSome = true ∧ (κ → σ.bp = none) ∧ StackNum σ ∧ LoopsNum σ

def Dead (σ : St F) : Prop :=
  σ.loc.line = none ∧ σ.imm = [] ∧ StackNum σ ∧ LoopsNum σ

def J (κ : Prop) (σ : St F) : Prop := Live κ σ ∨ Dead σ

def G (κ : Prop) (σ : St F) : Prop := Live κ σ ∨ (Dead σ ∧ σ.state = .idle)

variable {κ : Prop}

theorem g_j {σ : St F} (h : G κ σ) : J κ σ := h.elim Or.inl (fun h => Or.inr h.1)

/-- `Live` is kept -/
def RLive (κ : Prop) (σ σ' : St F) : Prop := Live κ σ → Live κ σ'
/-- `Live` is kept and `Dead` is kept -/
def R2 (κ : Prop) (σ σ' : St F) : Prop := (Live κ σ → Live κ σ') ∧ (Dead σ → Dead σ')
/-- `Live ∨ Dead` is kept -/
def RJ (κ : Prop) (σ σ' : St F) : Prop := J κ σ → J κ σ'

instance : IsFrame (RLive (F := F) κ) where
  refl _ := id
  trans h1 h2 := fun h => h2 (h1 h)

instance : IsFrame (R2 (F := F) κ) where
  refl _ := ⟨id, id⟩
  trans h1 h2 := ⟨fun h => h2.1 (h1.1 h), fun h => h2.2 (h1.2 h)⟩

instance : IsFrame (RJ (F := F) κ) where
  refl _ := id
  trans h1 h2 := fun h => h2 (h1 h)

theorem rx_sub_rlive {σ σ' : St F} (h : RX σ σ') : RLive κ σ σ' := by
  intro hl
  unfold Live StackNum LoopsNum at *
  rw [h.line, h.bp, h.stack, h.loops]
  exact hl

theorem rx_sub_r2 {σ σ' : St F} (h : RX σ σ') : R2 κ σ σ' := by
  refine ⟨rx_sub_rlive h, fun hd => ?_⟩
  unfold Dead StackNum LoopsNum at *
  rw [h.line, h.imm, h.stack, h.loops]
  exact hd

theorem r2_sub_rj {σ σ' : St F} (h : R2 κ σ σ') : RJ κ σ σ' :=
  fun hj => hj.elim (fun x => Or.inl (h.1 x)) (fun x => Or.inr (h.2 x))

theorem r2_sub_rlive {σ σ' : St F} (h : R2 κ σ σ') : RLive κ σ σ' := h.1

macro_rules | `(tactic| respects_leaf) => `(tactic| exact (fun h => h : RLive _ _ _))
macro_rules | `(tactic| respects_leaf) => `(tactic| exact (⟨fun h => h, fun h => h⟩ : R2 _ _ _))
macro_rules | `(tactic| respects_prim) => `(tactic| (refine Respects.mono (R := RX) (fun _ _ => rx_sub_rlive) ?_; respects_prim))
macro_rules | `(tactic| respects_prim) => `(tactic| (refine Respects.mono (R := RX) (fun _ _ => rx_sub_r2) ?_; respects_prim))

/-! ### the primitives of Program.lean that statements use -/

theorem rl_setVar (name : Str) (v : Value F) : Respects (RLive κ) (setVar name v) := by
  unfold setVar
  respects_tac
macro_rules | `(tactic| respects_prim) => `(tactic| exact rl_setVar _ _)

theorem rl_arraySet (name : Str) (idx : List Nat) (v : Value F) : Respects (RLive κ) (arraySet name idx v) := by
  unfold arraySet
  respects_tac
macro_rules | `(tactic| respects_prim) => `(tactic| exact rl_arraySet _ _ _)

theorem rl_arrayCreate (name : Str) (idx : List Nat) : Respects (RLive κ) (arrayCreate (F := F) name idx) := by
  unfold arrayCreate
  respects_tac
macro_rules | `(tactic| respects_prim) => `(tactic| exact rl_arrayCreate _ _)

theorem rl_startLoop (sym : Str) (a b c : F) : Respects (RLive κ) (startLoop sym a b c) := by
  unfold startLoop
  apply respects_bind
  · apply respects_modify
    intro σ hl
    cases hrm : removeLoop sym σ.loops with
    | none => simpa only [hrm] using hl
    | some p =>
      obtain ⟨info, rest⟩ := p
      have := Sim.removeLoop_inv sym (fun l => l.loc.line.isSome) _ _ _ hl.2.2.2 hrm
      exact ⟨hl.1, hl.2.1, hl.2.2.1, this.2⟩
  · intro _
    apply respects_get_bind
    intro σ
    by_cases hc : (σ.loops.length == Extracted.stackLimit) = true
    · rw [if_pos hc]; exact (respects_fail _).at σ
    · rw [if_neg hc]
      refine respectsAt_bind (respectsAt_set fun hl => ?_) (fun _ => rl_setVar _ _)
      refine ⟨hl.1, hl.2.1, hl.2.2.1, ?_⟩
      show List.all (_ :: σ.loops) _ = true
      simp only [List.all_cons, Bool.and_eq_true]
      exact ⟨hl.1, hl.2.2.2⟩
macro_rules | `(tactic| respects_prim) => `(tactic| exact rl_startLoop _ _ _ _)

theorem rl_endLoop (sym : Str) : Respects (RLive κ) (endLoop (F := F) sym) := by
  unfold endLoop
  apply respects_get_bind
  intro σ
  dsimp only
  cases getVar σ sym with
  | str s => exact (respects_fail _).at σ
  | num cur =>
    dsimp only
    cases hrm : removeLoop sym σ.loops with
    | none => exact (respects_fail _).at σ
    | some p =>
      obtain ⟨info, rest⟩ := p
      dsimp only
      have hinv : Live κ σ → info.loc.line.isSome = true ∧ rest.all (fun l => l.loc.line.isSome) = true :=
        fun hl => Sim.removeLoop_inv sym (fun l => l.loc.line.isSome) _ _ _ hl.2.2.2 hrm
      have hset1 : (RLive κ) σ { σ with loops := info :: rest, loc := info.loc } := fun hl =>
        ⟨(hinv hl).1, hl.2.1, hl.2.2.1, by
          show List.all (info :: rest) _ = true
          simp only [List.all_cons, Bool.and_eq_true]; exact hinv hl⟩
      have hset2 : (RLive κ) σ { σ with loops := rest } := fun hl => ⟨hl.1, hl.2.1, hl.2.2.1, (hinv hl).2⟩
      apply respectsAt_ite
      · intro _
        exact respectsAt_bind (respectsAt_set hset1) (fun _ => rl_setVar _ _)
      · intro _
        exact respectsAt_bind (respectsAt_set hset2) (fun _ => rl_setVar _ _)
macro_rules | `(tactic| respects_prim) => `(tactic| exact rl_endLoop _)

theorem rl_gotoLine (n : Nat) : Respects (RLive κ) (gotoLine (F := F) n) := by
  apply respects_of_at
  intro σ
  have key : (RLive κ) σ (gotoLine n σ).final := by
    rw [StmtL.gotoLine_eq]
    cases σ.lines.has n
    · exact fun hl => ⟨hl.1, fun _ => rfl, hl.2.2.1, hl.2.2.2⟩
    · exact fun hl => ⟨rfl, fun _ => rfl, hl.2.2.1, hl.2.2.2⟩
  constructor
  · intro a s hs; rw [hs] at key; exact key
  · intro a s hs; rw [hs] at key; exact key
macro_rules | `(tactic| respects_prim) => `(tactic| exact rl_gotoLine _)

theorem rl_gosubLine (n : Nat) : Respects (RLive κ) (gosubLine (F := F) n) := by
  apply respects_of_at
  intro σ
  have key : (RLive κ) σ (gosubLine n σ).final := by
    rw [Sim.gosubLine_eq]
    by_cases hl : (σ.stack.length == Extracted.stackLimit) = true
    · rw [if_pos hl]; exact id
    · rw [if_neg hl]
      by_cases hh : σ.lines.has n = true
      · rw [if_pos hh]
        intro h
        refine ⟨rfl, fun _ => rfl, ?_, h.2.2.2⟩
        show List.all (_ :: σ.stack) _ = true
        simp only [List.all_cons, Bool.and_eq_true]
        exact ⟨h.1, h.2.2.1⟩
      · rw [if_neg hh]
        exact fun h => ⟨h.1, fun _ => rfl, h.2.2.1, h.2.2.2⟩
  constructor
  · intro a s hs; rw [hs] at key; exact key
  · intro a s hs; rw [hs] at key; exact key
macro_rules | `(tactic| respects_prim) => `(tactic| exact rl_gosubLine _)

theorem returnFromGosub_eq (σ : St F) : returnFromGosub σ =
    match σ.stack with
    | [] => .err { err := .returnWithoutGosub } { σ with bp := none }
    | f :: rest => .ok () { σ with bp := none, stack := rest, loc := f.ret } := by
  simp only [returnFromGosub, bind, M.bindM, M.modify, M.get]
  cases σ.stack <;> rfl

theorem rl_returnFromGosub : Respects (RLive κ) (returnFromGosub (F := F)) := by
  apply respects_of_at
  intro σ
  have key : (RLive κ) σ (returnFromGosub σ).final := by
    rw [returnFromGosub_eq]
    intro h
    have hs := h.2.2.1
    unfold StackNum at hs
    cases hst : σ.stack with
    | nil => exact ⟨h.1, fun _ => rfl, by unfold StackNum; rw [hst] at hs; exact hs, h.2.2.2⟩
    | cons f rest =>
      rw [hst] at hs
      simp only [List.all_cons, Bool.and_eq_true] at hs
      exact ⟨hs.1, fun _ => rfl, hs.2, h.2.2.2⟩
  constructor
  · intro a s hs; rw [hs] at key; exact key
  · intro a s hs; rw [hs] at key; exact key
macro_rules | `(tactic| respects_prim) => `(tactic| exact rl_returnFromGosub)

theorem rl_defineFunction (name : Str) (args : List Str) : Respects (RLive κ) (defineFunction (F := F) name args) := by
  unfold defineFunction
  respects_tac
macro_rules | `(tactic| respects_prim) => `(tactic| exact rl_defineFunction _ _)

theorem rl_nextDataElement : Respects (RLive κ) (nextDataElement (F := F)) := by
  unfold nextDataElement
  respects_tac
macro_rules | `(tactic| respects_prim) => `(tactic| exact rl_nextDataElement)

theorem rl_takeInput : Respects (RLive κ) (takeInput (F := F)) := by
  unfold takeInput
  respects_tac
macro_rules | `(tactic| respects_prim) => `(tactic| exact rl_takeInput)

theorem rl_rewindBeforeInput : Respects (RLive κ) (rewindBeforeInput (F := F)) := by
  unfold rewindBeforeInput
  respects_tac
macro_rules | `(tactic| respects_prim) => `(tactic| exact rl_rewindBeforeInput)

theorem rl_rewindAndAwaitInput : Respects (RLive κ) (rewindAndAwaitInput (F := F)) := by
  unfold rewindAndAwaitInput
  respects_tac
macro_rules | `(tactic| respects_prim) => `(tactic| exact rl_rewindAndAwaitInput)

theorem rl_traceHere : Respects (RLive κ) (traceHere (F := F)) := by
  unfold traceHere
  respects_tac
macro_rules | `(tactic| respects_prim) => `(tactic| exact rl_traceHere)

theorem rl_restore : Respects (RLive κ) (M.modify fun s : St F => { s with data := none }) := by
  respects_tac

/-! ### statements that keep the cursor in numbered lines -/

section stmts
variable (ev : Evals F) (hx : Respects RX ev.expr)
include hx

theorem rl_expr : Respects (RLive κ) ev.expr := Respects.mono (fun _ _ => rx_sub_rlive) hx

theorem rl_optionalArrayIndex : Respects (RLive κ) (optionalArrayIndex ev) :=
  Respects.mono (fun _ _ => rx_sub_rlive) (rx_optionalArrayIndex ev hx)

omit hx in
theorem rl_assignValue (lv : LValue) (v : Value F) : Respects (RLive κ) (assignValue lv v) := by
  unfold assignValue
  respects_tac

theorem rl_assignmentStatement (name : Str) : Respects (RLive κ) (assignmentStatement ev name) := by
  unfold assignmentStatement
  have := rl_optionalArrayIndex (κ := κ) ev hx
  have := rl_expr (κ := κ) ev hx
  have := rl_assignValue (κ := κ) (F := F)
  respects_tac

theorem rl_letStatement : Respects (RLive κ) (letStatement ev) := by
  unfold letStatement
  have := rl_assignmentStatement (κ := κ) ev hx
  respects_tac

theorem rl_parseLValue : Respects (RLive κ) (parseLValue ev) := by
  unfold parseLValue
  have := rl_optionalArrayIndex (κ := κ) ev hx
  respects_tac

omit hx in
theorem rl_gotoStatement : Respects (RLive κ) (gotoStatement (F := F)) := by
  unfold gotoStatement
  respects_tac

omit hx in
theorem rl_gosubStatement : Respects (RLive κ) (gosubStatement (F := F)) := by
  unfold gosubStatement
  respects_tac

theorem rl_readLoop (n : Nat) : Respects (RLive κ) (readLoop ev n) := by
  have := rl_parseLValue (κ := κ) ev hx
  have := rl_assignValue (κ := κ) (F := F)
  induction n with
  | zero => unfold readLoop; respects_tac
  | succ n ih => unfold readLoop; respects_tac

theorem rl_readStatement : Respects (RLive κ) (readStatement ev) := by
  unfold readStatement
  have := rl_readLoop (κ := κ) ev hx
  respects_tac

theorem rl_inputStatement : Respects (RLive κ) (inputStatement ev) := by
  unfold inputStatement
  have := rl_parseLValue (κ := κ) ev hx
  have := rl_assignValue (κ := κ) (F := F)
  respects_tac

theorem rl_dimStatement : Respects (RLive κ) (dimStatement ev) := by
  unfold dimStatement
  have := rl_parseLValue (κ := κ) ev hx
  respects_tac

theorem rl_printStatement : Respects (RLive κ) (printStatement ev) :=
  Respects.mono (fun _ _ => rx_sub_rlive) (rx_printStatement ev hx)

theorem rl_forStatement : Respects (RLive κ) (forStatement ev) := by
  unfold forStatement
  have := rl_expr (κ := κ) ev hx
  respects_tac

omit hx in
theorem rl_nextStatement : Respects (RLive κ) (nextStatement (F := F)) := by
  unfold nextStatement
  respects_tac

omit hx in
theorem rl_defArgsLoop (n : Nat) (acc : List Str) : Respects (RLive κ) (defArgsLoop (F := F) n acc) := by
  induction n generalizing acc with
  | zero => unfold defArgsLoop; respects_tac
  | succ n ih => unfold defArgsLoop; respects_tac

omit hx in
theorem rl_skipToColonLoop (n : Nat) : Respects (RLive κ) (skipToColonLoop (F := F) n) := by
  induction n with
  | zero => unfold skipToColonLoop; respects_tac
  | succ n ih => unfold skipToColonLoop; respects_tac

omit hx in
theorem rl_defStatement : Respects (RLive κ) (defStatement (F := F)) := by
  unfold defStatement
  have := rl_defArgsLoop (κ := κ) (F := F)
  have := rl_skipToColonLoop (κ := κ) (F := F)
  respects_tac

end stmts


/-! ### statements that may end the run: `Live κ` to `Live κ ∨ Dead` -/

/-- from a `Live κ` state, `m` ends (on either path) in a `Live κ` or a `Dead` state -/
def SP (κ : Prop) {α : Type} (m : M F α) : Prop := ∀ σ, Live κ σ → J κ (m σ).final

theorem final_bind {α β : Type} (m : M F α) (f : α → M F β) (σ : St F) :
    ((m >>= f) σ).final = match m σ with
      | .ok a s => (f a s).final
      | .err _ s => s := by
  simp only [bind, M.bindM]
  cases m σ <;> rfl

theorem sp_of_rlive {α : Type} {m : M F α} (h : Respects (RLive κ) m) : SP κ m :=
  fun σ hl => Or.inl (h.final σ hl)

theorem sp_bind {α β : Type} {m : M F α} {f : α → M F β} (hm : Respects (RLive κ) m) (hf : ∀ a, SP κ (f a)) :
    SP κ (m >>= f) := by
  intro σ hl
  rw [final_bind]
  have h1 := hm.final σ hl
  cases hr : m σ with
  | ok a s => rw [hr] at h1; exact hf a s h1
  | err e s => rw [hr] at h1; exact Or.inl h1

theorem sp_bind_j {α β : Type} {m : M F α} {f : α → M F β} (hm : SP κ m) (hf : ∀ a, Respects (RJ κ) (f a)) :
    SP κ (m >>= f) := by
  intro σ hl
  rw [final_bind]
  have h1 := hm σ hl
  cases hr : m σ with
  | ok a s => rw [hr] at h1; exact (hf a).final s h1
  | err e s => rw [hr] at h1; exact h1

theorem sp_ite {α : Type} {c : Prop} [Decidable c] {t e : M F α} (ht : SP κ t) (he : SP κ e) :
    SP κ (if c then t else e) := by
  by_cases h : c
  · rw [if_pos h]; exact ht
  · rw [if_neg h]; exact he

theorem sp_pure {α : Type} (a : α) : SP κ (pure a : M F α) := sp_of_rlive (respects_pure a)

theorem sp_attempt {α : Type} {m : M F α} (hm : SP κ m) : SP κ (M.attempt m) := by
  intro σ hl
  have h1 := hm σ hl
  unfold M.attempt
  cases hr : m σ with
  | ok a s => rw [hr] at h1; exact h1
  | err e s => rw [hr] at h1; exact h1

/-! the glue that runs after a statement that may have ended the run -/

theorem r2_peek : Respects (R2 κ) (peek (F := F)) := Respects.mono (fun _ _ => rx_sub_r2) rx_peek
theorem r2_peekIsKw (k : Kw) : Respects (R2 κ) (peekIsKw (F := F) k) :=
  Respects.mono (fun _ _ => rx_sub_r2) (rx_peekIsKw k)
theorem r2_hasNext : Respects (R2 κ) (hasNext (F := F)) := Respects.mono (fun _ _ => rx_sub_r2) rx_hasNext
theorem r2_discardRemaining : Respects (R2 κ) (discardRemaining (F := F)) :=
  Respects.mono (fun _ _ => rx_sub_r2) rx_discardRemaining
theorem r2_exitNested : Respects (R2 κ) (exitNested (F := F)) := Respects.mono (fun _ _ => rx_sub_r2) rx_exitNested

theorem rj_of_r2 {α : Type} {m : M F α} (h : Respects (R2 κ) m) : Respects (RJ κ) m :=
  Respects.mono (fun _ _ => r2_sub_rj) h

theorem stackNum_setImmediate (σ : St F) (ts : List (Token F)) (h : StackNum σ) :
    StackNum (σ.setImmediate ts) := by
  unfold StackNum St.setImmediate at *
  dsimp only
  split
  · rfl
  · exact h

theorem dead_setImmediate (σ : St F) (h : J κ σ) : Dead (σ.setImmediate []) := by
  have hs : StackNum σ := h.elim (fun h => h.2.2.1) (fun h => h.2.2.1)
  have hlp : LoopsNum σ := h.elim (fun h => h.2.2.2) (fun h => h.2.2.2)
  exact ⟨rfl, rfl, stackNum_setImmediate σ [] hs, hlp⟩

theorem rj_setImmediate_nil : Respects (RJ κ) (setImmediate (F := F) []) := by
  unfold setImmediate
  apply respects_modify
  intro σ hj
  exact Or.inr (dead_setImmediate σ hj)

theorem sp_setImmediate_nil : SP κ (setImmediate (F := F) []) :=
  fun σ hl => Or.inr (dead_setImmediate σ (Or.inl hl))

theorem dead_progBreak (σ : St F) (h : J κ σ) : Dead σ.progBreak := by
  have hs : StackNum σ := h.elim (fun h => h.2.2.1) (fun h => h.2.2.1)
  have hlp : LoopsNum σ := h.elim (fun h => h.2.2.2) (fun h => h.2.2.2)
  unfold St.progBreak
  exact ⟨rfl, rfl, stackNum_setImmediate _ [] hs, hlp⟩

theorem sp_breakAtCurrentLocation : SP κ (breakAtCurrentLocation (F := F)) := by
  intro σ hl
  refine Or.inr (dead_progBreak (κ := κ) _ (Or.inl ?_))
  exact hl

theorem sp_nested {α : Type} {m : M F α} (hm : SP κ m) : SP κ (nested m) := by
  unfold nested
  refine sp_bind (Respects.mono (fun _ _ => rx_sub_rlive) rx_enterNested) fun _ => ?_
  refine sp_bind_j (sp_attempt hm) fun r => ?_
  exact respects_bind (rj_of_r2 r2_exitNested) fun _ => respects_ofExcept r

section stmts2
variable (ev : Evals F) (hx : Respects RX ev.expr) (hs : SP κ ev.stmt)
include hs

theorem sp_statementOrGoto : SP κ (statementOrGoto ev) := by
  unfold statementOrGoto
  refine sp_bind (Respects.mono (fun _ _ => rx_sub_rlive) rx_peek) fun t => ?_
  split
  · exact sp_of_rlive rl_gotoStatement
  · exact sp_nested hs

theorem sp_ifSkipLoop (n : Nat) : SP κ (ifSkipLoop ev n) := by
  induction n with
  | zero => unfold ifSkipLoop; exact sp_of_rlive (respects_fail _)
  | succ n ih =>
    unfold ifSkipLoop
    refine sp_bind (Respects.mono (fun _ _ => rx_sub_rlive) rx_next) fun t => ?_
    cases t with
    | none => exact sp_pure _
    | some t =>
      dsimp only
      refine sp_ite ?_ (sp_ite (sp_statementOrGoto ev hs) ih)
      exact sp_bind (Respects.mono (fun _ _ => rx_sub_rlive) rx_discardRemaining) fun _ => ih

include hx

theorem sp_ifStatement : SP κ (ifStatement ev) := by
  unfold ifStatement
  refine sp_bind (rl_expr ev hx) fun c => ?_
  refine sp_bind (Respects.mono (fun _ _ => rx_sub_rlive) (rx_expect _)) fun _ => ?_
  refine sp_ite ?_ ?_
  · refine sp_bind_j (sp_statementOrGoto ev hs) fun _ => ?_
    refine respects_bind (rj_of_r2 (r2_peekIsKw _)) fun b => ?_
    exact respects_ite (fun _ => rj_of_r2 r2_discardRemaining) (fun _ => respects_pure _)
  · exact sp_bind (Respects.mono (fun _ _ => rx_sub_rlive) rx_lineBudget) fun b => sp_ifSkipLoop ev hs b

theorem sp_dispatch : SP κ (dispatch ev) := by
  unfold dispatch
  refine sp_bind (Respects.mono (fun _ _ => rx_sub_rlive) rx_next) fun t => ?_
  have h1 := rl_assignmentStatement (κ := κ) ev hx
  have h2 := rl_dimStatement (κ := κ) ev hx
  have h3 := rl_printStatement (κ := κ) ev hx
  have h4 := rl_inputStatement (κ := κ) ev hx
  have h5 := sp_ifStatement (κ := κ) ev hx hs
  have h6 := rl_forStatement (κ := κ) ev hx
  have h7 := rl_readStatement (κ := κ) ev hx
  have h8 := rl_letStatement (κ := κ) ev hx
  split
  all_goals first
    | exact sp_pure _
    | exact sp_of_rlive (respects_fail _)
    | exact sp_of_rlive (h1 _)
    | skip
  split
  all_goals first
    | exact sp_pure _
    | exact sp_of_rlive (respects_fail _)
    | exact sp_breakAtCurrentLocation
    | exact sp_setImmediate_nil
    | exact h5
    | exact sp_of_rlive h2
    | exact sp_of_rlive h3
    | exact sp_of_rlive h4
    | exact sp_of_rlive h6
    | exact sp_of_rlive h7
    | exact sp_of_rlive h8
    | exact sp_of_rlive rl_gotoStatement
    | exact sp_of_rlive rl_gosubStatement
    | exact sp_of_rlive rl_returnFromGosub
    | exact sp_of_rlive rl_nextStatement
    | exact sp_of_rlive rl_restore
    | exact sp_of_rlive rl_defStatement

theorem sp_stmtBody : SP κ (stmtBody ev) := by
  unfold stmtBody
  exact sp_bind rl_traceHere fun _ => sp_dispatch ev hx hs

end stmts2

/-- every statement evaluation, at every fuel -/
theorem sp_evalN_stmt (n : Nat) : SP κ (evalN (F := F) n).stmt := by
  induction n with
  | zero => exact sp_of_rlive (respects_fail _)
  | succ n ih => exact sp_stmtBody _ (rx_evalN_expr n) ih

theorem sp_stmtBody_evalN (n : Nat) : SP κ (stmtBody (evalN (F := F) n)) :=
  sp_stmtBody _ (rx_evalN_expr n) (sp_evalN_stmt n)


/-! ### whole turns -/

/-- postcondition of one run: `Q` on the value and state of a success, `E` on the state of a failure -/
def Post {α : Type} (r : Res F α) (Q : α → St F → Prop) (E : St F → Prop) : Prop :=
  match r with
  | .ok a s => Q a s
  | .err _ s => E s

theorem post_bind {α β : Type} {m : M F α} {f : α → M F β} {σ : St F}
    {Q : α → St F → Prop} {Q' : β → St F → Prop} {E : St F → Prop}
    (hm : Post (m σ) Q E) (hf : ∀ a s, Q a s → Post (f a s) Q' E) : Post ((m >>= f) σ) Q' E := by
  simp only [bind, M.bindM]
  cases hr : m σ with
  | ok a s => rw [hr] at hm; exact hf a s hm
  | err e s => rw [hr] at hm; exact hm

theorem post_respects {α : Type} {R : St F → St F → Prop} {m : M F α} (h : Respects R m) (σ : St F)
    {Q E : St F → Prop} (hq : ∀ s, R σ s → Q s) (he : ∀ s, R σ s → E s) :
    Post (m σ) (fun _ => Q) E := by
  have h1 := h.final σ
  cases hr : m σ with
  | ok a s => rw [hr] at h1; exact hq s h1
  | err e s => rw [hr] at h1; exact he s h1

theorem post_of_final {α : Type} {r : Res F α} {Q : St F → Prop} (h : Q r.final) : Post r (fun _ => Q) Q := by
  cases r <;> exact h

theorem final_of_post {α : Type} {r : Res F α} {Q : St F → Prop} (h : Post r (fun _ => Q) Q) : Q r.final := by
  cases r <;> exact h

theorem tokens_dead (σ : St F) (h : Dead σ) : tokens σ = .ok [] σ := by
  unfold tokens tokensForLine
  rw [h.1, h.2.1]

theorem hasNext_dead (σ : St F) (h : Dead σ) : hasNext σ = .ok false { σ with reads := σ.reads + 1 } := by
  unfold hasNext
  rw [ExprL.bind_ok (Cursor.peek_eq σ [] (tokens_dead σ h))]
  rfl

theorem nextLine_dead (σ : St F) (h : Dead σ) : nextLine σ = .ok false σ := by
  simp only [nextLine, bind, M.bindM, M.get, h.1]
  rfl

theorem rl_nextLine : Respects (RLive κ) (nextLine (F := F)) := by
  unfold nextLine
  apply respects_get_bind
  intro σ
  cases σ.loc.line with
  | none => exact (respects_pure _).at σ
  | some n =>
    dsimp only
    cases σ.lines.after n with
    | none => exact (respects_pure _).at σ
    | some m =>
      refine respectsAt_bind (respectsAt_set fun hl => ?_) (fun _ => respects_pure _)
      exact ⟨rfl, hl.2.1, hl.2.2.1, hl.2.2.2⟩

/-- `run_next_statement`, first half: execute the statement under the cursor, if any -/
def headPart (fuel : Nat) : M F Unit := do
  if ← hasNext then stmtBody (evalN fuel)

/-- `run_next_statement`, second half: at the end of the line go to the next
    line, at the end of the program return to idle -/
def tailPart : M F Unit := do
  if !(← hasNext) then
    if !(← nextLine) then
      setImmediate []
      returnToIdle

theorem runNextStatement_eq (fuel : Nat) :
    runNextStatement (F := F) fuel = (do
      modify fun s => { s with state := .running }
      headPart fuel
      tailPart) := by
  funext σ
  simp only [runNextStatement, headPart, bind, M.bindM, M.modify]
  cases hasNext ({ σ with state := .running } : St F) with
  | err e s => rfl
  | ok b s =>
    cases b with
    | false => rfl
    | true =>
      simp only [if_true]
      conv => lhs; unfold M.bindM
      cases stmtBody (evalN fuel) s <;> rfl

theorem head_j (fuel : Nat) (σ : St F) (h : J κ σ) : J κ (headPart fuel σ).final := by
  rcases h with hl | hd
  · have : SP κ (headPart (F := F) fuel) := by
      unfold headPart
      refine sp_bind (Respects.mono (fun _ _ => rx_sub_rlive) rx_hasNext) fun b => ?_
      exact sp_ite (sp_stmtBody_evalN fuel) (sp_pure _)
    exact this σ hl
  · unfold headPart
    rw [ExprL.bind_ok (hasNext_dead σ hd)]
    exact Or.inr hd

theorem idle_tail (s : St F) :
    (setImmediate (F := F) [] >>= fun _ => returnToIdle) s = .ok () { s.setImmediate [] with state := .idle } := rfl

theorem tail_post (σ : St F) (h : J κ σ) : Post (tailPart σ) (fun _ => G κ) (J κ) := by
  rcases h with hl | hd
  · unfold tailPart
    refine post_bind (Q := fun _ => Live κ)
      (post_respects (Respects.mono (fun _ _ => rx_sub_rlive) rx_hasNext) σ (fun s h => h hl)
        (fun s h => Or.inl (h hl))) fun b s hs => ?_
    cases b with
    | true => exact Or.inl hs
    | false =>
      simp only [Bool.not_false, if_true]
      refine post_bind (Q := fun _ => Live κ)
        (post_respects rl_nextLine s (fun s h => h hs) (fun s h => Or.inl (h hs))) fun c s2 hs2 => ?_
      cases c with
      | true => exact Or.inl hs2
      | false =>
        simp only [Bool.not_false, if_true]
        rw [idle_tail]
        exact Or.inr ⟨dead_setImmediate s2 (Or.inl hs2), rfl⟩
  · have hd' : Dead ({ σ with reads := σ.reads + 1 } : St F) := hd
    unfold tailPart
    rw [ExprL.bind_ok (hasNext_dead σ hd)]
    simp only [Bool.not_false, if_true]
    rw [ExprL.bind_ok (nextLine_dead _ hd')]
    simp only [Bool.not_false, if_true]
    rw [idle_tail]
    exact Or.inr ⟨dead_setImmediate (κ := κ) _ (Or.inr hd'), rfl⟩

/-- one `run_next_statement` from a `Live κ` or `Dead` state: a success ends
    `Live κ`, or `Dead` and idle; a failure ends `Live κ` or `Dead` -/
theorem rns_post (fuel : Nat) (σ : St F) (h : J κ σ) : Post (runNextStatement fuel σ) (fun _ => G κ) (J κ) := by
  rw [runNextStatement_eq]
  refine post_bind (Q := fun _ => J κ) (E := J κ) (σ := σ)
    (m := modify fun s => { s with state := .running }) ?_ fun _ s hs => ?_
  · exact h
  · exact post_bind (Q := fun _ => J κ) (post_of_final (head_j fuel s hs)) fun _ s2 hs2 => tail_post s2 hs2

theorem j_idle {σ : St F} (h : J κ σ) : G κ { σ with state := .idle } :=
  h.elim (fun hl => Or.inl hl) (fun hd => Or.inr ⟨hd, rfl⟩)

theorem g_postprocess {α : Type} {m : M F α} {σ : St F} (h : Post (m σ) (fun _ => G κ) (J κ)) :
    G κ (postprocess m σ).final := by
  unfold postprocess
  cases hr : m σ with
  | ok a s => rw [hr] at h; exact h
  | err e s => rw [hr] at h; exact j_idle h

/-- **continue_evaluating keeps the invariant** -/
theorem g_continueEvaluating (fuel : Nat) (σ : St F) (h : G κ σ) : G κ (continueEvaluating fuel σ).final := by
  unfold continueEvaluating
  simp only [bind, M.bindM, M.get]
  by_cases hs : (σ.state != .running) = true
  · rw [if_pos hs]; exact h
  · rw [if_neg hs]
    exact g_postprocess (rns_post fuel σ (g_j h))

/-- **provide_input keeps the invariant** -/
theorem g_provideInput (text : Str) (σ : St F) (h : G κ σ) : G κ (provideInput text σ).final := by
  unfold provideInput
  simp only [bind, M.bindM, M.get]
  by_cases hs : (σ.state != .awaitingInput) = true
  · rw [if_pos hs]; exact h
  · rw [if_neg hs]
    have hst : σ.state = .awaitingInput := by simpa using hs
    rcases h with hl | ⟨_, hi⟩
    · exact Or.inl hl
    · rw [hst] at hi; cases hi

/-- what RUN starts from -/
theorem j_runFromFirst (s : St F) : J κ s.runFromFirst := by
  unfold St.runFromFirst
  dsimp only
  cases hf : (s.resetRuntime).lines.first with
  | none =>
    refine Or.inr ⟨rfl, rfl, ?_, rfl⟩
    simp [StackNum, St.resetRuntime, St.setImmediate]
  | some n =>
    refine Or.inl ⟨rfl, fun _ => rfl, ?_, rfl⟩
    simp [StackNum, St.resetRuntime, St.setImmediate]

theorem runFromFirst_empty (s : St F) : s.runFromFirst.stack = [] ∧ s.runFromFirst.loops = [] := by
  unfold St.runFromFirst
  dsimp only
  cases (s.resetRuntime).lines.first <;> simp [St.resetRuntime, St.setImmediate]

/-- the RUN command at the prompt of an idle interpreter -/
theorem run_eval (fuel : Nat) (line : Str) (s : St F) (hs : s.state = .idle)
    (hrun : (commandWord line).bind Command.ofWord = some .run) :
    evaluateImpl fuel line s =
      (do runNextStatement fuel; pure ())
        (({ s.setImmediate [] with input := none, vars := [], arrays := [] } : St F).runFromFirst) := by
  simp [evaluateImpl, hs, maybeProcessCommand, hrun, bind, M.bindM, M.get, M.modify, setImmediate,
    pure, M.pureM]
  cases runNextStatement fuel
    (({ s.setImmediate [] with input := none, vars := [], arrays := [] } : St F).runFromFirst) <;> rfl

/-- **RUN establishes the invariant** -/
theorem g_run (fuel : Nat) (line : Str) (s : St F) (hs : s.state = .idle)
    (hrun : (commandWord line).bind Command.ofWord = some .run) :
    G κ (startEvaluating fuel line s).final := by
  unfold startEvaluating
  apply g_postprocess
  rw [run_eval fuel line s hs hrun]
  exact post_bind (rns_post fuel _ (j_runFromFirst _)) fun _ s2 hs2 => hs2

end Abasic.Proofs.NumInv
