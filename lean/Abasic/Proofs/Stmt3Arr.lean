import Abasic.Proofs.Stmt3Ctl
import Abasic.Proofs.Prims
/-
  C03, third layer — the statement evaluator on the statements of Ref/Stmt3.lean.

  Part 5: READ, DIM, assignment to an array cell.
-/
set_option linter.unusedSectionVars false

namespace Abasic.Stmt3L
open Abasic Abasic.Ref Abasic.ExprL Abasic.ExprL2 Abasic.StmtL Abasic.ProgL Abasic.Prog3L Abasic.Hoare M
open Abasic.Prog2L (Rel2)
open Abasic.Stmt2L (accept_end optionalArrayIndex_none' coerce_matches coerce_err readLoop_unfold readAll_ctl)

variable {F : Type} [NumOps F]

/-! ### READ -/

theorem stmtEnd_not {rest : List (Token F)} (h : StmtEnd rest) {k : Kw} (hk : k ≠ .Colon) (hk' : k ≠ .Else) :
    ∀ t, rest.head? = some t → t.isKw k = false := by
  intro t ht
  rcases h t ht with rfl | rfl
  · show (k == Kw.Colon) = false
    simp only [beq_eq_false_iff_ne, ne_eq]; exact hk
  · show (k == Kw.Else) = false
    simp only [beq_eq_false_iff_ne, ne_eq]; exact hk'

/-- one target of a READ: its name, the next item, the coercion, the assignment -/
theorem read_one3 {p : RProgram3 F} (hwf : p.WF) (ev : Evals F) (t : Str) (σ : St F) (pre post : List (Token F))
    (c : Nat) (hAt : At σ pre (.symbol t :: post)) (hpost : ∀ t', post.head? = some t' → t'.isKw .LeftParen = false)
    (hh : Holds σ.lines p) (hd : DataRel3 p c σ.data) (K : M F Unit) :
    match (allData3 p)[c]? with
    | none => ∃ σ', (do
          let lv ← parseLValue ev
          match ← nextDataElement with
          | none => fail .outOfData
          | some e =>
            let v ← liftE (Value.coerceFromData lv.name e)
            assignValue lv v
            K) σ = .err { err := .outOfData } σ' ∧ σ'.loc.line = σ.loc.line ∧ σ'.out = σ.out ∧ σ'.nesting = σ.nesting
    | some (ln, d) =>
      match Value.coerceFromData t d with
      | .error e => ∃ σ' i, (do
          let lv ← parseLValue ev
          match ← nextDataElement with
          | none => fail .outOfData
          | some e =>
            let v ← liftE (Value.coerceFromData lv.name e)
            assignValue lv v
            K) σ = .err { err := e } σ' ∧ σ'.dataLoc = some { line := some ln, idx := i } ∧ σ'.out = σ.out ∧ σ'.nesting = σ.nesting
      | .ok v => ∃ it' σ1, DataRel3 p (c + 1) (some it') ∧ (do
          let lv ← parseLValue ev
          match ← nextDataElement with
          | none => fail .outOfData
          | some e =>
            let v ← liftE (Value.coerceFromData lv.name e)
            assignValue lv v
            K) σ = K σ1 ∧
          σ1 = mv ({ σ with data := some it', vars := alSet t v σ.vars } : St F) 1 (σ.reads + 1 + 1) := by
  have hAt1 := at_mv1 hAt (σ.reads + 1)
  have hpl : parseLValue ev σ = .ok { name := t, index := none } (mv σ 1 (σ.reads + 1 + 1)) := by
    unfold parseLValue
    rw [bind_ok (next_eq hAt)]
    simp only
    rw [bind_ok (optionalArrayIndex_none' hAt1 hpost), mv_mv]
    rfl
  have hh' : Holds (mv σ 1 (σ.reads + 1 + 1)).lines p := hh
  have hd' : DataRel3 p c (mv σ 1 (σ.reads + 1 + 1)).data := hd
  cases hc : (allData3 p)[c]? with
  | none =>
    obtain ⟨it', hnd⟩ := nextData_none hh' hwf hd' hc
    refine ⟨_, ?_, (rfl : (({ mv σ 1 (σ.reads + 1 + 1) with data := some it' } : St F)).loc.line = _), rfl, rfl⟩
    rw [bind_ok hpl, bind_ok hnd]
    rfl
  | some lnd =>
    obtain ⟨ln, d⟩ := lnd
    obtain ⟨it', i, hnd, hrel, hdl⟩ := nextData_some hh' hwf hd' hc
    dsimp only
    cases hco : Value.coerceFromData t d with
    | error e =>
      refine ⟨_, i, ?_, hdl, rfl, rfl⟩
      rw [bind_ok hpl, bind_ok hnd]
      simp only [hco, liftE]
      rfl
    | ok v =>
      refine ⟨it', _, hrel, ?_, rfl⟩
      rw [bind_ok hpl, bind_ok hnd]
      simp only [hco, liftE]
      have hm := coerce_matches hco
      have hset : assignValue (F := F) { name := t, index := none } v
          ({ mv σ 1 (σ.reads + 1 + 1) with data := some it' } : St F) =
          .ok () { mv σ 1 (σ.reads + 1 + 1) with data := some it', vars := alSet t v σ.vars } := by
        simp only [assignValue, setVar, hm, ↓reduceIte, M.modify]
        rfl
      show (pure v >>= fun v => assignValue { name := t, index := none } v >>= fun _ => K) _ = _
      rw [bind_ok (pure_eq v _), bind_ok hset]
      rfl

/-- the result of a READ against the run of `readLoop` -/
def ReadOK3 (p : RProgram3 F) (σ : St F) (len : Nat) (res : Res F Unit) :
    List (Str × Value F) × Nat × Ctl2 → Prop
  | (vars, c, .next) => ∃ it' rr, res = .ok ()
        { σ with vars := vars, data := some it', loc := { σ.loc with idx := σ.loc.idx + len }, reads := rr } ∧
      DataRel3 p c (some it')
  | (_, _, .error e) => e = .outOfData ∧ ∃ σ', res = .err { err := e } σ' ∧ σ'.loc.line = σ.loc.line ∧ σ'.out = σ.out ∧ σ'.nesting = σ.nesting
  | (_, _, .errorAt e ln) => e = .dataTypeMismatch ∧
      ∃ σ' i, res = .err { err := e } σ' ∧ σ'.dataLoc = some { line := some ln, idx := i } ∧ σ'.out = σ.out ∧ σ'.nesting = σ.nesting
  | _ => True

theorem readOK3_eq {p : RProgram3 F} {σ : St F} {len : Nat} {res res' : Res F Unit}
    {x : List (Str × Value F) × Nat × Ctl2} (h : ReadOK3 p σ len res x) (he : res' = res) : ReadOK3 p σ len res' x := by
  subst he; exact h

theorem readLoop3_run {p : RProgram3 F} (hwf : p.WF) (ev : Evals F) (rest : List (Token F)) (hLE : StmtEnd rest) :
    ∀ (ts : List Str), ts ≠ [] → ∀ (k : Nat) (σ : St F) (pre : List (Token F)) (vars : List (Str × Value F)) (c : Nat),
      At σ pre (renderTargets ts ++ rest) → Holds σ.lines p → σ.vars = vars → DataRel3 p c σ.data →
      (renderTargets (F := F) ts).length < k →
      ReadOK3 p σ (renderTargets (F := F) ts).length (readLoop ev k σ) (readAll (allData3 p) ts vars c) := by
  intro ts
  induction ts with
  | nil => intro h; exact absurd rfl h
  | cons t ts' ih =>
    intro _ k σ pre vars c hAt hh hv hd hk
    obtain ⟨k', rfl⟩ : ∃ k', k = k' + 1 := ⟨k - 1, by omega⟩
    rw [readLoop_unfold]
    cases ts' with
    | nil =>
      have hAt0 : At σ pre (.symbol t :: rest) := hAt
      have hO := read_one3 hwf ev t σ pre rest c hAt0 (stmtEnd_not hLE (by decide) (by decide)) hh hd
        (accept .Comma >>= fun b => if b then readLoop ev k' else pure ())
      cases hc : (allData3 p)[c]? with
      | none =>
        rw [hc] at hO
        have hr : readAll (allData3 p) [t] vars c = (vars, c, .error .outOfData) := by
          simp only [readAll, hc]
        rw [hr]
        exact ⟨rfl, hO⟩
      | some lnd =>
        obtain ⟨ln, d⟩ := lnd
        rw [hc] at hO
        dsimp only at hO
        cases hco : Value.coerceFromData t d with
        | error e =>
          rw [hco] at hO
          have hr : readAll (allData3 p) [t] vars c = (vars, c + 1, .errorAt e ln) := by
            simp only [readAll, hc, hco]
          rw [hr]
          exact ⟨coerce_err hco, hO⟩
        | ok v =>
          rw [hco] at hO
          obtain ⟨it', σ1, hrel, hrun, hσ1⟩ := hO
          have hr : readAll (allData3 p) [t] vars c = (alSet t v vars, c + 1, .next) := by
            simp only [readAll, hc, hco]
          rw [hr]
          refine readOK3_eq ?_ hrun
          have hAtb : At ({ σ with data := some it', vars := alSet t v σ.vars } : St F) pre (.symbol t :: rest) :=
            ⟨hAt0.1, hAt0.2⟩
          have hAt1 : At σ1 (pre ++ [.symbol t]) rest := by rw [hσ1]; exact at_mv1 hAtb (σ.reads + 1 + 1)
          rw [bind_ok (accept_end hAt1 (stmtEnd_not hLE (by decide) (by decide)))]
          refine ⟨it', σ1.reads + 1, ?_, hrel⟩
          simp only [Bool.false_eq_true, ↓reduceIte, pure_eq, hσ1, mv, hv, renderTargets, List.length_cons,
            List.length_nil]
    | cons t' ts'' =>
      have hAt0 : At σ pre (.symbol t :: .kw .Comma :: (renderTargets (t' :: ts'') ++ rest)) := by
        simpa only [renderTargets, List.cons_append] using hAt
      have hlen : (renderTargets (F := F) (t :: t' :: ts'')).length = (renderTargets (F := F) (t' :: ts'')).length + 2 := by
        simp only [renderTargets, List.length_cons]
      have hO := read_one3 hwf ev t σ pre _ c hAt0 (by intro t0 ht0; simp only [List.head?_cons, Option.some.injEq] at ht0; subst ht0; rfl) hh hd
        (accept .Comma >>= fun b => if b then readLoop ev k' else pure ())
      cases hc : (allData3 p)[c]? with
      | none =>
        rw [hc] at hO
        have hr : readAll (allData3 p) (t :: t' :: ts'') vars c = (vars, c, .error .outOfData) := by
          simp only [readAll, hc]
        rw [hr]
        exact ⟨rfl, hO⟩
      | some lnd =>
        obtain ⟨ln, d⟩ := lnd
        rw [hc] at hO
        dsimp only at hO
        cases hco : Value.coerceFromData t d with
        | error e =>
          rw [hco] at hO
          have hr : readAll (allData3 p) (t :: t' :: ts'') vars c = (vars, c + 1, .errorAt e ln) := by
            simp only [readAll, hc, hco]
          rw [hr]
          exact ⟨coerce_err hco, hO⟩
        | ok v =>
          rw [hco] at hO
          obtain ⟨it', σ1, hrel, hrun, hσ1⟩ := hO
          have hr : readAll (allData3 p) (t :: t' :: ts'') vars c =
              readAll (allData3 p) (t' :: ts'') (alSet t v vars) (c + 1) := by
            simp only [readAll, hc, hco]
          rw [hr]
          refine readOK3_eq ?_ hrun
          have hAtb : At ({ σ with data := some it', vars := alSet t v σ.vars } : St F) pre
              (.symbol t :: .kw .Comma :: (renderTargets (t' :: ts'') ++ rest)) := ⟨hAt0.1, hAt0.2⟩
          have hAt1 : At σ1 (pre ++ [.symbol t]) (.kw .Comma :: (renderTargets (t' :: ts'') ++ rest)) := by
            rw [hσ1]; exact at_mv1 hAtb (σ.reads + 1 + 1)
          rw [bind_ok (accept_true hAt1 rfl)]
          simp only [↓reduceIte]
          have hAt2 := at_mv1 hAt1 (σ1.reads + 1)
          have hI := ih (by simp) k' _ _ (alSet t v vars) (c + 1) hAt2 (by rw [hσ1]; exact hh)
            (by rw [hσ1]; show alSet t v σ.vars = _; rw [hv])
            (by rw [hσ1]; exact hrel) (by rw [hlen] at hk; omega)
          generalize readAll (allData3 p) (t' :: ts'') (alSet t v vars) (c + 1) = res at hI ⊢
          obtain ⟨vars', c', ctl⟩ := res
          cases ctl with
          | next =>
            obtain ⟨it'', rr, hres, hrel'⟩ := hI
            refine ⟨it'', rr, ?_, hrel'⟩
            rw [hres, hlen, hσ1]
            simp only [mv]
            congr 3
            omega
          | error e =>
            obtain ⟨he, σ', hres, hl, ho, hnn⟩ := hI
            exact ⟨he, σ', hres, by rw [hl, hσ1]; rfl, by rw [ho, hσ1]; rfl, by rw [hnn, hσ1]; rfl⟩
          | errorAt e ln' =>
            obtain ⟨he, σ', i, hres, hdl, ho, hnn⟩ := hI
            exact ⟨he, σ', i, hres, hdl, by rw [ho, hσ1]; rfl, by rw [hnn, hσ1]; rfl⟩
          | skipLine => trivial
          | jump m => trivial
          | stop => trivial
          | resume a b => trivial


section stmts
variable {p : RProgram3 F} {n j : Nat}

theorem read_ok (ts : List Str) : StmtOK p n j (.readS ts) := by
  intro fuel σ r pre rest after eol hS hP hE _ hcov _ _ _
  have hAt0 : At σ pre (.kw .Read :: (renderTargets ts ++ rest)) := by
    simpa only [renderS3, List.cons_append] using hP.cur
  obtain ⟨k1, h1⟩ := next_ex hAt0
  have hAt1 := at_mv1 hAt0 k1
  have hst : Start σ (mv σ 1 k1) := start_mv _ _ _
  have hrun : stmtBody (evalN fuel) σ =
      readLoop (evalN fuel) ((pre ++ [Token.kw Kw.Read] ++ (renderTargets ts ++ rest)).length + 1) (mv σ 1 k1) := by
    unfold stmtBody
    rw [bind_ok (traceHere_off hS.env.tracing)]
    unfold dispatch
    rw [bind_ok h1]
    show readStatement (evalN fuel) _ = _
    unfold readStatement
    rw [bind_ok (lineBudget_eq hAt1.1)]
  rw [hrun]
  have hL := readLoop3_run hS.wf (evalN fuel) rest hE.stmtEnd ts hcov
    ((pre ++ [Token.kw Kw.Read] ++ (renderTargets ts ++ rest)).length + 1)
    (mv σ 1 k1) _ r.vars r.data hAt1 hS.env.lines hS.mem.vars hS.mem.data (by simp only [List.length_append]; omega)
  show Outcome3 p σ n _ _ _
    { r with vars := (readAll (allData3 p) ts r.vars r.data).1, data := (readAll (allData3 p) ts r.vars r.data).2.1 }
    (readAll (allData3 p) ts r.vars r.data).2.2
  have hctl := readAll_ctl (allData3 p) ts r.vars r.data
  generalize readAll (allData3 p) ts r.vars r.data = res at hL hctl
  obtain ⟨vars', c', ctl⟩ := res
  have hM := hS.mem
  cases ctl with
  | next =>
    obtain ⟨it', rr, hres, hrel⟩ := hL
    refine ⟨_, hres, ⟨rfl, rfl, rfl, rfl, rfl⟩, ?_, hP.locline, Or.inl ?_⟩
    · exact { vars := rfl, arrays := hM.arrays, rng := hM.rng, loops := hM.loops, stack := hM.stack
              data := hrel, out := hM.out, fns := ⟨hM.fns.undef, hM.fns.defd⟩, fnLines := hM.fnLines }
    · show σ.loc.idx + 1 + _ = after
      rw [hP.hafter, hP.cur.2]
      simp only [renderS3, List.length_cons]
      omega
  | error e =>
    obtain ⟨he, σ', hres, hl, ho, hnn⟩ := hL
    exact ⟨by rw [he]; simp, ErrFrom.start (σ1 := mv σ 1 k1) ⟨{ err := e }, σ', hres, rfl, ho, hl, hnn, Or.inl rfl⟩ hst⟩
  | errorAt e ln =>
    obtain ⟨he, σ', i, hres, hdl, ho, hnn⟩ := hL
    exact ⟨he, σ', i, hres, hdl, ho, hnn⟩
  | skipLine => rcases hctl with h | ⟨_, h⟩ | ⟨_, _, h⟩ <;> cases h
  | jump m => rcases hctl with h | ⟨_, h⟩ | ⟨_, _, h⟩ <;> cases h
  | stop => rcases hctl with h | ⟨_, h⟩ | ⟨_, _, h⟩ <;> cases h
  | resume a b => rcases hctl with h | ⟨_, h⟩ | ⟨_, _, h⟩ <;> cases h

/-! ### an array name and its subscripts -/

theorem optIdx_some {ev : Evals F} {σ : St F} {pre post : List (Token F)}
    (hAt : At σ pre (.kw .LeftParen :: post)) :
    ∃ k, optionalArrayIndex ev σ = (arrayIndex ev >>= fun is => pure (some is)) (mv σ 0 k) := by
  refine ⟨σ.reads + 1, ?_⟩
  unfold optionalArrayIndex
  rw [bind_ok (peekIsKw_cons .LeftParen hAt)]
  have hk : (Token.kw (F := F) Kw.LeftParen).isKw Kw.LeftParen = true := rfl
  simp only [hk, ↓reduceIte]

/-- `( e₁ , … )` behind an array name, read by `optionalArrayIndex` -/
theorem optIdx3_run {σ : St F} {r : RState3 F} (hS : Sync p r σ) (idx : List (Expr2 F)) (fuel : Nat)
    (pre rest : List (Token F)) (hres : ResolvedL r.fns idx) (hd : depthArgs r.fns callFuel idx ≤ fuel)
    (hn : σ.nesting + depthArgs r.fns callFuel idx ≤ Extracted.nestingLimit)
    (hAt : At σ pre (.kw .LeftParen :: (renderArgs idx ++ (.kw .RightParen :: rest)))) :
    match foldIdx callFuel r.env idx with
    | .ok (is, env') => ∃ τ, optionalArrayIndex (evalN fuel) σ = .ok (some is) τ ∧ Sync p (r.put env') τ ∧ Start σ τ ∧
        At τ (pre ++ (.kw .LeftParen :: (renderArgs idx ++ [.kw .RightParen]))) rest ∧ τ.arrays = env'.arrays
    | .error x => x ≠ .dataTypeMismatch ∧ ErrFrom σ x (optionalArrayIndex (evalN fuel) σ) := by
  obtain ⟨k, hk⟩ := optIdx_some (ev := evalN fuel) hAt
  have hX := idx3_run (hS.mv 0 k) idx fuel pre rest hres hd hn (at_mv0 hAt k)
  rw [hk]
  cases hev : foldIdx callFuel r.env idx with
  | error x =>
    rw [hev] at hX
    exact ⟨hX.1, (hX.2.bind).start (start_mv _ _ _)⟩
  | ok q =>
    obtain ⟨is, env'⟩ := q
    rw [hev] at hX
    obtain ⟨rd, hσ1, hS1⟩ := hX
    refine ⟨_, by rw [bind_ok hσ1]; rfl, hS1, (start_mv _ _ _).trans (start_upd _ _ _ _), ?_, rfl⟩
    have hAt' : At (mv σ 0 k) pre ((.kw .LeftParen :: (renderArgs idx ++ [.kw .RightParen])) ++ rest) := by
      have := at_mv0 hAt k
      simpa only [List.cons_append, List.append_assoc, List.nil_append] using this
    have := at_upd hAt' rd env'
    simpa only [List.length_cons, List.length_append, List.length_nil] using this

/-! ### DIM -/

theorem dim_ok (name : Str) (dims : List (Expr2 F)) : StmtOK p n j (.dimS name dims) := by
  intro fuel σ r pre rest after eol hS hP _ _ _ hres hd hn
  have hAt0 : At σ pre (.kw .Dim :: .symbol name :: .kw .LeftParen :: (renderArgs dims ++ (.kw .RightParen :: rest))) := by
    simpa only [renderS3, List.cons_append, List.append_assoc, List.nil_append] using hP.cur
  obtain ⟨k1, h1⟩ := next_ex hAt0
  have hAt1 := at_mv1 hAt0 k1
  obtain ⟨k2, h2⟩ := next_ex hAt1
  have hAt2 := at_mv1 hAt1 k2
  have hst2 : Start σ (mv (mv σ 1 k1) 1 k2) := ⟨⟨rfl, rfl, rfl, rfl, rfl⟩, rfl, rfl, rfl⟩
  have hrun : stmtBody (evalN fuel) σ =
      (optionalArrayIndex (evalN fuel) >>= fun idx =>
        match idx with
        | none => pure ()
        | some is => arrayCreate name is) (mv (mv σ 1 k1) 1 k2) := by
    unfold stmtBody
    rw [bind_ok (traceHere_off hS.env.tracing)]
    unfold dispatch
    rw [bind_ok h1]
    show dimStatement (evalN fuel) _ = _
    unfold dimStatement parseLValue
    rw [bind_assoc', bind_ok h2]
    show ((optionalArrayIndex (evalN fuel) >>= fun idx => pure ({ name := name, index := idx } : LValue)) >>= _) _ = _
    rw [bind_assoc']
    rfl
  rw [hrun]
  have hO := optIdx3_run ((hS.mv 1 k1).mv 1 k2) dims fuel _ rest hres hd hn hAt2
  cases hev : foldIdx callFuel r.env dims with
  | error err =>
    rw [hev] at hO
    have hex : (RStmt3.dimS name dims).exec (allData3 p) n j r = (r, .error err) := by
      simp only [RStmt3.exec, evalIdx, hev]
    rw [hex]
    exact ⟨hO.1, (hO.2.bind).start hst2⟩
  | ok q =>
    obtain ⟨is, env'⟩ := q
    rw [hev] at hO
    obtain ⟨τ, hσ1, hSτ, hstτ, hAtτ, harr⟩ := hO
    rw [bind_ok hσ1]
    show Outcome3 p σ n after eol (arrayCreate name is τ) _ _
    have hstA : Start σ τ := hst2.trans hstτ
    have hM := hSτ.mem
    cases hhas : alHas name env'.arrays with
    | true =>
      have hex : (RStmt3.dimS name dims).exec (allData3 p) n j r = (r.put env', .error .redimensionedArray) := by
        simp only [RStmt3.exec, evalIdx, hev, RState3.put, hhas, ↓reduceIte]
      rw [hex]
      refine ⟨by simp, errFrom_at hstA ?_⟩
      simp only [arrayCreate, bind, M.bindM, M.get, harr, hhas, ↓reduceIte, M.fail]
    | false =>
      cases hcr : ArrayV.create (F := F) name is with
      | error err =>
        have hex : (RStmt3.dimS name dims).exec (allData3 p) n j r = (r.put env', .error err) := by
          simp only [RStmt3.exec, evalIdx, hev, RState3.put, hhas, Bool.false_eq_true, ↓reduceIte, hcr]
        rw [hex]
        refine ⟨Stmt2L.create_nd hcr, errFrom_at hstA ?_⟩
        simp only [arrayCreate, bind, M.bindM, M.get, harr, hhas, Bool.false_eq_true, ↓reduceIte, hcr, M.fail]
      | ok a =>
        have hex : (RStmt3.dimS name dims).exec (allData3 p) n j r =
            ({ r.put env' with arrays := alSet name a env'.arrays }, .next) := by
          simp only [RStmt3.exec, evalIdx, hev, RState3.put, hhas, Bool.false_eq_true, ↓reduceIte, hcr]
        rw [hex]
        refine ⟨{ τ with arrays := alSet name a env'.arrays }, ?_,
          ⟨hstA.kept.lines, hstA.kept.warnings, hstA.kept.tracing, hstA.kept.nesting, hstA.kept.state⟩, ?_, ?_, Or.inl ?_⟩
        · simp only [arrayCreate, bind, M.bindM, M.get, harr, hhas, Bool.false_eq_true, ↓reduceIte, hcr, M.set]
        · exact { vars := hM.vars, arrays := rfl, rng := hM.rng, loops := hM.loops, stack := hM.stack
                  data := hM.data, out := hM.out, fns := ⟨hM.fns.undef, hM.fns.defd⟩, fnLines := hM.fnLines }
        · show τ.loc.line = some n
          rw [hstA.line]; exact hP.locline
        · rw [hP.hafter]
          have hAt' : At ({ τ with arrays := alSet name a env'.arrays } : St F) _ rest := ⟨hAtτ.1, hAtτ.2⟩
          exact (idx_after hP.cur hAt' (by show lineToks τ = lineToks σ; exact lineToks_start hstA hP.locline)).trans (by
            simp only [renderS3, List.length_cons, List.length_append])

/-! ### assignment to a cell -/

theorem put_arrays (r : RState3 F) (env : RefEnv F) : (r.put env).arrays = env.arrays := rfl

theorem storeCell_eq (name : Str) (index : List Nat) (v : Value F) (arrays : List (Str × ArrayV F)) :
    storeCell name index v arrays = Stmt2L.cellStore name index v arrays := rfl

theorem letCell_ok (name : Str) (idx : List (Expr2 F)) (e : Expr2 F) : StmtOK p n j (.letCellS name idx e) := by
  intro fuel σ r pre rest after eol hS hP hE _ _ hres hd hn
  obtain ⟨hri, hre⟩ : ResolvedL r.fns idx ∧ Resolved r.fns e := hres
  simp only [sdepth3] at hd hn
  have hAt0 : At σ pre (.kw .Let :: .symbol name :: .kw .LeftParen ::
      (renderArgs idx ++ (.kw .RightParen :: (.kw .Equals :: (render2 e ++ rest))))) := by
    simpa only [renderS3, List.cons_append, List.append_assoc, List.nil_append] using hP.cur
  obtain ⟨k1, h1⟩ := next_ex hAt0
  have hAt1 := at_mv1 hAt0 k1
  obtain ⟨k2, h2⟩ := next_ex hAt1
  have hAt2 := at_mv1 hAt1 k2
  have hst2 : Start σ (mv (mv σ 1 k1) 1 k2) := ⟨⟨rfl, rfl, rfl, rfl, rfl⟩, rfl, rfl, rfl⟩
  have hrun : stmtBody (evalN fuel) σ = assignmentStatement (evalN fuel) name (mv (mv σ 1 k1) 1 k2) := by
    unfold stmtBody
    rw [bind_ok (traceHere_off hS.env.tracing)]
    unfold dispatch
    rw [bind_ok h1]
    show letStatement (evalN fuel) _ = _
    unfold letStatement
    rw [bind_ok h2]
  rw [hrun]
  unfold assignmentStatement
  have hO := optIdx3_run ((hS.mv 1 k1).mv 1 k2) idx fuel _ _ hri (by omega) (by show σ.nesting + _ ≤ _; omega) hAt2
  cases hev : foldIdx callFuel r.env idx with
  | error err =>
    rw [hev] at hO
    have hex : (RStmt3.letCellS name idx e).exec (allData3 p) n j r = (r, .error err) := by
      simp only [RStmt3.exec, evalIdx, hev]
    rw [hex]
    exact ⟨hO.1, (hO.2.bind).start hst2⟩
  | ok q =>
    obtain ⟨is, env1⟩ := q
    rw [hev] at hO
    obtain ⟨τ, hσ1, hSτ, hstτ, hAtτ, _⟩ := hO
    rw [bind_ok hσ1]
    obtain ⟨k3, h3⟩ := expect_ex (k := .Equals) hAtτ rfl
    have hAt3 := at_mv1 hAtτ k3
    rw [bind_ok h3]
    have hst3 : Start σ (mv τ 1 k3) := hst2.trans (hstτ.trans (start_mv _ _ _))
    have hX := expr3_run (hSτ.mv 1 k3) e fuel _ rest hre (by show edepth r.fns e ≤ fuel; omega)
      (by show τ.nesting + edepth r.fns e ≤ _; rw [(hst2.trans hstτ).kept.nesting]; omega) (hE.ends 6) hAt3
    cases hev2 : fold2 callFuel (r.put env1).env e with
    | error err =>
      rw [hev2] at hX
      have hex : (RStmt3.letCellS name idx e).exec (allData3 p) n j r = (r, .error err) := by
        simp only [RStmt3.exec, evalIdx, hev, evalE, hev2]
      rw [hex]
      exact ⟨hX.1, (hX.2.bind).start hst3⟩
    | ok q2 =>
      obtain ⟨v, env2⟩ := q2
      rw [hev2] at hX
      obtain ⟨rd, hσ2, hS2⟩ := hX
      rw [bind_ok hσ2]
      have hst4 : Start σ (upd (mv τ 1 k3) (render2 e).length rd env2) := hst3.trans (start_upd _ _ _ _)
      have hAt4 := at_upd hAt3 rd env2
      show Outcome3 p σ n after eol (assignValue { name := name, index := some is } v _) _ _
      have hav : assignValue (F := F) { name := name, index := some is } v (upd (mv τ 1 k3) (render2 e).length rd env2) =
          arraySet name is v (upd (mv τ 1 k3) (render2 e).length rd env2) := by
        show (warnUndeclaredArray name >>= fun _ => arraySet name is v) _ = _
        rw [bind_ok (Stmt2L.warnUndeclared_off name _ hS2.env.warnings)]
      rw [hav]
      have hA := Stmt2L.arraySet_run name is v (upd (mv τ 1 k3) (render2 e).length rd env2)
        (by intro k a hk; exact hS2.inv.arrs k a hk)
      have harr : (upd (mv τ 1 k3) (render2 e).length rd env2).arrays = env2.arrays := rfl
      rw [harr, ← storeCell_eq] at hA
      have hM := hS2.mem
      cases hcs : storeCell name is v env2.arrays with
      | error err =>
        rw [hcs] at hA
        obtain ⟨hnd, σ', hσ', hl, ho⟩ := hA
        have hex : (RStmt3.letCellS name idx e).exec (allData3 p) n j r = ((r.put env1).put env2, .error err) := by
          simp only [RStmt3.exec, evalIdx, hev, evalE, hev2, put_arrays, hcs]
        rw [hex]
        have hnn := (((rns_arraySet name is v).at _).2 _ _ hσ').1
        exact ⟨hnd, ErrFrom.start (σ1 := upd (mv τ 1 k3) (render2 e).length rd env2)
          ⟨_, σ', hσ', rfl, ho, by rw [hl], hnn, Or.inl rfl⟩ hst4⟩
      | ok arrs =>
        rw [hcs] at hA
        have hex : (RStmt3.letCellS name idx e).exec (allData3 p) n j r =
            ({ (r.put env1).put env2 with arrays := arrs }, .next) := by
          simp only [RStmt3.exec, evalIdx, hev, evalE, hev2, put_arrays, hcs]
        rw [hex]
        refine ⟨_, hA, ⟨hst4.kept.lines, hst4.kept.warnings, hst4.kept.tracing, hst4.kept.nesting, hst4.kept.state⟩,
          ?_, ?_, Or.inl ?_⟩
        · exact { vars := hM.vars, arrays := rfl, rng := hM.rng, loops := hM.loops, stack := hM.stack
                  data := hM.data, out := hM.out, fns := ⟨hM.fns.undef, hM.fns.defd⟩, fnLines := hM.fnLines }
        · show τ.loc.line = some n
          rw [(hst2.trans hstτ).line]; exact hP.locline
        · rw [hP.hafter]
          have hAt' : At ({ upd (mv τ 1 k3) (render2 e).length rd env2 with arrays := arrs } : St F) _ rest :=
            ⟨hAt4.1, hAt4.2⟩
          exact (idx_after hP.cur hAt' (by
            show lineToks τ = lineToks σ; exact lineToks_start (hst2.trans hstτ) hP.locline)).trans (by
            simp only [renderS3, List.length_cons, List.length_append])

end stmts

end Abasic.Stmt3L
