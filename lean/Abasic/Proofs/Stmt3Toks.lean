import Abasic.Proofs.Stmt3Rel
import Abasic.Proofs.Data2Lemmas
/-
  C03, third layer — facts about the tokens of `render2` and `renderS3`:
  no `:`, no ELSE and no DATA token inside an expression; what an expression
  begins with; the DATA items among the tokens of a statement.
-/
set_option linter.unusedSectionVars false

namespace Abasic.Prog3L
open Abasic Abasic.Ref Abasic.ExprL Abasic.ExprL2 Abasic.StmtL Abasic.ProgL M
open Abasic.Prog2L (dataToks isData dataToks_append dataToks_cons_nodata dataToks_nodata)

variable {F : Type}

/-- a token that may occur inside an expression: not DATA, not `:`, not ELSE -/
def ETok (t : Token F) : Prop := isData t = false ∧ t.isKw .Colon = false ∧ t.isKw .Else = false

theorem etok_binop (op : BinOp) : ETok (Token.kw (F := F) (BinOp.token op)) := by
  cases op with
  | cmp c => cases c <;> exact ⟨rfl, rfl, rfl⟩
  | _ => exact ⟨rfl, rfl, rfl⟩

theorem etok_unop (op : UnOp) : ETok (Token.kw (F := F) (UnOp.token op)) := by
  cases op <;> exact ⟨rfl, rfl, rfl⟩

theorem etok_wrap {l : List (Token F)} (h : ∀ t ∈ l, ETok t) :
    ∀ t ∈ (Token.kw .LeftParen :: (l ++ [Token.kw .RightParen])), ETok t := by
  intro t ht
  simp only [List.mem_cons, List.mem_append, List.not_mem_nil, or_false] at ht
  rcases ht with rfl | ht | rfl
  · exact ⟨rfl, rfl, rfl⟩
  · exact h t ht
  · exact ⟨rfl, rfl, rfl⟩

theorem etok_call {l : List (Token F)} (name : Str) (h : ∀ t ∈ l, ETok t) :
    ∀ t ∈ (Token.symbol name :: Token.kw .LeftParen :: (l ++ [Token.kw .RightParen])), ETok t := by
  intro t ht
  rcases List.mem_cons.mp ht with rfl | ht
  · exact ⟨rfl, rfl, rfl⟩
  · exact etok_wrap h t ht

theorem etok_fixP2 (p : Nat) (e : Expr2 F) (h : ∀ t ∈ render2 e, ETok t) :
    ∀ t ∈ render2 (fixP2 p e), ETok t := by
  unfold fixP2; split
  · rw [render2_paren]; exact etok_wrap h
  · exact h

/-- the tokens of an expression and of a list of arguments -/
theorem etok_all : ∀ m : Nat,
    (∀ e : Expr2 F, sizeOf e ≤ m → ∀ t ∈ render2 e, ETok t) ∧
    (∀ es : List (Expr2 F), sizeOf es ≤ m → ∀ t ∈ renderArgs es, ETok t) := by
  intro m
  induction m with
  | zero =>
    refine ⟨fun e he => ?_, fun es he => ?_⟩
    · cases e <;> simp at he
    · cases es <;> simp at he
  | succ m ih =>
    refine ⟨fun e he => ?_, fun es he => ?_⟩
    · cases e with
      | num x => intro t ht; rw [render2_num] at ht; simp only [List.mem_singleton] at ht; subst ht; exact ⟨rfl, rfl, rfl⟩
      | str s => intro t ht; rw [render2_str] at ht; simp only [List.mem_singleton] at ht; subst ht; exact ⟨rfl, rfl, rfl⟩
      | var n => intro t ht; rw [render2_var] at ht; simp only [List.mem_singleton] at ht; subst ht; exact ⟨rfl, rfl, rfl⟩
      | paren x =>
        rw [render2_paren]
        exact etok_wrap (ih.1 x (by simp only [Expr2.paren.sizeOf_spec] at he; omega))
      | abs x =>
        rw [render2_abs]
        exact etok_call _ (ih.1 x (by simp only [Expr2.abs.sizeOf_spec] at he; omega))
      | int x =>
        rw [render2_int]
        exact etok_call _ (ih.1 x (by simp only [Expr2.int.sizeOf_spec] at he; omega))
      | rnd x =>
        rw [render2_rnd]
        exact etok_call _ (ih.1 x (by simp only [Expr2.rnd.sizeOf_spec] at he; omega))
      | cell name idx =>
        rw [render2_cell]
        exact etok_call _ (ih.2 idx (by simp only [Expr2.cell.sizeOf_spec] at he; omega))
      | call g args =>
        rw [render2_call]
        exact etok_call _ (ih.2 args (by simp only [Expr2.call.sizeOf_spec] at he; omega))
      | un op x =>
        rw [render2_un]
        intro t ht
        rcases List.mem_cons.mp ht with rfl | ht
        · exact etok_unop op
        · exact etok_fixP2 8 x (ih.1 x (by simp only [Expr2.un.sizeOf_spec] at he; omega)) t ht
      | bin op l r =>
        rw [render2_bin]
        intro t ht
        rcases List.mem_append.mp ht with ht | ht
        · exact etok_fixP2 _ l (ih.1 l (by simp only [Expr2.bin.sizeOf_spec] at he; omega)) t ht
        · rcases List.mem_cons.mp ht with rfl | ht
          · exact etok_binop op
          · exact etok_fixP2 _ r (ih.1 r (by simp only [Expr2.bin.sizeOf_spec] at he; omega)) t ht
    · cases es with
      | nil => intro t ht; rw [renderArgs_nil] at ht; cases ht
      | cons e es' =>
        have h1 := ih.1 e (by simp only [List.cons.sizeOf_spec] at he; omega)
        cases es' with
        | nil => rw [renderArgs_one]; exact h1
        | cons e' es'' =>
          rw [renderArgs_cons]
          have h2 := ih.2 (e' :: es'') (by simp only [List.cons.sizeOf_spec] at he ⊢; omega)
          intro t ht
          rcases List.mem_append.mp ht with ht | ht
          · exact h1 t ht
          · rcases List.mem_cons.mp ht with rfl | ht
            · exact ⟨rfl, rfl, rfl⟩
            · exact h2 t ht

theorem etok_render2 (e : Expr2 F) : ∀ t ∈ render2 e, ETok t := (etok_all (sizeOf e)).1 e (Nat.le_refl _)

theorem etok_renderArgs (es : List (Expr2 F)) : ∀ t ∈ renderArgs es, ETok t :=
  (etok_all (sizeOf es)).2 es (Nat.le_refl _)

/-- an expression begins with a token that neither ends a statement nor separates PRINT items -/
theorem render2_head_plain (e : Expr2 F) : ∃ t ts, render2 e = t :: ts ∧ Plain t := by
  suffices h : ∀ m (e : Expr2 F), sizeOf e ≤ m → ∃ t ts, render2 e = t :: ts ∧ Plain t from
    h _ e (Nat.le_refl _)
  intro m
  induction m with
  | zero => intro e he; cases e <;> simp at he
  | succ m ih =>
    intro e he
    cases e with
    | num x => exact ⟨_, _, render2_num x, rfl, rfl, rfl, rfl⟩
    | str s => exact ⟨_, _, render2_str s, rfl, rfl, rfl, rfl⟩
    | var n => exact ⟨_, _, render2_var n, rfl, rfl, rfl, rfl⟩
    | paren x => exact ⟨_, _, render2_paren x, rfl, rfl, rfl, rfl⟩
    | abs x => exact ⟨_, _, render2_abs x, rfl, rfl, rfl, rfl⟩
    | int x => exact ⟨_, _, render2_int x, rfl, rfl, rfl, rfl⟩
    | rnd x => exact ⟨_, _, render2_rnd x, rfl, rfl, rfl, rfl⟩
    | cell name idx => exact ⟨_, _, render2_cell name idx, rfl, rfl, rfl, rfl⟩
    | call g args => exact ⟨_, _, render2_call g args, rfl, rfl, rfl, rfl⟩
    | un op x => exact ⟨_, _, render2_un op x, by cases op <;> exact ⟨rfl, rfl, rfl, rfl⟩⟩
    | bin op l r =>
      rw [render2_bin]
      have hl : ∃ t ts, render2 (fixP2 (BinOp.prec op) l) = t :: ts ∧ Plain t := by
        unfold fixP2; split
        · exact ⟨_, _, render2_paren l, rfl, rfl, rfl, rfl⟩
        · exact ih l (by simp only [Expr2.bin.sizeOf_spec] at he; omega)
      obtain ⟨t, ts, hts, ht⟩ := hl
      exact ⟨t, ts ++ _, by rw [hts]; rfl, ht⟩

theorem render2_pos (e : Expr2 F) : 0 < (render2 e).length := by
  obtain ⟨t, ts, h, _⟩ := render2_head_plain e
  rw [h]; simp

variable [NumOps F]

/-! ### statements -/

theorem etok_items (items : List (PItem3 F)) : ∀ t ∈ renderItems3 items, isData t = false := by
  induction items with
  | nil => intro t ht; simp [renderItems3] at ht
  | cons i r ih =>
    intro t ht
    rw [renderItems3] at ht
    rcases List.mem_append.mp ht with ht | ht
    · cases i with
      | expr e => exact (etok_render2 e t ht).1
      | semi => simp only [PItem3.render, List.mem_singleton] at ht; subst ht; rfl
      | comma => simp only [PItem3.render, List.mem_singleton] at ht; subst ht; rfl
    · exact ih t ht

theorem nodata_targets (xs : List Str) : ∀ t ∈ renderTargets (F := F) xs, isData t = false :=
  Prog2L.nodata_targets xs

/-- the tokens of the targets of a READ -/
theorem etok_rtarget (t : RTarget F) : ∀ x ∈ t.toks, ETok x := by
  cases t with
  | scalar n => intro x hx; simp only [RTarget.toks, List.mem_singleton] at hx; subst hx; exact ⟨rfl, rfl, rfl⟩
  | cell name idx => exact etok_call name (etok_renderArgs idx)

theorem etok_rtargets (ts : List (RTarget F)) : ∀ x ∈ renderRTargets ts, ETok x := by
  induction ts with
  | nil => intro x hx; simp [renderRTargets] at hx
  | cons t rest ih =>
    cases rest with
    | nil => exact etok_rtarget t
    | cons t' rest' =>
      intro x hx
      rw [renderRTargets] at hx
      rcases List.mem_append.mp hx with hx | hx
      · exact etok_rtarget t x hx
      · rcases List.mem_cons.mp hx with rfl | hx
        · exact ⟨rfl, rfl, rfl⟩
        · exact ih x hx

theorem dataToks_expr (e : Expr2 F) : dataToks (render2 e) = [] :=
  dataToks_nodata fun t ht => (etok_render2 e t ht).1

theorem dataToks_args (es : List (Expr2 F)) : dataToks (renderArgs es) = [] :=
  dataToks_nodata fun t ht => (etok_renderArgs es t ht).1

theorem dataToks_cons_kw (k : Kw) (ts : List (Token F)) : dataToks (.kw k :: ts) = dataToks ts :=
  dataToks_cons_nodata ts rfl

theorem dataToks_cons_symbol (x : Str) (ts : List (Token F)) : dataToks (.symbol x :: ts) = dataToks ts :=
  dataToks_cons_nodata ts rfl

theorem dataToks_nil : dataToks ([] : List (Token F)) = [] := rfl

/-- the DATA items among the tokens of a statement are those of the statement -/
theorem dataToks_renderS3 : ∀ (s : RStmt3 F), dataToks (renderS3 s) = s.dataOf
  | .dataS items => by simp [renderS3, dataToks, RStmt3.dataOf]
  | .letS x e => by
    simp only [renderS3, dataToks_cons_kw, dataToks_cons_symbol, dataToks_expr, RStmt3.dataOf]
  | .printS items => by
    simp only [renderS3, dataToks_cons_kw, RStmt3.dataOf]
    exact dataToks_nodata (etok_items items)
  | .gotoS n => rfl
  | .endS => rfl
  | .lineS n => rfl
  | .ifS c t none => by
    simp only [renderS3, dataToks_cons_kw, dataToks_append, dataToks_expr, List.nil_append, RStmt3.dataOf]
    exact dataToks_renderS3 t
  | .ifS c t (some e) => by
    simp only [renderS3, dataToks_cons_kw, dataToks_append, dataToks_expr, List.nil_append, RStmt3.dataOf]
    rw [dataToks_renderS3 t, dataToks_renderS3 e]
  | .forS v a b none => by
    simp only [renderS3, dataToks_cons_kw, dataToks_cons_symbol, dataToks_append, dataToks_expr, List.nil_append,
      RStmt3.dataOf]
  | .forS v a b (some c) => by
    simp only [renderS3, dataToks_cons_kw, dataToks_cons_symbol, dataToks_append, dataToks_expr, List.nil_append,
      RStmt3.dataOf]
  | .nextS v => rfl
  | .gosubS n => rfl
  | .returnS => rfl
  | .readS ts => by
    simp only [renderS3, dataToks_cons_kw, RStmt3.dataOf]
    exact dataToks_nodata fun t ht => (etok_rtargets ts t ht).1
  | .restoreS => rfl
  | .dimS name dims => by
    simp only [renderS3, dataToks_cons_kw, dataToks_cons_symbol, dataToks_append, dataToks_args, List.nil_append,
      RStmt3.dataOf]
    rfl
  | .letCellS name idx e => by
    simp only [renderS3, dataToks_cons_kw, dataToks_cons_symbol, dataToks_append, dataToks_args, dataToks_expr,
      List.nil_append, RStmt3.dataOf]
  | .defS f ps body => by
    simp only [renderS3, dataToks_cons_kw, dataToks_cons_symbol, dataToks_append, dataToks_expr, RStmt3.dataOf,
      dataToks_nodata (nodata_targets ps), List.nil_append]

/-! ### no `:` and no ELSE inside a statement without ELSE -/

def NoCE (t : Token F) : Prop := t.isKw .Colon = false ∧ t.isKw .Else = false

theorem noce_expr (e : Expr2 F) : ∀ t ∈ render2 e, NoCE t := fun t ht => (etok_render2 e t ht).2

theorem noce_args (es : List (Expr2 F)) : ∀ t ∈ renderArgs es, NoCE t := fun t ht => (etok_renderArgs es t ht).2

theorem noce_items (items : List (PItem3 F)) : ∀ t ∈ renderItems3 items, NoCE t := by
  induction items with
  | nil => intro t ht; simp [renderItems3] at ht
  | cons i r ih =>
    intro t ht
    rw [renderItems3] at ht
    rcases List.mem_append.mp ht with ht | ht
    · cases i with
      | expr e => exact noce_expr e t ht
      | semi => simp only [PItem3.render, List.mem_singleton] at ht; subst ht; exact ⟨rfl, rfl⟩
      | comma => simp only [PItem3.render, List.mem_singleton] at ht; subst ht; exact ⟨rfl, rfl⟩
    · exact ih t ht

theorem noce_targets (xs : List Str) : ∀ t ∈ renderTargets (F := F) xs, NoCE t := by
  induction xs with
  | nil => intro t ht; simp [renderTargets] at ht
  | cons x rest ih =>
    cases rest with
    | nil => intro t ht; simp only [renderTargets, List.mem_singleton] at ht; subst ht; exact ⟨rfl, rfl⟩
    | cons x' rest' =>
      intro t ht
      simp only [renderTargets, List.mem_cons] at ht
      rcases ht with rfl | rfl | ht
      · exact ⟨rfl, rfl⟩
      · exact ⟨rfl, rfl⟩
      · exact ih t (by simpa only [renderTargets, List.mem_cons] using ht)

theorem noce_cons {t : Token F} {l : List (Token F)} (h : NoCE t) (hl : ∀ x ∈ l, NoCE x) : ∀ x ∈ t :: l, NoCE x := by
  intro x hx
  rcases List.mem_cons.mp hx with rfl | hx
  · exact h
  · exact hl x hx

theorem noce_append {a b : List (Token F)} (ha : ∀ x ∈ a, NoCE x) (hb : ∀ x ∈ b, NoCE x) : ∀ x ∈ a ++ b, NoCE x := by
  intro x hx
  rcases List.mem_append.mp hx with hx | hx
  · exact ha x hx
  · exact hb x hx

theorem noce_nil : ∀ x ∈ ([] : List (Token F)), NoCE x := fun _ h => by cases h

/-- the tokens of a statement without ELSE: no `:`, no ELSE -/
theorem renderS3_tokens : ∀ (s : RStmt3 F), s.elseFree = true → ∀ t ∈ renderS3 s, NoCE t
  | .letS x e, _ => by
    rw [renderS3]
    exact noce_cons ⟨rfl, rfl⟩ (noce_cons ⟨rfl, rfl⟩ (noce_cons ⟨rfl, rfl⟩ (noce_expr e)))
  | .printS items, _ => by rw [renderS3]; exact noce_cons ⟨rfl, rfl⟩ (noce_items items)
  | .gotoS n, _ => by rw [renderS3]; exact noce_cons ⟨rfl, rfl⟩ (noce_cons ⟨rfl, rfl⟩ noce_nil)
  | .endS, _ => by rw [renderS3]; exact noce_cons ⟨rfl, rfl⟩ noce_nil
  | .lineS n, _ => by rw [renderS3]; exact noce_cons ⟨rfl, rfl⟩ noce_nil
  | .ifS c t none, h => by
    rw [renderS3]
    exact noce_cons ⟨rfl, rfl⟩ (noce_append (noce_expr c) (noce_cons ⟨rfl, rfl⟩ (renderS3_tokens t h)))
  | .ifS c t (some e), h => by simp [RStmt3.elseFree] at h
  | .forS v a b none, _ => by
    rw [renderS3]
    exact noce_cons ⟨rfl, rfl⟩ (noce_cons ⟨rfl, rfl⟩ (noce_cons ⟨rfl, rfl⟩
      (noce_append (noce_expr a) (noce_cons ⟨rfl, rfl⟩ (noce_expr b)))))
  | .forS v a b (some c), _ => by
    rw [renderS3]
    exact noce_cons ⟨rfl, rfl⟩ (noce_cons ⟨rfl, rfl⟩ (noce_cons ⟨rfl, rfl⟩
      (noce_append (noce_expr a) (noce_cons ⟨rfl, rfl⟩ (noce_append (noce_expr b) (noce_cons ⟨rfl, rfl⟩ (noce_expr c)))))))
  | .nextS v, _ => by rw [renderS3]; exact noce_cons ⟨rfl, rfl⟩ (noce_cons ⟨rfl, rfl⟩ noce_nil)
  | .gosubS n, _ => by rw [renderS3]; exact noce_cons ⟨rfl, rfl⟩ (noce_cons ⟨rfl, rfl⟩ noce_nil)
  | .returnS, _ => by rw [renderS3]; exact noce_cons ⟨rfl, rfl⟩ noce_nil
  | .readS ts, _ => by rw [renderS3]; exact noce_cons ⟨rfl, rfl⟩ (fun t ht => (etok_rtargets ts t ht).2)
  | .dataS items, _ => by rw [renderS3]; exact noce_cons ⟨rfl, rfl⟩ noce_nil
  | .restoreS, _ => by rw [renderS3]; exact noce_cons ⟨rfl, rfl⟩ noce_nil
  | .dimS name dims, _ => by
    rw [renderS3]
    exact noce_cons ⟨rfl, rfl⟩ (noce_cons ⟨rfl, rfl⟩ (noce_cons ⟨rfl, rfl⟩
      (noce_append (noce_args dims) (noce_cons ⟨rfl, rfl⟩ noce_nil))))
  | .letCellS name idx e, _ => by
    rw [renderS3]
    exact noce_cons ⟨rfl, rfl⟩ (noce_cons ⟨rfl, rfl⟩ (noce_cons ⟨rfl, rfl⟩
      (noce_append (noce_args idx) (noce_cons ⟨rfl, rfl⟩ (noce_cons ⟨rfl, rfl⟩ (noce_expr e))))))
  | .defS f ps body, _ => by
    rw [renderS3]
    exact noce_cons ⟨rfl, rfl⟩ (noce_cons ⟨rfl, rfl⟩ (noce_cons ⟨rfl, rfl⟩
      (noce_append (noce_targets ps) (noce_cons ⟨rfl, rfl⟩ (noce_cons ⟨rfl, rfl⟩ (noce_expr body))))))

theorem closes_elseFree (s : RStmt3 F) (h : s.closes = true) : s.elseFree = true := by
  cases s <;> first | rfl | simp [RStmt3.closes] at h

end Abasic.Prog3L
