import Abasic.Proofs.Budget
/-
  The analyzer's evaluator keeps the frame `Fr` — same line, same store, cursor
  not moved back, same nesting counter — on the success path AND on the error
  path (`Sat FrE Fr`), for every fuel and every budget.  A statement that found
  a token consumed it (`wp_aStmtBody`).  Helper for C05
  (Abasic/Props/C05Total.lean).
-/
set_option linter.unusedSectionVars false

namespace Abasic.Budget
open Abasic M

variable {F : Type}

/-- `nested` with the frame on both paths -/
theorem sat_nested_frE {α : Type} {m : M F α} (hm : Sat FrE Fr m) : Sat FrE Fr (nested m) := by
  intro σ
  unfold wp
  simp only [nested, bind, M.bindM]
  have hen : enterNested σ = .err { err := .oomStack } σ ∨
      enterNested σ = .ok () { σ with nesting := σ.nesting + 1 } := by
    simp only [enterNested, bind, M.bindM, M.get]
    by_cases h : (σ.nesting == Extracted.nestingLimit) = true
    · left; rw [if_pos h]; rfl
    · right; rw [if_neg h]; rfl
  rcases hen with hen | hen <;> rw [hen]
  · exact Fr.refl σ
  · simp only [M.attempt]
    have h := hm { σ with nesting := σ.nesting + 1 }
    cases hr : m { σ with nesting := σ.nesting + 1 } with
    | ok a σ' =>
      have hf : Fr { σ with nesting := σ.nesting + 1 } σ' := by
        have := wp_ok h hr
        exact this
      have hn : σ'.nesting = σ.nesting + 1 := hf.nesting
      have hex : exitNested σ' = .ok () { σ' with nesting := σ.nesting } := by
        simp only [exitNested, bind, M.bindM, M.get, hn, M.set]
      simp only [hex, M.ofExcept, M.pureM]
      exact ⟨hf.line, hf.lines, hf.imm, hf.idx, hf.stack, rfl⟩
    | err e σ' =>
      have hf : Fr { σ with nesting := σ.nesting + 1 } σ' := by
        have := wp_err h hr
        exact this
      have hn : σ'.nesting = σ.nesting + 1 := hf.nesting
      have hex : exitNested σ' = .ok () { σ' with nesting := σ.nesting } := by
        simp only [exitNested, bind, M.bindM, M.get, hn, M.set]
      simp only [hex, M.ofExcept, M.throw]
      exact ⟨hf.line, hf.lines, hf.imm, hf.idx, hf.stack, rfl⟩

theorem sat_logAccess {E : EPost F} [Compat E Fr] (sym : Str) (loc : Loc) (k : Access) :
    Sat E Fr (logAccess (F := F) sym loc k) := by
  unfold logAccess; sat_start; w_auto
macro_rules | `(tactic| w_prim0) => `(tactic| with_reducible exact sat_logAccess _ _ _)

theorem sat_prevLoc {E : EPost F} [Compat E Fr] : Sat E Fr (prevLoc (F := F)) := by
  unfold prevLoc; sat_start; w_auto
macro_rules | `(tactic| w_prim0) => `(tactic| with_reducible exact sat_prevLoc)

theorem sat_check {E : EPost F} [Compat E Fr] (a b : VT) : Sat E Fr (VT.check (F := F) a b) := by
  unfold VT.check; sat_start; w_auto
macro_rules | `(tactic| w_prim0) => `(tactic| with_reducible exact sat_check _ _)

theorem sat_checkNumber {E : EPost F} [Compat E Fr] (a : VT) : Sat E Fr (VT.checkNumber (F := F) a) :=
  sat_check a .num
macro_rules | `(tactic| w_prim0) => `(tactic| with_reducible exact sat_checkNumber _)

theorem sat_defArgsLoop_frE (n : Nat) : ∀ acc : List Str, Sat FrE Fr (defArgsLoop (F := F) n acc) := by
  induction n with
  | zero => intro acc; unfold defArgsLoop; sat_start; w_auto
  | succ n ih => intro acc; unfold defArgsLoop; sat_start; w_auto

variable [NumOps F]

structure AEvOK (ev : AEvals F) : Prop where
  expr : Sat FrE Fr ev.expr
  stmt : Sat FrE Fr ev.stmt

section analyzer
variable {ev : AEvals F}

theorem sat_aArrayIndexLoop (hev : AEvOK ev) (n : Nat) : ∀ arity : Nat, Sat FrE Fr (aArrayIndexLoop ev n arity) := by
  have := hev.expr
  induction n with
  | zero => intro arity; unfold aArrayIndexLoop; sat_start; w_auto
  | succ n ih => intro arity; unfold aArrayIndexLoop; sat_start; w_auto

theorem sat_aArrayIndex (hev : AEvOK ev) : Sat FrE Fr (aArrayIndex ev) := by
  have := sat_aArrayIndexLoop hev
  unfold aArrayIndex; sat_start; w_auto

theorem sat_aNumberFunctionArg (hev : AEvOK ev) : Sat FrE Fr (aNumberFunctionArg ev) := by
  have := hev.expr
  unfold aNumberFunctionArg; sat_start; w_auto

theorem sat_aBindArgs (hev : AEvOK ev) (arity : Nat) (args : List Str) :
    ∀ i : Nat, Sat FrE Fr (aBindArgs ev arity args i) := by
  have := hev.expr
  induction args with
  | nil => intro i; unfold aBindArgs; sat_start; w_auto
  | cons a rest ih => intro i; unfold aBindArgs; sat_start; w_auto

theorem sat_aUserFunctionCall (hev : AEvOK ev) (name : Str) (loc : Loc) :
    Sat FrE Fr (aUserFunctionCall ev name loc) := by
  have := sat_aBindArgs hev
  unfold aUserFunctionCall; sat_start; w_auto

theorem sat_aFunctionCall (hev : AEvOK ev) (name : Str) (loc : Loc) :
    Sat FrE Fr (aFunctionCall ev name loc) := by
  have := sat_aNumberFunctionArg hev
  have := sat_aUserFunctionCall hev
  unfold aFunctionCall; sat_start; w_auto

theorem sat_aTerm (hev : AEvOK ev) : Sat FrE Fr (aTerm ev) := by
  have := sat_aFunctionCall hev
  have := sat_aArrayIndex hev
  unfold aTerm; sat_start; w_auto

theorem sat_aParen (hev : AEvOK ev) : Sat FrE Fr (aParen ev) := by
  have := sat_aTerm hev
  have := hev.expr
  unfold aParen; sat_start; w_auto

theorem sat_aUnary (hev : AEvOK ev) : Sat FrE Fr (aUnary ev) := by
  have := sat_aParen hev
  unfold aUnary; sat_start; w_auto

theorem sat_aLevelLoop {sub : M F VT} (hsub : Sat FrE Fr sub) (ops : Token F → Option BinOp) (tier : ATier)
    (n : Nat) : ∀ v : VT, Sat FrE Fr (aLevelLoop sub ops tier n v) := by
  induction n with
  | zero => intro v; unfold aLevelLoop; sat_start; w_auto
  | succ n ih => intro v; unfold aLevelLoop; sat_start; w_auto

theorem sat_aLevel {sub : M F VT} (hsub : Sat FrE Fr sub) (ops : Token F → Option BinOp) (tier : ATier) :
    Sat FrE Fr (aLevel sub ops tier) := by
  have := sat_aLevelLoop hsub ops tier
  unfold aLevel; sat_start; w_auto

theorem sat_aExprBody (hev : AEvOK ev) : Sat FrE Fr (aExprBody ev) := by
  unfold aExprBody aOrExpr
  exact sat_nested_frE (sat_aLevel (sat_aLevel (sat_aLevel (sat_aLevel (sat_aLevel (sat_aLevel
    (sat_aUnary hev) _ _) _ _) _ _) _ _) _ _) _ _)

theorem sat_aOptionalArrayIndex (hev : AEvOK ev) : Sat FrE Fr (aOptionalArrayIndex ev) := by
  have := sat_aArrayIndex hev
  unfold aOptionalArrayIndex; sat_start; w_auto

theorem sat_aAssignValue (lv : ALValue) (r : VT) : Sat FrE Fr (aAssignValue (F := F) lv r) := by
  unfold aAssignValue; sat_start; w_auto

theorem sat_aAssignment (hev : AEvOK ev) (name : Str) : Sat FrE Fr (aAssignment ev name) := by
  have := sat_aOptionalArrayIndex hev
  have := hev.expr
  have := sat_aAssignValue (F := F)
  unfold aAssignment; sat_start; w_auto

theorem sat_aLet (hev : AEvOK ev) : Sat FrE Fr (aLet ev) := by
  have := sat_aAssignment hev
  unfold aLet; sat_start; w_auto

theorem sat_aParseLValue (hev : AEvOK ev) : Sat FrE Fr (aParseLValue ev) := by
  have := sat_aOptionalArrayIndex hev
  unfold aParseLValue; sat_start; w_auto

theorem sat_aReadLoop (hev : AEvOK ev) (n : Nat) : Sat FrE Fr (aReadLoop ev n) := by
  have := sat_aParseLValue hev
  have := sat_aAssignValue (F := F)
  induction n with
  | zero => unfold aReadLoop; sat_start; w_auto
  | succ n ih => unfold aReadLoop; sat_start; w_auto

theorem sat_aGotoOrGosub : Sat FrE Fr (aGotoOrGosub (F := F)) := by
  unfold aGotoOrGosub; sat_start; w_auto

theorem sat_aStatementOrGoto (hev : AEvOK ev) : Sat FrE Fr (aStatementOrGoto ev) := by
  have := sat_aGotoOrGosub (F := F)
  have := sat_nested_frE hev.stmt
  unfold aStatementOrGoto; sat_start; w_auto

theorem sat_aIf (hev : AEvOK ev) : Sat FrE Fr (aIf ev) := by
  have := hev.expr
  have := sat_aStatementOrGoto hev
  unfold aIf; sat_start; w_auto

theorem sat_aPrintLoop (hev : AEvOK ev) (n : Nat) : Sat FrE Fr (aPrintLoop ev n) := by
  have := hev.expr
  induction n with
  | zero => unfold aPrintLoop; sat_start; w_auto
  | succ n ih => unfold aPrintLoop; sat_start; w_auto

theorem sat_aFor (hev : AEvOK ev) : Sat FrE Fr (aFor ev) := by
  have := hev.expr
  unfold aFor; sat_start; w_auto

theorem sat_aNext : Sat FrE Fr (aNext (F := F)) := by
  unfold aNext; sat_start; w_auto

theorem sat_aDef (hev : AEvOK ev) : Sat FrE Fr (aDef ev) := by
  have := hev.expr
  have := sat_defArgsLoop_frE (F := F)
  unfold aDef; sat_start; w_auto

/-- what follows the first token of a statement -/
theorem sat_aStmtTail (hev : AEvOK ev) (o : Option (Token F)) :
    Sat FrE Fr (match o with
      | none => pure ()
      | some (.remark _) => pure ()
      | some (.data _) => pure ()
      | some (.symbol name) => aAssignment ev name
      | some (.kw k) =>
        match k with
        | .Stop => pure ()
        | .Dim => do
          let lv ← aParseLValue ev
          logAccess lv.name lv.loc .write
        | .Print => do
          let b ← lineBudget
          aPrintLoop ev b
        | .QuestionMark => do
          let b ← lineBudget
          aPrintLoop ev b
        | .Input => do
          let lv ← aParseLValue ev
          logAccess lv.name lv.loc .write
        | .If => aIf ev
        | .Goto => aGotoOrGosub
        | .Gosub => aGotoOrGosub
        | .Return => pure ()
        | .End => pure ()
        | .For => aFor ev
        | .Next => aNext
        | .Restore => modify fun s => { s with data := none }
        | .Def => aDef ev
        | .Read => do
          let b ← lineBudget
          aReadLoop ev b
        | .Colon => pure ()
        | .Let => aLet ev
        | _ => fail (.syntax .unexpectedToken)
      | some _ => fail (.syntax .unexpectedToken) : M F Unit) := by
  have := sat_aAssignment hev
  have := sat_aParseLValue hev
  have := sat_aPrintLoop hev
  have := sat_aIf hev
  have := sat_aGotoOrGosub (F := F)
  have := sat_aFor hev
  have := sat_aNext (F := F)
  have := sat_aDef hev
  have := sat_aReadLoop hev
  have := sat_aLet hev
  sat_start; w_auto

/-- a statement keeps the frame on both paths; when it succeeds on a line that
    had a token left, it consumed one -/
theorem wp_aStmtBody (hev : AEvOK ev) (σ : St F) :
    wp FrE (aStmtBody ev) (fun _ σ' => Fr σ σ' ∧ (cur σ ≠ none → rem σ' < rem σ)) σ := by
  unfold aStmtBody
  refine wp_bind (R := Fr) (wp_next σ) ?_
  rintro o σ1 ⟨hf1, ho, hlt1⟩
  refine ⟨hf1, ?_⟩
  refine wp_mono (sat_aStmtTail hev o σ1) ?_
  intro _ σ2 hf2
  refine ⟨hf1.trans hf2, fun hc => ?_⟩
  have := hlt1 (by rw [ho]; exact hc)
  have := hf2.rem_le
  omega

theorem sat_aStmtBody (hev : AEvOK ev) : Sat FrE Fr (aStmtBody ev) :=
  fun σ => wp_mono (wp_aStmtBody hev σ) fun _ _ h => h.1

end analyzer

theorem aEvOK_aEvalN (n : Nat) : AEvOK (aEvalN (F := F) n) := by
  induction n with
  | zero => exact ⟨fun σ => Fr.refl σ, fun σ => Fr.refl σ⟩
  | succ n ih => exact ⟨sat_aExprBody ih, sat_aStmtBody ih⟩

end Abasic.Budget
