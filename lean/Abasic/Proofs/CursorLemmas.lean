import Abasic.Interp
/-
  Token-cursor lemmas used by the C08 / C07 proofs: what `tokens`, `peek`,
  `next`, `peekIsKw` compute on a state whose current line is known.
-/
namespace Abasic.Proofs.Cursor
open Abasic

variable {F : Type}

/-- `tokens` only looks at `lines`, `imm` and `loc.line`. -/
theorem tokens_congr (σ σ' : St F) (ts : List (Token F)) (h : tokens σ = .ok ts σ)
    (hl : σ'.lines = σ.lines) (hi : σ'.imm = σ.imm) (hloc : σ'.loc.line = σ.loc.line) :
    tokens σ' = .ok ts σ' := by
  unfold tokens tokensForLine at *
  rw [hloc, hl, hi]
  cases hline : σ.loc.line with
  | none =>
    rw [hline] at h
    simp only [Res.ok.injEq, and_true] at h
    simp only [h]
  | some n =>
    rw [hline] at h
    simp only at h ⊢
    cases hg : σ.lines.get n with
    | none => rw [hg] at h; cases h
    | some ts' =>
      rw [hg] at h
      simp only [Res.ok.injEq, and_true] at h
      simp only [h]

theorem peek_eq (σ : St F) (ts : List (Token F)) (h : tokens σ = .ok ts σ) :
    peek σ = .ok ts[σ.loc.idx]? { σ with reads := σ.reads + 1 } := by
  have h' : tokens { σ with reads := σ.reads + 1 } = .ok ts { σ with reads := σ.reads + 1 } :=
    tokens_congr σ _ ts h rfl rfl rfl
  simp only [peek, bind, M.bindM, M.modify, h', M.get, pure, M.pureM]

theorem next_some (σ : St F) (ts : List (Token F)) (t : Token F) (h : tokens σ = .ok ts σ)
    (ht : ts[σ.loc.idx]? = some t) :
    next σ = .ok (some t) { σ with reads := σ.reads + 1, loc := { σ.loc with idx := σ.loc.idx + 1 } } := by
  simp [next, bind, M.bindM, peek_eq σ ts h, ht, advance, M.modify, pure, M.pureM]

theorem peekIsKw_eq (σ : St F) (ts : List (Token F)) (k : Kw) (h : tokens σ = .ok ts σ) :
    peekIsKw k σ = .ok (match ts[σ.loc.idx]? with | some t => t.isKw k | none => false)
      { σ with reads := σ.reads + 1 } := by
  simp only [peekIsKw, bind, M.bindM, peek_eq σ ts h]
  cases ts[σ.loc.idx]? <;> rfl

theorem peekIsKw_false (σ : St F) (ts : List (Token F)) (k : Kw) (h : tokens σ = .ok ts σ)
    (hk : ∀ t, ts[σ.loc.idx]? = some t → t.isKw k = false) :
    peekIsKw k σ = .ok false { σ with reads := σ.reads + 1 } := by
  rw [peekIsKw_eq σ ts k h]
  cases hq : ts[σ.loc.idx]? with
  | none => rfl
  | some t => simp only [hk t hq]

end Abasic.Proofs.Cursor

