import Abasic.Proofs.StmtLemmas
/-
  Helper lemmas for C08More (INPUT suspends and resumes wherever it sits).

  * `findInputBefore_skip`, `rewindBeforeInput_at`: the backwards search for the
    INPUT token over any stretch of tokens that holds no INPUT;
  * `traceOut`, `traceHere_eq`: the trace record of `evaluate_statement`, for any
    tracing flag;
  * `lineEnd`, `lineEndSt`, `runNext_eq`, `continue_eq`: one turn of
    `continue_evaluating` = the statement at the cursor followed by the
    end-of-line bookkeeping, the latter as a pure function on states;
  * `parseLValue_scalar_at`, `parseLValue_array_at`;
  * `ensureArrays`, `ArrayV.store`, `storeCell`, `arraySet_of_storeCell`,
    `storeCell_of_arraySet`, `storeCell_spec`, `arrayCell`, `arrayStore_cell`:
    `Arrays::set_value_at_index` as a pure partial function on the array table;
  * `warnOut`, `warnUndeclaredArray_eq`;
  * `renderSubs`, `subsVal`, `arrayIndex_render`: a subscript list written as
    rendered expression trees evaluates to the folded subscripts and moves
    only the cursor and the read counter.
-/
namespace Abasic.InputL
open Abasic Abasic.Ref Abasic.ExprL Abasic.StmtL M

variable {F : Type}

/-! ### the backwards search -/

/-- Searching backwards from `k` finds the INPUT token at `i < k` when no token
    strictly between is an INPUT. -/
theorem findInputBefore_skip (ts : List (Token F)) (i : Nat) (t : Token F) (h : ts[i]? = some t)
    (hk : t.isKw .Input = true) :
    ∀ k, i < k → (∀ j u, i < j → j < k → ts[j]? = some u → u.isKw .Input = false) →
      findInputBefore ts k = some i := by
  intro k
  induction k with
  | zero => intro hik; omega
  | succ k ih =>
    intro hik hno
    unfold findInputBefore
    by_cases hi : i = k
    · subst hi
      simp only [h, hk, ↓reduceIte]
    · have hik' : i < k := by omega
      have ih' := ih hik' (fun j u h1 h2 => hno j u h1 (by omega))
      cases hq : ts[k]? with
      | none => simp only [ih']
      | some u =>
        have := hno k u hik' (Nat.lt_succ_self k) hq
        simp only [this, Bool.false_eq_true, ↓reduceIte, ih']

/-- the search on `pre ++ INPUT :: mid ++ post` from behind `mid` -/
theorem findInputBefore_mid (pre mid post : List (Token F))
    (hmid : ∀ t ∈ mid, t.isKw .Input = false) :
    findInputBefore (pre ++ .kw .Input :: (mid ++ post)) (pre.length + 1 + mid.length) = some pre.length := by
  refine findInputBefore_skip _ pre.length (.kw .Input) ?_ rfl _ (by omega) ?_
  · rw [List.getElem?_append_right (Nat.le_refl _), Nat.sub_self]; rfl
  · intro j u h1 h2 hj
    rw [List.getElem?_append_right (by omega)] at hj
    obtain ⟨d, hd⟩ : ∃ d, j - pre.length = d + 1 := ⟨j - pre.length - 1, by omega⟩
    rw [hd, List.getElem?_cons_succ, List.getElem?_append_left (by omega)] at hj
    exact hmid u (List.mem_of_getElem? hj)

theorem rewindBeforeInput_at {σ : St F} {ts : List (Token F)} {i : Nat}
    (h : lineToks σ = some ts) (hf : findInputBefore ts σ.loc.idx = some i) :
    rewindBeforeInput σ =
      .ok () { σ with loc := { σ.loc with idx := i }, reads := σ.reads + (σ.loc.idx - i) } := by
  unfold rewindBeforeInput
  rw [bind_ok (tokens_eq h)]
  simp only [bind, M.bindM, M.get, hf, M.set]

theorem rewindAndAwaitInput_at {σ : St F} {ts : List (Token F)} {i : Nat}
    (h : lineToks σ = some ts) (hf : findInputBefore ts σ.loc.idx = some i) :
    rewindAndAwaitInput σ =
      .ok () { σ with loc := { σ.loc with idx := i }, reads := σ.reads + (σ.loc.idx - i),
                      state := .awaitingInput } := by
  unfold rewindAndAwaitInput
  rw [bind_ok (rewindBeforeInput_at h hf)]
  rfl

/-! ### the trace record -/

/-- what `evaluate_statement` emits before dispatching -/
def traceOut (σ : St F) : List Out :=
  if σ.tracing then
    match σ.loc.line with
    | some n => [.trace n]
    | none => []
  else []

theorem traceOut_off {σ : St F} (h : σ.tracing = false) : traceOut σ = [] := by
  simp only [traceOut, h, Bool.false_eq_true, ↓reduceIte]

theorem traceHere_eq (σ : St F) : traceHere σ = .ok () { σ with out := traceOut σ ++ σ.out } := by
  unfold traceHere traceOut
  simp only [bind, M.bindM, M.get]
  by_cases ht : σ.tracing = true
  · rw [if_pos ht, if_pos ht]
    cases hl : σ.loc.line with
    | none => rfl
    | some n => rfl
  · rw [if_neg ht, if_neg ht]; rfl

/-! ### one turn -/

/-- the end-of-line bookkeeping of `run_next_statement` -/
def lineEnd : M F Unit := do
  if !(← hasNext) then
    if !(← nextLine) then
      setImmediate []
      returnToIdle

/-- `lineEnd` as a function on states -/
def lineEndSt (σ : St F) : St F :=
  let σ1 := mv σ 0 (σ.reads + 1)
  match (lineToks σ).bind (fun ts => ts[σ.loc.idx]?) with
  | some _ => σ1
  | none =>
    match σ1.loc.line with
    | none => { σ1.setImmediate [] with state := .idle }
    | some n =>
      match σ1.lines.after n with
      | some m => { σ1 with loc := { line := some m, idx := 0 } }
      | none => { σ1.setImmediate [] with state := .idle }

theorem hasNext_eq {σ : St F} {pre post : List (Token F)} (h : At σ pre post) :
    hasNext σ = .ok post.head?.isSome (mv σ 0 (σ.reads + 1)) := by
  unfold hasNext
  rw [bind_ok (peek_eq h)]
  rfl

theorem lineEnd_eq {σ : St F} {pre post : List (Token F)} (h : At σ pre post) :
    lineEnd σ = .ok () (lineEndSt σ) := by
  have hb : (lineToks σ).bind (fun ts => ts[σ.loc.idx]?) = post.head? := by
    rw [h.1, h.2]
    simp only [Option.bind_some]
    rw [List.getElem?_append_right (Nat.le_refl _), Nat.sub_self, List.head?_eq_getElem?]
  unfold lineEnd lineEndSt
  rw [bind_ok (hasNext_eq h), hb]
  cases hp : post.head? with
  | some t => simp only [Option.isSome_some, Bool.not_true, Bool.false_eq_true, ↓reduceIte]; rfl
  | none =>
    simp only [Option.isSome_none, Bool.not_false, ↓reduceIte]
    cases hl : σ.loc.line with
    | none =>
      have hl' : (mv σ 0 (σ.reads + 1)).loc.line = none := hl
      simp only [nextLine, bind, M.bindM, M.get, hl', pure, M.pureM, Bool.not_false, ↓reduceIte,
        setImmediate, M.modify, returnToIdle]
    | some n =>
      have hl' : (mv σ 0 (σ.reads + 1)).loc.line = some n := hl
      cases ha : σ.lines.after n with
      | none =>
        have ha' : (mv σ 0 (σ.reads + 1)).lines.after n = none := ha
        simp only [nextLine, bind, M.bindM, M.get, hl', ha', pure, M.pureM, Bool.not_false, ↓reduceIte,
          setImmediate, M.modify, returnToIdle]
      | some m =>
        have ha' : (mv σ 0 (σ.reads + 1)).lines.after n = some m := ha
        simp only [nextLine, bind, M.bindM, M.get, hl', ha', pure, M.pureM, M.set, Bool.not_true,
          Bool.false_eq_true, ↓reduceIte]

/-- more tokens follow on the line: only the read counter moves -/
theorem lineEndSt_more {σ : St F} {pre post : List (Token F)} {t : Token F} (h : At σ pre (t :: post)) :
    lineEndSt σ = mv σ 0 (σ.reads + 1) := by
  have hb : (lineToks σ).bind (fun ts => ts[σ.loc.idx]?) = some t := by
    rw [h.1, h.2]
    simp only [Option.bind_some]
    rw [List.getElem?_append_right (Nat.le_refl _), Nat.sub_self]; rfl
  unfold lineEndSt
  rw [hb]

theorem state_running_eq {σ : St F} (h : σ.state = .running) : { σ with state := .running } = σ := by
  cases σ; simp only at h; subst h; rfl

variable [NumOps F]

/-- `run_next_statement` with the cursor on a token: the statement, then the
    end-of-line bookkeeping -/
theorem runNext_eq {fuel : Nat} {σ : St F} {pre post : List (Token F)} {t : Token F}
    (hs : σ.state = .running) (h : At σ pre (t :: post)) :
    runNextStatement fuel σ =
      (stmtBody (evalN fuel) >>= fun _ => lineEnd) (mv σ 0 (σ.reads + 1)) := by
  unfold runNextStatement
  have hm : (M.modify fun s => { s with state := .running } : M F Unit) σ = .ok () σ := by
    show Res.ok () { σ with state := .running } = _
    rw [state_running_eq hs]
  rw [bind_ok hm, bind_ok (hasNext_eq h)]
  simp only [List.head?_cons, Option.isSome_some, ↓reduceIte]
  rfl

theorem continue_eq {fuel : Nat} {σ : St F} {pre post : List (Token F)} {t : Token F}
    (hs : σ.state = .running) (h : At σ pre (t :: post)) :
    continueEvaluating fuel σ =
      postprocess (stmtBody (evalN fuel) >>= fun _ => lineEnd) (mv σ 0 (σ.reads + 1)) := by
  unfold continueEvaluating
  simp only [bind, M.bindM, M.get, hs, bne_self_eq_false, Bool.false_eq_true, ↓reduceIte]
  unfold postprocess
  rw [runNext_eq hs h]
  rfl

omit [NumOps F] in
theorem postprocess_ok {α : Type} {m : M F α} {σ σ' : St F} {a : α} (h : m σ = .ok a σ') :
    postprocess m σ = .ok a σ' := by
  simp only [postprocess, h]

omit [NumOps F] in
theorem postprocess_err {α : Type} {m : M F α} {σ σ' : St F} {e : TErr} (h : m σ = .err e σ') :
    postprocess m σ = .err (σ'.populate e) { σ' with state := .idle } := by
  simp only [postprocess, h]

/-- a whole turn whose statement succeeds leaving the cursor on the same line -/
theorem continue_ok {fuel : Nat} {σ σ' : St F} {pre post pre' post' : List (Token F)} {t : Token F}
    (hs : σ.state = .running) (h : At σ pre (t :: post))
    (hst : stmtBody (evalN fuel) (mv σ 0 (σ.reads + 1)) = .ok () σ') (h' : At σ' pre' post') :
    continueEvaluating fuel σ = .ok () (lineEndSt σ') := by
  rw [continue_eq hs h]
  exact postprocess_ok (by rw [bind_ok hst]; exact lineEnd_eq h')

/-! ### the target of INPUT / READ -/

theorem parseLValue_scalar_at {ev : Evals F} {σ : St F} {pre rest : List (Token F)} {name : Str}
    (h : At σ pre (.symbol name :: rest))
    (hnp : ∀ t, rest.head? = some t → t.isKw .LeftParen = false) :
    parseLValue ev σ = .ok { name := name, index := none } (mv σ 1 (σ.reads + 1 + 1)) := by
  have ho : optionalArrayIndex ev (mv σ 1 (σ.reads + 1)) = .ok none (mv σ 1 (σ.reads + 1 + 1)) := by
    unfold optionalArrayIndex
    rw [bind_ok (peekIsKw_false .LeftParen (at_mv1 h _) hnp), mv_mv]
    rfl
  unfold parseLValue
  rw [bind_ok (next_eq h)]
  show (optionalArrayIndex ev >>= fun idx => pure ({ name := name, index := idx } : LValue)) _ = _
  rw [bind_ok ho]
  rfl

theorem parseLValue_array_at {ev : Evals F} {σ : St F} {pre post : List (Token F)} {name : Str}
    (h : At σ pre (.symbol name :: .kw .LeftParen :: post)) :
    parseLValue ev σ =
      (arrayIndex ev >>= fun idx => pure { name := name, index := some idx }) (mv σ 1 (σ.reads + 1 + 1)) := by
  have ho : optionalArrayIndex ev (mv σ 1 (σ.reads + 1)) =
      (arrayIndex ev >>= fun idx => pure (some idx)) (mv σ 1 (σ.reads + 1 + 1)) := by
    unfold optionalArrayIndex
    rw [bind_ok (peekIsKw_cons .LeftParen (at_mv1 h _)), mv_mv]
    rfl
  unfold parseLValue
  rw [bind_ok (next_eq h)]
  show (optionalArrayIndex ev >>= fun idx => pure ({ name := name, index := idx } : LValue)) _ = _
  cases hx : arrayIndex ev (mv σ 1 (σ.reads + 1 + 1)) with
  | ok idx s =>
    rw [bind_ok hx] at ho
    rw [bind_ok ho, bind_ok hx]
  | err e s =>
    rw [bind_err hx] at ho
    rw [bind_err ho, bind_err hx]

/-! ### `Arrays::set_value_at_index` as a function on the array table -/

/-- `maybe_create_default_array` on the table -/
def ensureArrays (name : Str) (arity : Nat) (arrays : List (Str × ArrayV F)) :
    Except Err (List (Str × ArrayV F)) :=
  if alHas name arrays then .ok arrays
  else
    match ArrayV.create (F := F) name (List.replicate arity Extracted.defaultArraySize) with
    | .ok a => .ok (alSet name a arrays)
    | .error e => .error e

theorem ensureArray_eq (name : Str) (arity : Nat) (σ : St F) :
    ensureArray name arity σ =
      match ensureArrays name arity σ.arrays with
      | .ok arrs => .ok () { σ with arrays := arrs }
      | .error e => .err { err := e } σ := by
  unfold ensureArray ensureArrays
  simp only [bind, M.bindM, M.get]
  by_cases hh : alHas name σ.arrays = true
  · rw [if_pos hh, if_pos hh]; rfl
  · rw [if_neg hh, if_neg hh]
    cases ArrayV.create (F := F) name (List.replicate arity Extracted.defaultArraySize) <;> rfl

/-- writing cell `i` of an array with a value of its kind -/
def arrayStore (a : ArrayV F) (i : Nat) (v : Value F) : Option (ArrayV F) :=
  match a, v with
  | .strs dims cells, .str x => if i < cells.length then some (.strs dims (cells.set i x)) else none
  | .nums dims cells, .num x => if i < cells.length then some (.nums dims (cells.set i x)) else none
  | _, _ => none

/-- The array table after `name(idx) := v`, when the store succeeds: the value
    has the kind of the name, the array exists or is created with the default
    size and `idx.length` dimensions, the subscripts are within its bounds. -/
def storeCell (name : Str) (idx : List Nat) (v : Value F) (arrays : List (Str × ArrayV F)) :
    Option (List (Str × ArrayV F)) :=
  if v.matchesName name then
    match ensureArrays name idx.length arrays with
    | .error _ => none
    | .ok arrs =>
      match alGet name arrs with
      | none => none
      | some a =>
        match linearIndex idx a.dims with
        | .error _ => none
        | .ok i => (arrayStore a i v).map fun a' => alSet name a' arrs
  else none

theorem arraySet_of_storeCell (name : Str) (idx : List Nat) (v : Value F) (σ : St F)
    (arrs' : List (Str × ArrayV F)) (h : storeCell name idx v σ.arrays = some arrs') :
    arraySet name idx v σ = .ok () { σ with arrays := arrs' } := by
  unfold storeCell at h
  by_cases hm : v.matchesName name = true
  · rw [if_pos hm] at h
    unfold arraySet
    simp only [hm, Bool.not_true, Bool.false_eq_true, ↓reduceIte]
    cases he : ensureArrays name idx.length σ.arrays with
    | error e => rw [he] at h; cases h
    | ok arrs =>
      rw [he] at h
      have hE := ensureArray_eq name idx.length σ
      rw [he] at hE
      rw [bind_ok hE]
      simp only [bind, M.bindM, M.get]
      cases hg : alGet name arrs with
      | none => simp only [hg] at h; cases h
      | some a =>
        simp only [hg] at h ⊢
        cases a with
        | strs dims cells =>
          cases v with
          | num x => cases hl : linearIndex idx (ArrayV.strs (F := F) dims cells).dims <;> simp [hl, arrayStore] at h
          | str x =>
            have hd : (ArrayV.strs (F := F) dims cells).dims = dims := rfl
            rw [hd] at h
            cases hl : linearIndex idx dims with
            | error e => simp only [hl] at h; cases h
            | ok i =>
              simp only [hl, arrayStore] at h ⊢
              by_cases hi : i < cells.length
              · rw [if_pos hi] at h ⊢
                simp only [Option.map_some, Option.some.injEq] at h
                subst h; rfl
              · rw [if_neg hi] at h; cases h
        | nums dims cells =>
          cases v with
          | str x => cases hl : linearIndex idx (ArrayV.nums (F := F) dims cells).dims <;> simp [hl, arrayStore] at h
          | num x =>
            have hd : (ArrayV.nums (F := F) dims cells).dims = dims := rfl
            rw [hd] at h
            cases hl : linearIndex idx dims with
            | error e => simp only [hl] at h; cases h
            | ok i =>
              simp only [hl, arrayStore] at h ⊢
              by_cases hi : i < cells.length
              · rw [if_pos hi] at h ⊢
                simp only [Option.map_some, Option.some.injEq] at h
                subst h; rfl
              · rw [if_neg hi] at h; cases h
  · rw [if_neg hm] at h; cases h

/-- conversely: a successful `arraySet` changed nothing but the array table, and
    changed it as `storeCell` says -/
theorem storeCell_of_arraySet (name : Str) (idx : List Nat) (v : Value F) (σ σ' : St F)
    (h : arraySet name idx v σ = .ok () σ') :
    ∃ arrs', storeCell name idx v σ.arrays = some arrs' ∧ σ' = { σ with arrays := arrs' } := by
  cases hs : storeCell name idx v σ.arrays with
  | some arrs' =>
    rw [arraySet_of_storeCell name idx v σ arrs' hs] at h
    simp only [Res.ok.injEq, true_and] at h
    exact ⟨arrs', rfl, h.symm⟩
  | none =>
    exfalso
    unfold storeCell at hs
    unfold arraySet at h
    by_cases hm : v.matchesName name = true
    · rw [if_pos hm] at hs
      simp only [hm, Bool.not_true, Bool.false_eq_true, ↓reduceIte] at h
      have hE := ensureArray_eq name idx.length σ
      cases he : ensureArrays name idx.length σ.arrays with
      | error e => rw [he] at hE; rw [bind_err hE] at h; cases h
      | ok arrs =>
        rw [he] at hE hs
        rw [bind_ok hE] at h
        simp only [bind, M.bindM, M.get] at h
        cases hg : alGet name arrs with
        | none => simp only [hg, M.rpanic] at h; cases h
        | some a =>
          simp only [hg] at h hs
          cases a with
          | strs dims cells =>
            cases v with
            | num x => simp only [M.fail] at h; cases h
            | str x =>
              have hd : (ArrayV.strs (F := F) dims cells).dims = dims := rfl
              rw [hd] at hs
              cases hl : linearIndex idx dims with
              | error e => simp only [hl, M.fail] at h; cases h
              | ok i =>
                simp only [hl, arrayStore] at h hs
                by_cases hi : i < cells.length
                · rw [if_pos hi] at hs; simp at hs
                · rw [if_neg hi] at h; simp only [M.rpanic] at h; cases h
          | nums dims cells =>
            cases v with
            | str x => simp only [M.fail] at h; cases h
            | num x =>
              have hd : (ArrayV.nums (F := F) dims cells).dims = dims := rfl
              rw [hd] at hs
              cases hl : linearIndex idx dims with
              | error e => simp only [hl, M.fail] at h; cases h
              | ok i =>
                simp only [hl, arrayStore] at h hs
                by_cases hi : i < cells.length
                · rw [if_pos hi] at hs; simp at hs
                · rw [if_neg hi] at h; simp only [M.rpanic] at h; cases h
    · simp only [hm, Bool.not_false, ↓reduceIte, M.fail] at h; cases h

/-! ### the warning about an undeclared array -/

def warnOut (name : Str) (σ : St F) : List Out :=
  if σ.warnings && !alHas name σ.arrays then
    [.warning ("Use of undeclared array '".toList ++ name ++ "'.".toList) σ.loc.line]
  else []

omit [NumOps F] in
theorem warnOut_off {name : Str} {σ : St F} (h : σ.warnings = false) : warnOut name σ = [] := by
  simp only [warnOut, h, Bool.false_and, Bool.false_eq_true, ↓reduceIte]

omit [NumOps F] in
theorem warnUndeclaredArray_eq (name : Str) (σ : St F) :
    warnUndeclaredArray name σ = .ok () { σ with out := warnOut name σ ++ σ.out } := by
  unfold warnUndeclaredArray warnOut
  simp only [bind, M.bindM, M.get]
  by_cases hw : (σ.warnings && !alHas name σ.arrays) = true
  · rw [if_pos hw, if_pos hw]
    have hw' : σ.warnings = true := by
      simp only [Bool.and_eq_true] at hw; exact hw.1
    simp only [warn, bind, M.bindM, M.get, hw', ↓reduceIte, emit, M.modify, List.cons_append, List.nil_append]
  · rw [if_neg hw, if_neg hw]; rfl

/-! ### subscripts written as expression trees -/

omit [NumOps F] in
/-- no token of a rendered expression is the INPUT keyword -/
theorem render_not_input (e : Expr F) : ∀ t ∈ render e, t.isKw .Input = false := by
  have hparen : ∀ x : Expr F, (∀ t ∈ render x, t.isKw .Input = false) →
      ∀ t ∈ (Token.kw .LeftParen :: (render x ++ [Token.kw .RightParen])), t.isKw .Input = false := by
    intro x ih t ht
    simp only [List.mem_cons, List.mem_append, List.not_mem_nil, or_false] at ht
    rcases ht with rfl | ht | rfl
    · rfl
    · exact ih t ht
    · rfl
  have hfix : ∀ (p : Nat) (x : Expr F), (∀ t ∈ render x, t.isKw .Input = false) →
      ∀ t ∈ render (fixP p x), t.isKw .Input = false := by
    intro p x ih
    unfold fixP; split
    · rw [render_paren]; exact hparen x ih
    · exact ih
  induction e with
  | num x => intro t ht; rw [render_num] at ht; simp only [List.mem_singleton] at ht; subst ht; rfl
  | str s => intro t ht; rw [render_str] at ht; simp only [List.mem_singleton] at ht; subst ht; rfl
  | var n => intro t ht; rw [render_var] at ht; simp only [List.mem_singleton] at ht; subst ht; rfl
  | paren x ih => rw [render_paren]; exact hparen x ih
  | abs x ih =>
    rw [render_abs]; intro t ht
    rcases List.mem_cons.mp ht with rfl | ht
    · rfl
    · exact hparen x ih t ht
  | int x ih =>
    rw [render_int]; intro t ht
    rcases List.mem_cons.mp ht with rfl | ht
    · rfl
    · exact hparen x ih t ht
  | un op x ih =>
    rw [render_un]; intro t ht
    rcases List.mem_cons.mp ht with rfl | ht
    · cases op <;> rfl
    · exact hfix 8 x ih t ht
  | bin op l r ihl ihr =>
    rw [render_bin]; intro t ht
    rcases List.mem_append.mp ht with ht | ht
    · exact hfix _ l ihl t ht
    · rcases List.mem_cons.mp ht with rfl | ht
      · cases op with
        | cmp c => cases c <;> rfl
        | _ => rfl
      · exact hfix _ r ihr t ht

/-- the tokens of a subscript list, without the brackets -/
def renderSubs : List (Expr F) → List (Token F)
  | [] => []
  | [e] => render e
  | e :: e' :: es => render e ++ .kw .Comma :: renderSubs (e' :: es)

omit [NumOps F] in
theorem renderSubs_not_input : ∀ (subs : List (Expr F)), ∀ t ∈ renderSubs subs, t.isKw .Input = false
  | [] => by intro t ht; simp [renderSubs] at ht
  | [e] => by intro t ht; rw [renderSubs] at ht; exact render_not_input e t ht
  | e :: e' :: es => by
    intro t ht
    rw [renderSubs] at ht
    rcases List.mem_append.mp ht with ht | ht
    · exact render_not_input e t ht
    · rcases List.mem_cons.mp ht with rfl | ht
      · rfl
      · exact renderSubs_not_input (e' :: es) t ht

/-- the value of one subscript: a number whose `as i64` is not negative -/
def subVal (env : Str → Value F) (e : Expr F) : Option Nat :=
  match foldE env e with
  | .ok (.num x) => if NumOps.toI64 x < 0 then none else some (NumOps.toI64 x).toNat
  | _ => none

/-- the values of a subscript list -/
def subsVal (env : Str → Value F) : List (Expr F) → Option (List Nat)
  | [] => some []
  | e :: es =>
    match subVal env e, subsVal env es with
    | some i, some is => some (i :: is)
    | _, _ => none

theorem subVal_some {env : Str → Value F} {e : Expr F} {i : Nat} (h : subVal env e = some i) :
    ∃ x, foldE env e = .ok (.num x) ∧ ¬ NumOps.toI64 x < 0 ∧ i = (NumOps.toI64 x).toNat := by
  unfold subVal at h
  cases hf : foldE env e with
  | error err => simp only [hf] at h; cases h
  | ok v =>
    cases v with
    | str s => simp only [hf] at h; cases h
    | num x =>
      simp only [hf] at h
      by_cases hx : NumOps.toI64 x < 0
      · rw [if_pos hx] at h; cases h
      · rw [if_neg hx] at h
        simp only [Option.some.injEq] at h
        exact ⟨x, rfl, hx, h.symm⟩

/-- room for every subscript: fuel and nesting levels -/
def SubsFit (f : Nat) (σ : St F) (subs : List (Expr F)) : Prop :=
  ∀ e ∈ subs, depth e + 1 ≤ f ∧ σ.nesting + (depth e + 1) ≤ Extracted.nestingLimit

/-- one pass of the subscript loop -/
theorem arrayIndexLoop_step (f k : Nat) (acc : List Nat) (σ : St F) (pre rest : List (Token F))
    (e : Expr F) (i : Nat)
    (hAt : At σ pre (render e ++ rest)) (hq : Quiet σ)
    (hd : depth e + 1 ≤ f) (hn : σ.nesting + (depth e + 1) ≤ Extracted.nestingLimit)
    (hE : Ends 6 rest) (hv : subVal (getVar σ) e = some i) :
    ∃ r, σ.reads < r ∧
      arrayIndexLoop (evalN f) (k + 1) acc σ =
        (accept .Comma >>= fun b => if b then arrayIndexLoop (evalN f) k (acc ++ [i]) else pure (acc ++ [i]))
          (mv σ (render e).length r) := by
  obtain ⟨x, hx, hneg, hi⟩ := subVal_some hv
  have hX := expr_eq e (main e).1 f σ pre rest hd hn hE hAt hq
  rw [hx] at hX
  obtain ⟨r, hr, hσ'⟩ := hX
  refine ⟨r, hr, ?_⟩
  rw [arrayIndexLoop, bind_ok hσ']
  simp only [hneg, ↓reduceIte, hi]

theorem arrayIndexLoop_render (f : Nat) : ∀ (es : List (Expr F)) (e : Expr F) (k : Nat) (acc : List Nat)
    (σ : St F) (pre rest : List (Token F)) (idx : List Nat),
    At σ pre (renderSubs (e :: es) ++ .kw .RightParen :: rest) → Quiet σ → SubsFit f σ (e :: es) →
    subsVal (getVar σ) (e :: es) = some idx →
    ∃ r, σ.reads < r ∧
      arrayIndexLoop (evalN f) (k + (e :: es).length) acc σ =
        .ok (acc ++ idx) (mv σ (renderSubs (e :: es)).length r) := by
  intro es
  induction es with
  | nil =>
    intro e k acc σ pre rest idx hAt hq hfit hv
    have hAt' : At σ pre (render e ++ .kw .RightParen :: rest) := by rw [renderSubs] at hAt; exact hAt
    obtain ⟨hd, hn⟩ := hfit e List.mem_cons_self
    cases hsv : subVal (getVar σ) e with
    | none => simp only [subsVal, hsv] at hv; cases hv
    | some i =>
      simp only [subsVal, hsv, Option.some.injEq] at hv
      subst hv
      obtain ⟨r, hr, hstep⟩ := arrayIndexLoop_step f k acc σ pre _ e i hAt' hq hd hn (ends_rparen 6 rest) hsv
      refine ⟨r + 1, by omega, ?_⟩
      show arrayIndexLoop (evalN f) (k + 1) acc σ = _
      rw [hstep]
      have hAt2 : At (mv σ (render e).length r) (pre ++ render e) (.kw .RightParen :: rest) := at_mv hAt' r
      rw [bind_ok (accept_false hAt2 rfl), mv_mv]
      simp only [Bool.false_eq_true, ↓reduceIte, renderSubs, mv_reads, Nat.add_zero]
      rfl
  | cons e' es ih =>
    intro e k acc σ pre rest idx hAt hq hfit hv
    have hAt' : At σ pre (render e ++ (.kw .Comma :: (renderSubs (e' :: es) ++ .kw .RightParen :: rest))) := by
      rw [renderSubs, List.append_assoc] at hAt; exact hAt
    obtain ⟨hd, hn⟩ := hfit e List.mem_cons_self
    cases hsv : subVal (getVar σ) e with
    | none => simp only [subsVal, hsv] at hv; cases hv
    | some i =>
      cases hsv' : subsVal (getVar σ) (e' :: es) with
      | none => rw [subsVal, hsv, hsv'] at hv; cases hv
      | some is =>
        rw [subsVal, hsv, hsv'] at hv
        simp only [Option.some.injEq] at hv
        subst hv
        obtain ⟨r, hr, hstep⟩ := arrayIndexLoop_step f (k + (e' :: es).length) acc σ pre _ e i hAt' hq hd hn
          (ends_comma 6 _) hsv
        have hAt2 := at_mv hAt' r
        have hAt3 := at_mv1 hAt2 (r + 1)
        rw [mv_mv] at hAt3
        obtain ⟨r', hr', hrec⟩ := ih e' k (acc ++ [i]) (mv σ ((render e).length + 1) (r + 1)) _ rest is hAt3
          (hq.mv _ _) (fun x hx => hfit x (List.mem_cons_of_mem _ hx)) (by rw [getVar_mv]; exact hsv')
        refine ⟨r', by simp only [mv_reads] at hr'; omega, ?_⟩
        show arrayIndexLoop (evalN f) (k + (e' :: es).length + 1) acc σ = _
        rw [hstep, bind_ok (accept_true hAt2 rfl), mv_mv]
        simp only [↓reduceIte, mv_reads]
        rw [hrec, mv_mv, List.append_assoc]
        simp only [List.singleton_append]
        congr 1
        apply mv_congr
        rw [renderSubs, List.length_append, List.length_cons]
        omega

omit [NumOps F] in
theorem renderSubs_length_ge : ∀ (subs : List (Expr F)), subs.length ≤ (renderSubs subs).length
  | [] => Nat.le_refl _
  | [e] => by rw [renderSubs]; exact render_pos e
  | e :: e' :: es => by
    have := renderSubs_length_ge (e' :: es)
    have := render_pos e
    rw [renderSubs, List.length_append, List.length_cons]
    simp only [List.length_cons] at *
    omega

/-- **`evaluate_array_index` on `( e₁ , … , eₙ )`**: the folded subscripts; only the
    cursor and the read counter move. -/
theorem arrayIndex_render (f : Nat) (e : Expr F) (es : List (Expr F)) (σ : St F) (pre rest : List (Token F))
    (idx : List Nat)
    (hAt : At σ pre (.kw .LeftParen :: (renderSubs (e :: es) ++ .kw .RightParen :: rest))) (hq : Quiet σ)
    (hfit : SubsFit f σ (e :: es)) (hv : subsVal (getVar σ) (e :: es) = some idx) :
    ∃ r, σ.reads < r ∧
      arrayIndex (evalN f) σ = .ok idx (mv σ (1 + (renderSubs (e :: es)).length + 1) r) := by
  have hAt1 := at_mv1 hAt (σ.reads + 1)
  have hlen : (e :: es).length ≤ (pre ++ .kw .LeftParen :: (renderSubs (e :: es) ++ .kw .RightParen :: rest)).length + 1 := by
    have := renderSubs_length_ge (e :: es)
    simp only [List.length_append, List.length_cons] at *
    omega
  obtain ⟨k, hk⟩ : ∃ k, (pre ++ .kw .LeftParen :: (renderSubs (e :: es) ++ .kw .RightParen :: rest)).length + 1
      = k + (e :: es).length := ⟨_, (Nat.sub_add_cancel hlen).symm⟩
  obtain ⟨r, hr, hloop⟩ := arrayIndexLoop_render f es e k [] (mv σ 1 (σ.reads + 1)) _ rest idx hAt1 (hq.mv _ _)
    hfit (by rw [getVar_mv]; exact hv)
  simp only [mv_reads, mv_mv, List.nil_append] at hr hloop
  refine ⟨r + 1, by omega, ?_⟩
  unfold arrayIndex
  rw [bind_ok (expect_eq hAt rfl), bind_ok (lineBudget_eq (by rw [lineToks_mv]; exact hAt.1)), hk,
    bind_ok hloop]
  have hAt2 : At (mv σ (1 + (renderSubs (e :: es)).length) r) (pre ++ [.kw .LeftParen] ++ renderSubs (e :: es))
      (.kw .RightParen :: rest) := by
    have := at_mv hAt1 r
    rwa [mv_mv] at this
  rw [bind_ok (expect_eq hAt2 rfl), mv_mv]
  rfl

/-! ### association lists; what `storeCell` leaves alone -/

omit [NumOps F] in
theorem alGet_alSet_same {β : Type} (k : Str) (v : β) (l : List (Str × β)) :
    alGet k (alSet k v l) = some v := by
  induction l with
  | nil => simp [alSet, alGet]
  | cons p ps ih =>
    obtain ⟨k', v'⟩ := p
    by_cases hk : k' = k
    · simp [alSet, alGet, hk]
    · have hb : (k' == k) = false := by simpa using hk
      simp [alSet, alGet, hb, ih]

omit [NumOps F] in
theorem alGet_alSet_other {β : Type} (k n : Str) (v : β) (l : List (Str × β)) (h : n ≠ k) :
    alGet n (alSet k v l) = alGet n l := by
  have hb : (k == n) = false := by simpa using fun e => h e.symm
  induction l with
  | nil => simp [alSet, alGet, hb]
  | cons p ps ih =>
    obtain ⟨k', v'⟩ := p
    by_cases hk : k' = k
    · have hb' : (k' == n) = false := by rw [hk]; exact hb
      simp [alSet, alGet, hk, hb]
    · have hkb : (k' == k) = false := by simpa using hk
      by_cases hn : k' = n
      · subst hn; simp [alSet, alGet, hkb]
      · have hnb : (k' == n) = false := by simpa using hn
        simp [alSet, alGet, hkb, hnb, ih]

theorem ensureArrays_other {name : Str} {arity : Nat} {arrays arrs : List (Str × ArrayV F)}
    (h : ensureArrays name arity arrays = .ok arrs) (y : Str) (hy : y ≠ name) :
    alGet y arrs = alGet y arrays := by
  unfold ensureArrays at h
  by_cases hh : alHas name arrays = true
  · rw [if_pos hh] at h
    simp only [Except.ok.injEq] at h
    rw [h]
  · rw [if_neg hh] at h
    cases hc : ArrayV.create (F := F) name (List.replicate arity Extracted.defaultArraySize) with
    | error e => rw [hc] at h; cases h
    | ok a =>
      rw [hc] at h
      simp only [Except.ok.injEq] at h
      rw [← h, alGet_alSet_other _ _ _ _ hy]

/-- what a successful `storeCell` did: the array existed or was created with the
    default size; cell `i` (the linear index of the subscripts) now holds the
    value; every other array is as before. -/
theorem storeCell_spec {name : Str} {idx : List Nat} {v : Value F} {arrays arrs' : List (Str × ArrayV F)}
    (h : storeCell name idx v arrays = some arrs') :
    v.matchesName name = true ∧
    ∃ arrs a i a', ensureArrays name idx.length arrays = .ok arrs ∧ alGet name arrs = some a ∧
      linearIndex idx a.dims = .ok i ∧ arrayStore a i v = some a' ∧
      arrs' = alSet name a' arrs ∧ alGet name arrs' = some a' ∧
      ∀ y, y ≠ name → alGet y arrs' = alGet y arrays := by
  unfold storeCell at h
  by_cases hm : v.matchesName name = true
  · rw [if_pos hm] at h
    refine ⟨hm, ?_⟩
    cases he : ensureArrays name idx.length arrays with
    | error e => rw [he] at h; cases h
    | ok arrs =>
      rw [he] at h
      cases hg : alGet name arrs with
      | none => simp only [hg] at h; cases h
      | some a =>
        simp only [hg] at h
        cases hl : linearIndex idx a.dims with
        | error e => simp only [hl] at h; cases h
        | ok i =>
          simp only [hl] at h
          cases hs : arrayStore a i v with
          | none => simp only [hs, Option.map_none] at h; cases h
          | some a' =>
            simp only [hs, Option.map_some, Option.some.injEq] at h
            refine ⟨arrs, a, i, a', rfl, hg, hl, hs, h.symm, ?_, ?_⟩
            · rw [← h, alGet_alSet_same]
            · intro y hy
              rw [← h, alGet_alSet_other _ _ _ _ hy, ensureArrays_other he y hy]
  · rw [if_neg hm] at h; cases h

/-- the value in cell `i` of an array -/
def arrayCell (a : ArrayV F) (i : Nat) : Option (Value F) :=
  match a with
  | .strs _ cells => cells[i]?.map Value.str
  | .nums _ cells => cells[i]?.map Value.num

omit [NumOps F] in
/-- `arrayStore` writes exactly cell `i`: it now holds `v`, the dimensions and
    every other cell are as before. -/
theorem arrayStore_cell {a a' : ArrayV F} {i : Nat} {v : Value F} (h : arrayStore a i v = some a') :
    arrayCell a' i = some v ∧ a'.dims = a.dims ∧ ∀ j, j ≠ i → arrayCell a' j = arrayCell a j := by
  unfold arrayStore at h
  cases a with
  | strs dims cells =>
    cases v with
    | num x => cases h
    | str x =>
      simp only at h
      by_cases hi : i < cells.length
      · rw [if_pos hi] at h
        simp only [Option.some.injEq] at h
        subst h
        refine ⟨?_, rfl, fun j hj => ?_⟩
        · simp only [arrayCell, List.getElem?_set_self hi, Option.map_some]
        · simp only [arrayCell, List.getElem?_set_ne (Ne.symm hj)]
      · rw [if_neg hi] at h; cases h
  | nums dims cells =>
    cases v with
    | str x => cases h
    | num x =>
      simp only at h
      by_cases hi : i < cells.length
      · rw [if_pos hi] at h
        simp only [Option.some.injEq] at h
        subst h
        refine ⟨?_, rfl, fun j hj => ?_⟩
        · simp only [arrayCell, List.getElem?_set_self hi, Option.map_some]
        · simp only [arrayCell, List.getElem?_set_ne (Ne.symm hj)]
      · rw [if_neg hi] at h; cases h

end Abasic.InputL
