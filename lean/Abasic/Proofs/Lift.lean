import Abasic.Proofs.Prims
/-
  Lifting `Respects R` from the primitives to every function of the evaluator,
  for every frame `R` with `[Prims R]`.
-/
set_option linter.unusedSectionVars false

namespace Abasic.Hoare
open Abasic M

variable {F : Type} {R : St F → St F → Prop} [Prims R]

/-! ### Program.lean -/

theorem respects_next : Respects R (next (F := F)) := by
  unfold next
  respects_tac
macro_rules | `(tactic| respects_prim) => `(tactic| exact respects_next)

theorem respects_hasNext : Respects R (hasNext (F := F)) := by
  unfold hasNext
  respects_tac
macro_rules | `(tactic| respects_prim) => `(tactic| exact respects_hasNext)

theorem respects_nextUnwrapped : Respects R (nextUnwrapped (F := F)) := by
  unfold nextUnwrapped
  respects_tac
macro_rules | `(tactic| respects_prim) => `(tactic| exact respects_nextUnwrapped)

theorem respects_expect (k : Kw) : Respects R (expect (F := F) k) := by
  unfold expect
  respects_tac
macro_rules | `(tactic| respects_prim) => `(tactic| exact respects_expect _)

theorem respects_accept (k : Kw) : Respects R (accept (F := F) k) := by
  unfold accept
  respects_tac
macro_rules | `(tactic| respects_prim) => `(tactic| exact respects_accept _)

theorem respects_peekIsKw (k : Kw) : Respects R (peekIsKw (F := F) k) := by
  unfold peekIsKw
  respects_tac
macro_rules | `(tactic| respects_prim) => `(tactic| exact respects_peekIsKw _)

theorem respects_tryNext {α : Type} (f : Token F → Option α) : Respects R (tryNext f) := by
  unfold tryNext
  respects_tac
macro_rules | `(tactic| respects_prim) => `(tactic| exact respects_tryNext _)

theorem respects_continueFromBreakpoint : Respects R (continueFromBreakpoint (F := F)) := by
  unfold continueFromBreakpoint
  respects_tac
macro_rules | `(tactic| respects_prim) => `(tactic| exact respects_continueFromBreakpoint)

/-! ### Arrays.lean / Expr.lean -/

variable [NumOps F]

theorem respects_arrayGet (name : Str) (idx : List Nat) : Respects R (arrayGet (F := F) name idx) := by
  unfold arrayGet
  respects_tac
macro_rules | `(tactic| respects_prim) => `(tactic| exact respects_arrayGet _ _)

omit [NumOps F] in
theorem respects_lineBudget : Respects R (lineBudget (F := F)) := by
  unfold lineBudget
  respects_tac
macro_rules | `(tactic| respects_prim) => `(tactic| exact respects_lineBudget)

omit [NumOps F] in
theorem respects_warn (msg : Str) : Respects R (warn (F := F) msg) := by
  unfold warn
  respects_tac
macro_rules | `(tactic| respects_prim) => `(tactic| exact respects_warn _)

omit [NumOps F] in
theorem respects_warnUndeclaredArray (name : Str) : Respects R (warnUndeclaredArray (F := F) name) := by
  unfold warnUndeclaredArray
  respects_tac
macro_rules | `(tactic| respects_prim) => `(tactic| exact respects_warnUndeclaredArray _)

section evaluator
variable (ev : Evals F) (he : Respects R ev.expr)
include he

theorem respects_arrayIndexLoop (n : Nat) (acc : List Nat) : Respects R (arrayIndexLoop ev n acc) := by
  induction n generalizing acc with
  | zero => unfold arrayIndexLoop; respects_tac
  | succ n ih => unfold arrayIndexLoop; respects_tac

theorem respects_arrayIndex : Respects R (arrayIndex ev) := by
  unfold arrayIndex
  have := respects_arrayIndexLoop ev he
  respects_tac

theorem respects_numberFunctionArg : Respects R (numberFunctionArg ev) := by
  unfold numberFunctionArg
  respects_tac

theorem respects_bindArgs (arity : Nat) (args : List Str) (i : Nat) (acc : List (Str × Value F)) :
    Respects R (bindArgs ev arity args i acc) := by
  induction args generalizing i acc with
  | nil => unfold bindArgs; respects_tac
  | cons a rest ih => unfold bindArgs; respects_tac

theorem respects_userFunctionCall (name : Str) : Respects R (userFunctionCall ev name) := by
  unfold userFunctionCall
  have := respects_bindArgs ev he
  respects_tac

theorem respects_functionCall (name : Str) : Respects R (functionCall ev name) := by
  unfold functionCall
  have := respects_numberFunctionArg ev he
  have := respects_userFunctionCall ev he
  respects_tac

theorem respects_term : Respects R (term ev) := by
  unfold term
  have := respects_functionCall ev he
  have := respects_arrayIndex ev he
  respects_tac

theorem respects_parenExpr : Respects R (parenExpr ev) := by
  unfold parenExpr
  have := respects_term ev he
  respects_tac

theorem respects_unaryExpr : Respects R (unaryExpr ev) := by
  unfold unaryExpr
  have := respects_parenExpr ev he
  respects_tac

omit he in
theorem respects_levelLoop {sub : M F (Value F)} (hs : Respects R sub) (ops : Token F → Option BinOp)
    (n : Nat) (v : Value F) : Respects R (levelLoop sub ops n v) := by
  induction n generalizing v with
  | zero => unfold levelLoop; respects_tac
  | succ n ih => unfold levelLoop; respects_tac

omit he in
theorem respects_level {sub : M F (Value F)} (hs : Respects R sub) (ops : Token F → Option BinOp) :
    Respects R (level sub ops) := by
  unfold level
  have := respects_levelLoop (R := R) hs ops
  respects_tac

theorem respects_orExpr : Respects R (orExpr ev) := by
  unfold orExpr
  exact respects_level (respects_level (respects_level (respects_level (respects_level (respects_level
    (respects_unaryExpr ev he) _) _) _) _) _) _

theorem respects_exprBody : Respects R (exprBody ev) := by
  unfold exprBody
  exact Prims.nested (respects_orExpr ev he)

/-! ### Stmt.lean -/

theorem respects_optionalArrayIndex : Respects R (optionalArrayIndex ev) := by
  unfold optionalArrayIndex
  have := respects_arrayIndex ev he
  respects_tac

omit he in
theorem respects_assignValue (lv : LValue) (v : Value F) : Respects R (assignValue lv v) := by
  unfold assignValue
  respects_tac

theorem respects_assignmentStatement (name : Str) : Respects R (assignmentStatement ev name) := by
  unfold assignmentStatement
  have := respects_optionalArrayIndex ev he
  have := respects_assignValue (R := R) (F := F)
  respects_tac

theorem respects_letStatement : Respects R (letStatement ev) := by
  unfold letStatement
  have := respects_assignmentStatement ev he
  respects_tac

theorem respects_parseLValue : Respects R (parseLValue ev) := by
  unfold parseLValue
  have := respects_optionalArrayIndex ev he
  respects_tac

omit he in
theorem respects_gotoStatement : Respects R (gotoStatement (F := F)) := by
  unfold gotoStatement
  respects_tac

omit he in
theorem respects_gosubStatement : Respects R (gosubStatement (F := F)) := by
  unfold gosubStatement
  respects_tac

variable (hs : Respects R ev.stmt)
include hs

omit he in
theorem respects_statementOrGoto : Respects R (statementOrGoto ev) := by
  unfold statementOrGoto
  have := respects_gotoStatement (R := R) (F := F)
  respects_tac

omit he in
theorem respects_ifSkipLoop (n : Nat) : Respects R (ifSkipLoop ev n) := by
  have := respects_statementOrGoto ev hs
  induction n with
  | zero => unfold ifSkipLoop; respects_tac
  | succ n ih => unfold ifSkipLoop; respects_tac

theorem respects_ifStatement : Respects R (ifStatement ev) := by
  unfold ifStatement
  have := respects_statementOrGoto ev hs
  have := respects_ifSkipLoop ev hs
  respects_tac

omit hs in
theorem respects_readLoop (n : Nat) : Respects R (readLoop ev n) := by
  have := respects_parseLValue ev he
  have := respects_assignValue (R := R) (F := F)
  induction n with
  | zero => unfold readLoop; respects_tac
  | succ n ih => unfold readLoop; respects_tac

omit hs in
theorem respects_readStatement : Respects R (readStatement ev) := by
  unfold readStatement
  have := respects_readLoop ev he
  respects_tac

omit hs in
theorem respects_inputStatement : Respects R (inputStatement ev) := by
  unfold inputStatement
  have := respects_parseLValue ev he
  have := respects_assignValue (R := R) (F := F)
  respects_tac

omit hs in
theorem respects_dimStatement : Respects R (dimStatement ev) := by
  unfold dimStatement
  have := respects_parseLValue ev he
  respects_tac

omit hs in
theorem respects_printLoop (n : Nat) (semi : Bool) (acc : Str) : Respects R (printLoop ev n semi acc) := by
  induction n generalizing semi acc with
  | zero => unfold printLoop; respects_tac
  | succ n ih => unfold printLoop; respects_tac

omit hs in
theorem respects_printStatement : Respects R (printStatement ev) := by
  unfold printStatement
  have := respects_printLoop ev he
  respects_tac

omit hs in
theorem respects_forStatement : Respects R (forStatement ev) := by
  unfold forStatement
  respects_tac

omit he hs in
theorem respects_nextStatement : Respects R (nextStatement (F := F)) := by
  unfold nextStatement
  respects_tac

omit he hs in
theorem respects_defArgsLoop (n : Nat) (acc : List Str) : Respects R (defArgsLoop (F := F) n acc) := by
  induction n generalizing acc with
  | zero => unfold defArgsLoop; respects_tac
  | succ n ih => unfold defArgsLoop; respects_tac

omit he hs in
theorem respects_skipToColonLoop (n : Nat) : Respects R (skipToColonLoop (F := F) n) := by
  induction n with
  | zero => unfold skipToColonLoop; respects_tac
  | succ n ih => unfold skipToColonLoop; respects_tac

omit he hs in
theorem respects_defStatement : Respects R (defStatement (F := F)) := by
  unfold defStatement
  have := respects_defArgsLoop (R := R) (F := F)
  have := respects_skipToColonLoop (R := R) (F := F)
  respects_tac

omit he hs in
theorem respects_breakAtCurrentLocation : Respects R (breakAtCurrentLocation (F := F)) := by
  unfold breakAtCurrentLocation
  apply respects_modify
  intro σ
  exact IsFrame.trans (b := { σ with state := .idle, out := .brk σ.loc.line :: σ.out })
    (Prims.sub (rns_same rfl rfl rfl)) (Prims.progBreak _)

omit he hs in
theorem respects_traceHere : Respects R (traceHere (F := F)) := by
  unfold traceHere
  respects_tac

theorem respects_dispatch : Respects R (dispatch ev) := by
  unfold dispatch
  have := respects_assignmentStatement ev he
  have := respects_dimStatement ev he
  have := respects_printStatement ev he
  have := respects_inputStatement ev he
  have := respects_ifStatement ev he hs
  have := respects_gotoStatement (R := R) (F := F)
  have := respects_gosubStatement (R := R) (F := F)
  have := respects_forStatement ev he
  have := respects_nextStatement (R := R) (F := F)
  have := respects_defStatement (R := R) (F := F)
  have := respects_readStatement ev he
  have := respects_letStatement ev he
  have := respects_breakAtCurrentLocation (R := R) (F := F)
  respects_tac

theorem respects_stmtBody : Respects R (stmtBody ev) := by
  unfold stmtBody
  have := respects_traceHere (R := R) (F := F)
  have := respects_dispatch ev he hs
  respects_tac

end evaluator

/-- The knot: every fuel level respects `R`. -/
theorem respects_evalN (n : Nat) :
    Respects R (evalN (F := F) n).expr ∧ Respects R (evalN (F := F) n).stmt := by
  induction n with
  | zero => exact ⟨respects_fail _, respects_fail _⟩
  | succ n ih => exact ⟨respects_exprBody _ ih.1, respects_stmtBody _ ih.1 ih.2⟩

/-! ### Interp.lean: the host API -/

theorem respects_runNextStatement (fuel : Nat) : Respects R (runNextStatement (F := F) fuel) := by
  unfold runNextStatement
  have := (respects_evalN (R := R) (F := F) fuel)
  have := respects_stmtBody (R := R) _ this.1 this.2
  respects_tac

section host
variable {R : St F → St F → Prop} [HostPrims R]

theorem respects_maybeProcessCommand (fuel : Nat) (line : Str) :
    Respects R (maybeProcessCommand (F := F) fuel line) := by
  unfold maybeProcessCommand
  have := respects_runNextStatement (R := R) (F := F)
  have hrun : Respects R (M.modify fun s : St F =>
      ({ s with input := none, vars := [], arrays := [] }).runFromFirst) := by
    apply respects_modify
    intro σ
    exact IsFrame.trans (b := { σ with input := none, vars := [], arrays := [] })
      (Prims.sub (rns_same rfl rfl rfl)) (HostPrims.runFromFirst _)
  respects_tac

theorem respects_evaluateImpl (fuel : Nat) (line : Str) : Respects R (evaluateImpl (F := F) fuel line) := by
  unfold evaluateImpl
  have := respects_runNextStatement (R := R) (F := F)
  have := respects_maybeProcessCommand (R := R) (F := F)
  have hset : ∀ n ts, Respects R (M.modify fun s : St F => s.setNumberedLine n ts) := by
    intro n ts
    apply respects_modify
    intro σ
    exact HostPrims.setNumberedLine σ n ts
  respects_tac

theorem respects_startEvaluating (fuel : Nat) (line : Str) : Respects R (startEvaluating (F := F) fuel line) := by
  unfold startEvaluating
  exact respects_postprocess (fun σ => Prims.sub (rns_same rfl rfl rfl)) (respects_evaluateImpl fuel line)

theorem respects_continueEvaluating (fuel : Nat) : Respects R (continueEvaluating (F := F) fuel) := by
  unfold continueEvaluating
  have := respects_postprocess (R := R) (fun σ => Prims.sub (rns_same rfl rfl rfl)) (respects_runNextStatement (F := F) fuel)
  respects_tac

omit [NumOps F] in
theorem respects_provideInput (text : Str) : Respects R (provideInput (F := F) text) :=
  Respects.mono (fun _ _ => Prims.sub) (rns_provideInput text)

theorem respects_randomize (seed : Nat) : Respects R (randomize (F := F) seed) :=
  Respects.mono (fun _ _ => Prims.sub) (rns_randomize seed)

end host

end Abasic.Hoare
